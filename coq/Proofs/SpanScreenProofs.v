(* The span screen (Model/SpanScreen.v) simulates the cell screen (Model/Screen.v):
   invariant, and one simulation lemma per primitive:
     SInv s -> (no finding mark fires) -> SInv (prim s) /\ abs (prim s) = prim_cell (abs s)
   callbacks included. *)
From Coq Require Import List ZArith Bool Lia.
From Termemu Require Import Base Style Screen Parser BaseLemmas ScreenInv RowLemmas Span SpanText SpanRows SpanProofs
  SpanRefine SpanScreen SpanTail TrigMono.
Import ListNotations.
Open Scope Z_scope.

(* ---------- list helpers ---------- *)
Lemma map_zfirstn {A B} (f : A -> B) n l : map f (zfirstn n l) = zfirstn n (map f l).
Proof. unfold zfirstn. symmetry. apply firstn_map. Qed.
Lemma map_zskipn {A B} (f : A -> B) n l : map f (zskipn n l) = zskipn n (map f l).
Proof. unfold zskipn. symmetry. apply skipn_map. Qed.
Lemma map_zupd {A B} (f : A -> B) i a l : map f (zupd i a l) = zupd i (f a) (map f l).
Proof.
  unfold zupd. rewrite zlen_map. destruct ((i <? 0) || (zlen l <=? i)); [reflexivity|].
  rewrite map_app. cbn [map]. rewrite map_zfirstn, map_zskipn. reflexivity.
Qed.
Lemma znth_map_d {A B} (f : A -> B) n l d : f d = f d -> 0 <= n < zlen l -> znth n (map f l) (f d) = f (znth n l d).
Proof. intros _ H. apply znth_map. exact H. Qed.

Section WithOracle.
  Variable wc : Z -> Z.
  Hypothesis Hmb : wc_multibyte wc.
  Notation abs := (abs_sscreen wc).
  Notation abs_line := (abs_line wc).

  (* ---------- the invariant ---------- *)
  Definition line_ok (W : Z) (l : spanline) : Prop := wf_line wc W l /\ safe_line wc l.
  Definition LinesOk (s : sscreen) : Prop := Forall (line_ok (zW s)) (zlines s).
  Definition SInv (s : sscreen) : Prop := Inv (abs s) /\ LinesOk s.

  (* [sf] on span screens simulates [f] on cell screens, as long as [f] fires no finding mark *)
  Definition Sim (sf : sscreen -> sscreen) (f : screen -> screen) : Prop :=
    forall s, SInv s -> trig (f (abs s)) = 0 -> SInv (sf s) /\ abs (sf s) = f (abs s).

  (* the same without the condition: primitives that never fire a mark *)
  Definition SimU (sf : sscreen -> sscreen) (f : screen -> screen) : Prop :=
    forall s, SInv s -> SInv (sf s) /\ abs (sf s) = f (abs s).
  Lemma SimU_Sim sf f : SimU sf f -> Sim sf f.
  Proof. intros H s Hs _. apply H, Hs. Qed.

  Lemma Sim_comp sf f sg g : Sim sf f -> Sim sg g -> (forall s, trig (g s) = 0 -> trig s = 0) -> Sim (fun s => sg (sf s)) (fun s => g (f s)).
  Proof.
    intros Hf Hg Mg s Hs Ht. cbv beta in *.
    destruct (Hf s Hs (Mg _ Ht)) as (I1 & E1). rewrite <- E1 in Ht.
    destruct (Hg (sf s) I1 Ht) as (I2 & E2). split; [exact I2|]. rewrite E2, E1. reflexivity.
  Qed.
  Lemma Sim_id : Sim (fun s => s) (fun s => s).
  Proof. intros s Hs _. auto. Qed.

  Lemma line_ok_len W l : line_ok W l -> zlen (abs_line l) = W.
  Proof.
    intros [Hw Hs]. destruct (good_of_wf wc W l Hw Hs) as (Hg & HW & _).
    destruct (abs_line_gl wc l Hg) as (_ & L & _). lia.
  Qed.

  Lemma abs_blank_span st n : abs_span wc (blank_span st n) = zrepeat (blank st) n.
  Proof.
    unfold abs_span, blank_span, mk_span, is_text. cbn [sp_width sp_text sp_rune sp_sty nonempty].
    destruct (Z.leb_spec n 0); [rewrite zrepeat_0 by lia; reflexivity|reflexivity].
  Qed.
  Lemma abs_blank_line W st : abs_line (blank_span_line W st) = blank_row W st.
  Proof.
    unfold Span.abs_line, blank_span_line, abs_spans. cbn [sl_spans flat_map]. rewrite app_nil_r. apply abs_blank_span.
  Qed.
  Lemma line_ok_blank W st : 1 <= W -> line_ok W (blank_span_line W st).
  Proof.
    intros HW. destruct (gl_blank_span wc st W ltac:(lia)) as [Gb _].
    apply (wf_of_good wc); [constructor; [exact Gb|constructor]|cbn; lia|reflexivity].
  Qed.

  (* what the invariant says *)
  Lemma SInv_lines s : SInv s -> zlen (zlines s) = zH s.
  Proof. intros [I _]. pose proof (inv_rows _ I) as H. cbn [rows abs_sscreen sH] in H. rewrite zlen_map in H. exact H. Qed.
  Lemma SInv_line s y : SInv s -> 0 <= y < zH s -> line_ok (zW s) (line_at s y).
  Proof.
    intros Hs Hy. unfold line_at. apply (Forall_znth (line_ok (zW s))); [apply Hs|]. rewrite (SInv_lines s Hs). exact Hy.
  Qed.
  Lemma row_at_abs s y : 0 <= y < zlen (zlines s) -> row_at (abs s) y = abs_line (line_at s y).
  Proof.
    intros Hy. unfold row_at, line_at. cbn [rows abs_sscreen].
    change (@nil cell) with (abs_line empty_line). apply znth_map. exact Hy.
  Qed.

  (* building the invariant of a result from the cell-level invariant and the rows *)
  Lemma SInv_intro s : Inv (abs s) -> LinesOk s -> SInv s.
  Proof. intros; split; assumption. Qed.

  (* ---------- header-only primitives ---------- *)
  Ltac hdr_sim :=
    let s := fresh "s" in let Hs := fresh "Hs" in
    intros s Hs; split; [split; [|exact (proj2 Hs)]|reflexivity].

  Lemma SimU_set_style st : SimU (s_set_style st) (set_style st).
  Proof. hdr_sim. change (Inv (set_style st (abs s))). apply Pres_set_style, Hs. Qed.
  Lemma SimU_set_cursor_pos x y : SimU (s_set_cursor_pos x y) (set_cursor_pos x y).
  Proof. hdr_sim. change (Inv (set_cursor_pos x y (abs s))). apply Pres_set_cursor_pos, Hs. Qed.
  Lemma SimU_save_cursor : SimU s_save_cursor save_cursor.
  Proof. hdr_sim. change (Inv (save_cursor (abs s))). apply Pres_save_cursor, Hs. Qed.
  Lemma SimU_restore_cursor : SimU s_restore_cursor restore_cursor.
  Proof. hdr_sim. change (Inv (restore_cursor (abs s))). apply Pres_restore_cursor, Hs. Qed.
  Lemma SimU_set_awrap v : SimU (z_set_awrap v) (set_awrap v).
  Proof. hdr_sim. change (Inv (set_awrap v (abs s))). apply Pres_set_awrap, Hs. Qed.
  Lemma SimU_set_scroll_margins t b : SimU (s_set_scroll_margins t b) (set_scroll_margins t b).
  Proof.
    intros s Hs. assert (E : abs (s_set_scroll_margins t b s) = set_scroll_margins t b (abs s)).
    { unfold s_set_scroll_margins, set_scroll_margins. cbn [sH abs_sscreen]. destruct (b <? t); reflexivity. }
    split; [|exact E]. split; [rewrite E; apply Pres_set_scroll_margins, Hs|].
    unfold s_set_scroll_margins. destruct (b <? t); exact (proj2 Hs).
  Qed.

  (* ---------- scroll ---------- *)
  Lemma abs_scroll y1 y2 dy s : abs (s_scroll y1 y2 dy s) = scroll y1 y2 dy (abs s).
  Proof.
    unfold s_scroll, scroll. cbn [sH sW sty rows abs_sscreen].
    destruct (_ <? _); [reflexivity|]. destruct (0 <? _).
    - unfold abs_sscreen at 1. cbn [zlines zW zH zcx zcy zsvx zsvy ztop zbot zawrap zsty zcrash ztrig zevs z_emit z_set_evs z_set_lines].
      rewrite !map_app, !map_zfirstn, !map_zskipn, map_zrepeat, abs_blank_line. reflexivity.
    - unfold abs_sscreen at 1. cbn [zlines zW zH zcx zcy zsvx zsvy ztop zbot zawrap zsty zcrash ztrig zevs z_emit z_set_evs z_set_lines].
      rewrite !map_app, !map_zfirstn, !map_zskipn, map_zrepeat, abs_blank_line. reflexivity.
  Qed.
  Lemma zW_scroll y1 y2 dy s : zW (s_scroll y1 y2 dy s) = zW s.
  Proof. unfold s_scroll. destruct (_ <? _); [reflexivity|]. destruct (0 <? _); reflexivity. Qed.
  Lemma LinesOk_scroll y1 y2 dy s : SInv s -> LinesOk (s_scroll y1 y2 dy s).
  Proof.
    intros [I L]. unfold LinesOk in *. rewrite zW_scroll. pose proof (inv_w _ I) as HW. cbn [sW abs_sscreen] in HW.
    unfold s_scroll. destruct (_ <? _); [exact L|].
    destruct (0 <? _); cbn [zlines z_emit z_set_evs z_set_lines];
      repeat (apply Forall_app; split); auto using Forall_zfirstn, Forall_zskipn, Forall_zrepeat, line_ok_blank.
  Qed.
  Lemma LinesOk_scroll_W y1 y2 dy s : SInv s -> Forall (line_ok (zW s)) (zlines (s_scroll y1 y2 dy s)).
  Proof. intros Hs. pose proof (LinesOk_scroll y1 y2 dy s Hs) as L. unfold LinesOk in L. rewrite zW_scroll in L. exact L. Qed.
  Lemma SimU_scroll y1 y2 dy : SimU (s_scroll y1 y2 dy) (scroll y1 y2 dy).
  Proof.
    intros s Hs. split; [|apply abs_scroll]. split; [rewrite abs_scroll; apply Pres_scroll, Hs|apply LinesOk_scroll, Hs].
  Qed.

  (* ---------- moveCursor ---------- *)
  (* with top <= bottom the two sequential scroll tests are an if / else-if *)
  Definition s_move_cursor' (dx dy : Z) (wrap scr : bool) (s : sscreen) : sscreen :=
    let '(x1, y1) :=
      if wrap && zawrap s then ((zcx s + dx) mod zW s, zcy s + (zcx s + dx) / zW s)
      else (clamp (zcx s + dx) 0 (zW s - 1), zcy s) in
    let y2 := y1 + dy in
    let '(s1, y3) :=
      if scr && ((ztop s <=? zcy s) && (zcy s <=? zbot s)) then
        if y2 <? ztop s then (s_scroll (ztop s) (zbot s) (ztop s - y2) s, ztop s)
        else if zbot s <? y2 then (s_scroll (ztop s) (zbot s) (zbot s - y2) s, zbot s)
        else (s, y2)
      else (s, y2) in
    let y4 := clamp y3 0 (zH s - 1) in
    z_emit (ECursor x1 y4) (z_set_cur x1 y4 s1).
  Lemma zbot_scroll y1 y2 dy s : zbot (s_scroll y1 y2 dy s) = zbot s.
  Proof. unfold s_scroll. destruct (_ <? _); [reflexivity|]. destruct (0 <? _); reflexivity. Qed.
  Lemma s_move_cursor_eq dx dy wrap scr s : ztop s <= zbot s ->
    s_move_cursor dx dy wrap scr s = s_move_cursor' dx dy wrap scr s.
  Proof.
    intros Htb. unfold s_move_cursor, s_move_cursor'.
    destruct (if wrap && zawrap s then _ else _) as [x1 y1].
    destruct (scr && _); [|reflexivity].
    destruct (Z.ltb_spec (y1 + dy) (ztop s)) as [H1|H1].
    - rewrite zbot_scroll. destruct (Z.ltb_spec (zbot s) (ztop s)); [lia|reflexivity].
    - destruct (Z.ltb_spec (zbot s) (y1 + dy)); reflexivity.
  Qed.
  Lemma abs_move_cursor' dx dy wrap scr s : abs (s_move_cursor' dx dy wrap scr s) = move_cursor dx dy wrap scr (abs s).
  Proof.
    unfold s_move_cursor', move_cursor. cbn [sH sW cx cy top bot awrap abs_sscreen].
    destruct (if wrap && zawrap s then _ else _) as [x1 y1].
    destruct (scr && _); [|reflexivity].
    destruct (_ <? ztop s).
    - rewrite <- abs_scroll. reflexivity.
    - destruct (zbot s <? _); [rewrite <- abs_scroll|]; reflexivity.
  Qed.
  Lemma zW_move_cursor' dx dy wrap scr s : zW (s_move_cursor' dx dy wrap scr s) = zW s.
  Proof.
    unfold s_move_cursor'. destruct (if wrap && zawrap s then _ else _) as [x1 y1].
    destruct (scr && _); [|reflexivity].
    destruct (_ <? ztop s); [|destruct (zbot s <? _)]; cbn [zW z_emit z_set_evs z_set_cur]; rewrite ?zW_scroll; reflexivity.
  Qed.
  Lemma LinesOk_move_cursor' dx dy wrap scr s : SInv s -> LinesOk (s_move_cursor' dx dy wrap scr s).
  Proof.
    intros Hs. unfold LinesOk. rewrite zW_move_cursor'.
    unfold s_move_cursor'. destruct (if wrap && zawrap s then _ else _) as [x1 y1].
    destruct (scr && _); [|exact (proj2 Hs)].
    destruct (_ <? ztop s); [|destruct (zbot s <? _)]; cbn [zlines z_emit z_set_evs z_set_cur];
      try exact (proj2 Hs); apply LinesOk_scroll_W, Hs.
  Qed.
  Lemma SInv_top_bot s : SInv s -> ztop s <= zbot s.
  Proof. intros [I _]. pose proof (inv_top _ I) as H. cbn [top bot abs_sscreen] in H. lia. Qed.
  Lemma SimU_move_cursor dx dy wrap scr : SimU (s_move_cursor dx dy wrap scr) (move_cursor dx dy wrap scr).
  Proof.
    intros s Hs. rewrite (s_move_cursor_eq _ _ _ _ s (SInv_top_bot s Hs)).
    split; [|apply abs_move_cursor']. split; [rewrite abs_move_cursor'; apply Pres_move_cursor, Hs|apply LinesOk_move_cursor', Hs].
  Qed.
  Lemma Sim_set_style st : Sim (s_set_style st) (set_style st). Proof. apply SimU_Sim, SimU_set_style. Qed.
  Lemma Sim_set_cursor_pos x y : Sim (s_set_cursor_pos x y) (set_cursor_pos x y). Proof. apply SimU_Sim, SimU_set_cursor_pos. Qed.
  Lemma Sim_save_cursor : Sim s_save_cursor save_cursor. Proof. apply SimU_Sim, SimU_save_cursor. Qed.
  Lemma Sim_restore_cursor : Sim s_restore_cursor restore_cursor. Proof. apply SimU_Sim, SimU_restore_cursor. Qed.
  Lemma Sim_set_awrap v : Sim (z_set_awrap v) (set_awrap v). Proof. apply SimU_Sim, SimU_set_awrap. Qed.
  Lemma Sim_set_scroll_margins t b : Sim (s_set_scroll_margins t b) (set_scroll_margins t b). Proof. apply SimU_Sim, SimU_set_scroll_margins. Qed.
  Lemma Sim_scroll y1 y2 dy : Sim (s_scroll y1 y2 dy) (scroll y1 y2 dy). Proof. apply SimU_Sim, SimU_scroll. Qed.
  Lemma Sim_move_cursor dx dy wrap scr : Sim (s_move_cursor dx dy wrap scr) (move_cursor dx dy wrap scr). Proof. apply SimU_Sim, SimU_move_cursor. Qed.
  Lemma zsty_scroll y1 y2 dy s : zsty (s_scroll y1 y2 dy s) = zsty s.
  Proof. unfold s_scroll. destruct (_ <? _); [reflexivity|]. destruct (0 <? _); reflexivity. Qed.

  (* ---------- rawWriteSpan ---------- *)
  Lemma wrc_trig0 reason x y new s :
    trig (write_row_cells reason x y new s) = 0 ->
    0 < zlen new -> 0 <= y < sH s -> 0 <= x -> x + zlen new <= sW s ->
    trig s = 0 /\ is_cont (znth x (row_at s y) dcell) = false.
  Proof.
    intros Ht Hn Hy Hx Hl. unfold write_row_cells in Ht.
    destruct (Z.leb_spec (zlen new) 0); [lia|].
    destruct (Z.ltb_spec y 0); [lia|]. destruct (Z.leb_spec (sH s) y); [lia|].
    destruct (Z.ltb_spec x 0); [lia|]. destruct (Z.ltb_spec (sW s) (x + zlen new)); [lia|]. cbn [orb] in Ht.
    destruct (is_cont (znth x (row_at s y) dcell)); cbn [trig emit set_evs set_rows add_trig] in Ht.
    - apply Z.lor_eq_0_iff in Ht. destruct Ht as [_ Ht]. discriminate.
    - auto.
  Qed.

  Lemma ins_good_len sp : ins_good wc sp -> 0 < sp_width sp -> zlen (abs_span wc sp) = sp_width sp.
  Proof.
    intros Hi Hw. destruct (gspan0_gl wc sp (proj1 (ins_ok_of wc sp Hi))) as (A & B & C & _).
    rewrite A, zlen_gcells by exact C. exact B.
  Qed.

  Lemma Sim_raw_write_span reason x y sp s :
    SInv s -> 0 <= y < zH s -> 0 <= x -> x + sp_width sp <= zW s -> 0 < sp_width sp ->
    ins_good wc sp -> sp_sty sp = zsty s ->
    trig (write_row_cells reason x y (abs_span wc sp) (abs s)) = 0 ->
    SInv (s_raw_write_span wc x y sp reason s) /\
    abs (s_raw_write_span wc x y sp reason s) = write_row_cells reason x y (abs_span wc sp) (abs s).
  Proof.
    intros Hs Hy Hx Hxw Hw Hi Hsty Ht.
    pose proof (ins_good_len sp Hi Hw) as Ln. pose proof (SInv_lines s Hs) as Ll.
    destruct (wrc_trig0 _ _ _ _ _ Ht ltac:(lia) Hy Hx ltac:(cbn [sW abs_sscreen]; lia)) as (_ & Hnc).
    rewrite row_at_abs in Hnc by lia.
    destruct (SInv_line s y Hs Hy) as [Lwf Lsafe]. set (line := line_at s y) in *.
    destruct (raw_write_span_refines wc Hmb (zW s) line x sp Lwf Lsafe Hx Hxw Hw Hi Hnc) as (r & Er & Rwf & Rsafe & Ar).
    pose proof (replace_range_width wc Hmb (zW s) line x (sp_width sp) sp Lwf Lsafe Hx ltac:(lia) Hxw ltac:(lia) Hi Hnc) as W1.
    replace (zW s - sp_width sp + sp_width sp) with (zW s) in W1 by lia.
    assert (Lc : line_cell_width (replace_range wc line x (sp_width sp) sp) = zW s).
    { destruct W1 as (_ & A & B). rewrite lcw_cache by lia. exact A. }
    assert (E : abs (s_raw_write_span wc x y sp reason s) = write_row_cells reason x y (abs_span wc sp) (abs s)).
    { unfold s_raw_write_span, write_row_cells. cbn [sW sH sty rows abs_sscreen]. rewrite Ln.
      destruct (Z.leb_spec (sp_width sp) 0); [lia|].
      destruct (Z.ltb_spec y 0); [lia|]. destruct (Z.leb_spec (zH s) y); [lia|]. destruct (Z.leb_spec (zlen (zlines s)) y); [lia|].
      destruct (Z.ltb_spec x 0); [lia|]. destruct (Z.ltb_spec (zW s) (x + sp_width sp)); [lia|]. cbn [orb].
      fold line. rewrite Er, Lc. destruct (Z.ltb_spec (zW s) (zW s)); [lia|].
      rewrite (wide_tail_at_cont_run wc (zW s) line (x + sp_width sp) Lwf Lsafe ltac:(lia)).
      change (row_at (abs s) y) with (row_at (abs s) y). rewrite (row_at_abs s y) by lia. fold line. rewrite Hnc.
      rewrite (left_edge_noncont _ _ Hnc).
      unfold abs_sscreen at 1. cbn [zlines zW zH zcx zcy zsvx zsvy ztop zbot zawrap zsty zcrash ztrig zevs z_emit z_set_evs z_set_lines].
      rewrite map_zupd, Ar, Hsty. reflexivity. }
    split; [|exact E]. split.
    - rewrite E. apply write_row_cells_ok; [apply Hs|exact Hy|exact Hx|rewrite Ln; exact Hxw].
    - unfold LinesOk, s_raw_write_span.
      destruct (Z.leb_spec (sp_width sp) 0); [lia|].
      destruct (Z.ltb_spec y 0); [lia|]. destruct (Z.leb_spec (zH s) y); [lia|]. destruct (Z.leb_spec (zlen (zlines s)) y); [lia|].
      cbn [orb]. fold line. rewrite Er. cbn [zlines zW z_emit z_set_evs z_set_lines].
      apply Forall_zupd; [apply Hs|split; assumption].
  Qed.

  (* the header fields rawWriteSpan leaves alone *)
  Definition hdr_same (s s' : sscreen) : Prop :=
    zW s' = zW s /\ zH s' = zH s /\ zcx s' = zcx s /\ zcy s' = zcy s /\ zsvx s' = zsvx s /\ zsvy s' = zsvy s /\
    ztop s' = ztop s /\ zbot s' = zbot s /\ zawrap s' = zawrap s /\ zsty s' = zsty s.
  Lemma hdr_same_refl s : hdr_same s s.
  Proof. repeat split. Qed.
  Lemma hdr_raw_write_span x y sp reason s : hdr_same s (s_raw_write_span wc x y sp reason s).
  Proof.
    unfold s_raw_write_span. destruct (_ <=? 0); [apply hdr_same_refl|].
    destruct (_ || _); [repeat split|]. destruct (raw_write_span _ _ _ _ _); repeat split.
  Qed.

  Lemma ins_good_blank st n : 0 < n -> ins_good wc (blank_span st n).
  Proof.
    intros Hn. destruct (gl_blank_span wc st n Hn) as [Gb _]. destruct (wf_of_gspan wc _ Gb) as [A B].
    split; [right; exact A|]. split; [exact B|]. intros _ _. apply (narrow_space wc Hmb).
  Qed.

  (* ---------- eraseRegion ---------- *)
  Lemma Sim_erase_rows reason x x2 ys : forall s st,
    SInv s -> Forall (fun y => 0 <= y < zH s) ys -> 0 <= x -> x2 <= zW s -> zsty s = st ->
    trig (erase_rows reason x x2 ys (abs s)) = 0 ->
    SInv (s_erase_rows wc reason x (blank_span st (x2 - x)) ys s) /\
    abs (s_erase_rows wc reason x (blank_span st (x2 - x)) ys s) = erase_rows reason x x2 ys (abs s).
  Proof.
    induction ys as [|y ys IH]; intros s st Hs Hys Hx Hx2 Hst Ht; cbn [s_erase_rows erase_rows] in *; [auto|].
    inversion Hys as [|? ? Hy Hys']; subst. cbn [sty abs_sscreen] in *.
    destruct (Z.le_gt_cases (x2 - x) 0) as [Hn|Hn].
    - (* nothing to erase *)
      assert (E1 : s_raw_write_span wc x y (blank_span (zsty s) (x2 - x)) reason s = s).
      { unfold s_raw_write_span. cbn [sp_width blank_span mk_span]. destruct (Z.leb_spec (x2 - x) 0); [reflexivity|lia]. }
      assert (E2 : write_row_cells reason x y (zrepeat (blank (zsty s)) (x2 - x)) (abs s) = abs s).
      { unfold write_row_cells. rewrite zlen_zrepeat. destruct (Z.leb_spec (Z.max 0 (x2 - x)) 0); [reflexivity|lia]. }
      rewrite E1. rewrite E2 in *. apply IH; auto.
    - pose proof (erase_rows_mono _ _ _ _ _ Ht) as Ht1.
      rewrite <- (abs_blank_span (zsty s) (x2 - x)) in Ht1, Ht. rewrite <- (abs_blank_span (zsty s) (x2 - x)).
      destruct (Sim_raw_write_span reason x y (blank_span (zsty s) (x2 - x)) s Hs Hy Hx ltac:(cbn; lia) ltac:(cbn; lia)
                  (ins_good_blank _ _ Hn) eq_refl Ht1) as (I1 & E1).
      destruct (hdr_raw_write_span x y (blank_span (zsty s) (x2 - x)) reason s) as (W1 & H1 & _ & _ & _ & _ & _ & _ & _ & S1).
      set (s1 := s_raw_write_span wc x y (blank_span (zsty s) (x2 - x)) reason s) in *.
      rewrite <- E1 in Ht |- *.
      assert (Ey : sty (abs s1) = zsty s) by (cbn [sty abs_sscreen]; exact S1).
      apply (IH s1 (zsty s)); [exact I1|rewrite H1; exact Hys'|exact Hx|rewrite W1; exact Hx2|exact S1|].
      exact Ht.
  Qed.

  Lemma Sim_erase_region x y x2 y2 : Sim (s_erase_region wc x y x2 y2) (erase_region x y x2 y2).
  Proof.
    intros s Hs Ht. unfold s_erase_region, erase_region in *. cbn [sW sH abs_sscreen] in *.
    pose proof (inv_w _ (proj1 Hs)) as HW. pose proof (inv_h _ (proj1 Hs)) as HH. cbn [sW sH abs_sscreen] in HW, HH.
    pose proof (clamp_range x 0 (zW s) ltac:(lia)) as A.
    pose proof (clamp_range y 0 (zH s) ltac:(lia)) as B.
    pose proof (clamp_range x2 (clamp x 0 (zW s)) (zW s) ltac:(lia)) as C.
    pose proof (clamp_range y2 (clamp y 0 (zH s)) (zH s) ltac:(lia)) as D.
    apply Sim_erase_rows; auto; try lia.
    eapply Forall_impl; [|apply zseq_range]. cbn. intros; lia.
  Qed.

  (* ---------- deleteChars ---------- *)
  Lemma from_loop_0 fuel l from : wide_tail_at wc l from = 0 -> from_loop wc fuel l from = from.
  Proof. intros H. destruct fuel; cbn [from_loop]; [reflexivity|]. rewrite H. rewrite andb_false_r. reflexivity. Qed.

  Lemma sdc_clamped W st l x n : 1 <= n ->
    let n1 := if x <? 0 then n + x else n in
    let x1 := if x <? 0 then 0 else x in
    let n2 := if W <? x1 + n1 then W - x1 else n1 in
    x1 < W -> 1 <= n1 ->
    span_delete_chars wc W st l x n = span_delete_chars wc W st l x1 n2.
  Proof.
    intros Hn n1 x1 n2 Hx1 Hn1. unfold span_delete_chars.
    assert (Hx0 : 0 <= x1) by (subst x1; destruct (Z.ltb_spec x 0); lia).
    assert (Hn2 : 1 <= n2 /\ x1 + n2 <= W) by (subst n2; destruct (Z.ltb_spec W (x1 + n1)); lia).
    destruct (Z.leb_spec n 0); [lia|]. destruct (Z.leb_spec n2 0); [lia|].
    destruct (Z.ltb_spec x1 0); [lia|]. fold n1 x1.
    destruct (Z.leb_spec W x1); [lia|]. destruct (Z.leb_spec n1 0); [lia|]. destruct (Z.leb_spec n2 0); [lia|]. cbn [orb].
    fold n2. destruct (Z.ltb_spec W (x1 + n2)); [lia|]. reflexivity.
  Qed.

  Lemma Sim_delete_chars x y n : Sim (s_delete_chars wc x y n) (delete_chars x y n).
  Proof.
    intros s Hs Ht. unfold s_delete_chars, delete_chars in *. cbn [sW sH sty rows abs_sscreen] in *.
    destruct ((y <? 0) || (zH s <=? y) || (n <=? 0)) eqn:E1; [auto|].
    apply orb_false_iff in E1. destruct E1 as [E1 E3]. apply orb_false_iff in E1. destruct E1 as [E1 E2].
    apply Z.ltb_ge in E1. apply Z.leb_gt in E2, E3.
    set (n1 := if x <? 0 then n + x else n) in *. set (x1 := if x <? 0 then 0 else x) in *.
    destruct ((zW s <=? x1) || (n1 <=? 0)) eqn:E4; [auto|].
    apply orb_false_iff in E4. destruct E4 as [E4 E5]. apply Z.leb_gt in E4, E5.
    set (n2 := if zW s <? x1 + n1 then zW s - x1 else n1) in *.
    assert (Hx1 : 0 <= x1 < zW s) by (subst x1; destruct (Z.ltb_spec x 0); lia).
    assert (Hn2 : 1 <= n2 /\ x1 + n2 <= zW s) by (subst n2; destruct (Z.ltb_spec (zW s) (x1 + n1)); lia).
    assert (Hy : 0 <= y < zH s) by lia.
    pose proof (SInv_lines s Hs) as Ll.
    rewrite (row_at_abs s y) in * by lia.
    destruct (SInv_line s y Hs Hy) as [Lwf Lsafe]. set (line := line_at s y) in *.
    destruct (is_cont (znth x1 (abs_line line) dcell)) eqn:Hnc.
    { exfalso. cbn [trig emit set_evs set_rows add_trig] in Ht. apply Z.lor_eq_0_iff in Ht. destruct Ht as [_ Ht]. discriminate. }
    rewrite (sdc_clamped (zW s) (zsty s) line x n ltac:(lia) ltac:(fold x1; lia) ltac:(fold n1; lia)). fold n1 x1 n2.
    destruct (span_delete_chars_refines wc Hmb (zsty s) (zW s) line x1 n2 Lwf Lsafe ltac:(lia) ltac:(lia) ltac:(lia) Hnc)
      as (Rwf & Rsafe & Ar).
    assert (Hfrom : (if zW s <=? x1 + n2 then from_loop wc (Z.to_nat x1) line x1 else x1) = x1).
    { destruct (zW s <=? x1 + n2); [|reflexivity]. apply from_loop_0.
      rewrite (wide_tail_at_cont_run wc (zW s) line x1 Lwf Lsafe ltac:(lia)). apply cont_run_0; [lia|exact Hnc]. }
    rewrite Hfrom. rewrite (left_edge_noncont _ _ Hnc).
    assert (E : abs (z_emit (ERegion x1 y (zW s) (y + 1) crClear)
                       (z_set_lines (zupd y (span_delete_chars wc (zW s) (zsty s) line x1 n2) (zlines s)) s))
                = emit (ERegion x1 y (zW s) (y + 1) crClear)
                    (set_rows (zupd y (delete_cells (zsty s) x1 n2 (abs_line line)) (map abs_line (zlines s))) (abs s))).
    { unfold abs_sscreen at 1. cbn [zlines zW zH zcx zcy zsvx zsvy ztop zbot zawrap zsty zcrash ztrig zevs z_emit z_set_evs z_set_lines].
      rewrite map_zupd, Ar. reflexivity. }
    split; [|exact E]. split.
    - rewrite E. apply Inv_emit. apply (Inv_set_rows_upd y _ (abs s)); [apply Hs|].
      cbn [sW abs_sscreen]. rewrite delete_cells_len; rewrite ?(line_ok_len (zW s) line) by (split; assumption); lia.
    - unfold LinesOk. cbn [zlines zW z_emit z_set_evs z_set_lines]. apply Forall_zupd; [apply Hs|split; assumption].
  Qed.

  (* ---------- setSize ---------- *)
  Lemma map_zseq_nat {A B} (g : A -> B) (b : B) (d : A) : forall (n : nat) (L : list A) (a : Z),
    map (fun y => if y <? a + zlen L then g (znth (y - a) L d) else b) (zseq_nat a n)
    = map g (firstn n L) ++ repeat b (n - length L).
  Proof.
    induction n as [|n IH]; intros L a; [reflexivity|]. cbn [zseq_nat map].
    destruct L as [|x L].
    - cbn [firstn map app length Nat.sub]. rewrite zlen_nil, Z.add_0_r. destruct (Z.ltb_spec a a); [lia|].
      cbn [repeat]. f_equal. specialize (IH [] (a + 1)). rewrite firstn_nil in IH. cbn [map app length] in IH.
      rewrite Nat.sub_0_r in IH. rewrite <- IH. apply map_ext_in. intros y Hy. rewrite zlen_nil, !Z.add_0_r.
      pose proof (zseq_nat_range (a + 1) n) as R. rewrite Forall_forall in R. specialize (R y Hy).
      destruct (Z.ltb_spec y a); [lia|]. destruct (Z.ltb_spec y (a + 1)); [lia|reflexivity].
    - cbn [firstn map app length Nat.sub]. rewrite zlen_cons. pose proof (zlen_nonneg L).
      destruct (Z.ltb_spec a (a + (1 + zlen L))); [|lia]. rewrite Z.sub_diag. rewrite znth_cons_0. f_equal.
      rewrite <- IH with (a := a + 1). apply map_ext_in. intros y Hy.
      pose proof (zseq_nat_range (a + 1) n) as R. rewrite Forall_forall in R. specialize (R y Hy).
      replace (a + 1 + zlen L) with (a + (1 + zlen L)) by lia. destruct (_ <? _); [|reflexivity].
      rewrite znth_cons_S by lia. do 2 f_equal. lia.
  Qed.

  Lemma set_size_rows w h s : SInv s -> 1 <= w -> 1 <= h ->
    let R' := map (fun y => if (y <? zH s) && nonempty (zlines s)
                            then resize_line wc (line_at s y) w (zsty s)
                            else blank_span_line w (zsty s)) (zseq 0 h) in
    Forall (line_ok w) R' /\
    map abs_line R' = map (fit_row (zsty s) w) (zfirstn h (map abs_line (zlines s)))
                      ++ zrepeat (blank_row w (zsty s)) (h - zlen (zfirstn h (map abs_line (zlines s)))).
  Proof.
    intros Hs Hw Hh R'. pose proof (SInv_lines s Hs) as Ll. pose proof (inv_h _ (proj1 Hs)) as HH. cbn [sH abs_sscreen] in HH.
    assert (Hne : nonempty (zlines s) = true) by (destruct (zlines s); [cbn in Ll; lia|reflexivity]).
    assert (ER : R' = map (fun l => resize_line wc l w (zsty s)) (zfirstn h (zlines s))
                      ++ zrepeat (blank_span_line w (zsty s)) (h - zlen (zfirstn h (zlines s)))).
    { subst R'. rewrite Hne. unfold zseq. rewrite Z.sub_0_r.
      transitivity (map (fun y => if y <? 0 + zlen (zlines s)
                                  then (fun l => resize_line wc l w (zsty s)) (znth (y - 0) (zlines s) empty_line)
                                  else blank_span_line w (zsty s)) (zseq_nat 0 (Z.to_nat h))).
      { apply map_ext_in. intros y Hy. rewrite andb_true_r, Z.add_0_l, Z.sub_0_r, Ll. reflexivity. }
      etransitivity; [exact (map_zseq_nat (fun l => resize_line wc l w (zsty s)) (blank_span_line w (zsty s)) empty_line (Z.to_nat h) (zlines s) 0)|].
      unfold zfirstn, zrepeat. f_equal. f_equal.
      fold (zfirstn h (zlines s)). rewrite zlen_zfirstn. unfold zlen in *. lia. }
    split.
    - rewrite ER. apply Forall_app. split.
      + apply Forall_forall. intros r Hr. apply in_map_iff in Hr. destruct Hr as (l & <- & Hin).
        assert (Hl : line_ok (zW s) l).
        { pose proof (proj2 Hs) as L. unfold LinesOk in L. rewrite Forall_forall in L. apply L.
          unfold zfirstn in Hin. rewrite <- (firstn_skipn (Z.to_nat h) (zlines s)). apply in_or_app. left. exact Hin. }
        destruct Hl as [A B]. destruct (resize_line_refines wc Hmb (zsty s) (zW s) l w A B Hw) as (C & D & _). split; assumption.
      + apply Forall_zrepeat, line_ok_blank. lia.
    - rewrite ER, map_app, map_map, map_zrepeat, abs_blank_line, <- map_zfirstn, map_map, !zlen_map. f_equal.
      apply map_ext_in. intros l Hin.
      assert (Hl : line_ok (zW s) l).
      { pose proof (proj2 Hs) as L. unfold LinesOk in L. rewrite Forall_forall in L. apply L.
        unfold zfirstn in Hin. rewrite <- (firstn_skipn (Z.to_nat h) (zlines s)). apply in_or_app. left. exact Hin. }
      destruct Hl as [A B]. apply (resize_line_refines wc Hmb (zsty s) (zW s) l w A B Hw).
  Qed.

  Lemma Sim_set_size w h s : SInv s -> 1 <= w -> 1 <= h ->
    SInv (s_set_size wc w h s) /\ abs (s_set_size wc w h s) = set_size w h (abs s).
  Proof.
    intros Hs Hw Hh. destruct (set_size_rows w h s Hs Hw Hh) as (LR & ER). cbv zeta in LR, ER.
    assert (E : abs (s_set_size wc w h s) = set_size w h (abs s)).
    { unfold s_set_size, set_size. cbn [sW sH cx cy svx svy top bot sty rows abs_sscreen].
      destruct (Z.leb_spec w 0); [lia|]. destruct (Z.leb_spec h 0); [lia|]. cbn [orb].
      destruct (clamp (h - (zH s - zbot s)) 0 (h - 1) <? ztop s);
        unfold abs_sscreen at 1, s_set_style, set_style;
        cbn [zlines zW zH zcx zcy zsvx zsvy ztop zbot zawrap zsty zcrash ztrig zevs z_emit z_set_evs z_set_lines
             z_set_sty z_set_margins z_set_saved z_set_cur z_set_dims];
        rewrite ER; reflexivity. }
    split; [|exact E]. split.
    - rewrite E. apply set_size_ok; [apply Hs|exact Hw|exact Hh].
    - unfold LinesOk, s_set_size. destruct (Z.leb_spec w 0); [lia|]. destruct (Z.leb_spec h 0); [lia|]. cbn [orb].
      destruct (clamp (h - (zH s - zbot s)) 0 (h - 1) <? ztop s);
        cbn [zlines zW s_set_style z_emit z_set_evs z_set_sty z_set_margins z_set_saved z_set_cur z_set_dims]; exact LR.
  Qed.
End WithOracle.
