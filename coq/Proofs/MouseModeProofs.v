(* C13, M0: which DEC private modes select the mouse tracking mode and encoding
   registers read by SendMouseRaw (escapes.go, modelled by Term.dec_mode), and
   that those registers only ever receive values SendMouseRaw handles. *)
From Coq Require Import List ZArith Bool Lia.
From Termemu Require Import Base Style Screen Kbd Parser Term MouseSpec.
Import ListNotations.
Open Scope Z_scope.

Lemma vints_set_vflag i v t : vints (set_vflag i v t) = vints t.
Proof. reflexivity. Qed.
Lemma vints_set_vint i v t : vints (set_vint i v t) = zupd i v (vints t).
Proof. reflexivity. Qed.
Lemma vints_on_screen f t : vints (on_screen f t) = vints t.
Proof. unfold on_screen, set_active. destruct (onalt t); reflexivity. Qed.
Lemma vints_switch_screen t : vints (switch_screen t) = vints t.
Proof. reflexivity. Qed.

(* the selection table *)
Lemma dec_mode_table v t :
  vints (dec_mode v 9 t)    = zupd 0 (if v then 1 else 0) (vints t) /\
  vints (dec_mode v 1000 t) = zupd 0 (if v then 2 else 0) (vints t) /\
  vints (dec_mode v 1002 t) = zupd 0 (if v then 3 else 0) (vints t) /\
  vints (dec_mode v 1003 t) = zupd 0 (if v then 4 else 0) (vints t) /\
  vints (dec_mode v 1005 t) = zupd 1 (if v then 1 else 0) (vints t) /\
  vints (dec_mode v 1006 t) = zupd 1 (if v then 2 else 0) (vints t) /\
  vints (dec_mode v 1015 t) = zupd 1 (if v then 1 else 0) (vints t).
Proof. repeat split; reflexivity. Qed.

Lemma dec_mode_other v p t :
  ~ In p [9; 1000; 1002; 1003; 1005; 1006; 1015] -> vints (dec_mode v p t) = vints t.
Proof.
  intro H. unfold dec_mode.
  repeat match goal with
  | |- context [if ?p =? ?k then _ else _] =>
      destruct (Z.eqb_spec p k);
      [ try (exfalso; apply H; subst p; cbn; tauto);
        first [apply vints_set_vflag | apply vints_on_screen | idtac] |]
  end; try reflexivity.
  destruct (Bool.eqb (onalt t) v); [reflexivity|apply vints_switch_screen].
Qed.

(* reading a register after an update *)
Lemma nth_upd {A} (a d : A) : forall (l : list A) (i n : nat), (i < length l)%nat ->
  nth n (firstn i l ++ a :: skipn (S i) l) d = if (n =? i)%nat then a else nth n l d.
Proof.
  induction l as [|x l IH]; intros i n Hi; [cbn in Hi; lia|].
  destruct i as [|i]; destruct n as [|n]; cbn [firstn skipn app nth Nat.eqb]; try reflexivity.
  apply IH. cbn in Hi. lia.
Qed.

Lemma znth_zupd (l : list Z) i j a d :
  znth j (zupd i a l) d = a \/ znth j (zupd i a l) d = znth j l d.
Proof.
  unfold zupd, znth, zlen, zfirstn, zskipn.
  destruct ((i <? 0) || (Z.of_nat (length l) <=? i)) eqn:E; [right; reflexivity|].
  destruct (j <? 0) eqn:Ej; [right; reflexivity|].
  apply orb_false_iff in E. destruct E as [E1 E2].
  apply Z.ltb_ge in E1. apply Z.leb_gt in E2.
  replace (Z.to_nat (i + 1)) with (S (Z.to_nat i)) by lia.
  rewrite nth_upd by lia. destruct (Z.to_nat j =? Z.to_nat i)%nat; auto.
Qed.

Lemma znth_zupd_other (l : list Z) i j a d : i <> j -> znth j (zupd i a l) d = znth j l d.
Proof.
  intro Hne. unfold zupd, znth, zlen, zfirstn, zskipn.
  destruct ((i <? 0) || (Z.of_nat (length l) <=? i)) eqn:E; [reflexivity|].
  destruct (j <? 0) eqn:Ej; [reflexivity|].
  apply orb_false_iff in E. destruct E as [E1 E2].
  apply Z.ltb_ge in E1. apply Z.leb_gt in E2. apply Z.ltb_ge in Ej.
  replace (Z.to_nat (i + 1)) with (S (Z.to_nat i)) by lia.
  rewrite nth_upd by lia. destruct (Nat.eqb_spec (Z.to_nat j) (Z.to_nat i)); [lia|reflexivity].
Qed.


Lemma init_regs_ok w h : mouse_regs_ok (vints (init_term w h)).
Proof. change (0 <= 0 <= 4 /\ 0 <= 0 <= 2). lia. Qed.

Lemma dec_mode_regs_ok v p t : mouse_regs_ok (vints t) -> mouse_regs_ok (vints (dec_mode v p t)).
Proof.
  intros [Hm He]. unfold mouse_regs_ok in *.
  destruct (in_dec Z.eq_dec p [9; 1000; 1002; 1003; 1005; 1006; 1015]) as [Hin|Hout].
  - pose proof (dec_mode_table v t) as (T1 & T2 & T3 & T4 & T5 & T6 & T7).
    cbn [In] in Hin.
    destruct Hin as [<-|[<-|[<-|[<-|[<-|[<-|[<-|[]]]]]]]];
      match goal with T : vints (dec_mode v ?k t) = _ |- context [dec_mode v ?k t] => rewrite T end;
      split;
      first [ rewrite znth_zupd_other by lia; assumption
            | match goal with |- context [znth ?j (zupd ?i ?a ?l) ?d] =>
                destruct (znth_zupd l i j a d) as [-> | ->]; [destruct v; lia|assumption] end ].
  - rewrite dec_mode_other by exact Hout. split; assumption.
Qed.

(* CSI ? p1 ; p2 ; ... h / l *)
Lemma dec_modes_regs_ok v ps : forall t,
  mouse_regs_ok (vints t) -> mouse_regs_ok (vints (fold_left (fun t p => dec_mode v p t) ps t)).
Proof.
  induction ps as [|p ps IH]; intros t H; [exact H|]. cbn [fold_left]. apply IH. apply dec_mode_regs_ok. exact H.
Qed.
