(* ANSILine for the span buffer's text rule and for the span model.

   (A) [renderable] (the row shape the round-trip theorems need) implies [strippable] in every
       cell (what "ANSILine without SGR = Line" needs); the converse fails.
   (B) RenderInv.reachable_rows_renderable is for the grid text rule ([grid = true]: an invalid
       UTF-8 byte is stored as U+FFFD).  Here: for EITHER text rule, every row of both buffers is
       renderable after every history that ends without the raw-invalid-byte mark (bit 3 of the
       mark word, [trInvalidUtf8]; known finding D13) - marks only grow (MarkBit), so no raw
       invalid byte was ever stored.  The other marks may have fired.
   (C) Hence, for such histories: ANSILine(y) stripped of SGR is the row's text, and the screen
       round trip of C11 holds for the span kind too; and for the span MODEL ([s_run_hist]) after
       mark-free histories: every row [l] of both buffers means renderable, strippable cells and
       [strip_sgr (render_line_ansi (abs_line wc l)) = Span.line_text (zW s) l].
       The strip statement does not need the mark at all (StripInv: every reachable cell of both
       kinds is strippable, no side condition); the mark is needed for [renderable].
   (D) Non-vacuity by computation, and what fails once a raw invalid byte has been stored. *)
From Coq Require Import List ZArith Bool Lia.
From Termemu Require Import Base Style Screen Kbd Parser Term Render BaseLemmas ScreenInv TermInv HistProofs
  ParserProofs SgrSpec StyleProofs SgrProofs StampProofs StyleInv GlyphInv RenderProofs ScreenRtProofs RenderInv
  TrigMono MarkBit StripInv.
From Termemu Require Span SpanText SpanProofs SpanRefine SpanScreen SpanScreenProofs SpanTermProofs SpanHistProofs SpanExamples SpanViews.
Import ListNotations.
Open Scope Z_scope.

(* ================= (A) renderable and strippable ================= *)

(* what [renderable] says of each single cell: a well-formed style, and either a continuation
   cell (width 0, no text) or a head cell whose text is one valid printable UTF-8 rune and whose
   width is the oracle's for that rune *)
Definition glyph_cell (wc : Z -> Z) (c : cell) : Prop :=
  wf_style (cst c) /\
  ((cwid c = 0 /\ ctext c = []) \/ exists r, glyph_text (ctext c) r /\ cwid c = glyph_width (wc r)).

Lemma renderable_cells wc row : renderable wc row -> Forall (glyph_cell wc) row.
Proof.
  induction 1 as [|txt r st rest Ht Hs Hr IH]; [constructor|].
  apply Forall_app. split; [|exact IH]. unfold glyph_cells. constructor.
  - split; [exact Hs|]. right. exists r. split; [exact Ht|reflexivity].
  - apply Forall_zrepeat. split; [exact Hs|]. left. split; reflexivity.
Qed.

Lemma glyph_cell_strippable wc c : glyph_cell wc c -> strippable c.
Proof.
  intros (Hs & [(_ & Ht)|(r & Ht & _)]); split; try exact Hs.
  - rewrite Ht. exact (fun H => H).
  - eapply glyph_text_no_esc, Ht.
Qed.

(* (A): every cell of a renderable row is strippable *)
Theorem renderable_strippable wc row : renderable wc row -> Forall strippable row.
Proof.
  intros H. eapply Forall_impl; [|apply renderable_cells, H]. apply glyph_cell_strippable.
Qed.

(* so ANSILine of a renderable row, stripped of SGR, is the row's text *)
Theorem renderable_strip wc row : renderable wc row -> strip_sgr (render_line_ansi row) = line_text row.
Proof. intros H. apply strip_render_line. eapply renderable_strippable, H. Qed.

(* the head cell of a renderable row *)
Lemma renderable_head wc c row : renderable wc (c :: row) ->
  exists r, glyph_text (ctext c) r /\ cwid c = glyph_width (wc r).
Proof.
  intros H. remember (c :: row) as l eqn:E. destruct H as [|txt r st rest Ht Hs Hr]; [discriminate|].
  unfold glyph_cells in E. cbn [app] in E. injection E as <- _. exists r. split; [exact Ht|reflexivity].
Qed.

(* the converse fails: strippable says nothing about the shape of the row or about the text being
   UTF-8.  A lone continuation cell; a cell holding the byte 0x07; a cell holding a raw 0xFF. *)
Theorem strippable_not_renderable :
  let rows3 := [[contc default_style]; [mkCell [7] 1 default_style]; [mkCell [255] 1 default_style]] in
  Forall (Forall strippable) rows3 /\ forall wc, Forall (fun row => ~ renderable wc row) rows3.
Proof.
  cbv zeta. split.
  - assert (S : forall txt w, forallb (fun b => negb (b =? 27)) txt = true -> strippable (mkCell txt w default_style)).
    { intros txt w Ht. split; [exact wf_default|]. cbn [ctext]. intros Hin.
      rewrite forallb_forall in Ht. specialize (Ht 27 Hin). discriminate Ht. }
    repeat (constructor; [constructor; [apply S; reflexivity|constructor]|]). constructor.
  - intros wc.
    assert (N : forall c, (forall r, ~ glyph_text (ctext c) r) -> ~ renderable wc [c]).
    { intros c Hc H. apply renderable_head in H. destruct H as (r & Ht & _). exact (Hc r Ht). }
    repeat (constructor; [apply N; intros r (Hd & b & l & E & Hp); cbn [ctext] in *;
      first [vm_compute in Hd; discriminate Hd | injection E as <- _; discriminate Hp]|]). constructor.
Qed.

(* ================= (B) reachable rows, either text rule ================= *)
Section SpanKind.
  Variable wc : Z -> Z.
  Hypothesis Hsp : wc 32 <= 1.
  Variable wmax : Z.
  Hypothesis Hwmax : forall r, glyph_width (wc r) <= wmax.

  (* a token the parser produced and whose execution leaves the raw-invalid-byte mark unset
     carries valid UTF-8 measured by the oracle: under the span rule the only other tokens are
     raw invalid bytes, and executing one sets the mark *)
  Lemma parse_one_tok_ok_marked grid inp k rest t :
    parse_one wc grid inp = PTok k rest -> no_raw_mark (exec_tok k t) -> tok_ok wc k.
  Proof.
    destruct grid; [intros H _; exact (parse_one_tok_ok wc wmax Hwmax inp k rest H)|].
    unfold parse_one. destruct inp as [|b l]; [discriminate|].
    destruct (is_printable b) eqn:Pb.
    - destruct (decode_rune (b :: l)) as [[[r size] valid]|] eqn:D; [|discriminate].
      rewrite andb_false_r. intros H; inversion H; subst; clear H. intros Hm. cbn [tok_ok]. split; [|reflexivity].
      destruct valid.
      + split; [apply decode_valid_prefix, D|].
        destruct (decode_rune_size _ _ _ _ D) as (S1 & _).
        destruct (Z.to_nat size) as [|n] eqn:En; [lia|].
        exists b, (firstn n l). split; [unfold zfirstn; rewrite En; reflexivity|exact Pb].
      + exfalso. destruct (SpanHistProofs.decode_invalid_size _ _ _ D) as [-> ->].
        cbn [exec_tok] in Hm. cbv zeta in Hm.
        assert (E : (runeError =? runeError) && negb (list_eqb Z.eqb (zfirstn 1 (b :: l)) utf8_replacement) = true).
        { change (zfirstn 1 (b :: l)) with [b]. unfold utf8_replacement. cbn [list_eqb]. rewrite andb_false_r. reflexivity. }
        rewrite E in Hm. apply (tzP_on_screen_active no_raw) in Hm.
        apply (write_glyph_monoP no_raw no_raw_lor) in Hm. rewrite trig_add_trig in Hm.
        exact (no_raw_fired _ Hm).
    - destruct (b =? 27).
      + intros H _. apply parse_esc_not_glyph in H. destruct k; try exact I. discriminate.
      + intros H _; inversion H; exact I.
  Qed.

  Lemma TInv3_run_pending_marked grid fuel : forall t inp, TInv3 wc wmax t ->
    no_raw_mark (fst (run_pending wc grid fuel t inp)) -> TInv3 wc wmax (fst (run_pending wc grid fuel t inp)).
  Proof.
    induction fuel as [|f IH]; intros t inp Ht Hm; cbn [run_pending] in *; [exact Ht|].
    destruct (crashed t); [exact Ht|].
    destruct (parse_one wc grid inp) as [|k rest] eqn:E; [exact Ht|].
    apply IH; [|exact Hm]. apply TInv3_exec_tok; [exact Hsp|exact Hwmax| |exact Ht].
    eapply parse_one_tok_ok_marked; [exact E|]. eapply (tzP_run_pending no_raw no_raw_lor), Hm.
  Qed.

  Lemma TInv3_hstep_marked grid st o : TInv3 wc wmax (fst st) -> hop_wide wmax o ->
    no_raw_mark (fst (hstep wc grid st o)) -> TInv3 wc wmax (fst (hstep wc grid st o)).
  Proof.
    intros Ht Ho Hm. destruct o as [bs|w h]; cbn [hstep] in *.
    - apply TInv3_run_pending_marked; assumption.
    - destruct (crashed (fst st)); [exact Ht|]. cbn [fst]. destruct Ho as (A & B & C).
      apply TInv3_resize; assumption.
  Qed.

  Theorem TInv3_fold_marked grid ops : forall st, TInv3 wc wmax (fst st) -> Forall (hop_wide wmax) ops ->
    no_raw_mark (fst (fold_left (hstep wc grid) ops st)) -> TInv3 wc wmax (fst (fold_left (hstep wc grid) ops st)).
  Proof.
    induction ops as [|o ops IH]; intros st Ht Hok Hm; cbn [fold_left] in *; [exact Ht|].
    inversion Hok; subst. apply IH; [|assumption|exact Hm].
    apply TInv3_hstep_marked; [assumption|assumption|]. eapply (tzP_fold no_raw no_raw_lor), Hm.
  Qed.

  Lemma TInv3_reachable_marked grid w h ops : wmax <= w -> 1 <= w -> 1 <= h -> Forall (hop_wide wmax) ops ->
    no_raw_mark (fst (run_hist wc grid (init_term w h) ops)) ->
    TInv3 wc wmax (fst (run_hist wc grid (init_term w h) ops)).
  Proof.
    intros Hm Hw Hh Hok Hz. unfold run_hist in *.
    apply TInv3_fold_marked; [cbn [fst]; apply TInv3_init; assumption|exact Hok|exact Hz].
  Qed.

  (* (B): after every history whose screens are never narrower than the widest glyph and that ends
     without the raw-invalid-byte mark on either buffer, every row of both buffers is renderable -
     for the span buffer's text rule ([grid = false]) as for the grid's *)
  Theorem reachable_rows_renderable_marked grid w h ops : wmax <= w -> 1 <= w -> 1 <= h -> Forall (hop_wide wmax) ops ->
    let t := fst (run_hist wc grid (init_term w h) ops) in
    no_raw_mark t ->
    Forall (renderable wc) (rows (tmain t)) /\ Forall (renderable wc) (rows (talt t)).
  Proof.
    intros Hm Hw Hh Hok t Hz.
    destruct (TInv3_reachable_marked grid w h ops Hm Hw Hh Hok Hz) as (_ & (_ & _ & Rm & _) & (_ & _ & Ra & _)).
    split; assumption.
  Qed.

  (* the span kind, under the stronger condition that NO mark fired *)
  Corollary reachable_rows_renderable_span w h ops : wmax <= w -> 1 <= w -> 1 <= h -> Forall (hop_wide wmax) ops ->
    let t := fst (run_hist wc false (init_term w h) ops) in
    tz t ->
    Forall (renderable wc) (rows (tmain t)) /\ Forall (renderable wc) (rows (talt t)).
  Proof.
    intros Hm Hw Hh Hok t Hz. apply reachable_rows_renderable_marked; try assumption. apply tz_no_raw_mark, Hz.
  Qed.

  (* ================= (C) consequences ================= *)

  (* ANSILine(y) with its SGR sequences removed is the text of row y *)
  Theorem reachable_rows_strip_marked grid w h ops : wmax <= w -> 1 <= w -> 1 <= h -> Forall (hop_wide wmax) ops ->
    let t := fst (run_hist wc grid (init_term w h) ops) in
    no_raw_mark t ->
    forall s, s = tmain t \/ s = talt t -> forall row, In row (rows s) ->
      renderable wc row /\ Forall strippable row /\ strip_sgr (render_line_ansi row) = line_text row.
  Proof.
    intros Hm Hw Hh Hok t Hz s Hs row Hin.
    destruct (reachable_rows_renderable_marked grid w h ops Hm Hw Hh Hok Hz) as (A & B). fold t in A, B.
    assert (R : renderable wc row).
    { destruct Hs as [-> | ->]; [rewrite Forall_forall in A; apply A, Hin|rewrite Forall_forall in B; apply B, Hin]. }
    split; [exact R|]. split; [eapply renderable_strippable, R|eapply renderable_strip, R].
  Qed.

  (* the grid kind needs no mark condition (RenderInv) *)
  Theorem reachable_rows_strip_grid w h ops : wmax <= w -> 1 <= w -> 1 <= h -> Forall (hop_wide wmax) ops ->
    let t := fst (run_hist wc true (init_term w h) ops) in
    forall s, s = tmain t \/ s = talt t -> forall row, In row (rows s) ->
      renderable wc row /\ Forall strippable row /\ strip_sgr (render_line_ansi row) = line_text row.
  Proof.
    intros Hm Hw Hh Hok t s Hs row Hin.
    destruct (reachable_rows_renderable wc Hsp wmax Hwmax w h ops Hm Hw Hh Hok) as (A & B). fold t in A, B.
    assert (R : renderable wc row).
    { destruct Hs as [-> | ->]; [rewrite Forall_forall in A; apply A, Hin|rewrite Forall_forall in B; apply B, Hin]. }
    split; [exact R|]. split; [eapply renderable_strippable, R|eapply renderable_strip, R].
  Qed.

  (* C11 round trip: rendering every row of either buffer with ANSILine and feeding the result to
     a fresh terminal of the same size - of either kind - reproduces every cell *)
  Theorem reachable_screen_roundtrip_marked grid grid' w h ops : wmax <= w -> 1 <= w -> 1 <= h -> Forall (hop_wide wmax) ops ->
    let t := fst (run_hist wc grid (init_term w h) ops) in
    no_raw_mark t ->
    forall s, s = tmain t \/ s = talt t -> sH s <= maxCSIParam ->
    let res := run_bytes wc grid' (init_term (sW s) (sH s)) (render_screen_ansi (rows s)) in
    snd res = [] /\ rows (tmain (fst res)) = rows s.
  Proof.
    intros Hm Hw Hh Hok t Hz s Hs Hmax.
    destruct (TInv3_reachable_marked grid w h ops Hm Hw Hh Hok Hz) as (_ & (Im & _ & Rm & _) & (Ia & _ & Ra & _)).
    fold t in Im, Rm, Ia, Ra.
    assert (I : Inv s /\ Forall (renderable wc) (rows s)) by (destruct Hs; subst s; split; assumption).
    destruct I as (I & R).
    destruct (screen_rt_fresh wc grid' (rows s) (sW s) (sH s) (inv_w s I)
                (conj (inv_h s I) Hmax) (inv_rows s I) (Forall_and_ _ _ _ (inv_cols s I) R)) as (A & B & _).
    split; assumption.
  Qed.

  (* the span kind throughout, mark-free history *)
  Corollary reachable_screen_roundtrip_span w h ops : wmax <= w -> 1 <= w -> 1 <= h -> Forall (hop_wide wmax) ops ->
    let t := fst (run_hist wc false (init_term w h) ops) in
    tz t ->
    forall s, s = tmain t \/ s = talt t -> sH s <= maxCSIParam ->
    let res := run_bytes wc false (init_term (sW s) (sH s)) (render_screen_ansi (rows s)) in
    snd res = [] /\ rows (tmain (fst res)) = rows s.
  Proof.
    intros Hm Hw Hh Hok t Hz. apply reachable_screen_roundtrip_marked; try assumption. apply tz_no_raw_mark, Hz.
  Qed.
End SpanKind.

(* ================= (C) the span model ================= *)
Import Span SpanText SpanProofs SpanRefine SpanScreen SpanScreenProofs SpanTermProofs SpanHistProofs SpanViews.

Lemma hop_wide_ok wmax ops : Forall (hop_wide wmax) ops -> hist_ok ops.
Proof.
  unfold hist_ok. apply Forall_impl. intros [bs|w h]; cbn [hop_wide hop_ok]; [auto|]. intros (_ & A & B). split; assumption.
Qed.

(* the rows of the cell terminal are the meanings of the rows of the span terminal *)
Lemma span_rows_are_cell_rows wc : wc_multibyte wc -> forall mw w h ops, 1 <= w -> 1 <= h -> hist_ok ops ->
  tz (fst (run_hist wc false (init_term w h) ops)) ->
  let st := fst (fst (s_run_hist_from wc mw (s_init_term w h) ops)) in
  let t := fst (run_hist wc false (init_term w h) ops) in
  rows (tmain t) = map (abs_line wc) (zlines (smain st)) /\ rows (talt t) = map (abs_line wc) (zlines (salt st)) /\
  sW (tmain t) = zW (smain st) /\ sW (talt t) = zW (salt st).
Proof.
  intros Hmb mw w h ops Hw Hh Hok Hz. cbv zeta.
  destruct (span_simulates_cells_from wc Hmb mw w h ops Hw Hh Hok Hz) as (En & _ & _). cbv zeta in En.
  apply nolog_meaning in En. destruct En as (Em & Ea & _).
  cbn [tmain talt abs_sterm] in Em, Ea. rewrite <- Em, <- Ea. repeat split; reflexivity.
Qed.

(* conversely to SpanViews.spans_strippable: if the cells a row means are strippable, so are its
   stored runs (each run means at least one cell) *)
Lemma cells_strippable_spans wc spans : Forall (gspan wc) spans -> Forall strippable (abs_spans wc spans) ->
  Forall (span_strippable) spans.
Proof.
  induction spans as [|sp spans IH]; intros Hg Hs; [constructor|].
  unfold abs_spans in Hs. cbn [flat_map] in Hs. apply Forall_app in Hs. destruct Hs as (H1 & H2).
  pose proof (Forall_inv Hg) as G1. pose proof (Forall_inv_tail Hg) as G2.
  constructor; [|apply IH; assumption].
  pose proof (gspan_len wc sp G1) as L. pose proof (gspan_width wc sp G1) as Wp.
  pose proof (abs_span_style wc sp) as St. split.
  - destruct (abs_span wc sp) as [|c cs]; [unfold zlen in L; cbn [length] in L; lia|].
    pose proof (Forall_inv St) as E. pose proof (Forall_inv H1) as (Hw & _). cbv beta in E. rewrite <- E. exact Hw.
  - rewrite <- (abs_span_text wc sp Wp). intros Hin. apply in_flat_map in Hin. destruct Hin as (c & Hc & H27).
    rewrite Forall_forall in H1. destruct (H1 c Hc) as (_ & N). exact (N H27).
Qed.

Lemma cells_strippable_spans_wf wc spans : Forall (fun sp => wf_span wc sp /\ safe_span wc sp) spans ->
  Forall strippable (abs_spans wc spans) ->
  Forall (fun sp => wf_style (sp_sty sp) /\ ~ In 27 (span_text sp)) spans.
Proof.
  intros H. apply cells_strippable_spans. eapply Forall_impl; [|exact H].
  intros sp [A B]. apply gspan_of_wf; assumption.
Qed.

(* THE C02 CLAUSE for ANSILine: for every history of reads and resizes on which no known-finding
   mark fires, every row of both buffers of the span terminal, whatever maxWidth the first blocked
   read holds: the cells the row means are strippable, so are the stored runs, and ANSILine(y)
   with its SGR sequences removed is Line(y) - at cell level (one escape per maximal run of equal
   style) and as the span buffer prints it (one escape per stored run).
   Same hypotheses as C02views_reachable (SpanViews.reachable_row_views). *)
Theorem span_reachable_ansi_line wc : wc_multibyte wc -> forall mw w h ops, 1 <= w -> 1 <= h -> hist_ok ops ->
  tz (fst (run_hist wc false (init_term w h) ops)) ->
  let st := fst (fst (s_run_hist_from wc mw (s_init_term w h) ops)) in
  forall s, s = smain st \/ s = salt st -> forall l, In l (zlines s) ->
    Forall strippable (abs_line wc l) /\ Forall span_strippable (sl_spans l) /\
    strip_sgr (render_line_ansi (abs_line wc l)) = Span.line_text (zW s) l /\
    strip_sgr (render_runs (span_runs wc l)) = Span.line_text (zW s) l.
Proof.
  intros Hmb mw w h ops Hw Hh Hok Hz st s Hs l Hin.
  destruct (span_rows_are_cell_rows wc Hmb mw w h ops Hw Hh Hok Hz) as (Em & Ea & _). cbv zeta in Em, Ea. fold st in Em, Ea.
  destruct (reachable_row_views wc Hmb mw w h ops Hw Hh Hok Hz s Hs l Hin) as (Hwf & Hsf & _).
  destruct (reachable_rows_strippable wc false w h ops) as (A & B). cbv zeta in A, B. rewrite Em in A. rewrite Ea in B.
  assert (S : Forall strippable (abs_line wc l)).
  { destruct Hs as [-> | ->]; [rewrite Forall_forall in A; apply A|rewrite Forall_forall in B; apply B]; apply in_map, Hin. }
  destruct (good_of_wf wc (zW s) l Hwf Hsf) as (Hg & _).
  pose proof (cells_strippable_spans wc (sl_spans l) Hg S) as Ss.
  split; [exact S|]. split; [exact Ss|]. split; [apply ansi_line_text; assumption|].
  apply span_ansi_line_text; assumption.
Qed.

(* the terminal as [s_run_hist] starts it (maxWidth = the width of the active buffer) *)
Corollary span_reachable_ansi_line_run wc : wc_multibyte wc -> forall w h ops, 1 <= w -> 1 <= h -> hist_ok ops ->
  tz (fst (run_hist wc false (init_term w h) ops)) ->
  let st := fst (fst (s_run_hist wc (s_init_term w h) ops)) in
  forall s, s = smain st \/ s = salt st -> forall l, In l (zlines s) ->
    Forall strippable (abs_line wc l) /\ Forall span_strippable (sl_spans l) /\
    strip_sgr (render_line_ansi (abs_line wc l)) = Span.line_text (zW s) l /\
    strip_sgr (render_runs (span_runs wc l)) = Span.line_text (zW s) l.
Proof. intros Hmb w h. exact (span_reachable_ansi_line wc Hmb (Some (max_width (s_active (s_init_term w h)))) w h). Qed.

(* all the views of C02views_agree at once, for every reachable row *)
Theorem span_reachable_views_agree wc : wc_multibyte wc -> forall mw w h ops, 1 <= w -> 1 <= h -> hist_ok ops ->
  tz (fst (run_hist wc false (init_term w h) ops)) ->
  let st := fst (fst (s_run_hist_from wc mw (s_init_term w h) ops)) in
  forall s, s = smain st \/ s = salt st -> forall l, In l (zlines s) ->
    Forall (fun sp => 0 < sp_width sp) (sl_spans l) /\ spans_width (sl_spans l) = zW s /\
    styled_line wc (zW s) l 0 (zW s) = (sl_spans l, zW s) /\
    flat_map span_text (fst (styled_line wc (zW s) l 0 (zW s))) = Span.line_text (zW s) l /\
    strip_sgr (render_line_ansi (abs_line wc l)) = Span.line_text (zW s) l /\
    Span.line_text (zW s) l = Render.line_text (abs_line wc l).
Proof.
  intros Hmb mw w h ops Hw Hh Hok Hz st s Hs l Hin.
  destruct (reachable_row_views wc Hmb mw w h ops Hw Hh Hok Hz s Hs l Hin) as (Hwf & _).
  destruct (span_reachable_ansi_line wc Hmb mw w h ops Hw Hh Hok Hz s Hs l Hin) as (_ & Ss & _).
  apply row_views_agree; assumption.
Qed.

(* and the cells every reachable row of the span terminal means form a renderable row (so the
   C11 round trip applies to them), when a blank is one cell wide and no screen of the history is
   narrower than the widest glyph *)
Theorem span_reachable_renderable wc : wc 32 <= 1 -> forall wmax, (forall r, glyph_width (wc r) <= wmax) ->
  wc_multibyte wc -> forall mw w h ops, wmax <= w -> 1 <= w -> 1 <= h -> Forall (hop_wide wmax) ops ->
  tz (fst (run_hist wc false (init_term w h) ops)) ->
  let st := fst (fst (s_run_hist_from wc mw (s_init_term w h) ops)) in
  forall s, s = smain st \/ s = salt st -> forall l, In l (zlines s) ->
    renderable wc (abs_line wc l) /\ zlen (abs_line wc l) = zW s.
Proof.
  intros Hsp wmax Hwmax Hmb mw w h ops Hm Hw Hh Hok Hz st s Hs l Hin.
  pose proof (hop_wide_ok wmax ops Hok) as Hok'.
  destruct (span_rows_are_cell_rows wc Hmb mw w h ops Hw Hh Hok' Hz) as (Em & Ea & Wm & Wa). cbv zeta in Em, Ea, Wm, Wa. fold st in Em, Ea, Wm, Wa.
  destruct (TInv3_reachable_marked wc Hsp wmax Hwmax false w h ops Hm Hw Hh Hok (tz_no_raw_mark _ Hz))
    as (_ & (Im & _ & Rm & _) & (Ia & _ & Ra & _)).
  unfold RowsR in Rm, Ra. rewrite Em in Rm. rewrite Ea in Ra.
  pose proof (inv_cols _ Im) as Cm. pose proof (inv_cols _ Ia) as Ca. rewrite Em, Wm in Cm. rewrite Ea, Wa in Ca.
  destruct Hs as [-> | ->].
  - rewrite Forall_forall in Rm, Cm. split; [apply Rm|apply Cm]; apply in_map, Hin.
  - rewrite Forall_forall in Ra, Ca. split; [apply Ra|apply Ca]; apply in_map, Hin.
Qed.

(* ================= (D) non-vacuity and refutation ================= *)

(* oracles with a two-cell-wide CJK glyph: side conditions *)
Lemma wc_ex_space : SpanExamples.wc_ex 32 <= 1.
Proof. vm_compute. discriminate. Qed.
Lemma wc_ex_max r : glyph_width (SpanExamples.wc_ex r) <= 2.
Proof. unfold SpanExamples.wc_ex, glyph_width. destruct ((r <? 4352) || (r =? 65533)); cbn; lia. Qed.

(* RenderInv.ex_hist (red "a", the wide glyph U+4E2D, "b"; Resize 3x2; U+4E2D split over two reads,
   CR LF "x"; Resize 6x3) under the SPAN text rule: no mark fires, the hypotheses hold, and the
   round trip, computed, reproduces the main buffer, which is not blank *)
Example span_kind_example :
  Forall (hop_wide 2) ex_hist /\
  let t := fst (run_hist ex_wc false (init_term 4 2) ex_hist) in
  tz t /\ no_raw_mark t /\
  rows (tmain (fst (run_bytes ex_wc false (init_term (sW (tmain t)) (sH (tmain t))) (render_screen_ansi (rows (tmain t))))))
  = rows (tmain t) /\ sW (tmain t) = 6 /\ map ctext (znth 0 (rows (tmain t)) []) <> map ctext (blank_row 6 default_style).
Proof.
  split; [repeat constructor; cbn; lia|]. vm_compute. repeat split. discriminate.
Qed.

(* bold blue wide glyph, then "x" written onto its second half (the second-half mark fires),
   Resize 5x2, reverse-video "a" and another wide glyph *)
Definition ex_hist_marked : list hop :=
  [HFeed ([27;91;49;59;51;52;109] ++ [228;184;173] ++ [27;91;50;71] ++ [120]); HResize 5 2; HFeed [27;91;55;109;97;228;184;173]].

(* a history that is NOT mark-free ([tz] fails: bit 0 is set) but has no raw invalid byte: the
   theorems apply, on both kinds; styled wide text; stripped ANSILine = text *)
Example span_kind_marked_example :
  Forall (hop_wide 2) ex_hist_marked /\
  (let t := fst (run_hist ex_wc false (init_term 4 2) ex_hist_marked) in
   trig (tmain t) = trSecondHalf /\ ~ tz t /\ no_raw_mark t /\
   rows (tmain (fst (run_bytes ex_wc false (init_term (sW (tmain t)) (sH (tmain t))) (render_screen_ansi (rows (tmain t))))))
   = rows (tmain t) /\
   map (map ctext) (rows (tmain t)) = [[[32]; [120]; [97]; [228; 184; 173]; []]; [[32]; [32]; [32]; [32]; [32]]] /\
   render_line_ansi (znth 0 (rows (tmain t)) []) =
     [27;91;48;109; 27;91;48;109; 27;91;49;109; 27;91;51;52;109; 32; 120;
      27;91;48;109; 27;91;48;109; 27;91;49;109; 27;91;55;109; 27;91;51;52;109; 97; 228;184;173] /\
   strip_sgr (render_line_ansi (znth 0 (rows (tmain t)) [])) = [32; 120; 97; 228; 184; 173] /\
   Render.line_text (znth 0 (rows (tmain t)) []) = [32; 120; 97; 228; 184; 173]) /\
  (let t := fst (run_hist ex_wc true (init_term 4 2) ex_hist_marked) in
   no_raw_mark t /\
   rows (tmain t) = rows (tmain (fst (run_hist ex_wc false (init_term 4 2) ex_hist_marked))) /\
   rows (tmain (fst (run_bytes ex_wc true (init_term (sW (tmain t)) (sH (tmain t))) (render_screen_ansi (rows (tmain t))))))
   = rows (tmain t)).
Proof.
  split; [repeat constructor; cbn; lia|]. split.
  - cbv zeta. split; [vm_compute; reflexivity|]. split; [intros [H _]; vm_compute in H; discriminate H|].
    vm_compute. repeat split.
  - vm_compute. repeat split.
Qed.

(* With the mark: three reads store the raw invalid bytes E4, B8, AD (span rule) in cells 0, 1, 2
   ("E4 x", CUP 1;2, "B8 AD").  The mark is set; row 0 is not renderable; ANSILine prints the three
   bytes in a row, which read back as ONE valid rune (U+4E2D, two cells): the round trip fails.
   Stripping still gives the text of the cells (StripInv needs no mark).  Under the grid rule the
   same history stores U+FFFD three times, sets no mark and round-trips. *)
Definition ex_hist_raw : list hop := [HFeed [228; 120]; HFeed [27; 91; 49; 59; 50; 72]; HFeed [184; 173]].

Theorem span_kind_raw_refuted :
  Forall (hop_wide 2) ex_hist_raw /\
  (let t := fst (run_hist ex_wc false (init_term 4 1) ex_hist_raw) in
   trig (tmain t) = trInvalidUtf8 /\ ~ no_raw_mark t /\
   map ctext (znth 0 (rows (tmain t)) []) = [[228]; [184]; [173]; [32]] /\
   ~ renderable ex_wc (znth 0 (rows (tmain t)) []) /\
   map ctext (znth 0 (rows (tmain (fst (run_bytes ex_wc false (init_term 4 1) (render_screen_ansi (rows (tmain t))))))) [])
     = [[228; 184; 173]; []; [32]; [32]] /\
   rows (tmain (fst (run_bytes ex_wc false (init_term 4 1) (render_screen_ansi (rows (tmain t)))))) <> rows (tmain t) /\
   strip_sgr (render_line_ansi (znth 0 (rows (tmain t)) [])) = Render.line_text (znth 0 (rows (tmain t)) [])) /\
  (let t := fst (run_hist ex_wc true (init_term 4 1) ex_hist_raw) in
   tz t /\ map ctext (znth 0 (rows (tmain t)) []) = [[239; 191; 189]; [239; 191; 189]; [239; 191; 189]; [32]] /\
   rows (tmain (fst (run_bytes ex_wc true (init_term 4 1) (render_screen_ansi (rows (tmain t)))))) = rows (tmain t)).
Proof.
  split; [repeat constructor; cbn; lia|]. split.
  - cbv zeta. split; [vm_compute; reflexivity|]. split; [intros [H _]; vm_compute in H; discriminate H|].
    split; [vm_compute; reflexivity|]. split.
    { assert (E : znth 0 (rows (tmain (fst (run_hist ex_wc false (init_term 4 1) ex_hist_raw)))) []
                  = [mkCell [228] 1 default_style; mkCell [184] 1 default_style; mkCell [173] 1 default_style; blank default_style])
        by (vm_compute; reflexivity).
      rewrite E. intros H. apply renderable_head in H. destruct H as (r & (Hd & _) & _). vm_compute in Hd. discriminate Hd. }
    split; [vm_compute; reflexivity|]. split; [vm_compute; discriminate|vm_compute; reflexivity].
  - vm_compute. repeat split.
Qed.

(* a single stored raw byte (FF) also makes the row non-renderable, but here the round trip still
   succeeds on the span kind (the byte is read back raw): non-renderability is necessary for the
   round trip to fail, not sufficient *)
Example span_kind_raw_single :
  let t := fst (run_hist ex_wc false (init_term 4 1) [HFeed [255]]) in
  trig (tmain t) = trInvalidUtf8 /\ ~ renderable ex_wc (znth 0 (rows (tmain t)) []) /\
  rows (tmain (fst (run_bytes ex_wc false (init_term 4 1) (render_screen_ansi (rows (tmain t)))))) = rows (tmain t) /\
  rows (tmain (fst (run_bytes ex_wc true (init_term 4 1) (render_screen_ansi (rows (tmain t)))))) <> rows (tmain t).
Proof.
  cbv zeta. split; [vm_compute; reflexivity|]. split.
  { assert (E : znth 0 (rows (tmain (fst (run_hist ex_wc false (init_term 4 1) [HFeed [255]])))) []
                = [mkCell [255] 1 default_style; blank default_style; blank default_style; blank default_style])
      by (vm_compute; reflexivity).
    rewrite E. intros H. apply renderable_head in H. destruct H as (r & (Hd & _) & _). vm_compute in Hd. discriminate Hd. }
  split; [vm_compute; reflexivity|vm_compute; discriminate].
Qed.

(* the span MODEL: red "a", U+4E2D, "b", then bold red-on-blue U+4E2D, "c" in a 7x2 terminal;
   Resize 8x3; CR LF, U+1F600 (two cells), "x".  The hypotheses of the theorems above hold, and the
   clause, computed for the three rows of the main buffer. *)
Definition ex_span_ops : list hop :=
  [HFeed ([27;91;51;49;109] ++ [97] ++ [228;184;173] ++ [98] ++ [27;91;49;59;52;52;109] ++ [228;184;173] ++ [99]);
   HResize 8 3; HFeed ([13;10] ++ [240;159;152;128] ++ [120])].

Example span_model_example :
  Forall (hop_wide 2) ex_span_ops /\ hist_ok ex_span_ops /\
  tz (fst (run_hist SpanExamples.wc_ex false (init_term 7 2) ex_span_ops)) /\
  let s := smain (fst (fst (s_run_hist SpanExamples.wc_ex (s_init_term 7 2) ex_span_ops))) in
  zW s = 8 /\
  map (fun l => strip_sgr (render_line_ansi (abs_line SpanExamples.wc_ex l))) (zlines s) =
    [[97; 228;184;173; 98; 228;184;173; 99; 32]; [240;159;152;128; 120; 32; 32; 32; 32; 32]; [32; 32; 32; 32; 32; 32; 32; 32]] /\
  map (Span.line_text (zW s)) (zlines s) =
    [[97; 228;184;173; 98; 228;184;173; 99; 32]; [240;159;152;128; 120; 32; 32; 32; 32; 32]; [32; 32; 32; 32; 32; 32; 32; 32]] /\
  map (fun l => strip_sgr (render_runs (span_runs SpanExamples.wc_ex l))) (zlines s) = map (Span.line_text (zW s)) (zlines s) /\
  render_line_ansi (abs_line SpanExamples.wc_ex (znth 0 (zlines s) (mkLine [] 0))) =
    [27;91;48;109; 27;91;51;49;109; 97; 228;184;173; 98;
     27;91;48;109; 27;91;48;109; 27;91;49;109; 27;91;51;49;109; 27;91;52;52;109; 228;184;173; 99; 32].
Proof.
  split; [repeat constructor; cbn; lia|]. split; [repeat constructor; cbn; lia|]. vm_compute. repeat split.
Qed.
