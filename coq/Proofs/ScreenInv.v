(* The screen well-formedness invariant (C02) and its preservation by every
   screen primitive; under it no panic site is reachable (C01). *)
From Coq Require Import List ZArith Bool Lia.
From Termemu Require Import Base Style Screen BaseLemmas.
Import ListNotations.
Open Scope Z_scope.

Record Inv (s : screen) : Prop := mkInv {
  inv_w : 1 <= sW s;
  inv_h : 1 <= sH s;
  inv_rows : zlen (rows s) = sH s;
  inv_cols : Forall (fun r => zlen r = sW s) (rows s);
  inv_cx : 0 <= cx s < sW s;
  inv_cy : 0 <= cy s < sH s;
  inv_svx : 0 <= svx s < sW s;
  inv_svy : 0 <= svy s < sH s;
  inv_top : 0 <= top s <= bot s;
  inv_bot : bot s < sH s;
  inv_crash : crash s = 0
}.

(* s is well-formed and has the size of s0 *)
Definition Good (s0 s : screen) : Prop := Inv s /\ sW s = sW s0 /\ sH s = sH s0.

(* f keeps the invariant and the size *)
Definition Pres (f : screen -> screen) : Prop := forall s, Inv s -> Good s (f s).

Lemma Good_refl s : Inv s -> Good s s.
Proof. intros H; split; [exact H|split; reflexivity]. Qed.
Lemma Good_step f s0 s : Pres f -> Good s0 s -> Good s0 (f s).
Proof.
  intros Hf (I & W & H). destruct (Hf s I) as (I' & W' & H'). split; [exact I'|]. split; congruence.
Qed.

Ltac ss :=
  unfold emit in *;
  unfold set_rows, set_cur, set_saved, set_margins, set_awrap, set_sty, set_crash, add_trig, set_evs, set_dims in *;
  cbn [rows sW sH cx cy svx svy top bot awrap sty crash trig evs] in *.

Lemma Pres_comp f g : Pres f -> Pres g -> Pres (fun s => g (f s)).
Proof.
  intros Hf Hg s Hs. destruct (Hf s Hs) as (H1 & H2 & H3). destruct (Hg (f s) H1) as (H4 & H5 & H6).
  split; [exact H4|]. split; congruence.
Qed.

Lemma Pres_id : Pres (fun s => s).
Proof. intros s Hs; apply Good_refl, Hs. Qed.

Lemma Inv_emit e s : Inv s -> Inv (emit e s).
Proof. intros []; constructor; ss; assumption. Qed.
Lemma Inv_set_evs l s : Inv s <-> Inv (set_evs l s).
Proof. split; intros []; constructor; ss; assumption. Qed.
Lemma Inv_add_trig v s : Inv s -> Inv (add_trig v s).
Proof. intros []; constructor; ss; assumption. Qed.
Lemma Inv_set_awrap v s : Inv s -> Inv (set_awrap v s).
Proof. intros []; constructor; ss; assumption. Qed.
Lemma Inv_set_sty v s : Inv s -> Inv (set_sty v s).
Proof. intros []; constructor; ss; assumption. Qed.
Lemma Inv_set_cur x y s : Inv s -> 0 <= x < sW s -> 0 <= y < sH s -> Inv (set_cur x y s).
Proof. intros [] Hx Hy; constructor; ss; assumption. Qed.

Lemma Pres_emit e : Pres (emit e).
Proof. intros s Hs. split; [apply Inv_emit, Hs|ss; auto]. Qed.
Lemma Pres_set_awrap v : Pres (set_awrap v).
Proof. intros s Hs. split; [apply Inv_set_awrap, Hs|ss; auto]. Qed.
Lemma Pres_set_style st : Pres (set_style st).
Proof. intros s Hs. unfold set_style. split; [apply Inv_emit, Inv_set_sty, Hs|ss; auto]. Qed.

(* ---------- rows ---------- *)
Lemma glyph_start_nat_le row x : (glyph_start_nat row x <= x)%nat.
Proof. induction x as [|x IH]; cbn [glyph_start_nat]; [lia|]. destruct (is_cont _); lia. Qed.

Lemma glyph_start_range row x : 0 <= x -> 0 <= glyph_start row x <= x.
Proof. intros H. unfold glyph_start. pose proof (glyph_start_nat_le row (Z.to_nat x)). lia. Qed.

Lemma left_edge_range row x : 0 <= x -> 0 <= left_edge row x <= x.
Proof. intros H. unfold left_edge. destruct (is_cont _); [apply glyph_start_range, H|lia]. Qed.

Lemma cont_prefix_le l : (cont_prefix l <= length l)%nat.
Proof. induction l as [|c l IH]; cbn; [lia|]. destruct (is_cont c); lia. Qed.

Lemma cont_run_range row k : 0 <= k -> 0 <= cont_run row k <= Z.max 0 (zlen row - k).
Proof.
  intros H. unfold cont_run. pose proof (cont_prefix_le (zskipn k row)) as P.
  assert (Q : zlen (zskipn k row) = Z.max 0 (zlen row - Z.max 0 k)) by apply zlen_zskipn.
  unfold zlen in *. lia.
Qed.

Lemma overwrite_len st x new row :
  0 <= x -> x + zlen new <= zlen row -> zlen (overwrite st x new row) = zlen row.
Proof.
  intros Hx Hn. unfold overwrite. destruct (zlen new =? 0) eqn:E; [reflexivity|].
  pose proof (left_edge_range row x Hx). pose proof (zlen_nonneg new).
  pose proof (cont_run_range row (x + zlen new) ltac:(lia)).
  zlens.
Qed.

Lemma delete_cells_len st x n row :
  0 <= x -> 0 <= n -> x + n <= zlen row -> zlen (delete_cells st x n row) = zlen row.
Proof.
  intros Hx Hn Hl. unfold delete_cells.
  pose proof (left_edge_range row x Hx). pose proof (cont_run_range row (x + n) ltac:(lia)).
  zlens.
Qed.

Lemma fit_row_len st w row : 1 <= w -> zlen (fit_row st w row) = w.
Proof.
  intros Hw. unfold fit_row. pose proof (zlen_nonneg row).
  destruct (Z.ltb_spec w (zlen row)).
  - destruct (is_cont _).
    + pose proof (glyph_start_range row w ltac:(lia)). zlens.
    + zlens.
  - zlens.
Qed.

Lemma blank_row_len w st : 0 <= w -> zlen (blank_row w st) = w.
Proof. intros H. unfold blank_row. zl. Qed.

Lemma glyph_cells_len txt w st : 1 <= w -> zlen (glyph_cells txt w st) = w.
Proof. intros H. unfold glyph_cells. zl. Qed.

(* ---------- primitives ---------- *)
Lemma Pres_set_cursor_pos x y : Pres (set_cursor_pos x y).
Proof.
  intros s Hs. unfold set_cursor_pos. destruct Hs.
  pose proof (clamp_range x 0 (sW s - 1) ltac:(lia)). pose proof (clamp_range y 0 (sH s - 1) ltac:(lia)).
  split; [|ss; auto]. constructor; ss; try assumption; lia.
Qed.

Lemma Pres_save_cursor : Pres save_cursor.
Proof. intros s []. unfold save_cursor. split; [|ss; auto]. constructor; ss; assumption. Qed.

Lemma Pres_restore_cursor : Pres restore_cursor.
Proof. intros s []. unfold restore_cursor. split; [|ss; auto]. constructor; ss; assumption. Qed.

Lemma Pres_set_scroll_margins t b : Pres (set_scroll_margins t b).
Proof.
  intros s Hs. unfold set_scroll_margins. destruct (Z.ltb_spec b t); [apply Good_refl, Hs|]. destruct Hs.
  split; [|ss; auto].
  constructor; ss; try assumption; rewrite ?clamp_spec by lia; lia.
Qed.

Lemma Pres_scroll y1 y2 dy : Pres (scroll y1 y2 dy).
Proof.
  intros s Hs. unfold scroll. destruct Hs.
  set (a := clamp y1 0 (sH s - 1)). set (b := clamp y2 0 (sH s - 1)).
  pose proof (clamp_range y1 0 (sH s - 1) ltac:(lia)) as Ha. pose proof (clamp_range y2 0 (sH s - 1) ltac:(lia)) as Hb.
  fold a in Ha. fold b in Hb.
  destruct (Z.ltb_spec b a); [apply Good_refl; constructor; assumption|].
  set (h := b - a + 1).
  set (d := if h <? dy then h else if dy <? - h then - h else dy).
  assert (Hd : - h <= d <= h) by (subst d; destruct (Z.ltb_spec h dy); [lia|]; destruct (Z.ltb_spec dy (- h)); lia).
  assert (Hbr : zlen (blank_row (sW s) (sty s)) = sW s) by (apply blank_row_len; lia).
  destruct (Z.ltb_spec 0 d).
  - split; [|ss; auto]. constructor; ss; try assumption.
    + subst h. zlens.
    + repeat (apply Forall_app; split); auto using Forall_zfirstn, Forall_zskipn, Forall_zrepeat.
  - split; [|ss; auto]. constructor; ss; try assumption.
    + subst h. zlens.
    + repeat (apply Forall_app; split); auto using Forall_zfirstn, Forall_zskipn, Forall_zrepeat.
Qed.

Lemma Pres_move_cursor dx dy wrap scr : Pres (move_cursor dx dy wrap scr).
Proof.
  intros s Hs. unfold move_cursor.
  assert (HW : 1 <= sW s) by apply Hs. assert (HH : 1 <= sH s) by apply Hs.
  set (p := if wrap && awrap s then _ else _).
  assert (Hp : 0 <= fst p < sW s).
  { subst p. destruct (wrap && awrap s); cbn [fst].
    - apply Z.mod_pos_bound. lia.
    - pose proof (clamp_range (cx s + dx) 0 (sW s - 1) ltac:(lia)). lia. }
  destruct p as [x1 y1]. cbn [fst] in Hp.
  set (q := if scr && _ then _ else _).
  assert (Hq : Inv (fst q) /\ sW (fst q) = sW s /\ sH (fst q) = sH s).
  { subst q. destruct (scr && _); [|cbn [fst]; auto].
    destruct (_ <? top s); [cbn [fst]; apply Pres_scroll, Hs|].
    destruct (bot s <? _); [cbn [fst]; apply Pres_scroll, Hs|cbn [fst]; auto]. }
  destruct q as [s1 y3]. cbn [fst] in Hq. destruct Hq as (H1 & H2 & H3).
  pose proof (clamp_range y3 0 (sH s - 1) ltac:(lia)).
  split; [|ss; auto]. apply Inv_emit, Inv_set_cur; [exact H1|lia|lia].
Qed.

Lemma move_cursor_cx dx dy wrap scr s :
  cx (move_cursor dx dy wrap scr s) =
  if wrap && awrap s then (cx s + dx) mod sW s else clamp (cx s + dx) 0 (sW s - 1).
Proof.
  unfold move_cursor. destruct (wrap && awrap s);
    repeat match goal with |- context [if ?c then _ else _] => destruct c end; reflexivity.
Qed.

Lemma Inv_set_rows_upd y row s :
  Inv s -> zlen row = sW s -> Inv (set_rows (zupd y row (rows s)) s).
Proof.
  intros [] Hr. constructor; ss; try assumption.
  - zl.
  - apply Forall_zupd; assumption.
Qed.

Lemma row_at_len s y : Inv s -> 0 <= y < sH s -> zlen (row_at s y) = sW s.
Proof.
  intros [] Hy. unfold row_at. apply (Forall_znth (fun r => zlen r = sW s)); [assumption|lia].
Qed.

Lemma write_row_cells_ok reason x y new s :
  Inv s -> 0 <= y < sH s -> 0 <= x -> x + zlen new <= sW s ->
  Inv (write_row_cells reason x y new s) /\ sW (write_row_cells reason x y new s) = sW s
  /\ sH (write_row_cells reason x y new s) = sH s.
Proof.
  intros Hs Hy Hx Hn. unfold write_row_cells.
  destruct (zlen new <=? 0) eqn:E0; [auto|].
  destruct (Z.ltb_spec y 0); [lia|]. destruct (Z.leb_spec (sH s) y); [lia|].
  destruct (Z.ltb_spec x 0); [lia|]. destruct (Z.ltb_spec (sW s) (x + zlen new)); [lia|]. cbn [orb].
  pose proof (row_at_len s y Hs Hy) as Hl.
  set (s' := if is_cont _ then add_trig trSecondHalf s else s).
  assert (Hs' : Inv s' /\ rows s' = rows s /\ sW s' = sW s /\ sH s' = sH s /\ sty s' = sty s).
  { subst s'. destruct (is_cont _); [split; [apply Inv_add_trig, Hs|ss; auto]|auto]. }
  destruct Hs' as (I' & R' & W' & H' & S').
  split; [|ss; auto].
  apply Inv_emit. apply Inv_set_rows_upd; [exact I'|].
  rewrite W'. rewrite overwrite_len; lia.
Qed.

Lemma erase_rows_ok reason x x2 ys : forall s,
  Inv s -> 0 <= x <= x2 -> x2 <= sW s -> Forall (fun y => 0 <= y < sH s) ys ->
  Inv (erase_rows reason x x2 ys s) /\ sW (erase_rows reason x x2 ys s) = sW s
  /\ sH (erase_rows reason x x2 ys s) = sH s.
Proof.
  induction ys as [|y ys IH]; intros s Hs Hx Hx2 Hys; cbn [erase_rows]; [auto|].
  inversion Hys as [|? ? Hy Hys']; subst.
  destruct (write_row_cells_ok reason x y (zrepeat (blank (sty s)) (x2 - x)) s Hs Hy ltac:(lia) ltac:(zl)) as (I1 & W1 & H1).
  destruct (IH _ I1 Hx ltac:(lia) ltac:(rewrite H1; exact Hys')) as (I2 & W2 & H2).
  split; [exact I2|]. split; congruence.
Qed.

Lemma zseq_nat_range a n : Forall (fun y => a <= y < a + Z.of_nat n) (zseq_nat a n).
Proof.
  revert a. induction n as [|n IH]; intros a; cbn [zseq_nat]; constructor; [lia|].
  eapply Forall_impl; [|apply IH]. cbn. intros; lia.
Qed.
Lemma zseq_range a b : Forall (fun y => a <= y < b) (zseq a b).
Proof.
  unfold zseq. destruct (Z.le_gt_cases b a).
  - replace (Z.to_nat (b - a)) with 0%nat by lia. constructor.
  - eapply Forall_impl; [|apply zseq_nat_range]. cbn. intros; lia.
Qed.

Lemma Pres_erase_region x y x2 y2 : Pres (erase_region x y x2 y2).
Proof.
  intros s Hs. unfold erase_region. assert (HW : 1 <= sW s) by apply Hs. assert (HH : 1 <= sH s) by apply Hs.
  pose proof (clamp_range x 0 (sW s) ltac:(lia)) as A.
  pose proof (clamp_range y 0 (sH s) ltac:(lia)) as B.
  pose proof (clamp_range x2 (clamp x 0 (sW s)) (sW s) ltac:(lia)) as C.
  pose proof (clamp_range y2 (clamp y 0 (sH s)) (sH s) ltac:(lia)) as D.
  apply erase_rows_ok; [exact Hs|lia|lia|].
  eapply Forall_impl; [|apply zseq_range]. cbn. intros; lia.
Qed.

Lemma Pres_delete_chars x y n : Pres (delete_chars x y n).
Proof.
  intros s Hs. unfold delete_chars.
  destruct ((y <? 0) || (sH s <=? y) || (n <=? 0)) eqn:E1; [apply Good_refl, Hs|].
  apply orb_false_iff in E1. destruct E1 as [E1 E3]. apply orb_false_iff in E1. destruct E1 as [E1 E2].
  set (n1 := if x <? 0 then n + x else n). set (x1 := if x <? 0 then 0 else x).
  destruct ((sW s <=? x1) || (n1 <=? 0)) eqn:E4; [apply Good_refl, Hs|].
  apply orb_false_iff in E4. destruct E4 as [E4 E5].
  set (n2 := if sW s <? x1 + n1 then sW s - x1 else n1).
  assert (Hx1 : 0 <= x1 < sW s) by (subst x1; destruct (x <? 0) eqn:?; lia).
  assert (Hn2 : 0 <= n2 /\ x1 + n2 <= sW s) by (subst n2; destruct (sW s <? x1 + n1) eqn:?; lia).
  assert (Hy : 0 <= y < sH s) by lia.
  pose proof (row_at_len s y Hs Hy) as Hl.
  set (s' := if is_cont _ then add_trig trSecondHalf s else s).
  assert (Hs' : Inv s' /\ rows s' = rows s /\ sW s' = sW s /\ sH s' = sH s).
  { subst s'. destruct (is_cont _); [split; [apply Inv_add_trig, Hs|ss; auto]|auto]. }
  destruct Hs' as (I' & R' & W' & H').
  split; [|ss; auto].
  apply Inv_emit. apply Inv_set_rows_upd; [exact I'|].
  rewrite W'. rewrite delete_cells_len; lia.
Qed.

Lemma Pres_write_glyph txt w0 : Pres (write_glyph txt w0).
Proof.
  intros s Hs. unfold write_glyph.
  assert (HW : 1 <= sW s) by apply Hs. assert (HH : 1 <= sH s) by apply Hs.
  rewrite (inv_crash s Hs). cbn [Z.eqb negb].
  set (w1 := if w0 <? 1 then 1 else w0).
  assert (Hw1 : 1 <= w1) by (subst w1; destruct (w0 <? 1) eqn:?; lia).
  set (sa := if sW s <? w1 then add_trig trWideOnNarrow s else s).
  assert (Hsa : Inv sa /\ sW sa = sW s /\ sH sa = sH s /\ cx sa = cx s /\ cy sa = cy s).
  { subst sa. destruct (sW s <? w1); [split; [apply Inv_add_trig, Hs|ss; auto]|auto]. }
  destruct Hsa as (Ia & Wa & Ha & Xa & Ya).
  set (w := if sW sa <? w1 then sW sa else w1).
  assert (Hw : 1 <= w <= sW s) by (subst w; rewrite Wa; destruct (Z.ltb_spec (sW s) w1); lia).
  set (s1 := if sW sa <? cx sa + w then _ else sa).
  assert (H1 : Inv s1 /\ sW s1 = sW s /\ sH s1 = sH s /\ cx s1 + w <= sW s).
  { subst s1. rewrite Wa, Xa. destruct (Z.ltb_spec (sW s) (cx s + w)).
    - destruct (awrap sa).
      + destruct (Pres_move_cursor (- cx s) 1 false true sa Ia) as (I & W' & H').
        split; [exact I|]. split; [congruence|]. split; [congruence|].
        rewrite move_cursor_cx. cbn [andb]. rewrite Xa, Wa.
        replace (cx s + - cx s) with 0 by lia. rewrite clamp_id by lia. lia.
      + rewrite Ya. pose proof (inv_cy s Hs).
        split; [apply Inv_set_cur; [exact Ia|lia|lia]|]. ss. repeat split; try assumption; lia.
    - split; [exact Ia|]. split; [exact Wa|]. split; [exact Ha|]. lia. }
  destruct H1 as (I1 & W1 & H1' & C1).
  pose proof (inv_cx s1 I1) as Cx. pose proof (inv_cy s1 I1) as Cy.
  destruct (write_row_cells_ok crText (cx s1) (cy s1) (glyph_cells txt w (sty s1)) s1 I1 Cy ltac:(lia)
              ltac:(rewrite glyph_cells_len by lia; lia)) as (I2 & W2 & H2).
  rewrite (inv_crash _ I2). cbn [Z.eqb negb].
  destruct (Pres_move_cursor w 0 true true _ I2) as (I3 & W3 & H3).
  split; [exact I3|]. split; congruence.
Qed.

Lemma Inv_init w h : 1 <= w -> 1 <= h -> Inv (init_screen w h).
Proof.
  intros Hw Hh. unfold init_screen. constructor; ss; try lia.
  - zl.
  - apply Forall_zrepeat. apply blank_row_len. lia.
Qed.

(* the fields of the state after setSize, without unfolding the nested setters in later proofs *)
Lemma set_size_fields w h s : 1 <= w -> 1 <= h ->
  let s' := set_size w h s in
  let bot1 := clamp (h - (sH s - bot s)) 0 (h - 1) in
  rows s' = map (fit_row (sty s) w) (zfirstn h (rows s)) ++ zrepeat (blank_row w (sty s)) (h - zlen (zfirstn h (rows s))) /\
  sW s' = w /\ sH s' = h /\
  cx s' = clamp (cx s) 0 (w - 1) /\ cy s' = clamp (cy s) 0 (h - 1) /\
  svx s' = clamp (svx s) 0 (w - 1) /\ svy s' = clamp (svy s) 0 (h - 1) /\
  top s' = (if bot1 <? top s then 0 else top s) /\ bot s' = (if bot1 <? top s then h - 1 else bot1) /\
  crash s' = crash s /\ sty s' = sty s /\ awrap s' = awrap s.
Proof.
  intros Hw Hh. unfold set_size.
  destruct (Z.leb_spec w 0); [lia|]. destruct (Z.leb_spec h 0); [lia|]. cbn [orb].
  destruct (clamp (h - (sH s - bot s)) 0 (h - 1) <? top s); repeat split; reflexivity.
Qed.

(* setSize re-establishes the invariant at the new size (C18) *)
Lemma set_size_ok w h s : Inv s -> 1 <= w -> 1 <= h ->
  Inv (set_size w h s) /\ sW (set_size w h s) = w /\ sH (set_size w h s) = h.
Proof.
  intros Hs Hw Hh.
  destruct (set_size_fields w h s Hw Hh) as (R & W & H & X & Y & SX & SY & T & B & C & _ & _).
  set (s' := set_size w h s) in *. clearbody s'.
  pose proof (clamp_range (h - (sH s - bot s)) 0 (h - 1) ltac:(lia)) as Hb.
  set (bot1 := clamp (h - (sH s - bot s)) 0 (h - 1)) in *.
  pose proof (clamp_range (cx s) 0 (w - 1) ltac:(lia)). pose proof (clamp_range (cy s) 0 (h - 1) ltac:(lia)).
  pose proof (clamp_range (svx s) 0 (w - 1) ltac:(lia)). pose proof (clamp_range (svy s) 0 (h - 1) ltac:(lia)).
  pose proof (inv_top s Hs). pose proof (zlen_nonneg (rows s)).
  split; [|split; assumption].
  constructor; rewrite ?W, ?H, ?X, ?Y, ?SX, ?SY, ?T, ?B, ?C; try lia.
  - rewrite R. rewrite zlen_app, zlen_map, zlen_zrepeat, zlen_zfirstn. lia.
  - rewrite R. apply Forall_app. split.
    + apply Forall_forall. intros r Hr. apply in_map_iff in Hr. destruct Hr as (r0 & <- & _). apply fit_row_len. lia.
    + apply Forall_zrepeat. apply blank_row_len. lia.
  - destruct (Z.ltb_spec bot1 (top s)); lia.
  - destruct (Z.ltb_spec bot1 (top s)); lia.
  - apply (inv_crash s Hs).
Qed.

#[export] Hint Resolve Pres_move_cursor Pres_set_cursor_pos Pres_scroll Pres_erase_region Pres_delete_chars
  Pres_write_glyph Pres_set_style Pres_save_cursor Pres_restore_cursor Pres_set_scroll_margins Pres_set_awrap
  Pres_id : pres.

(* proves [Pres (fun s => ...)] for compositions of primitives under conditionals *)
Ltac pres_solve :=
  let s := fresh "s" in let Hs := fresh "Hs" in
  intros s Hs; cbv beta zeta;
  repeat match goal with |- context [if ?c then _ else _] => destruct c end;
  repeat (apply Good_step; [solve [auto with pres]|]);
  apply Good_refl; exact Hs.
