(* Segmentation independence (C08): feeding a byte stream in any number of
   reads, cut anywhere, gives the same terminal and the same pending bytes as
   feeding it in one read.  The proof is the monotonicity of the tokenizer
   (ParserMono) plus "enough fuel is enough" (HistProofs). *)
From Coq Require Import List ZArith Bool Lia.
From Termemu Require Import Base Style Screen Kbd Parser Term BaseLemmas ParserProofs ParserMono
  ScreenInv TermInv HistProofs.
Import ListNotations.
Open Scope Z_scope.

Section Seg.
  Variable wc : Z -> Z.
  Variable grid : bool.

  Lemma run_pending_fuel_indep f1 f2 t inp : (length inp < f1)%nat -> (length inp < f2)%nat ->
    run_pending wc grid f1 t inp = run_pending wc grid f2 t inp.
  Proof.
    intros H1 H2.
    rewrite <- (run_pending_more_fuel wc grid f1 t inp f2 H1).
    rewrite <- (run_pending_more_fuel wc grid f2 t inp f1 H2).
    f_equal. lia.
  Qed.

  (* one iteration of the read loop *)
  Lemma run_bytes_step t inp k rest : crashed t = false -> parse_one wc grid inp = PTok k rest ->
    run_bytes wc grid t inp = run_bytes wc grid (exec_tok k t) rest.
  Proof.
    intros Hc Hp. unfold run_bytes at 1. cbn [run_pending]. rewrite Hc, Hp.
    apply parse_one_suffix, ss_length in Hp. unfold run_bytes. apply run_pending_fuel_indep; lia.
  Qed.
  Lemma run_bytes_blocked t inp : parse_one wc grid inp = PMore -> run_bytes wc grid t inp = (t, inp).
  Proof. intros Hp. unfold run_bytes. cbn [run_pending]. rewrite Hp. destruct (crashed t); reflexivity. Qed.
  Lemma run_bytes_crashed t inp : crashed t = true -> run_bytes wc grid t inp = (t, inp).
  Proof. intros Hc. unfold run_bytes. cbn [run_pending]. rewrite Hc. reflexivity. Qed.
  Lemma run_bytes_nil t : run_bytes wc grid t [] = (t, []).
  Proof. apply run_bytes_blocked. reflexivity. Qed.

  (* the bytes left pending by a read are re-scanned together with the bytes
     of the next read, and that gives what a single read of both would give.
     A crashed terminal (excluded for reachable states by C01) is stuck in
     both executions and keeps all unread bytes pending. *)
  Lemma run_pending_app f : forall t a b, (length a < f)%nat ->
    let r := run_pending wc grid f t a in
    run_bytes wc grid (fst r) (snd r ++ b) = run_bytes wc grid t (a ++ b).
  Proof.
    induction f as [|f IH]; intros t a b Hl; [lia|].
    cbn [run_pending]. destruct (crashed t) eqn:Hc; [reflexivity|].
    destruct (parse_one wc grid a) as [|k rest] eqn:Hp; [reflexivity|].
    cbv zeta. pose proof (parse_one_mono wc grid _ _ _ Hp b) as Hp'.
    rewrite (run_bytes_step t (a ++ b) k (rest ++ b) Hc Hp').
    apply parse_one_suffix, ss_length in Hp. apply IH. lia.
  Qed.

  Theorem run_bytes_app t a b :
    let r := run_bytes wc grid t a in
    run_bytes wc grid (fst r) (snd r ++ b) = run_bytes wc grid t (a ++ b).
  Proof. apply run_pending_app. lia. Qed.

  (* two consecutive reads are one read of the concatenation, from any state *)
  Theorem hstep_feed_merge st a b :
    hstep wc grid (hstep wc grid st (HFeed a)) (HFeed b) = hstep wc grid st (HFeed (a ++ b)).
  Proof.
    cbn [hstep]. rewrite (run_bytes_app (fst st) (snd st ++ a) b). rewrite app_assoc. reflexivity.
  Qed.

  (* canonical form of a sequence of reads *)
  Lemma feeds_canonical chunks : forall t a,
    fold_left (hstep wc grid) (map HFeed chunks) (run_bytes wc grid t a) =
    run_bytes wc grid t (a ++ concat chunks).
  Proof.
    induction chunks as [|c chunks IH]; intros t a; cbn [map fold_left concat].
    - rewrite app_nil_r. reflexivity.
    - cbn [hstep]. rewrite (run_bytes_app t a c). rewrite IH, app_assoc. reflexivity.
  Qed.

  Theorem feeds_run_bytes t chunks :
    fold_left (hstep wc grid) (map HFeed chunks) (t, []) = run_bytes wc grid t (concat chunks).
  Proof. rewrite <- (run_bytes_nil t) at 1. apply feeds_canonical. Qed.

  Theorem seg_indep t chunks1 chunks2 : concat chunks1 = concat chunks2 ->
    fold_left (hstep wc grid) (map HFeed chunks1) (t, []) =
    fold_left (hstep wc grid) (map HFeed chunks2) (t, []).
  Proof. intros H. rewrite !feeds_run_bytes, H. reflexivity. Qed.

  (* the two extreme segmentations named in the property: one read, and byte by byte *)
  Lemma concat_singletons (inp : list Z) : concat (map (fun b => [b]) inp) = inp.
  Proof. induction inp as [|b inp IH]; cbn; [reflexivity|f_equal; exact IH]. Qed.

  Theorem bytewise_eq_whole t inp :
    fold_left (hstep wc grid) (map HFeed (map (fun b => [b]) inp)) (t, []) = run_bytes wc grid t inp.
  Proof. rewrite feeds_run_bytes, concat_singletons. reflexivity. Qed.

  (* every cut point: feeding the first n bytes, then the rest *)
  Theorem cut_anywhere t inp n :
    fold_left (hstep wc grid) [HFeed (firstn n inp); HFeed (skipn n inp)] (t, []) = run_bytes wc grid t inp.
  Proof.
    change [HFeed (firstn n inp); HFeed (skipn n inp)] with (map HFeed [firstn n inp; skipn n inp]).
    rewrite feeds_run_bytes. cbn [concat]. rewrite app_nil_r, firstn_skipn. reflexivity.
  Qed.

  (* ---- with Resize calls in between: only the cuts between two Resize calls
     are irrelevant (a Resize acts on the state reached by the bytes completed
     so far), so histories are compared after merging adjacent reads ---- *)
  Fixpoint merge_feeds (acc : list Z) (ops : list hop) : list hop :=
    match ops with
    | [] => [HFeed acc]
    | HFeed b :: r => merge_feeds (acc ++ b) r
    | HResize w h :: r => HFeed acc :: HResize w h :: merge_feeds [] r
    end.

  Lemma hstep_feed_nil_idem st :
    hstep wc grid (hstep wc grid st (HFeed [])) (HFeed []) = hstep wc grid st (HFeed []).
  Proof. rewrite hstep_feed_merge. reflexivity. Qed.

  (* a read of no bytes after a Resize changes nothing: the pending bytes were blocked before *)
  Lemma resize_then_empty_feed st acc w h :
    let st1 := hstep wc grid st (HFeed acc) in
    hstep wc grid (hstep wc grid st1 (HResize w h)) (HFeed []) = hstep wc grid st1 (HResize w h).
  Proof.
    cbn [hstep]. set (r := run_bytes wc grid (fst st) (snd st ++ acc)).
    destruct (crashed (fst r)) eqn:Hc.
    - rewrite app_nil_r, run_bytes_crashed by exact Hc. destruct r; reflexivity.
    - cbn [fst snd]. rewrite app_nil_r.
      destruct (run_bytes_stops wc grid (fst st) (snd st ++ acc)) as [Hs|Hs]; fold r in Hs; [congruence|].
      apply run_bytes_blocked. exact Hs.
  Qed.

  Lemma merge_feeds_ok ops : forall acc st,
    fold_left (hstep wc grid) ops (hstep wc grid st (HFeed acc)) =
    fold_left (hstep wc grid) (merge_feeds acc ops) st.
  Proof.
    induction ops as [|o ops IH]; intros acc st; cbn [merge_feeds fold_left]; [reflexivity|].
    destruct o as [b|w h].
    - rewrite hstep_feed_merge. apply IH.
    - cbn [fold_left]. rewrite <- IH. f_equal. symmetry. apply resize_then_empty_feed.
  Qed.

  Theorem run_hist_merge t ops : run_hist wc grid t ops = run_hist wc grid t (merge_feeds [] ops).
  Proof.
    unfold run_hist. rewrite <- merge_feeds_ok. f_equal.
    cbn [hstep fst snd app]. symmetry. apply run_bytes_nil.
  Qed.

  Theorem hist_seg_indep t ops1 ops2 : merge_feeds [] ops1 = merge_feeds [] ops2 ->
    run_hist wc grid t ops1 = run_hist wc grid t ops2.
  Proof. intros H. rewrite (run_hist_merge t ops1), (run_hist_merge t ops2), H. reflexivity. Qed.
End Seg.

(* "中" (3 bytes), CUP and a DSR query, fed whole, byte by byte, and cut inside
   the UTF-8 character and inside the escape sequence: identical results,
   including the reply bytes *)
Example seg_example :
  let inp := [228;184;173; 27;91;50;59;51;72; 27;91;54;110; 97] in
  let t := init_term 6 3 in
  let wc := fun r => if r <? 256 then 1 else 2 in
  fold_left (hstep wc false) (map HFeed [[228;184]; [173;27]; [91;50;59]; [51;72;27;91;54]; [110;97]]) (t, [])
    = run_bytes wc false t inp /\
  tout (fst (run_bytes wc false t inp)) = [27;91;50;59;51;82] /\
  snd (run_bytes wc false t inp) = [].
Proof. vm_compute. repeat split. Qed.

Example merge_example :
  merge_feeds [] [HFeed [27]; HFeed [91]; HResize 3 3; HFeed [72]; HFeed []; HFeed [65]] =
  [HFeed [27; 91]; HResize 3 3; HFeed [72; 65]].
Proof. reflexivity. Qed.
