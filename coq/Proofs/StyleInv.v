(* Every style that exists in a reachable state - the current rendition of
   either buffer and the style of every cell - is well-formed, i.e. exactly
   representable in the packed Go struct.  This discharges the [wf_style]
   hypotheses of the packing and round-trip theorems for reachable states. *)
From Coq Require Import List ZArith Bool Lia.
From Termemu Require Import Base Style Screen Kbd Parser Term BaseLemmas ScreenInv
  SgrSpec StyleProofs SgrProofs StampProofs.
Import ListNotations.
Open Scope Z_scope.

Definition SInv (s : screen) : Prop :=
  wf_style (sty s) /\ forall c, cell_in c s -> wf_style (cst c).

Lemma SInv_same s s' : rows s' = rows s -> sty s' = sty s -> SInv s -> SInv s'.
Proof.
  intros R S (H1 & H2). split; [rewrite S; exact H1|].
  intros c (r & Hr & Hc). apply H2. exists r. rewrite <- R. auto.
Qed.

Lemma SInv_stamped s s' : stamped (sty s) s s' -> sty s' = sty s -> SInv s -> SInv s'.
Proof.
  intros St S (H1 & H2). split; [rewrite S; exact H1|].
  intros c Hc. apply St in Hc. destruct Hc as [Hc| ->]; auto.
Qed.

Lemma SInv_stamped_cut s s' : stamped_cut (sty s) s s' -> sty s' = sty s -> SInv s -> SInv s'.
Proof.
  intros St S (H1 & H2). split; [rewrite S; exact H1|].
  intros c Hc. apply St in Hc. destruct Hc as [Hc|[-> |(c0 & Hc0 & ->)]]; auto.
  cbn [unglyph cst]. auto.
Qed.

Lemma SInv_set_evs l s : SInv s -> SInv (set_evs l s).
Proof. apply SInv_same; reflexivity. Qed.
Lemma SInv_set_evs_inv l s : SInv (set_evs l s) -> SInv s.
Proof. apply SInv_same; reflexivity. Qed.
Lemma SInv_add_trig v s : SInv s -> SInv (add_trig v s).
Proof. apply SInv_same; reflexivity. Qed.
Lemma SInv_set_awrap v s : SInv s -> SInv (set_awrap v s).
Proof. apply SInv_same; reflexivity. Qed.
Lemma SInv_set_cursor_pos x y s : SInv s -> SInv (set_cursor_pos x y s).
Proof. apply SInv_same; reflexivity. Qed.
Lemma SInv_save_cursor s : SInv s -> SInv (save_cursor s).
Proof. apply SInv_same; reflexivity. Qed.
Lemma SInv_restore_cursor s : SInv s -> SInv (restore_cursor s).
Proof. apply SInv_same; reflexivity. Qed.
Lemma SInv_set_scroll_margins t b s : SInv s -> SInv (set_scroll_margins t b s).
Proof. unfold set_scroll_margins. destruct (b <? t); [auto|]. apply SInv_same; reflexivity. Qed.
Lemma SInv_move_cursor dx dy w sc s : SInv s -> SInv (move_cursor dx dy w sc s).
Proof. destruct (move_cursor_stamped dx dy w sc s). apply SInv_stamped; assumption. Qed.
Lemma SInv_scroll a b d s : SInv s -> SInv (scroll a b d s).
Proof. destruct (scroll_stamped a b d s). apply SInv_stamped; assumption. Qed.
Lemma SInv_erase_region x y x2 y2 s : SInv s -> SInv (erase_region x y x2 y2 s).
Proof. destruct (erase_region_stamped x y x2 y2 s). apply SInv_stamped; assumption. Qed.
Lemma SInv_write_glyph txt w s : SInv s -> SInv (write_glyph txt w s).
Proof. destruct (write_glyph_stamped txt w s). apply SInv_stamped; assumption. Qed.
Lemma SInv_delete_chars x y n s : SInv s -> SInv (delete_chars x y n s).
Proof. destruct (delete_chars_stamped x y n s). apply SInv_stamped_cut; assumption. Qed.
Lemma SInv_set_size w h s : SInv s -> SInv (set_size w h s).
Proof.
  intros H. destruct (Z_le_gt_dec w 0) as [Hw|Hw]; [|destruct (Z_le_gt_dec h 0) as [Hh|Hh]].
  - unfold set_size. destruct (Z.leb_spec w 0); [|lia]. cbn [orb]. revert H. apply SInv_same; reflexivity.
  - unfold set_size. destruct (Z.leb_spec h 0); [|lia]. rewrite orb_true_r. revert H. apply SInv_same; reflexivity.
  - destruct (set_size_stamped w h s ltac:(lia) ltac:(lia)). revert H. apply SInv_stamped_cut; assumption.
Qed.
Lemma SInv_sgr ps s : SInv s -> SInv (set_style (sgr_apply ps (sty s)) s).
Proof.
  intros (H1 & H2). split; [cbn [set_style emit set_evs set_sty sty]; apply wf_sgr_apply, H1|].
  intros c (r & Hr & Hc). apply H2. exists r. auto.
Qed.
Lemma SInv_init w h : SInv (init_screen w h).
Proof.
  split; [apply wf_default|]. intros c (r & Hr & Hc). cbn [init_screen rows] in Hr.
  apply In_zrepeat in Hr. subst r. apply blank_row_style in Hc. subst c. apply wf_default.
Qed.

#[export] Hint Resolve SInv_add_trig SInv_set_awrap SInv_set_cursor_pos SInv_save_cursor SInv_restore_cursor
  SInv_set_scroll_margins SInv_move_cursor SInv_scroll SInv_erase_region SInv_write_glyph SInv_delete_chars
  SInv_sgr : sinv.

Definition SPres (f : screen -> screen) : Prop := forall s, SInv s -> SInv (f s).

Ltac sinv_solve :=
  let s := fresh "s" in let Hs := fresh "Hs" in
  intros s Hs; cbv beta zeta;
  repeat match goal with |- context [if ?c then _ else _] => destruct c end;
  auto 8 with sinv.

(* ---------- terminal ---------- *)
Definition TSInv (t : term) : Prop := SInv (tmain t) /\ SInv (talt t).

Lemma TSInv_init w h : TSInv (init_term w h).
Proof. split; apply SInv_init. Qed.

Lemma TSInv_on_screen f t : SPres f -> TSInv t -> TSInv (on_screen f t).
Proof.
  intros Hf (Hm & Ha). unfold on_screen, active, set_active.
  destruct (onalt t); cbn [tmain talt onalt]; split; try assumption;
    apply SInv_set_evs, Hf, SInv_set_evs; assumption.
Qed.

Ltac tsinv_same := intros []; split; cbn [tmain talt]; assumption.
Lemma TSInv_log_ev e t : TSInv t -> TSInv (log_ev e t).
Proof. tsinv_same. Qed.
Lemma TSInv_reply b t : TSInv t -> TSInv (reply b t).
Proof. tsinv_same. Qed.
Lemma TSInv_set_vflag i v t : TSInv t -> TSInv (set_vflag i v t).
Proof. tsinv_same. Qed.
Lemma TSInv_set_vint i v t : TSInv t -> TSInv (set_vint i v t).
Proof. tsinv_same. Qed.
Lemma TSInv_set_vstr i v t : TSInv t -> TSInv (set_vstr i v t).
Proof. tsinv_same. Qed.
Lemma TSInv_on_kbd f t : TSInv t -> TSInv (on_kbd f t).
Proof. intros []; unfold on_kbd; destruct (onalt t); split; cbn [tmain talt]; assumption. Qed.
Lemma TSInv_switch t : TSInv t -> TSInv (switch_screen t).
Proof. tsinv_same. Qed.
#[export] Hint Resolve TSInv_log_ev TSInv_reply TSInv_set_vflag TSInv_set_vint TSInv_set_vstr TSInv_on_kbd TSInv_switch : tsinv.

Lemma TSInv_exec_c0 b t : TSInv t -> TSInv (exec_c0 b t).
Proof.
  intros Ht. unfold exec_c0.
  repeat match goal with |- context [if ?c then _ else _] => destruct c end;
    auto with tsinv; apply TSInv_on_screen; auto; sinv_solve.
Qed.
Lemma TSInv_exec_esc b t : TSInv t -> TSInv (exec_esc b t).
Proof.
  intros Ht. unfold exec_esc.
  repeat match goal with |- context [if ?c then _ else _] => destruct c end;
    auto with tsinv; apply TSInv_on_screen; auto; sinv_solve.
Qed.
Lemma TSInv_dec_mode v p t : TSInv t -> TSInv (dec_mode v p t).
Proof.
  intros Ht. unfold dec_mode.
  repeat match goal with |- context [if ?c then _ else _] => destruct c end;
    auto with tsinv; apply TSInv_on_screen; auto; sinv_solve.
Qed.
Lemma TSInv_dec_modes v ps : forall t, TSInv t -> TSInv (fold_left (fun t p => dec_mode v p t) ps t).
Proof. induction ps as [|p ps IH]; intros t Ht; cbn [fold_left]; auto using TSInv_dec_mode. Qed.
Lemma TSInv_exec_csi_plain ps f t : TSInv t -> TSInv (exec_csi_plain ps f t).
Proof.
  intros Ht. unfold exec_csi_plain. cbv zeta.
  repeat match goal with |- TSInv (if ?c then _ else _) => destruct c end;
    auto with tsinv; apply TSInv_on_screen; auto; sinv_solve.
Qed.
Lemma TSInv_exec_csi prefix ps f t : TSInv t -> TSInv (exec_csi prefix ps f t).
Proof.
  intros Ht. unfold exec_csi. cbv zeta.
  repeat match goal with |- TSInv (if ?c then _ else _) => destruct c end;
    auto using TSInv_exec_csi_plain, TSInv_dec_modes with tsinv.
Qed.
Lemma TSInv_exec_osc n p t : TSInv t -> TSInv (exec_osc n p t).
Proof.
  intros Ht. unfold exec_osc.
  repeat match goal with |- TSInv (if ?c then _ else _) => destruct c end; auto with tsinv.
Qed.

Theorem TSInv_exec_tok k t : TSInv t -> TSInv (exec_tok k t).
Proof.
  intros Ht. destruct k; cbn [exec_tok];
    auto using TSInv_exec_c0, TSInv_exec_esc, TSInv_exec_csi, TSInv_exec_osc.
  apply TSInv_on_screen; auto. sinv_solve.
Qed.

Theorem TSInv_resize w h t : TSInv t -> TSInv (resize w h t).
Proof.
  intros (Hm & Ha). unfold resize. split; cbn [tmain talt]; apply SInv_set_evs, SInv_set_size, SInv_set_evs; assumption.
Qed.

Section Run.
  Variable wc : Z -> Z.
  Variable grid : bool.

  Theorem TSInv_run_pending fuel : forall t inp, TSInv t -> TSInv (fst (run_pending wc grid fuel t inp)).
  Proof.
    induction fuel as [|f IH]; intros t inp Ht; cbn [run_pending]; [exact Ht|].
    destruct (crashed t); [exact Ht|].
    destruct (parse_one wc grid inp) as [|k rest]; [exact Ht|].
    apply IH, TSInv_exec_tok, Ht.
  Qed.

  Lemma TSInv_hstep st o : TSInv (fst st) -> TSInv (fst (hstep wc grid st o)).
  Proof.
    intros Ht. destruct o as [bs|w h]; cbn [hstep].
    - apply TSInv_run_pending, Ht.
    - destruct (crashed (fst st)); [exact Ht|]. cbn [fst]. apply TSInv_resize, Ht.
  Qed.

  (* every history, without any side condition *)
  Theorem TSInv_run_hist w h ops : TSInv (fst (run_hist wc grid (init_term w h) ops)).
  Proof.
    unfold run_hist. assert (G : forall st, TSInv (fst st) -> TSInv (fst (fold_left (hstep wc grid) ops st))).
    { induction ops as [|o ops IH]; intros st Ht; cbn [fold_left]; [exact Ht|]. apply IH, TSInv_hstep, Ht. }
    apply G. apply TSInv_init.
  Qed.
End Run.

(* spelled out *)
Theorem reachable_styles_wf wc grid w h ops :
  let t := fst (run_hist wc grid (init_term w h) ops) in
  wf_style (sty (tmain t)) /\ wf_style (sty (talt t)) /\
  (forall x y, wf_style (cst (cell_at (tmain t) x y))) /\
  (forall x y, wf_style (cst (cell_at (talt t) x y))).
Proof.
  intros t. destruct (TSInv_run_hist wc grid w h ops) as ((M1 & M2) & (A1 & A2)). fold t in M1, M2, A1, A2.
  assert (C : forall s, (forall c, cell_in c s -> wf_style (cst c)) -> forall x y, wf_style (cst (cell_at s x y))).
  { intros s Hs x y. unfold cell_at, row_at.
    destruct (Z.lt_ge_cases x 0) as [X|X]; [rewrite znth_neg by lia; apply wf_default|].
    destruct (Z.lt_ge_cases x (zlen (znth y (rows s) []))) as [X2|X2]; [|rewrite znth_overflow by lia; apply wf_default].
    apply Hs. apply (row_at_cells s y). unfold row_at, znth at 1. destruct (Z.ltb_spec x 0); [lia|].
    apply nth_In. unfold zlen in X2. lia. }
  split; [exact M1|]. split; [exact A1|]. split; [apply C, M2|apply C, A2].
Qed.

(* each StyleChanged the frontend receives from an SGR sequence carries a well-formed style *)
Theorem sgr_told_wf ps t : TSInv t ->
  exists st, tlog (exec_csi_plain ps 109 t) = EStyle st :: tlog t /\ wf_style st.
Proof.
  intros (Hm & Ha). exists (sgr_apply ps (sty (active t))). split; [apply sgr_told|].
  apply wf_sgr_apply. unfold active. destruct (onalt t); [apply Ha|apply Hm].
Qed.
