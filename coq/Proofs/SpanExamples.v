(* Concrete instances for C20span: an oracle with wide glyphs that satisfies
   wc_multibyte, a history with wide glyphs, wraps, a scroll and resizes on which
   no finding mark fires (non-vacuity of the history theorem), the literal
   inequality of the two callback logs, and what happens when the hypotheses
   fail. *)
From Coq Require Import List ZArith Bool Lia.
From Termemu Require Import Base Style Screen Kbd Parser Term Case BaseLemmas ScreenInv TermInv HistProofs
  Span SpanText SpanScreen TrigMono RunWrite SpanHistProofs.
Import ListNotations.
Open Scope Z_scope.

(* one cell below U+1100 and for U+FFFD, two cells above: CJK and emoji are wide *)
Definition wc_ex (r : Z) : Z := if (r <? 4352) || (r =? 65533) then 1 else 2.

Lemma wc_ex_multibyte : wc_multibyte wc_ex.
Proof.
  intros buf r size v Hd. unfold cluster_width, wc_ex.
  assert (H : (r < 4352 \/ r = 65533) \/ 3 <= size).
  { unfold decode_rune in Hd. destruct buf as [|b0 r0]; [discriminate|].
    destruct (utf8_first b0) as [[sz lo] hi] eqn:Eu.
    assert (Hu : sz = 2 -> b0 < 224 /\ lo = 128 /\ hi = 191 /\ (sz = 1 -> b0 < 128)).
    { intros ->. unfold utf8_first in Eu.
      repeat match type of Eu with context [if ?c then _ else _] => destruct c eqn:? end; try discriminate;
        injection Eu; intros; subst; repeat split; try lia;
        repeat match goal with H : (_ <? _) = true |- _ => apply Z.ltb_lt in H | H : (_ <? _) = false |- _ => apply Z.ltb_ge in H | H : (_ =? _) = true |- _ => apply Z.eqb_eq in H | H : (_ =? _) = false |- _ => apply Z.eqb_neq in H end; lia. }
    assert (Hu1 : sz = 1 -> b0 < 128).
    { intros ->. unfold utf8_first in Eu.
      repeat match type of Eu with context [if ?c then _ else _] => destruct c eqn:? end; try discriminate;
        injection Eu; intros; subst;
        repeat match goal with H : (_ <? _) = true |- _ => apply Z.ltb_lt in H | H : (_ <? _) = false |- _ => apply Z.ltb_ge in H | H : (_ =? _) = true |- _ => apply Z.eqb_eq in H | H : (_ =? _) = false |- _ => apply Z.eqb_neq in H end; lia. }
    destruct (Z.eqb_spec sz 1). { injection Hd as <- <- _. left. left. specialize (Hu1 e). lia. }
    destruct (sz =? 0). { injection Hd as <- <- _. left. right. reflexivity. }
    destruct r0 as [|b1 r1]; [discriminate|].
    destruct ((b1 <? lo) || (hi <? b1)) eqn:C1. { injection Hd as <- <- _. left. right. reflexivity. }
    destruct (Z.eqb_spec sz 2).
    { injection Hd as <- <- _. left. left. destruct (Hu e) as (A & -> & -> & _).
      apply orb_false_iff in C1. destruct C1 as [C1 C2]. apply Z.ltb_ge in C1, C2. lia. }
    destruct r1 as [|b2 r2]; [discriminate|].
    destruct ((b2 <? 128) || (191 <? b2)). { injection Hd as <- <- _. left. right. reflexivity. }
    destruct (sz =? 3). { injection Hd as <- <- _. right. lia. }
    destruct r2 as [|b3 r3]; [discriminate|].
    destruct ((b3 <? 128) || (191 <? b3)); injection Hd as <- <- _; [left; right; reflexivity|right; lia]. }
  destruct H as [[H|H]|H].
  - destruct (Z.ltb_spec r 4352); [|lia]. cbn [orb]. pose proof (decode_size _ _ _ _ Hd). cbn. lia.
  - subst r. cbn. pose proof (decode_size _ _ _ _ Hd). lia.
  - destruct ((r <? 4352) || (r =? 65533)); cbn; lia.
Qed.

(* CSI ?7h ; "ab" 中 中 "cdefg" 中 LF "xy" ; Resize 3x2 ; 中 中 "a" CSI 1 P ; Resize 6x4 ; "hi" 😀(first two bytes) ;
   Resize 4x4 ; (rest of 😀) "z" *)
Definition ex_ops : list hop :=
  [HFeed ([27;91;63;55;104] ++ [97;98] ++ [228;184;173] ++ [228;184;173] ++ [99;100;101;102;103] ++ [228;184;173] ++ [10;120;121]);
   HResize 3 2;
   HFeed ([228;184;173;228;184;173;97] ++ [27;91;49;80]);
   HResize 6 4;
   HFeed [104;105;240;159];
   HResize 4 4;
   HFeed [152;128;122]].

(* the hypotheses of the history theorem hold on it, and it really scrolls and holds wide glyphs *)
Example ex_hypotheses :
  hist_ok ex_ops /\ tz (fst (run_hist wc_ex false (init_term 5 3) ex_ops)) /\
  snd (run_hist wc_ex false (init_term 5 3) ex_ops) = [] /\
  row_at (tmain (fst (run_hist wc_ex false (init_term 5 3) ex_ops))) 0
    = [mkCell [228;184;173] 2 default_style; contc default_style; mkCell [97] 1 default_style; blank default_style].
Proof. split; [repeat constructor; cbn; lia|]. vm_compute. auto. Qed.

(* and the conclusion, computed: same terminal without the log, same pending bytes *)
Example ex_conclusion :
  let r := s_run_hist wc_ex (s_init_term 5 3) ex_ops in
  let c := run_hist wc_ex false (init_term 5 3) ex_ops in
  nolog (abs_sterm wc_ex (fst (fst r))) = nolog (fst c) /\ snd (fst r) = snd c.
Proof. vm_compute. auto. Qed.

(* The callback logs themselves are NOT equal: the span buffer announces a run once, the cell
   model announces every glyph.  So "callback log equal" cannot be part of the theorem; [log_eq]
   (equal up to coalescing adjacent text-region announcements) is what holds. *)
Example ex_logs_differ :
  let r := s_run_hist wc_ex (s_init_term 5 3) [HFeed [97;98]] in
  let c := run_hist wc_ex false (init_term 5 3) [HFeed [97;98]] in
  slog (fst (fst r)) = [ECursor 2 0; ERegion 0 0 2 1 crText] /\
  tlog (fst c) = [ECursor 2 0; ERegion 1 0 2 1 crText; ECursor 1 0; ERegion 0 0 1 1 crText] /\
  slog (fst (fst r)) <> tlog (fst c).
Proof. vm_compute. repeat split; discriminate. Qed.

(* Outside the hypotheses the buffers do differ (the sanctioned difference): a write that starts
   on the second half of a wide glyph keeps the glyph on the span side *)
Example ex_second_half_differs :
  let ops := [HFeed ([228;184;173] ++ [27;91;50;71] ++ [120])] in
  let r := s_run_hist wc_ex (s_init_term 4 1) ops in
  let c := run_hist wc_ex false (init_term 4 1) ops in
  trig (tmain (fst c)) = trSecondHalf /\
  map ctext (row_at (abs_sterm wc_ex (fst (fst r))).(tmain) 0) = [[228;184;173]; []; [120]; [32]] /\
  map ctext (row_at (tmain (fst c)) 0) = [[32]; [120]; [32]; [32]].
Proof. vm_compute. auto. Qed.
