(* The span buffer refines the cell-level row operations of Model/Screen.v. *)
From Coq Require Import List ZArith Bool Lia.
From Termemu Require Import Base Style Screen Parser BaseLemmas ScreenInv Span SpanText SpanRows SpanProofs.
Import ListNotations.
Open Scope Z_scope.

(* what replaceRange does to the cells of a row: [iw], [ist], [icells] are the
   width, style and cells of the insert *)
Definition splice_cells (x n iw : Z) (ist : style) (icells : list cell) (row : list cell) : list cell :=
  let c := cont_run row (x + n) in
  let gap := if iw =? 0 then map unglyph (zfirstn c (zskipn (x + n) row)) else zrepeat (blank ist) c in
  let b := left_edge row x in
  let pre :=
    if is_cont (znth x row dcell) then
      if (iw =? 0) && (zlen row <=? x + n) then zfirstn b row ++ map unglyph (zfirstn (x - b) (zskipn b row))
      else zfirstn (x + cont_run row x) row
    else zfirstn x row in
  pre ++ icells ++ gap ++ zskipn (x + n + c) row.

Section WithOracle.
  Variable wc : Z -> Z.
  Hypothesis Hmb : wc_multibyte wc.
  Notation gspan := (gspan wc).
  Notation gspan0 := (gspan0 wc).
  Notation good_line := (good_line wc).
  Notation gl_line := (gl_line wc).
  Notation abs_line := (abs_line wc).

  Lemma abs_line_gl l : good_line l -> abs_line l = gcells (gl_line l) /\ zlen (abs_line l) = spans_width (sl_spans l) /\ glyphs_ok (gl_line l).
  Proof.
    intros H. destruct (good_spans_gl wc _ H) as (A & B & C). unfold Span.abs_line, SpanProofs.gl_line.
    split; [exact A|]. split; [rewrite A, zlen_gcells by exact C; exact B|exact C].
  Qed.

  Lemma start_cells gl x (T : Prop) (tb : bool) P : glyphs_ok gl -> (T <-> tb = true) -> start_fact gl x T P ->
    let row := gcells gl in let b := left_edge row x in
    gcells P = (if is_cont (znth x row dcell) then
                  if tb then zfirstn b row ++ map unglyph (zfirstn (x - b) (zskipn b row))
                  else zfirstn (x + cont_run row x) row
                else zfirstn x row).
  Proof.
    intros Ok HT [(G1 & Gs & -> & Hw & ->)|(G1 & g & Gs & k & -> & Hw & Hk & D)]; intros row b; subst row b.
    - apply glyphs_ok_app in Ok as [O1 O2]. destruct (cut_boundary G1 Gs O1 O2) as (F1 & _ & C & _). cbv zeta in *.
      rewrite Hw in *. rewrite C. symmetry. exact F1.
    - pose proof Ok as Ok'. apply glyphs_ok_app in Ok as [O1 O2]. pose proof (Forall_inv O2) as Og. pose proof (Forall_inv_tail O2) as O3. cbv beta in Og.
      destruct (cut_inside G1 g Gs k O1 Og O3 Hk) as (F1 & F2 & F3 & C & GS & LE & CR). cbv zeta in *.
      rewrite Hw in *. rewrite C, LE. destruct D as [(Ht & ->)|(Hnt & ->)].
      + apply HT in Ht. rewrite Ht. rewrite gcells_app, gcells_blanks. rewrite F1. f_equal.
        replace (x - gwidth G1) with k by lia. rewrite F3. symmetry. apply unglyph_prefix. lia.
      + destruct tb; [exfalso; apply Hnt, HT; reflexivity|]. rewrite CR.
        assert (Ok2 : glyphs_ok (G1 ++ [g])) by (apply glyphs_ok_app; split; [exact O1|constructor; [exact Og|constructor]]).
        destruct (cut_boundary (G1 ++ [g]) Gs Ok2 O3) as (B1 & _). cbv zeta in B1.
        rewrite <- app_assoc in B1. cbn [app] in B1. rewrite gwidth_app in B1. unfold gwidth at 2 in B1. cbn [wsum] in B1.
        replace (x + (gw g - k)) with (gwidth G1 + (gw g + 0)) by lia. symmetry. exact B1.
  Qed.

  Lemma end_cells gl xn ins0 Q : glyphs_ok gl -> end_fact gl xn ins0 Q ->
    let row := gcells gl in let c := cont_run row xn in
    gcells Q = (if sp_width ins0 =? 0 then map unglyph (zfirstn c (zskipn xn row)) else zrepeat (blank (sp_sty ins0)) c)
               ++ zskipn (xn + c) row.
  Proof.
    intros Ok [(Ge & G2 & -> & Hw & ->)|(Ge & g & G2 & k & -> & Hw & Hk & ->)]; intros row c; subst row c.
    - apply glyphs_ok_app in Ok as [O1 O2]. destruct (cut_boundary Ge G2 O1 O2) as (_ & F2 & _ & _ & CR). cbv zeta in *.
      rewrite Hw in *. rewrite CR, Z.add_0_r, F2. destruct (sp_width ins0 =? 0); reflexivity.
    - apply glyphs_ok_app in Ok as [O1 O2]. pose proof (Forall_inv O2) as Og. pose proof (Forall_inv_tail O2) as O3. cbv beta in Og.
      destruct (cut_inside Ge g G2 k O1 Og O3 Hk) as (F1 & F2 & F3 & C & GS & LE & CR).
      destruct (cut_inside_cells Ge g G2 k O1 Og O3 Hk) as (Z1 & Z2). cbv zeta in *.
      rewrite Hw in *. rewrite CR. rewrite gcells_app, gcells_blanks.
      replace (xn + (gw g - k)) with (gwidth Ge + gw g) by lia. rewrite F2. f_equal.
      destruct (sp_width ins0 =? 0); [|reflexivity]. rewrite Z2, unglyph_conts. reflexivity.
  Qed.

  (* ---------- replaceRange at the cell level ---------- *)
  Theorem replace_range_cells l x n ins :
    good_line l -> sl_cache l = spans_width (sl_spans l) ->
    0 <= x -> 0 <= n -> x + n <= spans_width (sl_spans l) ->
    ~ (n = 0 /\ sp_width ins = 0) -> ins_ok wc ins ->
    let r := replace_range wc l x n ins in
    good_line r /\ sl_cache r = spans_width (sl_spans r) /\
    abs_line r = splice_cells x n (sp_width ins) (sp_sty ins) (abs_span wc ins) (abs_line l).
  Proof.
    intros Hg Hc Hx Hn Hxn Hnz Hins r.
    destruct (replace_range_spec wc Hmb l x n ins Hg Hc Hx Hn Hxn Hnz Hins) as (Gr & Cr & P & Q & E & SF & EF).
    fold r in Gr, Cr, E. split; [exact Gr|]. split; [exact Cr|].
    destruct (abs_line_gl r Gr) as (Ar & _). destruct (abs_line_gl l Hg) as (Al & Ll & Ol).
    rewrite Ar, E, !gcells_app. unfold splice_cells. rewrite Al.
    assert (HT : (sp_width ins = 0 /\ spans_width (sl_spans l) <= x + n) <->
                 ((sp_width ins =? 0) && (zlen (gcells (gl_line l)) <=? x + n)) = true).
    { rewrite <- Al, Ll. rewrite andb_true_iff, Z.eqb_eq, Z.leb_le. tauto. }
    rewrite (start_cells _ _ _ _ _ Ol HT SF). rewrite (end_cells _ _ _ _ Ol EF).
    destruct (gspan0_gl wc ins (proj1 Hins)) as (Ai & _). rewrite <- Ai. rewrite <- ?app_assoc. reflexivity.
  Qed.

  Lemma lcw_cache l : sl_cache l = spans_width (sl_spans l) -> line_cell_width l = spans_width (sl_spans l).
  Proof.
    intros H. unfold line_cell_width. destruct (Z.eqb_spec (sl_cache l) 0) as [E|E]; cbn [negb orb]; [|exact H].
    destruct (nonempty (sl_spans l)); cbn [negb]; [reflexivity|exact H].
  Qed.

  Lemma ins_ok_empty : ins_ok wc empty_span.
  Proof. split; [left; reflexivity|]. cbn. lia. Qed.

  (* ---------- rawWriteSpan refines [overwrite] ---------- *)
  Theorem raw_write_span_overwrite W l x sp :
    good_line l -> spans_width (sl_spans l) = W -> sl_cache l = W ->
    0 <= x -> x + sp_width sp <= W -> gspan sp -> ins_ok wc sp ->
    is_cont (znth x (abs_line l) dcell) = false ->
    exists r, raw_write_span wc W l x sp = Some r /\
      good_line r /\ spans_width (sl_spans r) = W /\ sl_cache r = W /\
      abs_line r = overwrite (sp_sty sp) x (abs_span wc sp) (abs_line l).
  Proof.
    intros Hg HW Hc Hx Hxn Gs Hins Hnc. pose proof (gspan_width wc _ Gs) as Hw.
    unfold raw_write_span. destruct (Z.leb_spec (sp_width sp) 0); [lia|]. destruct (Z.ltb_spec W (x + sp_width sp)); [lia|].
    destruct (replace_range_cells l x (sp_width sp) sp Hg ltac:(lia) Hx ltac:(lia) ltac:(lia) ltac:(lia) Hins) as (Gr & Cr & Ar).
    set (r := replace_range wc l x (sp_width sp) sp) in *.
    destruct (abs_line_gl l Hg) as (_ & Ll & _). destruct (abs_line_gl r Gr) as (_ & Lr & _).
    destruct (gspan_gl wc sp Gs) as (As & Ws & Os & _).
    assert (Li : zlen (abs_span wc sp) = sp_width sp) by (rewrite As, zlen_gcells by exact Os; exact Ws).
    assert (Eo : abs_line r = overwrite (sp_sty sp) x (abs_span wc sp) (abs_line l)).
    { rewrite Ar. unfold splice_cells, overwrite. rewrite Hnc, Li. destruct (Z.eqb_spec (sp_width sp) 0); [lia|].
      unfold left_edge. rewrite Hnc. rewrite Z.sub_diag. cbn [app]. reflexivity. }
    assert (Wr : spans_width (sl_spans r) = W).
    { rewrite <- Lr, Eo. rewrite overwrite_len by (rewrite ?Li, ?Ll; lia). rewrite Ll. exact HW. }
    rewrite (lcw_cache r Cr), Wr. destruct (Z.ltb_spec W W); [lia|].
    exists r. repeat split; auto. lia.
  Qed.

  (* ---------- truncateLine / resizeLine refine [fit_row] ---------- *)
  Theorem truncate_line_fit st W l w :
    good_line l -> spans_width (sl_spans l) = W -> sl_cache l = W -> 1 <= w < W ->
    let r := truncate_line wc l w in
    good_line r /\ spans_width (sl_spans r) = w /\ sl_cache r = w /\ abs_line r = fit_row st w (abs_line l).
  Proof.
    intros Hg HW Hc Hw. cbv zeta. unfold truncate_line. destruct (Z.leb_spec w 0); [lia|].
    rewrite (lcw_cache l ltac:(lia)), HW.
    destruct (replace_range_cells l w (W - w) empty_span Hg ltac:(lia) ltac:(lia) ltac:(lia) ltac:(lia) ltac:(lia) ins_ok_empty)
      as (Gr & Cr & Ar). set (r := replace_range wc l w (W - w) empty_span) in *.
    destruct (abs_line_gl l Hg) as (_ & Ll & _). destruct (abs_line_gl r Gr) as (_ & Lr & _).
    assert (Ef : abs_line r = fit_row st w (abs_line l)).
    { rewrite Ar. unfold splice_cells, fit_row. cbn [sp_width empty_span abs_span]. change (0 =? 0) with true. cbn [andb].
      change (abs_span wc empty_span) with (@nil cell). replace (w + (W - w)) with W by lia.
      rewrite Ll, HW. destruct (Z.leb_spec W W); [|lia]. destruct (Z.ltb_spec w W); [|lia].
      assert (C0 : cont_run (abs_line l) W = 0).
      { pose proof (cont_run_range (abs_line l) W ltac:(lia)) as CRr. rewrite Ll, HW, Z.sub_diag, Z.max_id in CRr. destruct CRr as [Cr1 Cr2]. apply Z.le_antisymm; assumption. }
      rewrite C0. cbn [zfirstn Z.to_nat firstn map app]. rewrite (zskipn_all (W + 0)) by (rewrite Ll, HW; lia). rewrite !app_nil_r.
      unfold left_edge. destruct (is_cont (znth w (abs_line l) dcell)); reflexivity. }
    split; [exact Gr|]. assert (Wr : spans_width (sl_spans r) = w).
    { rewrite <- Lr, Ef. rewrite fit_row_len by lia. reflexivity. }
    split; [exact Wr|]. split; [lia|exact Ef].
  Qed.

  Theorem resize_line_fit st W l w :
    good_line l -> spans_width (sl_spans l) = W -> sl_cache l = W -> 1 <= w ->
    let r := resize_line wc l w st in
    good_line r /\ spans_width (sl_spans r) = w /\ sl_cache r = w /\ abs_line r = fit_row st w (abs_line l).
  Proof.
    intros Hg HW Hc Hw. cbv zeta. unfold resize_line. rewrite (lcw_cache l ltac:(lia)), HW.
    destruct (abs_line_gl l Hg) as (_ & Ll & _).
    destruct (Z.ltb_spec w W) as [Hlt|Hge].
    - apply (truncate_line_fit st W); auto; lia.
    - destruct (Z.ltb_spec W w) as [Hp|Hp].
      + destruct (gl_blank_span wc st (w - W) ltac:(lia)) as [Gb Glb].
        split; [unfold SpanProofs.good_line; cbn [sl_spans]; apply Forall_app; split; [exact Hg|constructor; [exact Gb|constructor]]|].
        split; [cbn [sl_spans]; rewrite spans_width_app; cbn; lia|]. split; [reflexivity|].
        unfold Span.abs_line, abs_spans. cbn [sl_spans]. rewrite flat_map_app. cbn [flat_map]. rewrite app_nil_r.
        unfold fit_row. fold (abs_spans wc (sl_spans l)). fold (abs_line l). rewrite Ll, HW.
        destruct (Z.ltb_spec w W); [lia|]. f_equal.
        destruct (gspan_gl wc _ Gb) as (Ab & _). rewrite Ab, Glb. apply gcells_blanks.
      + assert (w = W) by lia. subst w. split; [exact Hg|]. split; [exact HW|]. split; [reflexivity|].
        unfold Span.abs_line. cbn [sl_spans]. unfold fit_row. fold (abs_line l). rewrite Ll, HW.
        destruct (Z.ltb_spec W W); [lia|]. rewrite Z.sub_diag. cbn. rewrite app_nil_r. reflexivity.
  Qed.

  (* ---------- deleteChars refines [delete_cells] ---------- *)
  Theorem span_delete_chars_cells st W l x n :
    good_line l -> spans_width (sl_spans l) = W -> sl_cache l = W ->
    0 <= x -> 1 <= n -> x + n <= W -> is_cont (znth x (abs_line l) dcell) = false ->
    let r := span_delete_chars wc W st l x n in
    good_line r /\ spans_width (sl_spans r) = W /\ sl_cache r = W /\
    abs_line r = delete_cells st x n (abs_line l).
  Proof.
    intros Hg HW Hc Hx Hn Hxn Hnc. cbv zeta. unfold span_delete_chars.
    destruct (Z.leb_spec n 0); [lia|]. destruct (Z.ltb_spec x 0); [lia|].
    destruct (Z.leb_spec W x); [lia|]. destruct (Z.leb_spec n 0); [lia|]. cbn [orb].
    destruct (Z.ltb_spec W (x + n)); [lia|].
    destruct (replace_range_cells l x n empty_span Hg ltac:(lia) Hx ltac:(lia) ltac:(lia) ltac:(lia) ins_ok_empty) as (G1 & C1 & A1).
    set (r1 := replace_range wc l x n empty_span) in *.
    destruct (abs_line_gl l Hg) as (_ & Ll & _). destruct (abs_line_gl r1 G1) as (_ & L1 & _).
    pose proof (cont_run_range (abs_line l) (x + n) ltac:(lia)) as CR. rewrite Ll, HW in CR.
    assert (E1 : abs_line r1 ++ zrepeat (blank st) n = delete_cells st x n (abs_line l)).
    { rewrite A1. unfold splice_cells, delete_cells. cbn [sp_width empty_span]. change (0 =? 0) with true.
      change (abs_span wc empty_span) with (@nil cell). rewrite Hnc. unfold left_edge. rewrite Hnc.
      rewrite Z.sub_diag. cbn [zfirstn Z.to_nat firstn map app]. rewrite <- !app_assoc. reflexivity. }
    assert (W1 : spans_width (sl_spans r1) = W - n).
    { assert (Hz : zlen (abs_line r1 ++ zrepeat (blank st) n) = W).
      { rewrite E1, delete_cells_len by (rewrite ?Ll; lia). rewrite Ll. exact HW. }
      rewrite zlen_app, zlen_zrepeat_nn, L1 in Hz by lia. lia. }
    rewrite (lcw_cache r1 C1), W1. destruct (Z.ltb_spec (W - n) W); [|lia].
    destruct (gl_blank_span wc st (W - (W - n)) ltac:(lia)) as [Gb Glb].
    split; [unfold SpanProofs.good_line; cbn [sl_spans]; apply Forall_app; split; [exact G1|constructor; [exact Gb|constructor]]|].
    split; [cbn [sl_spans]; rewrite spans_width_app; cbn; lia|]. split; [reflexivity|].
    rewrite <- E1. unfold Span.abs_line, abs_spans. cbn [sl_spans]. rewrite flat_map_app. cbn [flat_map]. rewrite app_nil_r.
    f_equal. destruct (gspan_gl wc _ Gb) as (Ab & _). rewrite Ab, Glb, gcells_blanks. f_equal. lia.
  Qed.
  (* ---------- the named predicates of Model/Span.v ---------- *)
  Lemma segs_bytes : forall fuel buf cls, segs wc fuel buf = Some cls ->
    Forall (fun p : list Z * Z => valid_cluster (fst p)) cls -> buf = bytes cls /\ Forall (gcl wc) cls.
  Proof.
    induction fuel as [|f IH]; intros buf cls Hs Hv; cbn [segs] in Hs.
    - destruct buf; [|discriminate]. inversion Hs; subst. split; [reflexivity|constructor].
    - destruct buf as [|b t]; [inversion Hs; subst; split; [reflexivity|constructor]|].
      destruct (step_cluster wc (b :: t)) as [[[c k] w]|] eqn:Es; [|discriminate].
      destruct (segs wc f (zskipn k (b :: t))) as [r|] eqn:Er; [|discriminate]. inversion Hs; subst cls. clear Hs.
      inversion Hv as [|? ? Hv1 Hv2]; subst. cbn [fst] in Hv1. destruct (IH _ _ Er Hv2) as [Hb Hg].
      unfold step_cluster in Es. destruct (decode_rune (b :: t)) as [[[r0 size] v]|] eqn:Ed; [|discriminate].
      inversion Es; subst c k w. clear Es.
      assert (Hbuf : b :: t = zfirstn size (b :: t) ++ bytes r) by (rewrite <- Hb; symmetry; apply zfirstn_zskipn).
      split; [exact Hbuf|]. constructor; [|exact Hg].
      destruct Hv1 as (r' & Hd). pose proof (decode_valid_app _ _ (bytes r) Hd) as Hd'. rewrite <- Hbuf, Ed in Hd'.
      assert (Er0 : r0 = r') by congruence. rewrite Er0. exists r'. cbn [fst snd]. split; [exact Hd|reflexivity].
  Qed.

  Lemma gspan_of_wf sp : wf_span wc sp -> safe_span wc sp -> gspan sp.
  Proof.
    intros (Hw & Hi & Ht) Hs. split; [exact Hw|]. split; [exact Hi|]. intros E.
    destruct (Ht E) as (cls & Hc & Hcw). destruct (Hs E) as (cls' & Hc' & Hv). rewrite Hc in Hc'. inversion Hc'; subst cls'.
    destruct (segs_bytes _ _ _ Hc Hv) as [Hb Hg]. exists cls. auto.
  Qed.
  Lemma wf_of_gspan sp : gspan sp -> wf_span wc sp /\ safe_span wc sp.
  Proof.
    intros (Hw & Hi & Ht). split.
    - split; [exact Hw|]. split; [exact Hi|]. intros E. destruct (Ht E) as (cls & Hg & Hb & Hcw).
      exists cls. rewrite Hb. split; [apply clusters_good, Hg|exact Hcw].
    - intros E. destruct (Ht E) as (cls & Hg & Hb & Hcw). exists cls. rewrite Hb. split; [apply clusters_good, Hg|].
      eapply Forall_impl; [|exact Hg]. intros [c w] (r & Hd & _). exists r. exact Hd.
  Qed.
  Lemma good_of_wf W l : wf_line wc W l -> safe_line wc l ->
    good_line l /\ spans_width (sl_spans l) = W /\ sl_cache l = W.
  Proof.
    intros (Hf & Hw & Hc) Hs. split; [|split; assumption]. unfold SpanProofs.good_line, safe_line in *.
    clear Hw Hc. revert Hs. induction Hf as [|sp r H1 H2 IH]; intros Hs; [constructor|].
    inversion Hs; subst. constructor; [apply gspan_of_wf; assumption|apply IH; assumption].
  Qed.
  Lemma wf_of_good_spans spans : Forall gspan spans -> Forall (wf_span wc) spans /\ Forall (safe_span wc) spans.
  Proof.
    induction 1 as [|sp r H1 H2 IH].
    - split; apply Forall_nil.
    - destruct IH as [IH1 IH2]. destruct (wf_of_gspan sp H1) as [A B]. split; apply Forall_cons; assumption.
  Qed.
  Lemma wf_of_good W l : good_line l -> spans_width (sl_spans l) = W -> sl_cache l = W ->
    wf_line wc W l /\ safe_line wc l.
  Proof.
    intros Hg Hw Hc. destruct (wf_of_good_spans _ Hg) as [A B]. unfold wf_line, safe_line. auto.
  Qed.

  (* an insert as the callers build it *)
  Definition ins_good (ins : span) : Prop :=
    wf_ins wc ins /\ safe_span wc ins /\ (0 < sp_width ins -> is_text ins = false -> narrow_rune wc (sp_rune ins)).
  Lemma ins_ok_of ins : ins_good ins -> ins_ok wc ins.
  Proof. intros ([H|H] & Hs & Hn); split; auto; [left; exact H|right; apply gspan_of_wf; auto]. Qed.

  Lemma splice_len_plain x n iw ist icells row :
    0 <= x -> 0 <= n -> x + n <= zlen row -> zlen icells = iw -> 0 <= iw ->
    is_cont (znth x row dcell) = false ->
    zlen (splice_cells x n iw ist icells row) = zlen row - n + iw.
  Proof.
    intros Hx Hn Hxn Hi Hiw Hc. unfold splice_cells. rewrite Hc.
    pose proof (cont_run_range row (x + n) ltac:(lia)) as CR. set (c := cont_run row (x + n)) in *.
    assert (Hgap : zlen (if iw =? 0 then map unglyph (zfirstn c (zskipn (x + n) row)) else zrepeat (blank ist) c) = c).
    { destruct (iw =? 0).
      - rewrite zlen_map. rewrite zlen_zfirstn_le; [reflexivity|]. rewrite zlen_zskipn_le by lia. lia.
      - apply zlen_zrepeat_nn. lia. }
    rewrite !zlen_app, Hgap, Hi. rewrite zlen_zfirstn_le by lia. rewrite zlen_zskipn_le by lia. lia.
  Qed.

  (* ---------- statements over wf_line / safe_line ---------- *)
  Theorem replace_range_refines W l x n ins :
    wf_line wc W l -> safe_line wc l -> 0 <= x -> 0 <= n -> x + n <= W ->
    ~ (n = 0 /\ sp_width ins = 0) -> ins_good ins ->
    let r := replace_range wc l x n ins in
    let cells := splice_cells x n (sp_width ins) (sp_sty ins) (abs_span wc ins) (abs_line l) in
    wf_line wc (zlen cells) r /\ safe_line wc r /\ abs_line r = cells.
  Proof.
    intros Hwf Hs Hx Hn Hxn Hnz Hi r cells. destruct (good_of_wf W l Hwf Hs) as (Hg & Hw & Hc).
    destruct (replace_range_cells l x n ins Hg ltac:(lia) Hx Hn ltac:(lia) Hnz (ins_ok_of _ Hi)) as (Gr & Cr & Ar).
    fold r in Gr, Cr, Ar. fold cells in Ar. destruct (abs_line_gl r Gr) as (_ & Lr & _).
    destruct (wf_of_good (zlen cells) r Gr ltac:(rewrite <- Ar; lia) ltac:(rewrite <- Ar; lia)) as [A B]. auto.
  Qed.

  Theorem replace_range_width W l x n ins :
    wf_line wc W l -> safe_line wc l -> 0 <= x -> 0 <= n -> x + n <= W ->
    ~ (n = 0 /\ sp_width ins = 0) -> ins_good ins ->
    is_cont (znth x (abs_line l) dcell) = false ->
    wf_line wc (W - n + sp_width ins) (replace_range wc l x n ins).
  Proof.
    intros Hwf Hs Hx Hn Hxn Hnz Hi Hc. destruct (good_of_wf W l Hwf Hs) as (Hg & Hw & Hcc).
    destruct (abs_line_gl l Hg) as (_ & Ll & _).
    destruct (replace_range_refines W l x n ins Hwf Hs Hx Hn Hxn Hnz Hi) as (A & _ & _).
    destruct (gspan0_gl wc ins (proj1 (ins_ok_of _ Hi))) as (Ai & Wi & Oi & _).
    rewrite splice_len_plain in A; auto; try lia.
    - rewrite Ll, Hw in A. exact A.
    - rewrite Ai, zlen_gcells by exact Oi. exact Wi.
    - destruct Hi as ([H|H] & _); [lia|]. destruct H. lia.
  Qed.

  (* a write that starts on the second half of a wide glyph: the glyph is kept,
     the text goes after it and the row is cut back to the screen width *)
  Theorem raw_write_span_second_half st W l x sp :
    wf_line wc W l -> safe_line wc l -> 0 <= x -> x + sp_width sp <= W -> 0 < sp_width sp -> ins_good sp ->
    is_cont (znth x (abs_line l) dcell) = true ->
    let r1 := replace_range wc l x (sp_width sp) sp in
    let cells := zfirstn (x + cont_run (abs_line l) x) (abs_line l) ++ abs_span wc sp
                   ++ zrepeat (blank (sp_sty sp)) (cont_run (abs_line l) (x + sp_width sp))
                   ++ zskipn (x + sp_width sp + cont_run (abs_line l) (x + sp_width sp)) (abs_line l) in
    abs_line r1 = cells /\
    (W < zlen cells ->
     exists r, raw_write_span wc W l x sp = Some r /\ wf_line wc W r /\ safe_line wc r /\
               abs_line r = fit_row st W cells).
  Proof.
    intros Hwf Hs Hx Hxn Hw Hi Hc r1 cells. destruct (good_of_wf W l Hwf Hs) as (Hg & HW & Hcc).
    destruct (replace_range_cells l x (sp_width sp) sp Hg ltac:(lia) Hx ltac:(lia) ltac:(lia) ltac:(lia) (ins_ok_of _ Hi)) as (Gr & Cr & Ar).
    fold r1 in Gr, Cr, Ar.
    assert (E : abs_line r1 = cells).
    { rewrite Ar. unfold splice_cells. rewrite Hc. destruct (Z.eqb_spec (sp_width sp) 0); [lia|]. cbn [andb]. reflexivity. }
    split; [exact E|]. intros Hlong. destruct (abs_line_gl r1 Gr) as (_ & L1 & _).
    unfold raw_write_span. destruct (Z.leb_spec (sp_width sp) 0); [lia|]. destruct (Z.ltb_spec W (x + sp_width sp)); [lia|].
    fold r1. rewrite (lcw_cache r1 Cr). rewrite <- L1, E. destruct (Z.ltb_spec W (zlen cells)); [|lia].
    assert (1 <= W) by lia.
    destruct (truncate_line_fit st (zlen cells) r1 W Gr ltac:(rewrite <- E; lia) ltac:(rewrite <- E; lia) ltac:(lia)) as (G2 & W2 & C2 & A2).
    exists (truncate_line wc r1 W). split; [reflexivity|].
    destruct (wf_of_good W _ G2 W2 C2) as [A B]. rewrite E in A2. auto.
  Qed.

  Theorem raw_write_span_refines W l x sp :
    wf_line wc W l -> safe_line wc l -> 0 <= x -> x + sp_width sp <= W -> 0 < sp_width sp -> ins_good sp ->
    is_cont (znth x (abs_line l) dcell) = false ->
    exists r, raw_write_span wc W l x sp = Some r /\ wf_line wc W r /\ safe_line wc r /\
      abs_line r = overwrite (sp_sty sp) x (abs_span wc sp) (abs_line l).
  Proof.
    intros Hwf Hs Hx Hxn Hw Hi Hc. destruct (good_of_wf W l Hwf Hs) as (Hg & HW & Hcc).
    assert (Gs : gspan sp) by (destruct Hi as ([H|H] & Hs' & _); [lia|apply gspan_of_wf; auto]).
    destruct (raw_write_span_overwrite W l x sp Hg HW Hcc Hx Hxn Gs (ins_ok_of _ Hi) Hc) as (r & E & Gr & Wr & Cr & Ar).
    exists r. destruct (wf_of_good W r Gr Wr Cr). auto.
  Qed.

  Theorem resize_line_refines st W l w :
    wf_line wc W l -> safe_line wc l -> 1 <= w ->
    wf_line wc w (resize_line wc l w st) /\ safe_line wc (resize_line wc l w st) /\
    abs_line (resize_line wc l w st) = fit_row st w (abs_line l).
  Proof.
    intros Hwf Hs Hw. destruct (good_of_wf W l Hwf Hs) as (Hg & HW & Hcc).
    destruct (resize_line_fit st W l w Hg HW Hcc Hw) as (Gr & Wr & Cr & Ar).
    destruct (wf_of_good w _ Gr Wr Cr). auto.
  Qed.

  Theorem span_delete_chars_refines st W l x n :
    wf_line wc W l -> safe_line wc l -> 0 <= x -> 1 <= n -> x + n <= W ->
    is_cont (znth x (abs_line l) dcell) = false ->
    wf_line wc W (span_delete_chars wc W st l x n) /\ safe_line wc (span_delete_chars wc W st l x n) /\
    abs_line (span_delete_chars wc W st l x n) = delete_cells st x n (abs_line l).
  Proof.
    intros Hwf Hs Hx Hn Hxn Hc. destruct (good_of_wf W l Hwf Hs) as (Hg & HW & Hcc).
    destruct (span_delete_chars_cells st W l x n Hg HW Hcc Hx Hn Hxn Hc) as (Gr & Wr & Cr & Ar).
    destruct (wf_of_good W _ Gr Wr Cr). auto.
  Qed.

  (* splitSpan splits the cells of a span at the offset; when a wide cluster is
     cut, it comes back separately and the two sides exclude it *)
  Theorem split_span_abs sp off : wf_span wc sp -> safe_span wc sp -> 0 < off < sp_width sp ->
    let '(lf, rt, wd) := split_span wc sp off in
    abs_span wc sp = abs_span wc lf ++ abs_span wc wd ++ abs_span wc rt /\
    sp_width lf + sp_width wd + sp_width rt = sp_width sp /\
    zlen (abs_span wc lf) = sp_width lf /\ zlen (abs_span wc wd) = sp_width wd /\
    ((sp_width wd = 0 /\ sp_width lf = off) \/
     (sp_width lf < off < sp_width lf + sp_width wd /\
      abs_span wc wd = glyph_cells (sp_text wd) (sp_width wd) (sp_sty sp))).
  Proof.
    intros Hwf Hs Ho. pose proof (gspan_of_wf sp Hwf Hs) as Hg.
    destruct (split_span_spec wc Hmb sp off Hg Ho) as (lf & rt & wd & E & Hlf & Hrt & _ & _ & D). rewrite E.
    destruct (gspan_gl wc sp Hg) as (As & _). destruct (gspan0_gl wc lf Hlf) as (Al & Wl & Ol & _).
    destruct (gspan0_gl wc rt Hrt) as (Ar & _).
    assert (Ll : zlen (abs_span wc lf) = sp_width lf) by (rewrite Al, zlen_gcells by exact Ol; exact Wl).
    destruct D as [(W0 & Wlf & Wrt & GL)|(Gwd & _ & _ & _ & Bk & Wsum & GL & Gg)].
    - destruct (gl_span_0 wc wd W0) as [_ Aw]. rewrite Aw, W0. cbn [app].
      split; [rewrite As, GL, gcells_app, Al, Ar; reflexivity|]. split; [lia|]. split; [exact Ll|]. split; [reflexivity|]. left. auto.
    - destruct (gspan_gl wc wd Gwd) as (Aw & Ww & Ow & _).
      split; [rewrite As, GL, !gcells_app, Al, Ar, Aw; reflexivity|]. split; [lia|]. split; [exact Ll|].
      split; [rewrite Aw, zlen_gcells by exact Ow; exact Ww|]. right. split; [exact Bk|].
      rewrite Aw, Gg. unfold gcells. cbn [flat_map]. rewrite app_nil_r. reflexivity.
  Qed.
End WithOracle.

(* wc_multibyte cannot be dropped: U+2E3A is 3 bytes and 3 cells under uniseg,
   so Width == len(Text) holds and the fast path splits by bytes *)
Lemma split_fast_path_refuted :
  let wc := fun r => if r =? 11834 then 3 else 1 in
  let sp := mk_span default_style [226; 184; 186] 0 3 in
  wf_span wc sp /\ fst (fst (split_span wc sp 1)) = mk_span default_style [226] 0 1.
Proof.
  cbv zeta. split; [|vm_compute; reflexivity].
  split; [vm_compute; reflexivity|]. split; [reflexivity|]. intros _.
  exists [([226; 184; 186], 3)]. split; vm_compute; reflexivity.
Qed.
