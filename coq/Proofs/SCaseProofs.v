(* The span-terminal correspondence entry point (Model/SCase.v) and the cell-level
   one (Model/Case.v) observe the same thing.

   SCase runs the span model from the state the harness really starts in - two
   80x14 buffers resized to the case's size - and clears replies and callbacks
   before every operation, as Case does for the cell model.  Proved here:

   * [s_start_rel]: that start state satisfies the span invariant and its cells
     are the cell model's [init_term w h];
   * [scase_step]: one operation of SCase against one operation of Case, from
     related states, yields related states (the simulation theorem applied to a
     one-operation history after clearing);
   * [rel_records]: related states print the same records except the list of
     announced regions (record 8), which differs by coalescing only;
   * [c08_span_second_half_cut]: on the span model, a write that starts on the
     second half of a wide character makes the result depend on how the stream
     is cut (the witness of known finding KF-second-half for C08). *)
From Coq Require Import List ZArith Bool Lia.
From Termemu Require Import Base Style Screen Kbd Parser Term Case BaseLemmas ScreenInv TermInv HistProofs
  Span SpanText SpanRefine SpanScreen SpanTail TrigMono SpanScreenProofs RunWrite SpanRunProofs SpanTermProofs
  SpanHistProofs SpanExamples SCase.
Import ListNotations.
Open Scope Z_scope.

Lemma repeat_app_plus {A} (a : A) n m : repeat a n ++ repeat a m = repeat a (n + m).
Proof. induction n as [|n IH]; cbn; [reflexivity|]. rewrite IH. reflexivity. Qed.

Lemma firstn_repeat_le {A} (a : A) n m : (n <= m)%nat -> firstn n (repeat a m) = repeat a n.
Proof.
  revert m. induction n as [|n IH]; intros m H; [reflexivity|].
  destruct m as [|m]; [lia|]. cbn. rewrite IH by lia. reflexivity.
Qed.

Lemma map_repeat {A B} (f : A -> B) a n : map f (repeat a n) = repeat (f a) n.
Proof. induction n as [|n IH]; cbn; [reflexivity|]. rewrite IH. reflexivity. Qed.

Lemma zlen_repeat {A} (a : A) n : zlen (repeat a n) = Z.of_nat n.
Proof. unfold zlen. rewrite repeat_length. reflexivity. Qed.

Lemma nth_repeat_lt {A} (a d : A) n k : (k < n)%nat -> nth k (repeat a n) d = a.
Proof. revert k. induction n as [|n IH]; intros k H; [lia|]. destruct k; cbn; [reflexivity|]. apply IH. lia. Qed.

(* a blank row fitted to another width is a blank row *)
Lemma fit_row_blank st w0 w : 0 <= w0 -> 1 <= w -> fit_row st w (blank_row w0 st) = blank_row w st.
Proof.
  intros H0 Hw. unfold fit_row, blank_row, zrepeat. rewrite zlen_repeat, Z2Nat.id by lia.
  destruct (w <? w0) eqn:E.
  - apply Z.ltb_lt in E.
    assert (Hn : znth w (repeat (blank st) (Z.to_nat w0)) dcell = blank st).
    { unfold znth. destruct (w <? 0) eqn:E0; [apply Z.ltb_lt in E0; lia|]. apply nth_repeat_lt. lia. }
    rewrite Hn. cbn [is_cont blank cwid Z.eqb].
    unfold zfirstn. apply firstn_repeat_le. lia.
  - apply Z.ltb_ge in E. rewrite repeat_app_plus. f_equal. lia.
Qed.

Lemma set_size_init w0 h0 w h : 1 <= w0 -> 1 <= h0 -> 1 <= w -> 1 <= h ->
  set_evs [] (set_size w h (init_screen w0 h0)) = init_screen w h.
Proof.
  intros Hw0 Hh0 Hw Hh. unfold set_size, init_screen.
  destruct ((w <=? 0) || (h <=? 0)) eqn:E; [apply orb_true_iff in E; destruct E as [E|E]; apply Z.leb_le in E; lia|].
  cbn [rows sty sH bot top cx cy svx svy].
  assert (R : map (fit_row default_style w) (zfirstn h (zrepeat (blank_row w0 default_style) h0))
              ++ zrepeat (blank_row w default_style) (h - zlen (zfirstn h (zrepeat (blank_row w0 default_style) h0)))
              = zrepeat (blank_row w default_style) h).
  { unfold zfirstn, zrepeat.
    destruct (Z_le_gt_dec h h0) as [L|G].
    - rewrite firstn_repeat_le by lia. rewrite map_repeat, fit_row_blank by lia.
      rewrite zlen_repeat, Z2Nat.id by lia. replace (h - h) with 0 by lia. cbn. apply app_nil_r.
    - rewrite firstn_all2 by (rewrite repeat_length; lia). rewrite map_repeat, fit_row_blank by lia.
      rewrite zlen_repeat, Z2Nat.id by lia. rewrite repeat_app_plus. f_equal. lia. }
  rewrite R.
  assert (B : clamp (h - (h0 - (h0 - 1))) 0 (h - 1) = h - 1).
  { unfold clamp. replace (h - (h0 - (h0 - 1))) with (h - 1) by lia.
    destruct (h - 1 <? 0) eqn:E1; [apply Z.ltb_lt in E1; lia|]. rewrite Z.ltb_irrefl. reflexivity. }
  rewrite B.
  destruct (h - 1 <? 0) eqn:E1; [apply Z.ltb_lt in E1; lia|].
  unfold clamp. cbn [Z.ltb Z.compare].
  destruct (w - 1 <? 0) eqn:E2; [apply Z.ltb_lt in E2; lia|]. rewrite E1.
  reflexivity.
Qed.

Lemma rl_cons2 {A} (a : A) l l' : l <> [] -> l' <> [] -> removelast l = removelast l' -> removelast (a :: l) = removelast (a :: l').
Proof. intros H H' E. destruct l; [congruence|]. destruct l'; [congruence|]. cbn [removelast] in *. rewrite E. reflexivity. Qed.
Lemma rl_app {A} (p l l' : list A) : l <> [] -> l' <> [] -> removelast l = removelast l' -> removelast (p ++ l) = removelast (p ++ l').
Proof. intros H H' E. rewrite !removelast_app by assumption. rewrite E. reflexivity. Qed.
Ltac ne := let H := fresh in intro H; apply app_eq_nil in H; destruct H; discriminate.

Section WithOracle.
  Variable wc : Z -> Z.
  Hypothesis Hmb : wc_multibyte wc.
  Notation abst := (abs_sterm wc).

  Lemma abst_clear_io st : abst (s_clear_io st) = clear_io (abst st).
  Proof. reflexivity. Qed.

  Lemma STInv_clear_io st : STInv wc st -> STInv wc (s_clear_io st).
  Proof. intros H. exact H. Qed.

  Lemma Rel_clear_io st t : Rel wc st t -> Rel wc (s_clear_io st) (clear_io t).
  Proof.
    intros [En _]. split; [|apply le_refl].
    apply nolog_meaning in En. destruct En as (A & B & C & D & E & F & G & H & _).
    apply nolog_meaning. cbn [abs_sterm s_clear_io clear_io tmain talt onalt vflags vints vstrs kbm kba tout
      smain salt sonalt svflags svints svstrs skbm skba sout] in *.
    repeat split; assumption.
  Qed.

  (* the state the harness starts in: newSpanScreen's 80x14 buffers, then Resize(w, h) *)
  Lemma s_start_rel w h : 1 <= w -> 1 <= h ->
    STInv wc (s_start wc w h) /\ abst (s_start wc w h) = init_term w h.
  Proof.
    intros Hw Hh. unfold s_start.
    destruct (resize_sim wc Hmb w h (s_init_term 80 14) (STInv_init wc 80 14 ltac:(lia) ltac:(lia)) Hw Hh) as (I & E).
    split; [exact I|]. rewrite abst_clear_io, E, abs_init_term.
    unfold resize, clear_io, init_term, log_ev. cbn [tmain talt onalt vflags vints vstrs kbm kba tout tlog].
    change (set_evs [] (init_screen 80 14)) with (init_screen 80 14).
    rewrite (set_size_init 80 14 w h) by lia. reflexivity.
  Qed.

  (* one operation of SCase.s_run_op against one operation of Case.run_op (rune mode, span kind) *)
  Theorem scase_step st t pend mw o : hop_ok o -> STInv wc st -> Rel wc st t ->
    tz (fst (hstep wc false (clear_io t, pend) o)) ->
    let r := s_hstep wc (s_clear_io st, pend, mw) o in
    let c := hstep wc false (clear_io t, pend) o in
    STInv wc (fst (fst r)) /\ Rel wc (fst (fst r)) (fst c) /\ snd (fst r) = snd c.
  Proof.
    intros Ho Hi Hr Hz.
    exact (span_hist_sim wc Hmb [o] mw (s_clear_io st) (clear_io t) pend (Forall_cons _ Ho (Forall_nil _))
             (STInv_clear_io st Hi) (Rel_clear_io st t Hr) Hz).
  Qed.

  (* related states print the same observation records, the list of announced regions (the last record) apart *)
  Theorem rel_records st t idx p : Rel wc st t ->
    removelast (enc_obs idx (abst st) p) = removelast (enc_obs idx t p).
  Proof.
    intros [En Lg]. pose proof (log_eq_enc_digest _ _ Lg) as Dg.
    apply nolog_meaning in En. destruct En as (A & B & C & D & E & F & G & H & I).
    unfold enc_obs, enc_obs_x, crashed, enc_regs.
    change (tlog (abst st)) with (slog st). rewrite Dg, A, B, C, D, E, F, G, H, I.
    apply rl_cons2; [discriminate|discriminate|].
    apply rl_cons2; [ne|ne|].
    apply rl_app; [discriminate|discriminate|].
    apply rl_cons2; [ne|ne|].
    apply rl_app; [discriminate|discriminate|].
    cbn [app].
    apply rl_cons2; [discriminate|discriminate|].
    apply rl_cons2; [ne|ne|].
    apply rl_app; [discriminate|discriminate|].
    reflexivity.
  Qed.
End WithOracle.

(* C08 on the span buffer: a write that starts on the second half of a wide character makes the result
   depend on how the stream is cut.  U+1F642 (two cells), CHA 2 (onto its second half), then "abc" in one
   read or in three. *)
Definition c08_whole : list hop := [HFeed ([240;159;153;130] ++ [27;91;50;71] ++ [97;98;99])].
Definition c08_cut : list hop := [HFeed ([240;159;153;130] ++ [27;91;50;71]); HFeed [97]; HFeed [98]; HFeed [99]].

Lemma c08_span_second_half_cut :
  concat (map (fun o => match o with HFeed b => b | _ => [] end) c08_whole)
    = concat (map (fun o => match o with HFeed b => b | _ => [] end) c08_cut) /\
  map ctext (row_at (tmain (abs_sterm wc_ex (fst (fst (s_run_hist wc_ex (s_init_term 6 1) c08_whole))))) 0)
    = [[240;159;153;130]; []; [97]; [98]; [99]; [32]] /\
  map ctext (row_at (tmain (abs_sterm wc_ex (fst (fst (s_run_hist wc_ex (s_init_term 6 1) c08_cut))))) 0)
    = [[240;159;153;130]; []; [98]; [99]; [32]; [32]] /\
  trig (tmain (fst (run_hist wc_ex false (init_term 6 1) c08_whole))) = trSecondHalf.
Proof. vm_compute. repeat split; reflexivity. Qed.

(* ---------- C10 for the span buffer: coalescing keeps the set of announced cells ---------- *)
From Termemu Require Import NotifyProofs.

Lemma announced_cons e l x y : announced (e :: l) x y <-> covers e x y \/ announced l x y.
Proof.
  unfold announced. split.
  - intros (e' & [<-|Hin] & Hc); [left; exact Hc|right; exists e'; auto].
  - intros [Hc|(e' & Hin & Hc)]; [exists e; split; [left; reflexivity|exact Hc]|exists e'; split; [right; exact Hin|exact Hc]].
Qed.
Lemma announced_nil x y : ~ announced [] x y.
Proof. intros (e & [] & _). Qed.

Theorem log_eq_announced a b : log_eq a b -> forall x y, announced a x y <-> announced b x y.
Proof.
  induction 1 as [l|a b _ IH|a b c _ IH1 _ IH2|a a' b b' _ IH1 _ IH2|cx' cy' mid x1 x2 x1' x2' y0 Hx]; intros x y.
  - reflexivity.
  - symmetry. apply IH.
  - rewrite IH1. apply IH2.
  - rewrite !announced_app, IH1, IH2. reflexivity.
  - rewrite !announced_cons, !announced_app, !announced_cons. cbn [covers].
    pose proof (announced_nil x y) as Hn.
    split.
    + intros [[]|[Hm|[Hc|[[]|[Hc|Hc]]]]]; [right; left; exact Hm| | |contradiction];
        right; right; left; lia.
    + intros [[]|[Hm|[Hc|Hc]]]; [right; left; exact Hm| |contradiction].
      destruct (Z_lt_ge_dec x x2); [right; right; right; right; left; lia|right; right; left; lia].
Qed.

Section C10Span.
  Variable wc : Z -> Z.
  Hypothesis Hmb : wc_multibyte wc.

  (* along every history without a finding mark the span terminal announces exactly the cells the cell terminal announces *)
  Theorem span_hist_announced w h ops : 1 <= w -> 1 <= h -> hist_ok ops ->
    tz (fst (run_hist wc false (init_term w h) ops)) ->
    forall x y, announced (slog (fst (fst (s_run_hist wc (s_init_term w h) ops)))) x y
            <-> announced (tlog (fst (run_hist wc false (init_term w h) ops))) x y.
  Proof.
    intros Hw Hh Hok Hz. destruct (span_simulates_cells_from wc Hmb (Some (max_width (s_active (s_init_term w h)))) w h ops Hw Hh Hok Hz) as (_ & L & _).
    apply log_eq_announced. exact L.
  Qed.

  (* the same for one operation from related states, with the logs cleared before it (what the checks observe) *)
  Theorem span_step_announced st t pend mw o : hop_ok o -> STInv wc st -> Rel wc st t ->
    tz (fst (hstep wc false (clear_io t, pend) o)) ->
    forall x y, announced (slog (fst (fst (s_hstep wc (s_clear_io st, pend, mw) o)))) x y
            <-> announced (tlog (fst (hstep wc false (clear_io t, pend) o))) x y.
  Proof.
    intros Ho Hi Hr Hz. destruct (scase_step wc Hmb st t pend mw o Ho Hi Hr Hz) as (_ & (_ & L) & _).
    apply log_eq_announced. exact L.
  Qed.
End C10Span.
