(* The stepper-parametric span model (Model/GSpan.v) instantiated with the
   rune-mode stepper IS the rune-mode span model (Model/Span.v, Model/SpanScreen.v).

   For every width oracle [wc], with [fast := true] (mode == TextReadModeRune),
   [step := rune_stepper wc] (stepRuneCluster: the state passes through) and the
   reader's token function [rune_ntok wc] (one rune per token, never a merge):
   every row primitive (splitSpan, byteIndexForCell, replaceRange, truncateLine,
   resizeLine, rawWriteSpan, deleteChars, clustersFitting, StyledLine), the cell
   projection, wideTailAt, every screen method, writeString without the merge
   flag, the reader's run formation, the dispatch, the read loop and whole
   histories are equal to the definitions the rune-mode theorems are about.  So
   GSpan.v generalises the verified model instead of standing next to it: the
   grapheme-mode instance differs from the rune-mode one only in the stepper,
   the token function, the two fast paths and the merge path of writeString. *)
From Coq Require Import List ZArith Bool Lia.
From Termemu Require Import Base Style Screen Kbd Parser Term Uniseg Grapheme Span SpanScreen GSpan SpanText.
Import ListNotations.
Open Scope Z_scope.

Section Rune.
  Variable wc : Z -> Z.
  Notation rst := (rune_stepper wc).

  Lemma rstep_some buf st c k w : step_cluster wc buf = Some (c, k, w) ->
    rst buf st = Some (c, k, w, st) /\ (k <=? 0) = false /\ (w <? 1) = false.
  Proof.
    intros H. unfold rune_stepper. rewrite H. split; [reflexivity|].
    unfold step_cluster in H. destruct (decode_rune buf) as [[[r size] v]|] eqn:D; [|discriminate].
    inversion H; subst. apply decode_size in D.
    split; [apply Z.leb_gt; lia|].
    unfold cluster_width. destruct (wc r <=? 0) eqn:E; apply Z.ltb_ge; [lia|apply Z.leb_gt in E; lia].
  Qed.
  Lemma rstep_none buf st : step_cluster wc buf = None -> rst buf st = None.
  Proof. intros H. unfold rune_stepper. rewrite H. reflexivity. Qed.

  (* ---------- row primitives ---------- *)
  Lemma g_split_scan_rune fuel : forall buf st idx cp off,
    g_split_scan rst fuel buf st idx cp off = split_scan wc fuel buf idx cp off.
  Proof.
    induction fuel as [|f IH]; intros; [reflexivity|]. cbn [g_split_scan split_scan].
    destruct buf as [|b buf']; [reflexivity|].
    destruct (step_cluster wc (b :: buf')) as [[[c k] w]|] eqn:S.
    - destruct (rstep_some _ st _ _ _ S) as (E & K & _). rewrite E, K. rewrite IH. reflexivity.
    - rewrite (rstep_none _ st S). reflexivity.
  Qed.

  Lemma g_bifc_rune fuel : forall buf st idx width off,
    g_bifc rst fuel buf st idx width off = bifc wc fuel buf idx width off.
  Proof.
    induction fuel as [|f IH]; intros; [reflexivity|]. cbn [g_bifc bifc].
    destruct buf as [|b buf']; [reflexivity|].
    destruct (width <? off); [|reflexivity].
    destruct (step_cluster wc (b :: buf')) as [[[c k] w]|] eqn:S.
    - destruct (rstep_some _ st _ _ _ S) as (E & K & _). rewrite E, K. apply IH.
    - rewrite (rstep_none _ st S). reflexivity.
  Qed.

  Lemma g_byte_index_for_cell_rune text off :
    g_byte_index_for_cell rst text off = byte_index_for_cell wc text off.
  Proof. unfold g_byte_index_for_cell, byte_index_for_cell. rewrite g_bifc_rune. reflexivity. Qed.

  Theorem g_split_span_rune sp off : g_split_span true rst sp off = split_span wc sp off.
  Proof.
    unfold g_split_span, split_span. rewrite g_split_scan_rune, g_byte_index_for_cell_rune. reflexivity.
  Qed.

  Lemma g_start_cut_rune sp so ins cutall : g_start_cut true rst sp so ins cutall = start_cut wc sp so ins cutall.
  Proof. unfold g_start_cut, start_cut. rewrite g_split_span_rune. reflexivity. Qed.
  Lemma g_end_cut_rune sp eo ins : g_end_cut true rst sp eo ins = end_cut wc sp eo ins.
  Proof. unfold g_end_cut, end_cut. rewrite g_split_span_rune. reflexivity. Qed.

  Lemma g_rr_splice_rune l si so ei eo tw x n ins :
    g_rr_splice true rst l si so ei eo tw x n ins = rr_splice wc l si so ei eo tw x n ins.
  Proof.
    unfold g_rr_splice, rr_splice. rewrite g_start_cut_rune.
    rewrite !andb_true_r.
    destruct (start_cut wc (znth si (sl_spans l) empty_span) so ins (tw <=? x + n)) as [[ins1 lft] hasLeft].
    rewrite g_end_cut_rune. reflexivity.
  Qed.

  Theorem g_replace_range_rune l x n ins : g_replace_range true rst l x n ins = replace_range wc l x n ins.
  Proof.
    unfold g_replace_range, replace_range.
    destruct ((n =? 0) && (sp_width ins =? 0)); [reflexivity|].
    destruct (negb (nonempty (sl_spans l))); [reflexivity|].
    destruct (scan_start (sl_spans l) 0 0 (if x <? 0 then 0 else x)) as [[[si so] p1] rem].
    destruct (scan_end rem si p1 ((if x <? 0 then 0 else x) + (if n <? 0 then 0 else n))) as [[eo p2] after].
    destruct eo as [[ei0 eo0]|]; cbv zeta; rewrite g_rr_splice_rune; reflexivity.
  Qed.

  Lemma g_insert_span_rune l x ins : g_insert_span true rst l x ins = insert_span wc l x ins.
  Proof. apply g_replace_range_rune. Qed.

  Theorem g_truncate_line_rune l w : g_truncate_line true rst l w = truncate_line wc l w.
  Proof. unfold g_truncate_line, truncate_line. rewrite g_replace_range_rune. reflexivity. Qed.

  Theorem g_resize_line_rune l w st : g_resize_line true rst l w st = resize_line wc l w st.
  Proof. unfold g_resize_line, resize_line. rewrite g_truncate_line_rune. reflexivity. Qed.

  Theorem g_raw_write_span_rune W l x sp : g_raw_write_span true rst W l x sp = raw_write_span wc W l x sp.
  Proof. unfold g_raw_write_span, raw_write_span. rewrite g_replace_range_rune, g_truncate_line_rune. reflexivity. Qed.

  Theorem g_span_delete_chars_rune W st l x n : g_span_delete_chars true rst W st l x n = span_delete_chars wc W st l x n.
  Proof. unfold g_span_delete_chars, span_delete_chars. rewrite g_replace_range_rune. reflexivity. Qed.

  Lemma g_cf_loop_rune fuel : forall buf st idx width avail,
    g_cf_loop rst fuel buf st idx width avail = (cf_loop wc fuel buf idx width avail, st).
  Proof.
    induction fuel as [|f IH]; intros; [reflexivity|]. cbn [g_cf_loop cf_loop].
    destruct buf as [|b buf']; [reflexivity|].
    destruct (step_cluster wc (b :: buf')) as [[[c k] w]|] eqn:S.
    - destruct (rstep_some _ st _ _ _ S) as (E & K & _). rewrite E, K.
      destruct ((0 <? idx) && (avail <? width + (if w <? 0 then 0 else w))); [reflexivity|]. apply IH.
    - rewrite (rstep_none _ st S). reflexivity.
  Qed.
  Theorem g_clusters_fitting_rune text avail st :
    g_clusters_fitting rst text avail st = (clusters_fitting wc text avail, st).
  Proof. unfold g_clusters_fitting, clusters_fitting. apply g_cf_loop_rune. Qed.

  Lemma g_styled_loop_rune spans : forall pos x w acc,
    g_styled_loop true rst spans pos x w acc = styled_loop wc spans pos x w acc.
  Proof.
    induction spans as [|sp rest IH]; intros; [reflexivity|]. cbn [g_styled_loop styled_loop].
    rewrite !g_split_span_rune.
    destruct (split_span wc sp (zmax pos x - pos)) as [[a sub] c].
    rewrite !g_split_span_rune. rewrite !IH. reflexivity.
  Qed.
  Theorem g_styled_line_rune W l x w : g_styled_line true rst W l x w = styled_line wc W l x w.
  Proof. unfold g_styled_line, styled_line. rewrite g_styled_loop_rune. reflexivity. Qed.

  (* ---------- the cell projection ---------- *)
  Lemma g_seg_cells_rune fuel : forall sty buf st racc,
    g_seg_cells rst fuel sty buf st racc = rev (seg_cells wc fuel sty buf) ++ racc.
  Proof.
    induction fuel as [|f IH]; intros; [reflexivity|]. cbn [g_seg_cells seg_cells].
    destruct buf as [|b buf']; [reflexivity|].
    destruct (step_cluster wc (b :: buf')) as [[[c k] w]|] eqn:S.
    - destruct (rstep_some _ st _ _ _ S) as (E & K & Wd). rewrite E, K, Wd.
      rewrite IH, rev_app_distr, <- app_assoc. reflexivity.
    - rewrite (rstep_none _ st S). reflexivity.
  Qed.

  Lemma rev_zrepeat {A} (a : A) n : rev (zrepeat a n) = zrepeat a n.
  Proof.
    unfold zrepeat. induction (Z.to_nat n) as [|k IH]; [reflexivity|].
    cbn [repeat rev]. rewrite IH. clear IH.
    induction k as [|k IH]; [reflexivity|]. cbn [repeat app]. rewrite IH. reflexivity.
  Qed.

  Lemma g_abs_span_rune racc sp : g_abs_span rst racc sp = rev (abs_span wc sp) ++ racc.
  Proof.
    unfold g_abs_span, abs_span. destruct (sp_width sp <=? 0); [reflexivity|].
    destruct (is_text sp); [apply g_seg_cells_rune|]. rewrite rev_zrepeat. reflexivity.
  Qed.

  Lemma fold_abs_rune spans : forall racc,
    fold_left (g_abs_span rst) spans racc = rev (abs_spans wc spans) ++ racc.
  Proof.
    induction spans as [|sp rest IH]; intros; [reflexivity|].
    cbn [fold_left]. rewrite IH, g_abs_span_rune. unfold abs_spans. cbn [flat_map].
    rewrite rev_app_distr, <- app_assoc. reflexivity.
  Qed.

  Theorem g_abs_line_rune l : g_abs_line rst l = abs_line wc l.
  Proof. unfold g_abs_line, abs_line. rewrite fold_abs_rune, app_nil_r. apply rev_involutive. Qed.

  Theorem g_abs_sscreen_rune s : g_abs_sscreen rst s = abs_sscreen wc s.
  Proof.
    unfold g_abs_sscreen, abs_sscreen. f_equal.
    induction (zlines s) as [|l r IH]; [reflexivity|]. cbn [map]. rewrite g_abs_line_rune, IH. reflexivity.
  Qed.

  Theorem g_abs_sterm_rune t : g_abs_sterm rst t = abs_sterm wc t.
  Proof. unfold g_abs_sterm, abs_sterm. rewrite !g_abs_sscreen_rune. reflexivity. Qed.

  (* ---------- the screen ---------- *)
  Lemma g_wta_loop_rune fuel : forall text st cp off,
    g_wta_loop rst fuel text st cp off = wta_loop wc fuel text cp off.
  Proof.
    induction fuel as [|f IH]; intros; [reflexivity|]. cbn [g_wta_loop wta_loop].
    destruct text as [|b buf']; [reflexivity|].
    destruct (cp <? off); [|reflexivity].
    destruct (step_cluster wc (b :: buf')) as [[[c k] w]|] eqn:S.
    - destruct (rstep_some _ st _ _ _ S) as (E & K & _). rewrite E, K. rewrite IH. reflexivity.
    - rewrite (rstep_none _ st S). reflexivity.
  Qed.
  Theorem g_wide_tail_at_rune l x : g_wide_tail_at rst l x = wide_tail_at wc l x.
  Proof.
    unfold g_wide_tail_at, wide_tail_at. destruct (find_span_at_x l x) as [idx offset].
    rewrite g_wta_loop_rune. reflexivity.
  Qed.

  Theorem g_s_raw_write_span_rune x y sp reason s :
    g_s_raw_write_span true rst x y sp reason s = s_raw_write_span wc x y sp reason s.
  Proof.
    unfold g_s_raw_write_span, s_raw_write_span.
    rewrite g_raw_write_span_rune, g_wide_tail_at_rune, g_replace_range_rune. reflexivity.
  Qed.

  Lemma g_s_erase_rows_rune reason x sp ys : forall s,
    g_s_erase_rows true rst reason x sp ys s = s_erase_rows wc reason x sp ys s.
  Proof.
    induction ys as [|y r IH]; intros; [reflexivity|]. cbn [g_s_erase_rows s_erase_rows].
    rewrite g_s_raw_write_span_rune. apply IH.
  Qed.
  Theorem g_s_erase_region_rune x y x2 y2 s : g_s_erase_region true rst x y x2 y2 s = s_erase_region wc x y x2 y2 s.
  Proof. unfold g_s_erase_region, s_erase_region. apply g_s_erase_rows_rune. Qed.

  Lemma g_from_loop_rune fuel : forall l from, g_from_loop rst fuel l from = from_loop wc fuel l from.
  Proof.
    induction fuel as [|f IH]; intros; [reflexivity|]. cbn [g_from_loop from_loop].
    rewrite g_wide_tail_at_rune, IH. reflexivity.
  Qed.
  Theorem g_s_delete_chars_rune x y n s : g_s_delete_chars true rst x y n s = s_delete_chars wc x y n s.
  Proof.
    unfold g_s_delete_chars, s_delete_chars. rewrite g_from_loop_rune, g_span_delete_chars_rune. reflexivity.
  Qed.

  Theorem g_s_set_size_rune w h s : g_s_set_size true rst w h s = s_set_size wc w h s.
  Proof.
    unfold g_s_set_size, s_set_size.
    destruct ((w <=? 0) || (h <=? 0)); [reflexivity|].
    assert (M : map (fun y => if (y <? zH s) && nonempty (zlines s)
                              then g_resize_line true rst (line_at s y) w (zsty s) else blank_span_line w (zsty s)) (zseq 0 h)
              = map (fun y => if (y <? zH s) && nonempty (zlines s)
                              then resize_line wc (line_at s y) w (zsty s) else blank_span_line w (zsty s)) (zseq 0 h)).
    { apply map_ext. intros y. rewrite g_resize_line_rune. reflexivity. }
    rewrite M. reflexivity.
  Qed.

  Theorem g_s_write_run_rune text width s : g_s_write_run true rst text width s = s_write_run wc text width s.
  Proof. unfold g_s_write_run, s_write_run. rewrite g_s_raw_write_span_rune. reflexivity. Qed.

  Lemma g_ws_loop_rune fuel : forall text width st s,
    g_ws_loop true rst fuel text width st s = ws_loop wc fuel text width s.
  Proof.
    induction fuel as [|f IH]; intros; cbn [g_ws_loop ws_loop]; [apply g_s_write_run_rune|].
    destruct (negb (zcrash s =? 0)); [reflexivity|].
    destruct (zW s <? zcx s + width); [|apply g_s_write_run_rune].
    rewrite g_clusters_fitting_rune.
    destruct (clusters_fitting wc text (zW s - zcx s)) as [n w].
    destruct ((n <=? 0) || (zlen text <=? n)); [apply g_s_write_run_rune|].
    rewrite IH, g_s_write_run_rune. reflexivity.
  Qed.

  (* writeString(text, width, false, TextReadModeRune) *)
  Theorem g_s_write_string_rune text width s :
    g_s_write_string true rst text width false s = s_write_string wc text width s.
  Proof.
    unfold g_s_write_string, s_write_string. destruct (negb (nonempty text)); [reflexivity|]. apply g_ws_loop_rune.
  Qed.

  (* ---------- the terminal ---------- *)
  Theorem g_s_resize_rune w h t : g_s_resize true rst w h t = s_resize wc w h t.
  Proof. unfold g_s_resize, s_resize. rewrite !g_s_set_size_rune. reflexivity. Qed.

  Lemma s_on_screen_ext f g t : (forall s, f s = g s) -> s_on_screen f t = s_on_screen g t.
  Proof. intros H. unfold s_on_screen. rewrite H. reflexivity. Qed.

  Theorem g_s_exec_csi_plain_rune ps f t : g_s_exec_csi_plain true rst ps f t = s_exec_csi_plain wc ps f t.
  Proof.
    unfold g_s_exec_csi_plain, s_exec_csi_plain.
    repeat match goal with
    | |- (if ?c then _ else _) = (if ?c then _ else _) => destruct c
    | |- (let p := ?v in _) = _ => cbv zeta
    end;
    first [ apply s_on_screen_ext; intros s0; rewrite ?g_s_erase_region_rune, ?g_s_delete_chars_rune; reflexivity
          | reflexivity ].
  Qed.

  Theorem g_s_exec_csi_rune prefix ps f t : g_s_exec_csi true rst prefix ps f t = s_exec_csi wc prefix ps f t.
  Proof. unfold g_s_exec_csi, s_exec_csi. rewrite g_s_exec_csi_plain_rune. reflexivity. Qed.

  Theorem g_s_exec_run_rune text width t : g_s_exec_run true rst text width false t = s_exec_run wc text width t.
  Proof. unfold g_s_exec_run, s_exec_run. apply s_on_screen_ext. intros s. apply g_s_write_string_rune. Qed.

  Theorem g_s_exec_tok_rune k t : g_s_exec_tok true rst k t = s_exec_tok wc k t.
  Proof.
    destruct k; cbn [g_s_exec_tok s_exec_tok];
      [apply g_s_exec_run_rune|reflexivity|reflexivity|reflexivity|apply g_s_exec_csi_rune|reflexivity].
  Qed.

  (* ---------- the reader: runs of single runes under maxWidth, never a merge run, state untouched ---------- *)
  Notation rtk := (rune_ntok wc).

  Lemma g_rr_loop_rune fuel : forall buf idx used maxw rs,
    g_rr_loop rtk fuel buf idx used maxw false rs = (rr_loop wc fuel buf idx used maxw, false, rs).
  Proof.
    induction fuel as [|f IH]; intros; [reflexivity|]. cbn [g_rr_loop rr_loop].
    destruct buf as [|b buf']; [reflexivity|].
    destruct (negb (is_printable b)); [reflexivity|].
    unfold rune_ntok at 1.
    destruct (step_cluster wc (b :: buf')) as [[[c k] w]|] eqn:S; [|reflexivity].
    destruct (rstep_some _ None _ _ _ S) as (_ & K & _).
    cbn [tt_merge tt_width tt_len tt_rs andb negb orb].
    destruct ((0 <? maxw) && (maxw <? used + w) && (0 <? used)); [reflexivity|].
    rewrite K. apply IH.
  Qed.
  Theorem g_read_run_rune maxw buf rs : g_read_run rtk maxw buf rs = (read_run wc maxw buf, false, rs).
  Proof. unfold g_read_run, read_run. apply g_rr_loop_rune. Qed.

  (* ---------- the read loop and histories: equal up to the reader state, which rune mode never looks at ---------- *)
  Definition drop_rs (x : sterm * rstate * list Z * option Z) : sterm * list Z * option Z :=
    let '(t, _, p, m) := x in (t, p, m).

  Theorem g_s_run_pending_rune fuel : forall mw t rs inp,
    drop_rs (g_s_run_pending true rst rtk fuel mw t rs inp) = s_run_pending wc fuel mw t inp.
  Proof.
    induction fuel as [|f IH]; intros; [reflexivity|]. cbn [g_s_run_pending s_run_pending].
    destruct (s_crashed t); [reflexivity|].
    destruct inp as [|b rest]; [reflexivity|].
    destruct (is_printable b) eqn:P.
    - rewrite g_read_run_rune.
      destruct (read_run wc (match mw with Some m => m | None => max_width (s_active t) end) (b :: rest)) as [n w].
      destruct (n <=? 0); [reflexivity|].
      rewrite IH, g_s_exec_run_rune. reflexivity.
    - unfold parse_one. rewrite P.
      destruct (b =? 27).
      + destruct (parse_esc rest) as [|k r]; [reflexivity|]. rewrite IH, g_s_exec_tok_rune. reflexivity.
      + rewrite IH, g_s_exec_tok_rune. reflexivity.
  Qed.

  Theorem g_s_hstep_rune t rs pend mw o :
    drop_rs (g_s_hstep true rst rtk (t, rs, pend, mw) o) = s_hstep wc (t, pend, mw) o.
  Proof.
    destruct o as [bs|w h]; cbn [g_s_hstep s_hstep].
    - apply g_s_run_pending_rune.
    - destruct (s_crashed t); [reflexivity|]. cbn [drop_rs]. rewrite g_s_resize_rune. reflexivity.
  Qed.

  Lemma g_fold_hstep_rune ops : forall st,
    drop_rs (fold_left (g_s_hstep true rst rtk) ops st) = fold_left (s_hstep wc) ops (drop_rs st).
  Proof.
    induction ops as [|o r IH]; intros; [reflexivity|]. cbn [fold_left]. rewrite IH.
    destruct st as [[[t rs] p] m]. rewrite g_s_hstep_rune. reflexivity.
  Qed.

  (* whole histories: the rune-mode instance of the parametric terminal is the terminal of SpanScreen.v *)
  Theorem g_s_run_hist_rune t ops : drop_rs (rm_run_hist wc t ops) = s_run_hist wc t ops.
  Proof. unfold rm_run_hist, g_s_run_hist, g_s_run_hist_from, s_run_hist, s_run_hist_from. apply g_fold_hstep_rune. Qed.
End Rune.

(* The grapheme-mode instance differs from these only where the code looks at the mode: an example on which the
   two fast paths matter.  "ab" written, then "c" written over the "b": rune mode patches the bytes of the one
   span in place; grapheme mode splits the span. *)
Example gspan_fast_path_differs :
  let l := mkLine [mk_span default_style [97; 98] 0 2] 2 in
  let ins := mk_span default_style [99] 0 1 in
  sl_spans (g_replace_range true (rune_stepper (fun _ => 1)) l 1 1 ins) = [mk_span default_style [97; 99] 0 2] /\
  sl_spans (g_replace_range false grapheme_stepper l 1 1 ins)
    = [mk_span default_style [97] 0 1; mk_span default_style [99] 0 1].
Proof. vm_compute. split; reflexivity. Qed.

(* KF-grapheme-merge reproduced by the model: "a", then a joiner, then "b" in three reads on a 4x1 screen.  The
   joiner and the letter after it are merged into the cell of "a": one span of claimed width 1 whose text measures
   two cells when segmented again, so the row's cell projection has five cells on a screen four wide. *)
Example gspan_forced_merge_row :
  let '(t, rs, _, _) := gm_run_hist (s_init_term 4 1) [HFeed [97]; HFeed [226; 128; 141]; HFeed [98]] in
  map (fun sp => (sp_text sp, sp_width sp)) (sl_spans (line_at (smain t) 0)) = [([97; 226; 128; 141; 98], 1); ([], 3)] /\
  map cwid (g_abs_line gm_step (line_at (smain t) 0)) = [1; 1; 1; 1; 1] /\
  zcx (smain t) = 1 /\ rs_fm rs = false.
Proof. vm_compute. repeat split; reflexivity. Qed.
