(* C08, grapheme clause, for terminals (grapheme mode of the read loop of Model/GTerm.v).

   [adm rs a b]: the cut at |a| is admissible for the stream a ++ b read from reader state rs.  It is defined by
   following the model's own parse of a ++ b token by token:
   - the cut may fall anywhere inside, before or after an escape sequence or a control byte;
   - inside a run of text it must be a boundary of the tokens of a ++ b (it does not fall inside an extended
     grapheme cluster), and the text in front of it must consist of whole UTF-8 decoding steps ([aligned]);
   - it may fall inside the first character of a token (the reader waits, nothing has been acted on).

   [grapheme_cut_stream]: feeding a and then b = feeding a ++ b: the same terminal (screens, cursor, modes, replies,
   callback log), the same reader state, the same pending bytes.  [grapheme_seg_indep]: by induction, every
   segmentation all of whose cuts are admissible gives what one read gives.  [grapheme_cut_text_screen]: the
   special case of a run of text, under the hypotheses of SegCutProofs.toks_cut. *)
From Coq Require Import List ZArith Bool Lia.
From Termemu Require Import Base Style Screen Kbd Parser Term BaseLemmas ScreenInv TermInv ParserProofs ParserMono
  HistProofs Gen_Uniseg Uniseg Grapheme GTerm GTermProofs SegCutProofs SegScreenLoop.
Import ListNotations.
Open Scope Z_scope.

Inductive adm : rstate -> list Z -> list Z -> Prop :=
| adm_cut rs b : adm rs [] b
    (* the cut is where the parse of a ++ b starts a token *)
| adm_text_in rs c y b tk q z : is_printable c = true -> c :: y = q ++ z -> aligned q ->
    next_grapheme_token ((c :: y) ++ b) rs = Some tk -> tt_len tk < zlen q ->
    adm (tt_rs tk) (zskipn (tt_len tk) (c :: y)) b -> adm rs (c :: y) b
    (* a token of text that ends before the cut, inside a stretch q of whole characters *)
| adm_text_end rs c y b tk : is_printable c = true -> aligned (c :: y) ->
    next_grapheme_token ((c :: y) ++ b) rs = Some tk -> tt_len tk = zlen (c :: y) -> adm rs (c :: y) b
    (* a token of text that ends exactly at the cut *)
| adm_text_wait rs c y b : is_printable c = true -> full_rune (c :: y) = false -> adm rs (c :: y) b
    (* the cut is inside the first character of a token *)
| adm_c0 rs c y b : is_printable c = false -> c <> 27 -> adm (rs_reset rs) y b -> adm rs (c :: y) b
| adm_esc_in rs y b k r : parse_esc (y ++ b) = PTok k (r ++ b) -> adm (rs_reset rs) r b -> adm rs (27 :: y) b
    (* an escape sequence that ends before the cut, or at it *)
| adm_esc_cut rs y b : parse_esc y = PMore -> adm rs (27 :: y) b.
    (* the cut is inside the escape sequence *)

Section Cut.
  Variable grid : bool.

  (* ---- one iteration on x and on x ++ b ---- *)
  Lemma gparse_text_in rs c y b tk q z : is_printable c = true -> c :: y = q ++ z -> aligned q ->
    next_grapheme_token ((c :: y) ++ b) rs = Some tk -> tt_len tk < zlen q ->
    exists k, gparse_one true grid rs (c :: y) = Some (k, tt_rs tk, zskipn (tt_len tk) (c :: y)) /\
              gparse_one true grid rs ((c :: y) ++ b) = Some (k, tt_rs tk, zskipn (tt_len tk) (c :: y) ++ b).
  Proof.
    intros Hc Hx Hal Ht Hl.
    pose proof (text_token_in _ b q z rs tk Hx Hal Ht Hl) as Ht'.
    pose proof (token_full _ _ _ Ht') as Hf.
    assert (Hlx : tt_len tk <= zlen (c :: y)).
    { rewrite Hx, zlen_app. pose proof (zlen_nonneg z). lia. }
    destruct (text_gtok_some grid (c :: y) (tt_len tk) (tt_width tk) (tt_merge tk) Hf) as (k & Hk).
    exists k. split.
    - rewrite (gparse_text grid rs c y Hc), Ht', Hk. reflexivity.
    - change ((c :: y) ++ b) with (c :: (y ++ b)) in *. rewrite (gparse_text grid rs c (y ++ b) Hc), Ht.
      change (c :: (y ++ b)) with ((c :: y) ++ b).
      rewrite (text_gtok_app grid (c :: y) b _ _ _ Hf Hlx), Hk, zskipn_app_in by exact Hlx. reflexivity.
  Qed.

  Lemma gparse_text_end rs c y b tk : is_printable c = true -> aligned (c :: y) ->
    next_grapheme_token ((c :: y) ++ b) rs = Some tk -> tt_len tk = zlen (c :: y) ->
    exists k, gparse_one true grid rs (c :: y) = Some (k, rs_reset_state (tt_rs tk), []) /\
              gparse_one true grid rs ((c :: y) ++ b) = Some (k, tt_rs tk, b).
  Proof.
    intros Hc Hal Ht Hl.
    destruct (text_token_end (c :: y) b rs tk Hal ltac:(discriminate) Ht Hl) as (tk' & Ht' & E1 & E2 & E3 & E4).
    pose proof (token_full _ _ _ Ht') as Hf.
    destruct (text_gtok_some grid (c :: y) (tt_len tk) (tt_width tk) (tt_merge tk) Hf) as (k & Hk).
    exists k. split.
    - rewrite (gparse_text grid rs c y Hc), Ht', E1, E2, E3, E4, Hk, Hl, SegCutProofs.zskipn_all. reflexivity.
    - change ((c :: y) ++ b) with (c :: (y ++ b)) in *. rewrite (gparse_text grid rs c (y ++ b) Hc), Ht.
      change (c :: (y ++ b)) with ((c :: y) ++ b).
      rewrite (text_gtok_app grid (c :: y) b (tt_len tk) _ _ Hf ltac:(lia)), Hk, Hl, zskipn_app_all. reflexivity.
  Qed.

  Lemma gparse_text_wait rs c y : is_printable c = true -> full_rune (c :: y) = false ->
    gparse_one true grid rs (c :: y) = None.
  Proof. intros Hc Hf. rewrite (gparse_text grid rs c y Hc), (not_full_none _ rs Hf). reflexivity. Qed.

  Lemma gparse_c0 rs c y : is_printable c = false -> c <> 27 ->
    gparse_one true grid rs (c :: y) = Some (GT (TC0 c), rs_reset rs, y).
  Proof. intros Hc Hn. unfold gparse_one. rewrite Hc. destruct (Z.eqb_spec c 27); [contradiction|reflexivity]. Qed.

  Lemma gparse_esc rs y : gparse_one true grid rs (27 :: y) =
    match parse_esc y with PMore => None | PTok k r => Some (GT k, rs_reset rs, r) end.
  Proof. reflexivity. Qed.

  (* the bytes of a that the first read leaves pending are re-scanned in front of b *)
  Definition two_reads (t : term) (rs : rstate) (a b : list Z) : term * rstate * list Z :=
    let '(t1, rs1, p1) := grun_bytes true grid t rs a in grun_bytes true grid t1 rs1 (p1 ++ b).

  Theorem cut_run : forall rs a b, adm rs a b -> forall t, TInv t ->
    two_reads t rs a b = grun_bytes true grid t rs (a ++ b).
  Proof.
    induction 1 as [rs b|rs c y b tk q z Hc Hx Hal Ht Hl _ IH|rs c y b tk Hc Hal Ht Hl|rs c y b Hc Hf
                   |rs c y b Hc Hn _ IH|rs y b k r He _ IH|rs y b He]; intros t HT;
      pose proof (TInv_not_crashed t HT) as Hcr; unfold two_reads in *.
    - rewrite grun_bytes_nil. reflexivity.
    - destruct (gparse_text_in rs c y b tk q z Hc Hx Hal Ht Hl) as (k & P1 & P2).
      rewrite (grun_bytes_step grid t rs _ _ _ _ Hcr P1), (grun_bytes_step grid t rs _ _ _ _ Hcr P2).
      apply IH, TInv_gexec, HT.
    - destruct (gparse_text_end rs c y b tk Hc Hal Ht Hl) as (k & P1 & P2).
      rewrite (grun_bytes_step grid t rs _ _ _ _ Hcr P1), (grun_bytes_step grid t rs _ _ _ _ Hcr P2).
      rewrite grun_bytes_nil. cbn [app].
      apply grun_reset_ok; [apply TInv_not_crashed, TInv_gexec, HT|].
      pose proof (token_state_ok _ _ _ Ht) as Hok. rewrite Hl, zskipn_app_all in Hok. exact Hok.
    - rewrite (grun_bytes_blocked grid t rs _ (gparse_text_wait rs c y Hc Hf)), Hcr. cbn [wait_rs]. rewrite Hc. reflexivity.
    - pose proof (gparse_c0 rs c y Hc Hn) as P1. pose proof (gparse_c0 rs c (y ++ b) Hc Hn) as P2.
      cbn [app]. rewrite (grun_bytes_step grid t rs _ _ _ _ Hcr P1), (grun_bytes_step grid t rs _ _ _ _ Hcr P2).
      apply IH, TInv_gexec, HT.
    - destruct (parse_esc y) as [|k' r'] eqn:Ey.
      + assert (P1 : gparse_one true grid rs (27 :: y) = None) by (rewrite gparse_esc, Ey; reflexivity).
        rewrite (grun_bytes_blocked grid t rs _ P1), Hcr. cbn [wait_rs]. change (is_printable 27) with false. cbv iota.
        apply (grun_ctl_head grid t rs 27 (y ++ b) Hcr). reflexivity.
      + pose proof (parse_esc_mono _ b _ _ Ey) as Ey'. rewrite He in Ey'. inversion Ey' as [[Hk Hr]].
        apply app_inv_tail in Hr. subst k' r'.
        assert (P1 : gparse_one true grid rs (27 :: y) = Some (GT k, rs_reset rs, r)) by (rewrite gparse_esc, Ey; reflexivity).
        assert (P2 : gparse_one true grid rs (27 :: (y ++ b)) = Some (GT k, rs_reset rs, r ++ b)) by (rewrite gparse_esc, He; reflexivity).
        cbn [app]. rewrite (grun_bytes_step grid t rs _ _ _ _ Hcr P1), (grun_bytes_step grid t rs _ _ _ _ Hcr P2).
        apply IH, TInv_gexec, HT.
    - assert (P1 : gparse_one true grid rs (27 :: y) = None) by (rewrite gparse_esc, He; reflexivity).
      rewrite (grun_bytes_blocked grid t rs _ P1), Hcr. cbn [wait_rs]. change (is_printable 27) with false. cbv iota.
      apply (grun_ctl_head grid t rs 27 (y ++ b) Hcr). reflexivity.
  Qed.

  (* C08, grapheme mode: two reads with an admissible cut between them are one read, from every state of the
     read loop (terminal, reader state, pending bytes) whose terminal satisfies the invariant of C01 *)
  Theorem grapheme_cut_stream t rs pend a b : TInv t -> adm rs (pend ++ a) b ->
    ghstep true grid (ghstep true grid (t, rs, pend) (HFeed a)) (HFeed b) =
    ghstep true grid (t, rs, pend) (HFeed (a ++ b)).
  Proof.
    intros HT Ha. cbn [ghstep]. pose proof (cut_run _ _ _ Ha t HT) as H. unfold two_reads in H.
    destruct (grun_bytes true grid t rs (pend ++ a)) as [[t1 rs1] p1]. cbn [ghstep]. rewrite H, app_assoc. reflexivity.
  Qed.

  (* ---- inversion of [adm] by the head of the bytes before the cut ---- *)
  Lemma adm_inv_text rs c y b : is_printable c = true -> adm rs (c :: y) b ->
    full_rune (c :: y) = false \/
    exists tk, next_grapheme_token ((c :: y) ++ b) rs = Some tk /\
      ((exists q z, c :: y = q ++ z /\ aligned q /\ tt_len tk < zlen q /\ adm (tt_rs tk) (zskipn (tt_len tk) (c :: y)) b) \/
       (aligned (c :: y) /\ tt_len tk = zlen (c :: y))).
  Proof.
    intros Hc H. inversion H; subst.
    - right. eexists. split; [eassumption|]. left. eexists _, _. repeat split; eassumption.
    - right. eexists. split; [eassumption|]. right. split; assumption.
    - left. assumption.
    - congruence.
    - discriminate.
    - discriminate.
  Qed.

  Lemma adm_inv_c0 rs c y b : is_printable c = false -> c <> 27 -> adm rs (c :: y) b -> adm (rs_reset rs) y b.
  Proof. intros Hc Hn H. inversion H; subst; try congruence. Qed.

  Lemma adm_inv_esc rs y b : adm rs (27 :: y) b ->
    parse_esc y = PMore \/ exists k r, parse_esc (y ++ b) = PTok k (r ++ b) /\ adm (rs_reset rs) r b.
  Proof.
    intros H. inversion H; subst; try discriminate.
    - congruence.
    - right. eexists _, _. split; eassumption.
    - left. assumption.
  Qed.

  (* in front of a control byte or ESC only the merge flags of the reader state matter *)
  Lemma adm_rs_ctl rs c y b : is_printable c = false -> adm rs (c :: y) b -> adm (rs_reset rs) (c :: y) b.
  Proof.
    intros Hc H. inversion H; subst; try congruence; try discriminate.
    - apply adm_c0; assumption.
    - eapply adm_esc_in; eassumption.
    - apply adm_esc_cut; assumption.
  Qed.

  (* from a state that is ok, admissibility does not depend on whether the segmentation state is carried or reset *)
  Lemma adm_reset rs x b : rs_ok rs (x ++ b) -> adm rs x b -> adm (rs_reset_state rs) x b.
  Proof.
    intros Hok H. destruct x as [|c y]; [apply adm_cut|].
    destruct (is_printable c) eqn:Hc; [|apply (adm_rs_ctl rs c y b Hc H)].
    destruct (adm_inv_text rs c y b Hc H) as [Hf|(tk & Ht & [(q & z & Hx & Hal & Hl & Hr)|(Hal & Hl)])].
    - apply adm_text_wait; assumption.
    - rewrite (token_reset _ _ Hok) in Ht. eapply adm_text_in; eassumption.
    - rewrite (token_reset _ _ Hok) in Ht. eapply adm_text_end; eassumption.
  Qed.

  Lemma full_rune_app x m : full_rune x = true -> full_rune (x ++ m) = true.
  Proof.
    unfold full_rune. destruct (decode_rune x) as [v|] eqn:E; [|discriminate].
    rewrite (decode_rune_mono _ m _ E). reflexivity.
  Qed.

  (* the state the first read ends in lies on the parse of the whole stream: a later cut that is admissible for the
     whole stream is admissible for what remains after the first read *)
  Lemma adm_transfer : forall rs a b, adm rs a b -> forall t b1 b2, TInv t -> b = b1 ++ b2 -> adm rs (a ++ b1) b2 ->
    forall t1 rs1 p1, grun_bytes true grid t rs a = (t1, rs1, p1) -> adm rs1 (p1 ++ b1) b2.
  Proof.
    induction 1 as [rs b|rs c y b tk q z Hc Hx Hal Ht Hl _ IH|rs c y b tk Hc Hal Ht Hl|rs c y b Hc Hf
                   |rs c y b Hc Hn _ IH|rs y b k r He _ IH|rs y b He]; intros t b1 b2 HT Hb D2 t1 rs1 p1 Hrun;
      pose proof (TInv_not_crashed t HT) as Hcr; subst b.
    - rewrite grun_bytes_nil in Hrun. inversion Hrun; subst. exact D2.
    - destruct (gparse_text_in rs c y (b1 ++ b2) tk q z Hc Hx Hal Ht Hl) as (k & P1 & _).
      rewrite (grun_bytes_step grid t rs _ _ _ _ Hcr P1) in Hrun.
      assert (Hlx : tt_len tk <= zlen (c :: y)) by (rewrite Hx, zlen_app; pose proof (zlen_nonneg z); lia).
      cbn [app] in D2.
      destruct (adm_inv_text rs c (y ++ b1) b2 Hc D2) as [Hf|(tk2 & Ht2 & [(q2 & z2 & Hx2 & Hal2 & Hl2 & Hr2)|(Hal2 & Hl2)])].
      + pose proof (text_token_in _ _ q z rs tk Hx Hal Ht Hl) as Ht'. apply token_full in Ht'.
        change (c :: y ++ b1) with ((c :: y) ++ b1) in Hf. rewrite (full_rune_app _ b1 Ht') in Hf. discriminate.
      + change (c :: y ++ b1) with ((c :: y) ++ b1) in Ht2, Hr2. rewrite <- app_assoc, Ht in Ht2. inversion Ht2; subst tk2.
        rewrite zskipn_app_in in Hr2 by exact Hlx.
        eapply IH; [apply TInv_gexec, HT|reflexivity|exact Hr2|exact Hrun].
      + change (c :: y ++ b1) with ((c :: y) ++ b1) in Ht2, Hl2. rewrite <- app_assoc, Ht in Ht2. inversion Ht2; subst tk2.
        rewrite zlen_app in Hl2. pose proof (zlen_nonneg b1). pose proof (zlen_nonneg z). rewrite Hx, zlen_app in Hl2. lia.
    - destruct (gparse_text_end rs c y (b1 ++ b2) tk Hc Hal Ht Hl) as (k & P1 & _).
      rewrite (grun_bytes_step grid t rs _ _ _ _ Hcr P1), grun_bytes_nil in Hrun. inversion Hrun; subst. cbn [app].
      cbn [app] in D2.
      destruct (adm_inv_text rs c (y ++ b1) b2 Hc D2) as [Hf|(tk2 & Ht2 & [(q2 & z2 & Hx2 & Hal2 & Hl2 & Hr2)|(Hal2 & Hl2)])].
      + destruct (text_token_end (c :: y) _ rs tk Hal ltac:(discriminate) Ht Hl) as (tk' & Ht' & _). apply token_full in Ht'.
        change (c :: y ++ b1) with ((c :: y) ++ b1) in Hf. rewrite (full_rune_app _ b1 Ht') in Hf. discriminate.
      + change (c :: y ++ b1) with ((c :: y) ++ b1) in Ht2, Hr2. rewrite <- app_assoc, Ht in Ht2. inversion Ht2; subst tk2.
        rewrite Hl, zskipn_app_all in Hr2.
        apply adm_reset; [|exact Hr2].
        pose proof (token_state_ok _ _ _ Ht) as Hok. rewrite Hl, zskipn_app_all in Hok. exact Hok.
      + change (c :: y ++ b1) with ((c :: y) ++ b1) in Ht2, Hl2. rewrite <- app_assoc, Ht in Ht2. inversion Ht2; subst tk2.
        rewrite zlen_app in Hl2. assert (Hz : zlen b1 = 0) by lia.
        destruct b1 as [|b0 b1]; [apply adm_cut|rewrite zlen_cons in Hz; pose proof (zlen_nonneg b1); lia].
    - rewrite (grun_bytes_blocked grid t rs _ (gparse_text_wait rs c y Hc Hf)), Hcr in Hrun. cbn [wait_rs] in Hrun. rewrite Hc in Hrun.
      inversion Hrun; subst. exact D2.
    - pose proof (gparse_c0 rs c y Hc Hn) as P1.
      rewrite (grun_bytes_step grid t rs _ _ _ _ Hcr P1) in Hrun. cbn [app] in D2.
      eapply IH; [apply TInv_gexec, HT|reflexivity|apply (adm_inv_c0 rs c _ b2 Hc Hn D2)|exact Hrun].
    - destruct (parse_esc y) as [|k' r'] eqn:Ey.
      + assert (P1 : gparse_one true grid rs (27 :: y) = None) by (rewrite gparse_esc, Ey; reflexivity).
        rewrite (grun_bytes_blocked grid t rs _ P1), Hcr in Hrun. cbn [wait_rs] in Hrun. change (is_printable 27) with false in Hrun.
        inversion Hrun; subst. apply (adm_rs_ctl rs 27 (y ++ b1) b2); [reflexivity|exact D2].
      + pose proof (parse_esc_mono _ (b1 ++ b2) _ _ Ey) as Ey'. rewrite He in Ey'. inversion Ey' as [[Hk Hr]].
        apply app_inv_tail in Hr. subst k' r'.
        assert (P1 : gparse_one true grid rs (27 :: y) = Some (GT k, rs_reset rs, r)) by (rewrite gparse_esc, Ey; reflexivity).
        rewrite (grun_bytes_step grid t rs _ _ _ _ Hcr P1) in Hrun. cbn [app] in D2.
        destruct (adm_inv_esc rs (y ++ b1) b2 D2) as [Hm|(k2 & r2 & He2 & Hr2)].
        * rewrite (parse_esc_mono _ b1 _ _ Ey) in Hm. discriminate.
        * rewrite <- app_assoc, He in He2. inversion He2 as [[Hk2 Hr]]. rewrite app_assoc in Hr. apply app_inv_tail in Hr. subst r2.
          eapply IH; [apply TInv_gexec, HT|reflexivity|exact Hr2|exact Hrun].
    - assert (P1 : gparse_one true grid rs (27 :: y) = None) by (rewrite gparse_esc, He; reflexivity).
      rewrite (grun_bytes_blocked grid t rs _ P1), Hcr in Hrun. cbn [wait_rs] in Hrun. change (is_printable 27) with false in Hrun.
      inversion Hrun; subst. apply (adm_rs_ctl rs 27 (y ++ b1) b2); [reflexivity|exact D2].
  Qed.

  (* ---- any number of reads ---- *)
  (* every cut of the segmentation is admissible for the whole stream *)
  Definition cuts_adm (rs : rstate) (pre : list Z) (chunks : list (list Z)) : Prop :=
    forall l1 l2, chunks = l1 ++ l2 -> l2 <> [] -> adm rs (pre ++ concat l1) (concat l2).

  Lemma feeds_canonical : forall chunks t rs pend c, TInv t -> cuts_adm rs (pend ++ c) chunks ->
    fold_left (ghstep true grid) (map HFeed chunks) (grun_bytes true grid t rs (pend ++ c)) =
    grun_bytes true grid t rs (pend ++ c ++ concat chunks).
  Proof.
    induction chunks as [|c2 cs IH]; intros t rs pend c HT Hadm; cbn [map fold_left concat].
    - rewrite app_nil_r. reflexivity.
    - assert (A0 : adm rs (pend ++ c) (c2 ++ concat cs)).
      { specialize (Hadm [] (c2 :: cs) eq_refl ltac:(discriminate)). cbn [concat] in Hadm. rewrite app_nil_r in Hadm. exact Hadm. }
      pose proof (cut_run _ _ _ A0 t HT) as Hcut. unfold two_reads in Hcut.
      pose proof (TInv_grun_pending grid (S (length (pend ++ c))) t rs (pend ++ c) HT) as HT1.
      fold (grun_bytes true grid t rs (pend ++ c)) in HT1.
      destruct (grun_bytes true grid t rs (pend ++ c)) as [[t1 rs1] p1] eqn:Erun. unfold gterm in HT1. cbn [fst] in HT1.
      cbn [ghstep].
      rewrite (IH t1 rs1 p1 c2 HT1).
      + rewrite Hcut, <- app_assoc. reflexivity.
      + intros l1 l2 E Hne. subst cs.
        assert (A1 : adm rs (pend ++ c) ((c2 ++ concat l1) ++ concat l2)).
        { rewrite <- app_assoc, <- concat_app. exact A0. }
        assert (A2 : adm rs ((pend ++ c) ++ (c2 ++ concat l1)) (concat l2)).
        { specialize (Hadm (c2 :: l1) l2 eq_refl Hne). cbn [concat] in Hadm. exact Hadm. }
        pose proof (adm_transfer _ _ _ A1 t _ _ HT eq_refl A2 t1 rs1 p1 Erun) as A3.
        rewrite <- app_assoc. exact A3.
  Qed.

  (* C08, grapheme mode: a segmentation of the stream all of whose cuts are admissible gives what one read gives *)
  Theorem grapheme_seg_indep t rs chunks : TInv t -> cuts_adm rs [] chunks ->
    fold_left (ghstep true grid) (map HFeed chunks) (t, rs, []) = ghstep true grid (t, rs, []) (HFeed (concat chunks)).
  Proof.
    intros HT Hadm. destruct chunks as [|c cs]; cbn [map fold_left concat ghstep app].
    - rewrite grun_bytes_nil. reflexivity.
    - apply (feeds_canonical cs t rs [] c HT).
      intros l1 l2 E Hne. subst cs. specialize (Hadm (c :: l1) l2 eq_refl Hne). exact Hadm.
  Qed.

  (* two segmentations of the same stream, all cuts admissible *)
  Corollary grapheme_seg_indep2 t rs chunks1 chunks2 : TInv t -> concat chunks1 = concat chunks2 ->
    cuts_adm rs [] chunks1 -> cuts_adm rs [] chunks2 ->
    fold_left (ghstep true grid) (map HFeed chunks1) (t, rs, []) = fold_left (ghstep true grid) (map HFeed chunks2) (t, rs, []).
  Proof. intros HT E H1 H2. rewrite (grapheme_seg_indep t rs _ HT H1), (grapheme_seg_indep t rs _ HT H2), E. reflexivity. Qed.

  Corollary grapheme_hist_seg_indep w h chunks : 1 <= w -> 1 <= h -> cuts_adm rs0 [] chunks ->
    grun_hist true grid (init_term w h) (map HFeed chunks) = grun_hist true grid (init_term w h) [HFeed (concat chunks)].
  Proof. intros Hw Hh H. apply grapheme_seg_indep; [apply TInv_init; assumption|exact H]. Qed.

  (* ---- a run of text, under the hypotheses of toks_cut ---- *)
  Lemma adm_of_toks : forall l1 a b rs l2 rs' rest, aligned a -> Forall (fun c => is_printable c = true) a ->
    toks (a ++ b) rs (l1 ++ l2) rs' rest -> toks_len l1 = zlen a -> adm rs a b.
  Proof.
    induction l1 as [|[[n w] m] l1 IH]; intros a b rs l2 rs' rest Hal Hpr H Hlen.
    - cbn [toks_len] in Hlen. destruct a as [|c y]; [apply adm_cut|rewrite zlen_cons in Hlen; pose proof (zlen_nonneg y); lia].
    - cbn [app] in H. inversion H as [|buf rs0 tk l0 rs0' rest0 Hn Ht Hrest]; subst.
      cbn [toks_len] in Hlen. pose proof (zlen_nonneg a) as Han.
      destruct (toks_prefix_len _ _ _ _ _ _ Hrest) as (Hl1 & Hl0).
      pose proof (token_len_pos _ _ _ Hn Ht) as Hpos.
      destruct a as [|c y]; [rewrite zlen_nil in Hlen; lia|].
      inversion Hpr as [|? ? Hc Hpr']; subst.
      destruct (Z_lt_ge_dec (tt_len tk) (zlen (c :: y))) as [Hlt|Hge].
      + destruct (token_prefix (c :: y) b rs tk Hal ltac:(discriminate) Ht ltac:(lia)) as (tk' & _ & _ & _ & _ & _ & _ & Hin & _).
        destruct (Hin Hlt) as (_ & Hal').
        apply (adm_text_in rs c y b tk (c :: y) []); try assumption; [rewrite app_nil_r; reflexivity|].
        rewrite zskipn_app_in in Hrest by lia.
        eapply IH; [exact Hal'|apply Forall_zskipn, Hpr|exact Hrest|].
        rewrite zlen_zskipn_le by lia. lia.
      + apply (adm_text_end rs c y b tk); try assumption. lia.
  Qed.

  (* C08, grapheme clause, for a run of text on the screen: a holds whole characters of printable text and the tokens
     of a ++ b have a boundary at |a| *)
  Theorem grapheme_cut_text_screen l1 a b rs l2 rs' rest t : TInv t ->
    aligned a -> Forall (fun c => is_printable c = true) a ->
    toks (a ++ b) rs (l1 ++ l2) rs' rest -> toks_len l1 = zlen a ->
    ghstep true grid (ghstep true grid (t, rs, []) (HFeed a)) (HFeed b) = ghstep true grid (t, rs, []) (HFeed (a ++ b)).
  Proof.
    intros HT Hal Hpr H Hlen. apply grapheme_cut_stream; [exact HT|].
    cbn [app]. eapply adm_of_toks; eassumption.
  Qed.
End Cut.

(* ---- the loop on a run of text executes exactly the tokens of [toks] ---- *)
Section TextRun.
  Variable grid : bool.

  (* the tokens as executed: a glyph write [GT (TGlyph ...)] or a merge [GMerge ...] each *)
  Fixpoint text_gtoks (buf : list Z) (l : list (Z * Z * bool)) : list gtok :=
    match l with
    | [] => []
    | (n, w, m) :: r =>
        match text_gtok grid buf n w m with
        | Some k => k :: text_gtoks (zskipn n buf) r
        | None => []
        end
    end.

  Theorem grun_text_toks : forall buf rs l rs' rest, toks buf rs l rs' rest ->
    Forall (fun c => is_printable c = true) buf -> forall t, TInv t ->
    grun_bytes true grid t rs buf = (fold_left (fun t k => gexec k t) (text_gtoks buf l) t, rs', rest).
  Proof.
    induction 1 as [buf rs Hstop|buf rs tk l rs' rest Hn Ht _ IH]; intros Hpr t HT;
      pose proof (TInv_not_crashed t HT) as Hcr.
    - cbn [text_gtoks fold_left]. destruct buf as [|c y]; [apply grun_bytes_nil|].
      destruct Hstop as [E|Hnone]; [discriminate|].
      inversion Hpr as [|? ? Hc _]; subst.
      assert (P : gparse_one true grid rs (c :: y) = None) by (rewrite (gparse_text grid rs c y Hc), Hnone; reflexivity).
      rewrite (grun_bytes_blocked grid t rs _ P), Hcr. cbn [wait_rs]. rewrite Hc. reflexivity.
    - destruct buf as [|c y]; [congruence|]. inversion Hpr as [|? ? Hc _]; subst.
      destruct (text_gtok_some grid (c :: y) (tt_len tk) (tt_width tk) (tt_merge tk) (token_full _ _ _ Ht)) as (k & Hk).
      assert (P : gparse_one true grid rs (c :: y) = Some (k, tt_rs tk, zskipn (tt_len tk) (c :: y)))
        by (rewrite (gparse_text grid rs c y Hc), Ht, Hk; reflexivity).
      rewrite (grun_bytes_step grid t rs _ _ _ _ Hcr P). cbn [text_gtoks]. rewrite Hk. cbn [fold_left].
      apply IH; [apply Forall_zskipn, Hpr|apply TInv_gexec, HT].
  Qed.
End TextRun.
