(* Runs of text, the byte loop and operation histories: the span terminal
   simulates the cell terminal (everything equal; callback logs equal up to
   coalescing of adjacent text-region announcements, [log_eq]). *)
From Coq Require Import List ZArith Bool Lia.
From Termemu Require Import Base Style Screen Kbd Parser Term Case BaseLemmas ScreenInv TermInv ParserProofs HistProofs SegProofs
  Span SpanText SpanRows SpanProofs SpanRefine SpanScreen SpanTail TrigMono SpanScreenProofs RunWrite SpanRunProofs
  SpanTermProofs.
Import ListNotations.
Open Scope Z_scope.

(* the terminal without its callback log *)
Definition nolog (t : term) : term :=
  mkTerm (tmain t) (talt t) (onalt t) (vflags t) (vints t) (vstrs t) (kbm t) (kba t) (tout t) [].

Lemma app_log_nolog t : t = app_log (tlog t) (nolog t).
Proof. destruct t; reflexivity. Qed.
Lemma nolog_app_log l t : nolog (app_log l t) = nolog t.
Proof. reflexivity. Qed.
Lemma tlog_app_log' l t : tlog (app_log l t) = tlog t ++ l.
Proof. reflexivity. Qed.
Lemma tz_nolog a b : nolog a = nolog b -> tz a -> tz b.
Proof. intros E. destruct a, b. unfold nolog in E. cbn in E. injection E as -> -> _ _ _ _ _ _ _. exact (fun H => H). Qed.
Lemma TInv_nolog a b : nolog a = nolog b -> TInv a -> TInv b.
Proof.
  intros E [A B C D]. destruct a, b. unfold nolog in E. cbn in *. injection E as -> -> _ _ _ _ _ _ _.
  constructor; assumption.
Qed.
Lemma tz_app_log l t : tz (app_log l t) <-> tz t.
Proof. reflexivity. Qed.

Lemma tz_on_screen_active f t : tz (on_screen f t) -> trig (f (set_evs [] (active t))) = 0.
Proof.
  unfold tz, on_screen, active, set_active. destruct (onalt t); cbn [tmain talt]; rewrite trig_set_evs; tauto.
Qed.

Lemma nolog_meaning a b : nolog a = nolog b <->
  tmain a = tmain b /\ talt a = talt b /\ onalt a = onalt b /\ vflags a = vflags b /\ vints a = vints b /\
  vstrs a = vstrs b /\ kbm a = kbm b /\ kba a = kba b /\ tout a = tout b.
Proof.
  destruct a as [m1 a1 o1 f1 i1 s1 k1 q1 u1 l1], b as [m2 a2 o2 f2 i2 s2 k2 q2 u2 l2]. unfold nolog. cbn. split.
  - intros H. injection H. intros; subst. repeat split.
  - intros (-> & -> & -> & -> & -> & -> & -> & -> & ->). reflexivity.
Qed.

Lemma log_eq_enc_digest a b : log_eq a b -> Case.enc_digest a = Case.enc_digest b.
Proof. intros H. destruct (log_eq_digest a b H) as (A & B & C & D). unfold Case.enc_digest. rewrite A, B, C, D. reflexivity. Qed.

Section WithOracle.
  Variable wc : Z -> Z.
  Hypothesis Hmb : wc_multibyte wc.
  Notation abs := (abs_sscreen wc).
  Notation abst := (abs_sterm wc).
  Notation SInv := (SInv wc).
  Notation STInv := (STInv wc).
  Notation gcl := (gcl wc).

  (* span terminal and cell terminal agree on everything but the log, and the logs are [log_eq] *)
  Definition Rel (st : sterm) (t : term) : Prop := nolog (abst st) = nolog t /\ log_eq (slog st) (tlog t).

  Lemma Rel_refl st : Rel st (abst st).
  Proof. split; [reflexivity|apply le_refl]. Qed.

  Lemma rel_step (sf : sterm -> sterm) (f : term -> term) st t :
    LogFrame f ->
    (STInv st -> tz (f (abst st)) -> STInv (sf st) /\ Rel (sf st) (f (abst st))) ->
    STInv st -> Rel st t -> tz (f t) -> STInv (sf st) /\ Rel (sf st) (f t).
  Proof.
    intros Hf Hstep Hi [En Lg] Hz.
    pose proof (app_log_nolog t) as Et. pose proof (app_log_nolog (abst st)) as Es. rewrite En in Es.
    assert (F1 : f t = app_log (tlog t) (f (nolog t))) by (rewrite Et at 1; apply Hf).
    assert (F2 : f (abst st) = app_log (tlog (abst st)) (f (nolog t))) by (rewrite Es at 1; apply Hf).
    assert (Hz2 : tz (f (abst st))) by (rewrite F2; rewrite F1 in Hz; exact Hz).
    destruct (Hstep Hi Hz2) as (I1 & En1 & Lg1). split; [exact I1|]. split.
    - rewrite En1, F2, F1. reflexivity.
    - rewrite F1. rewrite F2 in Lg1. rewrite tlog_app_log' in *. eapply le_trans; [exact Lg1|].
      apply le_app; [apply le_refl|exact Lg].
  Qed.

  (* ---------- the cell terminal on the glyph tokens of a run ---------- *)
  Definition cell_run (gl : list glyph3) (t : term) : term := fold_left (fun t g => exec_tok (gtok wc g) t) gl t.
  Definition graw (g : glyph3) : bool := (grune g =? runeError) && negb (list_eqb Z.eqb (gtxt g) utf8_replacement).

  Lemma LogFrame_cell_run gl : LogFrame (cell_run gl).
  Proof.
    induction gl as [|g gl IH]; intros l t; [reflexivity|]. unfold cell_run in *. cbn [fold_left].
    rewrite (LogFrame_exec_tok (gtok wc g) l t). apply IH.
  Qed.
  Lemma tz_cell_run gl : forall t, tz (cell_run gl t) -> tz t.
  Proof.
    induction gl as [|g gl IH]; intros t H; [exact H|]. unfold cell_run in *. cbn [fold_left] in H.
    apply IH in H. apply tz_exec_tok in H. exact H.
  Qed.
  Lemma TInv_cell_run gl : forall t, TInv t -> TInv (cell_run gl t).
  Proof.
    induction gl as [|g gl IH]; intros t H; [exact H|]. unfold cell_run in *. cbn [fold_left]. apply IH, TInv_exec_tok, H.
  Qed.

  Lemma glyph_tok_raw g t : tz (exec_tok (gtok wc g) t) -> graw g = false.
  Proof.
    unfold gtok. cbn [exec_tok]. fold (graw g). destruct (graw g); [|reflexivity]. intros Hz. exfalso.
    apply tz_on_screen_active in Hz. apply write_glyph_mono in Hz. rewrite trig_add_trig in Hz.
    apply Z.lor_eq_0_iff in Hz. destruct Hz as [_ Hz]. discriminate.
  Qed.
  Lemma cell_run_raw gl : forall t, tz (cell_run gl t) -> Forall (fun g => graw g = false) gl.
  Proof.
    induction gl as [|g gl IH]; intros t H; [constructor|]. unfold cell_run in *. cbn [fold_left] in H.
    constructor; [|apply (IH _ H)]. apply tz_cell_run in H. apply (glyph_tok_raw g t H).
  Qed.

  Lemma decode_invalid_size inp r size : decode_rune inp = Some (r, size, false) -> r = runeError /\ size = 1.
  Proof.
    unfold decode_rune. destruct inp as [|b0 r0]; [discriminate|].
    destruct (utf8_first b0) as [[sz lo] hi].
    destruct (sz =? 1); [discriminate|]. destruct (sz =? 0); [intros H; injection H as <- <-; auto|].
    destruct r0 as [|b1 r1]; [discriminate|].
    destruct ((b1 <? lo) || (hi <? b1)); [intros H; injection H as <- <-; auto|].
    destruct (sz =? 2); [discriminate|]. destruct r1 as [|b2 r2]; [discriminate|].
    destruct ((b2 <? 128) || (191 <? b2)); [intros H; injection H as <- <-; auto|].
    destruct (sz =? 3); [discriminate|]. destruct r2 as [|b3 r3]; [discriminate|].
    destruct ((b3 <? 128) || (191 <? b3)); [intros H; injection H as <- <-; auto|discriminate].
  Qed.

  Lemma chain_valid gl rest : chain wc gl rest -> Forall (fun g => graw g = false) gl -> Forall (fun g => gval g = true) gl.
  Proof.
    induction 1 as [|c r v gl rest Hp Hd Hl Hch IH]; intros Hr; [constructor|].
    inversion Hr as [|? ? R1 R2]; subst. constructor; [|apply IH, R2].
    cbn [gval snd]. destruct v; [reflexivity|]. exfalso.
    destruct (decode_invalid_size _ _ _ Hd) as [-> Hs].
    unfold graw in R1. cbn [grune gtxt fst snd] in R1. rewrite Z.eqb_refl in R1. cbn [andb] in R1.
    apply negb_false_iff in R1. destruct c as [|c0 [|c1 cr]]; cbn in R1; try discriminate.
    - unfold zlen in Hs. cbn [length] in Hs. lia.
    - unfold zlen in Hs. cbn [length] in Hs. lia.
  Qed.

  (* ---------- widths: a mark-free glyph is no wider than the screen ---------- *)
  Lemma wg_trig0_width txt w s : Inv s -> 1 <= w -> trig (write_glyph txt w s) = 0 -> w <= sW s.
  Proof.
    intros Hs Hw Ht. unfold write_glyph in Ht. rewrite (inv_crash s Hs) in Ht. cbn [Z.eqb negb] in Ht.
    destruct (Z.ltb_spec w 1); [lia|]. destruct (Z.ltb_spec (sW s) w) as [Hlt|]; [|lia]. exfalso.
    set (sa := add_trig trWideOnNarrow s) in *.
    assert (Hsa : trig sa = 0).
    { revert Ht. repeat match goal with |- context [if ?c then _ else _] => destruct c end; intros Ht;
        repeat first [rewrite trig_move_cursor in Ht | rewrite trig_set_cur in Ht | apply write_row_cells_mono in Ht]; exact Ht. }
    unfold sa in Hsa. rewrite trig_add_trig in Hsa. apply Z.lor_eq_0_iff in Hsa. destruct Hsa as [_ Hsa]. discriminate.
  Qed.
  Lemma fold_wg_widths cls : forall s, Inv s -> Forall (fun p : list Z * Z => 1 <= snd p) cls ->
    trig (fold_left wg cls s) = 0 -> Forall (fun p : list Z * Z => snd p <= sW s) cls.
  Proof.
    induction cls as [|p cls IH]; intros s Hs Hpos Ht; [constructor|]. inversion Hpos as [|? ? P1 P2]; subst.
    cbn [fold_left] in Ht. pose proof (fold_wg_mono cls _ Ht) as Ht1.
    destruct (Pres_write_glyph (fst p) (snd p) s Hs) as (I1 & W1 & _).
    constructor; [apply (wg_trig0_width (fst p)); assumption|].
    specialize (IH (wg s p) I1 P2 Ht). unfold wg at 1 in IH. rewrite W1 in IH. exact IH.
  Qed.

  (* ---------- the glyph tokens of a run are one screen operation ---------- *)
  Lemma gtok_on_screen g t : graw g = false ->
    exec_tok (gtok wc g) t = on_screen (fun s => wg s (gcluster wc g)) t.
  Proof. intros Hr. unfold gtok. cbn [exec_tok]. fold (graw g). rewrite Hr. reflexivity. Qed.

  Lemma cell_run_on_screen gl : gl <> [] -> Forall (fun g => graw g = false) gl -> forall t,
    cell_run gl t = on_screen (fun s => fold_left wg (map (gcluster wc) gl) s) t.
  Proof.
    induction gl as [|g gl IH]; intros Hne Hr t; [congruence|]. inversion Hr as [|? ? R1 R2]; subst.
    unfold cell_run in *. cbn [fold_left map]. rewrite (gtok_on_screen g t R1).
    destruct gl as [|g' gl'] eqn:Eg; [reflexivity|]. rewrite <- Eg in *.
    rewrite IH by (subst gl; try discriminate; assumption).
    rewrite on_screen_comp by apply EvFrame_fold_wg. reflexivity.
  Qed.

  Lemma gbytes_len gl rest : chain wc gl rest -> gl <> [] -> 1 <= zlen (gbytes gl).
  Proof.
    intros Hch Hne. destruct Hch as [|c r v gl rest _ _ Hl _]; [congruence|].
    cbn [gbytes flat_map gtxt fst]. rewrite zlen_app. pose proof (zlen_nonneg (flat_map gtxt gl)). lia.
  Qed.

  (* ---------- a run of text: writeString on the span side, glyph tokens on the cell side ---------- *)
  Theorem run_sim gl rest st : STInv st -> chain wc gl rest -> gl <> [] -> tz (cell_run gl (abst st)) ->
    let st' := s_exec_run wc (gbytes gl) (cls_width (map (gcluster wc) gl)) st in
    STInv st' /\ Rel st' (cell_run gl (abst st)).
  Proof.
    intros Hi Hch Hne Hz. cbv zeta.
    pose proof (cell_run_raw gl _ Hz) as Hraw. pose proof (chain_valid gl rest Hch Hraw) as Hval.
    pose proof (chain_good wc gl rest Hch Hval) as Hgood. set (cls := map (gcluster wc) gl) in *.
    assert (Hcne : cls <> []) by (subst cls; destruct gl; [congruence|discriminate]).
    rewrite (cell_run_on_screen gl Hne Hraw) in Hz |- *. fold cls in Hz |- *.
    pose proof (tz_on_screen_active _ _ Hz) as Ht0. rewrite (abs_active wc) in Ht0.
    destruct Hi as (Im & Ia & EW & EH).
    set (s0 := z_set_evs [] (s_active st)) in *.
    change (set_evs [] (abs (s_active st))) with (abs s0) in Ht0.
    assert (I0 : SInv s0) by (apply (SInv_set_evs wc); unfold s_active; destruct (sonalt st); assumption).
    pose proof (fold_wg_widths cls (abs s0) (proj1 I0) (widths_pos wc cls Hgood) Ht0) as HwW. cbn [sW abs_sscreen] in HwW.
    destruct (s_write_string_glyphs wc Hmb cls s0 I0 Hgood Hcne HwW Ht0) as (I1 & Eq1 & Lg1). cbv zeta in I1, Eq1, Lg1.
    change (bytes cls) with (bytes (map (gcluster wc) gl)) in I1, Eq1, Lg1. rewrite (bytes_gcluster wc gl) in I1, Eq1, Lg1.
    set (s1 := s_write_string wc (gbytes gl) (cls_width cls) s0) in *.
    destruct (fold_wg_good cls (abs s0) (proj1 I0)) as (_ & Wc & Hc).
    assert (W1 : zW s1 = zW s0 /\ zH s1 = zH s0).
    { change (zW s1) with (sW (set_evs [] (abs s1))). change (zH s1) with (sH (set_evs [] (abs s1))). rewrite Eq1.
      cbn [sW sH set_evs]. rewrite Wc, Hc. split; reflexivity. }
    destruct W1 as (W1 & H1).
    unfold s_exec_run, s_on_screen, on_screen, Rel.
    unfold s_active, s_set_active, active, set_active in *. cbn [onalt tmain talt tlog abs_sterm] in *.
    destruct (sonalt st) eqn:Eo; cbn [smain salt sonalt svflags svints svstrs skbm skba sout slog tmain talt tlog].
    - fold s0 s1. split; [|split].
      + split; [exact Im|]. split; [apply (SInv_set_evs wc), I1|]. cbn [smain salt].
        change (zW (z_set_evs [] s1)) with (zW s1). change (zH (z_set_evs [] s1)) with (zH s1).
        change (zW s0) with (zW (salt st)) in W1. change (zH s0) with (zH (salt st)) in H1. split; congruence.
      + unfold nolog, abs_sterm. cbn [smain salt sonalt svflags svints svstrs skbm skba sout slog tmain talt onalt vflags vints vstrs kbm kba tout].
        change (abs (z_set_evs [] s1)) with (set_evs [] (abs s1)). rewrite Eq1. reflexivity.
      + apply le_app; [exact Lg1|apply le_refl].
    - fold s0 s1. split; [|split].
      + split; [apply (SInv_set_evs wc), I1|]. split; [exact Ia|]. cbn [smain salt].
        change (zW (z_set_evs [] s1)) with (zW s1). change (zH (z_set_evs [] s1)) with (zH s1).
        change (zW s0) with (zW (smain st)) in W1. change (zH s0) with (zH (smain st)) in H1. split; congruence.
      + unfold nolog, abs_sterm. cbn [smain salt sonalt svflags svints svstrs skbm skba sout slog tmain talt onalt vflags vints vstrs kbm kba tout].
        change (abs (z_set_evs [] s1)) with (set_evs [] (abs s1)). rewrite Eq1. reflexivity.
      + apply le_app; [exact Lg1|apply le_refl].
  Qed.

  (* ---------- the byte loop ---------- *)
  Lemma run_pending_chain gl rest : chain wc gl rest -> forall fuel t, TInv t -> (length gl <= fuel)%nat ->
    run_pending wc false fuel t (gbytes gl ++ rest) = run_pending wc false (fuel - length gl) (cell_run gl t) rest.
  Proof.
    induction 1 as [|c r v gl rest Hp Hd Hl Hch IH]; intros fuel t Ht Hf.
    - cbn [gbytes flat_map app length cell_run fold_left]. rewrite Nat.sub_0_r. reflexivity.
    - cbn [length] in Hf. destruct fuel as [|f]; [lia|].
      cbn [gbytes flat_map gtxt fst]. fold (gbytes gl). rewrite <- app_assoc. cbn [run_pending].
      rewrite (TInv_not_crashed t Ht). rewrite Hp.
      rewrite IH by (try apply TInv_exec_tok; try assumption; lia). cbn [length Nat.sub]. reflexivity.
  Qed.

  Lemma parse_csi_not_glyph inp k rest : parse_csi inp = PTok k rest -> is_glyph k = false.
  Proof.
    unfold parse_csi. destruct inp as [|b tl]; [discriminate|].
    destruct (if is_private b then (b, tl) else (0, b :: tl)) as [prefix body].
    destruct (scan_params body [] 0 false false) as [[[params fb] rest']|]; [|discriminate].
    destruct (_ || _).
    - destruct (skip_to_final rest'); [|discriminate]. intros H; injection H as <- _. reflexivity.
    - intros H; injection H as <- _. reflexivity.
  Qed.
  Lemma parse_osc_not_glyph inp k rest : parse_osc inp = PTok k rest -> is_glyph k = false.
  Proof.
    unfold parse_osc. destruct (scan_digits inp 0) as [[[num b] r]|]; [|discriminate].
    destruct (b =? 59).
    - destruct (scan_osc_payload r []) as [[payload r']|]; [|discriminate]. intros H; injection H as <- _. reflexivity.
    - destruct (_ || _); [intros H; injection H as <- _; reflexivity|].
      destruct (scan_str r b); [|discriminate]. intros H; injection H as <- _. reflexivity.
  Qed.
  Lemma parse_esc_not_glyph inp k rest : parse_esc inp = PTok k rest -> is_glyph k = false.
  Proof.
    unfold parse_esc. destruct inp as [|b tl]; [discriminate|].
    destruct (b =? 91); [apply parse_csi_not_glyph|]. destruct (b =? 93); [apply parse_osc_not_glyph|].
    destruct (b =? 80). { destruct (scan_dcs tl 0); [|discriminate]. intros H; injection H as <- _. reflexivity. }
    destruct (_ || _). { destruct tl; [discriminate|]. intros H; injection H as <- _. reflexivity. }
    destruct (_ && _). { destruct (skip_intermediates tl); [|discriminate]. intros H; injection H as <- _. reflexivity. }
    intros H; injection H as <- _. reflexivity.
  Qed.
  Lemma parse_nonprintable b tl k rest : is_printable b = false ->
    parse_one wc false (b :: tl) = PTok k rest -> is_glyph k = false.
  Proof.
    intros Hp. unfold parse_one. rewrite Hp. destruct (b =? 27); [apply parse_esc_not_glyph|].
    intros H; injection H as <- _. reflexivity.
  Qed.

  Lemma STInv_not_crashed st : STInv st -> s_crashed st = false.
  Proof.
    intros (A & B & _). unfold s_crashed. pose proof (inv_crash _ (proj1 A)) as C1. pose proof (inv_crash _ (proj1 B)) as C2.
    cbn [crash abs_sscreen] in C1, C2. rewrite C1, C2. reflexivity.
  Qed.
  Lemma Rel_TInv st t : STInv st -> Rel st t -> TInv t.
  Proof. intros Hi [En _]. apply (TInv_nolog (abst st)); [exact En|apply (STInv_TInv wc), Hi]. Qed.

  Lemma run_pending_more f t inp : crashed t = false -> parse_one wc false inp = PMore ->
    run_pending wc false (S f) t inp = (t, inp).
  Proof. intros Hc Hp. cbn [run_pending]. rewrite Hc, Hp. reflexivity. Qed.
  Lemma run_pending_tok f t inp k rest : crashed t = false -> parse_one wc false inp = PTok k rest ->
    run_pending wc false (S f) t inp = run_pending wc false f (exec_tok k t) rest.
  Proof. intros Hc Hp. cbn [run_pending]. rewrite Hc, Hp. reflexivity. Qed.

  Theorem s_run_pending_sim : forall fuel mw st t inp,
    (length inp < fuel)%nat -> STInv st -> Rel st t ->
    tz (fst (run_pending wc false fuel t inp)) ->
    let r := s_run_pending wc fuel mw st inp in
    let c := run_pending wc false fuel t inp in
    STInv (fst (fst r)) /\ Rel (fst (fst r)) (fst c) /\ snd (fst r) = snd c.
  Proof.
    induction fuel as [|f IH]; intros mw st t inp Hf Hi Hr Hz; [lia|]. cbv zeta.
    pose proof (Rel_TInv st t Hi Hr) as Ht. pose proof (TInv_not_crashed t Ht) as Hc.
    cbn [s_run_pending]. rewrite (STInv_not_crashed st Hi).
    set (m := match mw with Some m => m | None => max_width (s_active st) end).
    destruct inp as [|b tl].
    { rewrite (run_pending_more f t [] Hc eq_refl). cbn [fst snd]. auto. }
    destruct (is_printable b) eqn:Ep.
    - (* printable text: a run *)
      unfold read_run.
      destruct (rr_loop_spec wc (length (b :: tl)) (b :: tl) 0 0 m ltac:(lia)) as (gl & rest & E & Hch & Err & Hblock).
      rewrite Err. rewrite !Z.add_0_l.
      destruct gl as [|g0 gl0] eqn:Eg.
      + cbn [gbytes flat_map zlen length Z.of_nat]. destruct (Z.leb_spec 0 0); [|lia].
        rewrite (run_pending_more f t (b :: tl) Hc (Hblock eq_refl eq_refl b tl eq_refl Ep)). cbn [fst snd]. auto.
      + rewrite <- Eg in *. assert (Hne : gl <> []) by (subst gl; discriminate). clear Eg.
        pose proof (gbytes_len gl rest Hch Hne) as Hl. destruct (Z.leb_spec (zlen (gbytes gl)) 0); [lia|].
        rewrite E in Hz |- *. rewrite zfirstn_app_len, zskipn_app_len.
        assert (Hlen : (length gl <= length (gbytes gl))%nat).
        { clear -Hch. induction Hch as [|c r v gl rest _ _ Hl _ IH]; [cbn; lia|].
          cbn [gbytes flat_map gtxt fst length]. fold (gbytes gl). rewrite app_length. unfold zlen in Hl. lia. }
        assert (Hrest : (length rest + length (gbytes gl) = length (b :: tl))%nat) by (rewrite E, app_length; lia).
        (* the cell side consumes the glyph tokens one by one *)
        assert (Ec : run_pending wc false (S f) t (gbytes gl ++ rest) = run_pending wc false f (cell_run gl t) rest).
        { rewrite (run_pending_chain gl rest Hch (S f) t Ht ltac:(unfold zlen in Hl; lia)).
          apply run_pending_fuel_indep; unfold zlen in Hl; lia. }
        rewrite Ec in Hz |- *.
        pose proof (tz_run_pending wc false f _ _ Hz) as Hz1.
        destruct (rel_step (s_exec_run wc (gbytes gl) (cls_width (map (gcluster wc) gl))) (cell_run gl) st t
                    (LogFrame_cell_run gl) (fun I Z => run_sim gl rest st I Hch Hne Z) Hi Hr Hz1) as (I1 & R1).
        apply IH; auto. unfold zlen in Hl. lia.
    - (* a control function *)
      destruct (parse_one wc false (b :: tl)) as [|k rest] eqn:Ek.
      { rewrite (run_pending_more f t (b :: tl) Hc Ek). cbn [fst snd]. auto. }
      rewrite (run_pending_tok f t (b :: tl) k rest Hc Ek) in Hz |- *.
      pose proof (parse_nonprintable b tl k rest Ep Ek) as Hk.
      pose proof (parse_one_suffix wc false _ _ _ Ek) as Hs. apply ss_length in Hs.
      pose proof (tz_run_pending wc false f _ _ Hz) as Hz1.
      assert (Hstep : STInv st -> tz (exec_tok k (abst st)) -> STInv (s_exec_tok wc k st) /\ Rel (s_exec_tok wc k st) (exec_tok k (abst st))).
      { intros I Z. destruct (TokSim_exec_tok wc Hmb k Hk st I Z) as (A & B). split; [exact A|]. rewrite <- B. apply Rel_refl. }
      destruct (rel_step (s_exec_tok wc k) (exec_tok k) st t (LogFrame_exec_tok k) Hstep Hi Hr Hz1) as (I1 & R1).
      apply IH; auto. lia.
  Qed.

  (* ---------- Resize ---------- *)
  Lemma resize_sim w h st : STInv st -> 1 <= w -> 1 <= h ->
    STInv (s_resize wc w h st) /\ abst (s_resize wc w h st) = resize w h (abst st).
  Proof.
    intros (Im & Ia & _ & _) Hw Hh.
    destruct (Sim_set_size wc Hmb w h (z_set_evs [] (smain st)) (SInv_set_evs wc [] _ Im) Hw Hh) as (I1 & E1).
    destruct (Sim_set_size wc Hmb w h (z_set_evs [] (salt st)) (SInv_set_evs wc [] _ Ia) Hw Hh) as (I2 & E2).
    change (abs (z_set_evs [] (smain st))) with (set_evs [] (abs (smain st))) in E1.
    change (abs (z_set_evs [] (salt st))) with (set_evs [] (abs (salt st))) in E2.
    destruct (set_size_ok w h _ (proj1 (Inv_set_evs [] _) (proj1 Im)) Hw Hh) as (_ & W1 & H1).
    destruct (set_size_ok w h _ (proj1 (Inv_set_evs [] _) (proj1 Ia)) Hw Hh) as (_ & W2 & H2).
    rewrite <- E1 in W1, H1. rewrite <- E2 in W2, H2. cbn [sW sH abs_sscreen] in W1, H1, W2, H2.
    set (m := s_set_size wc w h (z_set_evs [] (smain st))) in *. set (a := s_set_size wc w h (z_set_evs [] (salt st))) in *.
    split.
    - unfold s_resize. fold m a. unfold s_log_ev. cbn [smain salt].
      split; [apply (SInv_set_evs wc), I1|]. split; [apply (SInv_set_evs wc), I2|].
      cbn [smain salt]. change (zW (z_set_evs [] m)) with (zW m). change (zW (z_set_evs [] a)) with (zW a).
      change (zH (z_set_evs [] m)) with (zH m). change (zH (z_set_evs [] a)) with (zH a). split; congruence.
    - unfold s_resize, resize. fold m a. cbn [tmain talt onalt vflags vints vstrs kbm kba tout tlog abs_sterm].
      rewrite <- E1, <- E2. unfold s_active, active, s_log_ev, log_ev, abs_sterm.
      cbn [smain salt sonalt svflags svints svstrs skbm skba sout slog tmain talt onalt vflags vints vstrs kbm kba tout tlog].
      destruct (sonalt st); reflexivity.
  Qed.

  Lemma resize_rel w h st t : STInv st -> Rel st t -> 1 <= w -> 1 <= h -> tz (resize w h t) ->
    STInv (s_resize wc w h st) /\ Rel (s_resize wc w h st) (resize w h t).
  Proof.
    intros Hi Hr Hw Hh Hz.
    apply (rel_step (s_resize wc w h) (resize w h) st t (LogFrame_resize w h)); auto.
    intros I _. destruct (resize_sim w h st I Hw Hh) as (A & B). split; [exact A|]. rewrite <- B. apply Rel_refl.
  Qed.

  (* ---------- histories ---------- *)
  Theorem span_hist_sim ops : forall mw st t pend, hist_ok ops -> STInv st -> Rel st t ->
    tz (fst (fold_left (hstep wc false) ops (t, pend))) ->
    let r := fold_left (s_hstep wc) ops (st, pend, mw) in
    let c := fold_left (hstep wc false) ops (t, pend) in
    STInv (fst (fst r)) /\ Rel (fst (fst r)) (fst c) /\ snd (fst r) = snd c.
  Proof.
    induction ops as [|o ops IH]; intros mw st t pend Hok Hi Hr Hz; cbv zeta; cbn [fold_left] in *; [cbn [fst snd]; auto|].
    inversion Hok as [|? ? Ho Hok']; subst.
    pose proof (tz_fold wc false ops _ Hz) as Hz1.
    destruct o as [bs|w h]; cbn [s_hstep hstep fst snd] in *.
    - unfold s_run_bytes, run_bytes in *.
      destruct (s_run_pending_sim (S (length (pend ++ bs))) mw st t (pend ++ bs) ltac:(lia) Hi Hr Hz1) as (I1 & R1 & P1).
      cbv zeta in I1, R1, P1.
      destruct (s_run_pending wc (S (length (pend ++ bs))) mw st (pend ++ bs)) as [[st1 pend1] mw1].
      destruct (run_pending wc false (S (length (pend ++ bs))) t (pend ++ bs)) as [t1 pend1'].
      cbn [fst snd] in *. subst pend1'. apply IH; auto.
    - rewrite (STInv_not_crashed st Hi). rewrite (TInv_not_crashed t (Rel_TInv st t Hi Hr)) in *. cbn [fst snd] in *.
      destruct Ho as [Hw Hh]. destruct (resize_rel w h st t Hi Hr Hw Hh Hz1) as (I1 & R1).
      apply IH; auto.
  Qed.

  Lemma abs_init_term w h : abst (s_init_term w h) = init_term w h.
  Proof.
    unfold s_init_term, init_term, abs_sterm, s_init_screen, init_screen, abs_sscreen.
    cbn [smain salt sonalt svflags svints svstrs skbm skba sout slog zlines zW zH zcx zcy zsvx zsvy ztop zbot zawrap zsty zcrash ztrig zevs].
    rewrite map_zrepeat, (abs_blank_line wc). reflexivity.
  Qed.
  Lemma STInv_init w h : 1 <= w -> 1 <= h -> STInv (s_init_term w h).
  Proof.
    intros Hw Hh. pose proof (TInv_init w h Hw Hh) as [A B _ _]. rewrite <- abs_init_term in A, B.
    cbn [tmain talt abs_sterm] in A, B.
    assert (L : LinesOk wc (s_init_screen w h)).
    { unfold LinesOk, s_init_screen. cbn [zlines zW]. apply Forall_zrepeat, (line_ok_blank wc). exact Hw. }
    split; [split; [exact A|exact L]|]. split; [split; [exact B|exact L]|]. split; reflexivity.
  Qed.

  (* THE HISTORY THEOREM: for every history of reads and resizes on which the cell model fires no
     known-finding mark, the span terminal (runs, writeString, span rows) and the cell terminal
     (glyph at a time, cells) agree on both buffers (cells, size, cursor, saved cursor, margins,
     autowrap, rendition, crash flag), the active-buffer flag, all mode registers and strings, both
     keyboard stacks, the reply bytes and the pending input; their callback logs are equal up to
     coalescing of adjacent text-region announcements ([log_eq]). *)
  Theorem span_simulates_cells_from mw w h ops : 1 <= w -> 1 <= h -> hist_ok ops ->
    tz (fst (run_hist wc false (init_term w h) ops)) ->
    let r := s_run_hist_from wc mw (s_init_term w h) ops in
    let c := run_hist wc false (init_term w h) ops in
    nolog (abst (fst (fst r))) = nolog (fst c) /\ log_eq (slog (fst (fst r))) (tlog (fst c)) /\ snd (fst r) = snd c.
  Proof.
    intros Hw Hh Hok Hz. cbv zeta. unfold s_run_hist_from, run_hist in *.
    pose proof (Rel_refl (s_init_term w h)) as R0. rewrite abs_init_term in R0.
    destruct (span_hist_sim ops mw (s_init_term w h) (init_term w h) [] Hok (STInv_init w h Hw Hh) R0 Hz) as (_ & (A & B) & C).
    auto.
  Qed.
End WithOracle.
