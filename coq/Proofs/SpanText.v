(* Text-level lemmas for the span model (Model/Span.v): UTF-8 stability, the
   loops over a text on a sequence of good clusters, and the specification of
   split_span in terms of glyph lists. *)
From Coq Require Import List ZArith Bool Lia.
From Termemu Require Import Base Style Screen Parser BaseLemmas ScreenInv Span.
Import ListNotations.
Open Scope Z_scope.

(* ---------- Z-indexed list helpers ---------- *)
Lemma zfirstn_app_len {A} (a b : list A) : zfirstn (zlen a) (a ++ b) = a.
Proof.
  unfold zfirstn, zlen. rewrite Nat2Z.id. rewrite firstn_app, Nat.sub_diag, firstn_all. cbn. apply app_nil_r.
Qed.
Lemma zskipn_app_len {A} (a b : list A) : zskipn (zlen a) (a ++ b) = b.
Proof.
  unfold zskipn, zlen. rewrite Nat2Z.id. rewrite skipn_app, Nat.sub_diag, skipn_all. reflexivity.
Qed.
Lemma zfirstn_app_add {A} (a b : list A) k : 0 <= k -> zfirstn (zlen a + k) (a ++ b) = a ++ zfirstn k b.
Proof.
  intros H. unfold zfirstn, zlen. rewrite Z2Nat.inj_add by lia. rewrite Nat2Z.id.
  rewrite firstn_app. rewrite firstn_all2 by lia. f_equal. f_equal. lia.
Qed.
Lemma zskipn_app_add {A} (a b : list A) k : 0 <= k -> zskipn (zlen a + k) (a ++ b) = zskipn k b.
Proof.
  intros H. unfold zskipn, zlen. rewrite Z2Nat.inj_add by lia. rewrite Nat2Z.id.
  rewrite skipn_app. rewrite skipn_all2 by lia. cbn [app]. f_equal. lia.
Qed.
Lemma zfirstn_zskipn {A} n (l : list A) : zfirstn n l ++ zskipn n l = l.
Proof. apply firstn_skipn. Qed.
Lemma zfirstn_0 {A} (l : list A) : zfirstn 0 l = [].
Proof. reflexivity. Qed.
Lemma zskipn_0 {A} (l : list A) : zskipn 0 l = l.
Proof. reflexivity. Qed.
Lemma zfirstn_all {A} n (l : list A) : zlen l <= n -> zfirstn n l = l.
Proof. intros H. unfold zfirstn. apply firstn_all2. unfold zlen in H. lia. Qed.
Lemma zskipn_all {A} n (l : list A) : zlen l <= n -> zskipn n l = [].
Proof. intros H. unfold zskipn. apply skipn_all2. unfold zlen in H. lia. Qed.
Lemma zfirstn_neg {A} n (l : list A) : n <= 0 -> zfirstn n l = [].
Proof. intros H. unfold zfirstn. replace (Z.to_nat n) with O by lia. reflexivity. Qed.
Lemma zskipn_neg {A} n (l : list A) : n <= 0 -> zskipn n l = l.
Proof. intros H. unfold zskipn. replace (Z.to_nat n) with O by lia. reflexivity. Qed.
Lemma znth_app_len {A} (a b : list A) x d : znth (zlen a) (a ++ x :: b) d = x.
Proof.
  rewrite znth_app_r by lia. rewrite Z.sub_diag. reflexivity.
Qed.
Lemma zrepeat_app {A} (a : A) n m : 0 <= n -> 0 <= m -> zrepeat a (n + m) = zrepeat a n ++ zrepeat a m.
Proof. intros Hn Hm. unfold zrepeat. rewrite Z2Nat.inj_add by lia. apply repeat_app. Qed.
Lemma zrepeat_0 {A} (a : A) n : n <= 0 -> zrepeat a n = [].
Proof. intros H. unfold zrepeat. replace (Z.to_nat n) with O by lia. reflexivity. Qed.
Lemma zrepeat_S {A} (a : A) n : 0 <= n -> zrepeat a (1 + n) = a :: zrepeat a n.
Proof. intros H. unfold zrepeat. replace (Z.to_nat (1 + n)) with (S (Z.to_nat n)) by lia. reflexivity. Qed.
Lemma map_zrepeat {A B} (f : A -> B) a n : map f (zrepeat a n) = zrepeat (f a) n.
Proof. unfold zrepeat. induction (Z.to_nat n); cbn; congruence. Qed.
Lemma firstn_repeat_ {A} (a : A) k n : (k <= n)%nat -> firstn k (repeat a n) = repeat a k.
Proof. revert n. induction k as [|k IH]; intros n H; [reflexivity|]. destruct n; [lia|]. cbn. f_equal. apply IH. lia. Qed.
Lemma skipn_repeat_ {A} (a : A) k n : (k <= n)%nat -> skipn k (repeat a n) = repeat a (n - k).
Proof. revert n. induction k as [|k IH]; intros n H; [rewrite Nat.sub_0_r; reflexivity|]. destruct n; [lia|]. cbn. apply IH. lia. Qed.
Lemma zfirstn_zrepeat {A} (a : A) k n : 0 <= k <= n -> zfirstn k (zrepeat a n) = zrepeat a k.
Proof. intros H. unfold zfirstn, zrepeat. apply firstn_repeat_. lia. Qed.
Lemma zskipn_zrepeat {A} (a : A) k n : 0 <= k <= n -> zskipn k (zrepeat a n) = zrepeat a (n - k).
Proof.
  intros H. unfold zskipn, zrepeat. rewrite skipn_repeat_ by lia. f_equal. lia.
Qed.

(* ---------- weighted sums and where an offset falls ---------- *)
Lemma spans_width_app a b : spans_width (a ++ b) = spans_width a + spans_width b.
Proof. induction a as [|s a IH]; cbn [spans_width app]; lia. Qed.
Lemma cls_width_app a b : cls_width (a ++ b) = cls_width a + cls_width b.
Proof. induction a as [|[c w] a IH]; cbn [cls_width app]; lia. Qed.

Section Weights.
  Context {A : Type} (f : A -> Z).
  Fixpoint wsum (l : list A) : Z := match l with [] => 0 | a :: r => f a + wsum r end.
  Lemma wsum_app a b : wsum (a ++ b) = wsum a + wsum b.
  Proof. induction a as [|s a IH]; cbn [wsum app]; lia. Qed.
  Lemma wsum_nonneg l : Forall (fun a => 1 <= f a) l -> 0 <= wsum l.
  Proof. induction 1; cbn [wsum]; lia. Qed.
  Lemma wsum_split l : Forall (fun a => 1 <= f a) l -> forall off, 0 <= off <= wsum l ->
    (exists l1 l2, l = l1 ++ l2 /\ wsum l1 = off) \/
    (exists l1 a l2, l = l1 ++ a :: l2 /\ wsum l1 < off < wsum l1 + f a).
  Proof.
    induction 1 as [|a l Ha Hl IH]; intros off Ho; cbn [wsum] in Ho.
    - left. exists [], []. split; [reflexivity|cbn; lia].
    - destruct (Z.eq_dec off 0) as [->|Hne].
      { left. exists [], (a :: l). split; reflexivity. }
      destruct (Z_lt_ge_dec off (f a)) as [Hlt|Hge].
      { right. exists [], a, l. split; [reflexivity|cbn [wsum]; lia]. }
      destruct (IH (off - f a) ltac:(lia)) as [(l1 & l2 & -> & Hw)|(l1 & b & l2 & -> & Hw)].
      + left. exists (a :: l1), l2. split; [reflexivity|cbn [wsum]; lia].
      + right. exists (a :: l1), b, l2. split; [reflexivity|cbn [wsum]; lia].
  Qed.
End Weights.

Lemma spans_width_wsum l : spans_width l = wsum sp_width l.
Proof. induction l as [|s l IH]; cbn; lia. Qed.
Lemma cls_width_wsum l : cls_width l = wsum snd l.
Proof. induction l as [|[c w] l IH]; cbn; lia. Qed.

(* ---------- UTF-8: a valid encoding decodes the same with anything after it ---------- *)
Lemma decode_size inp r size v : decode_rune inp = Some (r, size, v) -> 1 <= size <= zlen inp.
Proof.
  unfold decode_rune. destruct inp as [|b0 r0]; [discriminate|].
  destruct (utf8_first b0) as [[sz lo] hi].
  destruct (sz =? 1); [intros H; inversion H; subst; rewrite zlen_cons; pose proof (zlen_nonneg r0); lia|].
  destruct (sz =? 0); [intros H; inversion H; subst; rewrite zlen_cons; pose proof (zlen_nonneg r0); lia|].
  destruct r0 as [|b1 r1]; [discriminate|].
  destruct ((b1 <? lo) || (hi <? b1)); [intros H; inversion H; subst; rewrite !zlen_cons; pose proof (zlen_nonneg r1); lia|].
  destruct (sz =? 2); [intros H; inversion H; subst; rewrite !zlen_cons; pose proof (zlen_nonneg r1); lia|].
  destruct r1 as [|b2 r2]; [discriminate|].
  destruct ((b2 <? 128) || (191 <? b2)); [intros H; inversion H; subst; rewrite !zlen_cons; pose proof (zlen_nonneg r2); lia|].
  destruct (sz =? 3); [intros H; inversion H; subst; rewrite !zlen_cons; pose proof (zlen_nonneg r2); lia|].
  destruct r2 as [|b3 r3]; [discriminate|].
  destruct ((b3 <? 128) || (191 <? b3)); intros H; inversion H; subst; rewrite !zlen_cons; pose proof (zlen_nonneg r3); lia.
Qed.

Lemma decode_valid_app c r rest :
  decode_rune c = Some (r, zlen c, true) -> decode_rune (c ++ rest) = Some (r, zlen c, true).
Proof.
  unfold decode_rune. destruct c as [|b0 r0]; [discriminate|]. cbn [app].
  destruct (utf8_first b0) as [[sz lo] hi].
  destruct (sz =? 1). { intros H; exact H. }
  destruct (sz =? 0). { intros H; discriminate. }
  destruct r0 as [|b1 r1]; [discriminate|]. cbn [app].
  destruct ((b1 <? lo) || (hi <? b1)). { intros H; discriminate. }
  destruct (sz =? 2). { intros H; exact H. }
  destruct r1 as [|b2 r2]; [discriminate|]. cbn [app].
  destruct ((b2 <? 128) || (191 <? b2)). { intros H; discriminate. }
  destruct (sz =? 3). { intros H; exact H. }
  destruct r2 as [|b3 r3]; [discriminate|]. cbn [app].
  destruct ((b3 <? 128) || (191 <? b3)); intros H; [discriminate|exact H].
Qed.

Section WithOracle.
  Variable wc : Z -> Z.
  Notation step_cluster := (step_cluster wc).
  Notation cluster_width := (cluster_width wc).

  Lemma cluster_width_pos r : 1 <= cluster_width r.
  Proof. unfold Span.cluster_width. destruct (Z.leb_spec (wc r) 0); lia. Qed.

  (* a good cluster: the encoding of a scalar value, with its oracle width *)
  Definition gcl (p : list Z * Z) : Prop :=
    exists r, decode_rune (fst p) = Some (r, zlen (fst p), true) /\ snd p = cluster_width r.
  Definition bytes (cls : list (list Z * Z)) : list Z := flat_map fst cls.

  Lemma bytes_app a b : bytes (a ++ b) = bytes a ++ bytes b.
  Proof. unfold bytes. apply flat_map_app. Qed.

  Lemma gcl_step c w rest : gcl (c, w) -> step_cluster (c ++ rest) = Some (c, zlen c, w).
  Proof.
    intros (r & Hd & Hw). cbn [fst snd] in *. unfold Span.step_cluster.
    rewrite (decode_valid_app _ _ rest Hd). rewrite zfirstn_app_len. subst w. reflexivity.
  Qed.
  Lemma gcl_pos c w : gcl (c, w) -> 1 <= w /\ 1 <= zlen c.
  Proof.
    intros (r & Hd & Hw). cbn [fst snd] in *. split; [subst w; apply cluster_width_pos|].
    apply decode_size in Hd. lia.
  Qed.
  Lemma gcl_nonnil c w : gcl (c, w) -> exists b c', c = b :: c'.
  Proof. intros H. apply gcl_pos in H. destruct c as [|b c']; [cbn in H; lia|eauto]. Qed.

  Lemma gcl_widths cls : Forall gcl cls -> Forall (fun p : list Z * Z => 1 <= snd p) cls.
  Proof. intros H. eapply Forall_impl; [|exact H]. intros [c w] Hg. apply gcl_pos in Hg. cbn. lia. Qed.

  Lemma zlen_bytes_cons c w cls : zlen (bytes ((c, w) :: cls)) = zlen c + zlen (bytes cls).
  Proof. unfold bytes. cbn [flat_map fst]. apply zlen_app. Qed.

  Lemma length_bytes_cons c (w : Z) cls : length (bytes ((c, w) :: cls)) = (length c + length (bytes cls))%nat.
  Proof. unfold bytes. cbn [flat_map fst]. apply app_length. Qed.

  (* ---- the loops over a text, on a sequence of good clusters ---- *)
  Lemma segs_good cls : Forall gcl cls -> forall fuel, (length (bytes cls) <= fuel)%nat ->
    segs wc fuel (bytes cls) = Some cls.
  Proof.
    induction 1 as [|[c w] cls Hc Hcls IH]; intros fuel Hf.
    - destruct fuel; reflexivity.
    - destruct (gcl_nonnil _ _ Hc) as (b & c' & Ec). rewrite length_bytes_cons in Hf.
      destruct fuel as [|f]; [subst c; cbn in Hf; lia|].
      change (bytes ((c, w) :: cls)) with (c ++ bytes cls). cbn [segs].
      destruct (c ++ bytes cls) as [|z zs] eqn:E; [subst c; discriminate|]. rewrite <- E.
      rewrite (gcl_step _ _ _ Hc). rewrite zskipn_app_len. rewrite IH; [reflexivity|].
      subst c; cbn in Hf; lia.
  Qed.

  Lemma clusters_good cls : Forall gcl cls -> clusters wc (bytes cls) = Some cls.
  Proof. intros H. apply segs_good; [exact H|lia]. Qed.

  Ltac unroll c w cls :=
    change (bytes ((c, w) :: cls)) with (c ++ bytes cls);
    let z := fresh "z" in let zs := fresh "zs" in let E := fresh "E" in
    destruct (c ++ bytes cls) as [|z zs] eqn:E;
    [exfalso; match goal with H : gcl (c, w) |- _ => destruct (gcl_nonnil _ _ H) as (?b & ?c' & ?Ec); subst c; discriminate end|];
    rewrite <- E; clear E z zs.

  Definition gcells_cl (st : style) (cls : list (list Z * Z)) : list cell :=
    flat_map (fun p => glyph_cells (fst p) (snd p) st) cls.

  Lemma seg_cells_good st cls : Forall gcl cls -> forall fuel, (length (bytes cls) <= fuel)%nat ->
    seg_cells wc fuel st (bytes cls) = gcells_cl st cls.
  Proof.
    induction 1 as [|[c w] cls Hc Hcls IH]; intros fuel Hf.
    - destruct fuel; reflexivity.
    - rewrite length_bytes_cons in Hf. pose proof (gcl_pos _ _ Hc) as [_ Hl].
      destruct fuel as [|f]; [unfold zlen in Hl; lia|].
      cbn [seg_cells]. unroll c w cls.
      rewrite (gcl_step _ _ _ Hc). rewrite zskipn_app_len. rewrite IH; [reflexivity|]. unfold zlen in Hl; lia.
  Qed.

  Lemma cls_width_nonneg cls : Forall gcl cls -> 0 <= cls_width cls.
  Proof. induction 1 as [|[c w] cls Hc _ IH]; cbn [cls_width]; [lia|]. apply gcl_pos in Hc. lia. Qed.

  Lemma split_scan_past cls : Forall gcl cls -> forall fuel idx cp off, off <= cp ->
    split_scan wc fuel (bytes cls) idx cp off = None.
  Proof.
    induction 1 as [|[c w] cls Hc Hcls IH]; intros fuel idx cp off Ho.
    - destruct fuel; reflexivity.
    - destruct fuel as [|f]; [reflexivity|]. cbn [split_scan]. unroll c w cls.
      rewrite (gcl_step _ _ _ Hc). rewrite zskipn_app_len. pose proof (gcl_pos _ _ Hc) as [Hw _].
      destruct (Z.ltb_spec w 1); [lia|]. destruct (Z.ltb_spec cp off); [lia|]. cbn [andb].
      apply IH. lia.
  Qed.

  Lemma split_scan_boundary cls1 cls2 : Forall gcl cls1 -> Forall gcl cls2 -> forall fuel idx cp off,
    cp + cls_width cls1 = off -> split_scan wc fuel (bytes (cls1 ++ cls2)) idx cp off = None.
  Proof.
    induction 1 as [|[c w] cls1 Hc Hcls IH]; intros H2 fuel idx cp off Ho.
    - cbn [app]. apply split_scan_past; [exact H2|cbn in Ho; lia].
    - destruct fuel as [|f]; [reflexivity|]. rewrite <- app_comm_cons. cbn [split_scan]. unroll c w (cls1 ++ cls2).
      rewrite (gcl_step _ _ _ Hc). rewrite zskipn_app_len. pose proof (gcl_pos _ _ Hc) as [Hw _].
      cbn [cls_width] in Ho. pose proof (cls_width_nonneg _ Hcls).
      destruct (Z.ltb_spec w 1); [lia|]. destruct (Z.ltb_spec off (cp + w)); [lia|]. rewrite andb_false_r.
      apply IH; [exact H2|lia].
  Qed.

  Lemma split_scan_wide cls1 c w cls2 : Forall gcl cls1 -> gcl (c, w) -> forall fuel idx cp off,
    (length (bytes (cls1 ++ (c, w) :: cls2)) <= fuel)%nat ->
    cp + cls_width cls1 < off < cp + cls_width cls1 + w ->
    split_scan wc fuel (bytes (cls1 ++ (c, w) :: cls2)) idx cp off
      = Some (idx + zlen (bytes cls1), cp + cls_width cls1, c, w).
  Proof.
    induction 1 as [|[c1 w1] cls1 Hc1 Hcls IH]; intros Hc fuel idx cp off Hf Ho.
    - cbn [app] in *. rewrite length_bytes_cons in Hf. pose proof (gcl_pos _ _ Hc) as [Hw Hl].
      destruct fuel as [|f]; [unfold zlen in Hl; lia|]. cbn [split_scan]. unroll c w cls2.
      rewrite (gcl_step _ _ _ Hc). cbn [cls_width] in Ho.
      destruct (Z.ltb_spec w 1); [lia|]. destruct (Z.ltb_spec cp off); [|lia]. destruct (Z.ltb_spec off (cp + w)); [|lia].
      cbn [andb]. destruct (Z.ltb_spec 1 w); [|lia]. cbn [cls_width bytes flat_map]. rewrite zlen_nil. do 4 f_equal; lia.
    - rewrite <- app_comm_cons in *. rewrite length_bytes_cons in Hf. pose proof (gcl_pos _ _ Hc1) as [Hw Hl].
      destruct fuel as [|f]; [unfold zlen in Hl; lia|]. cbn [split_scan]. unroll c1 w1 (cls1 ++ (c, w) :: cls2).
      rewrite (gcl_step _ _ _ Hc1). rewrite zskipn_app_len. cbn [cls_width] in Ho. pose proof (cls_width_nonneg _ Hcls).
      destruct (Z.ltb_spec w1 1); [lia|]. destruct (Z.ltb_spec off (cp + w1)); [lia|]. rewrite andb_false_r.
      rewrite IH; [|exact Hc|unfold zlen in Hl; lia|lia].
      rewrite zlen_bytes_cons. cbn [cls_width]. do 4 f_equal; lia.
  Qed.

  Lemma bifc_boundary cls1 cls2 : Forall gcl cls1 -> forall fuel idx width off,
    (length (bytes (cls1 ++ cls2)) <= fuel)%nat -> width + cls_width cls1 = off ->
    bifc wc fuel (bytes (cls1 ++ cls2)) idx width off = (idx + zlen (bytes cls1), off).
  Proof.
    induction 1 as [|[c w] cls1 Hc Hcls IH]; intros fuel idx width off Hf Ho.
    - cbn [app cls_width] in *. cbn [bytes flat_map]. rewrite zlen_nil.
      replace (idx + 0) with idx by lia. replace off with width by lia.
      destruct fuel as [|f]; [reflexivity|]. cbn [bifc]. destruct (bytes cls2); [reflexivity|].
      destruct (Z.ltb_spec width width); [lia|reflexivity].
    - rewrite <- app_comm_cons in *. rewrite length_bytes_cons in Hf. pose proof (gcl_pos _ _ Hc) as [Hw Hl].
      destruct fuel as [|f]; [unfold zlen in Hl; lia|]. cbn [bifc]. unroll c w (cls1 ++ cls2).
      cbn [cls_width] in Ho. pose proof (cls_width_nonneg _ Hcls).
      destruct (Z.ltb_spec width off); [|lia].
      rewrite (gcl_step _ _ _ Hc). rewrite zskipn_app_len. destruct (Z.ltb_spec 0 w); [|lia].
      rewrite IH; [|unfold zlen in Hl; lia|lia]. rewrite zlen_bytes_cons. f_equal. lia.
  Qed.

  (* ---- the fast path [Width == len(Text)] ---- *)
  Lemma gcl_bound : wc_multibyte wc -> forall c w, gcl (c, w) -> w <= zlen c /\ (w = zlen c -> zlen c = 1).
  Proof.
    intros Hm c w (r & Hd & Hw). cbn [fst snd] in *. specialize (Hm _ _ _ _ Hd). apply decode_size in Hd.
    subst w. pose proof (cluster_width_pos r). lia.
  Qed.
  Lemma cls_width_le_bytes : wc_multibyte wc -> forall cls, Forall gcl cls ->
    cls_width cls <= zlen (bytes cls) /\
    (cls_width cls = zlen (bytes cls) -> Forall (fun p : list Z * Z => zlen (fst p) = 1 /\ snd p = 1) cls).
  Proof.
    intros Hm. induction 1 as [|[c w] cls Hc Hcls IH].
    - split; [cbn; lia|constructor].
    - rewrite zlen_bytes_cons. cbn [cls_width]. destruct (gcl_bound Hm _ _ Hc) as [B1 B2]. destruct IH as [I1 I2].
      split; [lia|]. intros E. constructor; [cbn [fst snd]; lia|apply I2; lia].
  Qed.
  Lemma singles_len cls : Forall (fun p : list Z * Z => zlen (fst p) = 1 /\ snd p = 1) cls ->
    zlen (bytes cls) = cls_width cls.
  Proof. induction 1 as [|[c w] cls [H1 H2] _ IH]; [reflexivity|]. rewrite zlen_bytes_cons. cbn [cls_width fst snd] in *. lia. Qed.
  (* ---------- glyph lists: the common abstraction of spans and cell rows ---------- *)
  Definition glyph := (list Z * Z * style)%type.
  Definition gw (g : glyph) : Z := snd (fst g).
  Definition gsty (g : glyph) : style := snd g.
  Definition gcs (g : glyph) : list cell := glyph_cells (fst (fst g)) (snd (fst g)) (snd g).
  Definition gcells (gl : list glyph) : list cell := flat_map gcs gl.
  Definition gwidth (gl : list glyph) : Z := wsum gw gl.
  Definition gl_text (st : style) (cls : list (list Z * Z)) : list glyph := map (fun p => (fst p, snd p, st)) cls.
  Definition gl_span (sp : span) : list glyph :=
    if sp_width sp <=? 0 then []
    else if is_text sp then
      match clusters wc (sp_text sp) with Some cls => gl_text (sp_sty sp) cls | None => [] end
    else zrepeat (encode_rune (sp_rune sp), 1, sp_sty sp) (sp_width sp).
  Definition gl_spans (l : list span) : list glyph := flat_map gl_span l.

  (* a good span: well-formed and safe *)
  Definition gspan (sp : span) : Prop :=
    0 < sp_width sp /\ sp_istext sp = nonempty (sp_text sp) /\
    (is_text sp = true -> exists cls, Forall gcl cls /\ sp_text sp = bytes cls /\ cls_width cls = sp_width sp).
  Definition gspan0 (sp : span) : Prop := sp_width sp = 0 \/ gspan sp.

  Lemma gcells_app a b : gcells (a ++ b) = gcells a ++ gcells b.
  Proof. apply flat_map_app. Qed.
  Lemma gwidth_app a b : gwidth (a ++ b) = gwidth a + gwidth b.
  Proof. apply wsum_app. Qed.
  Lemma gl_spans_app a b : gl_spans (a ++ b) = gl_spans a ++ gl_spans b.
  Proof. apply flat_map_app. Qed.
  Lemma gl_text_app st a b : gl_text st (a ++ b) = gl_text st a ++ gl_text st b.
  Proof. apply map_app. Qed.
  Lemma gcells_gl_text st cls : gcells (gl_text st cls) = gcells_cl st cls.
  Proof.
    induction cls as [|[c w] cls IH]; [reflexivity|].
    change (gcells (gl_text st ((c, w) :: cls))) with (gcs (c, w, st) ++ gcells (gl_text st cls)).
    change (gcells_cl st ((c, w) :: cls)) with (glyph_cells c w st ++ gcells_cl st cls).
    rewrite IH. reflexivity.
  Qed.
  Lemma gwidth_gl_text st cls : gwidth (gl_text st cls) = cls_width cls.
  Proof.
    induction cls as [|[c w] cls IH]; [reflexivity|].
    change (gwidth (gl_text st ((c, w) :: cls))) with (w + gwidth (gl_text st cls)). cbn [cls_width]. lia.
  Qed.
  Lemma gcells_zrepeat1 c st n : gcells (zrepeat (c, 1, st) n) = zrepeat (mkCell c 1 st) n.
  Proof. unfold zrepeat. induction (Z.to_nat n) as [|k IH]; [reflexivity|]. cbn [repeat gcells flat_map]. rewrite <- IH. reflexivity. Qed.
  Lemma gwidth_zrepeat1 c st n : 0 <= n -> gwidth (zrepeat (c, 1, st) n) = n.
  Proof.
    intros H. unfold zrepeat, gwidth. rewrite <- (Z2Nat.id n) at 2 by lia.
    induction (Z.to_nat n) as [|k IH]; [reflexivity|]. cbn [repeat wsum gw fst snd]. lia.
  Qed.

  Definition glyphs_ok (gl : list glyph) : Prop := Forall (fun g => 1 <= gw g) gl.
  Lemma glyphs_ok_app a b : glyphs_ok (a ++ b) <-> glyphs_ok a /\ glyphs_ok b.
  Proof. apply Forall_app. Qed.
  Lemma glyphs_ok_text st cls : Forall gcl cls -> glyphs_ok (gl_text st cls).
  Proof. induction 1 as [|[c w] cls Hc _ IH]; constructor; [|exact IH]. apply gcl_pos in Hc. cbn. lia. Qed.
  Lemma glyphs_ok_zrepeat1 c st n : glyphs_ok (zrepeat (c, 1, st) n).
  Proof. apply Forall_zrepeat. cbn. lia. Qed.

  Lemma zlen_gcs g : 1 <= gw g -> zlen (gcs g) = gw g.
  Proof. intros H. unfold gcs, glyph_cells, gw in *. rewrite zlen_cons, zlen_zrepeat. lia. Qed.
  Lemma zlen_gcells gl : glyphs_ok gl -> zlen (gcells gl) = gwidth gl.
  Proof.
    induction 1 as [|g gl Hg _ IH]; [reflexivity|]. cbn [gcells flat_map]. rewrite zlen_app, zlen_gcs by exact Hg.
    unfold gcells in IH. rewrite IH. reflexivity.
  Qed.

  Lemma nonempty_bytes cls : Forall gcl cls -> nonempty (bytes cls) = nonempty cls.
  Proof.
    intros H. destruct H as [|[c w] cls Hc _]; [reflexivity|]. destruct (gcl_nonnil _ _ Hc) as (b & c' & ->). reflexivity.
  Qed.
  Lemma cls_width_0 cls : Forall gcl cls -> cls_width cls <= 0 -> cls = [].
  Proof.
    intros H. destruct H as [|[c w] cls Hc Hcls]; [reflexivity|]. cbn [cls_width]. apply gcl_pos in Hc.
    pose proof (cls_width_nonneg _ Hcls). lia.
  Qed.

  Lemma set_text_good sp cls w : Forall gcl cls -> cls_width cls = w ->
    gl_span (set_text sp (bytes cls) w) = gl_text (sp_sty sp) cls /\ gspan0 (set_text sp (bytes cls) w).
  Proof.
    intros Hc Hw. pose proof (cls_width_nonneg _ Hc).
    unfold gl_span, gspan0, gspan, set_text, mk_span, is_text. cbn [sp_width sp_text sp_sty sp_istext].
    destruct (Z.leb_spec w 0) as [Hz|Hz].
    - rewrite (cls_width_0 cls Hc) by lia. split; [reflexivity|left; lia].
    - assert (cls <> []) by (intros ->; cbn in Hw; lia).
      rewrite (nonempty_bytes _ Hc). destruct cls as [|p cls]; [congruence|]. cbn [nonempty].
      rewrite (clusters_good _ Hc). split; [reflexivity|]. right. split; [lia|]. split; [reflexivity|].
      intros _. exists (p :: cls). auto.
  Qed.

  Lemma gspan_gl sp : gspan sp ->
    abs_span wc sp = gcells (gl_span sp) /\ gwidth (gl_span sp) = sp_width sp /\ glyphs_ok (gl_span sp) /\
    Forall (fun g => gsty g = sp_sty sp) (gl_span sp).
  Proof.
    intros (Hw & Hi & Ht). unfold abs_span, gl_span. destruct (Z.leb_spec (sp_width sp) 0); [lia|].
    destruct (is_text sp) eqn:E.
    - destruct (Ht eq_refl) as (cls & Hc & Hb & Hcw). rewrite Hb. rewrite (clusters_good _ Hc).
      rewrite seg_cells_good by (exact Hc || lia). rewrite gcells_gl_text, gwidth_gl_text.
      split; [reflexivity|]. split; [exact Hcw|]. split; [apply glyphs_ok_text, Hc|].
      unfold gl_text. apply Forall_map. apply Forall_forall. intros; reflexivity.
    - rewrite gcells_zrepeat1, gwidth_zrepeat1 by lia. split; [reflexivity|]. split; [reflexivity|].
      split; [apply glyphs_ok_zrepeat1|]. apply Forall_zrepeat. reflexivity.
  Qed.
  Lemma gl_span_0 sp : sp_width sp = 0 -> gl_span sp = [] /\ abs_span wc sp = [].
  Proof. intros H. unfold gl_span, abs_span. rewrite H. split; reflexivity. Qed.
  Lemma gspan0_gl sp : gspan0 sp ->
    abs_span wc sp = gcells (gl_span sp) /\ gwidth (gl_span sp) = sp_width sp /\ glyphs_ok (gl_span sp) /\
    Forall (fun g => gsty g = sp_sty sp) (gl_span sp).
  Proof.
    intros [H|H]; [|apply gspan_gl, H]. destruct (gl_span_0 _ H) as [-> ->]. rewrite H.
    repeat split; constructor.
  Qed.

  (* ---------- splitSpan ---------- *)
  Definition split_ok (sp : span) (off : Z) (lf rt wd : span) : Prop :=
    gspan0 lf /\ gspan0 rt /\ sp_sty lf = sp_sty sp /\ sp_sty rt = sp_sty sp /\
    ((sp_width wd = 0 /\ sp_width lf = off /\ sp_width rt = sp_width sp - off /\
      gl_span sp = gl_span lf ++ gl_span rt)
     \/
     (gspan wd /\ sp_sty wd = sp_sty sp /\ is_text wd = true /\ (sp_width lf = 0 \/ is_text lf = true) /\
      sp_width lf < off < sp_width lf + sp_width wd /\
      sp_width lf + sp_width wd + sp_width rt = sp_width sp /\
      gl_span sp = gl_span lf ++ gl_span wd ++ gl_span rt /\
      gl_span wd = [(sp_text wd, sp_width wd, sp_sty sp)])).

  Lemma split_span_spec : wc_multibyte wc -> forall sp off, gspan sp -> 0 < off < sp_width sp ->
    exists lf rt wd, split_span wc sp off = (lf, rt, wd) /\ split_ok sp off lf rt wd.
  Proof.
    intros Hm sp off Hg Ho. pose proof Hg as (Hw & Hi & Ht). unfold split_span.
    destruct (Z.leb_spec off 0); [lia|]. destruct (Z.leb_spec (sp_width sp) off); [lia|].
    destruct (is_text sp) eqn:E; cbn [negb].
    2:{ (* repeat span *)
      eexists _, _, _. split; [reflexivity|].
      assert (G : forall w, 0 < w -> gspan (set_width sp w)).
      { intros w Hw'. split; [exact Hw'|]. split; [exact Hi|]. unfold is_text, set_width; cbn [sp_text]. unfold is_text in E. rewrite E. discriminate. }
      split; [right; apply G; lia|]. split; [right; apply G; lia|]. split; [reflexivity|]. split; [reflexivity|].
      left. split; [reflexivity|]. split; [reflexivity|]. split; [reflexivity|].
      unfold gl_span, set_width, is_text in *; cbn [sp_width sp_text sp_sty sp_rune]. rewrite E.
      destruct (Z.leb_spec (sp_width sp) 0); [lia|]. destruct (Z.leb_spec off 0); [lia|].
      destruct (Z.leb_spec (sp_width sp - off) 0); [lia|].
      rewrite <- zrepeat_app by lia. f_equal. lia. }
    destruct (Ht eq_refl) as (cls & Hc & Hb & Hcw).
    assert (GL : gl_span sp = gl_text (sp_sty sp) cls).
    { unfold gl_span. destruct (Z.leb_spec (sp_width sp) 0); [lia|]. rewrite E, Hb, (clusters_good _ Hc). reflexivity. }
    destruct (wsum_split snd cls (gcl_widths _ Hc) off) as [(cls1 & cls2 & -> & H1)|(cls1 & [c w] & cls2 & -> & H1)];
      [rewrite <- cls_width_wsum; lia| |]; rewrite <- cls_width_wsum in H1.
    - (* the offset is a cluster boundary *)
      apply Forall_app in Hc as [Hc1 Hc2]. rewrite cls_width_app in Hcw. rewrite bytes_app in Hb.
      assert (R : (if sp_width sp =? zlen (sp_text sp)
                   then (set_text sp (zfirstn off (sp_text sp)) off, set_text sp (zskipn off (sp_text sp)) (sp_width sp - off), empty_span)
                   else match split_scan wc (length (sp_text sp)) (sp_text sp) 0 0 off with
                        | Some (idx, cellPos, c, w) =>
                            (set_text sp (zfirstn idx (sp_text sp)) cellPos,
                             set_text sp (zskipn (idx + zlen c) (sp_text sp)) (sp_width sp - (cellPos + w)),
                             set_text sp c w)
                        | None => let '(bi, lw) := byte_index_for_cell wc (sp_text sp) off in
                            (set_text sp (zfirstn bi (sp_text sp)) lw, set_text sp (zskipn bi (sp_text sp)) (sp_width sp - lw), empty_span)
                        end)
                  = (set_text sp (bytes cls1) off, set_text sp (bytes cls2) (sp_width sp - off), empty_span)).
      { destruct (Z.eqb_spec (sp_width sp) (zlen (sp_text sp))) as [Ef|Ef].
        - assert (S : Forall (fun p : list Z * Z => zlen (fst p) = 1 /\ snd p = 1) (cls1 ++ cls2)).
          { apply (cls_width_le_bytes Hm); [apply Forall_app; auto|]. rewrite bytes_app, cls_width_app, <- Hb. lia. }
          apply Forall_app in S as [S1 _]. apply singles_len in S1. rewrite Hb.
          replace off with (zlen (bytes cls1)) at 1 3 by lia.
          rewrite zfirstn_app_len, zskipn_app_len. reflexivity.
        - rewrite Hb at 1 2. rewrite <- bytes_app. rewrite split_scan_boundary by (auto || lia).
          unfold byte_index_for_cell. destruct (Z.leb_spec off 0); [lia|]. cbn [orb].
          unfold is_text in E. rewrite E. cbn [negb]. rewrite Hb at 1 2. rewrite <- bytes_app.
          rewrite bifc_boundary by (auto || lia). rewrite Z.add_0_l. rewrite Hb. rewrite zfirstn_app_len, zskipn_app_len. reflexivity. }
      rewrite R. eexists _, _, _. split; [reflexivity|].
      destruct (set_text_good sp cls1 off Hc1 H1) as [G1 G1'].
      destruct (set_text_good sp cls2 (sp_width sp - off) Hc2 ltac:(lia)) as [G2 G2'].
      split; [exact G1'|]. split; [exact G2'|]. split; [reflexivity|]. split; [reflexivity|].
      left. split; [reflexivity|]. split; [reflexivity|]. split; [reflexivity|].
      rewrite GL, G1, G2. apply gl_text_app.
    - (* the offset cuts the wide cluster (c, w) *)
      cbn [snd] in H1. apply Forall_app in Hc as [Hc1 Hc2]. inversion Hc2 as [|? ? Hcw' Hc3]; subst.
      rewrite cls_width_app in Hcw. cbn [cls_width] in Hcw.
      assert (Ef : sp_width sp =? zlen (sp_text sp) = false).
      { apply Z.eqb_neq. intros Ef.
        assert (S : Forall (fun p : list Z * Z => zlen (fst p) = 1 /\ snd p = 1) (cls1 ++ (c, w) :: cls2)).
        { apply (cls_width_le_bytes Hm); [apply Forall_app; auto|]. rewrite <- Hb, cls_width_app. cbn [cls_width]. lia. }
        apply Forall_app in S as [_ S]. inversion S as [|? ? [_ S1] _]; subst. cbn [snd] in S1. lia. }
      rewrite Ef.
      assert (SS : split_scan wc (length (sp_text sp)) (sp_text sp) 0 0 off = Some (zlen (bytes cls1), cls_width cls1, c, w)).
      { rewrite Hb. rewrite (split_scan_wide cls1 c w cls2 Hc1 Hcw') by lia. rewrite !Z.add_0_l. reflexivity. }
      rewrite SS. eexists _, _, _. split; [reflexivity|].
      assert (Hb' : sp_text sp = bytes cls1 ++ c ++ bytes cls2) by (rewrite Hb, bytes_app; reflexivity).
      rewrite Hb'. rewrite zfirstn_app_len. rewrite zskipn_app_add by (pose proof (zlen_nonneg c); lia). rewrite zskipn_app_len.
      destruct (set_text_good sp cls1 _ Hc1 eq_refl) as [G1 G1'].
      destruct (set_text_good sp cls2 (sp_width sp - (cls_width cls1 + w)) Hc3 ltac:(lia)) as [G2 G2'].
      assert (Hcc : Forall gcl [(c, w)]) by (constructor; [exact Hcw'|constructor]).
      destruct (set_text_good sp [(c, w)] w Hcc ltac:(cbn; lia)) as [G3 G3'].
      assert (B1 : bytes [(c, w)] = c) by (cbn; apply app_nil_r). rewrite B1 in G3, G3'.
      pose proof (gcl_pos _ _ Hcw') as [Hw1 _].
      split; [exact G1'|]. split; [exact G2'|]. split; [reflexivity|]. split; [reflexivity|].
      right. split; [destruct G3' as [G3'|G3']; [cbn in G3'; lia|exact G3']|]. split; [reflexivity|].
      split. { unfold is_text, set_text, mk_span; cbn [sp_text]. destruct (gcl_nonnil _ _ Hcw') as (b & c' & ->). reflexivity. }
      split. { unfold is_text, set_text, mk_span; cbn [sp_text sp_width]. rewrite (nonempty_bytes _ Hc1).
               destruct cls1; [left; reflexivity|right; reflexivity]. }
      cbn [set_text mk_span sp_width]. split; [lia|]. split; [lia|].
      split. { rewrite GL, G1, G2, G3. rewrite gl_text_app. reflexivity. }
      rewrite G3. reflexivity.
  Qed.
End WithOracle.
