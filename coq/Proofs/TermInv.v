(* Terminal-level invariant: both buffers well-formed and of equal size; it is
   preserved by every token, by Resize, and hence along every history. *)
From Coq Require Import List ZArith Bool Lia.
From Termemu Require Import Base Style Screen Kbd Parser Term BaseLemmas ScreenInv.
Import ListNotations.
Open Scope Z_scope.

Record TInv (t : term) : Prop := mkTInv {
  ti_main : Inv (tmain t);
  ti_alt : Inv (talt t);
  ti_w : sW (tmain t) = sW (talt t);
  ti_h : sH (tmain t) = sH (talt t)
}.

Lemma TInv_init w h : 1 <= w -> 1 <= h -> TInv (init_term w h).
Proof. intros; constructor; cbn; auto using Inv_init. Qed.

Lemma on_screen_ok f t : Pres f -> TInv t -> TInv (on_screen f t).
Proof.
  intros Hf [Hm Ha Hw Hh]. unfold on_screen, active, set_active.
  destruct (onalt t) eqn:E; cbn [tmain talt onalt].
  - destruct (Hf (set_evs [] (talt t)) (proj1 (Inv_set_evs _ _) Ha)) as (I & W & H).
    constructor; cbn [tmain talt]; [exact Hm|apply Inv_set_evs, I| |]; ss; congruence.
  - destruct (Hf (set_evs [] (tmain t)) (proj1 (Inv_set_evs _ _) Hm)) as (I & W & H).
    constructor; cbn [tmain talt]; [apply Inv_set_evs, I|exact Ha| |]; ss; congruence.
Qed.

Ltac tinv_same := intros []; constructor; cbn [tmain talt]; assumption.

Lemma TInv_log_ev e t : TInv t -> TInv (log_ev e t).
Proof. tinv_same. Qed.
Lemma TInv_reply b t : TInv t -> TInv (reply b t).
Proof. tinv_same. Qed.
Lemma TInv_set_vflag i v t : TInv t -> TInv (set_vflag i v t).
Proof. tinv_same. Qed.
Lemma TInv_set_vint i v t : TInv t -> TInv (set_vint i v t).
Proof. tinv_same. Qed.
Lemma TInv_set_vstr i v t : TInv t -> TInv (set_vstr i v t).
Proof. tinv_same. Qed.
Lemma TInv_on_kbd f t : TInv t -> TInv (on_kbd f t).
Proof. intros []; unfold on_kbd; destruct (onalt t); constructor; cbn [tmain talt]; assumption. Qed.
Lemma TInv_switch t : TInv t -> TInv (switch_screen t).
Proof. tinv_same. Qed.

#[export] Hint Resolve TInv_log_ev TInv_reply TInv_set_vflag TInv_set_vint TInv_set_vstr TInv_on_kbd TInv_switch : tinv.

Lemma TInv_exec_c0 b t : TInv t -> TInv (exec_c0 b t).
Proof.
  intros Ht. unfold exec_c0.
  repeat match goal with |- context [if ?c then _ else _] => destruct c end;
    auto with tinv; apply on_screen_ok; auto; pres_solve.
Qed.

Lemma TInv_exec_esc b t : TInv t -> TInv (exec_esc b t).
Proof.
  intros Ht. unfold exec_esc.
  repeat match goal with |- context [if ?c then _ else _] => destruct c end;
    auto with tinv; apply on_screen_ok; auto; pres_solve.
Qed.

Lemma TInv_dec_mode v p t : TInv t -> TInv (dec_mode v p t).
Proof.
  intros Ht. unfold dec_mode.
  repeat match goal with |- context [if ?c then _ else _] => destruct c end;
    auto with tinv; apply on_screen_ok; auto; pres_solve.
Qed.

Lemma TInv_dec_modes v ps : forall t, TInv t -> TInv (fold_left (fun t p => dec_mode v p t) ps t).
Proof. induction ps as [|p ps IH]; intros t Ht; cbn [fold_left]; auto using TInv_dec_mode. Qed.

Lemma TInv_exec_csi_plain ps f t : TInv t -> TInv (exec_csi_plain ps f t).
Proof.
  intros Ht. unfold exec_csi_plain. cbv zeta.
  repeat match goal with |- TInv (if ?c then _ else _) => destruct c end;
    auto with tinv; apply on_screen_ok; auto; pres_solve.
Qed.

Lemma TInv_exec_csi prefix ps f t : TInv t -> TInv (exec_csi prefix ps f t).
Proof.
  intros Ht. unfold exec_csi. cbv zeta.
  repeat match goal with |- TInv (if ?c then _ else _) => destruct c end;
    auto using TInv_exec_csi_plain, TInv_dec_modes with tinv.
Qed.

Lemma TInv_exec_osc n p t : TInv t -> TInv (exec_osc n p t).
Proof.
  intros Ht. unfold exec_osc.
  repeat match goal with |- TInv (if ?c then _ else _) => destruct c end; auto with tinv.
Qed.

Theorem TInv_exec_tok k t : TInv t -> TInv (exec_tok k t).
Proof.
  intros Ht. destruct k; cbn [exec_tok];
    auto using TInv_exec_c0, TInv_exec_esc, TInv_exec_csi, TInv_exec_osc.
  apply on_screen_ok; auto. intros s Hs. cbv beta.
  destruct (_ && _); (apply Good_step; [apply Pres_write_glyph|]).
  - split; [apply Inv_add_trig, Hs|split; reflexivity].
  - apply Good_refl, Hs.
Qed.

Theorem TInv_resize w h t : TInv t -> 1 <= w -> 1 <= h -> TInv (resize w h t).
Proof.
  intros [Hm Ha Hw Hh] W H. unfold resize. cbv zeta. apply TInv_log_ev, TInv_log_ev.
  destruct (set_size_ok w h (set_evs [] (tmain t)) (proj1 (Inv_set_evs _ _) Hm) W H) as (I1 & W1 & H1).
  destruct (set_size_ok w h (set_evs [] (talt t)) (proj1 (Inv_set_evs _ _) Ha) W H) as (I2 & W2 & H2).
  constructor; cbn [tmain talt]; [apply Inv_set_evs, I1|apply Inv_set_evs, I2| |]; ss; congruence.
Qed.

Lemma TInv_not_crashed t : TInv t -> crashed t = false.
Proof. intros [Hm Ha _ _]. unfold crashed. rewrite (inv_crash _ Hm), (inv_crash _ Ha). reflexivity. Qed.

Section Run.
  Variable wc : Z -> Z.
  Variable grid : bool.

  Theorem TInv_run_pending fuel : forall t inp, TInv t -> TInv (fst (run_pending wc grid fuel t inp)).
  Proof.
    induction fuel as [|f IH]; intros t inp Ht; cbn [run_pending]; [exact Ht|].
    rewrite (TInv_not_crashed t Ht).
    destruct (parse_one wc grid inp) as [|k rest]; [exact Ht|].
    apply IH, TInv_exec_tok, Ht.
  Qed.

  Theorem TInv_run_bytes t inp : TInv t -> TInv (fst (run_bytes wc grid t inp)).
  Proof. apply TInv_run_pending. Qed.
End Run.
