(* Proofs for C13 (mouse reports).  Model: Model/Mouse.v (SendMouseRaw and Write
   after repairs D32..D36).  Reference decoders: Spec/MouseSpec.v. *)
From Coq Require Import List ZArith Bool Lia ZifyBool.
From Termemu Require Import Base Mouse MouseSpec.
Import ListNotations.
Open Scope Z_scope.
Ltac Zify.zify_post_hook ::= Z.div_mod_to_equations.

(* ================= the finite part of the domain ================= *)

Definition flag_sets : list Z := map (fun k => 4 * Z.of_nat k) (seq 0 32).
Definition all_events : list (Z * bool * Z) :=
  flat_map (fun b => flat_map (fun p => map (fun m => (b, p, m)) flag_sets) [true; false]) [0; 1; 2; 3].

Lemma flagset_in m : flagset m -> In m flag_sets.
Proof.
  intros [H1 H2]. unfold flag_sets. apply in_map_iff.
  exists (Z.to_nat (m / 4)). split; [lia|]. apply in_seq. lia.
Qed.

Lemma events_forall (P : Z -> bool -> Z -> bool) :
  forallb (fun e => match e with (b, p, m) => P b p m end) all_events = true ->
  forall b p m, button b -> flagset m -> P b p m = true.
Proof.
  intros H b p m Hb Hm. rewrite forallb_forall in H.
  apply (H (b, p, m)). unfold all_events.
  apply in_flat_map. exists b. split.
  { unfold button in Hb. assert (b = 0 \/ b = 1 \/ b = 2 \/ b = 3) as [-> | [-> | [-> | ->]]] by lia; cbn; auto. }
  apply in_flat_map. exists p. split; [destruct p; cbn; auto|].
  apply in_map. apply flagset_in; exact Hm.
Qed.

(* ================= M1: the filter ================= *)
Lemma filter_table_fin : forall mode, In mode [0; 1; 2; 3; 4] ->
  forall b p m, button b -> flagset m ->
  Bool.eqb (mouse_filter mode b p m) (mouse_passes mode b p m) = true.
Proof.
  intros mode Hin. apply (events_forall (fun b p m => Bool.eqb (mouse_filter mode b p m) (mouse_passes mode b p m))).
  cbn [In] in Hin. destruct Hin as [<-|[<-|[<-|[<-|[<-|[]]]]]]; vm_compute; reflexivity.
Qed.

Lemma filter_table : forall mode btn press mods,
  0 <= mode <= 4 -> button btn -> flagset mods ->
  mouse_filter mode btn press mods = mouse_passes mode btn press mods.
Proof.
  intros mode b p m Hm Hb Hf. apply Bool.eqb_prop. apply filter_table_fin; auto.
  cbn [In]. lia.
Qed.

Lemma filter_spec : forall mode btn press mods,
  0 <= mode <= 4 -> button btn -> flagset mods ->
  (mouse_filter mode btn press mods = true <->
     (mode = 1 /\ press = true /\ has_motion mods = false /\ has_wheel mods = false)
  \/ (mode = 2 /\ has_motion mods = false)
  \/ (mode = 3 /\ ~ (has_motion mods = true /\ btn = 3))
  \/ mode = 4).
Proof.
  intros mode b p m Hm Hb Hf. rewrite (filter_table _ _ _ _ Hm Hb Hf). unfold mouse_passes.
  assert (mode = 0 \/ mode = 1 \/ mode = 2 \/ mode = 3 \/ mode = 4) as [-> | [-> | [-> | [-> | ->]]]] by lia;
    cbn [Z.eqb Pos.eqb];
    destruct p, (has_motion m), (has_wheel m), (Z.eqb_spec b 3); cbn [andb negb];
    intuition (try discriminate; try lia; try congruence).
Qed.

(* mode off reports nothing, whatever the arguments; a register value outside 0..4
   (never written by the parser) behaves like any-motion: the Go switch has no default *)
Lemma filter_off : forall btn press mods, mouse_filter 0 btn press mods = false.
Proof. reflexivity. Qed.
Lemma filter_any : forall btn press mods, mouse_filter 4 btn press mods = true.
Proof. reflexivity. Qed.
Lemma filter_other : forall mode btn press mods, mode < 0 \/ 4 < mode -> mouse_filter mode btn press mods = true.
Proof.
  intros mode b p m H. unfold mouse_filter, mmNone, mmPress, mmPressRelease, mmPressReleaseMove.
  destruct (Z.eqb_spec mode 0); [lia|]. destruct (Z.eqb_spec mode 1); [lia|].
  destruct (Z.eqb_spec mode 2); [lia|]. destruct (Z.eqb_spec mode 3); [lia|]. reflexivity.
Qed.

(* ================= M2: the report ================= *)
(* ---- the button code, by enumeration of the 4 x 2 x 32 events ---- *)
Definition chk_code_m (b : Z) (p : bool) (m : Z) : bool :=
  let c := btn_byte_rel b p m in
  let eb := if p then b else 3 in
  (0 <=? c) && (c <? 128) &&
  (Z.land c 3 =? eb) && (Z.land c 28 =? key_mods m) &&
  Bool.eqb (Z.testbit c 5) (has_motion m) && Bool.eqb (Z.testbit c 6) (has_wheel m).

Definition chk_code_sgr (b : Z) (p : bool) (m : Z) : bool :=
  let c := btn_byte_sgr b m in
  (0 <=? c) && (c <? 128) &&
  (Z.land c 3 =? b) && (Z.land c 28 =? key_mods m) &&
  Bool.eqb (Z.testbit c 5) (has_motion m) && Bool.eqb (Z.testbit c 6) (has_wheel m).

Lemma code_m_fin : forall b p m, button b -> flagset m -> chk_code_m b p m = true.
Proof. apply events_forall. vm_compute. reflexivity. Qed.
Lemma code_sgr_fin : forall b p m, button b -> flagset m -> chk_code_sgr b p m = true.
Proof. apply events_forall. vm_compute. reflexivity. Qed.

Lemma code_m_range b p m : button b -> flagset m -> 0 <= btn_byte_rel b p m < 128.
Proof.
  intros Hb Hm. pose proof (code_m_fin b p m Hb Hm) as H. unfold chk_code_m in H.
  repeat (apply andb_prop in H; destruct H as [H ?]). lia.
Qed.

Lemma code_m_report b p m x y : button b -> flagset m ->
  report_of_code_m (btn_byte_rel b p m) x y = Some (expected_m b p m x y).
Proof.
  intros Hb Hm. pose proof (code_m_fin b p m Hb Hm) as H. unfold chk_code_m in H.
  repeat (apply andb_prop in H; destruct H as [H ?]).
  unfold report_of_code_m, report_of_code, expected_m.
  repeat match goal with E : Bool.eqb _ _ = true |- _ => apply Bool.eqb_prop in E end.
  repeat match goal with E : (_ =? _) = true |- _ => apply Z.eqb_eq in E end.
  replace ((0 <=? btn_byte_rel b p m) && (btn_byte_rel b p m <? 128)) with true by lia.
  congruence.
Qed.

Lemma code_sgr_range b m : button b -> flagset m -> 0 <= btn_byte_sgr b m < 128.
Proof.
  intros Hb Hm. pose proof (code_sgr_fin b true m Hb Hm) as H. unfold chk_code_sgr in H.
  repeat (apply andb_prop in H; destruct H as [H ?]). lia.
Qed.

Lemma code_sgr_report b p m x y : button b -> flagset m ->
  report_of_code (btn_byte_sgr b m) (negb p) x y = expected_sgr b p m x y.
Proof.
  intros Hb Hm. pose proof (code_sgr_fin b p m Hb Hm) as H. unfold chk_code_sgr in H.
  repeat (apply andb_prop in H; destruct H as [H ?]).
  unfold report_of_code, expected_sgr.
  repeat match goal with E : Bool.eqb _ _ = true |- _ => apply Bool.eqb_prop in E end.
  repeat match goal with E : (_ =? _) = true |- _ => apply Z.eqb_eq in E end.
  congruence.
Qed.

(* ---- X10 ---- *)
Lemma x10_coord_spec v : 0 <= v -> x10_coord v = 32 + Z.min v 223.
Proof.
  intro H. unfold x10_coord. destruct (255 <? 32 + v) eqn:E; lia.
Qed.

Lemma x10_shape : forall btn press mods x y, button btn -> flagset mods -> 0 <= x -> 0 <= y ->
  mouse_encode 0 btn press mods x y =
    [27; 91; 77; 32 + btn_byte_rel btn press mods; 32 + Z.min x 223; 32 + Z.min y 223].
Proof.
  intros b p m x y Hb Hm Hx Hy. unfold mouse_encode. cbn [meX10 Z.eqb].
  rewrite (x10_coord_spec x Hx), (x10_coord_spec y Hy).
  pose proof (code_m_range b p m Hb Hm).
  replace ((32 + btn_byte_rel b p m) mod 256) with (32 + btn_byte_rel b p m) by lia.
  reflexivity.
Qed.

Lemma x10_report : forall btn press mods x y, button btn -> flagset mods -> 0 <= x -> 0 <= y ->
  decode_x10 (mouse_encode 0 btn press mods x y)
  = Some (expected_m btn press mods (Z.min x 223) (Z.min y 223)).
Proof.
  intros b p m x y Hb Hm Hx Hy. rewrite x10_shape by assumption.
  pose proof (code_m_range b p m Hb Hm). unfold decode_x10, is_byte_ge32.
  replace ((32 <=? 32 + btn_byte_rel b p m) && (32 + btn_byte_rel b p m <=? 255)) with true by lia.
  replace ((32 <=? 32 + Z.min x 223) && (32 + Z.min x 223 <=? 255)) with true by lia.
  replace ((32 <=? 32 + Z.min y 223) && (32 + Z.min y 223 <=? 255)) with true by lia.
  cbn [andb].
  replace (32 + btn_byte_rel b p m - 32) with (btn_byte_rel b p m) by lia.
  replace (32 + Z.min x 223 - 32) with (Z.min x 223) by lia.
  replace (32 + Z.min y 223 - 32) with (Z.min y 223) by lia.
  apply code_m_report; assumption.
Qed.

(* each of the three payload bytes is one byte, 32..255 *)
Lemma x10_bytes : forall btn press mods x y, button btn -> flagset mods -> 0 <= x -> 0 <= y ->
  exists cb cx cy, mouse_encode 0 btn press mods x y = [27; 91; 77; cb; cx; cy]
    /\ 32 <= cb <= 159 /\ 32 <= cx <= 255 /\ 32 <= cy <= 255.
Proof.
  intros b p m x y Hb Hm Hx Hy. rewrite x10_shape by assumption.
  pose proof (code_m_range b p m Hb Hm).
  do 3 eexists. split; [reflexivity|]. lia.
Qed.

(* ---- UTF-8 ---- *)
Lemma utf8_char_encode v rest : 0 <= v <= 2047 ->
  utf8_char (utf8_encode_rune v ++ rest) = Some (v, rest).
Proof.
  intro H. unfold utf8_encode_rune.
  destruct (v <? 0) eqn:E0; [lia|].
  destruct (v <=? 127) eqn:E1.
  - cbn [app]. unfold utf8_char. replace ((0 <=? v) && (v <=? 127)) with true by lia. reflexivity.
  - destruct (v <=? 2047) eqn:E2; [|lia]. cbn [app]. unfold utf8_char.
    replace ((0 <=? 192 + v / 64) && (192 + v / 64 <=? 127)) with false by lia.
    replace ((194 <=? 192 + v / 64) && (192 + v / 64 <=? 223)) with true by lia.
    replace ((128 <=? 128 + v mod 64) && (128 + v mod 64 <=? 191)) with true by lia.
    f_equal. f_equal. lia.
Qed.

Lemma to_int32_small v : -2147483648 <= v < 2147483648 -> to_int32 v = v.
Proof. intro H. unfold to_int32. rewrite Z.mod_small by lia. lia. Qed.

Lemma utf8_coord_spec v : 0 <= v -> utf8_coord v = utf8_encode_rune (32 + Z.min v 2015).
Proof.
  intro H. unfold utf8_coord. destruct (2047 <? 32 + v) eqn:E.
  - rewrite to_int32_small by lia. f_equal. lia.
  - rewrite to_int32_small by lia. f_equal. lia.
Qed.

Lemma utf8_shape : forall btn press mods x y, button btn -> flagset mods -> 0 <= x -> 0 <= y ->
  mouse_encode 1 btn press mods x y =
    [27; 91; 77] ++ utf8_encode_rune (32 + btn_byte_rel btn press mods)
      ++ utf8_encode_rune (32 + Z.min x 2015) ++ utf8_encode_rune (32 + Z.min y 2015).
Proof.
  intros b p m x y Hb Hm Hx Hy. unfold mouse_encode. cbn [meX10 meUTF8 Z.eqb Pos.eqb].
  rewrite (utf8_coord_spec x Hx), (utf8_coord_spec y Hy).
  pose proof (code_m_range b p m Hb Hm).
  replace ((32 + btn_byte_rel b p m) mod 256) with (32 + btn_byte_rel b p m) by lia.
  reflexivity.
Qed.

Lemma utf8_report : forall btn press mods x y, button btn -> flagset mods -> 0 <= x -> 0 <= y ->
  decode_utf8 (mouse_encode 1 btn press mods x y)
  = Some (expected_m btn press mods (Z.min x 2015) (Z.min y 2015)).
Proof.
  intros b p m x y Hb Hm Hx Hy. rewrite utf8_shape by assumption.
  pose proof (code_m_range b p m Hb Hm).
  cbn [app]. unfold decode_utf8.
  rewrite utf8_char_encode by lia. rewrite utf8_char_encode by lia.
  rewrite <- (app_nil_r (utf8_encode_rune (32 + Z.min y 2015))).
  rewrite utf8_char_encode by lia.
  replace ((32 <=? 32 + btn_byte_rel b p m) && (32 <=? 32 + Z.min x 2015) && (32 <=? 32 + Z.min y 2015))
    with true by lia.
  replace (32 + btn_byte_rel b p m - 32) with (btn_byte_rel b p m) by lia.
  replace (32 + Z.min x 2015 - 32) with (Z.min x 2015) by lia.
  replace (32 + Z.min y 2015 - 32) with (Z.min y 2015) by lia.
  apply code_m_report; assumption.
Qed.

(* exact coordinates as long as 32+v fits two UTF-8 bytes *)
Lemma utf8_report_exact : forall btn press mods x y, button btn -> flagset mods ->
  0 <= x -> 32 + x <= 2047 -> 0 <= y -> 32 + y <= 2047 ->
  decode_utf8 (mouse_encode 1 btn press mods x y) = Some (expected_m btn press mods x y).
Proof.
  intros b p m x y Hb Hm Hx Hx' Hy Hy'. rewrite utf8_report by assumption.
  rewrite !Z.min_l by lia. reflexivity.
Qed.

(* every character of the report is at most two bytes: the report is 6 to 9 bytes long *)
Lemma utf8_rune_len v : 0 <= v <= 2047 -> (1 <= length (utf8_encode_rune v) <= 2)%nat.
Proof.
  intro H. unfold utf8_encode_rune. destruct (v <? 0) eqn:E0; [lia|].
  destruct (v <=? 127); [cbn; lia|]. destruct (v <=? 2047) eqn:E2; [cbn; lia|lia].
Qed.
Lemma utf8_len : forall btn press mods x y, button btn -> flagset mods -> 0 <= x -> 0 <= y ->
  (6 <= length (mouse_encode 1 btn press mods x y) <= 9)%nat.
Proof.
  intros b p m x y Hb Hm Hx Hy. rewrite utf8_shape by assumption.
  pose proof (code_m_range b p m Hb Hm).
  rewrite !app_length.
  pose proof (utf8_rune_len (32 + btn_byte_rel b p m) ltac:(lia)).
  pose proof (utf8_rune_len (32 + Z.min x 2015) ltac:(lia)).
  pose proof (utf8_rune_len (32 + Z.min y 2015) ltac:(lia)).
  cbn [length]. lia.
Qed.

(* ---- SGR: decimal printing and parsing ---- *)
Lemma itoa_fuel_app f : forall n acc rest, itoa_fuel f n acc ++ rest = itoa_fuel f n (acc ++ rest).
Proof.
  induction f as [|f IH]; intros n acc rest; cbn [itoa_fuel]; [reflexivity|].
  destruct (n <? 10); [reflexivity|]. rewrite IH. reflexivity.
Qed.

(* number of digits itoa_fuel prints *)
Fixpoint ndig (f : nat) (n : Z) : Z :=
  match f with
  | O => 0
  | S f' => if n <? 10 then 1 else 1 + ndig f' (n / 10)
  end.
Lemma ndig_nonneg f : forall n, 0 <= ndig f n.
Proof. induction f as [|f IH]; intro n; cbn [ndig]; [lia|]. destruct (n <? 10); [lia|]. specialize (IH (n / 10)). lia. Qed.

Lemma parse_dec_digit seen acc d l : 48 <= d <= 57 ->
  parse_dec seen acc (d :: l) = parse_dec true (10 * acc + (d - 48)) l.
Proof.
  intro H. cbn [parse_dec]. unfold is_digit. replace ((48 <=? d) && (d <=? 57)) with true by lia. reflexivity.
Qed.

Lemma parse_itoa_fuel f : forall n acc seen a, 0 <= n < 10 ^ Z.of_nat (S f) ->
  parse_dec seen a (itoa_fuel (S f) n acc) = parse_dec true (a * 10 ^ ndig (S f) n + n) acc.
Proof.
  induction f as [|f IH]; intros n acc seen a Hn.
  - change (10 ^ Z.of_nat 1) with 10 in Hn.
    cbn [itoa_fuel ndig]. replace (n <? 10) with true by lia.
    rewrite parse_dec_digit by lia. f_equal. change (10 ^ 1) with 10. lia.
  - remember (S f) as f1 eqn:Ef1. cbn [itoa_fuel ndig].
    destruct (n <? 10) eqn:E.
    + rewrite parse_dec_digit by lia. f_equal. change (10 ^ 1) with 10. lia.
    + assert (Hp : 10 ^ Z.of_nat (S f1) = 10 * 10 ^ Z.of_nat f1).
      { rewrite Nat2Z.inj_succ, Z.pow_succ_r by lia. reflexivity. }
      subst f1. rewrite IH by lia.
      rewrite parse_dec_digit by lia. f_equal.
      pose proof (ndig_nonneg (S f) (n / 10)) as Hk.
      rewrite (Z.pow_add_r 10 1 (ndig (S f) (n / 10))) by lia. change (10 ^ 1) with 10.
      set (K := 10 ^ ndig (S f) (n / 10)).
      assert (Hn10 : n = 10 * (n / 10) + n mod 10) by (apply Z.div_mod; lia).
      nia.
Qed.

(* printing then parsing gives the number back and leaves the rest of the input *)
Lemma parse_itoa n rest : 0 <= n < 10 ^ 20 ->
  parse_dec false 0 (itoa n ++ rest) = parse_dec true n rest.
Proof.
  intro H. unfold itoa. replace (n <? 0) with false by lia.
  rewrite itoa_fuel_app. cbn [app]. rewrite (parse_itoa_fuel 19) by (exact H).
  f_equal.
Qed.

Lemma parse_dec_stop n d rest : d < 48 \/ 57 < d -> parse_dec true n (d :: rest) = Some (n, d :: rest).
Proof.
  intro H. cbn [parse_dec]. unfold is_digit. replace ((48 <=? d) && (d <=? 57)) with false by lia. reflexivity.
Qed.

Lemma sgr_shape : forall btn press mods x y,
  mouse_encode 2 btn press mods x y =
    [27; 91; 60] ++ itoa (btn_byte_sgr btn mods) ++ [59] ++ itoa x ++ [59] ++ itoa y
      ++ [if press then 77 else 109].
Proof. reflexivity. Qed.

Lemma sgr_report : forall btn press mods x y, button btn -> flagset mods ->
  0 <= x < 2 ^ 63 -> 0 <= y < 2 ^ 63 ->
  decode_sgr (mouse_encode 2 btn press mods x y) = Some (expected_sgr btn press mods x y).
Proof.
  intros b p m x y Hb Hm Hx Hy. rewrite sgr_shape.
  pose proof (code_sgr_range b m Hb Hm) as Hc.
  assert (H63 : 2 ^ 63 < 10 ^ 20) by reflexivity.
  cbn [app]. unfold decode_sgr.
  rewrite parse_itoa by lia. cbn [app]. rewrite parse_dec_stop by lia.
  rewrite parse_itoa by lia. cbn [app]. rewrite parse_dec_stop by lia.
  rewrite parse_itoa by lia. rewrite parse_dec_stop by (destruct p; lia).
  replace (btn_byte_sgr b m <? 128) with true by lia.
  destruct p; cbn [Z.eqb Pos.eqb orb andb]; f_equal.
  - exact (code_sgr_report b true m x y Hb Hm).
  - exact (code_sgr_report b false m x y Hb Hm).
Qed.

(* ---- all three encodings ---- *)
Lemma one_report : forall enc btn press mods x y,
  0 <= enc <= 2 -> button btn -> flagset mods -> 0 <= x < 2 ^ 63 -> 0 <= y < 2 ^ 63 ->
  decode enc (mouse_encode enc btn press mods x y) = Some (expected_report enc btn press mods x y).
Proof.
  intros enc b p m x y He Hb Hm Hx Hy.
  assert (enc = 0 \/ enc = 1 \/ enc = 2) as [-> | [-> | ->]] by lia; unfold decode, expected_report;
    cbn [Z.eqb Pos.eqb].
  - apply x10_report; (assumption || lia).
  - apply utf8_report; (assumption || lia).
  - apply sgr_report; assumption.
Qed.

(* the kind of the decoded report is the kind of the event, provided a plain press
   names a real button: code 3 without motion or wheel means "release" in CSI M *)
Lemma report_kind : forall enc btn press mods x y,
  (press = true -> has_motion mods = false -> has_wheel mods = false -> btn <> 3) ->
  kind_of (expected_report enc btn press mods x y) = event_kind press mods.
Proof.
  intros enc b p m x y H. unfold expected_report, expected_m, expected_sgr, kind_of, event_kind.
  destruct (enc =? 0), (enc =? 1); cbn [r_wheel r_motion r_release];
    destruct (has_wheel m), (has_motion m), p; cbn [andb negb]; try reflexivity;
    destruct (Z.eqb_spec b 3); try reflexivity; exfalso; apply H; auto.
Qed.

(* SGR reports the button of every event; the CSI M forms report it for everything
   but a release *)
Lemma report_button : forall enc btn press mods x y,
  r_btn (expected_report enc btn press mods x y) = if (enc =? 0) || (enc =? 1) then (if press then btn else 3) else btn.
Proof.
  intros. unfold expected_report. destruct (enc =? 0), (enc =? 1); reflexivity.
Qed.

Lemma report_mods : forall enc btn press mods x y,
  r_mods (expected_report enc btn press mods x y) = key_mods mods /\
  r_motion (expected_report enc btn press mods x y) = has_motion mods /\
  r_wheel (expected_report enc btn press mods x y) = has_wheel mods.
Proof.
  intros. unfold expected_report. destruct (enc =? 0), (enc =? 1); cbn; auto.
Qed.

Lemma report_coords : forall enc btn press mods x y, 0 <= enc <= 2 ->
  let r := expected_report enc btn press mods x y in
  let lim := if enc =? 0 then 223 else if enc =? 1 then 2015 else Z.max x y in
  r_x r = Z.min x lim /\ r_y r = Z.min y lim.
Proof.
  intros enc b p m x y He. unfold expected_report.
  assert (enc = 0 \/ enc = 1 \/ enc = 2) as [-> | [-> | ->]] by lia; cbn; lia.
Qed.

(* "the same button / kind for all 4 buttons" is false of the CSI M forms, by the
   definition of the protocol, not of this implementation *)
Lemma same_button_refuted : exists enc btn press mods x y,
  0 <= enc <= 2 /\ button btn /\ flagset mods /\
  exists r, decode enc (mouse_encode enc btn press mods x y) = Some r /\ r_btn r <> btn.
Proof.
  exists 0, 0, false, 0, 1, 1. unfold button, flagset. repeat split; try lia; try reflexivity.
  eexists. split; [vm_compute; reflexivity|]. cbn. lia.
Qed.
Lemma same_kind_refuted : exists enc btn press mods x y,
  0 <= enc <= 2 /\ button btn /\ flagset mods /\
  exists r, decode enc (mouse_encode enc btn press mods x y) = Some r /\ kind_of r <> event_kind press mods.
Proof.
  exists 0, 3, true, 0, 1, 1. unfold button, flagset. repeat split; try lia; try reflexivity.
  eexists. split; [vm_compute; reflexivity|]. vm_compute. discriminate.
Qed.

(* ---- the report contains no second ESC: every byte after the first is 32..255 ---- *)

Lemma utf8_rune_printable v : 32 <= v <= 2047 -> Forall printable (utf8_encode_rune v).
Proof.
  intro H. unfold utf8_encode_rune, printable. destruct (v <? 0) eqn:E0; [lia|].
  destruct (v <=? 127) eqn:E1; [repeat constructor; lia|].
  destruct (v <=? 2047) eqn:E2; [|lia]. repeat constructor; lia.
Qed.

Lemma itoa_fuel_printable f : forall n acc, 0 <= n -> Forall printable acc -> Forall printable (itoa_fuel f n acc).
Proof.
  induction f as [|f IH]; intros n acc Hn Ha; cbn [itoa_fuel]; [exact Ha|].
  assert (printable (48 + n mod 10)) by (unfold printable; lia).
  destruct (n <? 10); [constructor; assumption|]. apply IH; [lia|constructor; assumption].
Qed.
Lemma itoa_printable n : 0 <= n -> Forall printable (itoa n).
Proof. intro H. unfold itoa. replace (n <? 0) with false by lia. apply itoa_fuel_printable; [lia|constructor]. Qed.

Lemma report_printable : forall enc btn press mods x y,
  0 <= enc <= 2 -> button btn -> flagset mods -> 0 <= x -> 0 <= y ->
  exists rest, mouse_encode enc btn press mods x y = 27 :: rest /\ Forall printable rest.
Proof.
  intros enc b p m x y He Hb Hm Hx Hy.
  assert (enc = 0 \/ enc = 1 \/ enc = 2) as [-> | [-> | ->]] by lia.
  - rewrite x10_shape by assumption. eexists; split; [reflexivity|].
    pose proof (code_m_range b p m Hb Hm). unfold printable. repeat constructor; lia.
  - rewrite utf8_shape by assumption. cbn [app]. eexists; split; [reflexivity|].
    pose proof (code_m_range b p m Hb Hm).
    constructor; [unfold printable; lia|]. constructor; [unfold printable; lia|].
    apply Forall_app; split; [apply utf8_rune_printable; lia|].
    apply Forall_app; split; apply utf8_rune_printable; lia.
  - rewrite sgr_shape. cbn [app]. eexists; split; [reflexivity|].
    pose proof (code_sgr_range b m Hb Hm).
    constructor; [unfold printable; lia|]. constructor; [unfold printable; lia|].
    apply Forall_app; split; [apply itoa_printable; lia|]. constructor; [unfold printable; lia|].
    apply Forall_app; split; [apply itoa_printable; lia|]. constructor; [unfold printable; lia|].
    apply Forall_app; split; [apply itoa_printable; lia|].
    constructor; [destruct p; unfold printable; lia|constructor].
Qed.

(* ================= M3: the write path ================= *)
Lemma clamp_range n len : 0 <= len -> 0 <= clamp n 0 len <= len.
Proof.
  intro H. unfold clamp. destruct (n <? 0) eqn:E1.
  - destruct (len <? 0) eqn:E2; lia.
  - destruct (len <? n) eqn:E2; lia.
Qed.
Lemma clamp_id n len : 0 <= n <= len -> clamp n 0 len = n.
Proof.
  intro H. unfold clamp. destruct (n <? 0) eqn:E1; [lia|]. destruct (len <? n) eqn:E2; lia.
Qed.
Lemma clamp_cases n len : 0 < len ->
  (n <= 0 /\ clamp n 0 len = 0) \/ (0 < n <= len /\ clamp n 0 len = n) \/ (len < n /\ clamp n 0 len = len).
Proof.
  intro H. unfold clamp. destruct (n <? 0) eqn:E1.
  - destruct (len <? 0) eqn:E2; lia.
  - destruct (len <? n) eqn:E2; lia.
Qed.
Lemma zlen_nonneg {A} (l : list A) : 0 <= zlen l.
Proof. unfold zlen. lia. Qed.
Lemma zlen_zskipn {A} n (l : list A) : 0 <= n <= zlen l -> zlen (zskipn n l) = zlen l - n.
Proof. intro H. unfold zlen, zskipn in *. rewrite skipn_length. lia. Qed.
Lemma zfirstn_zskipn {A} n (l : list A) : zfirstn n l ++ zskipn n l = l.
Proof. unfold zfirstn, zskipn. apply firstn_skipn. Qed.

Lemma write_loop_cons z b n e rest :
  write_loop (z :: b) ((n, e) :: rest) =
    let n' := clamp n 0 (zlen (z :: b)) in
    if e then (zfirstn n' (z :: b), true)
    else if n' =? 0 then ([], true)
    else let '(d, e') := write_loop (zskipn n' (z :: b)) rest in (zfirstn n' (z :: b) ++ d, e').
Proof. reflexivity. Qed.

(* the backend receives a prefix of the bytes handed to Write *)
Lemma write_loop_prefix s : forall b, exists suf, b = fst (write_loop b s) ++ suf.
Proof.
  induction s as [|[n e] rest IH]; intros [|z b].
  - exists []. reflexivity.
  - exists []. cbn. rewrite app_nil_r. reflexivity.
  - exists []. reflexivity.
  - rewrite write_loop_cons. cbv zeta. set (n' := clamp n 0 (zlen (z :: b))).
    destruct e.
    + exists (zskipn n' (z :: b)). cbn [fst]. symmetry. apply zfirstn_zskipn.
    + destruct (n' =? 0).
      * exists (z :: b). reflexivity.
      * destruct (IH (zskipn n' (z :: b))) as [suf Hs].
        destruct (write_loop (zskipn n' (z :: b)) rest) as [d e'].
        exists suf. cbn [fst] in *. rewrite <- app_assoc, <- Hs. symmetry. apply zfirstn_zskipn.
Qed.

(* no error: everything was delivered *)
Lemma write_loop_ok s : forall b, snd (write_loop b s) = false -> fst (write_loop b s) = b.
Proof.
  induction s as [|[n e] rest IH]; intros [|z b]; try reflexivity.
  rewrite write_loop_cons. cbv zeta. set (n' := clamp n 0 (zlen (z :: b))).
  destruct e; [discriminate|]. destruct (n' =? 0); [discriminate|].
  specialize (IH (zskipn n' (z :: b))).
  destruct (write_loop (zskipn n' (z :: b)) rest) as [d e']. cbn [fst snd] in *.
  intro H. rewrite (IH H). apply zfirstn_zskipn.
Qed.

(* when is an error returned: the scripted backend reaches, before all bytes are
   delivered, a call that fails or takes nothing *)

Lemma sum_good_nonneg l : Forall good l -> 0 <= sum_n l.
Proof.
  induction 1 as [|p l Hp _ IH]; [cbn; lia|]. destruct p as [n e]. destruct Hp as [_ Hp].
  unfold sum_n in *. cbn [fold_right fst] in *. lia.
Qed.

Lemma write_loop_err_iff s : forall b, snd (write_loop b s) = true <-> stops_early (zlen b) s.
Proof.
  induction s as [|[n e] rest IH]; intros b.
  - split.
    + destruct b; discriminate.
    + intros (k & n & e & Hk & _). destruct k; discriminate.
  - destruct b as [|z b].
    + split; [discriminate|]. intros (k & n0 & e0 & _ & _ & Hg & Hs).
      apply sum_good_nonneg in Hg. change (zlen (@nil Z)) with 0 in Hs. lia.
    + rewrite write_loop_cons. cbv zeta.
      pose proof (zlen_nonneg b) as Hb0.
      assert (Hlen : zlen (z :: b) = zlen b + 1) by (unfold zlen; cbn [length]; lia).
      pose proof (clamp_range n (zlen (z :: b)) ltac:(lia)) as Hc.
      remember (clamp n 0 (zlen (z :: b))) as n' eqn:En'.
      destruct e.
      * split; [intros _|reflexivity]. exists 0%nat, n, true. cbn [nth_error firstn sum_n fold_right]. repeat split; auto; lia.
      * destruct (Z.eqb_spec n' 0) as [E0|E0].
        -- split; [intros _|reflexivity]. exists 0%nat, n, false. cbn [nth_error firstn sum_n fold_right]. repeat split; auto; try lia.
           right. destruct (clamp_cases n (zlen (z :: b)) ltac:(lia)) as [[? Hcc]|[[? Hcc]|[? Hcc]]]; rewrite <- En' in Hcc; lia.
        -- assert (Hnpos : 0 < n).
           { destruct (clamp_cases n (zlen (z :: b)) ltac:(lia)) as [[? Hcc]|[[? Hcc]|[? Hcc]]]; rewrite <- En' in Hcc; lia. }
           specialize (IH (zskipn n' (z :: b))). rewrite zlen_zskipn in IH by lia.
           destruct (write_loop (zskipn n' (z :: b)) rest) as [d e']. cbn [snd] in *.
           rewrite IH. split.
           ++ intros (k & n0 & e0 & Hk & Hbad & Hg & Hs).
              exists (S k), n0, e0. cbn [nth_error firstn sum_n fold_right fst]. repeat split; auto.
              ** constructor; [split; [reflexivity|exact Hnpos]|exact Hg].
              ** pose proof (sum_good_nonneg _ Hg).
                 fold (sum_n (firstn k rest)).
                 destruct (clamp_cases n (zlen (z :: b)) ltac:(lia)) as [[? Hcc]|[[? Hcc]|[? Hcc]]]; rewrite <- En' in Hcc; lia.
           ++ intros (k & n0 & e0 & Hk & Hbad & Hg & Hs). destruct k as [|k].
              ** cbn in Hk. injection Hk as <- <-. destruct Hbad; [discriminate|lia].
              ** cbn [nth_error firstn] in *. apply Forall_cons_iff in Hg. destruct Hg as [_ Hg'].
                 cbn [sum_n fold_right fst] in Hs. fold (sum_n (firstn k rest)) in Hs.
                 pose proof (sum_good_nonneg _ Hg').
                 assert (n' = n) by (rewrite En'; apply clamp_id; lia).
                 exists k, n0, e0. repeat split; auto. lia.
Qed.

(* a backend that never fails and always takes something delivers everything *)
Lemma write_loop_good s b : Forall good s -> write_loop b s = (b, false).
Proof.
  intro Hg.
  assert (He : snd (write_loop b s) = false).
  { destruct (snd (write_loop b s)) eqn:E; [|reflexivity]. exfalso.
    apply write_loop_err_iff in E. destruct E as (k & n & e & Hk & Hbad & _).
    apply nth_error_In in Hk. rewrite Forall_forall in Hg. destruct (Hg _ Hk) as [H1 H2].
    cbn in H1, H2. destruct Hbad; [congruence|lia]. }
  pose proof (write_loop_ok s b He). destruct (write_loop b s); cbn in *; congruence.
Qed.

(* ---- SendMouseRaw as a whole ---- *)
Lemma encode_nonempty enc btn press mods x y : 0 <= enc <= 2 ->
  exists rest, mouse_encode enc btn press mods x y = 27 :: rest.
Proof.
  intro He. assert (enc = 0 \/ enc = 1 \/ enc = 2) as [-> | [-> | ->]] by lia;
    unfold mouse_encode; cbn [meX10 meUTF8 meSGR Z.eqb Pos.eqb app]; eexists; reflexivity.
Qed.

(* a filtered event: no backend.Write call at all, nil returned *)
Lemma send_filtered : forall mode enc btn press mods x y s,
  mouse_filter mode btn press mods = false ->
  send_mouse mode enc btn press mods x y s = ([], false) /\
  send_mouse_calls mode enc btn press mods x y s = 0 /\
  send_mouse_status mode enc btn press mods x y s = 0.
Proof.
  intros. unfold send_mouse_status, send_mouse, send_mouse_calls. rewrite H. auto.
Qed.

(* a reported event against a backend that takes everything: the report, in one Write call *)
Lemma send_whole : forall mode enc btn press mods x y,
  mouse_filter mode btn press mods = true -> 0 <= enc <= 2 ->
  send_mouse mode enc btn press mods x y [] = (mouse_encode enc btn press mods x y, false) /\
  send_mouse_calls mode enc btn press mods x y [] = 1.
Proof.
  intros mode enc b p m x y Hf He. unfold send_mouse, send_mouse_calls. rewrite Hf.
  destruct (encode_nonempty enc b p m x y He) as [rest ->]. auto.
Qed.

(* ... or in several calls, against a backend that takes the bytes in pieces *)
Lemma send_good : forall mode enc btn press mods x y s,
  mouse_filter mode btn press mods = true -> Forall good s ->
  send_mouse mode enc btn press mods x y s = (mouse_encode enc btn press mods x y, false).
Proof.
  intros mode enc b p m x y s Hf Hg. unfold send_mouse. rewrite Hf. apply write_loop_good; exact Hg.
Qed.

(* whatever the backend does, it receives a prefix of the one report *)
Lemma send_prefix : forall mode enc btn press mods x y s,
  exists suf, mouse_encode enc btn press mods x y = fst (send_mouse mode enc btn press mods x y s) ++ suf.
Proof.
  intros mode enc b p m x y s. unfold send_mouse. destruct (mouse_filter mode b p m).
  - apply write_loop_prefix.
  - eexists; reflexivity.
Qed.

(* nil returned: nothing (filtered) or the whole report was delivered *)
Lemma send_ok : forall mode enc btn press mods x y s,
  snd (send_mouse mode enc btn press mods x y s) = false ->
  fst (send_mouse mode enc btn press mods x y s) =
    if mouse_filter mode btn press mods then mouse_encode enc btn press mods x y else [].
Proof.
  intros mode enc b p m x y s. unfold send_mouse. destruct (mouse_filter mode b p m).
  - apply write_loop_ok.
  - reflexivity.
Qed.

(* an error is returned exactly when the event is reported and the backend fails or
   takes nothing before the report is complete *)
Lemma send_err_iff : forall mode enc btn press mods x y s,
  snd (send_mouse mode enc btn press mods x y s) = true <->
  mouse_filter mode btn press mods = true /\
  stops_early (zlen (mouse_encode enc btn press mods x y)) s.
Proof.
  intros mode enc b p m x y s. unfold send_mouse. destruct (mouse_filter mode b p m).
  - rewrite write_loop_err_iff. tauto.
  - cbn. split; [discriminate|intros [H _]; discriminate].
Qed.

(* the outcome: never a panic while the encoding register holds one of the three
   encodings; the panic left in the Go code is exactly the unknown-encoding one *)
Lemma send_status : forall mode enc btn press mods x y s,
  let st := send_mouse_status mode enc btn press mods x y s in
  (st = 0 \/ st = 1 \/ st = 2) /\
  (st = 2 <-> mouse_filter mode btn press mods = true /\ mouse_enc_known enc = false) /\
  (mouse_enc_known enc = true -> (st = 1 <-> snd (send_mouse mode enc btn press mods x y s) = true)).
Proof.
  intros mode enc b p m x y s. unfold send_mouse_status.
  destruct (mouse_filter mode b p m) eqn:Ef, (mouse_enc_known enc) eqn:Ek; cbn [andb negb];
    destruct (snd (send_mouse mode enc b p m x y s)); repeat split; intros; try lia; try tauto;
    try discriminate; try (destruct H; discriminate); auto.
Qed.

Lemma enc_known_iff enc : mouse_enc_known enc = true <-> 0 <= enc <= 2.
Proof. unfold mouse_enc_known, meX10, meUTF8, meSGR. lia. Qed.

Lemma send_no_panic : forall mode enc btn press mods x y s, 0 <= enc <= 2 ->
  send_mouse_status mode enc btn press mods x y s <> 2.
Proof.
  intros mode enc b p m x y s He. pose proof (send_status mode enc b p m x y s) as (_ & H2 & _).
  apply enc_known_iff in He. intro E. apply H2 in E. destruct E as [_ E]. congruence.
Qed.

(* ================= Go's string(rune(v)) in general (background to D36) ================= *)

(* a Unicode scalar value is encoded as its UTF-8 form ... *)
Lemma utf8_scalar_encode v rest : scalar_value v ->
  utf8_scalar (utf8_encode_rune v ++ rest) = Some (v, rest).
Proof.
  intros [H1 H2]. unfold utf8_encode_rune.
  destruct (v <? 0) eqn:E0; [lia|].
  destruct (v <=? 127) eqn:E1.
  { cbn [app]. unfold utf8_scalar. replace ((0 <=? v) && (v <=? 127)) with true by lia. reflexivity. }
  destruct (v <=? 2047) eqn:E2.
  { cbn [app]. unfold utf8_scalar, is_cont.
    replace ((0 <=? 192 + v / 64) && (192 + v / 64 <=? 127)) with false by lia.
    replace ((194 <=? 192 + v / 64) && (192 + v / 64 <=? 223)) with true by lia.
    replace ((128 <=? 128 + v mod 64) && (128 + v mod 64 <=? 191)) with true by lia.
    f_equal. f_equal. lia. }
  destruct ((55296 <=? v) && (v <=? 57343)) eqn:E3; [lia|].
  destruct (v <=? 65535) eqn:E4.
  { cbn [app]. unfold utf8_scalar, is_cont.
    replace ((0 <=? 224 + v / 4096) && (224 + v / 4096 <=? 127)) with false by lia.
    replace ((194 <=? 224 + v / 4096) && (224 + v / 4096 <=? 223)) with false by lia.
    replace ((224 <=? 224 + v / 4096) && (224 + v / 4096 <=? 239)) with true by lia.
    replace ((224 + v / 4096 - 224) * 4096 + (128 + (v / 64) mod 64 - 128) * 64 + (128 + v mod 64 - 128))
      with v by lia.
    replace ((128 <=? 128 + (v / 64) mod 64) && (128 + (v / 64) mod 64 <=? 191)) with true by lia.
    replace ((128 <=? 128 + v mod 64) && (128 + v mod 64 <=? 191)) with true by lia.
    replace (2048 <=? v) with true by lia. rewrite E3. reflexivity. }
  destruct (v <=? 1114111) eqn:E5; [|lia].
  cbn [app]. unfold utf8_scalar, is_cont.
  replace ((0 <=? 240 + v / 262144) && (240 + v / 262144 <=? 127)) with false by lia.
  replace ((194 <=? 240 + v / 262144) && (240 + v / 262144 <=? 223)) with false by lia.
  replace ((224 <=? 240 + v / 262144) && (240 + v / 262144 <=? 239)) with false by lia.
  replace ((240 <=? 240 + v / 262144) && (240 + v / 262144 <=? 244)) with true by lia.
  replace ((240 + v / 262144 - 240) * 262144 + (128 + (v / 4096) mod 64 - 128) * 4096
           + (128 + (v / 64) mod 64 - 128) * 64 + (128 + v mod 64 - 128)) with v by lia.
  replace ((128 <=? 128 + (v / 4096) mod 64) && (128 + (v / 4096) mod 64 <=? 191)) with true by lia.
  replace ((128 <=? 128 + (v / 64) mod 64) && (128 + (v / 64) mod 64 <=? 191)) with true by lia.
  replace ((128 <=? 128 + v mod 64) && (128 + v mod 64 <=? 191)) with true by lia.
  replace (65536 <=? v) with true by lia. rewrite E5. reflexivity.
Qed.

(* ... and anything else (negative, surrogate, beyond U+10FFFF) as U+FFFD *)
Lemma utf8_encode_invalid v : ~ scalar_value v -> utf8_encode_rune v = utf8_replacement.
Proof.
  intro H. unfold scalar_value in H. unfold utf8_encode_rune.
  destruct (v <? 0) eqn:E0; [reflexivity|].
  destruct (v <=? 127) eqn:E1; [lia|].
  destruct (v <=? 2047) eqn:E2; [lia|].
  destruct ((55296 <=? v) && (v <=? 57343)) eqn:E3; [reflexivity|].
  destruct (v <=? 65535) eqn:E4; [lia|].
  destruct (v <=? 1114111) eqn:E5; [lia|reflexivity].
Qed.

(* Why D36 is needed: without the clamp (the code before D36 handed 32+v to
   string(rune(..)) unchanged) a coordinate whose 32+v is a surrogate is sent as
   U+FFFD and reads back as 65533 - 32 on the other side. *)
Lemma utf8_unclamped_refuted : exists v, 0 <= v /\
  utf8_scalar (utf8_encode_rune (to_int32 (32 + v))) <> Some (32 + v, []).
Proof. exists 55264. split; [lia|]. vm_compute. discriminate. Qed.

(* ================= instances ================= *)
(* M1: a drag with button 1 is reported in button-motion mode, motion with no button
   held is not; press-only mode drops the wheel; press/release mode reports it *)
Example ex_filter_drag : mouse_filter 3 0 true 32 = true /\ mouse_filter 3 3 true 32 = false.
Proof. split; reflexivity. Qed.
Example ex_filter_wheel : mouse_filter 1 0 true 64 = false /\ mouse_filter 2 0 true 64 = true.
Proof. split; reflexivity. Qed.
Example ex_filter_release : mouse_filter 1 0 false 0 = false /\ mouse_filter 2 0 false 0 = true.
Proof. split; reflexivity. Qed.

(* M2, X10: button 1 pressed at column 96, row 300: three single payload bytes, row clamped *)
Example ex_x10 :
  mouse_encode 0 0 true 0 96 300 = [27; 91; 77; 32; 128; 255] /\
  decode_x10 [27; 91; 77; 32; 128; 255] = Some (mkReport 0 0 false false false 96 223).
Proof. split; reflexivity. Qed.
(* wheel + motion flags: the button byte is 128, still one byte *)
Example ex_x10_wheel_motion : mouse_encode 0 0 true 96 1 1 = [27; 91; 77; 128; 33; 33].
Proof. reflexivity. Qed.

(* M2, UTF-8: control+shift press of button 2 at (200, 3000): two-byte column, row clamped to 2015 *)
Example ex_utf8 :
  mouse_encode 1 1 true 20 200 3000 = [27; 91; 77; 53; 195; 168; 223; 191] /\
  decode_utf8 [27; 91; 77; 53; 195; 168; 223; 191] = Some (mkReport 1 20 false false false 200 2015).
Proof. split; vm_compute; reflexivity. Qed.

(* M2, SGR: meta release of button 3 at (1234, 65535) is ESC [ < 10 ; 1234 ; 65535 m *)
Example ex_sgr :
  mouse_encode 2 2 false 8 1234 65535
    = [27; 91; 60; 49; 48; 59; 49; 50; 51; 52; 59; 54; 53; 53; 51; 53; 109] /\
  decode_sgr (mouse_encode 2 2 false 8 1234 65535) = Some (mkReport 2 8 false false true 1234 65535).
Proof. split; vm_compute; reflexivity. Qed.
(* wheel down with shift, SGR *)
Example ex_sgr_wheel :
  decode_sgr (mouse_encode 2 1 true 68 10 20) = Some (mkReport 1 4 false true false 10 20) /\
  kind_of (mkReport 1 4 false true false 10 20) = KWheel.
Proof. split; vm_compute; reflexivity. Qed.

(* decimal round trip *)
Example ex_parse_itoa : parse_dec false 0 (itoa 9223372036854775807 ++ [59]) = Some (9223372036854775807, [59]).
Proof. vm_compute. reflexivity. Qed.

(* M3: the SGR report of a press at (12, 7) is ESC [ < 0 ; 1 2 ; 7 M, 10 bytes *)
Example ex_write_whole :
  send_mouse 4 2 0 true 0 12 7 [] = ([27; 91; 60; 48; 59; 49; 50; 59; 55; 77], false).
Proof. vm_compute. reflexivity. Qed.
(* a backend that takes 3 bytes and then nothing: io.ErrShortWrite after a 3-byte prefix *)
Example ex_write_short : send_mouse 4 2 0 true 0 12 7 [(3, false); (0, false)] = ([27; 91; 60], true).
Proof. vm_compute. reflexivity. Qed.
(* a backend that takes 1 byte, then 3 more together with an error *)
Example ex_write_err : send_mouse 4 2 0 true 0 12 7 [(1, false); (3, true)] = ([27; 91; 60; 48], true).
Proof. vm_compute. reflexivity. Qed.
(* a backend that takes the report in three pieces: no error, everything delivered, three calls *)
Example ex_write_chunks :
  send_mouse 4 2 0 true 0 12 7 [(1, false); (2, false); (1000, false)]
    = ([27; 91; 60; 48; 59; 49; 50; 59; 55; 77], false) /\
  send_mouse_calls 4 2 0 true 0 12 7 [(1, false); (2, false); (1000, false)] = 3.
Proof. split; vm_compute; reflexivity. Qed.
(* the second call of this script is the one that stops a 10-byte write early *)
Example ex_stops_early : stops_early 10 [(3, false); (0, false)].
Proof.
  exists 1%nat, 0, false. cbn. repeat split; try lia.
  constructor; [split; cbn; [reflexivity|lia]|constructor].
Qed.
(* a filtered event never reaches the backend, even a failing one *)
Example ex_write_filtered : send_mouse 1 0 0 true 32 5 5 [(0, true)] = ([], false).
Proof. reflexivity. Qed.
(* the remaining panic: an encoding register outside 0..2 *)
Example ex_status_unknown_enc : send_mouse_status 4 3 0 true 0 1 1 [] = 2 /\ send_mouse_status 0 3 0 true 0 1 1 [] = 0.
Proof. split; reflexivity. Qed.
