(* Control-sequence grammar (C09): a well-formed ESC / CSI / OSC / DCS sequence
   is exactly one token, which is never text, whatever follows it; unknown
   sequences change nothing; OSC 0/2/6/7 deliver exactly their payload.
   The side conditions in the wf_ predicates are the exact places where the
   tokenizer departs from ECMA-48; each departure has a [_refuted] witness. *)
From Coq Require Import List ZArith Bool Lia.
From Termemu Require Import Base Style Screen Kbd Parser Term BaseLemmas ParserProofs ParserMono
  ScreenInv TermInv HistProofs SegProofs ReplyProofs.
Import ListNotations.
Open Scope Z_scope.

(* ---------- boolean plumbing ---------- *)
Ltac b2p := repeat match goal with
  | H : _ && _ = true |- _ => apply andb_prop in H; destruct H
  | H : _ || _ = false |- _ => apply orb_false_elim in H; destruct H
  | H : negb _ = true |- _ => apply negb_true_iff in H
  | H : negb _ = false |- _ => apply negb_false_iff in H
  | H : (_ <=? _) = true |- _ => apply Z.leb_le in H
  | H : (_ <=? _) = false |- _ => apply Z.leb_gt in H
  | H : (_ <? _) = true |- _ => apply Z.ltb_lt in H
  | H : (_ <? _) = false |- _ => apply Z.ltb_ge in H
  | H : (_ =? _) = true |- _ => apply Z.eqb_eq in H
  | H : (_ =? _) = false |- _ => apply Z.eqb_neq in H
  | H : _ || _ = true |- _ => apply orb_prop in H
  | H : _ && _ = false |- _ => apply andb_false_iff in H
  | H : _ \/ _ |- _ => destruct H
  end.
(* decide a boolean goal about byte ranges from boolean hypotheses *)
Ltac bdec :=
  match goal with
  | |- ?X = true => let E := fresh "E" in destruct X eqn:E; [reflexivity|exfalso; b2p; lia]
  | |- ?X = false => let E := fresh "E" in destruct X eqn:E; [exfalso; b2p; lia|reflexivity]
  end.

(* ---------- byte classes of ECMA-48 ---------- *)
Definition is_param (b : Z) : bool := (48 <=? b) && (b <=? 63).    (* 0-9 : ; < = > ? *)
Definition is_inter (b : Z) : bool := (32 <=? b) && (b <=? 47).    (* space ! dquote # $ % & quote ( ) * + , - . / *)
(* [is_final] (0x40..0x7E) is in Model/Parser.v *)
Definition is_digsemi (b : Z) : bool := is_digit b || (b =? 59).

(* ================= CSI ================= *)

(* the bytes of the parameter string that the digit / ';' loop looks at:
   everything after an optional leading private marker < = > ? *)
Definition after_prefix (P : list Z) : list Z :=
  match P with b :: r => if is_private b then r else P | [] => [] end.
(* the one shape the tokenizer gets wrong: plain digits and ';' followed
   directly by '%' (0x25), which it takes as the final byte *)
Definition pct_final (P I : list Z) : bool :=
  forallb is_digsemi (after_prefix P) && (hd 0 I =? 37).

(* body = what follows "ESC [" *)
Definition wf_csi (body : list Z) : Prop :=
  exists P I F, body = P ++ I ++ [F] /\
    forallb is_param P = true /\ forallb is_inter I = true /\ is_final F = true /\
    pct_final P I = false.

(* parse_csi after the private marker has been split off *)
Definition csi_scan (prefix : Z) (body acc : list Z) (p : Z) (ps sp : bool) : pres :=
  match scan_params body acc p ps sp with
  | None => PMore
  | Some (params, fb, rest') =>
      if ((32 <=? fb) && (fb <=? 47) && negb (fb =? 37)) || ((58 <=? fb) && (fb <=? 63)) then
        match skip_to_final rest' with
        | None => PMore
        | Some rest'' => PTok TIgnore rest''
        end
      else PTok (TCsi prefix params fb) rest'
  end.

Lemma parse_csi_unfold b r :
  parse_csi (b :: r) = if is_private b then csi_scan b r [] 0 false false else csi_scan 0 (b :: r) [] 0 false false.
Proof. unfold parse_csi, csi_scan. destruct (is_private b); reflexivity. Qed.

Definition csi_tok (k : tok) : Prop := k = TIgnore \/ exists prefix ps f, k = TCsi prefix ps f.

Lemma skip_to_final_app N : forall F post,
  forallb (fun b => negb (is_final b)) N = true -> is_final F = true ->
  skip_to_final (N ++ F :: post) = Some post.
Proof.
  induction N as [|c N IH]; intros F post HN HF; cbn [app skip_to_final].
  - rewrite HF. reflexivity.
  - cbn [forallb] in HN. apply andb_prop in HN. destruct HN as (Hc & HN).
    apply negb_true_iff in Hc. rewrite Hc. apply IH; assumption.
Qed.

Lemma nonfinal_param_inter X I :
  forallb is_param X = true -> forallb is_inter I = true ->
  forallb (fun b => negb (is_final b)) (X ++ I) = true.
Proof.
  intros HX HI. rewrite forallb_app. apply andb_true_intro. split.
  - rewrite forallb_forall in *. intros b Hb. specialize (HX b Hb). unfold is_param, is_final in *. bdec.
  - rewrite forallb_forall in *. intros b Hb. specialize (HI b Hb). unfold is_inter, is_final in *. bdec.
Qed.

Lemma csi_scan_consumed prefix X : forall I F post acc p ps sp,
  forallb is_param X = true -> forallb is_inter I = true -> is_final F = true ->
  forallb is_digsemi X && (hd 0 I =? 37) = false ->
  exists k, csi_scan prefix (X ++ I ++ F :: post) acc p ps sp = PTok k post /\ csi_tok k.
Proof.
  induction X as [|c X IH]; intros I F post acc p ps sp HX HI HF Hd.
  - cbn [app forallb andb] in *. destruct I as [|c I].
    + cbn [app]. unfold csi_scan. cbn [scan_params].
      assert (E1 : (F =? 59) = false) by (unfold is_final in HF; bdec).
      assert (E2 : is_digit F = false) by (unfold is_final, is_digit in *; bdec).
      rewrite E1, E2.
      assert (E3 : ((32 <=? F) && (F <=? 47) && negb (F =? 37)) || ((58 <=? F) && (F <=? 63)) = false)
        by (unfold is_final in HF; bdec).
      rewrite E3. eexists. split; [reflexivity|]. right. eauto.
    + cbn [forallb hd] in *. apply andb_prop in HI. destruct HI as (Hc & HI).
      cbn [app]. unfold csi_scan. cbn [scan_params].
      assert (E1 : (c =? 59) = false) by (unfold is_inter in Hc; bdec).
      assert (E2 : is_digit c = false) by (unfold is_inter, is_digit in *; bdec).
      rewrite E1, E2.
      assert (E3 : ((32 <=? c) && (c <=? 47) && negb (c =? 37)) || ((58 <=? c) && (c <=? 63)) = true)
        by (unfold is_inter in Hc; bdec).
      rewrite E3.
      rewrite (skip_to_final_app I F post); [|exact (nonfinal_param_inter [] I eq_refl HI)|exact HF].
      eexists. split; [reflexivity|]. left. reflexivity.
  - cbn [forallb] in HX, Hd. apply andb_prop in HX. destruct HX as (Hc & HX).
    cbn [app]. unfold csi_scan. cbn [scan_params]. fold (csi_scan prefix).
    destruct (c =? 59) eqn:E1.
    { apply (IH I F post _ _ _ _ HX HI HF).
      unfold is_digsemi at 1 in Hd. rewrite E1, orb_true_r in Hd. exact Hd. }
    destruct (is_digit c) eqn:E2.
    { apply (IH I F post _ _ _ _ HX HI HF).
      unfold is_digsemi at 1 in Hd. rewrite E2 in Hd. exact Hd. }
    assert (E3 : ((32 <=? c) && (c <=? 47) && negb (c =? 37)) || ((58 <=? c) && (c <=? 63)) = true)
      by (unfold is_param, is_digit in *; bdec).
    rewrite E3. rewrite app_assoc.
    rewrite (skip_to_final_app (X ++ I) F post); [|apply nonfinal_param_inter; assumption|exact HF].
    eexists. split; [reflexivity|]. left. reflexivity.
Qed.

Theorem csi_consumed body post : wf_csi body ->
  exists k, parse_csi (body ++ post) = PTok k post /\ csi_tok k.
Proof.
  intros (P & I & F & -> & HP & HI & HF & Hd). unfold pct_final in Hd.
  rewrite <- !app_assoc. cbn [app].
  destruct P as [|b P].
  - cbn [app after_prefix forallb] in *.
    destruct I as [|c I]; cbn [app]; rewrite parse_csi_unfold.
    + assert (E : is_private F = false) by (unfold is_private, is_final in *; bdec). rewrite E.
      apply (csi_scan_consumed 0 [] [] F post); auto.
    + cbn [forallb] in HI. pose proof HI as HI'. apply andb_prop in HI'. destruct HI' as (Hc & _).
      assert (E : is_private c = false) by (unfold is_private, is_inter in *; bdec). rewrite E.
      apply (csi_scan_consumed 0 [] (c :: I) F post); auto.
  - cbn [app]. rewrite parse_csi_unfold. cbn [after_prefix] in Hd.
    destruct (is_private b) eqn:E.
    + cbn [forallb] in HP. apply andb_prop in HP. destruct HP as (_ & HP).
      apply csi_scan_consumed; assumption.
    + change (b :: P ++ I ++ F :: post) with ((b :: P) ++ I ++ F :: post).
      apply csi_scan_consumed; assumption.
Qed.

(* the deviation, exactly: with plain parameters, '%' ends the sequence and
   the remaining intermediates and the real final byte stay in the stream *)
Lemma scan_params_digsemi D : forall c tail acc p ps sp,
  forallb is_digsemi D = true -> is_digsemi c = false ->
  exists params, scan_params (D ++ c :: tail) acc p ps sp = Some (params, c, tail).
Proof.
  induction D as [|d D IH]; intros c tail acc p ps sp HD Hc; cbn [app scan_params].
  - unfold is_digsemi in Hc. apply orb_false_elim in Hc. destruct Hc as (Hc1 & Hc2).
    rewrite Hc1, Hc2. eexists. reflexivity.
  - cbn [forallb] in HD. apply andb_prop in HD. destruct HD as (Hd & HD).
    destruct (d =? 59) eqn:E59; [apply IH; assumption|].
    destruct (is_digit d) eqn:E; [apply IH; assumption|].
    unfold is_digsemi in Hd. rewrite E, E59 in Hd. discriminate Hd.
Qed.

Theorem csi_pct_cut P I' F post :
  forallb is_param P = true -> forallb is_digsemi (after_prefix P) = true ->
  exists prefix params,
    parse_csi (P ++ (37 :: I') ++ [F] ++ post) = PTok (TCsi prefix params 37) (I' ++ [F] ++ post).
Proof.
  intros HP HD. cbn [app].
  assert (H37 : is_digsemi 37 = false) by reflexivity.
  destruct P as [|b P].
  - cbn [app]. exists 0. destruct (scan_params_digsemi [] 37 (I' ++ F :: post) [] 0 false false eq_refl H37) as (ps & E).
    exists ps. rewrite parse_csi_unfold. change (is_private 37) with false. cbv iota. unfold csi_scan. cbn [app] in E. rewrite E. reflexivity.
  - cbn [app]. rewrite parse_csi_unfold. cbn [after_prefix] in HD. destruct (is_private b).
    + destruct (scan_params_digsemi P 37 (I' ++ F :: post) [] 0 false false HD H37) as (ps & E).
      exists b, ps. unfold csi_scan. rewrite E. reflexivity.
    + destruct (scan_params_digsemi (b :: P) 37 (I' ++ F :: post) [] 0 false false HD H37) as (ps & E).
      exists 0, ps. unfold csi_scan. cbn [app] in E. rewrite E. reflexivity.
Qed.

(* so the side condition of wf_csi is exact: a grammatical CSI body is consumed
   whole if and only if it is not of the '%' shape *)
Theorem csi_consumed_iff P I F :
  forallb is_param P = true -> forallb is_inter I = true -> is_final F = true ->
  ((exists k, forall post, parse_csi ((P ++ I ++ [F]) ++ post) = PTok k post) <-> pct_final P I = false).
Proof.
  intros HP HI HF. split.
  - intros (k & Hk). destruct (pct_final P I) eqn:E; [exfalso|reflexivity].
    unfold pct_final in E. apply andb_prop in E. destruct E as (E1 & E2).
    destruct I as [|c I']; [discriminate E2|]. cbn [hd] in E2. apply Z.eqb_eq in E2. subst c.
    destruct (csi_pct_cut P I' F [] HP E1) as (pr & ps & E).
    specialize (Hk []). rewrite <- !app_assoc in Hk. rewrite Hk in E. injection E as _ B.
    symmetry in B. apply app_eq_nil in B. destruct B as (_ & B). discriminate B.
  - intros Hd. assert (W : wf_csi (P ++ I ++ [F])) by (exists P, I, F; auto).
    destruct (csi_consumed _ [] W) as (k & E & _). exists k. intros post.
    pose proof (parse_csi_mono _ post _ _ E) as M. rewrite app_nil_r in M. exact M.
Qed.

(* ---- the parameters of a plain CSI, as a specification ---- *)
(* one more decimal digit, saturating at 65535 *)
Definition dig_step (cur b : Z) : Z :=
  let p := cur * 10 + (b - 48) in if maxCSIParam <? p then maxCSIParam else p.
(* split at ';', each field read in decimal, an empty field is 0 *)
Fixpoint csi_fields (l : list Z) (cur : Z) : list Z :=
  match l with
  | [] => [cur]
  | b :: r => if b =? 59 then cur :: csi_fields r 0 else csi_fields r (dig_step cur b)
  end.
(* no bytes: no parameters; at most 32 are kept *)
Definition csi_params (D : list Z) : list Z :=
  match D with [] => [] | _ => firstn 32 (csi_fields D 0) end.

Lemma firstn_firstn_app {A} n (a b : list A) : firstn n (firstn n a ++ b) = firstn n (a ++ b).
Proof.
  destruct (Nat.le_gt_cases (length a) n) as [H|H].
  - rewrite (firstn_all2 a) by exact H. reflexivity.
  - rewrite !firstn_app. rewrite firstn_firstn, Nat.min_id, firstn_length.
    replace (n - Nat.min n (length a))%nat with O by lia. replace (n - length a)%nat with O by lia. reflexivity.
Qed.

Lemma store_param_firstn acc v : (length acc <= 32)%nat -> store_param acc v = firstn 32 (acc ++ [v]).
Proof.
  intros H. unfold store_param, nParamStore, zlen. destruct (Z.ltb_spec (Z.of_nat (length acc)) 32).
  - rewrite firstn_all2; [reflexivity|]. rewrite app_length. cbn [length]. lia.
  - rewrite firstn_app. replace (32 - length acc)%nat with O by lia. rewrite firstn_O.
    rewrite app_nil_r, firstn_all2; [reflexivity|lia].
Qed.

Lemma store_param_len acc v : (length acc <= 32)%nat -> (length (store_param acc v) <= 32)%nat.
Proof. intros H. rewrite store_param_firstn by exact H. rewrite firstn_length. lia. Qed.

Lemma scan_params_spec D : forall c tail acc p ps sp,
  forallb is_digsemi D = true -> is_digsemi c = false ->
  (length acc <= 32)%nat -> (ps = false -> p = 0) ->
  scan_params (D ++ c :: tail) acc p ps sp =
  Some (if ps || sp || negb (match D with [] => true | _ => false end)
        then firstn 32 (acc ++ csi_fields D p) else acc, c, tail).
Proof.
  induction D as [|d D IH]; intros c tail acc p ps sp HD Hc Hl Hp; cbn [app scan_params].
  - unfold is_digsemi in Hc. apply orb_false_elim in Hc. destruct Hc as (Hc1 & Hc2). rewrite Hc1, Hc2.
    cbn [negb orb csi_fields]. rewrite orb_false_r.
    destruct (ps || sp) eqn:E; [|reflexivity].
    rewrite store_param_firstn by exact Hl. destruct ps; [reflexivity|]. rewrite (Hp eq_refl). reflexivity.
  - cbn [forallb] in HD. apply andb_prop in HD. destruct HD as (Hd & HD). cbn [negb orb csi_fields].
    rewrite !orb_true_r.
    destruct (d =? 59) eqn:E59.
    + rewrite (IH c tail _ 0 false true HD Hc (store_param_len acc p Hl) (fun _ => eq_refl)).
      cbn [orb]. rewrite store_param_firstn by exact Hl. rewrite firstn_firstn_app, <- app_assoc. reflexivity.
    + unfold is_digsemi in Hd. rewrite E59, orb_false_r in Hd. rewrite Hd.
      rewrite (IH c tail acc _ true false HD Hc Hl); [|discriminate]. cbn [orb]. reflexivity.
Qed.

(* the bytes that end the digit / ';' loop as the command's final byte:
   everything except digits, ';', the intermediates other than '%', and : < = > ?.
   Besides the finals 0x40-0x7E this lets in '%', the C0 controls, DEL and
   all bytes >= 0x80. *)
Definition csi_ends (b : Z) : bool :=
  negb (is_digsemi b) &&
  negb (((32 <=? b) && (b <=? 47) && negb (b =? 37)) || ((58 <=? b) && (b <=? 63))).

Lemma final_csi_ends F : is_final F = true -> csi_ends F = true.
Proof. intros H. unfold csi_ends, is_digsemi, is_digit, is_final in *. bdec. Qed.

(* "ESC [" [<=>?]? (digit | ;)* F  is the command F with exactly the decimal parameters written *)
Theorem csi_ends_token pfx D F post :
  pfx = [] \/ (exists b, pfx = [b] /\ is_private b = true) ->
  forallb is_digsemi D = true -> csi_ends F = true ->
  parse_csi (pfx ++ D ++ F :: post) = PTok (TCsi (hd 0 pfx) (csi_params D) F) post.
Proof.
  intros Hpfx HD HF. unfold csi_ends in HF. apply andb_prop in HF. destruct HF as (HcF & E3).
  apply negb_true_iff in HcF, E3.
  assert (S : forall prefix, csi_scan prefix (D ++ F :: post) [] 0 false false = PTok (TCsi prefix (csi_params D) F) post).
  { intros prefix. unfold csi_scan.
    rewrite (scan_params_spec D F post [] 0 false false HD HcF); [|cbn; lia|reflexivity].
    rewrite E3. cbn [orb app]. unfold csi_params. destruct D; reflexivity. }
  destruct Hpfx as [-> | (b & -> & Hb)]; cbn [app hd].
  - destruct D as [|d D'].
    + cbn [app]. rewrite parse_csi_unfold.
      assert (E : is_private F = false) by (unfold is_private in *; bdec). rewrite E. apply (S 0).
    + cbn [app]. rewrite parse_csi_unfold. cbn [forallb] in HD. pose proof HD as HD'. apply andb_prop in HD'.
      destruct HD' as (Hd & _).
      assert (E : is_private d = false) by (unfold is_private, is_digsemi, is_digit in *; bdec). rewrite E. apply (S 0).
  - rewrite parse_csi_unfold, Hb. apply S.
Qed.

Corollary csi_simple_token pfx D F post :
  pfx = [] \/ (exists b, pfx = [b] /\ is_private b = true) ->
  forallb is_digsemi D = true -> is_final F = true ->
  parse_csi (pfx ++ D ++ F :: post) = PTok (TCsi (hd 0 pfx) (csi_params D) F) post.
Proof. intros H1 H2 H3. apply csi_ends_token; [exact H1|exact H2|apply final_csi_ends, H3]. Qed.

(* ================= ESC (two-byte and nF) ================= *)

(* s = what follows ESC.  Either one byte 0x30..0x7E other than [ ] P (those
   introduce CSI, OSC, DCS), or intermediates and a final byte 0x30..0x7E;
   when the first intermediate is one of ( ) * + the tokenizer reads exactly
   one more byte, so a second intermediate is the one shape it gets wrong. *)
Definition wf_esc (s : list Z) : Prop :=
  exists I F, s = I ++ [F] /\ forallb is_inter I = true /\ (48 <=? F) && (F <=? 126) = true /\
    match I with
    | [] => F <> 91 /\ F <> 93 /\ F <> 80
    | c :: I' => (40 <=? c) && (c <=? 43) = true -> I' = []
    end.

Lemma skip_intermediates_app I : forall F post,
  forallb is_inter I = true -> is_inter F = false -> skip_intermediates (I ++ F :: post) = Some post.
Proof.
  induction I as [|c I IH]; intros F post HI HF; cbn [app skip_intermediates].
  - unfold is_inter in HF. rewrite HF. reflexivity.
  - cbn [forallb] in HI. apply andb_prop in HI. destruct HI as (Hc & HI).
    unfold is_inter in Hc. rewrite Hc. apply IH; assumption.
Qed.

Theorem esc_consumed s post : wf_esc s ->
  exists k, parse_esc (s ++ post) = PTok k post /\ (k = TIgnore \/ exists b, k = TEsc b).
Proof.
  intros (I & F & -> & HI & HF & HS). rewrite <- app_assoc. cbn [app].
  destruct I as [|c I].
  - cbn [app]. destruct HS as (H1 & H2 & H3). unfold parse_esc.
    assert (E1 : (F =? 91) = false) by bdec. assert (E2 : (F =? 93) = false) by bdec.
    assert (E3 : (F =? 80) = false) by bdec.
    assert (E4 : (F =? 40) || (F =? 41) || (F =? 42) || (F =? 43) = false) by bdec.
    assert (E5 : (32 <=? F) && (F <=? 47) = false) by bdec.
    rewrite E1, E2, E3, E4, E5. eexists. split; [reflexivity|]. right. eauto.
  - cbn [forallb] in HI. apply andb_prop in HI. destruct HI as (Hc & HI). unfold is_inter in Hc.
    cbn [app]. unfold parse_esc.
    assert (E1 : (c =? 91) = false) by bdec. assert (E2 : (c =? 93) = false) by bdec.
    assert (E3 : (c =? 80) = false) by bdec.
    rewrite E1, E2, E3.
    destruct ((c =? 40) || (c =? 41) || (c =? 42) || (c =? 43)) eqn:E4.
    + assert (HI' : I = []) by (apply HS; bdec). subst I. cbn [app].
      eexists. split; [reflexivity|]. left. reflexivity.
    + rewrite Hc. rewrite (skip_intermediates_app I F post HI); [|unfold is_inter; bdec].
      eexists. split; [reflexivity|]. left. reflexivity.
Qed.

(* ================= OSC ================= *)

(* no BEL, no 0x9C, no "ESC \" pair; prev is the byte before the list *)
Fixpoint osc_clean (prev : Z) (l : list Z) : bool :=
  match l with
  | [] => true
  | b :: r => negb (b =? 7) && negb (b =? 156) && negb ((prev =? 27) && (b =? 92)) && osc_clean b r
  end.
Definition osc_term (term : list Z) : Prop := term = [7] \/ term = [156] \/ term = [27; 92].

(* the decimal number before ';' as the tokenizer reads it (saturating at 10^6) *)
Fixpoint osc_num (ds : list Z) (acc : Z) : Z :=
  match ds with
  | [] => acc
  | d :: r => let v := acc * 10 + (d - 48) in osc_num r (if 1000000 <? v then 1000000 else v)
  end.

(* s = what follows ESC: "] body terminator", any body without a terminator inside *)
Definition wf_osc (s : list Z) : Prop :=
  exists body term, s = 93 :: body ++ term /\ osc_clean 0 body = true /\ osc_term term.

Lemma scan_digits_app ds : forall c tail acc,
  forallb is_digit ds = true -> is_digit c = false ->
  scan_digits (ds ++ c :: tail) acc = Some (osc_num ds acc, c, tail).
Proof.
  induction ds as [|d ds IH]; intros c tail acc Hd Hc; cbn [app scan_digits osc_num].
  - rewrite Hc. reflexivity.
  - cbn [forallb] in Hd. apply andb_prop in Hd. destruct Hd as (Hd1 & Hd). rewrite Hd1. apply IH; assumption.
Qed.

Lemma scan_osc_payload_app payload : forall acc term post,
  osc_clean (hd 0 acc) payload = true -> osc_term term ->
  scan_osc_payload (payload ++ term ++ post) acc = Some (rev acc ++ payload, post).
Proof.
  induction payload as [|b payload IH]; intros acc term post Hc Ht.
  - cbn [app]. rewrite app_nil_r. destruct Ht as [->|[->| ->]]; cbn [app scan_osc_payload Z.eqb Pos.eqb orb].
    + reflexivity.
    + reflexivity.
    + destruct acc as [|a acc']; cbn [scan_osc_payload Z.eqb Pos.eqb orb andb]; [reflexivity|].
      rewrite andb_false_r. cbn [scan_osc_payload Z.eqb Pos.eqb orb andb]. reflexivity.
  - cbn [osc_clean] in Hc. apply andb_prop in Hc. destruct Hc as (Hc & Hrest).
    apply andb_prop in Hc. destruct Hc as (Hc & Hpair). apply andb_prop in Hc. destruct Hc as (H7 & H156).
    apply negb_true_iff in H7, H156, Hpair.
    cbn [app scan_osc_payload]. rewrite H7, H156. cbn [orb].
    destruct acc as [|a acc'].
    + rewrite (IH [b] term post Hrest Ht). reflexivity.
    + cbn [hd] in Hpair. rewrite Hpair. rewrite (IH (b :: a :: acc') term post Hrest Ht).
      f_equal. f_equal. cbn [rev]. rewrite <- !app_assoc. reflexivity.
Qed.

Theorem osc_consumed digits payload term post :
  forallb is_digit digits = true -> osc_clean 0 payload = true -> osc_term term ->
  parse_osc (digits ++ 59 :: payload ++ term ++ post) = PTok (TOsc (osc_num digits 0) payload) post.
Proof.
  intros Hd Hc Ht. unfold parse_osc.
  rewrite (scan_digits_app digits 59 _ 0 Hd eq_refl). cbn [Z.eqb Pos.eqb].
  rewrite (scan_osc_payload_app payload [] term post Hc Ht). reflexivity.
Qed.

Theorem osc_short_consumed digits b post :
  forallb is_digit digits = true -> b = 7 \/ b = 156 ->
  parse_osc (digits ++ b :: post) = PTok (TOsc (osc_num digits 0) []) post.
Proof.
  intros Hd Hb. unfold parse_osc.
  rewrite (scan_digits_app digits b post 0 Hd) by (destruct Hb; subst; reflexivity).
  destruct Hb; subst; reflexivity.
Qed.

(* ---- any body ---- *)
Lemma osc_clean_prev p1 p2 l : p1 <> 27 -> p2 <> 27 -> osc_clean p1 l = osc_clean p2 l.
Proof.
  intros H1 H2. destruct l as [|b r]; [reflexivity|]. cbn [osc_clean].
  apply Z.eqb_neq in H1, H2. rewrite H1, H2. reflexivity.
Qed.

Lemma osc_clean_mid a : forall prev c b, osc_clean prev (a ++ c :: b) = true ->
  (c =? 7) = false /\ (c =? 156) = false /\ osc_clean c b = true.
Proof.
  induction a as [|x a IH]; intros prev c b H; cbn [app osc_clean] in H.
  - apply andb_prop in H. destruct H as (H & Hb). apply andb_prop in H. destruct H as (H & _).
    apply andb_prop in H. destruct H as (H7 & H156). apply negb_true_iff in H7, H156. auto.
  - apply andb_prop in H. destruct H as (_ & H). eapply IH, H.
Qed.

Lemma scan_str_app payload : forall prev term post,
  osc_clean prev payload = true -> osc_term term ->
  scan_str (payload ++ term ++ post) prev = Some post.
Proof.
  induction payload as [|b payload IH]; intros prev term post Hc Ht.
  - destruct Ht as [->|[->| ->]]; cbn [app scan_str Z.eqb Pos.eqb orb]; [reflexivity|reflexivity|].
    rewrite andb_false_r. cbn [scan_str Z.eqb Pos.eqb orb andb]. reflexivity.
  - cbn [osc_clean] in Hc. apply andb_prop in Hc. destruct Hc as (Hc & Hrest).
    apply andb_prop in Hc. destruct Hc as (Hc & Hpair). apply andb_prop in Hc. destruct Hc as (H7 & H156).
    apply negb_true_iff in H7, H156, Hpair.
    cbn [app scan_str]. rewrite H7, H156, Hpair. cbn [orb]. apply IH; assumption.
Qed.

(* the digits the tokenizer reads off the front of a body *)
Fixpoint digit_prefix (l : list Z) : list Z :=
  match l with b :: r => if is_digit b then b :: digit_prefix r else [] | [] => [] end.
Fixpoint after_digits (l : list Z) : list Z :=
  match l with b :: r => if is_digit b then after_digits r else l | [] => [] end.
Lemma digit_split l : l = digit_prefix l ++ after_digits l /\ forallb is_digit (digit_prefix l) = true /\
  (after_digits l = [] \/ exists c tl, after_digits l = c :: tl /\ is_digit c = false).
Proof.
  induction l as [|b r IH]; cbn [digit_prefix after_digits]; [repeat split; left; reflexivity|].
  destruct (is_digit b) eqn:E.
  - destruct IH as (A & B & C). cbn [app forallb]. rewrite E, B. rewrite <- A. repeat split. exact C.
  - repeat split. right. exists b, r. split; [reflexivity|exact E].
Qed.

Lemma term_head_nondigit term : osc_term term -> exists c tl, term = c :: tl /\ is_digit c = false.
Proof. intros [->|[->| ->]]; eexists; eexists; (split; [reflexivity|reflexivity]). Qed.

(* every OSC string, whatever its body, is one token that ends exactly at its terminator:
   the command token when the body is "digits" or "digits ; payload", an ignored token otherwise *)
Theorem osc_any_consumed body term post : osc_clean 0 body = true -> osc_term term ->
  exists k, parse_osc (body ++ term ++ post) = PTok k post /\
    (k = TIgnore \/ exists n p, k = TOsc n p).
Proof.
  intros Hc Ht. destruct (digit_split body) as (E & Hd & Hrest). set (ds := digit_prefix body) in *.
  destruct Hrest as [Hnil|(c & tl & Htl & Hcd)].
  - (* body is all digits: the terminator follows the number *)
    rewrite Hnil, app_nil_r in E. rewrite E. unfold parse_osc.
    destruct Ht as [->|[->| ->]]; cbn [app].
    + rewrite (scan_digits_app ds 7 post 0 Hd eq_refl). cbn [Z.eqb Pos.eqb orb]. eexists; split; [reflexivity|right; eauto].
    + rewrite (scan_digits_app ds 156 post 0 Hd eq_refl). cbn [Z.eqb Pos.eqb orb]. eexists; split; [reflexivity|right; eauto].
    + rewrite (scan_digits_app ds 27 (92 :: post) 0 Hd eq_refl). cbn [Z.eqb Pos.eqb orb scan_str andb].
      eexists; split; [reflexivity|left; reflexivity].
  - rewrite Htl in E. rewrite E in Hc |- *. rewrite <- app_assoc. cbn [app]. unfold parse_osc.
    rewrite (scan_digits_app ds c (tl ++ term ++ post) 0 Hd Hcd).
    destruct (osc_clean_mid ds 0 c tl Hc) as (H7 & H156 & Hct).
    destruct (c =? 59) eqn:E59.
    + apply Z.eqb_eq in E59. subst c.
      rewrite (osc_clean_prev 59 0 tl) in Hct by lia.
      rewrite (scan_osc_payload_app tl [] term post Hct Ht). eexists; split; [reflexivity|right; eauto].
    + rewrite H7, H156. cbn [orb]. rewrite (scan_str_app tl c term post Hct Ht).
      eexists; split; [reflexivity|left; reflexivity].
Qed.

(* ================= DCS ================= *)
Fixpoint dcs_clean (prev : Z) (l : list Z) : bool :=
  match l with
  | [] => true
  | b :: r => negb (b =? 156) && negb ((prev =? 27) && (b =? 92)) && dcs_clean b r
  end.
(* s = what follows ESC: "P payload ST" with ST = ESC \ or 0x9C (BEL does not end a DCS) *)
Definition wf_dcs (s : list Z) : Prop :=
  exists payload term, s = 80 :: payload ++ term /\ dcs_clean 0 payload = true /\ (term = [156] \/ term = [27; 92]).

Lemma scan_dcs_app payload : forall prev term post,
  dcs_clean prev payload = true -> term = [156] \/ term = [27; 92] ->
  scan_dcs (payload ++ term ++ post) prev = Some post.
Proof.
  induction payload as [|b payload IH]; intros prev term post Hc Ht.
  - destruct Ht as [->| ->]; cbn [app scan_dcs Z.eqb Pos.eqb]; [reflexivity|].
    rewrite andb_false_r. cbn [scan_dcs Z.eqb Pos.eqb andb]. reflexivity.
  - cbn [dcs_clean] in Hc. apply andb_prop in Hc. destruct Hc as (Hc & Hrest).
    apply andb_prop in Hc. destruct Hc as (H156 & Hpair). apply negb_true_iff in H156, Hpair.
    cbn [app scan_dcs]. rewrite H156, Hpair. apply IH; assumption.
Qed.

(* ================= all four, through parse_one ================= *)
Definition wf_seq (s : list Z) : Prop :=
  wf_esc s \/ (exists body, s = 91 :: body /\ wf_csi body) \/ wf_osc s \/ wf_dcs s.

Definition nontext (k : tok) : Prop := forall txt r w, k <> TGlyph txt r w.

Section WithOracle.
  Variable wc : Z -> Z.
  Variable grid : bool.

  Lemma parse_one_esc inp : parse_one wc grid (27 :: inp) = parse_esc inp.
  Proof. reflexivity. Qed.

  Lemma seq_consumed_weak s post : wf_seq s ->
    exists k, parse_one wc grid (27 :: s ++ post) = PTok k post /\ nontext k.
  Proof.
    intros [H|[(body & -> & H)|[H|H]]]; rewrite parse_one_esc.
    - destruct (esc_consumed s post H) as (k & E & [->|(b & ->)]); eexists; (split; [exact E|intros ? ? ?; discriminate]).
    - cbn [app]. unfold parse_esc. cbn [Z.eqb Pos.eqb].
      destruct (csi_consumed body post H) as (k & E & [->|(pr & ps & f & ->)]);
        eexists; (split; [exact E|intros ? ? ?; discriminate]).
    - destruct H as (body & term & -> & Hc & Ht).
      cbn [app]. unfold parse_esc. cbn [Z.eqb Pos.eqb]. rewrite <- app_assoc.
      destruct (osc_any_consumed body term post Hc Ht) as (k & E & [->|(n & p & ->)]);
        eexists; (split; [exact E|intros ? ? ?; discriminate]).
    - destruct H as (payload & term & -> & Hc & Ht).
      cbn [app]. unfold parse_esc. cbn [Z.eqb Pos.eqb]. rewrite <- app_assoc.
      rewrite (scan_dcs_app payload 0 term post Hc Ht).
      eexists; (split; [reflexivity|intros ? ? ?; discriminate]).
  Qed.

  (* C09 (a): the whole sequence is one token, the same token whatever
     follows, and it is not text *)
  Theorem seq_consumed s : wf_seq s ->
    exists k, nontext k /\ forall post, parse_one wc grid (27 :: s ++ post) = PTok k post.
  Proof.
    intros H. destruct (seq_consumed_weak s [] H) as (k & E & Hk). exists k. split; [exact Hk|].
    intros post. pose proof (parse_one_mono wc grid _ _ _ E post) as M.
    cbn [app] in M. rewrite <- app_assoc in M. exact M.
  Qed.

  (* ... and nothing happens before its last byte has arrived *)
  Theorem seq_blocks_until_complete s n : wf_seq s -> (n <= length s)%nat ->
    parse_one wc grid (firstn n (27 :: s)) = PMore.
  Proof.
    intros H Hn. destruct (seq_consumed s H) as (k & _ & E). specialize (E []). rewrite app_nil_r in E.
    destruct (parse_one wc grid (firstn n (27 :: s))) as [|k' rest'] eqn:E'; [reflexivity|exfalso].
    pose proof (parse_one_mono wc grid _ _ _ E' (skipn n (27 :: s))) as M.
    rewrite firstn_skipn, E in M. inversion M as [[Hk Hr]].
    symmetry in Hr. apply app_eq_nil in Hr. destruct Hr as (_ & Hr).
    apply (f_equal (@length Z)) in Hr. rewrite skipn_length in Hr. cbn [length] in *. lia.
  Qed.

  (* C09 (d): in a stream.  If [pre] ends on a token boundary, the sequence is
     executed as exactly one non-text token between the tokens of [pre] and
     those of [post] *)
  Theorem seq_in_stream t pre s post : wf_seq s ->
    let r := run_bytes wc grid t pre in
    snd r = [] -> crashed (fst r) = false ->
    exists k, nontext k /\ (forall post', parse_one wc grid (27 :: s ++ post') = PTok k post') /\
      run_bytes wc grid t (pre ++ 27 :: s ++ post) = run_bytes wc grid (exec_tok k (fst r)) post.
  Proof.
    intros H r Hs Hc. destruct (seq_consumed s H) as (k & Hk & E). exists k. split; [exact Hk|]. split; [exact E|].
    rewrite <- (run_bytes_app wc grid t pre (27 :: s ++ post)). fold r. rewrite Hs. cbn [app].
    apply run_bytes_step; [exact Hc|apply E].
  Qed.

  (* the same at the level of the token stream, no terminal state involved:
     the tokens of pre, one non-text token for the sequence, the tokens of post *)
  Theorem seq_tokens pre s post : wf_seq s -> leftover wc grid pre = [] ->
    exists k, nontext k /\
      tokens wc grid (pre ++ 27 :: s ++ post) = tokens wc grid pre ++ k :: tokens wc grid post /\
      leftover wc grid (pre ++ 27 :: s ++ post) = leftover wc grid post.
  Proof.
    intros H Hl. destruct (seq_consumed s H) as (k & Hk & E). exists k. split; [exact Hk|].
    destruct (tokens_app wc grid pre (27 :: s ++ post) Hl) as (A & B).
    destruct (tokens_step wc grid _ _ _ (E post)) as (C & D).
    rewrite A, B, C, D. split; reflexivity.
  Qed.
End WithOracle.

(* ================= C09 (b): unknown sequences change nothing ================= *)
Definition zmem (x : Z) (l : list Z) : bool := existsb (Z.eqb x) l.

Definition c0_known : list Z := [7; 8; 127; 9; 10; 12; 13].          (* BEL BS DEL HT LF FF CR *)
Definition esc_known : list Z := [68; 77; 61; 62].                    (* ESC D, M, =, > *)
Definition csi_plain_known : list Z :=                                (* CSI ... final, no private marker *)
  [65; 66; 67; 68; 71; 99; 100; 102; 72; 109; 115; 117; 75; 74; 76; 77; 83; 84; 80; 88; 114; 110].
  (* A   B   C   D   G   c   d    f    H   m    s    u    K   J   L   M   S   T   P   X   r    n *)
Definition dec_known : list Z := [1; 7; 9; 12; 25; 1000; 1002; 1003; 1004; 1005; 1006; 1015; 1049; 2004].
Definition osc_known : list Z := [0; 2; 6; 7].

Definition recognised (k : tok) : bool :=
  match k with
  | TGlyph _ _ _ => true
  | TC0 b => zmem b c0_known
  | TEsc b => zmem b esc_known
  | TIgnore => false
  | TCsi prefix ps f =>
      if prefix =? 0 then zmem f csi_plain_known
      else if prefix =? 63 then                                        (* CSI ? *)
        (f =? 117) || (((f =? 104) || (f =? 108)) && existsb (fun p => zmem p dec_known) ps)
      else if prefix =? 62 then zmem f [99; 109; 117]                  (* CSI > c, m, u *)
      else if (prefix =? 60) || (prefix =? 61) then f =? 117           (* CSI < u, CSI = u *)
      else false
  | TOsc n _ => zmem n osc_known
  end.

Ltac split_orb H :=
  repeat (let H1 := fresh "N" in apply orb_false_elim in H; destruct H as [H1 H]).

Lemma dec_mode_unknown v p t : zmem p dec_known = false -> dec_mode v p t = t.
Proof.
  intros H. unfold zmem, dec_known in H. cbn [existsb] in H. split_orb H.
  unfold dec_mode. repeat match goal with N : (p =? _) = false |- _ => rewrite N; clear N end. reflexivity.
Qed.

Lemma dec_modes_unknown v ps : forall t,
  existsb (fun p => zmem p dec_known) ps = false -> fold_left (fun t p => dec_mode v p t) ps t = t.
Proof.
  induction ps as [|p ps IH]; intros t H; cbn [fold_left existsb] in *; [reflexivity|].
  apply orb_false_elim in H. destruct H as (H1 & H2). rewrite dec_mode_unknown by exact H1. apply IH, H2.
Qed.

Lemma csi_plain_unknown ps f t : zmem f csi_plain_known = false -> exec_csi_plain ps f t = t.
Proof.
  intros H. unfold zmem, csi_plain_known in H. cbn [existsb] in H. split_orb H.
  unfold exec_csi_plain. cbv zeta.
  repeat match goal with N : (f =? _) = false |- _ => rewrite N; clear N end. reflexivity.
Qed.

Theorem unknown_id k t : recognised k = false -> exec_tok k t = t.
Proof.
  destruct k as [txt r w|b|b| |prefix ps f|n p]; cbn [recognised exec_tok]; intros H.
  - discriminate.
  - unfold zmem, c0_known in H. cbn [existsb] in H. split_orb H.
    unfold exec_c0. repeat match goal with N : (b =? _) = false |- _ => rewrite N; clear N end. reflexivity.
  - unfold zmem, esc_known in H. cbn [existsb] in H. split_orb H.
    unfold exec_esc. repeat match goal with N : (b =? _) = false |- _ => rewrite N; clear N end. reflexivity.
  - reflexivity.
  - unfold exec_csi.
    destruct (prefix =? 0); [apply csi_plain_unknown, H|].
    destruct (prefix =? 63).
    { apply orb_false_elim in H. destruct H as (H1 & H2). rewrite H1.
      destruct (f =? 104); cbn [orb andb] in H2; [apply dec_modes_unknown, H2|].
      destruct (f =? 108); cbn [orb andb] in H2; [apply dec_modes_unknown, H2|]. reflexivity. }
    destruct (prefix =? 62).
    { unfold zmem in H. cbn [existsb] in H. split_orb H.
      repeat match goal with N : (f =? _) = false |- _ => rewrite N; clear N end. reflexivity. }
    destruct (prefix =? 60); cbn [orb] in H; [rewrite H; reflexivity|].
    destruct (prefix =? 61); [rewrite H; reflexivity|reflexivity].
  - unfold zmem, osc_known in H. cbn [existsb] in H. split_orb H.
    unfold exec_osc. repeat match goal with N : (n =? _) = false |- _ => rewrite N; clear N end. reflexivity.
Qed.

(* recognised commands whose parameter selects nothing are no-ops as well *)
Theorem noop_params ps t :
  (p0 ps 0 <> 0 -> p0 ps 0 <> 1 -> p0 ps 0 <> 2 -> exec_tok (TCsi 0 ps 75) t = t /\ exec_tok (TCsi 0 ps 74) t = t) /\
  (p0 ps 0 <> 5 -> p0 ps 0 <> 6 -> exec_tok (TCsi 0 ps 110) t = t) /\
  (p0 ps 0 <> 0 -> exec_tok (TCsi 0 ps 99) t = t) /\
  (mok_scan ps (-1) < 0 -> exec_tok (TCsi 62 ps 109) t = t).
Proof.
  split; [|split; [|split]].
  - intros A B C. apply Z.eqb_neq in A, B, C.
    split; cbn [exec_tok]; unfold exec_csi, exec_csi_plain; cbn [Z.eqb Pos.eqb orb]; cbv zeta;
      rewrite A, B, C; reflexivity.
  - intros A B. cbn [exec_tok]. unfold exec_csi, exec_csi_plain. cbn [Z.eqb Pos.eqb orb]. cbv zeta.
    apply Z.eqb_neq in A, B. rewrite A, B. reflexivity.
  - intros A. cbn [exec_tok]. unfold exec_csi, exec_csi_plain. cbn [Z.eqb Pos.eqb orb]. cbv zeta.
    apply Z.eqb_neq in A. rewrite A. reflexivity.
  - intros A. cbn [exec_tok]. unfold exec_csi. cbn [Z.eqb Pos.eqb]. cbv zeta.
    destruct (Z.leb_spec 0 (mok_scan ps (-1))); [lia|reflexivity].
Qed.

(* an unknown well-formed sequence in a stream is skipped: same result as if it were not there *)
Theorem unknown_seq_skipped wc grid t s post k : crashed t = false ->
  parse_one wc grid (27 :: s ++ post) = PTok k post -> recognised k = false ->
  run_bytes wc grid t (27 :: s ++ post) = run_bytes wc grid t post.
Proof.
  intros Hc E Hk. rewrite (run_bytes_step wc grid t _ k post Hc E), (unknown_id k t Hk). reflexivity.
Qed.

(* "without residue": deleting an unknown well-formed sequence from the stream
   (at a token boundary) does not change the final state or the pending bytes *)
Theorem unknown_seq_removed wc grid t pre s post : wf_seq s ->
  let r := run_bytes wc grid t pre in
  snd r = [] -> crashed (fst r) = false ->
  (forall k, parse_one wc grid (27 :: s) = PTok k [] -> recognised k = false) ->
  run_bytes wc grid t (pre ++ 27 :: s ++ post) = run_bytes wc grid t (pre ++ post).
Proof.
  intros H r Hs Hc Hu.
  destruct (seq_in_stream wc grid t pre s post H Hs Hc) as (k & _ & E & R). fold r in R.
  rewrite R. rewrite <- (run_bytes_app wc grid t pre post). fold r. rewrite Hs. cbn [app].
  rewrite (unknown_id k (fst r)); [reflexivity|]. apply Hu. specialize (E []). rewrite app_nil_r in E. exact E.
Qed.

(* ================= C09 (c): OSC payload delivery ================= *)
Definition osc_target (n : Z) : option Z :=
  if (n =? 0) || (n =? 2) then Some vsWindowTitle
  else if n =? 6 then Some vsCurrentDirectory
  else if n =? 7 then Some vsCurrentFile
  else None.

Theorem osc_exec n payload t :
  exec_tok (TOsc n payload) t = match osc_target n with Some i => set_vstr i payload t | None => t end.
Proof.
  cbn [exec_tok]. unfold exec_osc, osc_target.
  destruct ((n =? 0) || (n =? 2)); [reflexivity|]. destruct (n =? 6); [reflexivity|]. destruct (n =? 7); reflexivity.
Qed.

(* what set_vstr does: stores the bytes at index i, logs the callback, touches nothing else *)
Theorem set_vstr_spec i v t :
  vstrs (set_vstr i v t) = zupd i v (vstrs t) /\ tlog (set_vstr i v t) = EStr i v :: tlog t /\
  tmain (set_vstr i v t) = tmain t /\ talt (set_vstr i v t) = talt t /\ onalt (set_vstr i v t) = onalt t /\
  vflags (set_vstr i v t) = vflags t /\ vints (set_vstr i v t) = vints t /\
  kbm (set_vstr i v t) = kbm t /\ kba (set_vstr i v t) = kba t /\ tout (set_vstr i v t) = tout t /\
  (0 <= i < zlen (vstrs t) -> znth i (vstrs (set_vstr i v t)) [] = v).
Proof. repeat split. intros H. cbn [set_vstr log_ev vstrs]. apply znth_zupd_same, H. Qed.

(* the three string slots always exist *)
Lemma vstrs_on_screen f t : vstrs (on_screen f t) = vstrs t.
Proof. unfold on_screen, set_active. destruct (onalt t); reflexivity. Qed.
Lemma vstrs_on_kbd f t : vstrs (on_kbd f t) = vstrs t.
Proof. unfold on_kbd. destruct (onalt t); reflexivity. Qed.

Ltac vs_ifs := repeat match goal with |- zlen (vstrs (if ?c then _ else _)) = _ => destruct c eqn:? end.
Ltac vs_leaf :=
  first [ reflexivity | rewrite vstrs_on_screen; reflexivity | rewrite vstrs_on_kbd; reflexivity
        | cbn [set_vstr log_ev vstrs]; apply zlen_zupd ].

Lemma vlen_dec_mode v p t : zlen (vstrs (dec_mode v p t)) = zlen (vstrs t).
Proof. unfold dec_mode. vs_ifs; vs_leaf. Qed.
Lemma vlen_dec_modes v ps : forall t, zlen (vstrs (fold_left (fun t p => dec_mode v p t) ps t)) = zlen (vstrs t).
Proof. induction ps as [|p ps IH]; intros t; cbn [fold_left]; [reflexivity|]. rewrite IH. apply vlen_dec_mode. Qed.

Lemma vlen_exec_tok k t : zlen (vstrs (exec_tok k t)) = zlen (vstrs t).
Proof.
  destruct k as [txt r w|b|b| |prefix ps f|n p]; cbn [exec_tok].
  - rewrite vstrs_on_screen. reflexivity.
  - unfold exec_c0. vs_ifs; vs_leaf.
  - unfold exec_esc. vs_ifs; vs_leaf.
  - reflexivity.
  - unfold exec_csi, exec_csi_plain. cbv zeta. vs_ifs; first [apply vlen_dec_modes|vs_leaf].
  - unfold exec_osc. vs_ifs; vs_leaf.
Qed.

Lemma vlen_run_pending wc grid f : forall t inp,
  zlen (vstrs (fst (run_pending wc grid f t inp))) = zlen (vstrs t).
Proof.
  induction f as [|f IH]; intros t inp; cbn [run_pending]; [reflexivity|].
  destruct (crashed t); [reflexivity|]. destruct (parse_one wc grid inp); [reflexivity|].
  rewrite IH. apply vlen_exec_tok.
Qed.

Theorem vlen_run_hist wc grid w h ops : zlen (vstrs (fst (run_hist wc grid (init_term w h) ops))) = 3.
Proof.
  unfold run_hist. change 3 with (zlen (vstrs (fst (init_term w h, @nil Z)))).
  generalize (init_term w h, @nil Z). induction ops as [|o ops IH]; intros st; cbn [fold_left]; [reflexivity|].
  rewrite IH. destruct o as [bs|w' h']; cbn [hstep].
  - apply vlen_run_pending.
  - destruct (crashed (fst st)); reflexivity.
Qed.

(* end to end: "ESC ] digits ; payload terminator" alone in a read stores
   exactly the bytes between ';' and the terminator and reports them once *)
Theorem osc_delivered wc grid t digits payload term i :
  crashed t = false -> forallb is_digit digits = true -> osc_clean 0 payload = true -> osc_term term ->
  osc_target (osc_num digits 0) = Some i ->
  run_bytes wc grid t (27 :: 93 :: digits ++ 59 :: payload ++ term) = (set_vstr i payload t, []).
Proof.
  intros Hc Hd Hp Ht Hi.
  assert (E : parse_one wc grid (27 :: 93 :: digits ++ 59 :: payload ++ term) = PTok (TOsc (osc_num digits 0) payload) []).
  { rewrite parse_one_esc. unfold parse_esc. cbn [Z.eqb Pos.eqb].
    rewrite <- (app_nil_r term). apply osc_consumed; assumption. }
  rewrite (run_bytes_step wc grid t _ _ _ Hc E), osc_exec, Hi. apply run_bytes_nil.
Qed.

(* ================= the recorded deviations, as witnesses ================= *)
Definition F1 : Z -> Z := fun _ => 1.

(* C09_consumed without the '%' side condition is false: "CSI % G" (grammatical:
   no parameters, intermediate '%', final 'G') ends at '%', and 'G' is then text *)
Lemma csi_pct_refuted :
  exists body, (exists P I F, body = P ++ I ++ [F] /\ forallb is_param P = true /\
                 forallb is_inter I = true /\ is_final F = true) /\
    parse_one F1 false (27 :: 91 :: body) = PTok (TCsi 0 [] 37) [71] /\
    parse_one F1 false [71] = PTok (TGlyph [71] 71 1) [].
Proof. exists [37; 71]. split; [exists [], [37], 71; repeat split|]. vm_compute. split; reflexivity. Qed.

(* "ESC ( % 5" (ISO 2022 designation with a second intermediate): only three bytes are taken, '5' is text *)
Lemma esc_charset_refuted :
  exists s, (exists I F, s = I ++ [F] /\ forallb is_inter I = true /\ (48 <=? F) && (F <=? 126) = true) /\
    parse_one F1 false (27 :: s) = PTok TIgnore [53] /\
    parse_one F1 false [53] = PTok (TGlyph [53] 53 1) [].
Proof. exists [40; 37; 53]. split; [exists [40; 37], 53; repeat split|]. vm_compute. split; reflexivity. Qed.

(* 0x9C ends an OSC (and a DCS) even when it is the continuation byte of a
   UTF-8 character of the payload: title "AœB" (U+015C = C5 9C) is cut after
   0xC5, and "B", BEL are then handled as ordinary input *)
Lemma osc_9c_refuted :
  parse_one F1 false [27; 93; 48; 59; 65; 197; 156; 66; 7] = PTok (TOsc 0 [65; 197]) [66; 7] /\
  parse_one F1 false [27; 80; 197; 156; 66; 27; 92] = PTok TIgnore [66; 27; 92].
Proof. vm_compute. split; reflexivity. Qed.

(* a C0 control inside CSI parameters is taken as the final byte: "CSI 1 LF 2 H"
   yields the unknown command (params [1], final LF); "2H" is text.  (ECMA-48
   terminals execute the LF and continue the sequence.) *)
Lemma csi_c0_refuted :
  parse_one F1 false [27; 91; 49; 10; 50; 72] = PTok (TCsi 0 [1] 10) [50; 72] /\
  recognised (TCsi 0 [1] 10) = false.
Proof. vm_compute. split; reflexivity. Qed.

(* an OSC whose selector is not a number ("ESC ] l title BEL"), or whose number is followed
   directly by ST ("ESC ] 112 ESC \"), is skipped whole (it used to be abandoned after one byte) *)
Lemma osc_nonnumeric_skipped :
  parse_one F1 false [27; 93; 108; 116; 7; 120] = PTok TIgnore [120] /\
  parse_one F1 false [27; 93; 49; 49; 50; 27; 92; 120] = PTok TIgnore [120].
Proof. vm_compute. split; reflexivity. Qed.

(* SOS / PM / APC strings (ESC X, ESC ^, ESC _ ... ST) are not strings for the
   tokenizer: two bytes are taken, the body is text *)
Lemma apc_refuted :
  parse_one F1 false [27; 95; 71; 27; 92] = PTok (TEsc 95) [71; 27; 92].
Proof. vm_compute. reflexivity. Qed.

(* ================= examples ================= *)
Example wf_csi_example : wf_csi [63; 50; 53; 104] /\ wf_csi [49; 59; 50; 32; 113] /\ wf_csi [49; 58; 50; 37; 71].
Proof.
  repeat split.
  - exists [63; 50; 53], [], 104. repeat split.
  - exists [49; 59; 50], [32], 113. repeat split.
  - exists [49; 58; 50], [37], 71. repeat split.
Qed.
Example wf_osc_example : wf_osc (93 :: [50; 59; 104; 105; 27; 65] ++ [27; 92]) /\ wf_osc (93 :: [108; 116] ++ [7]).
Proof.
  split.
  - exists [50; 59; 104; 105; 27; 65], [27; 92]. repeat split. right. right. reflexivity.
  - exists [108; 116], [7]. repeat split. left. reflexivity.
Qed.
Example consumed_example :
  parse_one F1 false ([27; 91; 49; 59; 50; 32; 113] ++ [120]) = PTok TIgnore [120] /\
  parse_one F1 false ([27; 93; 50; 59; 104; 105; 27; 65; 27; 92] ++ [120]) = PTok (TOsc 2 [104; 105; 27; 65]) [120] /\
  parse_one F1 false ([27; 80; 49; 36; 114; 27; 92] ++ [120]) = PTok TIgnore [120] /\
  parse_one F1 false ([27; 35; 56] ++ [120]) = PTok TIgnore [120].
Proof. vm_compute. repeat split. Qed.
Example unknown_example :
  recognised (TCsi 0 [5] 122) = false /\ recognised (TEsc 99) = false /\ recognised (TOsc 52 [120]) = false /\
  recognised (TCsi 63 [2026] 104) = false /\ recognised (TCsi 63 [2026; 25] 104) = true.
Proof. vm_compute. repeat split. Qed.
Example osc_delivered_example :
  let r := run_bytes F1 false (init_term 4 2) [27; 93; 55; 59; 47; 116; 109; 112; 7] in
  znth vsCurrentFile (vstrs (fst r)) [] = [47; 116; 109; 112] /\
  tlog (fst r) = [EStr vsCurrentFile [47; 116; 109; 112]] /\ snd r = [].
Proof. vm_compute. repeat split. Qed.

(* "CSI 5 z" (unknown final) and "CSI ? 2026 h" (unknown private mode) between
   text: same result as the text alone; and the sequence is not acted on early *)
Example unknown_removed_example :
  run_bytes F1 false (init_term 5 2) ([97] ++ 27 :: [91; 53; 122] ++ [98]) = run_bytes F1 false (init_term 5 2) ([97] ++ [98]) /\
  run_bytes F1 false (init_term 5 2) ([97] ++ 27 :: [91; 63; 50; 48; 50; 54; 104] ++ [98]) = run_bytes F1 false (init_term 5 2) ([97] ++ [98]) /\
  parse_one F1 false (firstn 6 (27 :: [91; 63; 50; 48; 50; 54; 104])) = PMore.
Proof. vm_compute. repeat split. Qed.
Example noop_params_example :
  let t := fst (run_bytes F1 false (init_term 5 2) [97; 98]) in
  exec_tok (TCsi 0 [3] 74) t = t /\ exec_tok (TCsi 0 [7] 110) t = t /\ exec_tok (TCsi 0 [1] 99) t = t /\
  exec_tok (TCsi 62 [1; 2] 109) t = t.
Proof. vm_compute. repeat split. Qed.

Example csi_params_example :
  csi_params [49; 50; 59; 53] = [12; 5] /\ csi_params [59] = [0; 0] /\ csi_params [] = [] /\
  csi_params [59; 55] = [0; 7] /\ csi_params [57; 57; 57; 57; 57; 57] = [65535] /\
  parse_csi ([63] ++ [49; 48; 52; 57] ++ 104 :: [120]) = PTok (TCsi 63 [1049] 104) [120].
Proof. vm_compute. repeat split. Qed.

Example csi_ends_example : csi_ends 10 = true /\ csi_ends 127 = true /\ csi_ends 200 = true /\ csi_ends 37 = true /\
  csi_ends 32 = false /\ csi_ends 58 = false /\ csi_ends 63 = false /\ csi_ends 72 = true.
Proof. vm_compute. repeat split. Qed.

Example seq_tokens_example :
  tokens F1 false ([97; 10] ++ 27 :: [91; 63; 50; 53; 108] ++ [98; 27; 91]) =
    [TGlyph [97] 97 1; TC0 10] ++ TCsi 63 [25] 108 :: [TGlyph [98] 98 1] /\
  leftover F1 false ([97; 10] ++ 27 :: [91; 63; 50; 53; 108] ++ [98; 27; 91]) = [27; 91].
Proof. vm_compute. split; reflexivity. Qed.
