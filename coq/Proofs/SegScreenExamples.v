(* A boolean test for the admissibility of cuts ([admb], [cuts_admb], sound for [adm], [cuts_adm] of
   SegScreenProofs.v), and concrete streams: cuts at cluster boundaries and inside an escape sequence give the same
   terminal; cuts inside a cluster can give another one. *)
From Coq Require Import List ZArith Bool Lia.
From Termemu Require Import Base Style Screen Kbd Parser Term BaseLemmas ScreenInv TermInv ParserProofs ParserMono
  HistProofs Gen_Uniseg Uniseg Grapheme GTerm GTermProofs SegCutProofs SegScreenLoop SegScreenProofs.
Import ListNotations.
Open Scope Z_scope.

(* q consists of whole UTF-8 decoding steps *)
Fixpoint alignedb (fuel : nat) (q : list Z) : bool :=
  match q with
  | [] => true
  | _ => match fuel with
         | O => false
         | S f => match decode_rune q with None => false | Some (_, l, _) => alignedb f (zskipn l q) end
         end
  end.

Lemma alignedb_sound f : forall q, alignedb f q = true -> aligned q.
Proof.
  induction f as [|f IH]; intros q H; destruct q as [|c y]; try apply al_nil; cbn [alignedb] in H; [discriminate|].
  destruct (decode_rune (c :: y)) as [[[r l] v]|] eqn:E; [|discriminate].
  eapply al_cons; [exact E|apply IH, H].
Qed.

(* some prefix of a longer than n bytes consists of whole decoding steps *)
Definition has_aligned_prefix (a : list Z) (n : Z) : bool :=
  existsb (fun m => let q := firstn m a in alignedb (length q) q && (n <? zlen q)) (seq 0 (S (length a))).

Lemma has_aligned_prefix_sound a n : has_aligned_prefix a n = true ->
  exists q z, a = q ++ z /\ aligned q /\ n < zlen q.
Proof.
  unfold has_aligned_prefix. intros H. apply existsb_exists in H. destruct H as (m & _ & H).
  cbv zeta in H. apply andb_true_iff in H. destruct H as (H1 & H2).
  exists (firstn m a), (skipn m a). split; [symmetry; apply firstn_skipn|].
  split; [eapply alignedb_sound, H1|lia].
Qed.

(* follows the parse of a ++ b from rs while it is inside a *)
Fixpoint admb (fuel : nat) (rs : rstate) (a b : list Z) : bool :=
  match fuel with
  | O => false
  | S f =>
      match a with
      | [] => true
      | c :: y =>
          if is_printable c then
            if negb (full_rune a) then true else
            match next_grapheme_token (a ++ b) rs with
            | None => false
            | Some tk =>
                if tt_len tk =? zlen a then alignedb (length a) a
                else has_aligned_prefix a (tt_len tk) && admb f (tt_rs tk) (zskipn (tt_len tk) a) b
            end
          else if c =? 27 then
            match parse_esc y with PMore => true | PTok _ r => admb f (rs_reset rs) r b end
          else admb f (rs_reset rs) y b
      end
  end.

Lemma admb_sound f : forall rs a b, admb f rs a b = true -> adm rs a b.
Proof.
  induction f as [|f IH]; intros rs a b H; cbn [admb] in H; [discriminate|].
  destruct a as [|c y]; [apply adm_cut|].
  destruct (is_printable c) eqn:Hc.
  - destruct (full_rune (c :: y)) eqn:Hf; cbn [negb] in H; [|apply adm_text_wait; assumption].
    destruct (next_grapheme_token ((c :: y) ++ b) rs) as [tk|] eqn:Ht; [|discriminate].
    destruct (Z.eqb_spec (tt_len tk) (zlen (c :: y))) as [Hl|Hl].
    + eapply adm_text_end; [exact Hc|eapply alignedb_sound, H|exact Ht|exact Hl].
    + apply andb_true_iff in H. destruct H as (H1 & H2).
      destruct (has_aligned_prefix_sound _ _ H1) as (q & z & Hx & Hal & Hlt).
      eapply adm_text_in; [exact Hc|exact Hx|exact Hal|exact Ht|exact Hlt|apply IH, H2].
  - destruct (Z.eqb_spec c 27) as [->|Hn].
    + destruct (parse_esc y) as [|k r] eqn:Ey; [apply adm_esc_cut, Ey|].
      eapply adm_esc_in; [apply parse_esc_mono, Ey|apply IH, H].
    + apply adm_c0; [exact Hc|exact Hn|apply IH, H].
Qed.

(* every cut of a segmentation, for the stream pre ++ concat chunks *)
Fixpoint cuts_admb (rs : rstate) (pre : list Z) (chunks : list (list Z)) : bool :=
  match chunks with
  | [] => true
  | c :: cs => admb (S (length pre)) rs pre (concat chunks) && cuts_admb rs (pre ++ c) cs
  end.

Lemma cuts_admb_sound rs : forall chunks pre, cuts_admb rs pre chunks = true -> cuts_adm rs pre chunks.
Proof.
  induction chunks as [|c cs IH]; intros pre H l1 l2 E Hne.
  - destruct l1; [|discriminate]. cbn [app] in E. subst l2. congruence.
  - cbn [cuts_admb] in H. apply andb_true_iff in H. destruct H as (H1 & H2).
    destruct l1 as [|c' l1]; cbn [app] in E.
    + subst l2. cbn [concat]. rewrite app_nil_r. eapply admb_sound, H1.
    + inversion E; subst c' cs. cbn [concat]. rewrite app_assoc. apply (IH (pre ++ c) H2 l1 l2 eq_refl Hne).
Qed.

(* ---- non-vacuity ---- *)
(* 'e' U+0301 | ESC [ 1 | m woman ZWJ woman | flag U S | 'x' U+0301 'y': the cuts are after a letter with a combining mark
   (in front of an escape sequence), inside the escape sequence, between a ZWJ sequence and a flag, between the flag
   and a letter; the third read begins with the last byte of the escape sequence *)
Definition ex_chunks : list (list Z) :=
  [[101;204;129]; [27;91;49]; [109;240;159;145;169;226;128;141;240;159;145;169]; [240;159;135;186;240;159;135;184];
   [120;204;129;121]].

Example cut_example_adm : cuts_admb rs0 [] ex_chunks = true.
Proof. vm_compute. reflexivity. Qed.

(* the equality by the theorem ... *)
Example cut_example_by_theorem grid :
  fold_left (ghstep true grid) (map HFeed ex_chunks) (init_term 10 2, rs0, []) =
  ghstep true grid (init_term 10 2, rs0, []) (HFeed (concat ex_chunks)).
Proof.
  apply grapheme_seg_indep; [apply TInv_init; lia|apply cuts_admb_sound, cut_example_adm].
Qed.

(* ... and by computation, with what is on the screen: e+mark in one cell, the ZWJ sequence in one cell of width 2,
   the flag in one cell of width 2, bold set by the escape sequence that was cut *)
Example cut_example_computed :
  let r := fold_left (ghstep true false) (map HFeed ex_chunks) (init_term 10 2, rs0, []) in
  r = ghstep true false (init_term 10 2, rs0, []) (HFeed (concat ex_chunks)) /\
  map (fun c => (ctext c, cwid c)) (zfirstn 7 (row_at (tmain (gterm r)) 0)) =
    [([101;204;129], 1); ([240;159;145;169;226;128;141;240;159;145;169], 2); ([], 0);
     ([240;159;135;186;240;159;135;184], 2); ([], 0); ([120;204;129], 1); ([121], 1)] /\
  cx (tmain (gterm r)) = 7 /\ snd r = [].
Proof. vm_compute. repeat split; reflexivity. Qed.

(* the hypotheses of grapheme_cut_text_screen for 'e' U+0301 | 'x' *)
Example cut_text_example grid t : TInv t ->
  ghstep true grid (ghstep true grid (t, rs0, []) (HFeed [101;204;129])) (HFeed [120]) =
  ghstep true grid (t, rs0, []) (HFeed ([101;204;129] ++ [120])).
Proof.
  intros HT.
  apply (grapheme_cut_text_screen grid [(3, 1, false)] [101;204;129] [120] rs0 [(1, 1, false)] rs0 [] t HT).
  - eapply alignedb_sound with (f := 3%nat). reflexivity.
  - repeat constructor.
  - apply (toks_step _ _ (mkTtok 3 1 false (mkRs (Some (0, 1)) false false))); [discriminate|vm_compute; reflexivity|].
    apply (toks_step _ _ (mkTtok 1 1 false (mkRs None false false))); [discriminate|vm_compute; reflexivity|].
    apply toks_stop. left. reflexivity.
  - reflexivity.
Qed.

(* ---- cuts inside a cluster ---- *)
Definition st0 : term * rstate * list Z := (init_term 8 2, rs0, []).
Definition two_feeds (a b : list Z) := ghstep true false (ghstep true false st0 (HFeed a)) (HFeed b).
Definition one_feed (a b : list Z) := ghstep true false st0 (HFeed (a ++ b)).
Definition row0 (st : term * rstate * list Z) : list (list Z * Z) :=
  map (fun c => (ctext c, cwid c)) (zfirstn 3 (row_at (tmain (gterm st)) 0)).

(* U+263A | U+FE0F (variation selector 16): read whole the cluster is two cells wide, cut it stays one cell wide *)
Example cut_inside_cluster_differs :
  let a := [226;152;186] in let b := [239;184;143] in
  admb 10 rs0 a b = false /\
  row0 (two_feeds a b) = [([226;152;186;239;184;143], 1); ([32], 1); ([32], 1)] /\ cx (tmain (gterm (two_feeds a b))) = 1 /\
  row0 (one_feed a b) = [([226;152;186;239;184;143], 2); ([], 0); ([32], 1)] /\ cx (tmain (gterm (one_feed a b))) = 2 /\
  two_feeds a b <> one_feed a b.
Proof.
  cbv zeta. repeat split; try (vm_compute; reflexivity).
  intros H. apply (f_equal (fun st => cx (tmain (gterm st)))) in H. vm_compute in H. discriminate.
Qed.

(* Hangul U+1100 | U+1161 (L, V): one syllable of width 2 read whole, two characters when cut *)
Example cut_inside_cluster_differs_jamo :
  let a := [225;132;128] in let b := [225;133;161] in
  admb 10 rs0 a b = false /\
  row0 (two_feeds a b) = [([225;132;128], 2); ([], 0); ([225;133;161], 1)] /\ cx (tmain (gterm (two_feeds a b))) = 3 /\
  row0 (one_feed a b) = [([225;132;128;225;133;161], 2); ([], 0); ([32], 1)] /\ cx (tmain (gterm (one_feed a b))) = 2.
Proof. cbv zeta. repeat split; vm_compute; reflexivity. Qed.

(* 'e' | U+0301, two regional indicators, woman | ZWJ woman: the cells and the cursor are the same (the mark, the second
   indicator, the joiner and the second emoji are merged into the cell written by the first read) but the frontend
   is told twice, so the callback logs differ *)
Example cut_inside_cluster_differs_log :
  let cases := [([101], [204;129]); ([240;159;135;186], [240;159;135;184]);
                ([240;159;145;169], [226;128;141;240;159;145;169])] in
  forallb (fun ab => negb (admb 10 rs0 (fst ab) (snd ab))) cases = true /\
  map (fun ab => row0 (two_feeds (fst ab) (snd ab))) cases = map (fun ab => row0 (one_feed (fst ab) (snd ab))) cases /\
  map (fun ab => zlen (tlog (gterm (two_feeds (fst ab) (snd ab))))) cases = [3; 3; 4] /\
  map (fun ab => zlen (tlog (gterm (one_feed (fst ab) (snd ab))))) cases = [2; 2; 2].
Proof. cbv zeta. repeat split; vm_compute; reflexivity. Qed.

(* a cut inside a UTF-8 character is a cut inside a cluster even right after a cluster boundary: U+0600 (prepend)
   and U+0085 cut after the first byte of U+0085.  Whole, the cluster U+0600 ends in front of the control character;
   cut, the lone byte 0xC2 is taken into the cluster.  This is why [adm] asks for whole characters ([aligned]). *)
Example cut_inside_character_differs :
  let a := [216;128;194] in let b := [133] in
  admb 10 rs0 a b = false /\
  row0 (two_feeds a b) = [([216;128;194], 2); ([], 0); ([133], 1)] /\
  row0 (one_feed a b) = [([216;128;194;133], 1); ([32], 1); ([32], 1)].
Proof. cbv zeta. repeat split; vm_compute; reflexivity. Qed.

(* why the theorems ask for the invariant of C01: on a terminal that violates it (cursor row outside the screen,
   not reachable) writing 'x' reaches a modelled panic site; the loop stops, and the reader state it stops with is
   the reset one after the cut and the carried one without it *)
Example cut_needs_invariant :
  let bad := mkTerm (set_cur 0 5 (init_screen 2 1)) (init_screen 2 1) false
               [false; false; false; false; false; false] [0; 0; 0] [[]; []; []] kbd0 kbd0 [] [] in
  admb 10 rs0 [120] [121] = true /\ crashed bad = false /\
  snd (fst (ghstep true false (ghstep true false (bad, rs0, []) (HFeed [120])) (HFeed [121]))) = mkRs None false false /\
  snd (fst (ghstep true false (bad, rs0, []) (HFeed [120; 121]))) = mkRs (Some (0, 1)) false false.
Proof. cbv zeta. repeat split; vm_compute; reflexivity. Qed.
