(* C08, grapheme clause, lifted from token lists (SegCutProofs.toks_cut) to terminals: the read loop of
   Model/GTerm.v in grapheme mode, fed a stream in two reads cut at an admissible place, ends in the same
   triple (terminal, reader state, pending bytes) as when it is fed the stream in one read.

   The reader state the model carries over a read boundary: when a token of text ends with the buffered
   bytes, stepGraphemeCluster returns segmentation state -1 ([None]) and the merge flags of the token; an
   uncut read carries the state uniseg.Step returned.  [grun_reset_ok]: from a state that is [rs_ok] the loop
   does the same from the carried and from the reset state.  When the first read stops inside an escape
   sequence its bytes stay pending and the state is [rs_reset rs] in both readings. *)
From Coq Require Import List ZArith Bool Lia.
From Termemu Require Import Base Style Screen Kbd Parser Term BaseLemmas ScreenInv TermInv ParserProofs ParserMono
  HistProofs Gen_Uniseg Uniseg Grapheme GTerm GTermProofs SegCutProofs.
Import ListNotations.
Open Scope Z_scope.

(* ---- lists ---- *)
Lemma skipn_length_lt {A} (l : list A) n : l <> [] -> (0 < n)%nat -> (length (skipn n l) < length l)%nat.
Proof. intros Hl Hn. rewrite skipn_length. destruct l; [congruence|cbn [length]; lia]. Qed.

Lemma zskipn_shorter {A} n (l : list A) : l <> [] -> 1 <= n -> (length (zskipn n l) < length l)%nat.
Proof. intros Hl Hn. unfold zskipn. apply skipn_length_lt; [exact Hl|lia]. Qed.

Lemma zfirstn_zskipn {A} n (l : list A) : zfirstn n l ++ zskipn n l = l.
Proof. apply firstn_skipn. Qed.

Lemma zskipn_app_in {A} n (l m : list A) : n <= zlen l -> zskipn n (l ++ m) = zskipn n l ++ m.
Proof. apply ParserMono.zskipn_app_le. Qed.

Lemma zskipn_app_all {A} (l m : list A) : zskipn (zlen l) (l ++ m) = m.
Proof. rewrite zskipn_app_in by lia. rewrite SegCutProofs.zskipn_all. reflexivity. Qed.

Lemma ttok_ext a b : tt_len a = tt_len b -> tt_width a = tt_width b -> tt_merge a = tt_merge b -> tt_rs a = tt_rs b -> a = b.
Proof. destruct a, b. cbn. intros -> -> -> ->. reflexivity. Qed.

Lemma rs_reset_is rs : rs_reset rs = rs_reset_state rs.
Proof. reflexivity. Qed.
Lemma rs_reset_idem rs : rs_reset (rs_reset rs) = rs_reset rs.
Proof. reflexivity. Qed.

(* ---- the read loop in grapheme mode: one iteration, fuel ---- *)
Section Loop.
  Variable grid : bool.

  (* the token a piece of text is executed as *)
  Definition text_gtok (inp : list Z) (len width : Z) (merge : bool) : option gtok :=
    if merge then Some (GMerge (zfirstn len inp))
    else match decode_rune inp with
         | None => None
         | Some (r, _, valid) =>
             Some (GT (TGlyph (if negb valid && grid then utf8_replacement else zfirstn len inp) r width))
         end.

  Lemma gparse_text rs c y : is_printable c = true ->
    gparse_one true grid rs (c :: y) =
    match next_grapheme_token (c :: y) rs with
    | None => None
    | Some tk => match text_gtok (c :: y) (tt_len tk) (tt_width tk) (tt_merge tk) with
                 | None => None
                 | Some k => Some (k, tt_rs tk, zskipn (tt_len tk) (c :: y))
                 end
    end.
  Proof.
    intros Hc. unfold gparse_one, next_token, text_gtok. rewrite Hc.
    destruct (next_grapheme_token (c :: y) rs) as [tk|]; [|reflexivity].
    destruct (tt_merge tk); [reflexivity|].
    destruct (decode_rune (c :: y)) as [[[r l] v]|]; reflexivity.
  Qed.

  Lemma token_full buf rs tk : next_grapheme_token buf rs = Some tk -> full_rune buf = true.
  Proof.
    unfold next_grapheme_token, step_grapheme_cluster. destruct (full_rune buf); [reflexivity|discriminate].
  Qed.

  Lemma token_none buf rs : next_grapheme_token buf rs = None -> full_rune buf = false.
  Proof.
    unfold next_grapheme_token, step_grapheme_cluster. destruct (full_rune buf); [|reflexivity]. cbn [negb].
    destruct (ustep buf (rs_state rs)) as [[c w] ns]. destruct (merge_flags _ _ _) as [[m f] r]. discriminate.
  Qed.

  Lemma not_full_none buf rs : full_rune buf = false -> next_grapheme_token buf rs = None.
  Proof. intros H. unfold next_grapheme_token, step_grapheme_cluster. rewrite H. reflexivity. Qed.

  Lemma text_gtok_some inp len width merge : full_rune inp = true -> exists k, text_gtok inp len width merge = Some k.
  Proof.
    unfold full_rune, text_gtok. destruct merge; [eexists; reflexivity|].
    destruct (decode_rune inp) as [[[r l] v]|]; [eexists; reflexivity|discriminate].
  Qed.

  (* every iteration takes at least one byte *)
  Lemma gparse_one_shorter rs inp k rs' rest :
    gparse_one true grid rs inp = Some (k, rs', rest) -> (length rest < length inp)%nat.
  Proof.
    destruct inp as [|c y]; [discriminate|].
    destruct (is_printable c) eqn:Hc.
    - rewrite (gparse_text rs c y Hc).
      destruct (next_grapheme_token (c :: y) rs) as [tk|] eqn:Et; [|discriminate].
      destruct (text_gtok _ _ _ _) as [k0|]; [|discriminate]. intros H; inversion H; subst.
      apply zskipn_shorter; [discriminate|]. eapply token_len_pos; [|exact Et]. discriminate.
    - unfold gparse_one. rewrite Hc. destruct (c =? 27).
      + destruct (parse_esc y) as [|k0 r] eqn:Ee; [discriminate|]. intros H; inversion H; subst.
        apply parse_esc_suffix, ss_length in Ee. cbn [length]. lia.
      + intros H; inversion H; subst. cbn [length]. lia.
  Qed.

  (* the reader state the loop stops with *)
  Definition wait_rs (rs : rstate) (inp : list Z) : rstate :=
    match inp with b :: _ => if is_printable b then rs else rs_reset rs | [] => rs end.

  Lemma grun_more_fuel f : forall t rs inp k, (length inp < f)%nat ->
    grun_pending true grid (f + k) t rs inp = grun_pending true grid f t rs inp.
  Proof.
    induction f as [|f IH]; intros t rs inp k Hl; [lia|].
    cbn [grun_pending Nat.add]. destruct (crashed t); [reflexivity|].
    destruct (gparse_one true grid rs inp) as [[[k0 rs'] rest]|] eqn:E; [|reflexivity].
    apply gparse_one_shorter in E. apply IH. lia.
  Qed.

  Lemma grun_fuel_indep f1 f2 t rs inp : (length inp < f1)%nat -> (length inp < f2)%nat ->
    grun_pending true grid f1 t rs inp = grun_pending true grid f2 t rs inp.
  Proof.
    intros H1 H2.
    rewrite <- (grun_more_fuel f1 t rs inp f2 H1), <- (grun_more_fuel f2 t rs inp f1 H2).
    f_equal. lia.
  Qed.

  Lemma grun_bytes_step t rs inp k rs' rest : crashed t = false ->
    gparse_one true grid rs inp = Some (k, rs', rest) ->
    grun_bytes true grid t rs inp = grun_bytes true grid (gexec k t) rs' rest.
  Proof.
    intros Hc Hp. unfold grun_bytes at 1. cbn [grun_pending]. rewrite Hc, Hp.
    apply gparse_one_shorter in Hp. unfold grun_bytes. apply grun_fuel_indep; lia.
  Qed.

  Lemma grun_bytes_blocked t rs inp : gparse_one true grid rs inp = None ->
    grun_bytes true grid t rs inp = (t, (if crashed t then rs else wait_rs rs inp), inp).
  Proof. intros Hp. unfold grun_bytes. cbn [grun_pending]. rewrite Hp. destruct (crashed t); reflexivity. Qed.

  Lemma grun_bytes_nil t rs : grun_bytes true grid t rs [] = (t, rs, []).
  Proof. rewrite grun_bytes_blocked by reflexivity. destruct (crashed t); reflexivity. Qed.

  Lemma TInv_grun_pending f : forall t rs inp, TInv t -> TInv (gterm (grun_pending true grid f t rs inp)).
  Proof.
    induction f as [|f IH]; intros t rs inp Ht; cbn [grun_pending]; [exact Ht|].
    destruct (crashed t); [exact Ht|].
    destruct (gparse_one true grid rs inp) as [[[k rs'] rest]|]; [|exact Ht].
    apply IH, TInv_gexec, Ht.
  Qed.

  (* from a state that is ok for the buffered bytes the loop does the same whether the segmentation state is
     carried or reset *)
  Lemma gparse_reset rs inp : rs_ok rs inp ->
    gparse_one true grid (rs_reset_state rs) inp = gparse_one true grid rs inp.
  Proof.
    intros Hok. destruct inp as [|c y]; [reflexivity|].
    destruct (is_printable c) eqn:Hc.
    - rewrite !(gparse_text _ c y Hc), <- (token_reset _ _ Hok). reflexivity.
    - unfold gparse_one. rewrite Hc. reflexivity.
  Qed.

  Lemma grun_reset_ok t rs inp : crashed t = false -> rs_ok rs inp ->
    grun_bytes true grid t (rs_reset_state rs) inp = grun_bytes true grid t rs inp.
  Proof.
    intros Hc Hok.
    destruct (gparse_one true grid rs inp) as [[[k rs'] rest]|] eqn:E.
    - rewrite (grun_bytes_step t rs inp k rs' rest Hc E).
      rewrite <- (gparse_reset rs inp Hok) in E.
      rewrite (grun_bytes_step t _ inp k rs' rest Hc E). reflexivity.
    - rewrite (grun_bytes_blocked t rs inp E).
      rewrite <- (gparse_reset rs inp Hok) in E.
      rewrite (grun_bytes_blocked t _ inp E). rewrite Hc.
      f_equal. f_equal. destruct inp as [|c y]; cbn [wait_rs].
      + unfold rs_ok in Hok. destruct (rs_state rs) as [[g p]|] eqn:Es; [destruct Hok as (Hf & _); discriminate|].
        symmetry. apply rs_eta, Es.
      + destruct (is_printable c) eqn:Hp; [|reflexivity].
        (* waiting on an incomplete character: the state was not carried *)
        rewrite (gparse_text _ c y Hp) in E.
        unfold rs_ok in Hok. destruct (rs_state rs) as [[g p]|] eqn:Es; [|symmetry; apply rs_eta, Es].
        destruct Hok as (Hf & _).
        destruct (next_grapheme_token (c :: y) (rs_reset_state rs)) as [tk|] eqn:Et.
        * destruct (text_gtok_some (c :: y) (tt_len tk) (tt_width tk) (tt_merge tk) Hf) as (k & Hk).
          rewrite Hk in E. discriminate.
        * apply token_none in Et. congruence.
  Qed.

  (* a control byte or ESC at the head of the buffered bytes: the state matters only through its merge flags *)
  Lemma grun_ctl_head t rs c y : crashed t = false -> is_printable c = false ->
    grun_bytes true grid t (rs_reset rs) (c :: y) = grun_bytes true grid t rs (c :: y).
  Proof.
    intros Hc Hp.
    assert (E : gparse_one true grid (rs_reset rs) (c :: y) = gparse_one true grid rs (c :: y)).
    { unfold gparse_one. rewrite Hp. reflexivity. }
    destruct (gparse_one true grid rs (c :: y)) as [[[k rs'] rest]|] eqn:E2.
    - rewrite (grun_bytes_step t rs _ k rs' rest Hc E2), (grun_bytes_step t _ _ k rs' rest Hc E). reflexivity.
    - rewrite (grun_bytes_blocked t rs _ E2), (grun_bytes_blocked t _ _ E). rewrite Hc. cbn [wait_rs]. rewrite Hp. reflexivity.
  Qed.
End Loop.

(* ---- a cluster of x that ends inside x is the cluster of x ++ b (the converse of ustep_prefix) ---- *)
Lemma ustep_loop_extend : forall f1 f2 x b gs fp w len c w' ns,
  aligned (zskipn len x) -> 0 <= len < zlen x -> zlen x - len <= Z.of_nat f1 -> zlen x + zlen b - len <= Z.of_nat f2 ->
  ustep_loop f1 x gs fp w len = (c, w', ns) -> c < zlen x ->
  ustep_loop f2 (x ++ b) gs fp w len = (c, w', ns).
Proof.
  induction f1 as [|f IH]; intros f2 x b gs fp w len c w' ns Hal Hl F1 F2 H Hc; [lia|].
  destruct f2 as [|f2]; [pose proof (zlen_nonneg b); lia|].
  cbn [ustep_loop] in *.
  inversion Hal as [E0|y r l v Hd Hrest E0]; [exfalso; eapply zskipn_nonempty; [exact Hl|symmetry; exact E0]|]. subst y.
  destruct (go_decode_aligned _ b _ _ _ Hd) as (D1 & D2).
  rewrite SegCutProofs.zskipn_app_le by lia. rewrite D1. rewrite D2 in H.
  pose proof (decode_rune_size _ _ _ _ Hd) as (Hl1 & Hl2). rewrite zlen_zskipn_le in Hl2 by lia.
  destruct (trans_grapheme gs r) as [[gs' prop] boundary]. destruct boundary; [exact H|].
  rewrite zlen_app. pose proof (zlen_nonneg b) as Hbn.
  destruct (Z.leb_spec (zlen x) (len + l)) as [Hend|Hmore].
  - inversion H; subst. lia.
  - destruct (Z.leb_spec (zlen x + zlen b) (len + l)) as [Hb|Hb]; [lia|].
    apply (IH f2 x b gs' fp _ (len + l)); try assumption; try lia.
    rewrite SegCutProofs.zskipn_zskipn in Hrest by lia. exact Hrest.
Qed.

Lemma ustep_extend x b st c w ns : aligned x -> x <> [] -> ustep x st = (c, w, ns) -> c < zlen x ->
  ustep (x ++ b) st = (c, w, ns).
Proof.
  intros Hal Hne H Hc. unfold ustep in *.
  inversion Hal as [E0|y r l v Hd Hrest E0]; [congruence|]. subst y.
  destruct (go_decode_aligned _ b _ _ _ Hd) as (D1 & D2). rewrite D1. rewrite D2 in H.
  pose proof (decode_rune_size _ _ _ _ Hd) as (Hl1 & Hl2).
  rewrite zlen_app. pose proof (zlen_nonneg b) as Hbn.
  destruct (Z.leb_spec (zlen x) l) as [Hx|Hx]; [inversion H; subst; lia|].
  destruct (Z.leb_spec (zlen x + zlen b) l) as [Ha|Ha]; [lia|].
  destruct (match st with None => let '(g, p, _) := trans_grapheme (-1) r in (g, p) | Some (g, p) => (g, p) end) as [gs firstProp].
  apply (ustep_loop_extend (length x) (length (x ++ b)) x b gs firstProp _ l); try assumption; try lia.
  - unfold zlen. lia.
  - rewrite app_length. unfold zlen. lia.
Qed.

Lemma aligned_skip x r l v : decode_rune x = Some (r, l, v) -> aligned x -> aligned (zskipn l x).
Proof.
  intros Hd Hal. inversion Hal as [E0|y r0 l0 v0 Hd0 Hrest E0]; [subst; discriminate|]. subst y.
  rewrite Hd in Hd0. inversion Hd0; subst. exact Hrest.
Qed.

(* the token of q that ends strictly inside q is the token of q ++ z *)
Lemma token_extend q z rs tk : aligned q -> next_grapheme_token q rs = Some tk -> tt_len tk < zlen q ->
  next_grapheme_token (q ++ z) rs = Some tk.
Proof.
  intros Hal H Hc.
  assert (Hne : q <> []) by (intros ->; discriminate).
  unfold next_grapheme_token, step_grapheme_cluster in *.
  destruct (aligned_full q Hal Hne z) as (F1 & F2). rewrite F1. rewrite F2 in H. cbn [negb] in *.
  destruct (ustep q (rs_state rs)) as [[c w] ns] eqn:Eu.
  destruct (merge_flags (zfirstn c q) (rs_fm rs) (rs_ri rs)) as [[m f] r] eqn:Em.
  assert (Hcq : c < zlen q) by (inversion H; subst; exact Hc).
  rewrite (ustep_extend q z _ c w ns Hal Hne Eu Hcq).
  rewrite (zfirstn_app_le c q z) by lia. rewrite Em.
  pose proof (ustep_pos _ _ _ _ _ Hne Eu) as Hpos.
  destruct (ustep_prefix q [] (rs_state rs) c w ns Hal Hne) as [(_ & _ & Hal')|(Heq & _)]; [rewrite app_nil_r; exact Eu|lia| |lia].
  assert (Hne' : zskipn c q <> []) by (apply zskipn_nonempty; lia).
  destruct (aligned_full _ Hal' Hne' z) as (G1 & G2).
  rewrite zskipn_app_in by lia. rewrite G1. rewrite G2 in H.
  rewrite zlen_app. pose proof (zlen_nonneg z) as Hzn.
  destruct (Z.leb_spec (zlen q + zlen z) c); [lia|]. destruct (Z.leb_spec (zlen q) c); [lia|].
  exact H.
Qed.

(* a token of x ++ b that ends strictly inside an aligned prefix q of x is the token of x, state included *)
Lemma text_token_in x b q z rs tk : x = q ++ z -> aligned q ->
  next_grapheme_token (x ++ b) rs = Some tk -> tt_len tk < zlen q ->
  next_grapheme_token x rs = Some tk.
Proof.
  intros -> Hal H Hc. rewrite <- app_assoc in H.
  assert (Hne : q <> []).
  { intros ->. rewrite zlen_nil in Hc. cbn [app] in H.
    assert (Hzb : z ++ b <> []) by (intros E; rewrite E in H; discriminate).
    pose proof (token_len_pos _ _ _ Hzb H). lia. }
  destruct (token_prefix q (z ++ b) rs tk Hal Hne H ltac:(lia)) as (tk' & Ht' & E1 & E2 & E3 & E4 & E5 & Hin & _).
  destruct (Hin Hc) as (Es & _).
  assert (tk' = tk) by (apply ttok_ext; try assumption; apply rs_ext; assumption). subst tk'.
  apply token_extend; assumption.
Qed.

(* a token of x ++ b that ends with x: read from x alone it is the same token with the segmentation state reset *)
Lemma text_token_end x b rs tk : aligned x -> x <> [] ->
  next_grapheme_token (x ++ b) rs = Some tk -> tt_len tk = zlen x ->
  exists tk', next_grapheme_token x rs = Some tk' /\ tt_len tk' = tt_len tk /\ tt_width tk' = tt_width tk /\
    tt_merge tk' = tt_merge tk /\ tt_rs tk' = rs_reset_state (tt_rs tk).
Proof.
  intros Hal Hne H Hc.
  destruct (token_prefix x b rs tk Hal Hne H ltac:(lia)) as (tk' & Ht' & E1 & E2 & E3 & E4 & E5 & _ & Hend).
  exists tk'. repeat split; try assumption. apply rs_ext; cbn [rs_reset_state rs_state rs_fm rs_ri]; auto.
Qed.

(* the executed token does not depend on the bytes after it *)
Lemma text_gtok_app grid x b len width merge : full_rune x = true -> len <= zlen x ->
  text_gtok grid (x ++ b) len width merge = text_gtok grid x len width merge.
Proof.
  intros Hf Hl. unfold text_gtok. rewrite (zfirstn_app_le len x b Hl).
  unfold full_rune in Hf. destruct (decode_rune x) as [[[r l] v]|] eqn:Ed; [|discriminate].
  rewrite (decode_rune_mono _ b _ Ed). reflexivity.
Qed.
