From Coq Require Import ExtrOcamlBasic.
From Termemu Require Import Case SCase.
Extraction "model.ml" run_any.
