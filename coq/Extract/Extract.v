From Coq Require Import ExtrOcamlBasic.
From Termemu Require Import Case.
Extraction "model.ml" run_case.
