(* C06 — SU, SD, IL, DL and the implicit scroll of LF/IND/RI/autowrap at a
   region edge shift rows by the requested count (limited to the region height)
   with text and attributes intact, filling vacated rows with blanks in the
   current attributes.  Rows outside the affected range are never modified, a
   DECSTBM request whose top lies below its bottom is ignored, and a count larger
   than the region simply clears it.
   Statements only.  Rows move as whole values (row_at s' y = row_at s y0), so
   text and attributes of every cell are intact by construction.
   Vocabulary (Spec/ScreenSpec.v):
     zin a b i           a <= i < b (boolean)
     clamp_dy h dy       dy limited to [-h, h]
     cmd_rows t t' f     every row y of the new active buffer is f y; size, cursor, saved
                         cursor, margins, autowrap, current style of the active buffer
                         unchanged; inactive buffer, mode registers, keyboard state,
                         reply bytes unchanged
     cmd_rows_nocur      the same with the cursor left free (it is given separately)
     cmd_noop t t'       cmd_rows with f = the old rows
     region_up1 s y      row y after the region [top, bot] moved up one line
     region_down1 s y    ... down one line
     scroll_cmd_start    first row of the range a command works on: top for SU/SD, cy for IL/DL *)
From Coq Require Import List ZArith Bool.
From Termemu Require Import Base Style Screen Parser Term ScreenInv TermInv ScreenSpec RowLemmas EraseProofs ScrollProofs.
Import ListNotations.
Open Scope Z_scope.

(* ---------------- scroll(y1, y2, dy) ---------------- *)

(* Rows y1..y2 (inside the screen) move by d = dy limited to the height of the
   range, positive = down: row y of the range receives old row y - d if that lies in
   the range and a blank row in the current style otherwise; rows outside the
   range are unchanged. *)
Theorem C06_scroll_row : forall y1 y2 dy s, Inv s -> 0 <= y1 -> y1 <= y2 -> y2 < sH s -> forall y,
  row_at (scroll y1 y2 dy s) y =
    if zin y1 (y2 + 1) y then
      let d := clamp_dy (y2 - y1 + 1) dy in
      if zin y1 (y2 + 1) (y - d) then row_at s (y - d) else blank_row (sW s) (sty s)
    else row_at s y.
Proof. exact scroll_row. Qed.
Print Assumptions C06_scroll_row.

(* arbitrary arguments: both ends are clamped into the screen first; if that
   leaves bottom < top the condition below is never true: nothing changes *)
Theorem C06_scroll_row_clamped : forall y1 y2 dy s, Inv s ->
  let a := clamp y1 0 (sH s - 1) in let b := clamp y2 0 (sH s - 1) in
  forall y,
  row_at (scroll y1 y2 dy s) y =
    if zin a (b + 1) y then
      let d := clamp_dy (b - a + 1) dy in
      if zin a (b + 1) (y - d) then row_at s (y - d) else blank_row (sW s) (sty s)
    else row_at s y.
Proof. exact scroll_row_gen. Qed.
Print Assumptions C06_scroll_row_clamped.

Theorem C06_scroll_inverted : forall y1 y2 dy s,
  clamp y2 0 (sH s - 1) < clamp y1 0 (sH s - 1) -> scroll y1 y2 dy s = s.
Proof. exact scroll_inverted. Qed.
Print Assumptions C06_scroll_inverted.

(* size, cursor, saved cursor, margins, autowrap, style untouched *)
Theorem C06_scroll_frame : forall y1 y2 dy s, scr_frame s (scroll y1 y2 dy s).
Proof. exact scroll_frame. Qed.
Print Assumptions C06_scroll_frame.

(* ---------------- SU / SD / IL / DL ---------------- *)
(* n = p0 ps 1: the first parameter, 1 when omitted. *)

(* SU n (CSI n S): region rows move up by n *)
Theorem C06_su : forall t ps, TInv t -> 0 <= p0 ps 1 ->
  let s := active t in let n := p0 ps 1 in
  cmd_rows t (exec_csi_plain ps 83 t) (fun y =>
    if zin (top s) (bot s + 1) y then
      if y + n <=? bot s then row_at s (y + n) else blank_row (sW s) (sty s)
    else row_at s y).
Proof. exact su_cmd. Qed.
Print Assumptions C06_su.

(* SD n (CSI n T): region rows move down by n *)
Theorem C06_sd : forall t ps, TInv t -> 0 <= p0 ps 1 ->
  let s := active t in let n := p0 ps 1 in
  cmd_rows t (exec_csi_plain ps 84 t) (fun y =>
    if zin (top s) (bot s + 1) y then
      if top s <=? y - n then row_at s (y - n) else blank_row (sW s) (sty s)
    else row_at s y).
Proof. exact sd_cmd. Qed.
Print Assumptions C06_sd.

(* IL n (CSI n L), cursor inside the region: rows cy..bot move down by n *)
Theorem C06_il : forall t ps, TInv t -> 0 <= p0 ps 1 ->
  let s := active t in let n := p0 ps 1 in
  top s <= cy s <= bot s ->
  cmd_rows t (exec_csi_plain ps 76 t) (fun y =>
    if zin (cy s) (bot s + 1) y then
      if cy s <=? y - n then row_at s (y - n) else blank_row (sW s) (sty s)
    else row_at s y).
Proof. exact il_cmd. Qed.
Print Assumptions C06_il.

(* DL n (CSI n M), cursor inside the region: rows cy..bot move up by n *)
Theorem C06_dl : forall t ps, TInv t -> 0 <= p0 ps 1 ->
  let s := active t in let n := p0 ps 1 in
  top s <= cy s <= bot s ->
  cmd_rows t (exec_csi_plain ps 77 t) (fun y =>
    if zin (cy s) (bot s + 1) y then
      if y + n <=? bot s then row_at s (y + n) else blank_row (sW s) (sty s)
    else row_at s y).
Proof. exact dl_cmd. Qed.
Print Assumptions C06_dl.

(* IL / DL with the cursor outside the scroll region do nothing *)
Theorem C06_il_dl_outside : forall t ps f, TInv t -> f = 76 \/ f = 77 ->
  let s := active t in
  cy s < top s \/ bot s < cy s ->
  cmd_noop t (exec_csi_plain ps f t).
Proof. exact il_dl_outside_cmd. Qed.
Print Assumptions C06_il_dl_outside.

(* a count of at least the height of the affected range clears exactly that range *)
Theorem C06_count_clears : forall t ps f, TInv t -> f = 83 \/ f = 84 \/ f = 76 \/ f = 77 ->
  let s := active t in let y1 := scroll_cmd_start f s in
  top s <= cy s <= bot s \/ f = 83 \/ f = 84 ->
  bot s - y1 + 1 <= p0 ps 1 ->
  cmd_rows t (exec_csi_plain ps f t) (fun y =>
    if zin y1 (bot s + 1) y then blank_row (sW s) (sty s) else row_at s y).
Proof. exact scroll_cmd_clears. Qed.
Print Assumptions C06_count_clears.

(* an explicit count of 0 changes nothing *)
Theorem C06_count_zero : forall t ps f, TInv t -> f = 83 \/ f = 84 \/ f = 76 \/ f = 77 -> p0 ps 1 = 0 ->
  cmd_noop t (exec_csi_plain ps f t).
Proof. exact scroll_cmd_zero. Qed.
Print Assumptions C06_count_zero.

(* ---------------- DECSTBM (CSI Pt ; Pb r) ---------------- *)

(* With t0 = Pt - 1 (Pt omitted = 1) and b0 = Pb - 1 (Pb omitted = H): an inverted
   request (b0 < t0) is ignored, otherwise both ends are clamped into the screen.
   No cell, and not the cursor, changes (this emulator does not home the cursor). *)
Theorem C06_decstbm : forall t ps,
  let s := active t in let t' := exec_csi_plain ps 114 t in let s' := active t' in
  let t0 := p0 ps 1 - 1 in let b0 := p1 ps (sH s) - 1 in
  (top s', bot s') = (if b0 <? t0 then (top s, bot s) else (clamp t0 0 (sH s - 1), clamp b0 0 (sH s - 1)))
  /\ (forall y, row_at s' y = row_at s y) /\ scr_frame_nomargins s s' /\ term_frame t t'.
Proof. exact decstbm_cmd. Qed.
Print Assumptions C06_decstbm.

Theorem C06_decstbm_in_range : forall t ps pt pb, TInv t ->
  p0 ps 1 = pt -> p1 ps (sH (active t)) = pb -> 1 <= pt -> pt <= pb -> pb <= sH (active t) ->
  top (active (exec_csi_plain ps 114 t)) = pt - 1 /\ bot (active (exec_csi_plain ps 114 t)) = pb - 1.
Proof. exact decstbm_in_range. Qed.
Print Assumptions C06_decstbm_in_range.

Theorem C06_decstbm_inverted : forall t ps,
  p1 ps (sH (active t)) < p0 ps 1 ->
  top (active (exec_csi_plain ps 114 t)) = top (active t) /\ bot (active (exec_csi_plain ps 114 t)) = bot (active t).
Proof. exact decstbm_inverted. Qed.
Print Assumptions C06_decstbm_inverted.

Theorem C06_decstbm_default : forall t, TInv t ->
  top (active (exec_csi_plain [] 114 t)) = 0 /\ bot (active (exec_csi_plain [] 114 t)) = sH (active t) - 1.
Proof. exact decstbm_default. Qed.
Print Assumptions C06_decstbm_default.

(* ---------------- implicit scroll ---------------- *)

(* IND (ESC D) and FF: with the cursor on the bottom margin the region scrolls up
   one line and the cursor stays; anywhere else (inside the region above the
   margin, or outside the region) no cell changes and the cursor moves down one
   row, stopping at the last row of the screen. *)
Theorem C06_ind : forall t t', TInv t -> t' = exec_esc 68 t \/ t' = exec_c0 12 t ->
  let s := active t in
  cmd_rows_nocur t t' (fun y => if cy s =? bot s then region_up1 s y else row_at s y)
  /\ cursor_of (active t') = (cx s, if cy s =? bot s then bot s else Z.min (cy s + 1) (sH s - 1)).
Proof. exact ind_cmd. Qed.
Print Assumptions C06_ind.

(* LF: the same, and the cursor column becomes 0 (this emulator implements LF as next-line) *)
Theorem C06_lf : forall t, TInv t ->
  let s := active t in let t' := exec_c0 10 t in
  cmd_rows_nocur t t' (fun y => if cy s =? bot s then region_up1 s y else row_at s y)
  /\ cursor_of (active t') = (0, if cy s =? bot s then bot s else Z.min (cy s + 1) (sH s - 1)).
Proof. exact lf_cmd. Qed.
Print Assumptions C06_lf.

(* RI (ESC M): symmetric at the top margin *)
Theorem C06_ri : forall t, TInv t ->
  let s := active t in let t' := exec_esc 77 t in
  cmd_rows_nocur t t' (fun y => if cy s =? top s then region_down1 s y else row_at s y)
  /\ cursor_of (active t') = (cx s, if cy s =? top s then top s else Z.max (cy s - 1) 0).
Proof. exact ri_cmd. Qed.
Print Assumptions C06_ri.

(* autowrap: a narrow glyph written (autowrap on) in the last column of the
   bottom-margin row is stored, then the cursor wraps immediately (no deferred
   wrap), which scrolls the region up by one: the row just written ends up at
   bot-1, row bot is blank, the cursor is at column 0 of row bot *)
Theorem C06_autowrap : forall txt w0 s, Inv s ->
  awrap s = true -> w0 <= 1 -> cx s = sW s - 1 -> cy s = bot s ->
  let s' := write_glyph txt w0 s in
  let written := overwrite (sty s) (sW s - 1) [mkCell txt 1 (sty s)] (row_at s (bot s)) in
  (forall y, row_at s' y =
     if zin (top s) (bot s + 1) y then
       if y =? bot s then blank_row (sW s) (sty s)
       else if y + 1 =? bot s then written else row_at s (y + 1)
     else row_at s y)
  /\ cx s' = 0 /\ cy s' = bot s /\ scr_frame_nocur s s'.
Proof. exact write_glyph_autowrap. Qed.
Print Assumptions C06_autowrap.

(* a wide glyph that does not fit at the end of the bottom-margin row (autowrap on,
   W >= 3): the wrap and the scroll happen BEFORE the write; the old rows move up
   unchanged and the glyph lands at column 0 of the fresh blank row *)
Theorem C06_autowrap_wide : forall txt s, Inv s ->
  awrap s = true -> 3 <= sW s -> cx s = sW s - 1 -> cy s = bot s ->
  let s' := write_glyph txt 2 s in
  (forall y, row_at s' y =
     if y =? bot s then overwrite (sty s) 0 (glyph_cells txt 2 (sty s)) (blank_row (sW s) (sty s))
     else region_up1 s y)
  /\ cx s' = 2 /\ cy s' = bot s /\ scr_frame_nocur s s'.
Proof. exact write_glyph_wide_autowrap. Qed.
Print Assumptions C06_autowrap_wide.

(* ---------------- examples: 5x7 screen, scroll region rows 1..5 ---------------- *)
Example C06_su_sd_examples :
  rows_after [2] 83 ex_scr = [znth 0 ex_rows []; znth 3 ex_rows []; znth 4 ex_rows []; znth 5 ex_rows [];
                               blank_row 5 stB; blank_row 5 stB; znth 6 ex_rows []]
  /\ (rows_after [] 84 ex_scr = [znth 0 ex_rows []; blank_row 5 stB; znth 1 ex_rows []; znth 2 ex_rows [];
                              znth 3 ex_rows []; znth 4 ex_rows []; znth 6 ex_rows []]
  /\ rows_after [99] 84 ex_scr = [znth 0 ex_rows []; blank_row 5 stB; blank_row 5 stB; blank_row 5 stB;
                                   blank_row 5 stB; blank_row 5 stB; znth 6 ex_rows []]
  /\ rows_after [0] 84 ex_scr = ex_rows).
Proof. exact (conj su_example sd_example). Qed.

Example C06_il_dl_examples :
  rows_after [2] 76 (ex_scr_at 2 3) = [znth 0 ex_rows []; znth 1 ex_rows []; znth 2 ex_rows [];
                                        blank_row 5 stB; blank_row 5 stB; znth 3 ex_rows []; znth 6 ex_rows []]
  /\ rows_after [] 77 (ex_scr_at 2 3) = [znth 0 ex_rows []; znth 1 ex_rows []; znth 2 ex_rows [];
                                        znth 4 ex_rows []; znth 5 ex_rows []; blank_row 5 stB; znth 6 ex_rows []]
  /\ rows_after [2] 76 (ex_scr_at 2 6) = ex_rows /\ rows_after [2] 77 (ex_scr_at 2 0) = ex_rows.
Proof. exact il_dl_example. Qed.

Example C06_decstbm_examples :
  margins_after [2; 4] ex_scr = (1, 3) /\ margins_after [5; 3] ex_scr = (1, 5) /\ margins_after [] ex_scr = (0, 6)
  /\ margins_after [3] ex_scr = (2, 6) /\ margins_after [4; 99] ex_scr = (3, 6) /\ margins_after [3; 3] ex_scr = (2, 2)
  /\ cursor_of (active (exec_csi_plain [2; 4] 114 ex_term)) = (4, 1).
Proof. exact decstbm_example. Qed.

Example C06_implicit_examples :
  ((let t' := exec_c0 10 (term_of (ex_scr_at 3 5)) in
   rows (active t') = [znth 0 ex_rows []; znth 2 ex_rows []; znth 3 ex_rows []; znth 4 ex_rows []; znth 5 ex_rows [];
                       blank_row 5 stB; znth 6 ex_rows []] /\ cursor_of (active t') = (0, 5))
  /\ (let t' := exec_c0 10 (term_of (ex_scr_at 3 6)) in rows (active t') = ex_rows /\ cursor_of (active t') = (0, 6))
  /\ (let t' := exec_esc 68 (term_of (ex_scr_at 3 2)) in rows (active t') = ex_rows /\ cursor_of (active t') = (3, 3))
  /\ (let t' := exec_esc 77 (term_of (ex_scr_at 3 1)) in
      rows (active t') = [znth 0 ex_rows []; blank_row 5 stB; znth 1 ex_rows []; znth 2 ex_rows []; znth 3 ex_rows [];
                          znth 4 ex_rows []; znth 6 ex_rows []] /\ cursor_of (active t') = (3, 1))
  /\ (let t' := exec_esc 77 (term_of (ex_scr_at 3 0)) in rows (active t') = ex_rows /\ cursor_of (active t') = (3, 0)))
  /\ (let s' := write_glyph [120] 1 (ex_scr_at 4 5) in
      rows s' = [znth 0 ex_rows []; znth 2 ex_rows []; znth 3 ex_rows []; znth 4 ex_rows [];
                 wide 19968 stC ++ wide 20108 stA ++ [ch 120 stB]; blank_row 5 stB; znth 6 ex_rows []]
      /\ cursor_of s' = (0, 5)).
Proof. exact (conj lf_ri_example autowrap_example). Qed.

Example C06_autowrap_wide_example :
  let s' := write_glyph [19977] 2 (ex_scr_at 4 5) in
  rows s' = [znth 0 ex_rows []; znth 2 ex_rows []; znth 3 ex_rows []; znth 4 ex_rows []; znth 5 ex_rows [];
             wide 19977 stB ++ [blank stB; blank stB; blank stB]; znth 6 ex_rows []]
  /\ cursor_of s' = (2, 5).
Proof. exact wide_autowrap_example. Qed.
