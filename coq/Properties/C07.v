(* C07 — The current rendition is the left-to-right fold of all SGR parameters
   received, the frontend is told the resulting style, and each cell written or
   blanked afterwards reports precisely that style.  Statements only. *)
From Coq Require Import List ZArith Bool.
From Termemu Require Import Base Style Screen Kbd Parser Term SgrSpec StyleProofs SgrProofs StampProofs StyleInv.
Import ListNotations.
Open Scope Z_scope.

(* ---- 1. the fold ---- *)

(* For every parameter list (any length, any values) and every starting style,
   the style computed by the model of case 'm' is, seen abstractly (two colours
   and one boolean per mode), the left fold of the per-item specification over
   the items the look-ahead cuts the list into. *)
Theorem C07_fold_spec : forall ps s,
  aeq (abs (sgr_fold ps s)) (fold_left sgr1_spec (group ps) (abs s)).
Proof. exact sgr_fold_spec. Qed.
Print Assumptions C07_fold_spec.

(* the abstract view determines the style, so the specification fixes the result *)
Theorem C07_fold_unique : forall ps s s',
  aeq (abs s') (fold_left sgr1_spec (group ps) (abs s)) -> sgr_fold ps s = s'.
Proof. exact sgr_fold_unique. Qed.
Print Assumptions C07_fold_unique.

(* CSI m without parameters is CSI 0 m *)
Theorem C07_no_params : forall s, sgr_apply [] s = sgr_fold [0] s.
Proof. exact sgr_apply_nil. Qed.
Print Assumptions C07_no_params.

Theorem C07_apply_spec : forall ps s,
  aeq (abs (sgr_apply ps s)) (sgr_spec (match ps with [] => [0] | _ => ps end) (abs s)).
Proof. exact sgr_apply_spec. Qed.
Print Assumptions C07_apply_spec.

(* the grouping function is the grouping relation (one rule per case), which is functional *)
Theorem C07_group_sound : forall ps, grouped ps (group ps).
Proof. exact group_grouped. Qed.
Print Assumptions C07_group_sound.
Theorem C07_group_unique : forall ps its, grouped ps its -> its = group ps.
Proof. exact grouped_group. Qed.
Print Assumptions C07_group_unique.

(* Defined by the implementation: an incomplete or unknown extended-colour form
   consumes nothing; 38 / 48 has no effect and what follows is read as ordinary
   codes (so CSI 38;5 m sets blink, CSI 38;2;7 m sets dim and reverse). *)
Theorem C07_group_truncated : forall p, is_ext p ->
  group [p] = [IPlain p] /\
  group [p; 5] = [IPlain p; IPlain 5] /\
  (forall r, group [p; 2; r] = [IPlain p; IPlain 2; IPlain r]) /\
  (forall r g, ~ is_ext r -> ~ is_ext g -> group [p; 2; r; g] = [IPlain p; IPlain 2; IPlain r; IPlain g]) /\
  (forall m rest, m <> 5 -> m <> 2 -> group (p :: m :: rest) = IPlain p :: group (m :: rest)).
Proof. exact group_truncated. Qed.
Print Assumptions C07_group_truncated.

Example C07_group_example :
  group [1; 38; 5; 200; 48; 2; 1; 2; 3; 38; 9; 4; 48; 2; 7; 8] =
  [IPlain 1; IIdx false 200; IRgb true 1 2 3; IPlain 38; IPlain 9; IPlain 4;
   IPlain 48; IPlain 2; IPlain 7; IPlain 8].
Proof. exact group_example. Qed.
(* a complete group is taken even if its values look like codes *)
Example C07_group_example2 : group [38; 5; 38; 2; 7] = [IIdx false 38; IPlain 2; IPlain 7].
Proof. exact group_example2. Qed.
Example C07_fold_example :
  sgr_fold [1; 2; 38; 5; 200; 22; 48; 2; 1; 2; 3; 38; 9; 4; 48; 2; 7; 8] default_style
  = mkStyle (CIdx 200) (CRgb 66051)
      (Z.shiftl 1 mStrike + Z.shiftl 1 mUnderline + Z.shiftl 1 mDim + Z.shiftl 1 mReverse + Z.shiftl 1 mInvisible).
Proof. exact fold_example. Qed.

(* ---- 2. mode algebra and the code table ---- *)

(* SetMode / ResetMode act on exactly one mode (any index >= 0, in particular the thirteen) *)
Theorem C07_test_set : forall i j s, 0 <= i -> test_mode j (set_mode i s) = (i =? j) || test_mode j s.
Proof. exact test_set_mode. Qed.
Print Assumptions C07_test_set.
Theorem C07_test_reset : forall i j s, 0 <= i -> test_mode j (reset_mode i s) = negb (i =? j) && test_mode j s.
Proof. exact test_reset_mode. Qed.
Print Assumptions C07_test_reset.

(* ... and never on a colour; colour setters never on a mode or the other colour *)
Theorem C07_modes_keep_colors : forall i s,
  sfg (set_mode i s) = sfg s /\ sbg (set_mode i s) = sbg s /\
  sfg (reset_mode i s) = sfg s /\ sbg (reset_mode i s) = sbg s.
Proof. exact mode_ops_keep_colors. Qed.
Print Assumptions C07_modes_keep_colors.
Theorem C07_colors_keep_modes : forall c s,
  smodes (set_fg c s) = smodes s /\ smodes (set_bg c s) = smodes s /\
  sbg (set_fg c s) = sbg s /\ sfg (set_bg c s) = sfg s /\
  sfg (set_fg c s) = c /\ sbg (set_bg c s) = c.
Proof. exact color_ops_keep_modes. Qed.
Print Assumptions C07_colors_keep_modes.

(* 1-9, 21, 51-53 each switch on the mode of the table ... *)
Theorem C07_set_codes : forall p i s, assoc p set_codes = Some i -> sgr_fold [p] s = set_mode i s.
Proof. exact sgr_set_codes. Qed.
Print Assumptions C07_set_codes.
(* ... 22-25, 27-29, 54, 55 switch off the modes of the table ... *)
Theorem C07_reset_codes : forall p l s, assoc p reset_codes = Some l ->
  sgr_fold [p] s = fold_left (fun s i => reset_mode i s) l s.
Proof. exact sgr_reset_codes. Qed.
Print Assumptions C07_reset_codes.
(* ... in particular 22 bold+dim, 24 underline+double, 25 blink+rapid, 54 framed+encircled *)
Theorem C07_pair_resets : forall s j,
  test_mode j (sgr_fold [22] s) = negb (j =? mBold) && negb (j =? mDim) && test_mode j s /\
  test_mode j (sgr_fold [24] s) = negb (j =? mUnderline) && negb (j =? mDUnderline) && test_mode j s /\
  test_mode j (sgr_fold [25] s) = negb (j =? mBlink) && negb (j =? mRapid) && test_mode j s /\
  test_mode j (sgr_fold [54] s) = negb (j =? mFramed) && negb (j =? mEncircled) && test_mode j s.
Proof. exact sgr_pair_resets. Qed.
Print Assumptions C07_pair_resets.

(* 30-37 / 40-47 indexed, 90-97 / 100-107 bright, 39 / 49 default *)
Theorem C07_color_codes : forall n s, 0 <= n <= 7 ->
  sgr_fold [30 + n] s = set_fg (CIdx n) s /\ sgr_fold [40 + n] s = set_bg (CIdx n) s /\
  sgr_fold [90 + n] s = set_fg (CBright n) s /\ sgr_fold [100 + n] s = set_bg (CBright n) s /\
  sgr_fold [39] s = set_fg CDef s /\ sgr_fold [49] s = set_bg CDef s.
Proof. exact sgr_color_codes. Qed.
Print Assumptions C07_color_codes.

(* 38/48;5;n takes n mod 256; 38/48;2;r;g;b takes each component mod 256 *)
Theorem C07_ext_codes : forall (bgp : bool) n r g b s rest,
  let p := if bgp then 48 else 38 in
  sgr_fold (p :: 5 :: n :: rest) s = sgr_fold rest (set_comp bgp (CIdx (n mod 256)) s) /\
  sgr_fold (p :: 2 :: r :: g :: b :: rest) s = sgr_fold rest (set_comp bgp (CRgb (rgb_of r g b)) s).
Proof. exact sgr_ext_codes. Qed.
Print Assumptions C07_ext_codes.

(* 0 forgets everything received before it *)
Theorem C07_reset_all : forall ps s, sgr_fold (0 :: ps) s = sgr_fold ps default_style.
Proof. exact sgr_reset_all. Qed.
Print Assumptions C07_reset_all.
Theorem C07_zero : forall s i,
  test_mode i (sgr_fold [0] s) = false /\ sfg (sgr_fold [0] s) = CDef /\ sbg (sgr_fold [0] s) = CDef.
Proof. exact sgr_zero_modes. Qed.
Print Assumptions C07_zero.

(* every other value read on its own (10-20, 26, 38, 48, 50, 56-89, 98, 99, > 107, < 0) changes nothing *)
Theorem C07_other_codes : forall p s, ~ In p effective_codes -> sgr_fold [p] s = s.
Proof. exact sgr_other_codes. Qed.
Print Assumptions C07_other_codes.
Theorem C07_code_table : forall p s, 0 <= p <= 255 -> effective_b p = false -> sgr_fold [p] s = s.
Proof. exact sgr_code_table. Qed.
Print Assumptions C07_code_table.

(* ---- 3. packing ---- *)

(* SGR parameters keep a style inside what the packed struct can hold *)
Theorem C07_wf_fold : forall ps s, wf_style s -> wf_style (sgr_fold ps s).
Proof. exact wf_sgr_fold. Qed.
Print Assumptions C07_wf_fold.
Theorem C07_wf_apply : forall ps s, wf_style s -> wf_style (sgr_apply ps s).
Proof. exact wf_sgr_apply. Qed.
Print Assumptions C07_wf_apply.
Theorem C07_wf_default : wf_style default_style.
Proof. exact wf_default. Qed.

(* the two words determine the style *)
Theorem C07_pack_unpack : forall s, wf_style s -> unpack (pack_fg s) (pack_bg s) = s.
Proof. exact pack_unpack. Qed.
Print Assumptions C07_pack_unpack.

(* Go's == on Style (three uint32 words) is equality of styles: styles that
   differ in a colour class, a colour value or any of the thirteen modes differ
   in a word *)
Theorem C07_distinguishes : forall s1 s2, wf_style s1 -> wf_style s2 ->
  (pack_fg s1 = pack_fg s2 /\ pack_bg s1 = pack_bg s2 /\ pack_ul s1 = pack_ul s2) <-> s1 = s2.
Proof. exact pack_eq_iff. Qed.
Print Assumptions C07_distinguishes.

(* default, indexed 0, bright 0 and RGB black are four different words under every mode byte *)
Theorem C07_color_classes : forall m, 0 <= m < 128 ->
  let w c := pack_color c + m * 16777216 in
  w CDef <> w (CIdx 0) /\ w CDef <> w (CBright 0) /\ w CDef <> w (CRgb 0) /\
  w (CIdx 0) <> w (CBright 0) /\ w (CIdx 0) <> w (CRgb 0) /\ w (CBright 0) <> w (CRgb 0).
Proof. exact pack_color_distinct. Qed.
Print Assumptions C07_color_classes.

(* the words fit uint32 *)
Theorem C07_pack_range : forall s, wf_style s ->
  0 <= pack_fg s < 4294967296 /\ 0 <= pack_bg s < 4294967296 /\ pack_ul s = 256.
Proof. exact pack_range. Qed.
Print Assumptions C07_pack_range.

(* Every style of a reachable state is well-formed - the current rendition of
   both buffers and the style of every cell, after any history of backend reads
   and Resize calls (any sizes, no side condition) - so the packing theorems
   above apply to everything the emulator ever stores or reports. *)
Theorem C07_wf_reachable : forall wc grid w h ops,
  let t := fst (run_hist wc grid (init_term w h) ops) in
  wf_style (sty (tmain t)) /\ wf_style (sty (talt t)) /\
  (forall x y, wf_style (cst (cell_at (tmain t) x y))) /\
  (forall x y, wf_style (cst (cell_at (talt t) x y))).
Proof. exact reachable_styles_wf. Qed.
Print Assumptions C07_wf_reachable.

Example C07_wf_example :
  sgr_fold [1; 38; 2; 300; 2; 3; 48; 5; 511; 53] default_style = mkStyle (CRgb 2884099) (CIdx 255) 257.
Proof. exact wf_fold_example. Qed.

Example C07_pack_example :
  let s := mkStyle (CRgb 66051) (CBright 3) 4609 in
  pack_fg s = 2147483648 + 66051 + 1 * 16777216 /\ pack_bg s = 515 + 36 * 16777216 /\
  unpack (pack_fg s) (pack_bg s) = s.
Proof. exact pack_example. Qed.

(* ---- 4. the frontend is told ---- *)

(* CSI ps m sets the active buffer's style to the fold, reports it as the newest
   callback and touches nothing else: no cell, no cursor, not the other buffer,
   no register, no reply *)
Theorem C07_told : forall ps t,
  let st := sgr_apply ps (sty (active t)) in
  let t' := exec_csi_plain ps 109 t in
  let s := active t in let s' := active t' in
  tlog t' = EStyle st :: tlog t /\ sty s' = st /\
  rows s' = rows s /\ sW s' = sW s /\ sH s' = sH s /\ cx s' = cx s /\ cy s' = cy s /\
  svx s' = svx s /\ svy s' = svy s /\ top s' = top s /\ bot s' = bot s /\ awrap s' = awrap s /\
  crash s' = crash s /\ trig s' = trig s /\
  (if onalt t then tmain t' = tmain t else talt t' = talt t) /\
  onalt t' = onalt t /\ vflags t' = vflags t /\ vints t' = vints t /\ vstrs t' = vstrs t /\
  kbm t' = kbm t /\ kba t' = kba t /\ tout t' = tout t.
Proof. exact sgr_told. Qed.
Print Assumptions C07_told.

(* ... and the style reported is always one the packed struct can hold *)
Theorem C07_told_wf : forall ps t, TSInv t ->
  exists st, tlog (exec_csi_plain ps 109 t) = EStyle st :: tlog t /\ wf_style st.
Proof. exact sgr_told_wf. Qed.
Print Assumptions C07_told_wf.

Theorem C07_dispatch : forall ps t,
  exec_tok (TCsi 0 ps 109) t = on_screen (fun s => set_style (sgr_apply ps (sty s)) s) t.
Proof. exact sgr_dispatch. Qed.
Print Assumptions C07_dispatch.

(* CSI ? m, CSI > m, CSI < m, CSI = m are not SGR *)
Theorem C07_private_m : forall prefix ps t, prefix <> 0 ->
  sty (tmain (exec_csi prefix ps 109 t)) = sty (tmain t) /\ sty (talt (exec_csi prefix ps 109 t)) = sty (talt t).
Proof. exact sgr_private_no_style. Qed.
Print Assumptions C07_private_m.

Example C07_told_example :
  let t := exec_csi_plain [4; 91; 48; 5; 17] 109 (init_term 3 2) in
  tlog t = [EStyle (mkStyle (CBright 1) (CIdx 17) 8)] /\ sty (tmain t) = mkStyle (CBright 1) (CIdx 17) 8.
Proof. exact told_example. Qed.

(* ---- 5. stamping ---- *)

(* created cells *)
Theorem C07_blank : forall st, cst (blank st) = st /\ ctext (blank st) = [32] /\ cwid (blank st) = 1.
Proof. exact blank_style. Qed.
Theorem C07_glyph_cells : forall txt w st c, In c (glyph_cells txt w st) -> cst c = st.
Proof. exact glyph_cells_style. Qed.
Print Assumptions C07_glyph_cells.

(* Regardless of what the cell held before: every index in the zone an
   overwrite touches (from the head of a glyph cut on the left to the last
   continuation of a glyph cut on the right) ends with style st ... *)
Theorem C07_overwrite_stamp : forall st x new row i,
  0 <= x -> x + zlen new <= zlen row -> 0 < zlen new -> Forall (styled st) new ->
  left_edge row x <= i < x + zlen new + cont_run row (x + zlen new) ->
  cst (znth i (overwrite st x new row) dcell) = st.
Proof. exact overwrite_stamp. Qed.
Print Assumptions C07_overwrite_stamp.
(* ... and every other index keeps its cell *)
Theorem C07_overwrite_outside : forall st x new row i,
  0 <= x -> x + zlen new <= zlen row ->
  i < left_edge row x \/ x + zlen new + cont_run row (x + zlen new) <= i ->
  znth i (overwrite st x new row) dcell = znth i row dcell.
Proof. exact overwrite_outside. Qed.
Print Assumptions C07_overwrite_outside.

(* the row a write leaves behind is that overwrite in the current style *)
Theorem C07_write_row : forall reason x y new s,
  0 < zlen new -> 0 <= y < sH s -> zlen (rows s) = sH s -> 0 <= x -> x + zlen new <= sW s ->
  row_at (write_row_cells reason x y new s) y = overwrite (sty s) x new (row_at s y) /\
  (forall y', y' <> y -> row_at (write_row_cells reason x y new s) y' = row_at s y').
Proof. exact write_row_cells_row. Qed.
Print Assumptions C07_write_row.

(* Screen level, [stamped st s s']: every cell of s' is a cell of s or has style st.
   Printing a glyph (including autowrap and the scroll it may cause), erasing
   (EL, ED, ECH; including the blanks that replace cut wide glyphs) and scrolling
   (IL, DL, SU, SD, LF, RI) create cells in the current style only, and keep
   that style current. *)
Theorem C07_write_glyph : forall txt w0 s,
  stamped (sty s) s (write_glyph txt w0 s) /\ sty (write_glyph txt w0 s) = sty s.
Proof. exact write_glyph_stamped. Qed.
Print Assumptions C07_write_glyph.
Theorem C07_erase : forall x y x2 y2 s,
  stamped (sty s) s (erase_region x y x2 y2 s) /\ sty (erase_region x y x2 y2 s) = sty s.
Proof. exact erase_region_stamped. Qed.
Print Assumptions C07_erase.
Theorem C07_scroll : forall y1 y2 dy s,
  stamped (sty s) s (scroll y1 y2 dy s) /\ sty (scroll y1 y2 dy s) = sty s.
Proof. exact scroll_stamped. Qed.
Print Assumptions C07_scroll.

(* Exception, by design: the half of a wide glyph that DCH or a resize cuts off
   becomes a blank that keeps the glyph's own style ([unglyph]); everything else
   these two create (tail fill, right and bottom padding) is in the current style. *)
Theorem C07_delete_chars : forall x y n s,
  stamped_cut (sty s) s (delete_chars x y n s) /\ sty (delete_chars x y n s) = sty s.
Proof. exact delete_chars_stamped. Qed.
Print Assumptions C07_delete_chars.
Theorem C07_set_size : forall w h s, 0 < w -> 0 < h ->
  stamped_cut (sty s) s (set_size w h s) /\ sty (set_size w h s) = sty s.
Proof. exact set_size_stamped. Qed.
Print Assumptions C07_set_size.

Example C07_overwrite_example :
  let red := mkStyle (CIdx 1) CDef 0 in let blue := mkStyle (CIdx 4) CDef 1 in
  let row := [mkCell [97] 1 red; mkCell [87] 2 red; contc red; mkCell [98] 1 red] in
  overwrite blue 2 [mkCell [120] 1 blue] row = [mkCell [97] 1 red; blank blue; mkCell [120] 1 blue; mkCell [98] 1 red].
Proof. exact overwrite_example. Qed.
Example C07_delete_example :
  let red := mkStyle (CIdx 1) CDef 0 in let blue := mkStyle (CIdx 4) CDef 1 in
  let row := [mkCell [97] 1 red; mkCell [87] 2 red; contc red; mkCell [98] 1 red] in
  delete_cells blue 2 1 row = [mkCell [97] 1 red; blank red; mkCell [98] 1 red; blank blue].
Proof. exact delete_example. Qed.
Example C07_write_glyph_example :
  let red := mkStyle (CIdx 1) CDef 0 in let blue := mkStyle (CIdx 4) CDef 1 in
  let s := mkScreen [[mkCell [87] 2 red; contc red; mkCell [98] 1 red]] 3 1 1 0 0 0 0 0 false blue 0 0 [] in
  rows (write_glyph [120] 1 s) = [[blank blue; mkCell [120] 1 blue; mkCell [98] 1 red]] /\
  sty (write_glyph [120] 1 s) = blue.
Proof. exact write_glyph_example. Qed.
Example C07_erase_example :
  let red := mkStyle (CIdx 1) CDef 0 in let blue := mkStyle (CIdx 4) CDef 1 in
  let s := mkScreen [[mkCell [87] 2 red; contc red; mkCell [98] 1 red]] 3 1 1 0 0 0 0 0 false blue 0 0 [] in
  rows (erase_region 0 0 1 1 s) = [[blank blue; blank blue; mkCell [98] 1 red]].
Proof. exact erase_example. Qed.
Example C07_mode_example :
  test_mode mDUnderline (set_mode mDUnderline (set_mode mBold default_style)) = true /\
  test_mode mBold (reset_mode mDUnderline (set_mode mDUnderline (set_mode mBold default_style))) = true /\
  test_mode mDUnderline (reset_mode mDUnderline (set_mode mDUnderline (set_mode mBold default_style))) = false.
Proof. exact mode_example. Qed.
