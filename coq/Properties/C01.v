(* C01 — No input, size or resize history can crash or wedge the emulator.
   Statements only. *)
From Coq Require Import List ZArith Bool.
From Termemu Require Import Base Style Screen Parser Term ScreenInv TermInv ParserProofs HistProofs.
Import ListNotations.
Open Scope Z_scope.

(* No panic site of the model (row index out of range, the explicit guards of
   rawWriteSpan / rawWriteRune / setSize) is reachable: for every byte stream cut
   into reads in any way, every size >= 1x1, both buffer kinds, every width
   oracle and every interleaving with Resize calls (sizes >= 1x1). *)
Theorem C01_no_crash : forall (wc : Z -> Z) (grid : bool) w h ops,
  1 <= w -> 1 <= h -> hist_ok ops ->
  crashed (fst (run_hist wc grid (init_term w h) ops)) = false.
Proof. exact no_crash_hist. Qed.
Print Assumptions C01_no_crash.

(* Finite input is consumed in finite time: each token takes at least one byte,
   so |pending| + 1 iterations of the read loop always suffice (more fuel never
   changes the result), ... *)
Theorem C01_progress : forall wc grid t inp k,
  run_pending wc grid (S (length inp) + k) t inp = run_bytes wc grid t inp.
Proof. exact run_bytes_fuel_enough. Qed.
Print Assumptions C01_progress.

(* ... and when the loop stops it waits for input (or has crashed, excluded above) *)
Theorem C01_stops_waiting : forall wc grid t inp,
  crashed (fst (run_bytes wc grid t inp)) = true \/
  parse_one wc grid (snd (run_bytes wc grid t inp)) = PMore.
Proof. exact run_bytes_stops. Qed.
Print Assumptions C01_stops_waiting.

Theorem C01_token_consumes : forall wc grid inp k rest,
  parse_one wc grid inp = PTok k rest -> exists pre, inp = pre ++ rest /\ (1 <= length pre)%nat.
Proof. exact parse_one_suffix. Qed.
Print Assumptions C01_token_consumes.

(* read accessors: in every reachable state every row index below H yields a row of W cells *)
Theorem C01_accessors : forall s y, Inv s -> 0 <= y < sH s -> zlen (row_at s y) = sW s.
Proof. exact row_at_len. Qed.
Print Assumptions C01_accessors.

(* numeric parameters saturate: whatever digits a CSI carries (also more than fit in 64 bits), every
   parameter the tokenizer hands on lies in 0 .. 65535 and at most 32 parameters are kept *)
Theorem C01_csi_params_saturate : forall inp prefix ps f rest,
  parse_csi inp = PTok (TCsi prefix ps f) rest ->
  Forall (fun p => 0 <= p <= maxCSIParam) ps /\ zlen ps <= nParamStore.
Proof. exact csi_params_saturate. Qed.
Print Assumptions C01_csi_params_saturate.
