(* C08, grapheme clause, for terminals: "in grapheme mode the result does not depend on how the byte stream is
   split into reads, for every cut that does not fall inside an extended grapheme cluster".
   C08grapheme.v proves the clause for token lists (C08_grapheme_cut_text).  Here it is proved for the read loop of
   Model/GTerm.v with grapheme := true: the whole triple (terminal - both screens, cursor, modes, replies, callback
   log -, reader state, pending bytes) after feeding a and then b is the triple after feeding a ++ b.
   Statements only; proofs are in Proofs/SegScreenLoop.v, Proofs/SegScreenProofs.v, Proofs/SegScreenExamples.v.

   The reader state between the two reads.  When a token of text ends with the buffered bytes the model (as
   stepGraphemeCluster) returns segmentation state -1 with the merge flags of the token, where the uncut read carries
   the state uniseg.Step returned; C08_screen_carried_or_reset: from a state that is rs_ok (C08_token_state: every
   state after a token is) the loop does the same from either.  When the first read stops inside an escape sequence
   the bytes stay pending and the state is rs_reset rs in both readings.

   [adm rs a b] (Proofs/SegScreenProofs.v): the cut at |a| is admissible for the stream a ++ b read from reader
   state rs; defined along the model's own parse of a ++ b:
     adm_cut        a = []: the cut is where a token of a ++ b starts;
     adm_text_in    the next token of a ++ b is text and ends before the cut, inside a stretch q of a made of whole
                    UTF-8 decoding steps; the cut is admissible for what follows the token;
     adm_text_end   the next token of a ++ b is text and ends exactly at the cut, and a is made of whole decoding steps;
     adm_text_wait  a is an incomplete first character of a token (the reader waits);
     adm_c0         a control byte, then an admissible cut;
     adm_esc_in     an escape sequence of a ++ b that ends before or at the cut, then an admissible cut;
     adm_esc_cut    the cut is inside an escape sequence (anywhere: after ESC, inside parameters, inside a payload).
   So inside a run of text the cut must be a boundary of the tokens of a ++ b - not inside a cluster - and not inside
   a UTF-8 character; everywhere else it is free.

   Added to the premises of toks_cut: TInv t, the invariant of C01 (holds in every reachable state).  Without it
   a token can reach a modelled panic site; the loop then stops at once and the reader state it stops with is the
   reset one in the cut reading and the carried one in the uncut reading (C08_screen_needs_invariant).
   Premises of toks_cut not needed here: b <> [] and rs_ok rs (a ++ b) (both readings start from the same rs). *)
From Coq Require Import List ZArith Bool.
From Termemu Require Import Base Style Screen Kbd Parser Term TermInv Gen_Uniseg Uniseg Grapheme GTerm GTermProofs
  SegCutProofs SegScreenLoop SegScreenProofs SegScreenExamples.
Import ListNotations.
Open Scope Z_scope.

(* from a reader state that is ok for the buffered bytes, the loop gives the same triple whether the segmentation
   state is carried or reset *)
Theorem C08_screen_carried_or_reset : forall grid t rs inp, crashed t = false -> rs_ok rs inp ->
  grun_bytes true grid t (rs_reset_state rs) inp = grun_bytes true grid t rs inp.
Proof. exact grun_reset_ok. Qed.
Print Assumptions C08_screen_carried_or_reset.

(* the loop on a run of printable text executes exactly the tokens of [toks], each as a glyph write
   GT (TGlyph ...) or a merge GMerge ..., and ends with the reader state and the bytes left of [toks] *)
Theorem C08_screen_text_tokens : forall grid buf rs l rs' rest, toks buf rs l rs' rest ->
  Forall (fun c => is_printable c = true) buf -> forall t, TInv t ->
  grun_bytes true grid t rs buf = (fold_left (fun t k => gexec k t) (text_gtoks grid buf l) t, rs', rest).
Proof. exact grun_text_toks. Qed.
Print Assumptions C08_screen_text_tokens.

(* the executed token does not depend on the bytes after it: text bytes and rune are stable under extension *)
Theorem C08_screen_token_stable : forall grid x b len width merge, full_rune x = true -> len <= zlen x ->
  text_gtok grid (x ++ b) len width merge = text_gtok grid x len width merge.
Proof. exact text_gtok_app. Qed.
Print Assumptions C08_screen_token_stable.

(* a cluster of x that ends strictly inside x is the cluster of x ++ b (converse of C08_token_prefix) *)
Theorem C08_screen_token_extend : forall q z rs tk, aligned q -> next_grapheme_token q rs = Some tk ->
  tt_len tk < zlen q -> next_grapheme_token (q ++ z) rs = Some tk.
Proof. exact token_extend. Qed.
Print Assumptions C08_screen_token_extend.

(* 1. a run of text: a is printable text made of whole characters and the tokens of a ++ b have a boundary at |a| *)
Theorem C08_screen_cut_text : forall grid l1 a b rs l2 rs' rest t, TInv t ->
  aligned a -> Forall (fun c => is_printable c = true) a ->
  toks (a ++ b) rs (l1 ++ l2) rs' rest -> toks_len l1 = zlen a ->
  ghstep true grid (ghstep true grid (t, rs, []) (HFeed a)) (HFeed b) = ghstep true grid (t, rs, []) (HFeed (a ++ b)).
Proof. exact grapheme_cut_text_screen. Qed.
Print Assumptions C08_screen_cut_text.

(* the hypotheses of toks_cut make the cut admissible *)
Theorem C08_screen_text_adm : forall l1 a b rs l2 rs' rest, aligned a -> Forall (fun c => is_printable c = true) a ->
  toks (a ++ b) rs (l1 ++ l2) rs' rest -> toks_len l1 = zlen a -> adm rs a b.
Proof. exact adm_of_toks. Qed.
Print Assumptions C08_screen_text_adm.

(* 2. streams with control bytes and escape sequences: two reads with an admissible cut between them are one read,
   from every state of the loop (the bytes pending from earlier reads belong to the stream) *)
Theorem C08_screen_cut_stream : forall grid t rs pend a b, TInv t -> adm rs (pend ++ a) b ->
  ghstep true grid (ghstep true grid (t, rs, pend) (HFeed a)) (HFeed b) =
  ghstep true grid (t, rs, pend) (HFeed (a ++ b)).
Proof. exact grapheme_cut_stream. Qed.
Print Assumptions C08_screen_cut_stream.

(* a later cut that is admissible for the whole stream is admissible for what the first read leaves: the state the
   first read ends in lies on the parse of the whole stream *)
Theorem C08_screen_cut_transfer : forall grid rs a b, adm rs a b -> forall t b1 b2, TInv t -> b = b1 ++ b2 ->
  adm rs (a ++ b1) b2 ->
  forall t1 rs1 p1, grun_bytes true grid t rs a = (t1, rs1, p1) -> adm rs1 (p1 ++ b1) b2.
Proof. exact adm_transfer. Qed.
Print Assumptions C08_screen_cut_transfer.

(* by induction: a segmentation all of whose cuts are admissible for the stream gives what one read gives.
   cuts_adm rs [] chunks: for every split chunks = l1 ++ l2 with l2 <> [], adm rs (concat l1) (concat l2). *)
Theorem C08_screen_seg_indep : forall grid t rs chunks, TInv t -> cuts_adm rs [] chunks ->
  fold_left (ghstep true grid) (map HFeed chunks) (t, rs, []) = ghstep true grid (t, rs, []) (HFeed (concat chunks)).
Proof. exact grapheme_seg_indep. Qed.
Print Assumptions C08_screen_seg_indep.

Theorem C08_screen_seg_indep2 : forall grid t rs chunks1 chunks2, TInv t -> concat chunks1 = concat chunks2 ->
  cuts_adm rs [] chunks1 -> cuts_adm rs [] chunks2 ->
  fold_left (ghstep true grid) (map HFeed chunks1) (t, rs, []) = fold_left (ghstep true grid) (map HFeed chunks2) (t, rs, []).
Proof. exact grapheme_seg_indep2. Qed.
Print Assumptions C08_screen_seg_indep2.

(* histories from the initial terminal *)
Theorem C08_screen_hist_seg_indep : forall grid w h chunks, 1 <= w -> 1 <= h -> cuts_adm rs0 [] chunks ->
  grun_hist true grid (init_term w h) (map HFeed chunks) = grun_hist true grid (init_term w h) [HFeed (concat chunks)].
Proof. exact grapheme_hist_seg_indep. Qed.
Print Assumptions C08_screen_hist_seg_indep.

(* a boolean test that is sufficient for admissibility *)
Theorem C08_screen_adm_test : forall f rs a b, admb f rs a b = true -> adm rs a b.
Proof. exact admb_sound. Qed.
Print Assumptions C08_screen_adm_test.

Theorem C08_screen_cuts_test : forall rs chunks pre, cuts_admb rs pre chunks = true -> cuts_adm rs pre chunks.
Proof. exact cuts_admb_sound. Qed.
Print Assumptions C08_screen_cuts_test.

(* 3. non-vacuity: 'e' U+0301 | ESC [ 1 | m woman ZWJ woman | flag | 'x' U+0301 'y' *)
Example C08_screen_example_adm :
  cuts_admb rs0 []
    [[101;204;129]; [27;91;49]; [109;240;159;145;169;226;128;141;240;159;145;169]; [240;159;135;186;240;159;135;184];
     [120;204;129;121]] = true.
Proof. exact cut_example_adm. Qed.
Print Assumptions C08_screen_example_adm.

Example C08_screen_example :
  let chunks := [[101;204;129]; [27;91;49]; [109;240;159;145;169;226;128;141;240;159;145;169];
                 [240;159;135;186;240;159;135;184]; [120;204;129;121]] in
  let r := fold_left (ghstep true false) (map HFeed chunks) (init_term 10 2, rs0, []) in
  r = ghstep true false (init_term 10 2, rs0, []) (HFeed (concat chunks)) /\
  map (fun c => (ctext c, cwid c)) (zfirstn 7 (row_at (tmain (gterm r)) 0)) =
    [([101;204;129], 1); ([240;159;145;169;226;128;141;240;159;145;169], 2); ([], 0);
     ([240;159;135;186;240;159;135;184], 2); ([], 0); ([120;204;129], 1); ([121], 1)] /\
  cx (tmain (gterm r)) = 7 /\ snd r = [].
Proof. exact cut_example_computed. Qed.
Print Assumptions C08_screen_example.

(* a cut inside a cluster can give another terminal: U+263A | U+FE0F is one cell wide when cut and two cells wide
   when read whole (cells and cursor differ) *)
Example C08_screen_inside_cluster_differs :
  let a := [226;152;186] in let b := [239;184;143] in
  admb 10 rs0 a b = false /\
  row0 (two_feeds a b) = [([226;152;186;239;184;143], 1); ([32], 1); ([32], 1)] /\ cx (tmain (gterm (two_feeds a b))) = 1 /\
  row0 (one_feed a b) = [([226;152;186;239;184;143], 2); ([], 0); ([32], 1)] /\ cx (tmain (gterm (one_feed a b))) = 2 /\
  two_feeds a b <> one_feed a b.
Proof. exact cut_inside_cluster_differs. Qed.
Print Assumptions C08_screen_inside_cluster_differs.

(* Hangul L | V *)
Example C08_screen_inside_cluster_differs_jamo :
  let a := [225;132;128] in let b := [225;133;161] in
  admb 10 rs0 a b = false /\
  row0 (two_feeds a b) = [([225;132;128], 2); ([], 0); ([225;133;161], 1)] /\ cx (tmain (gterm (two_feeds a b))) = 3 /\
  row0 (one_feed a b) = [([225;132;128;225;133;161], 2); ([], 0); ([32], 1)] /\ cx (tmain (gterm (one_feed a b))) = 2.
Proof. exact cut_inside_cluster_differs_jamo. Qed.
Print Assumptions C08_screen_inside_cluster_differs_jamo.

(* letter | combining mark, regional indicator | regional indicator, emoji | ZWJ emoji: same cells and cursor,
   more frontend callbacks in the cut reading *)
Example C08_screen_inside_cluster_differs_log :
  let cases := [([101], [204;129]); ([240;159;135;186], [240;159;135;184]);
                ([240;159;145;169], [226;128;141;240;159;145;169])] in
  forallb (fun ab => negb (admb 10 rs0 (fst ab) (snd ab))) cases = true /\
  map (fun ab => row0 (two_feeds (fst ab) (snd ab))) cases = map (fun ab => row0 (one_feed (fst ab) (snd ab))) cases /\
  map (fun ab => zlen (tlog (gterm (two_feeds (fst ab) (snd ab))))) cases = [3; 3; 4] /\
  map (fun ab => zlen (tlog (gterm (one_feed (fst ab) (snd ab))))) cases = [2; 2; 2].
Proof. exact cut_inside_cluster_differs_log. Qed.
Print Assumptions C08_screen_inside_cluster_differs_log.

(* a cut inside a UTF-8 character right after a cluster boundary: U+0600 U+0085 cut inside U+0085 *)
Example C08_screen_inside_character_differs :
  let a := [216;128;194] in let b := [133] in
  admb 10 rs0 a b = false /\
  row0 (two_feeds a b) = [([216;128;194], 2); ([], 0); ([133], 1)] /\
  row0 (one_feed a b) = [([216;128;194;133], 1); ([32], 1); ([32], 1)].
Proof. exact cut_inside_character_differs. Qed.
Print Assumptions C08_screen_inside_character_differs.

(* on a terminal that violates the invariant the reader states differ after an admissible cut *)
Example C08_screen_needs_invariant :
  let bad := mkTerm (set_cur 0 5 (init_screen 2 1)) (init_screen 2 1) false
               [false; false; false; false; false; false] [0; 0; 0] [[]; []; []] kbd0 kbd0 [] [] in
  admb 10 rs0 [120] [121] = true /\ crashed bad = false /\
  snd (fst (ghstep true false (ghstep true false (bad, rs0, []) (HFeed [120])) (HFeed [121]))) = mkRs None false false /\
  snd (fst (ghstep true false (bad, rs0, []) (HFeed [120; 121]))) = mkRs (Some (0, 1)) false false.
Proof. exact cut_needs_invariant. Qed.
Print Assumptions C08_screen_needs_invariant.
