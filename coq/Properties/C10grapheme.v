(* C10 for grapheme mode: a merge token (text joining the character left of the cursor) only appends
   callbacks, announces the character it changed - all its cells - and does so on the state that
   already holds the merged text; whole tokens of the grapheme-mode reader are framed like those of
   rune mode.  Statements only. *)
From Coq Require Import List ZArith Bool.
From Termemu Require Import Base Style Screen Kbd Parser Term ScreenInv TermInv IsolationProofs NotifyProofs
  Uniseg Grapheme GTerm GTermProofs.
Import ListNotations.
Open Scope Z_scope.

Theorem C10_merge_framed : forall txt, Framed (merge_prev txt).
Proof. exact Framed_merge_prev. Qed.
Print Assumptions C10_merge_framed.

Theorem C10_merge_announces : forall txt s, Inv s -> 0 < cx s ->
  let b := glyph_start (row_at s (cy s)) (cx s - 1) in
  evs (merge_prev txt s) = ERegion b (cy s) (b + (1 + cont_run (row_at s (cy s)) (b + 1))) (cy s + 1) crText :: evs s.
Proof. exact merge_prev_announces. Qed.
Print Assumptions C10_merge_announces.

Theorem C10_grapheme_token : forall k t, TInv t -> (forall k0, k = GT k0 -> ~ is_switch k0) ->
  onalt (gexec k t) = onalt t /\ exists l, tlog (gexec k t) = l ++ tlog t /\
    forall x y, 0 <= x < sW (active t) -> 0 <= y < sH (active t) -> ~ announced l x y ->
      cell_at (active (gexec k t)) x y = cell_at (active t) x y.
Proof. exact gexec_framed. Qed.
Print Assumptions C10_grapheme_token.
