(* C10 — Frontend notifications are complete: repainting only what is announced suffices.
   Statements only.  [covers e x y]: the callback e is a RegionChanged whose rectangle contains
   (x,y); [announced l x y]: some callback in l covers (x,y). *)
From Coq Require Import List ZArith Bool.
From Termemu Require Import Base Style Screen Kbd Parser Term ScreenInv TermInv IsolationProofs NotifyProofs.
Import ListNotations.
Open Scope Z_scope.

(* Every screen primitive only appends callbacks, and every cell it changes lies inside a region
   it announces (row write incl. the blanked halves of cut wide glyphs, erase, delete, scroll,
   cursor motion with its implicit scroll, glyph write with wrap).  The callback is issued on the
   state that already contains the change, so reading the announced cells back sees the new value. *)
Theorem C10_primitives :
  (forall r x y new, Framed (fun s => write_row_cells r x y new s)) /\
  (forall x y x2 y2, Framed (erase_region x y x2 y2)) /\
  (forall x y n, Framed (delete_chars x y n)) /\
  (forall y1 y2 dy, Framed (scroll y1 y2 dy)) /\
  (forall dx dy w sc, Framed (move_cursor dx dy w sc)) /\
  (forall txt w, Framed (write_glyph txt w)).
Proof. exact framed_primitives. Qed.
Print Assumptions C10_primitives.

Theorem C10_framed_meaning : forall f, Framed f <->
  forall s, Inv s -> exists l, evs (f s) = l ++ evs s /\
    forall x y, 0 <= x < sW s -> 0 <= y < sH s -> ~ announced l x y -> cell_at (f s) x y = cell_at s x y.
Proof. intros f. split; intros H; exact H. Qed.
Print Assumptions C10_framed_meaning.

(* Whole tokens: for every token that does not switch buffers, the callbacks logged during the token
   extend the log, and every cell of the active buffer that none of them covers is unchanged. *)
Theorem C10_token : forall k t, TInv t -> ~ is_switch k ->
  onalt (exec_tok k t) = onalt t /\ exists l, tlog (exec_tok k t) = l ++ tlog t /\
    forall x y, 0 <= x < sW (active t) -> 0 <= y < sH (active t) -> ~ announced l x y ->
      cell_at (active (exec_tok k t)) x y = cell_at (active t) x y.
Proof. exact exec_tok_framed. Qed.
Print Assumptions C10_token.

(* A buffer switch announces the whole screen of the newly active buffer, then its cursor, then its style. *)
Theorem C10_switch : forall t,
  let t' := switch_screen t in
  tlog t' = EStyle (sty (active t')) :: ECursor (cx (active t')) (cy (active t')) ::
            ERegion 0 0 (sW (active t')) (sH (active t')) crScreenSwitch :: tlog t.
Proof. exact switch_announces. Qed.
Print Assumptions C10_switch.

(* CursorMoved / StyleChanged carry the value now in force *)
Theorem C10_last_cursor : forall dx dy wrap scr s,
  exists l, evs (move_cursor dx dy wrap scr s) =
            ECursor (cx (move_cursor dx dy wrap scr s)) (cy (move_cursor dx dy wrap scr s)) :: l.
Proof. exact last_cursor_move. Qed.
Print Assumptions C10_last_cursor.

Theorem C10_last_style : forall st s, evs (set_style st s) = EStyle (sty (set_style st s)) :: evs s.
Proof. exact last_style_set. Qed.
Print Assumptions C10_last_style.

(* Resize: both buffers report their renditions, then the cursor (which the resize may have
   brought inside the new size) and the rendition of the screen that is shown are announced last *)
Theorem C10_resize : forall w h t,
  let t' := resize w h t in
  exists l, tlog t' = EStyle (sty (active t')) :: ECursor (cx (active t')) (cy (active t')) :: l.
Proof. exact resize_announces. Qed.
Print Assumptions C10_resize.

(* "rows scrolled off the top of the main screen are announced through ScrollLines before they are
   lost" is FALSE of the faithful model (and of the code: ScrollLines has no call site): a witness. *)
Theorem C10_scrollback_refuted :
  let t := fst (run_bytes (fun _ => 1) false (init_term 3 2) [97; 10; 98; 10; 99]) in
  map ctext (row_at (tmain t) 0) = [[98]; [32]; [32]] /\ onalt t = false /\ has_scroll_lines (tlog t) = false.
Proof. exact scrollback_never_announced. Qed.
Print Assumptions C10_scrollback_refuted.
