(* C11, second sentence — the TTY mirror, region repaint (tty_frontend.go,
   renderRegionLocked).  Statements only, each closed by [exact]; this file
   removes the PARTIAL of C11tty.C11_tty_region_frame_partial.

   Setting.  The frontend model is Model/TtyFrontend.v after the repairs D28,
   DT2, DT3 ([rp = true]).  The OUTER terminal that interprets the bytes is the
   terminal model itself ([run_bytes wc ogrid]); it is ANY well-formed state
   ([TInv o]: both buffers satisfy the screen invariant, hence it has not
   crashed) at least as large as the right/bottom edge of the clamped region,
   with coordinates at most [maxCSIParam].  The INNER screen is any well-formed
   screen ([Inv]) all of whose rows are [renderable] (C11.C11_reachable_rows:
   every row of every reachable screen is).  [wc] is the width oracle of rune
   mode; nothing is assumed about it here beyond what [renderable] says.

   Hypotheses that restrict the statement (recorded finding KF-C11-cut-glyph;
   each is shown necessary by a computed counter-example below):
     - [cut_glyph x (x2-x) row = false] for the inner rows of the region: no
       vertical edge of the region cuts a double-width glyph of the inner row;
     - the outer cells at column x and at column x2 of the rows of the region
       are not second halves of a wide glyph.
   Not covered: the code as it is ([rp = false], DT2 repeat shortcut), grapheme
   mode, and the exact outer cells when one of the two hypotheses fails on the
   LEFT edge (for the right edge see C11_tty_row_over). *)
From Coq Require Import List ZArith Bool.
From Termemu Require Import Base Style Screen Parser Term Render ScreenInv TermInv RenderProofs
  TtyFrontend TtyProofs TtyRegionRow TtyRegionProofs.
Import ListNotations.
Open Scope Z_scope.

(* The bytes renderStyledLineANSI(StyledLine(x, w, y)) writes for a range whose
   edges cut no glyph of a renderable row are ANSILine of the cells of the range
   (either buffer kind). *)
Theorem C11_tty_styled_line_bytes : forall wc grid x w row,
  renderable wc row -> 0 <= x -> cut_glyph x w row = false ->
  render_styled_line true grid x w row = render_line_ansi (zfirstn w (zskipn x row)).
Proof. exact styled_line_bytes. Qed.
Print Assumptions C11_tty_styled_line_bytes.

(* (1) One row.  ANSILine of the renderable cells [todo], written at column x of
   row y of ANY well-formed terminal with autowrap off, the cell under the cursor
   not being the second half of a glyph, [todo] fitting in the row: the bytes are
   consumed as a unit; row y keeps its cells left of x, holds [todo] from x on,
   and behind that what it held before, except that the leading continuation
   cells there (the rest of a glyph whose head was overwritten) are now blanks
   [N]; no other row changes; the cursor stays in row y; size, saved cursor,
   autowrap, active buffer and view flags are unchanged; the terminal is
   well-formed. *)
Theorem C11_tty_row_over : forall wc ogrid todo t y x,
  TInv t -> awrap (active t) = false -> cy (active t) = y -> cx (active t) = x ->
  x + zlen todo <= sW (active t) ->
  is_cont (znth x (row_at (active t) y) dcell) = false -> renderable wc todo ->
  exists t' T',
    (forall more, run_bytes wc ogrid t (render_line_ansi todo ++ more) = run_bytes wc ogrid t' more) /\
    TInv t' /\ awrap (active t') = false /\ cy (active t') = y /\
    cx (active t') = Z.min (x + zlen todo) (sW (active t) - 1) /\
    row_at (active t') y = zfirstn x (row_at (active t) y) ++ todo ++ T' /\
    (let O := zskipn (x + zlen todo) (row_at (active t) y) in
     exists N, T' = N ++ skipn (cont_prefix O) O /\ length N = cont_prefix O /\
               Forall (fun c => ctext c = [32] /\ cwid c = 1) N) /\
    (onalt t' = onalt t /\ vflags t' = vflags t /\
     sW (active t') = sW (active t) /\ sH (active t') = sH (active t) /\
     svx (active t') = svx (active t) /\ svy (active t') = svy (active t) /\
     (forall y', y' <> y -> row_at (active t') y' = row_at (active t) y')).
Proof. exact row_over. Qed.
Print Assumptions C11_tty_row_over.

(* ... and when the cell just behind the range is not a second half either, the
   cells behind the range are untouched *)
Theorem C11_tty_row_over_exact : forall wc ogrid todo t y x,
  TInv t -> awrap (active t) = false -> cy (active t) = y -> cx (active t) = x ->
  x + zlen todo <= sW (active t) ->
  is_cont (znth x (row_at (active t) y) dcell) = false ->
  is_cont (znth (x + zlen todo) (row_at (active t) y) dcell) = false ->
  renderable wc todo ->
  exists t',
    (forall more, run_bytes wc ogrid t (render_line_ansi todo ++ more) = run_bytes wc ogrid t' more) /\
    TInv t' /\ awrap (active t') = false /\ cy (active t') = y /\
    row_at (active t') y = zfirstn x (row_at (active t) y) ++ todo ++ zskipn (x + zlen todo) (row_at (active t) y) /\
    (onalt t' = onalt t /\ vflags t' = vflags t /\
     sW (active t') = sW (active t) /\ sH (active t') = sH (active t) /\
     svx (active t') = svx (active t) /\ svy (active t') = svy (active t) /\
     (forall y', y' <> y -> row_at (active t') y' = row_at (active t) y')).
Proof. exact row_over_exact. Qed.
Print Assumptions C11_tty_row_over_exact.

(* (2) The row part of one repaint, interpreted after ESC[s ESC[?7l:
   (i) it is consumed completely (whatever follows is processed from o2);
   (ii)+(iii) rows y..y2-1 hold the inner cells in columns x..x2-1 and their old
   cells elsewhere ([paint_row]), every other row is unchanged;
   (iv) the saved cursor is still the cursor o had, so C11_tty_region_frame_partial
   applies; o2 is well-formed (not crashed), has the same size, the same active
   buffer and view flags, autowrap still off: nothing scrolled. *)
Theorem C11_tty_region_rows : forall wc ogrid grid o inner r x y x2 y2,
  TInv o -> Inv inner -> Forall (renderable wc) (rows inner) ->
  clamp_region r (sW inner) (sH inner) = (x, y, x2, y2) -> rect_empty (x, y, x2, y2) = false ->
  x2 <= sW (active o) -> y2 <= sH (active o) -> sW (active o) <= maxCSIParam -> sH (active o) <= maxCSIParam ->
  (forall yy, y <= yy < y2 -> cut_glyph x (x2 - x) (row_at inner yy) = false) ->
  (forall yy, y <= yy < y2 ->
     is_cont (cell_at (active o) x yy) = false /\ is_cont (cell_at (active o) x2 yy) = false) ->
  exists o2,
    (forall rest, run_bytes wc ogrid (after_prologue o)
                    (render_rows (screen_line true grid inner) (x, y, x2, y2) ++ rest)
                  = run_bytes wc ogrid o2 rest) /\
    TInv o2 /\ awrap (active o2) = false /\
    svx (active o2) = cx (active o) /\ svy (active o2) = cy (active o) /\
    onalt o2 = onalt o /\ vflags o2 = vflags o /\
    sW (active o2) = sW (active o) /\ sH (active o2) = sH (active o) /\
    (forall yy, y <= yy < y2 ->
       row_at (active o2) yy =
         zfirstn x (row_at (active o) yy) ++ zfirstn (x2 - x) (zskipn x (row_at inner yy))
           ++ zskipn x2 (row_at (active o) yy)) /\
    (forall yy, ~ (y <= yy < y2) -> row_at (active o2) yy = row_at (active o) yy).
Proof. exact region_rows_over. Qed.
Print Assumptions C11_tty_region_rows.

(* (3) One repaint, un-partial (C11_tty_region_frame_partial with its hypothesis
   discharged): after ESC[s ESC[?7l rows ESC[0m ESC[?7h ESC[u, before the final
   cursor update, every outer cell inside the clamped region is the inner cell at
   the same coordinates (text, width, style), every other outer cell is
   unchanged, the cursor is where the outer application left it, autowrap is on,
   the style is the default style, nothing crashed. *)
Theorem C11_tty_region_repaint : forall wc ogrid grid t o inner r x y x2 y2 tail,
  hasout t = true -> attached t = true ->
  TInv o -> Inv inner -> Forall (renderable wc) (rows inner) ->
  clamp_region r (sW inner) (sH inner) = (x, y, x2, y2) -> rect_empty (x, y, x2, y2) = false ->
  x2 <= sW (active o) -> y2 <= sH (active o) -> sW (active o) <= maxCSIParam -> sH (active o) <= maxCSIParam ->
  (forall yy, y <= yy < y2 -> cut_glyph x (x2 - x) (row_at inner yy) = false) ->
  (forall yy, y <= yy < y2 ->
     is_cont (cell_at (active o) x yy) = false /\ is_cont (cell_at (active o) x2 yy) = false) ->
  exists o3,
    run_bytes wc ogrid o (render_region_fx true grid t inner r ++ tail)
      = run_bytes wc ogrid o3 (render_cursor t ++ tail) /\
    (forall xx yy, cell_at (active o3) xx yy =
       if (x <=? xx) && (xx <? x2) && (y <=? yy) && (yy <? y2)
       then cell_at inner xx yy else cell_at (active o) xx yy) /\
    cx (active o3) = cx (active o) /\ cy (active o3) = cy (active o) /\
    awrap (active o3) = true /\ sty (active o3) = default_style /\ crashed o3 = false.
Proof. exact tty_region_repaint. Qed.
Print Assumptions C11_tty_region_repaint.

(* ... and with the final cursor update: all bytes of the repaint are consumed;
   cells as above; the outer cursor sits on the inner cursor and is shown when the
   terminal shows its cursor, the frontend is focused and the cursor lies in the
   attach region; otherwise it is hidden and stays where the outer application
   left it. *)
Theorem C11_tty_region_repaint_cursor : forall wc ogrid grid t o inner r x y x2 y2,
  hasterm t = true -> hasout t = true -> attached t = true ->
  TInv o -> zlen (vflags o) = 6 -> Inv inner -> Forall (renderable wc) (rows inner) ->
  clamp_region r (sW inner) (sH inner) = (x, y, x2, y2) -> rect_empty (x, y, x2, y2) = false ->
  x2 <= sW (active o) -> y2 <= sH (active o) -> sW (active o) <= maxCSIParam -> sH (active o) <= maxCSIParam ->
  (forall yy, y <= yy < y2 -> cut_glyph x (x2 - x) (row_at inner yy) = false) ->
  (forall yy, y <= yy < y2 ->
     is_cont (cell_at (active o) x yy) = false /\ is_cont (cell_at (active o) x2 yy) = false) ->
  (cur_in_region t = true -> 0 <= curx t < sW (active o) /\ 0 <= cury t < sH (active o)) ->
  let res := run_bytes wc ogrid o (render_region_fx true grid t inner r) in
  let o' := fst res in
  snd res = [] /\
  (forall xx yy, cell_at (active o') xx yy =
     if (x <=? xx) && (xx <? x2) && (y <=? yy) && (yy <? y2)
     then cell_at inner xx yy else cell_at (active o) xx yy) /\
  awrap (active o') = true /\ sty (active o') = default_style /\ onalt o' = onalt o /\
  if showcur t && focused t && cur_in_region t
  then cx (active o') = curx t /\ cy (active o') = cury t /\ show_flag o' = true
  else show_flag o' = false /\ cx (active o') = cx (active o) /\ cy (active o') = cy (active o).
Proof. exact tty_region_repaint_cursor. Qed.
Print Assumptions C11_tty_region_repaint_cursor.

(* the two callers: RegionChanged(r) repaints the intersection with the attach region ... *)
Theorem C11_tty_region_changed_repaint : forall wc ogrid grid t o inner r x y x2 y2,
  hasterm t = true -> hasout t = true -> attached t = true ->
  TInv o -> zlen (vflags o) = 6 -> Inv inner -> Forall (renderable wc) (rows inner) ->
  clamp_region (intersect r (tty_region t)) (sW inner) (sH inner) = (x, y, x2, y2) -> rect_empty (x, y, x2, y2) = false ->
  x2 <= sW (active o) -> y2 <= sH (active o) -> sW (active o) <= maxCSIParam -> sH (active o) <= maxCSIParam ->
  (forall yy, y <= yy < y2 -> cut_glyph x (x2 - x) (row_at inner yy) = false) ->
  (forall yy, y <= yy < y2 ->
     is_cont (cell_at (active o) x yy) = false /\ is_cont (cell_at (active o) x2 yy) = false) ->
  (cur_in_region t = true -> 0 <= curx t < sW (active o) /\ 0 <= cury t < sH (active o)) ->
  let res := run_bytes wc ogrid o (snd (tty_region_changed grid t inner r)) in
  let o' := fst res in
  snd res = [] /\
  (forall xx yy, cell_at (active o') xx yy =
     if (x <=? xx) && (xx <? x2) && (y <=? yy) && (yy <? y2)
     then cell_at inner xx yy else cell_at (active o) xx yy) /\
  awrap (active o') = true /\ sty (active o') = default_style /\ onalt o' = onalt o /\
  if showcur t && focused t && cur_in_region t
  then cx (active o') = curx t /\ cy (active o') = cury t /\ show_flag o' = true
  else show_flag o' = false /\ cx (active o') = cx (active o) /\ cy (active o') = cy (active o).
Proof. exact tty_region_changed_repaint. Qed.
Print Assumptions C11_tty_region_changed_repaint.

(* ... and Attach(r) repaints r, with the frontend state Attach leaves behind *)
Theorem C11_tty_attach_repaint : forall wc ogrid grid t o inner r x y x2 y2,
  hasterm t = true -> hasout t = true ->
  let t' := fst (tty_attach grid t inner r) in
  TInv o -> zlen (vflags o) = 6 -> Inv inner -> Forall (renderable wc) (rows inner) ->
  clamp_region r (sW inner) (sH inner) = (x, y, x2, y2) -> rect_empty (x, y, x2, y2) = false ->
  x2 <= sW (active o) -> y2 <= sH (active o) -> sW (active o) <= maxCSIParam -> sH (active o) <= maxCSIParam ->
  (forall yy, y <= yy < y2 -> cut_glyph x (x2 - x) (row_at inner yy) = false) ->
  (forall yy, y <= yy < y2 ->
     is_cont (cell_at (active o) x yy) = false /\ is_cont (cell_at (active o) x2 yy) = false) ->
  (cur_in_region t' = true -> 0 <= curx t' < sW (active o) /\ 0 <= cury t' < sH (active o)) ->
  let res := run_bytes wc ogrid o (snd (tty_attach grid t inner r)) in
  let o' := fst res in
  snd res = [] /\
  (forall xx yy, cell_at (active o') xx yy =
     if (x <=? xx) && (xx <? x2) && (y <=? yy) && (yy <? y2)
     then cell_at inner xx yy else cell_at (active o) xx yy) /\
  awrap (active o') = true /\ sty (active o') = default_style /\ onalt o' = onalt o /\
  if showcur t' && focused t' && cur_in_region t'
  then cx (active o') = curx t' /\ cy (active o') = cury t' /\ show_flag o' = true
  else show_flag o' = false /\ cx (active o') = cx (active o) /\ cy (active o') = cy (active o).
Proof. exact tty_attach_repaint. Qed.
Print Assumptions C11_tty_attach_repaint.

(* ---- non-vacuity ---- *)
(* Inner 6x3:  a [U+4E2D wide, bold red] b c _  /  x y [U+4E2D wide] z _ (blue background from column 2);
   region (1,0)-(5,2); outer 8x4: dots, wide glyphs at (2..3,0) and (3..4,1) inside the
   region and at (5..6,0) right of it, cursor (7,3), green, autowrap on.
   Every hypothesis of C11_tty_region_repaint_cursor holds for it: *)
Example C11_tty_region_example_hyps :
  hasterm exr_tty = true /\ hasout exr_tty = true /\ attached exr_tty = true /\
  TInv exr_outer /\ zlen (vflags exr_outer) = 6 /\ Inv exr_inner /\ Forall (renderable exr_wc) (rows exr_inner) /\
  clamp_region exr_r (sW exr_inner) (sH exr_inner) = (1, 0, 5, 2) /\ rect_empty (1, 0, 5, 2) = false /\
  5 <= sW (active exr_outer) /\ 2 <= sH (active exr_outer) /\
  sW (active exr_outer) <= maxCSIParam /\ sH (active exr_outer) <= maxCSIParam /\
  (forall yy, 0 <= yy < 2 -> cut_glyph 1 (5 - 1) (row_at exr_inner yy) = false) /\
  (forall yy, 0 <= yy < 2 ->
     is_cont (cell_at (active exr_outer) 1 yy) = false /\ is_cont (cell_at (active exr_outer) 5 yy) = false) /\
  (cur_in_region exr_tty = true -> 0 <= curx exr_tty < sW (active exr_outer) /\ 0 <= cury exr_tty < sH (active exr_outer)).
Proof. exact region_repaint_hyps. Qed.
Print Assumptions C11_tty_region_example_hyps.

Example C11_tty_region_example_shape :
  map cwid (row_at exr_inner 0) = [1; 2; 0; 1; 1; 1] /\ map cwid (row_at exr_inner 1) = [1; 1; 2; 0; 1; 1] /\
  cst (cell_at exr_inner 1 0) = mkStyle (CIdx 1) CDef 1 /\ cst (cell_at exr_inner 2 1) = mkStyle CDef (CIdx 4) 0 /\
  map cwid (row_at (active exr_outer) 0) = [1; 1; 2; 0; 1; 2; 0; 1] /\
  map cwid (row_at (active exr_outer) 1) = [1; 1; 1; 2; 0; 1; 1; 1] /\
  (cx (active exr_outer), cy (active exr_outer), awrap (active exr_outer)) = (7, 3, true) /\
  (cx exr_inner, cy exr_inner) = (5, 1).
Proof. exact region_repaint_instance_shape. Qed.

(* the conclusion computed directly (vm_compute), independently of the theorem *)
Example C11_tty_region_example_computed :
  let res := run_bytes exr_wc true exr_outer (render_region_fx true true exr_tty exr_inner exr_r) in
  let o' := fst res in
  snd res = [] /\
  cells_agree (active o') exr_inner 1 0 5 2 = true /\
  cells_agree (active o') (active exr_outer) 0 0 1 4 = true /\
  cells_agree (active o') (active exr_outer) 5 0 8 4 = true /\
  cells_agree (active o') (active exr_outer) 0 2 8 4 = true /\
  map cwid (row_at (active o') 0) = [1; 2; 0; 1; 1; 2; 0; 1] /\
  awrap (active o') = true /\ sty (active o') = default_style /\
  (cx (active o'), cy (active o')) = (7, 3) /\ show_flag o' = false.
Proof. exact region_repaint_computed. Qed.

(* ---- the two restricting hypotheses are necessary (KF-C11-cut-glyph) ---- *)
(* outer cell at x2 is a second half: its head inside the region is overwritten,
   the half outside becomes a blank *)
Example C11_tty_region_outer_cut_refuted :
  let r := (1, 0, 4, 2) in
  let t := fst (tty_attach true (tty_new true) exr_inner r) in
  let o' := fst (run_bytes exr_wc true exr_outer (render_region_fx true true t exr_inner r)) in
  cut_glyph 1 (4 - 1) (row_at exr_inner 0) = false /\ cut_glyph 1 (4 - 1) (row_at exr_inner 1) = false /\
  is_cont (cell_at (active exr_outer) 4 1) = true /\
  cell_at (active o') 4 1 <> cell_at (active exr_outer) 4 1 /\
  ctext (cell_at (active o') 4 1) = [32] /\ cwid (cell_at (active o') 4 1) = 1.
Proof. exact region_repaint_outer_cut. Qed.

(* outer cell at x is a second half: its head left of the region becomes a blank *)
Example C11_tty_region_outer_cut_left_refuted :
  let r := (4, 0, 6, 2) in
  let t := fst (tty_attach true (tty_new true) exr_inner r) in
  let o' := fst (run_bytes exr_wc true exr_outer (render_region_fx true true t exr_inner r)) in
  cut_glyph 4 (6 - 4) (row_at exr_inner 0) = false /\ cut_glyph 4 (6 - 4) (row_at exr_inner 1) = false /\
  is_cont (cell_at (active exr_outer) 4 1) = true /\
  cwid (cell_at (active exr_outer) 3 1) = 2 /\
  ctext (cell_at (active o') 3 1) = [32] /\ cwid (cell_at (active o') 3 1) = 1.
Proof. exact region_repaint_outer_cut_left. Qed.

(* the left edge of the region cuts a wide glyph of the inner row: the text behind
   it is drawn one column too far left; the outer region is not the inner region *)
Example C11_tty_region_inner_cut_refuted :
  let r := (2, 0, 5, 1) in
  let t := fst (tty_attach true (tty_new true) exr_inner r) in
  let o' := fst (run_bytes exr_wc true exr_outer (render_region_fx true true t exr_inner r)) in
  cut_glyph 2 (5 - 2) (row_at exr_inner 0) = true /\
  is_cont (cell_at (active exr_outer) 2 0) = false /\ is_cont (cell_at (active exr_outer) 5 0) = false /\
  map ctext (zfirstn 3 (zskipn 2 (row_at exr_inner 0))) = [[]; [98]; [99]] /\
  map ctext (zfirstn 3 (zskipn 2 (row_at (active o') 0))) = [[98]; [99]; [46]] /\
  cells_agree (active o') exr_inner 2 0 5 1 = false.
Proof. exact region_repaint_inner_cut. Qed.
