(* C11 (style and row round trip) — Feeding ANSILine(y) into a terminal
   reproduces the same characters and the same attributes in every cell.
   Statements only.  (The TTY-mirror theorems of C11 live elsewhere.) *)
From Coq Require Import List ZArith Bool.
From Termemu Require Import Base Style Screen Kbd Parser Term Render ScreenInv TermInv SgrSpec
  StyleProofs SgrProofs EscapeProofs RenderProofs ScreenRtProofs HistProofs RenderInv.
Import ListNotations.
Open Scope Z_scope.

(* ---- the style escape ---- *)

(* Style.ANSIEscape of a well-formed style is a sequence of complete
   "ESC [ params m" control sequences, with these parameter lists:
   [0]; then, if any mode is set, [0] again and one [code] per set mode in bit
   order; then the foreground and the background colour, nothing for default,
   [30+n] / [38;5;n] indexed, [90+n] bright, [38;2;r;g;b] RGB (40/48/100 for
   the background). *)
Theorem C11_style_bytes : forall s, wf_style s -> ansi_escape s = flat_map sgr_bytes (escape_params s).
Proof. exact ansi_escape_params. Qed.
Print Assumptions C11_style_bytes.

(* each of them is what the parser model reads back: one CSI token, no prefix,
   exactly these parameters, final byte m, and the following bytes untouched *)
Theorem C11_style_parse : forall wc grid ps rest, params_ok ps ->
  parse_one wc grid (sgr_bytes ps ++ rest) = PTok (TCsi 0 ps 109) rest.
Proof. exact parse_sgr_bytes. Qed.
Print Assumptions C11_style_parse.
Theorem C11_style_params_ok : forall s, wf_style s -> Forall params_ok (escape_params s).
Proof. exact escape_params_ok. Qed.
Print Assumptions C11_style_params_ok.

(* strconv.Itoa read back by the parameter scanner *)
Theorem C11_itoa_scan : forall m tail acc sawsep, 0 <= m <= maxCSIParam ->
  scan_params (itoa m ++ tail) acc 0 false sawsep = scan_params tail acc m true false.
Proof. exact scan_itoa. Qed.
Print Assumptions C11_itoa_scan.

(* interpreting those parameter lists one after the other, from ANY style, gives s *)
Theorem C11_style_interp : forall s st0, wf_style s -> apply_all (escape_params s) st0 = s.
Proof. exact escape_params_rt. Qed.
Print Assumptions C11_style_interp.

(* modeToSGRCode is inverted by the interpreter: 6 <-> rapid blink, 21 <-> double
   underline, 53 <-> overline, ... *)
Theorem C11_mode_code : forall i s, In i mode_indices -> sgr_apply [mode_code i] s = set_mode i s.
Proof. exact mode_code_inverts. Qed.
Print Assumptions C11_mode_code.

(* per-mode independence: from any style, the mode sequences of m OR exactly the
   bits of m (those among the thirteen) into the mode set and touch no colour *)
Theorem C11_style_modes : forall m st,
  apply_all (mode_params m) st = mkStyle (sfg st) (sbg st) (Z.lor (smodes st) (Z.land m 8191)).
Proof. exact mode_params_indep. Qed.
Print Assumptions C11_style_modes.

(* Through the whole model (parser, dispatcher, interpreter): the bytes of
   ANSIEscape(s), followed by anything, take a well-formed terminal in any state
   to one whose active style is ... *)
Theorem C11_style_run : forall wc grid s t rest, TInv t -> wf_style s ->
  run_bytes wc grid t (ansi_escape s ++ rest) = run_bytes wc grid (sgr_run (escape_params s) t) rest.
Proof. exact run_ansi_escape. Qed.
Print Assumptions C11_style_run.

(* ... exactly s, whatever it was before; all bytes consumed; StyleChanged(s) is
   the newest callback; no cell, cursor, margin, flag, reply or other buffer changed *)
Theorem C11_style_rt : forall wc grid s t, TInv t -> wf_style s ->
  let r := run_bytes wc grid t (ansi_escape s) in
  snd r = [] /\ sty (active (fst r)) = s /\ same_but_style t (fst r) /\
  exists older, tlog (fst r) = EStyle s :: older.
Proof. exact style_rt. Qed.
Print Assumptions C11_style_rt.

Example C11_style_example :
  let s := mkStyle (CRgb 66051) (CBright 3) 4609 in
  ansi_escape s = [27;91;48;109; 27;91;48;109; 27;91;49;109; 27;91;50;49;109; 27;91;54;109;
                   27;91;51;56;59;50;59;49;59;50;59;51;109; 27;91;49;48;51;109] /\
  escape_params s = [[0]; [0]; [1]; [21]; [6]; [38; 2; 1; 2; 3]; [103]].
Proof. exact escape_example. Qed.

(* ---- ANSILine ---- *)

(* render_line_ansi emits, for each maximal run of equally styled cells, the
   escape of the style and then the cells' text *)
Theorem C11_row_runs : forall row, render_line_ansi row = render_runs (runs row).
Proof. exact render_is_runs. Qed.
Print Assumptions C11_row_runs.

(* ANSILine(y) without its escape sequences is Line(y) (no cell text contains ESC) *)
Theorem C11_row_strip : forall row, Forall strippable row -> strip_sgr (render_line_ansi row) = line_text row.
Proof. exact strip_render_line. Qed.
Print Assumptions C11_row_strip.

(* gridScreen.Line(y) prints a space for each continuation cell: it agrees with
   the stripped ANSILine(y) on rows without wide glyphs only *)
Theorem C11_row_strip_grid_partial : forall row, Forall strippable row -> Forall noncont row ->
  strip_sgr (render_line_ansi row) = line_text_grid row.
Proof. exact strip_render_grid_partial. Qed.
Print Assumptions C11_row_strip_grid_partial.
(* full statement, false:  forall row, Forall strippable row -> strip_sgr (render_line_ansi row) = line_text_grid row *)
Theorem C11_row_strip_grid_refuted :
  exists row, Forall strippable row /\ strip_sgr (render_line_ansi row) <> line_text_grid row.
Proof. exact strip_render_grid_refuted. Qed.
Print Assumptions C11_row_strip_grid_refuted.

(* a cell text that is one valid printable UTF-8 rune is read back as one glyph token *)
Theorem C11_row_glyph_parse : forall wc grid txt r more, glyph_text txt r ->
  parse_one wc grid (txt ++ more) = PTok (TGlyph txt r (wc r)) more.
Proof. exact parse_glyph. Qed.
Print Assumptions C11_row_glyph_parse.

(* Feeding ANSILine of a renderable row (glyph after glyph: head + continuation
   cells of one well-formed style, text one valid UTF-8 rune, width confirmed by
   the oracle; narrow and wide glyphs alike) of the terminal's width into a
   terminal whose cursor is at column 0 of a row y holding no wide glyph (a
   blank row of a fresh terminal in particular), autowrap off (as in a fresh
   terminal): all bytes are consumed, row y is exactly that row - same text,
   same width, same style in every cell - no other row changes, the invariant
   holds, the cursor rests on the last column of row y. *)
Theorem C11_row_rt : forall wc grid row t y,
  TInv t -> awrap (active t) = false -> cy (active t) = y -> cx (active t) = 0 ->
  Forall noncont (row_at (active t) y) -> zlen row = sW (active t) -> renderable wc row ->
  let res := run_bytes wc grid t (render_line_ansi row) in
  snd res = [] /\ row_at (active (fst res)) y = row /\ TInv (fst res) /\
  onalt (fst res) = onalt t /\
  (forall y', y' <> y -> row_at (active (fst res)) y' = row_at (active t) y') /\
  cy (active (fst res)) = y /\ cx (active (fst res)) = sW (active t) - 1 /\
  awrap (active (fst res)) = false /\ sW (active (fst res)) = sW (active t) /\ sH (active (fst res)) = sH (active t).
Proof. exact row_rt. Qed.
Print Assumptions C11_row_rt.

(* the same for any part of a row, from any column: [done] stays, [todo] is written behind it *)
Theorem C11_row_cells : forall wc grid todo, renderable wc todo -> forall t y done tail prev,
  row_state t y done tail -> prev_ok prev t -> zlen todo <= zlen tail ->
  let res := run_bytes wc grid t (render_from prev todo) in
  snd res = [] /\ row_state (fst res) y (done ++ todo) (zskipn (zlen todo) tail) /\
  onalt (fst res) = onalt t /\ (sW (active (fst res)) = sW (active t) /\ sH (active (fst res)) = sH (active t)) /\
  (forall y', y' <> y -> row_at (active (fst res)) y' = row_at (active t) y').
Proof. exact feed_cells. Qed.
Print Assumptions C11_row_cells.

(* The span buffer prints one escape per stored span, also between spans of equal
   style (it does not merge them): same text when stripped, same cells when fed back. *)
Theorem C11_row_strip_spans : forall sps,
  Forall (fun sp => wf_style (fst sp) /\ Forall (fun c => ~ In 27 (ctext c)) (snd sp)) sps ->
  strip_sgr (render_runs sps) = line_text (spans_row sps).
Proof. exact strip_render_spans. Qed.
Print Assumptions C11_row_strip_spans.
Theorem C11_row_rt_spans : forall wc grid sps t y,
  TInv t -> awrap (active t) = false -> cy (active t) = y -> cx (active t) = 0 ->
  Forall noncont (row_at (active t) y) -> zlen (spans_row sps) = sW (active t) -> Forall (span_ok wc) sps ->
  let res := run_bytes wc grid t (render_runs sps) in
  snd res = [] /\ row_at (active (fst res)) y = spans_row sps /\ TInv (fst res) /\
  (forall y', y' <> y -> row_at (active (fst res)) y' = row_at (active t) y').
Proof. exact row_rt_spans. Qed.
Print Assumptions C11_row_rt_spans.
Example C11_spans_example :
  let d := default_style in
  let sps := [(d, [mkCell [97] 1 d]); (d, [mkCell [98] 1 d]); (d, [mkCell [228; 184; 173] 2 d; contc d]); (d, [blank d; blank d])] in
  render_runs sps = [27;91;48;109; 97; 27;91;48;109; 98; 27;91;48;109; 228;184;173; 27;91;48;109; 32; 32] /\
  render_line_ansi (spans_row sps) = [27;91;48;109; 97; 98; 228;184;173; 32; 32] /\
  row_at (tmain (fst (run_bytes ex_wc false (init_term 6 1) (render_runs sps)))) 0 = spans_row sps.
Proof. exact spans_example. Qed.

(* "a" red, the wide glyph U+4E2D bold RGB-on-bright, "b" default, into a fresh 4x2 terminal *)
Example C11_row_example :
  renderable ex_wc ex_row /\
  line_text ex_row = [97; 228; 184; 173; 98] /\
  strip_sgr (render_line_ansi ex_row) = line_text ex_row /\
  row_at (tmain (fst (run_bytes ex_wc true (init_term 4 2) (render_line_ansi ex_row)))) 0 = ex_row.
Proof. exact row_example. Qed.

(* ---- every row ---- *)

(* the bytes of one row are consumed as a unit: what follows them is processed
   from the state the row alone leaves behind *)
Theorem C11_row_rt_more : forall wc grid row t y more,
  TInv t -> awrap (active t) = false -> cy (active t) = y -> cx (active t) = 0 ->
  Forall noncont (row_at (active t) y) -> zlen row = sW (active t) -> renderable wc row ->
  run_bytes wc grid t (render_line_ansi row ++ more) =
  run_bytes wc grid (fst (run_bytes wc grid t (render_line_ansi row))) more.
Proof. exact row_rt_more. Qed.
Print Assumptions C11_row_rt_more.

(* Feeding, for y = 0 .. H-1, "ESC [ y+1 ; 1 H" followed by ANSILine(y) into a
   terminal of the same size whose rows hold no wide glyph, autowrap off, makes
   the active buffer's rows exactly the rendered rows: same text, width and
   style in every cell of the screen.  (H <= 65535: the parser clamps CSI
   parameters there.) *)
Theorem C11_screen_rt : forall wc grid rs t,
  TInv t -> awrap (active t) = false ->
  (forall y, 0 <= y < sH (active t) -> Forall noncont (row_at (active t) y)) ->
  zlen rs = sH (active t) -> sH (active t) <= maxCSIParam ->
  Forall (fun row => zlen row = sW (active t) /\ renderable wc row) rs ->
  let res := run_bytes wc grid t (render_screen_ansi rs) in
  snd res = [] /\ rows (active (fst res)) = rs /\ TInv (fst res) /\ onalt (fst res) = onalt t.
Proof. exact screen_rt. Qed.
Print Assumptions C11_screen_rt.

(* in particular into a fresh terminal of the same size *)
Theorem C11_screen_rt_fresh : forall wc grid rs W H,
  1 <= W -> 1 <= H <= maxCSIParam -> zlen rs = H ->
  Forall (fun row => zlen row = W /\ renderable wc row) rs ->
  let res := run_bytes wc grid (init_term W H) (render_screen_ansi rs) in
  snd res = [] /\ rows (tmain (fst res)) = rs /\ onalt (fst res) = false /\ TInv (fst res).
Proof. exact screen_rt_fresh. Qed.
Print Assumptions C11_screen_rt_fresh.

Example C11_screen_example :
  let rs := [ex_row; [mkCell [228; 184; 173] 2 ex_fancy; contc ex_fancy; blank ex_red; blank ex_red]] in
  rows (tmain (fst (run_bytes ex_wc true (init_term 4 2) (render_screen_ansi rs)))) = rs.
Proof. exact screen_example. Qed.

(* ---- every reachable screen ---- *)

(* The hypothesis [renderable] of the theorems above holds for every row of both buffers after
   every history of reads (arbitrary bytes, arbitrary chunking) and resizes, for the grid
   buffer's text rule (an invalid byte is stored as U+FFFD), provided a blank is one cell wide
   for the width oracle and no screen of the history is narrower than the widest glyph
   (otherwise the glyph is clipped: known finding D12). *)
Theorem C11_reachable_rows : forall wc, wc 32 <= 1 -> forall wmax, (forall r, glyph_width (wc r) <= wmax) ->
  forall w h ops, wmax <= w -> 1 <= w -> 1 <= h -> Forall (hop_wide wmax) ops ->
  let t := fst (run_hist wc true (init_term w h) ops) in
  Forall (renderable wc) (rows (tmain t)) /\ Forall (renderable wc) (rows (talt t)).
Proof. exact reachable_rows_renderable. Qed.
Print Assumptions C11_reachable_rows.

(* hence ANSILine of every row of either buffer, fed to a fresh terminal of the same size,
   reproduces every cell (text, width, style) of that buffer *)
Theorem C11_reachable_roundtrip : forall wc, wc 32 <= 1 -> forall wmax, (forall r, glyph_width (wc r) <= wmax) ->
  forall w h ops, wmax <= w -> 1 <= w -> 1 <= h -> Forall (hop_wide wmax) ops ->
  let t := fst (run_hist wc true (init_term w h) ops) in
  forall s, s = tmain t \/ s = talt t -> sH s <= maxCSIParam ->
  let res := run_bytes wc true (init_term (sW s) (sH s)) (render_screen_ansi (rows s)) in
  snd res = [] /\ rows (tmain (fst res)) = rows s.
Proof. exact reachable_screen_roundtrip. Qed.
Print Assumptions C11_reachable_roundtrip.

Example C11_reachable_example :
  Forall (hop_wide 2) ex_hist /\
  let t := fst (run_hist ex_wc true (init_term 4 2) ex_hist) in
  rows (tmain (fst (run_bytes ex_wc true (init_term (sW (tmain t)) (sH (tmain t))) (render_screen_ansi (rows (tmain t))))))
  = rows (tmain t) /\ sW (tmain t) = 6 /\ map ctext (znth 0 (rows (tmain t)) []) <> map ctext (blank_row 6 default_style).
Proof. exact reachable_example. Qed.
