(* C19 — Kitty keyboard-flag set/push/pop/query follow the protocol's stack rules.
   This file contains statements only, each closed by [exact]. *)
From Coq Require Import List ZArith Bool.
From Termemu Require Import Base Kbd KbdSpec KbdProofs Term TermProofs.
Import ListNotations.
Open Scope Z_scope.

(* After every history of set/or/clear, push and pop operations the model of
   keyboard_mode.go (an oldest-first slice that drops its first entry when 32
   are stored) holds the same flags as the abstract stack and its slice is the
   abstract history reversed. *)
Theorem C19_refines : forall ops : list kop,
  R (fold_left kbd_step ops kbd0) (fold_left spec_step ops aks0).
Proof. exact kbd_refines. Qed.
Print Assumptions C19_refines.

Theorem C19_len : forall ops : list kop,
  (length (kstack (fold_left kbd_step ops kbd0)) <= 32)%nat.
Proof. exact kbd_stack_bounded. Qed.
Print Assumptions C19_len.

(* pop n with at least n saved entries restores the n-th newest and leaves depth - n *)
Theorem C19_pop_within : forall a n, 1 <= n -> (Z.to_nat n <= length (ahist a))%nat ->
  aflags (spec_pop n a) = nth (Z.to_nat n - 1) (ahist a) 0 /\
  length (ahist (spec_pop n a)) = (length (ahist a) - Z.to_nat n)%nat.
Proof. exact spec_pop_within. Qed.
Print Assumptions C19_pop_within.

(* popping more than is stored empties the stack and resets the flags to 0 *)
Theorem C19_pop_beyond : forall a n,
  (length (ahist a) < Z.to_nat n)%nat -> spec_pop n a = mkAks 0 [].
Proof. exact spec_pop_beyond. Qed.
Print Assumptions C19_pop_beyond.

(* pushing onto a full stack forgets the oldest entry *)
Theorem C19_push_evicts : forall a f, (length (ahist a) = 32)%nat ->
  ahist (spec_push f a) = aflags a :: removelast (ahist a).
Proof. exact spec_push_evicts. Qed.
Print Assumptions C19_push_evicts.

(* the four control sequences act on the register of the active screen only *)
Theorem C19_dispatch : forall ps t,
  exec_csi 61 ps 117 t = on_kbd (kbd_update (p0 ps 0) (p1 ps 1)) t /\
  exec_csi 62 ps 117 t = on_kbd (kbd_push (p0 ps 0)) t /\
  exec_csi 60 ps 117 t = on_kbd (kbd_pop (p0 ps 1)) t /\
  exec_csi 63 ps 117 t = reply (kbd_query_reply (kflags (active_kbd t))) t.
Proof. exact kbd_dispatch. Qed.
Print Assumptions C19_dispatch.

Theorem C19_sep : forall f t,
  (onalt t = false -> kbm (on_kbd f t) = f (kbm t) /\ kba (on_kbd f t) = kba t) /\
  (onalt t = true -> kba (on_kbd f t) = f (kba t) /\ kbm (on_kbd f t) = kbm t).
Proof. exact kbd_separate. Qed.
Print Assumptions C19_sep.

(* the query writes exactly "ESC [ ? <flags> u" and changes nothing else *)
Theorem C19_query : forall ps t,
  tout (exec_csi 63 ps 117 t) = tout t ++ [27; 91; 63] ++ itoa (kflags (active_kbd t)) ++ [117] /\
  kbm (exec_csi 63 ps 117 t) = kbm t /\ kba (exec_csi 63 ps 117 t) = kba t /\
  tmain (exec_csi 63 ps 117 t) = tmain t /\ talt (exec_csi 63 ps 117 t) = talt t.
Proof. exact kbd_query. Qed.
Print Assumptions C19_query.
