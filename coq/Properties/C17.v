(* C17 — Main and alternate screens are isolated and mode switches are idempotent.
   Statements only. *)
From Coq Require Import List ZArith Bool.
From Termemu Require Import Base Style Screen Kbd Parser Term CursorProofs IsolationProofs.
Import ListNotations.
Open Scope Z_scope.

(* A token that is not "CSI ? ... 1049 ... h/l" leaves the inactive buffer exactly
   as it was: content, cursor, saved cursor, margins, autowrap, style (the whole
   screen record), and the inactive screen's keyboard flags and stack. *)
Theorem C17_frame : forall k t, ~ is_switch k ->
  onalt (exec_tok k t) = onalt t /\ inactive (exec_tok k t) = inactive t /\
  inactive_kbd (exec_tok k t) = inactive_kbd t.
Proof. exact keeps_exec_tok. Qed.
Print Assumptions C17_frame.

(* ... hence for any stream of such tokens: what a buffer shows when it is
   re-entered is what it showed when it was left *)
Theorem C17_frame_stream : forall ks t, Forall (fun k => ~ is_switch k) ks ->
  keeps_inactive t (fold_left (fun t k => exec_tok k t) ks t).
Proof. exact keeps_exec_toks. Qed.
Print Assumptions C17_frame_stream.

(* the switch itself only flips which buffer is active *)
Theorem C17_switch : forall t,
  tmain (switch_screen t) = tmain t /\ talt (switch_screen t) = talt t /\ onalt (switch_screen t) = negb (onalt t) /\
  kbm (switch_screen t) = kbm t /\ kba (switch_screen t) = kba t /\ vflags (switch_screen t) = vflags t /\
  vints (switch_screen t) = vints t /\ tout (switch_screen t) = tout t.
Proof. exact switch_screen_spec. Qed.
Print Assumptions C17_switch.

(* ?1049 is level-triggered: after h the alternate buffer is active, after l the
   main one, whatever was active before; repeating it changes nothing at all
   (not even a callback) *)
Theorem C17_1049_level : forall v t, onalt (dec_mode v 1049 t) = v.
Proof. exact alt_1049_level. Qed.
Print Assumptions C17_1049_level.

Theorem C17_1049_idem : forall v t, dec_mode v 1049 (dec_mode v 1049 t) = dec_mode v 1049 t.
Proof. exact alt_1049_idem. Qed.
Print Assumptions C17_1049_idem.

(* every DEC private mode: setting (resetting) twice = setting (resetting) once,
   on the whole state except the callback log (the report is repeated) *)
Theorem C17_idem : forall v p t, same_state (dec_mode v p (dec_mode v p t)) (dec_mode v p t).
Proof. exact dec_mode_idem. Qed.
Print Assumptions C17_idem.

(* modes 1, 12, 25, 1004, 2004: exactly one ViewFlagChanged with the value now in force *)
Theorem C17_report : forall v p i t, mode_flag p = Some i ->
  tlog (dec_mode v p t) = EFlag i v :: tlog t /\
  znth i (vflags (dec_mode v p t)) false = (if (0 <=? i) && (i <? zlen (vflags t)) then v else znth i (vflags t) false).
Proof. exact dec_mode_reports_flag. Qed.
Print Assumptions C17_report.

(* a compound sequence "CSI ? a ; b ; ... h" (or l) is executed parameter by parameter: it equals the
   sequence of the single-parameter forms, each acting on the state and on the active buffer the
   previous one left (so "?1049;7h" sets autowrap on the alternate buffer it has just entered) *)
Theorem C17_compound_sequential : forall (v : bool) ps1 ps2 t,
  let f := if v then 104 else 108 in
  exec_csi 63 (ps1 ++ ps2) f t = exec_csi 63 ps2 f (exec_csi 63 ps1 f t).
Proof. exact csi_modes_sequential. Qed.
Print Assumptions C17_compound_sequential.

Theorem C17_single : forall (v : bool) p t, exec_csi 63 [p] (if v then 104 else 108) t = dec_mode v p t.
Proof. exact csi_mode_single. Qed.
Print Assumptions C17_single.
