(* C20 (span part) — the span-backed terminal simulates the cell model.

   [sscreen]/[sterm] (Model/SpanScreen.v) transcribe the whole spanScreen of screen.go: rows of
   spans, scroll moving span rows, setSize through resizeLine, eraseRegion through blank spans,
   writeString writing RUNS of glyphs piece by piece with clustersFitting/writeRun, and the reader
   forming the runs under ptyReadOne's maxWidth (possibly stale after a Resize).  [abs_sscreen]
   expands span rows to cells; the cell model (Model/Screen.v, Model/Term.v) writes one glyph at a
   time and is what the grid buffer stores.  Statements only.

   Hypotheses: [wc_multibyte wc] (known finding D40), rune mode, and no known-finding mark fires
   along the CELL run: [tz t] is  trig (tmain t) = 0 /\ trig (talt t) = 0  (bit 1 = an operation
   starts on a continuation cell, the sanctioned difference; bit 2 = glyph wider than the screen,
   D12; bit 8 = raw invalid UTF-8 stored, D13).

   The statement asked for at full strength was

     abs_sterm wc (fst (fst (s_run_hist wc (s_init_term w h) ops))) = fst (run_hist wc false (init_term w h) ops)
     /\ pending bytes equal,

   i.e. including the callback log.  That is FALSE, and not because of a defect: the span buffer
   announces a run once (one RegionChanged, one CursorMoved per writeRun), the glyph-at-a-time
   model announces every glyph ([C20span_logs_differ]).  What holds, and is proved, is equality of
   everything else and [log_eq] of the logs: equal up to coalescing "region [x1,x2) ; cursor to x1' ;
   region [x1',x2')" of one row (x1 <= x1' <= x2) into "region [x1, max x2 x2')" — which leaves the
   digest the correspondence check compares (bells, last cursor, last rendition, view events)
   unchanged ([C20span_digest]). *)
From Coq Require Import List ZArith Bool.
From Termemu Require Import Base Style Screen Kbd Parser Term Case ScreenInv TermInv HistProofs
  Span SpanText SpanRefine SpanScreen SpanTail TrigMono SpanScreenProofs RunWrite SpanRunProofs SpanTermProofs
  SpanHistProofs SpanExamples SCase SCaseProofs.
Import ListNotations.
Open Scope Z_scope.

(* ---- the invariant and the primitives ---- *)
(* SInv wc s: the cell projection satisfies the screen invariant of C02 and every row is a
   well-formed, safe span row of the screen's width *)
Theorem C20span_inv_meaning : forall wc s, SInv wc s <->
  Inv (abs_sscreen wc s) /\ Forall (fun l => wf_line wc (zW s) l /\ safe_line wc l) (zlines s).
Proof. intros; reflexivity. Qed.
Print Assumptions C20span_inv_meaning.

(* wideTailAt is cont_run of the cells *)
Theorem C20span_wide_tail : forall wc W l x, wf_line wc W l -> safe_line wc l -> 0 <= x <= W ->
  wide_tail_at wc l x = cont_run (abs_line wc l) x.
Proof. exact wide_tail_at_cont_run. Qed.
Print Assumptions C20span_wide_tail.

(* rawWriteSpan = write_row_cells, the announced region included *)
Theorem C20span_raw_write : forall wc, wc_multibyte wc -> forall reason x y sp s,
  SInv wc s -> 0 <= y < zH s -> 0 <= x -> x + sp_width sp <= zW s -> 0 < sp_width sp ->
  ins_good wc sp -> sp_sty sp = zsty s ->
  trig (write_row_cells reason x y (abs_span wc sp) (abs_sscreen wc s)) = 0 ->
  SInv wc (s_raw_write_span wc x y sp reason s) /\
  abs_sscreen wc (s_raw_write_span wc x y sp reason s) = write_row_cells reason x y (abs_span wc sp) (abs_sscreen wc s).
Proof. exact Sim_raw_write_span. Qed.
Print Assumptions C20span_raw_write.

(* Sim wc sf f: SInv s -> trig (f (abs s)) = 0 -> SInv (sf s) /\ abs (sf s) = f (abs s);  SimU: the same without the mark condition *)
Theorem C20span_erase_region : forall wc, wc_multibyte wc -> forall x y x2 y2, Sim wc (s_erase_region wc x y x2 y2) (erase_region x y x2 y2).
Proof. exact Sim_erase_region. Qed.
Print Assumptions C20span_erase_region.
Theorem C20span_delete_chars : forall wc, wc_multibyte wc -> forall x y n, Sim wc (s_delete_chars wc x y n) (delete_chars x y n).
Proof. exact Sim_delete_chars. Qed.
Print Assumptions C20span_delete_chars.
Theorem C20span_scroll : forall wc y1 y2 dy, SimU wc (s_scroll y1 y2 dy) (scroll y1 y2 dy).
Proof. exact SimU_scroll. Qed.
Print Assumptions C20span_scroll.
Theorem C20span_move_cursor : forall wc dx dy wrap scr, SimU wc (s_move_cursor dx dy wrap scr) (move_cursor dx dy wrap scr).
Proof. exact SimU_move_cursor. Qed.
Print Assumptions C20span_move_cursor.
Theorem C20span_set_cursor_pos : forall wc x y, SimU wc (s_set_cursor_pos x y) (set_cursor_pos x y).
Proof. exact SimU_set_cursor_pos. Qed.
Print Assumptions C20span_set_cursor_pos.
Theorem C20span_save_restore : forall wc, SimU wc s_save_cursor save_cursor /\ SimU wc s_restore_cursor restore_cursor.
Proof. intros wc. split; [exact (SimU_save_cursor wc)|exact (SimU_restore_cursor wc)]. Qed.
Print Assumptions C20span_save_restore.
Theorem C20span_margins_style_wrap : forall wc,
  (forall t b, SimU wc (s_set_scroll_margins t b) (set_scroll_margins t b)) /\
  (forall st, SimU wc (s_set_style st) (set_style st)) /\ (forall v, SimU wc (z_set_awrap v) (set_awrap v)).
Proof. intros wc. split; [exact (SimU_set_scroll_margins wc)|split; [exact (SimU_set_style wc)|exact (SimU_set_awrap wc)]]. Qed.
Print Assumptions C20span_margins_style_wrap.
Theorem C20span_set_size : forall wc, wc_multibyte wc -> forall w h s, SInv wc s -> 1 <= w -> 1 <= h ->
  SInv wc (s_set_size wc w h s) /\ abs_sscreen wc (s_set_size wc w h s) = set_size w h (abs_sscreen wc s).
Proof. exact Sim_set_size. Qed.
Print Assumptions C20span_set_size.

(* ---- runs ---- *)
(* writeRun on the text of good clusters = the cell-level write_piece (callbacks included) *)
Theorem C20span_write_run : forall wc, wc_multibyte wc -> forall cls s,
  SInv wc s -> Forall (gcl wc) cls -> cls <> [] -> cls_width cls <= zW s ->
  trig (write_piece (gcells_cl (zsty s) cls) (abs_sscreen wc s)) = 0 ->
  SInv wc (s_write_run wc (bytes cls) (cls_width cls) s) /\
  abs_sscreen wc (s_write_run wc (bytes cls) (cls_width cls) s) = write_piece (gcells_cl (zsty s) cls) (abs_sscreen wc s).
Proof. exact s_write_run_piece. Qed.
Print Assumptions C20span_write_run.

(* cell level: a piece written at once = its glyphs written one by one *)
Theorem C20span_piece_glyphs : forall cls s,
  Inv s -> cls <> [] -> Forall (fun p : list Z * Z => 1 <= snd p) cls ->
  (cx s + cls_width cls <= sW s \/ (exists p, cls = [p] /\ snd p <= sW s)) ->
  let a := fold_left wg cls s in
  let b := write_piece (gcells_cl (sty s) cls) s in
  set_evs [] a = set_evs [] b /\ log_eq (evs b) (evs a).
Proof. exact write_piece_glyphs. Qed.
Print Assumptions C20span_piece_glyphs.

(* writeString on a run = folding write_glyph over its glyphs *)
Theorem C20span_write_string : forall wc, wc_multibyte wc -> forall cls s,
  SInv wc s -> Forall (gcl wc) cls -> cls <> [] -> Forall (fun p : list Z * Z => snd p <= zW s) cls ->
  trig (fold_left wg cls (abs_sscreen wc s)) = 0 ->
  let s' := s_write_string wc (bytes cls) (cls_width cls) s in
  SInv wc s' /\ set_evs [] (abs_sscreen wc s') = set_evs [] (fold_left wg cls (abs_sscreen wc s)) /\
  log_eq (zevs s') (evs (fold_left wg cls (abs_sscreen wc s))).
Proof. exact s_write_string_glyphs. Qed.
Print Assumptions C20span_write_string.

(* the reader's run is a chain of the glyph tokens the cell-level parser yields one at a time;
   an empty run on printable input means the parser waits too *)
Theorem C20span_reader : forall wc fuel buf idx used maxw, (length buf <= fuel)%nat ->
  exists gl rest, buf = gbytes gl ++ rest /\ chain wc gl rest /\
    rr_loop wc fuel buf idx used maxw = (idx + zlen (gbytes gl), used + cls_width (map (gcluster wc) gl)) /\
    (used = 0 -> gl = [] -> forall b tl, buf = b :: tl -> is_printable b = true -> parse_one wc false buf = PMore).
Proof. exact rr_loop_spec. Qed.
Print Assumptions C20span_reader.

(* every token but text: same terminal, callbacks included *)
Theorem C20span_token : forall wc, wc_multibyte wc -> forall k, is_glyph k = false ->
  forall t, STInv wc t -> tz (exec_tok k (abs_sterm wc t)) ->
  STInv wc (s_exec_tok wc k t) /\ abs_sterm wc (s_exec_tok wc k t) = exec_tok k (abs_sterm wc t).
Proof. exact TokSim_exec_tok. Qed.
Print Assumptions C20span_token.

(* the byte loop: runs against glyph tokens, whatever maxWidth the blocked read holds *)
Theorem C20span_run_pending : forall wc, wc_multibyte wc -> forall fuel mw st t inp,
  (length inp < fuel)%nat -> STInv wc st -> Rel wc st t ->
  tz (fst (run_pending wc false fuel t inp)) ->
  let r := s_run_pending wc fuel mw st inp in
  let c := run_pending wc false fuel t inp in
  STInv wc (fst (fst r)) /\ Rel wc (fst (fst r)) (fst c) /\ snd (fst r) = snd c.
Proof. exact s_run_pending_sim. Qed.
Print Assumptions C20span_run_pending.

(* ---- histories ---- *)
Theorem span_simulates_cells : forall wc, wc_multibyte wc -> forall w h ops, 1 <= w -> 1 <= h -> hist_ok ops ->
  tz (fst (run_hist wc false (init_term w h) ops)) ->
  let r := s_run_hist wc (s_init_term w h) ops in
  let c := run_hist wc false (init_term w h) ops in
  nolog (abs_sterm wc (fst (fst r))) = nolog (fst c) /\
  log_eq (slog (fst (fst r))) (tlog (fst c)) /\
  snd (fst r) = snd c.
Proof. intros wc Hmb w h ops. exact (span_simulates_cells_from wc Hmb _ w h ops). Qed.
Print Assumptions span_simulates_cells.

(* the same for ANY maxWidth held by the first blocked read (the loop may have started at any moment) *)
Theorem span_simulates_cells_any_maxwidth : forall wc, wc_multibyte wc -> forall mw w h ops, 1 <= w -> 1 <= h -> hist_ok ops ->
  tz (fst (run_hist wc false (init_term w h) ops)) ->
  let r := s_run_hist_from wc mw (s_init_term w h) ops in
  let c := run_hist wc false (init_term w h) ops in
  nolog (abs_sterm wc (fst (fst r))) = nolog (fst c) /\
  log_eq (slog (fst (fst r))) (tlog (fst c)) /\
  snd (fst r) = snd c.
Proof. exact span_simulates_cells_from. Qed.
Print Assumptions span_simulates_cells_any_maxwidth.

(* what [nolog] equality says, field by field *)
Theorem C20span_nolog_meaning : forall a b, nolog a = nolog b <->
  tmain a = tmain b /\ talt a = talt b /\ onalt a = onalt b /\ vflags a = vflags b /\ vints a = vints b /\
  vstrs a = vstrs b /\ kbm a = kbm b /\ kba a = kba b /\ tout a = tout b.
Proof. exact nolog_meaning. Qed.
Print Assumptions C20span_nolog_meaning.

(* [log_eq] keeps the digest of the callbacks that the correspondence check compares *)
Theorem C20span_digest : forall a b, log_eq a b -> enc_digest a = enc_digest b.
Proof. exact log_eq_enc_digest. Qed.
Print Assumptions C20span_digest.

(* ---- the logs are not literally equal; non-vacuity; outside the hypotheses ---- *)
Theorem C20span_logs_differ :
  let r := s_run_hist wc_ex (s_init_term 5 3) [HFeed [97;98]] in
  let c := run_hist wc_ex false (init_term 5 3) [HFeed [97;98]] in
  slog (fst (fst r)) = [ECursor 2 0; ERegion 0 0 2 1 crText] /\
  tlog (fst c) = [ECursor 2 0; ERegion 1 0 2 1 crText; ECursor 1 0; ERegion 0 0 1 1 crText] /\
  slog (fst (fst r)) <> tlog (fst c).
Proof. exact ex_logs_differ. Qed.
Print Assumptions C20span_logs_differ.

Theorem C20span_oracle_ok : wc_multibyte wc_ex.
Proof. exact wc_ex_multibyte. Qed.
Print Assumptions C20span_oracle_ok.

(* a history with wide glyphs, wraps, a scroll, three resizes (one while a rune is incomplete) meeting the hypotheses *)
Theorem C20span_nonvacuous :
  hist_ok ex_ops /\ tz (fst (run_hist wc_ex false (init_term 5 3) ex_ops)) /\
  snd (run_hist wc_ex false (init_term 5 3) ex_ops) = [] /\
  row_at (tmain (fst (run_hist wc_ex false (init_term 5 3) ex_ops))) 0
    = [mkCell [228;184;173] 2 default_style; contc default_style; mkCell [97] 1 default_style; blank default_style].
Proof. exact ex_hypotheses. Qed.
Print Assumptions C20span_nonvacuous.

Theorem C20span_second_half_differs :
  let ops := [HFeed ([228;184;173] ++ [27;91;50;71] ++ [120])] in
  let r := s_run_hist wc_ex (s_init_term 4 1) ops in
  let c := run_hist wc_ex false (init_term 4 1) ops in
  trig (tmain (fst c)) = trSecondHalf /\
  map ctext (row_at (abs_sterm wc_ex (fst (fst r))).(tmain) 0) = [[228;184;173]; []; [120]; [32]] /\
  map ctext (row_at (tmain (fst c)) 0) = [[32]; [120]; [32]; [32]].
Proof. exact ex_second_half_differs. Qed.
Print Assumptions C20span_second_half_differs.

(* ---- the span-terminal correspondence entry point (Model/SCase.v) ---- *)
(* The check runs the span model from the state the harness really starts in - newSpanScreen's 80x14 buffers
   resized to the case's size - and clears replies and callbacks before every operation.  That start state
   satisfies the span invariant and its cells are the cell model's initial terminal of that size. *)
Theorem C20span_harness_start : forall wc, wc_multibyte wc -> forall w h, 1 <= w -> 1 <= h ->
  STInv wc (s_start wc w h) /\ abs_sterm wc (s_start wc w h) = init_term w h.
Proof. exact s_start_rel. Qed.
Print Assumptions C20span_harness_start.

(* one operation of the span-terminal entry point against one operation of the cell-level entry point
   (Case.run_op, rune mode, span kind), from related states and with the same pending bytes: related states,
   same pending bytes, whatever maxWidth the blocked read holds *)
Theorem C20span_case_step : forall wc, wc_multibyte wc -> forall st t pend mw o,
  hop_ok o -> STInv wc st -> Rel wc st t ->
  tz (fst (hstep wc false (clear_io t, pend) o)) ->
  let r := s_hstep wc (s_clear_io st, pend, mw) o in
  let c := hstep wc false (clear_io t, pend) o in
  STInv wc (fst (fst r)) /\ Rel wc (fst (fst r)) (fst c) /\ snd (fst r) = snd c.
Proof. exact scase_step. Qed.
Print Assumptions C20span_case_step.

(* related states print the same observation records (crash flag and marks, both screen headers, every cell
   of both buffers, reply bytes, registers and keyboard stacks, view strings, callback digest); only the last
   record, the list of announced regions, may differ - by coalescing, see C20span_logs_differ *)
Theorem C20span_case_records : forall wc st t idx p, Rel wc st t ->
  removelast (enc_obs idx (abs_sterm wc st) p) = removelast (enc_obs idx t p).
Proof. exact rel_records. Qed.
Print Assumptions C20span_case_records.
