(* C05 — ED (J 0/1/2), EL (K 0/1/2), ECH (X) and DCH (P) blank exactly the
   cells their definition names, relative to the cursor, and fill them with
   spaces carrying the current attributes; DCH shifts the remainder of the row
   left.  Every other cell on the screen, and the cursor except where the
   function defines otherwise, is unchanged.
   Statements only.  Vocabulary (Spec/ScreenSpec.v):
     zin a b i            a <= i < b (boolean)
     touched row x n      = (left_edge row x, x + n + cont_run row (x + n)): the interval
                          an overwrite of [x, x+n) changes: a wide glyph cut by either
                          boundary is blanked whole
     in_touched row x n i i lies in that interval
     no_wide_cut row x n  neither boundary falls inside a wide glyph (then touched = [x, x+n))
     cmd_cells t t' f     every in-range cell (x', y') of the new active buffer is f x' y';
                          size, cursor, saved cursor, margins, autowrap, current style of
                          the active buffer are unchanged (scr_frame); inactive buffer,
                          mode registers, keyboard state and reply bytes are unchanged
                          (term_frame)
     cmd_noop t t'        all rows of the active buffer unchanged, plus both frames
   All statements hold for every size W, H >= 1 (no relation between W and H is
   assumed) and any previous content of a well-formed screen (TInv / Inv). *)
From Coq Require Import List ZArith Bool.
From Termemu Require Import Base Style Screen Parser Term ScreenInv TermInv ScreenSpec RowLemmas EraseProofs.
Import ListNotations.
Open Scope Z_scope.

(* ---------------- row level ---------------- *)

(* overwrite st x new row, for 0 <= x, 0 < |new|, x + |new| <= |row|, at every index i:
   the new cells inside [x, x+n); blanks in style st in the two fix-up zones (the
   head part of a glyph whose tail reached into x, the tail part of a glyph whose
   head was at or before x+n-1); the old cell everywhere else. *)
Theorem C05_overwrite_cells : forall st x new row i d,
  0 <= x -> 0 < zlen new -> x + zlen new <= zlen row ->
  znth i (overwrite st x new row) d =
    if zin x (x + zlen new) i then znth (i - x) new d
    else if zin (left_edge row x) x i || zin (x + zlen new) (x + zlen new + cont_run row (x + zlen new)) i
         then blank st
         else znth i row d.
Proof. exact overwrite_znth. Qed.
Print Assumptions C05_overwrite_cells.

(* overwriting with n blanks: blank exactly on the touched interval *)
Theorem C05_overwrite_blanks : forall st x n row i d,
  0 <= x -> 0 < n -> x + n <= zlen row ->
  znth i (overwrite st x (zrepeat (blank st) n) row) d =
    if in_touched row x n i then blank st else znth i row d.
Proof. exact overwrite_blank_znth. Qed.
Print Assumptions C05_overwrite_blanks.

(* the touched interval contains [x, x+n), stays inside the row, and is exactly
   [x, x+n) when no wide glyph is cut *)
Theorem C05_touched_range : forall row x n, 0 <= x -> 0 <= n -> x + n <= zlen row ->
  0 <= fst (touched row x n) <= x /\ x + n <= snd (touched row x n) <= zlen row.
Proof. exact touched_range. Qed.
Print Assumptions C05_touched_range.

Theorem C05_touched_exact : forall row x n i, 0 <= x -> 0 <= n -> no_wide_cut row x n ->
  in_touched row x n i = zin x (x + n) i.
Proof. exact in_touched_exact. Qed.
Print Assumptions C05_touched_exact.

(* delete_cells st x n row (0 <= x, 0 <= n, x+n <= |row|) at every index i of the row:
   cells left of the cut are kept; the kept halves of glyphs cut by the deletion
   become blanks in their own style (unglyph); cells from x+n+r on are shifted
   left by n; the last n cells are blanks in style st. *)
Theorem C05_delete_cells : forall st x n row i d,
  0 <= x -> 0 <= n -> x + n <= zlen row -> 0 <= i < zlen row ->
  znth i (delete_cells st x n row) d =
    if i <? left_edge row x then znth i row d
    else if i <? x then unglyph (znth i row d)
    else if i <? x + cont_run row (x + n) then unglyph (znth (i + n) row d)
    else if i <? zlen row - n then znth (i + n) row d
    else blank st.
Proof. exact delete_cells_znth. Qed.
Print Assumptions C05_delete_cells.

Example C05_row_examples :
  (overwrite stC 2 [ch 120 stC] ([ch 97 stA; ch 98 stA] ++ wide 20013 stB ++ [ch 99 stA])
   = [ch 97 stA; ch 98 stA; ch 120 stC; blank stC; ch 99 stA]
   /\ touched ([ch 97 stA; ch 98 stA] ++ wide 20013 stB ++ [ch 99 stA]) 2 1 = (2, 4)
   /\ touched ([ch 97 stA; ch 98 stA] ++ wide 20013 stB ++ [ch 99 stA]) 3 1 = (2, 4))
  /\ delete_cells stC 3 1 ([ch 97 stA; ch 98 stA] ++ wide 20013 stB ++ [ch 99 stA])
     = [ch 97 stA; ch 98 stA; blank stB; ch 99 stA; blank stC].
Proof. exact (conj overwrite_example delete_cells_example). Qed.

(* the touched interval is only meaningful for a non-empty range: for n = 0 it
   can be non-empty while the (empty) overwrite changes nothing, hence the
   condition xc < x2c below *)
Example C05_empty_range_example :
  let row := [ch 97 stA; ch 98 stA] ++ wide 20013 stB ++ [ch 99 stA] in
  touched row 3 0 = (2, 4) /\ overwrite stC 3 [] row = row.
Proof. exact touched_empty_range_example. Qed.

(* ---------------- eraseRegion ---------------- *)

(* eraseRegion(x, y, x2, y2) for ARBITRARY arguments: the rectangle is clamped to
   the screen; in each row of the clamped row range the touched interval of the
   clamped column range becomes blanks in the current style; every other cell is
   unchanged (an empty column range changes nothing). *)
Theorem C05_erase_region_cell : forall x y x2 y2 s, Inv s ->
  let xc := clamp x 0 (sW s) in let yc := clamp y 0 (sH s) in
  let x2c := clamp x2 xc (sW s) in let y2c := clamp y2 yc (sH s) in
  forall x' y',
  cell_at (erase_region x y x2 y2 s) x' y' =
    if zin yc y2c y' && (xc <? x2c) && in_touched (row_at s y') xc (x2c - xc) x'
    then blank (sty s) else cell_at s x' y'.
Proof. exact erase_region_cell. Qed.
Print Assumptions C05_erase_region_cell.

(* cursor, saved cursor, margins, autowrap, style, size, crash flag unchanged *)
Theorem C05_erase_region_frame : forall x y x2 y2 s, Inv s -> scr_frame s (erase_region x y x2 y2 s).
Proof. exact erase_region_frame. Qed.
Print Assumptions C05_erase_region_frame.

(* a rectangle [x, x2) x [y, y2) inside the screen whose vertical edges cut no wide
   glyph: exactly the cells of the rectangle become blanks in the current style *)
Theorem C05_erase_region_rect : forall x y x2 y2 s, Inv s ->
  0 <= x <= x2 -> x2 <= sW s -> 0 <= y <= y2 -> y2 <= sH s ->
  (forall y', y <= y' < y2 -> no_wide_cut (row_at s y') x (x2 - x)) ->
  forall x' y',
  cell_at (erase_region x y x2 y2 s) x' y' =
    if in_rectb x' y' x y x2 y2 then blank (sty s) else cell_at s x' y'.
Proof. exact erase_region_rect. Qed.
Print Assumptions C05_erase_region_rect.

Theorem C05_in_rect_meaning : forall x y x1 y1 x2 y2,
  in_rectb x y x1 y1 x2 y2 = true <-> in_rect x y x1 y1 x2 y2.
Proof. exact in_rectb_spec. Qed.
Print Assumptions C05_in_rect_meaning.

Example C05_rect_example :
  rows (erase_region 1 2 4 5 ex_scr) =
    upd_rows [(2, [ch 101 stC; blank stB; blank stB; blank stB; ch 105 stB]);
              (3, blank_row 5 stB);
              (4, [ch 106 stA; blank stB; blank stB; blank stB; ch 110 stA])].
Proof. exact rect_example. Qed.

(* The command-level statements below are about exec_csi_plain / exec_c0 /
   exec_esc, which is what the token interpreter runs for CSI sequences without
   prefix, C0 controls and two-byte escapes. *)
Theorem C05_token : forall ps f b t,
  exec_tok (TCsi 0 ps f) t = exec_csi_plain ps f t
  /\ exec_tok (TC0 b) t = exec_c0 b t /\ exec_tok (TEsc b) t = exec_esc b t.
Proof. exact exec_tok_plain. Qed.
Print Assumptions C05_token.

(* ---------------- EL (CSI Ps K) ---------------- *)

(* EL 0: the cursor row from the cursor to the right edge; if the cursor sits on
   the second half of a wide glyph the glyph's head is blanked too *)
Theorem C05_el0 : forall t ps, TInv t -> p0 ps 0 = 0 ->
  let s := active t in
  cmd_cells t (exec_csi_plain ps 75 t) (fun x' y' =>
    if (y' =? cy s) && (left_edge (row_at s (cy s)) (cx s) <=? x') then blank (sty s) else cell_at s x' y').
Proof. exact el0_cmd. Qed.
Print Assumptions C05_el0.

(* ... which is exactly [cx, W) when the cursor is not on a continuation cell *)
Theorem C05_el0_exact : forall t ps, TInv t -> p0 ps 0 = 0 ->
  let s := active t in
  is_cont (cell_at s (cx s) (cy s)) = false ->
  cmd_cells t (exec_csi_plain ps 75 t) (fun x' y' =>
    if (y' =? cy s) && (cx s <=? x') then blank (sty s) else cell_at s x' y').
Proof. exact el0_cmd_exact. Qed.
Print Assumptions C05_el0_exact.

(* EL 1: [0, cx] inclusive, plus the continuation cells of a wide glyph whose head is at cx *)
Theorem C05_el1 : forall t ps, TInv t -> p0 ps 0 = 1 ->
  let s := active t in
  cmd_cells t (exec_csi_plain ps 75 t) (fun x' y' =>
    if (y' =? cy s) && (x' <? cx s + 1 + cont_run (row_at s (cy s)) (cx s + 1)) then blank (sty s)
    else cell_at s x' y').
Proof. exact el1_cmd. Qed.
Print Assumptions C05_el1.

Theorem C05_el1_exact : forall t ps, TInv t -> p0 ps 0 = 1 ->
  let s := active t in
  is_cont (cell_at s (cx s + 1) (cy s)) = false ->
  cmd_cells t (exec_csi_plain ps 75 t) (fun x' y' =>
    if (y' =? cy s) && (x' <=? cx s) then blank (sty s) else cell_at s x' y').
Proof. exact el1_cmd_exact. Qed.
Print Assumptions C05_el1_exact.

(* EL 2: the whole cursor row *)
Theorem C05_el2 : forall t ps, TInv t -> p0 ps 0 = 2 ->
  let s := active t in
  cmd_cells t (exec_csi_plain ps 75 t) (fun x' y' => if y' =? cy s then blank (sty s) else cell_at s x' y').
Proof. exact el2_cmd. Qed.
Print Assumptions C05_el2.

(* any other parameter: the terminal is unchanged *)
Theorem C05_el_other : forall t ps, p0 ps 0 <> 0 -> p0 ps 0 <> 1 -> p0 ps 0 <> 2 -> exec_csi_plain ps 75 t = t.
Proof. exact el_other_cmd. Qed.
Print Assumptions C05_el_other.

(* ---------------- ED (CSI Ps J) ---------------- *)

(* ED 0: rest of the cursor row (as EL 0) and all rows below *)
Theorem C05_ed0 : forall t ps, TInv t -> p0 ps 0 = 0 ->
  let s := active t in
  cmd_cells t (exec_csi_plain ps 74 t) (fun x' y' =>
    if ((y' =? cy s) && (left_edge (row_at s (cy s)) (cx s) <=? x')) || (cy s <? y')
    then blank (sty s) else cell_at s x' y').
Proof. exact ed0_cmd. Qed.
Print Assumptions C05_ed0.

Theorem C05_ed0_exact : forall t ps, TInv t -> p0 ps 0 = 0 ->
  let s := active t in
  is_cont (cell_at s (cx s) (cy s)) = false ->
  cmd_cells t (exec_csi_plain ps 74 t) (fun x' y' =>
    if ((y' =? cy s) && (cx s <=? x')) || (cy s <? y') then blank (sty s) else cell_at s x' y').
Proof. exact ed0_cmd_exact. Qed.
Print Assumptions C05_ed0_exact.

(* ED 1: all rows above and [0, cx] of the cursor row (as EL 1) *)
Theorem C05_ed1 : forall t ps, TInv t -> p0 ps 0 = 1 ->
  let s := active t in
  cmd_cells t (exec_csi_plain ps 74 t) (fun x' y' =>
    if (y' <? cy s) || ((y' =? cy s) && (x' <? cx s + 1 + cont_run (row_at s (cy s)) (cx s + 1)))
    then blank (sty s) else cell_at s x' y').
Proof. exact ed1_cmd. Qed.
Print Assumptions C05_ed1.

Theorem C05_ed1_exact : forall t ps, TInv t -> p0 ps 0 = 1 ->
  let s := active t in
  is_cont (cell_at s (cx s + 1) (cy s)) = false ->
  cmd_cells t (exec_csi_plain ps 74 t) (fun x' y' =>
    if (y' <? cy s) || ((y' =? cy s) && (x' <=? cx s)) then blank (sty s) else cell_at s x' y').
Proof. exact ed1_cmd_exact. Qed.
Print Assumptions C05_ed1_exact.

(* ED 2: every cell becomes a blank in the current style AND the cursor moves to
   (0,0) (pinned by a Go test; known finding against "cursor unchanged"); the rest
   of the active buffer and of the terminal is unchanged *)
Theorem C05_ed2 : forall t ps, TInv t -> p0 ps 0 = 2 ->
  let s := active t in let t' := exec_csi_plain ps 74 t in
  (forall x' y', 0 <= x' < sW s -> 0 <= y' < sH s -> cell_at (active t') x' y' = blank (sty s))
  /\ cx (active t') = 0 /\ cy (active t') = 0
  /\ scr_frame_nocur s (active t') /\ term_frame t t'.
Proof. exact ed2_cmd. Qed.
Print Assumptions C05_ed2.

(* the literal reading of C05 ("the cursor is unchanged") fails for ED 2 *)
Theorem C05_ed2_cursor_refuted : exists t ps, TInv t /\ p0 ps 0 = 2 /\
  (cx (active (exec_csi_plain ps 74 t)), cy (active (exec_csi_plain ps 74 t))) <> (cx (active t), cy (active t)).
Proof. exact ed2_cursor_refuted. Qed.
Print Assumptions C05_ed2_cursor_refuted.

Theorem C05_ed_other : forall t ps, p0 ps 0 <> 0 -> p0 ps 0 <> 1 -> p0 ps 0 <> 2 -> exec_csi_plain ps 74 t = t.
Proof. exact ed_other_cmd. Qed.
Print Assumptions C05_ed_other.

(* ---------------- ECH (CSI Pn X) ---------------- *)

(* ECH n, n >= 1 (an omitted parameter is 1: p0 [] 1 = 1): the touched interval of
   [cx, min W (cx+n)) on the cursor row *)
Theorem C05_ech : forall t ps, TInv t -> 1 <= p0 ps 1 ->
  let s := active t in let m := Z.min (p0 ps 1) (sW s - cx s) in
  cmd_cells t (exec_csi_plain ps 88 t) (fun x' y' =>
    if (y' =? cy s) && in_touched (row_at s (cy s)) (cx s) m x' then blank (sty s) else cell_at s x' y').
Proof. exact ech_cmd. Qed.
Print Assumptions C05_ech.

Theorem C05_ech_exact : forall t ps, TInv t -> 1 <= p0 ps 1 ->
  let s := active t in let m := Z.min (p0 ps 1) (sW s - cx s) in
  no_wide_cut (row_at s (cy s)) (cx s) m ->
  cmd_cells t (exec_csi_plain ps 88 t) (fun x' y' =>
    if (y' =? cy s) && ((cx s <=? x') && (x' <? cx s + m)) then blank (sty s) else cell_at s x' y').
Proof. exact ech_cmd_exact. Qed.
Print Assumptions C05_ech_exact.

(* an explicit parameter 0 (or less) erases nothing (xterm would erase one cell) *)
Theorem C05_ech_zero : forall t ps, TInv t -> p0 ps 1 <= 0 -> cmd_noop t (exec_csi_plain ps 88 t).
Proof. exact ech_zero_cmd. Qed.
Print Assumptions C05_ech_zero.

(* ---------------- DCH (CSI Pn P) ---------------- *)

(* DCH n, n >= 1, m = min n (W - cx) cells deleted at the cursor: see C05_delete_cells *)
Theorem C05_dch : forall t ps, TInv t -> 1 <= p0 ps 1 ->
  let s := active t in let m := Z.min (p0 ps 1) (sW s - cx s) in let row := row_at s (cy s) in
  cmd_cells t (exec_csi_plain ps 80 t) (fun x' y' =>
    if y' =? cy s then
      if x' <? left_edge row (cx s) then cell_at s x' y'
      else if x' <? cx s then unglyph (cell_at s x' y')
      else if x' <? cx s + cont_run row (cx s + m) then unglyph (cell_at s (x' + m) y')
      else if x' <? sW s - m then cell_at s (x' + m) y'
      else blank (sty s)
    else cell_at s x' y').
Proof. exact dch_cmd. Qed.
Print Assumptions C05_dch.

(* no glyph cut: cells left of the cursor kept, the rest shifted left by m, m blanks
   in the current style at the end of the row *)
Theorem C05_dch_exact : forall t ps, TInv t -> 1 <= p0 ps 1 ->
  let s := active t in let m := Z.min (p0 ps 1) (sW s - cx s) in
  no_wide_cut (row_at s (cy s)) (cx s) m ->
  cmd_cells t (exec_csi_plain ps 80 t) (fun x' y' =>
    if (y' =? cy s) && (cx s <=? x') then
      if x' <? sW s - m then cell_at s (x' + m) y' else blank (sty s)
    else cell_at s x' y').
Proof. exact dch_cmd_exact. Qed.
Print Assumptions C05_dch_exact.

Theorem C05_dch_zero : forall t ps, TInv t -> p0 ps 1 <= 0 -> cmd_noop t (exec_csi_plain ps 80 t).
Proof. exact dch_zero_cmd. Qed.
Print Assumptions C05_dch_zero.

(* ---------------- examples: the 5x7 screen ex_scr of Spec/ScreenSpec.v ---------------- *)
(* rows_after ps f s = rows of the active buffer after CSI ps f on a terminal showing s;
   upd_rows l = ex_rows with the listed rows replaced *)
Example C05_el_examples :
  rows_after [] 75 ex_scr = upd_rows [(1, wide 22269 stA ++ [ch 100 stB; blank stB; blank stB])]
  /\ (rows_after [1] 75 (ex_scr_at 3 1) = upd_rows [(1, blank_row 5 stB)]
      /\ rows_after [1] 75 (ex_scr_at 2 1) = upd_rows [(1, [blank stB; blank stB; blank stB] ++ wide 26085 stC)])
  /\ rows_after [2] 75 (ex_scr_at 2 5) = upd_rows [(5, blank_row 5 stB)]
  /\ exec_csi_plain [3] 75 ex_term = ex_term.
Proof. exact (conj el0_example (conj el1_example (conj el2_example el_other_example))). Qed.

Example C05_alt_buffer_example :
  let t := term_of_alt ex_scr in let t' := exec_csi_plain [] 75 t in
  rows (talt t') = upd_rows [(1, wide 22269 stA ++ [ch 100 stB; blank stB; blank stB])]
  /\ tmain t' = tmain t /\ onalt t' = true /\ tout t' = [7] /\ vflags t' = vflags t.
Proof. exact alt_buffer_example. Qed.

Example C05_ed_examples :
  rows_after [0] 74 (ex_scr_at 3 4) =
    upd_rows [(4, [ch 106 stA; ch 107 stA; ch 108 stA; blank stB; blank stB]);
              (5, blank_row 5 stB); (6, blank_row 5 stB)]
  /\ rows_after [1] 74 (ex_scr_at 2 5) =
    upd_rows [(0, blank_row 5 stB); (1, blank_row 5 stB); (2, blank_row 5 stB); (3, blank_row 5 stB);
              (4, blank_row 5 stB); (5, [blank stB; blank stB; blank stB; blank stB; ch 111 stB])]
  /\ (let t' := exec_csi_plain [2] 74 ex_term in
      rows (active t') = zrepeat (blank_row 5 stB) 7 /\ cx (active t') = 0 /\ cy (active t') = 0).
Proof. exact (conj ed0_example (conj ed1_example ed2_example)). Qed.

Example C05_ech_dch_examples :
  (rows_after [2] 88 (ex_scr_at 1 5) = upd_rows [(5, [blank stB; blank stB; blank stB; blank stB; ch 111 stB])]
   /\ rows_after [9] 88 (ex_scr_at 2 2) = upd_rows [(2, [ch 101 stC; ch 102 stC; blank stB; blank stB; blank stB])]
   /\ rows_after [] 88 (ex_scr_at 2 2) = upd_rows [(2, [ch 101 stC; ch 102 stC; blank stB; ch 104 stB; ch 105 stB])]
   /\ rows_after [0] 88 (ex_scr_at 2 2) = ex_rows)
  /\ (rows_after [] 80 (ex_scr_at 2 0) = upd_rows [(0, [ch 97 stA; ch 98 stA; blank stB; ch 99 stC; blank stB])]
   /\ rows_after [2] 80 (ex_scr_at 1 5) = upd_rows [(5, [blank stC; blank stA; ch 111 stB; blank stB; blank stB])]
   /\ rows_after [0] 80 (ex_scr_at 2 0) = ex_rows).
Proof. exact (conj ech_example dch_example). Qed.
