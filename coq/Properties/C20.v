(* C20 — The grid and span screen buffers are observationally equivalent.
   Both buffers are tied, by the correspondence check, to ONE cell-level model;
   the only place where the model distinguishes them is the text stored for an
   invalid UTF-8 byte.  Statements only. *)
From Coq Require Import List ZArith Bool.
From Termemu Require Import Base Style Screen Parser Term IsolationProofs.
Import ListNotations.
Open Scope Z_scope.

(* On input whose printable clusters are all valid UTF-8 the span-kind and the
   grid-kind runs of the model coincide completely: every cell, cursor, margins,
   modes, replies and the callback log of both buffers. *)
Theorem C20_model_kinds_agree : forall wc fuel t inp, all_valid wc fuel inp = true ->
  run_pending wc false fuel t inp = run_pending wc true fuel t inp.
Proof. exact run_pending_kind. Qed.
Print Assumptions C20_model_kinds_agree.

Theorem C20_token_kinds_agree : forall wc inp, valid_head inp = true ->
  parse_one wc false inp = parse_one wc true inp.
Proof. exact parse_one_kind. Qed.
Print Assumptions C20_token_kinds_agree.
