(* C08 on the span buffer, outside the sanctioned corner: none.  Inside it - a write that starts on the second
   half of a double-width character, where the span buffer keeps the character and inserts after it (known
   finding KF-second-half, pinned by TestEmojiOverwriteSequence) - the result depends on how the stream is cut
   into reads, because the span buffer writes the printable bytes of one read as one run: "abc" written as a
   run at the second half shifts once, "a" "b" "c" written in three reads shift and then overwrite.  The
   witness is evaluated on the whole-screen span model (Model/SpanScreen.v), whose raw rows are compared with
   the implementation after every operation by the span-terminal engine; the same two histories are in the
   corpus.  Outside the corner the cell model's chunk independence (C08.v) transfers to the span buffer by
   span_simulates_cells (C20span.v).  Statements only. *)
From Coq Require Import List ZArith Bool.
From Termemu Require Import Base Style Screen Kbd Parser Term Span SpanScreen TrigMono SpanExamples SCaseProofs.
Import ListNotations.
Open Scope Z_scope.

(* U+1F642 (two cells) ESC [ 2 G  a b c  on a 6x1 span screen: the same bytes, read whole and read in four pieces *)
Theorem C08_span_second_half_cut_refuted :
  concat (map (fun o => match o with HFeed b => b | _ => [] end) c08_whole)
    = concat (map (fun o => match o with HFeed b => b | _ => [] end) c08_cut) /\
  map ctext (row_at (tmain (abs_sterm wc_ex (fst (fst (s_run_hist wc_ex (s_init_term 6 1) c08_whole))))) 0)
    = [[240;159;153;130]; []; [97]; [98]; [99]; [32]] /\
  map ctext (row_at (tmain (abs_sterm wc_ex (fst (fst (s_run_hist wc_ex (s_init_term 6 1) c08_cut))))) 0)
    = [[240;159;153;130]; []; [98]; [99]; [32]; [32]] /\
  trig (tmain (fst (run_hist wc_ex false (init_term 6 1) c08_whole))) = trSecondHalf.
Proof. exact c08_span_second_half_cut. Qed.
Print Assumptions C08_span_second_half_cut_refuted.
