(* C10, first sentence — "a frontend that keeps its own copy of the screen and, on each RegionChanged,
   refreshes only the announced cells by reading them back always ends each input with an exact copy of
   the active screen, including across scrolls and buffer switches."  Statements only.

   GRANULARITY.  The model records, per token, the state after the token and the callbacks issued
   during it, not the intermediate state at each callback.  The shadow semantics is therefore stated
   per TOKEN: after each token the frontend refreshes exactly the cells covered by the RegionChanged
   callbacks issued during that token ([delta t t'], the new prefix of the log), reading them from the
   state after the token; every other cell of its copy keeps its value.

   [announcedb l x y]: decidable form of [announced l x y] (some RegionChanged in l covers (x,y)).
   A shadow is rows of cells, [sh_cell sh x y] its cell (the access path of [cell_at]).
   [agrees sh s]: sh has the cell of s at every position inside s.
   [refresh l new sh]: sh with the cells announced in l re-read from [new], of the size of [new].
   [run_pending_sh] / [run_bytes_sh] / [run_hist_sh]: the read loop, one input, a history, carrying the shadow. *)
From Coq Require Import List ZArith Bool.
From Termemu Require Import Base Style Screen Kbd Parser Term ScreenInv TermInv IsolationProofs HistProofs
  NotifyProofs ShadowProofs.
Import ListNotations.
Open Scope Z_scope.

(* ---- the meaning of the definitions ---- *)
Theorem C10shadow_announcedb : forall l x y, announcedb l x y = true <-> announced l x y.
Proof. exact announcedb_spec. Qed.
Print Assumptions C10shadow_announcedb.

(* the callbacks of a step are what was put in front of the log *)
Theorem C10shadow_delta : forall t t' l, tlog t' = l ++ tlog t -> delta t t' = l.
Proof. exact delta_app. Qed.
Print Assumptions C10shadow_delta.

(* the refresh re-reads the announced cells and only those *)
Theorem C10shadow_refresh : forall l new sh x y, 0 <= x < sW new -> 0 <= y < sH new ->
  sh_cell (refresh l new sh) x y = if announcedb l x y then cell_at new x y else sh_cell sh x y.
Proof. exact sh_cell_refresh. Qed.
Print Assumptions C10shadow_refresh.

Theorem C10shadow_cell_at : forall s x y, sh_cell (rows s) x y = cell_at s x y.
Proof. exact sh_cell_rows. Qed.
Print Assumptions C10shadow_cell_at.

(* the instrumented loop: [run_pending] with, after each token, the refresh from the state after it *)
Theorem C10shadow_loop : forall wc grid f t inp sh,
  run_pending_sh wc grid 0 t inp sh = (t, inp, sh) /\
  run_pending_sh wc grid (S f) t inp sh =
    if crashed t then (t, inp, sh) else
    match parse_one wc grid inp with
    | PMore => (t, inp, sh)
    | PTok k rest =>
        run_pending_sh wc grid f (exec_tok k t) rest
          (refresh (delta t (exec_tok k t)) (active (exec_tok k t)) sh)
    end.
Proof. intros. split; [apply run_pending_sh_O|apply run_pending_sh_S]. Qed.
Print Assumptions C10shadow_loop.

Theorem C10shadow_loop_same_run : forall wc grid t inp sh,
  fst (run_bytes_sh wc grid t inp sh) = run_bytes wc grid t inp.
Proof. exact run_bytes_sh_fst. Qed.
Print Assumptions C10shadow_loop_same_run.

(* ---- one token, switching or not ---- *)
(* Every token: the callbacks issued during it extend the log, the screen shown keeps its size, and every
   cell of the screen shown AFTER the token that none of the new RegionChanged covers has the value the
   screen shown BEFORE the token had there (C10_token without its side condition [~ is_switch k] and
   without "the same buffer is shown"). *)
Theorem C10shadow_token_frame : forall k t, TInv t ->
  sW (active (exec_tok k t)) = sW (active t) /\ sH (active (exec_tok k t)) = sH (active t) /\
  exists l, tlog (exec_tok k t) = l ++ tlog t /\
    forall x y, 0 <= x < sW (active t) -> 0 <= y < sH (active t) -> ~ announced l x y ->
      cell_at (active (exec_tok k t)) x y = cell_at (active t) x y.
Proof. exact exec_tok_ann. Qed.
Print Assumptions C10shadow_token_frame.

(* a token after which the other buffer is shown announced every cell of the screen now shown *)
Theorem C10shadow_switch_token : forall k t, TInv t -> onalt (exec_tok k t) <> onalt t ->
  forall x y, 0 <= x < sW (active (exec_tok k t)) -> 0 <= y < sH (active (exec_tok k t)) ->
    announced (delta t (exec_tok k t)) x y.
Proof. exact switch_token_announces_all. Qed.
Print Assumptions C10shadow_switch_token.

(* the shadow shows the screen before the token; after the refresh it IS the rows of the screen now shown *)
Theorem C10shadow_token : forall k t sh, TInv t -> agrees sh (active t) ->
  refresh (delta t (exec_tok k t)) (active (exec_tok k t)) sh = rows (active (exec_tok k t)).
Proof. exact shadow_token. Qed.
Print Assumptions C10shadow_token.

(* ---- the read loop, one input ---- *)
Theorem C10shadow_run : forall wc grid fuel t inp sh, TInv t -> agrees sh (active t) ->
  agrees (snd (run_pending_sh wc grid fuel t inp sh)) (active (fst (run_pending wc grid fuel t inp))).
Proof. exact shadow_run. Qed.
Print Assumptions C10shadow_run.

(* any width oracle, both buffer kinds, any bytes (complete or not, valid or not), any pending bytes *)
Theorem C10shadow_feed : forall wc grid t inp sh, TInv t -> sh = rows (active t) ->
  fst (run_bytes_sh wc grid t inp sh) = run_bytes wc grid t inp /\
  snd (run_bytes_sh wc grid t inp sh) = rows (active (fst (run_bytes wc grid t inp))).
Proof. exact shadow_feed. Qed.
Print Assumptions C10shadow_feed.

Theorem C10shadow_feed_agrees : forall wc grid t inp sh, TInv t -> agrees sh (active t) ->
  agrees (snd (run_bytes_sh wc grid t inp sh)) (active (fst (run_bytes wc grid t inp))).
Proof. exact shadow_feed_agrees. Qed.
Print Assumptions C10shadow_feed_agrees.

(* ---- histories of inputs and resizes ---- *)
(* Resize issues no RegionChanged; the frontend that calls it repaints everything ([hstep_sh]: the shadow
   becomes the rows of the screen shown after the resize).  That step is outside the property's
   quantifier, which is about inputs; it is there so that the two can interleave. *)
Theorem C10shadow_resize_step : forall wc grid st w h,
  hstep_sh wc grid st (HResize w h) =
    if crashed (fst (fst st)) then st
    else (resize w h (fst (fst st)), snd (fst st), rows (active (resize w h (fst (fst st))))).
Proof. reflexivity. Qed.
Print Assumptions C10shadow_resize_step.

Theorem C10shadow_hist : forall wc grid t sh ops, TInv t -> hist_ok ops -> sh = rows (active t) ->
  fst (run_hist_sh wc grid t sh ops) = run_hist wc grid t ops /\
  snd (run_hist_sh wc grid t sh ops) = rows (active (fst (run_hist wc grid t ops))).
Proof. exact shadow_hist. Qed.
Print Assumptions C10shadow_hist.

(* after EVERY step of every history from the initial terminal *)
Theorem C10shadow_every_input : forall wc grid w h ops n, 1 <= w -> 1 <= h -> hist_ok ops ->
  let t0 := init_term w h in
  snd (run_hist_sh wc grid t0 (rows (active t0)) (firstn n ops))
  = rows (active (fst (run_hist wc grid t0 (firstn n ops)))).
Proof. exact shadow_hist_every_prefix. Qed.
Print Assumptions C10shadow_every_input.

(* ---- non-vacuity: text, scroll, erase, switch to the alternate screen and back, on 4x3 ---- *)
Theorem C10shadow_example :
  let t0 := init_term 4 3 in
  let r := run_bytes_sh (fun _ => 1) false t0 shadow_example_bytes (rows (active t0)) in
  let t := fst (fst r) in
  snd r = rows (active t) /\
  map (map ctext) (snd r) = [[[99]; [100]; [32]; [32]]; [[101]; [32]; [32]; [32]]; [[103]; [104]; [32]; [32]]] /\
  snd (fst r) = [] /\ onalt t = false /\ map ctext (row_at (talt t) 0) = [[120]; [32]; [32]; [32]] /\
  has_reason crText (tlog t) = true /\ has_reason crClear (tlog t) = true /\
  has_reason crScroll (tlog t) = true /\ has_reason crScreenSwitch (tlog t) = true.
Proof. exact shadow_example. Qed.
Print Assumptions C10shadow_example.

(* the refresh is needed: ignoring the scroll regions, or the switch regions, leaves a wrong copy *)
Theorem C10shadow_needs_scroll_regions :
  let t0 := init_term 4 3 in
  let r := run_pending_with (fun _ => 1) false (drop_reason crScroll) 21 t0 shadow_example_main (rows (active t0)) in
  snd (fst r) = [] /\
  map (map ctext) (snd r) = [[[97]; [98]; [32]; [32]]; [[99]; [32]; [32]; [32]]; [[103]; [104]; [32]; [32]]] /\
  map (map ctext) (rows (active (fst (fst r)))) = [[[99]; [100]; [32]; [32]]; [[101]; [32]; [32]; [32]]; [[103]; [104]; [32]; [32]]] /\
  snd r <> rows (active (fst (fst r))).
Proof. exact shadow_needs_scroll_regions. Qed.
Print Assumptions C10shadow_needs_scroll_regions.

Theorem C10shadow_needs_switch_regions :
  let t0 := init_term 4 3 in
  let r := run_pending_with (fun _ => 1) false (drop_reason crScreenSwitch) 38 t0 shadow_example_bytes (rows (active t0)) in
  snd (fst r) = [] /\
  map ctext (znth 0 (snd r) []) = [[120]; [100]; [32]; [32]] /\
  map ctext (row_at (active (fst (fst r))) 0) = [[99]; [100]; [32]; [32]] /\
  snd r <> rows (active (fst (fst r))).
Proof. exact shadow_needs_switch_regions. Qed.
Print Assumptions C10shadow_needs_switch_regions.
