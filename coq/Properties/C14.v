(* C14 — Each terminal query gets exactly one correct reply, in order, and
   nothing else is ever written to the application.
   Statements only; proofs are in Proofs/ReplyProofs.v.  [tout t] is the byte
   string written to the application so far. *)
From Coq Require Import List ZArith Bool.
From Termemu Require Import Base Style Screen Kbd Parser Term ScreenInv TermInv HistProofs SegProofs ReplyProofs.
Import ListNotations.
Open Scope Z_scope.

(* The specification [reply_of k t] (ReplyProofs.v), the reply owed to token k
   reached in state t:
     CSI c / CSI 0 c   -> ESC [ ? 1 ; 2 c             (first parameter 0 or omitted only)
     CSI > ... c       -> ESC [ > 1 ; 4402 ; 0 c
     CSI 5 n           -> ESC [ 0 n
     CSI 6 n           -> ESC [ cy+1 ; cx+1 R          of the active screen
     CSI ? u           -> ESC [ ? flags u              of the active screen's keyboard state
     every other token -> nothing.
   Executing any token in any state appends exactly that to the output. *)
Theorem C14_token : forall k t, tout (exec_tok k t) = tout t ++ reply_of k t.
Proof. exact reply_token. Qed.
Print Assumptions C14_token.

(* a token produces output if and only if it is one of the five queries *)
Theorem C14_query_iff : forall k t, reply_of k t <> [] <-> is_query k = true.
Proof. exact reply_nonempty_iff. Qed.
Print Assumptions C14_query_iff.

Theorem C14_no_other_output : forall k t, is_query k = false -> tout (exec_tok k t) = tout t.
Proof. exact no_reply_unless_query. Qed.
Print Assumptions C14_no_other_output.

(* Streams.  [trace_bytes wc grid t inp] lists the tokens the read loop executes
   on inp, each paired with the state in which it is reached; the output is
   the old output followed by the replies of those tokens in stream order. *)
Theorem C14_out : forall wc grid t inp,
  tout (fst (run_bytes wc grid t inp)) = tout t ++ replies (trace_bytes wc grid t inp).
Proof. exact out_bytes. Qed.
Print Assumptions C14_out.

(* one reply per query token and nothing for the others *)
Theorem C14_out_queries : forall wc grid t inp,
  tout (fst (run_bytes wc grid t inp)) =
  tout t ++ replies (filter (fun kt => is_query (fst kt)) (trace_bytes wc grid t inp)).
Proof. exact out_bytes_queries. Qed.
Print Assumptions C14_out_queries.

(* input without queries writes nothing *)
Theorem C14_silent : forall wc grid t inp,
  forallb (fun kt => negb (is_query (fst kt))) (trace_bytes wc grid t inp) = true ->
  tout (fst (run_bytes wc grid t inp)) = tout t.
Proof. exact out_silent. Qed.
Print Assumptions C14_silent.

(* the trace is faithful: its states are those reached by executing the
   preceding tokens, its tokens are the tokenization of the bytes (which does
   not depend on the state), and executing them all gives the final state *)
Theorem C14_trace_states : forall wc grid f t inp,
  map snd (trace wc grid f t inp) = states_from t (map fst (trace wc grid f t inp)).
Proof. exact trace_states. Qed.
Print Assumptions C14_trace_states.

Theorem C14_trace_tokens : forall wc grid f t inp, TInv t ->
  map fst (trace wc grid f t inp) = tokenize wc grid f inp.
Proof. exact trace_tokens. Qed.
Print Assumptions C14_trace_tokens.

Theorem C14_trace_final : forall wc grid f t inp,
  fst (run_pending wc grid f t inp) = fold_left (fun t k => exec_tok k t) (map fst (trace wc grid f t inp)) t.
Proof. exact trace_final. Qed.
Print Assumptions C14_trace_final.

(* The five queries as bytes.  When they start on a token boundary, each
   appends its one reply computed from the state t' reached by exactly the
   preceding bytes (cursor position / keyboard flags at that point), and the
   rest of the stream is processed after it.  "CSI 1 c" is not answered. *)
Theorem C14_queries_in_stream : forall wc grid t pre post,
  let t' := fst (run_bytes wc grid t pre) in
  snd (run_bytes wc grid t pre) = [] -> crashed t' = false ->
  run_bytes wc grid t (pre ++ [27; 91; 99] ++ post) = run_bytes wc grid (reply da1_reply t') post /\
  run_bytes wc grid t (pre ++ [27; 91; 48; 99] ++ post) = run_bytes wc grid (reply da1_reply t') post /\
  run_bytes wc grid t (pre ++ [27; 91; 49; 99] ++ post) = run_bytes wc grid t' post /\
  run_bytes wc grid t (pre ++ [27; 91; 62; 99] ++ post) = run_bytes wc grid (reply da2_reply t') post /\
  run_bytes wc grid t (pre ++ [27; 91; 53; 110] ++ post) = run_bytes wc grid (reply dsr_ok_reply t') post /\
  run_bytes wc grid t (pre ++ [27; 91; 54; 110] ++ post) =
    run_bytes wc grid (reply (cpr_reply (cy (active t') + 1) (cx (active t') + 1)) t') post /\
  run_bytes wc grid t (pre ++ [27; 91; 63; 117] ++ post) =
    run_bytes wc grid (reply (kbd_query_reply (kflags (active_kbd t'))) t') post.
Proof. exact queries_in_stream. Qed.
Print Assumptions C14_queries_in_stream.

(* the replies do not depend on how the stream is cut into reads *)
Theorem C14_out_chunks : forall wc grid t chunks,
  tout (fst (fold_left (hstep wc grid) (map HFeed chunks) (t, []))) =
  tout t ++ replies (trace_bytes wc grid t (concat chunks)).
Proof. exact out_chunks. Qed.
Print Assumptions C14_out_chunks.

(* Resize writes nothing, and over any history output is only ever appended *)
Theorem C14_resize_silent : forall w h t, tout (resize w h t) = tout t.
Proof. exact tout_resize. Qed.
Print Assumptions C14_resize_silent.

Theorem C14_out_grows : forall wc grid ops st,
  exists more, tout (fst (fold_left (hstep wc grid) ops st)) = tout (fst st) ++ more.
Proof. exact out_prefix_hist. Qed.
Print Assumptions C14_out_grows.

(* The cursor report.  In every reachable state (TInv) the reported row and
   column are 1-based positions on the active screen, printed in decimal:
   reading the digits back gives cy+1 and cx+1. *)
Theorem C14_cpr_range : forall t, TInv t ->
  1 <= cy (active t) + 1 <= sH (active t) /\ 1 <= cx (active t) + 1 <= sW (active t).
Proof. exact cpr_range. Qed.
Print Assumptions C14_cpr_range.

Theorem C14_cpr_correct : forall ps t,
  TInv t -> p0 ps 0 = 6 -> sH (active t) < 10 ^ 20 -> sW (active t) < 10 ^ 20 ->
  exists row col,
    tout (exec_tok (TCsi 0 ps 110) t) = tout t ++ [27; 91] ++ row ++ [59] ++ col ++ [82] /\
    Forall (fun d => 48 <= d <= 57) row /\ Forall (fun d => 48 <= d <= 57) col /\
    parse_dec row = cy (active t) + 1 /\ parse_dec col = cx (active t) + 1 /\
    1 <= parse_dec row <= sH (active t) /\ 1 <= parse_dec col <= sW (active t).
Proof. exact cpr_correct. Qed.
Print Assumptions C14_cpr_correct.

(* strconv.Itoa as modelled prints every 0 <= n < 10^20 (so every int64) in
   decimal digits that read back as n *)
Theorem C14_itoa_roundtrip : forall n, 0 <= n < 10 ^ 20 -> parse_dec (itoa n) = n.
Proof. exact itoa_roundtrip. Qed.
Print Assumptions C14_itoa_roundtrip.

Theorem C14_itoa_digits : forall n, 0 <= n -> Forall (fun d => 48 <= d <= 57) (itoa n) /\ itoa n <> [].
Proof. exact itoa_digits. Qed.
Print Assumptions C14_itoa_digits.

(* The individual queries, bytes spelled out.  DA1: only a first parameter of
   0 (or none) is answered; "CSI 1 c" gets no reply. *)
Theorem C14_da1 : forall ps t,
  tout (exec_tok (TCsi 0 ps 99) t) = tout t ++ (if p0 ps 0 =? 0 then [27; 91; 63; 49; 59; 50; 99] else []).
Proof. exact da1_rule. Qed.
Print Assumptions C14_da1.

Theorem C14_da2 : forall ps t,
  tout (exec_tok (TCsi 62 ps 99) t) = tout t ++ [27; 91; 62; 49; 59; 52; 52; 48; 50; 59; 48; 99].
Proof. exact da2_rule. Qed.
Print Assumptions C14_da2.

Theorem C14_dsr : forall ps t, p0 ps 0 = 5 ->
  tout (exec_tok (TCsi 0 ps 110) t) = tout t ++ [27; 91; 48; 110].
Proof. exact dsr_rule. Qed.
Print Assumptions C14_dsr.

(* the Kitty query reports the flags of the screen that is active when it is reached *)
Theorem C14_kitty_query : forall ps t,
  tout (exec_tok (TCsi 63 ps 117) t) =
  tout t ++ [27; 91; 63] ++ itoa (kflags (if onalt t then kba t else kbm t)) ++ [117].
Proof. exact kitty_query_rule. Qed.
Print Assumptions C14_kitty_query.
