(* C10 on the span buffer.  The cell-level theorems of C10.v (every changed cell lies in an announced
   region; a switch announces the whole screen; the last cursor and rendition announced are the values in
   force) are about the glyph-at-a-time cell model.  The span buffer announces a RUN of text once where the
   cell model announces every glyph, so its log is not the same list (C20span_logs_differ) - but it is the
   same SET of cells: coalescing "region [x1,x2) ; cursor ; region [x1',x2')" of one row with x1 <= x1' <= x2
   into "region [x1, max x2 x2')" keeps exactly the cells covered (C10span_coalescing_keeps_cells), so along
   every history on which no known-finding mark fires the span terminal announces exactly the cells the cell
   terminal announces (C10span_hist_announced), and so does one operation from related states with the logs
   cleared before it, which is what the checks observe (C10span_step_announced).  With C10_token (cells outside
   the announced regions are unchanged) and span_simulates_cells (the cells are equal) this is the coverage
   clause of C10 for the span-backed terminal.  Statements only. *)
From Coq Require Import List ZArith Bool.
From Termemu Require Import Base Style Screen Kbd Parser Term Case HistProofs NotifyProofs
  Span SpanScreen TrigMono RunWrite SpanTermProofs SpanHistProofs SCase SCaseProofs.
Import ListNotations.
Open Scope Z_scope.

Theorem C10span_coalescing_keeps_cells : forall a b, log_eq a b -> forall x y, announced a x y <-> announced b x y.
Proof. exact log_eq_announced. Qed.
Print Assumptions C10span_coalescing_keeps_cells.

Theorem C10span_hist_announced : forall wc, wc_multibyte wc -> forall w h ops, 1 <= w -> 1 <= h -> hist_ok ops ->
  tz (fst (run_hist wc false (init_term w h) ops)) ->
  forall x y, announced (slog (fst (fst (s_run_hist wc (s_init_term w h) ops)))) x y
          <-> announced (tlog (fst (run_hist wc false (init_term w h) ops))) x y.
Proof. exact span_hist_announced. Qed.
Print Assumptions C10span_hist_announced.

Theorem C10span_step_announced : forall wc, wc_multibyte wc -> forall st t pend mw o,
  hop_ok o -> STInv wc st -> Rel wc st t ->
  tz (fst (hstep wc false (clear_io t, pend) o)) ->
  forall x y, announced (slog (fst (fst (s_hstep wc (s_clear_io st, pend, mw) o)))) x y
          <-> announced (tlog (fst (hstep wc false (clear_io t, pend) o))) x y.
Proof. exact span_step_announced. Qed.
Print Assumptions C10span_step_announced.
