(* C16 — Backend bytes are consumed once, in order; writes are all-or-error.
   This file contains statements only, each closed by [exact].
   Model: Model/Io.v (GraphemeReader data/start/end with fill, bufio.Reader.Read,
   a scripted backend, the read loop with the terminal as a parameter).
   The loop theorems are about the reader with patches D50 (a zero-length read is
   retried) and D51 (a read error inside an escape sequence ends the loop) applied,
   i.e. zero_eof = false; the as-found behaviour is C16_zero_read_refuted. *)
From Coq Require Import List ZArith Bool.
From Termemu Require Import Base Screen Parser Term Mouse MouseSpec Io TermInv HistProofs MouseProofs IoProofs.
Import ListNotations.
Open Scope Z_scope.

(* ---------- the reader refines a byte queue ---------- *)
(* fill, for every capacity, every start <= end <= cap, every read result that
   fits the space offered (zero-length, data, data+error, error): the pending
   bytes data[start:end] afterwards are the pending bytes before followed by
   exactly the bytes read; compaction and doubling neither lose, duplicate nor
   reorder a byte; 0 <= start <= end <= cap is preserved. *)
Theorem C16_queue : forall cap0, 0 < cap0 -> forall r res,
  rinv r -> zlen (fst res) <= space (prep cap0 r) ->
  pending (fill_with cap0 r res) = pending r ++ fst res /\ rinv (fill_with cap0 r res) /\
  rstart (fill_with cap0 r res) = 0 /\ rend (fill_with cap0 r res) = buffered r + zlen (fst res).
Proof. exact fill_with_queue. Qed.
Print Assumptions C16_queue.

(* the space offered to the source is never empty *)
Theorem C16_queue_space : forall cap0, 0 < cap0 -> forall r, rinv r ->
  rinv (prep cap0 r) /\ pending (prep cap0 r) = pending r /\ 1 <= space (prep cap0 r) /\
  rstart (prep cap0 r) = 0 /\ rend (prep cap0 r) = buffered r.
Proof. exact prep_ok. Qed.
Print Assumptions C16_queue_space.

(* capacity: positive after the first fill; a fill leaves it unchanged or doubles
   it, and doubles it only when the bytes still pending occupy all of it *)
Theorem C16_queue_cap : forall cap0, 0 < cap0 -> forall r res, rinv r ->
  let c := rcap (fill_with cap0 r res) in
  0 < c /\
  (data r = [] -> c = cap0 \/ (buffered r = cap0 /\ c = 2 * cap0)) /\
  (data r <> [] -> c = rcap r \/ (buffered r = rcap r /\ c = 2 * rcap r)).
Proof. exact fill_with_cap. Qed.
Print Assumptions C16_queue_cap.

(* the real fill against a source (scripted backend, directly or through
   bufio.Reader): the same, and the bytes read are the next bytes of the source *)
Theorem C16_queue_fill : forall cap0 bsz, 0 < cap0 -> 1 <= bsz -> forall r src, rinv r ->
  let f := fill cap0 bsz r src in
  let r' := fst (fst (fst f)) in let src' := snd (fst (fst f)) in let res := snd (fst f) in
  pending r' = pending r ++ fst res /\ rinv r' /\ src_rest src = fst res ++ src_rest src' /\
  (is_stop res = true \/ src_measure src' + 1 <= src_measure src) /\
  rstart r' = 0 /\ rend r' = buffered r + zlen (fst res) /\ r' = fill_with cap0 r res.
Proof. exact fill_spec. Qed.
Print Assumptions C16_queue_fill.

(* consuming k buffered bytes (ReadByte, a printable run) takes them from the front *)
Theorem C16_queue_advance : forall r k, rinv r -> 0 <= k <= buffered r ->
  pending (advance r k) = zskipn k (pending r) /\ rinv (advance r k) /\ buffered (advance r k) = buffered r - k.
Proof. exact pending_advance. Qed.
Print Assumptions C16_queue_advance.

(* ---------- the read loop ---------- *)
(* For every consumer that returns a suffix of its input (Term.run_bytes does:
   C16_consumer), every script of read results and every fuel: the bytes
   interpreted so far followed by the bytes still pending (in the parser and in
   the reader) are the bytes pending at the start followed by all bytes
   delivered, and those are a prefix of what the source held. *)
Theorem C16_interpreted : forall cap0 bsz, 0 < cap0 -> 1 <= bsz ->
  forall (St : Type) consume hold ze,
  (forall t inp, exists pre, inp = pre ++ snd (consume t inp)) ->
  forall fuel s o s' tr, read_loop cap0 bsz St consume hold ze fuel s = (o, s', tr) -> rinv (lr St s) ->
  consumed_of tr ++ logical_pending St s' = logical_pending St s ++ delivered_of tr /\
  src_rest (lsrc St s) = delivered_of tr ++ src_rest (lsrc St s') /\
  rinv (lr St s').
Proof. exact read_loop_spec. Qed.
Print Assumptions C16_interpreted.

(* from the initial state with the fuel [loop_fuel]: never out of fuel, and
   interpreted ++ pending = delivered *)
Theorem C16_interpreted_initial : forall cap0 bsz (St : Type) consume hold ze (t : St) src,
  0 < cap0 -> 1 <= bsz -> (forall t inp, exists pre, inp = pre ++ snd (consume t inp)) ->
  let x := read_loop cap0 bsz St consume hold ze (loop_fuel src) (mkL St t [] reader0 src) in
  let o := fst (fst x) in let s' := snd (fst x) in let tr := snd x in
  o <> OutOfFuel /\ o <> Running /\
  consumed_of tr ++ logical_pending St s' = delivered_of tr /\
  src_rest src = delivered_of tr ++ src_rest (lsrc St s') /\
  rinv (lr St s').
Proof. exact read_loop_initial. Qed.
Print Assumptions C16_interpreted_initial.

(* the loop ends on an error exactly at the first read that returns an error and
   no data (data that comes with an error is interpreted and the loop goes on to
   the next read); ending on a zero-length read happens only in the as-found reader *)
Theorem C16_stops : forall cap0 bsz, 0 < cap0 -> 1 <= bsz ->
  forall (St : Type) consume hold ze,
  (forall t inp, exists pre, inp = pre ++ snd (consume t inp)) ->
  forall fuel s o s' tr, read_loop cap0 bsz St consume hold ze fuel s = (o, s', tr) -> rinv (lr St s) ->
  o <> Running /\
  (o = StopErr -> exists tr0 ev, tr = tr0 ++ [ev] /\ is_stop (ev_res ev) = true /\
                   Forall (fun e => is_stop (ev_res e) = false) tr0) /\
  (o = StopZeroRead -> ze = true /\ exists tr0 ev, tr = tr0 ++ [ev] /\ ev_res ev = ([], false)) /\
  (o = OutOfFuel -> Forall (fun e => is_stop (ev_res e) = false) tr).
Proof. exact read_loop_stops. Qed.
Print Assumptions C16_stops.

Theorem C16_fuel : forall cap0 bsz, 0 < cap0 -> 1 <= bsz ->
  forall (St : Type) consume hold ze,
  (forall t inp, exists pre, inp = pre ++ snd (consume t inp)) ->
  forall fuel s o s' tr, read_loop cap0 bsz St consume hold ze fuel s = (o, s', tr) -> rinv (lr St s) ->
  src_measure (lsrc St s) < Z.of_nat fuel -> o <> OutOfFuel.
Proof. exact read_loop_fuel. Qed.
Print Assumptions C16_fuel.

(* when the loop has ended, what is left unconsumed is what the consumer
   returned the last time it ran: nothing it could still interpret *)
Theorem C16_final : forall cap0 bsz, 0 < cap0 -> 1 <= bsz ->
  forall (St : Type) consume hold ze,
  (forall t inp, exists pre, inp = pre ++ snd (consume t inp)) ->
  forall P : St -> list Z -> Prop, (forall t inp, P (fst (consume t inp)) (snd (consume t inp))) ->
  forall fuel s o s' tr, read_loop cap0 bsz St consume hold ze fuel s = (o, s', tr) -> rinv (lr St s) ->
  o = StopErr \/ o = StopZeroRead -> P (lt St s') (logical_pending St s').
Proof. exact read_loop_final. Qed.
Print Assumptions C16_final.

(* Term.run_bytes is such a consumer: it returns a suffix, and it only stops
   when the next token is incomplete (or the model crashed, which C01 excludes):
   the unconsumed rest at EOF is at most one incomplete trailing token *)
Theorem C16_consumer : forall wc grid t inp,
  (exists pre, inp = pre ++ snd (run_bytes wc grid t inp)) /\
  (crashed (fst (run_bytes wc grid t inp)) = true \/ parse_one wc grid (snd (run_bytes wc grid t inp)) = PMore).
Proof. exact run_bytes_consumer. Qed.
Print Assumptions C16_consumer.

(* one loop iteration = one HFeed step of Term.run_hist on the logical pending
   bytes (parser-held ++ reader-held), then the arrival of the bytes just read *)
Theorem C16_iteration_is_hstep : forall cap0 bsz wc grid hold ze s, 0 < cap0 -> 1 <= bsz -> rinv (lr term s) ->
  let x := lstep cap0 bsz term (run_bytes wc grid) hold ze s in
  let st := hstep wc grid (lt term s, logical_pending term s) (HFeed []) in
  lt term (snd (fst x)) = fst st /\
  logical_pending term (snd (fst x)) = snd st ++ fst (ev_res (snd x)).
Proof. exact term_lstep_is_hstep. Qed.
Print Assumptions C16_iteration_is_hstep.

(* the reader as found (before patch D50): a zero-length read while half a
   character is buffered ends the loop although no read reported an error;
   three bytes are never read *)
Theorem C16_zero_read_refuted :
  let '(o, s', tr) := d50_run true in
  o = StopZeroRead /\ Forall (fun e => snd e = false) d50_script /\
  src_rest (lsrc term s') = [173; 99; 100] /\ consumed_of tr = [97; 98] /\ logical_pending term s' = [228; 184].
Proof. exact zero_read_as_found. Qed.
Print Assumptions C16_zero_read_refuted.
Theorem C16_zero_read_repaired :
  let '(o, s', tr) := d50_run false in
  o = StopErr /\ src_rest (lsrc term s') = [] /\
  consumed_of tr = script_bytes d50_script /\ logical_pending term s' = [] /\
  map ev_cap tr = [8; 8; 8; 8] /\ asked_of tr = [8; 6; 6; 8].
Proof. exact zero_read_repaired. Qed.
Print Assumptions C16_zero_read_repaired.

(* ---------- Terminal.Write ---------- *)
(* the backend receives a prefix of the slice: no byte twice, none out of order *)
Theorem C16_write_prefix : forall s b, exists suf, b = fst (write_loop b s) ++ suf.
Proof. exact write_loop_prefix. Qed.
Print Assumptions C16_write_prefix.
(* nil returned: the whole slice was delivered, whatever the short writes *)
Theorem C16_write_ok : forall s b, snd (write_loop b s) = false -> fst (write_loop b s) = b.
Proof. exact write_loop_ok. Qed.
Print Assumptions C16_write_ok.
(* an error is returned iff the backend fails, or takes nothing, before all bytes are delivered *)
Theorem C16_write_err_iff : forall s b, snd (write_loop b s) = true <-> stops_early (zlen b) s.
Proof. exact write_loop_err_iff. Qed.
Print Assumptions C16_write_err_iff.
(* the count returned is the number of bytes the backend took: between 0 and len, len when nil *)
Theorem C16_write_count : forall s b, 0 <= write_count b s <= zlen b.
Proof. exact write_count_le. Qed.
Print Assumptions C16_write_count.
Theorem C16_write_count_all : forall s b, snd (write_loop b s) = false -> write_count b s = zlen b.
Proof. exact write_count_all. Qed.
Print Assumptions C16_write_count_all.
(* error kind: 0 nil, 1 the backend's error, 2 io.ErrShortWrite; 0 iff no error *)
Theorem C16_write_status : forall s b, (write_status b s = 0 <-> snd (write_loop b s) = false) /\
  (write_status b s = 0 \/ write_status b s = 1 \/ write_status b s = 2).
Proof. exact write_status_err. Qed.
Print Assumptions C16_write_status.

(* ---------- TeeBackend ---------- *)
(* Read returns what the backend returned; the tee has received exactly the
   bytes returned, in order *)
Theorem C16_tee : forall rs tee,
  fst (tee_run rs tee) = rs /\ snd (tee_run rs tee) = tee ++ concat (map fst rs).
Proof. exact tee_run_spec. Qed.
Print Assumptions C16_tee.
(* nothing is written to the tee on n = 0 *)
Theorem C16_tee_zero : forall res tee, fst res = [] -> tee_read res tee = (res, tee).
Proof. exact tee_read_zero. Qed.
Print Assumptions C16_tee_zero.

(* ---------- Resize ---------- *)
(* the backend receives exactly (w, h), once, and the terminal it could observe
   at that moment is Term.resize w h t: both buffers are w x h *)
Theorem C16_resize_forward : forall w h t calls, TInv t -> 1 <= w -> 1 <= h ->
  let x := resize_forward w h t calls in
  snd x = calls ++ [(w, h)] /\ fst x = resize w h t /\
  sW (tmain (fst x)) = w /\ sH (tmain (fst x)) = h /\ sW (talt (fst x)) = w /\ sH (talt (fst x)) = h /\
  TInv (fst x).
Proof. exact resize_forward_spec. Qed.
Print Assumptions C16_resize_forward.

(* ---------- PTY winsize ---------- *)
Theorem C16_pty_winsize : forall w h, 0 <= w <= 65535 -> 0 <= h <= 65535 ->
  ws_rows (pty_winsize w h) = h /\ ws_cols (pty_winsize w h) = w.
Proof. exact pty_winsize_exact. Qed.
Print Assumptions C16_pty_winsize.
(* beyond 65535 (and below 0) the uint16 conversion truncates mod 65536 *)
Theorem C16_pty_winsize_trunc : forall w h,
  ws_rows (pty_winsize w h) = h mod 65536 /\ ws_cols (pty_winsize w h) = w mod 65536 /\
  0 <= ws_rows (pty_winsize w h) < 65536 /\ 0 <= ws_cols (pty_winsize w h) < 65536.
Proof. exact pty_winsize_trunc. Qed.
Print Assumptions C16_pty_winsize_trunc.

(* SetTee while a read is in progress (the loop's idle state): the bytes a read returns go to the tee installed
   when the read returns - each tee receives exactly the data of the reads it was in force at, in order *)
Theorem C16_tee_switch : forall rs cur a b,
  tee_sw_run rs cur a b = (a ++ tee_gets 1 (tee_in_force rs cur), b ++ tee_gets 2 (tee_in_force rs cur)).
Proof. exact tee_sw_run_spec. Qed.
Print Assumptions C16_tee_switch.
