(* C15 -- Frontend callbacks run under the terminal lock; the documented API is
   used under a consistent lock discipline (guarded state only under its mutex,
   one acquisition order, no blocking read under the terminal lock outside the
   recorded exceptions).  Statements only, each closed by [exact].

   What is machine-checked here is the LOCK DISCIPLINE of the event trees that
   tools/gen_callgraph extracts from the Go sources (Gen/Gen_CallGraph*.v).
   The translator, the Go memory model and sync.Mutex are trusted; see
   REPORT.md. *)
From Coq Require Import List Bool Arith String.
From Termemu Require Import Conc ConcSpec ConcRefute ConcProofs ConcRefuteProofs ConcTreeProofs.
Import ListNotations.
Open Scope string_scope.

(* ---- the checker is sound (any program, any entry list) ---- *)

Theorem C15_checker_sound : forall p exc_spec entry_spec,
  check p exc_spec entry_spec = true ->
  exists exc entries,
    resolve_pairs (p_names p) exc_spec = Some exc /\
    resolve_entries (p_names p) entry_spec = Some entries /\
    check_ids (p_cg p) exc entries = true /\
    forall name h, In (name, h) entry_spec ->
      exists f body,
        resolve (p_names p) name = Some f /\ In (f, h) entries /\ nth_error (p_cg p) f = Some body /\
        forall tr r, exec_frame (p_cg p) [f] h body tr r ->
          Forall (safe_obs exc entries) tr /\ consistent h tr /\ (forall h2, r = Some h2 -> h2 = h).
Proof. exact checker_sound. Qed.
Print Assumptions C15_checker_sound.

(* (i) every Frontend callback happens with the terminal lock held *)
Theorem C15_i_callbacks_under_lock : forall p exc_spec entry_spec,
  check p exc_spec entry_spec = true ->
  forall name h f body tr r o n,
  In (name, h) entry_spec -> resolve (p_names p) name = Some f -> nth_error (p_cg p) f = Some body ->
  exec_frame (p_cg p) [f] h body tr r -> In o tr -> o_act o = ACb n ->
  holds (o_held o) MTerm = true.
Proof. exact callbacks_under_lock. Qed.
Print Assumptions C15_i_callbacks_under_lock.

(* (ii) every access to guarded state happens with its mutex held *)
Theorem C15_ii_accesses_guarded : forall p exc_spec entry_spec,
  check p exc_spec entry_spec = true ->
  forall name h f body tr r o g fld w,
  In (name, h) entry_spec -> resolve (p_names p) name = Some f -> nth_error (p_cg p) f = Some body ->
  exec_frame (p_cg p) [f] h body tr r -> In o tr -> o_act o = AAccess g fld w ->
  holds (o_held o) g = true.
Proof. exact accesses_guarded. Qed.
Print Assumptions C15_ii_accesses_guarded.

(* (iii) no mutex is acquired while already held, and acquisitions follow the
   order MTerm < MTty < MTee *)
Theorem C15_iii_acquisitions_ordered : forall p exc_spec entry_spec,
  check p exc_spec entry_spec = true ->
  forall name h f body tr r o m,
  In (name, h) entry_spec -> resolve (p_names p) name = Some f -> nth_error (p_cg p) f = Some body ->
  exec_frame (p_cg p) [f] h body tr r -> In o tr -> o_act o = ALock m ->
  holds (o_held o) m = false /\ (forall m', holds (o_held o) m' = true -> mrank m' < mrank m).
Proof. exact acquisitions_ordered. Qed.
Print Assumptions C15_iii_acquisitions_ordered.

(* (iv) no potentially blocking read with the terminal lock held, except below
   an excepted call edge *)
Theorem C15_iv_no_block_under_lock : forall p exc_spec entry_spec,
  check p exc_spec entry_spec = true ->
  forall name h f body tr r o w,
  In (name, h) entry_spec -> resolve (p_names p) name = Some f -> nth_error (p_cg p) f = Some body ->
  exec_frame (p_cg p) [f] h body tr r -> In o tr -> o_act o = ABlock w ->
  exists exc, resolve_pairs (p_names p) exc_spec = Some exc /\
              (holds (o_held o) MTerm = false \/ stk_excepted exc (o_stk o) = true).
Proof. exact no_block_under_lock. Qed.
Print Assumptions C15_iv_no_block_under_lock.

(* no Unsupported shape and no unknown function is reachable from an entry *)
Theorem C15_no_unsupported_reached : forall p exc_spec entry_spec,
  check p exc_spec entry_spec = true ->
  forall name h f body tr r o msg,
  In (name, h) entry_spec -> resolve (p_names p) name = Some f -> nth_error (p_cg p) f = Some body ->
  exec_frame (p_cg p) [f] h body tr r -> In o tr -> o_act o <> ABad msg.
Proof. exact no_unsupported_reached. Qed.
Print Assumptions C15_no_unsupported_reached.

(* (v) an entry that returns holds exactly what it held when entered *)
Theorem C15_v_entries_balanced : forall p exc_spec entry_spec,
  check p exc_spec entry_spec = true ->
  forall name h f body tr h2,
  In (name, h) entry_spec -> resolve (p_names p) name = Some f -> nth_error (p_cg p) f = Some body ->
  exec_frame (p_cg p) [f] h body tr (Some h2) -> h2 = h.
Proof. exact entries_balanced. Qed.
Print Assumptions C15_v_entries_balanced.

(* ---- interleavings of any number of threads that run checked entries ---- *)

(* a thread at an access guarded by g holds g and no other thread holds g *)
Theorem C15_access_exclusive : forall cg exc entries,
  check_ids cg exc entries = true ->
  forall s0 s, ginit s0 -> runs_entries cg entries s0 -> greach s0 s ->
  forall i o rest g fld w,
  t_todo (s i) = o :: rest -> o_act o = AAccess g fld w ->
  holds (cur_held (s i)) g = true /\ forall j, j <> i -> holds (cur_held (s j)) g = false.
Proof. exact interleaved_access_exclusive. Qed.
Print Assumptions C15_access_exclusive.

(* two different threads are never both at accesses guarded by the same mutex *)
Theorem C15_mutual_exclusion : forall cg exc entries,
  check_ids cg exc entries = true ->
  forall s0 s, ginit s0 -> runs_entries cg entries s0 -> greach s0 s ->
  forall i j oi resti oj restj g f1 w1 f2 w2,
  i <> j ->
  t_todo (s i) = oi :: resti -> o_act oi = AAccess g f1 w1 ->
  t_todo (s j) = oj :: restj -> o_act oj = AAccess g f2 w2 ->
  False.
Proof. exact interleaved_mutual_exclusion. Qed.
Print Assumptions C15_mutual_exclusion.

(* a callback runs while its thread, and no other thread, holds the terminal lock *)
Theorem C15_callback_exclusive : forall cg exc entries,
  check_ids cg exc entries = true ->
  forall s0 s, ginit s0 -> runs_entries cg entries s0 -> greach s0 s ->
  forall i o rest n,
  t_todo (s i) = o :: rest -> o_act o = ACb n ->
  holds (cur_held (s i)) MTerm = true /\ forall j, j <> i -> holds (cur_held (s j)) MTerm = false.
Proof. exact interleaved_callback_exclusive. Qed.
Print Assumptions C15_callback_exclusive.

(* there is never a cycle of threads each waiting for a mutex held by the next *)
Theorem C15_no_wait_cycle : forall cg exc entries,
  check_ids cg exc entries = true ->
  forall s0 s, runs_entries cg entries s0 -> greach s0 s ->
  forall i, ~ wait_chain s i i.
Proof. exact interleaved_no_wait_cycle. Qed.
Print Assumptions C15_no_wait_cycle.

(* a thread parked at a blocking read does not hold the terminal lock, unless
   it is below an excepted call edge *)
Theorem C15_block_releases_lock : forall cg exc entries,
  check_ids cg exc entries = true ->
  forall s0 s, runs_entries cg entries s0 -> greach s0 s ->
  forall i o rest w,
  t_todo (s i) = o :: rest -> o_act o = ABlock w ->
  holds (cur_held (s i)) MTerm = false \/ stk_excepted exc (o_stk o) = true.
Proof. exact interleaved_block_releases_lock. Qed.
Print Assumptions C15_block_releases_lock.

(* ---- the generated trees ---- *)

(* The tree with the D43 and D29 repairs, extended with the most general
   client thread, passes with the exceptions
   [ptyReadOne/handleCommand; debugPrintln/debugPause; debugPrintf/debugPause]. *)
Theorem C15_tree : check repaired c15_exceptions c15_entries = true.
Proof. exact tree_ok. Qed.
Print Assumptions C15_tree.

(* D38 (recorded finding): without the ptyReadOne/handleCommand exception the
   check fails; every finding lies below that call edge, among them the
   backend read in GraphemeReader.fill with MTerm held. *)
Theorem C15_D38_refuted : check repaired exc_debug c15_entries = false.
Proof. exact D38_needed. Qed.
Print Assumptions C15_D38_refuted.

Theorem C15_D38_explained :
  all_through "terminal.ptyReadOne{}" "terminal.handleCommand{MTerm }"
              (check_explain repaired exc_debug c15_entries) = true
  /\ has_path path_D38 (check_explain repaired exc_debug c15_entries) = true.
Proof. exact D38_explained. Qed.
Print Assumptions C15_D38_explained.

(* New finding: debugPause reads os.Stdin under the terminal lock (only with
   the -debugWait flag).  Without its exception the check fails, with exactly
   this finding. *)
Theorem C15_debugPause_refuted : check repaired exc_D38 c15_entries = false.
Proof. exact debugPause_needed. Qed.
Print Assumptions C15_debugPause_refuted.

Theorem C15_debugPause_explained :
  check_explain repaired exc_D38 c15_entries = Some [finding_debugPause].
Proof. exact debugPause_explained. Qed.
Print Assumptions C15_debugPause_explained.

(* /repo HEAD fails; the findings are exactly D29 (Attach) and D43 (ptyReadOne). *)
Theorem C15_head_refuted : check head c15_exceptions c15_entries = false.
Proof. exact head_fails. Qed.
Print Assumptions C15_head_refuted.

Theorem C15_head_explained :
  check_explain head c15_exceptions c15_entries = Some (finding_D29 :: findings_D43).
Proof. exact head_explained. Qed.
Print Assumptions C15_head_explained.

Theorem C15_D29_refuted :
  check head c15_exceptions [("TTYFrontend.Attach", N)] = false
  /\ check_explain head c15_exceptions [("TTYFrontend.Attach", N)] = Some [finding_D29].
Proof. exact D29_before. Qed.
Print Assumptions C15_D29_refuted.

Theorem C15_D29_repaired : check repaired c15_exceptions [("TTYFrontend.Attach", N)] = true.
Proof. exact D29_after. Qed.
Print Assumptions C15_D29_repaired.

Theorem C15_D43_refuted :
  check head c15_exceptions [("terminal.ptyReadLoop", N)] = false
  /\ check_explain head c15_exceptions [("terminal.ptyReadLoop", N)] = Some findings_D43.
Proof. exact D43_before. Qed.
Print Assumptions C15_D43_refuted.

Theorem C15_D43_repaired : check repaired c15_exceptions [("terminal.ptyReadLoop", N)] = true.
Proof. exact D43_after. Qed.
Print Assumptions C15_D43_repaired.

(* ---- refutations in the semantics (not only "the checker says false") ---- *)

(* [refuted p exceptions entries name h]: some execution of entry [name] started
   with [h] held has an unsafe observation.  [refute] searches for one. *)
Theorem C15_refute_sound : forall fuel p exc_spec entry_spec name h tr,
  refute fuel p exc_spec entry_spec name h = Some tr ->
  refuted p exc_spec entry_spec name h.
Proof. exact refute_sound. Qed.
Print Assumptions C15_refute_sound.

(* D29 on HEAD: Attach reaches "Lock MTerm" while holding MTty. *)
Theorem C15_D29_semantic : refuted head c15_exceptions c15_entries "TTYFrontend.Attach" N.
Proof. exact D29_semantic. Qed.
Print Assumptions C15_D29_semantic.

Theorem C15_D29_witness :
  witness 2000 head c15_exceptions c15_entries "TTYFrontend.Attach" N
  = Some (["TTYFrontend.Attach"], only MTty, ALock MTerm).
Proof. exact D29_witness. Qed.
Print Assumptions C15_D29_witness.

(* D43 on HEAD: the read loop reads terminal.onAltScreen holding nothing. *)
Theorem C15_D43_semantic : refuted head c15_exceptions c15_entries "terminal.ptyReadLoop" N.
Proof. exact D43_semantic. Qed.
Print Assumptions C15_D43_semantic.

Theorem C15_D43_witness :
  witness 2000 head c15_exceptions c15_entries "terminal.ptyReadLoop" N
  = Some (["terminal.ptyReadLoop"; "terminal.ptyReadOne"; "terminal.screen"], no_locks,
          AAccess MTerm "terminal.onAltScreen" false).
Proof. exact D43_witness. Qed.
Print Assumptions C15_D43_witness.

(* D38 (repaired tree, without its exception): handleCommand blocks in ReadByte
   with MTerm held. *)
Theorem C15_D38_semantic : refuted repaired exc_debug c15_entries "terminal.ptyReadLoop" N.
Proof. exact D38_semantic. Qed.
Print Assumptions C15_D38_semantic.

Theorem C15_D38_witness :
  witness 2000 repaired exc_debug c15_entries "terminal.ptyReadLoop" N
  = Some (["terminal.ptyReadLoop"; "terminal.ptyReadOne"; "terminal.handleCommand"], only MTerm,
          ABlock "termemu.escapeReader.ReadByte").
Proof. exact D38_witness. Qed.
Print Assumptions C15_D38_witness.

(* debugPause (repaired tree, without its exception). *)
Theorem C15_debugPause_semantic : refuted repaired exc_D38 c15_entries "terminal.ptyReadLoop" N.
Proof. exact debugPause_semantic. Qed.
Print Assumptions C15_debugPause_semantic.

Theorem C15_debugPause_witness :
  witness 2000 repaired exc_D38 c15_entries "terminal.ptyReadLoop" N
  = Some (["terminal.ptyReadLoop"; "terminal.ptyReadOne"; "spanScreen.writeString"; "spanScreen.writeRun";
           "spanScreen.moveCursor"; "spanScreen.scroll"; "debugPrintln"; "debugPause"], only MTerm,
          ABlock "(*os.File).Read").
Proof. exact debugPause_witness. Qed.
Print Assumptions C15_debugPause_witness.
