(* C03 in grapheme mode: what the two kinds of text token do.  A token that is not a merge is the
   glyph write of C03.v at the width the reader measured for the cluster; a merge token (a mark, joiner,
   selector, second regional indicator or zero-width cluster arriving apart from its base) appends its
   text to the character left of the cursor and changes nothing else.  Statements only. *)
From Coq Require Import List ZArith Bool.
From Termemu Require Import Base Style Screen Parser Term ScreenInv TermInv GlyphInv
  Uniseg Grapheme GTerm GTermProofs.
Import ListNotations.
Open Scope Z_scope.

Theorem C03_grapheme_text_token : forall txt r w t,
  gexec (GT (TGlyph txt r w)) t =
  on_screen (fun s => write_glyph txt (glyph_width w)
     (if (r =? runeError) && negb (list_eqb Z.eqb txt utf8_replacement) then add_trig trInvalidUtf8 s else s)) t.
Proof. exact gexec_text. Qed.
Print Assumptions C03_grapheme_text_token.

Theorem C03_merge_cells : forall txt s, Inv s -> 0 < cx s ->
  let y := cy s in
  let b := glyph_start (row_at s y) (cx s - 1) in
  let c := cell_at s b y in
  0 <= b < cx s /\
  cell_at (merge_prev txt s) b y = mkCell (ctext c ++ txt) (cwid c) (cst c) /\
  (forall x y', (x <> b \/ y' <> y) -> cell_at (merge_prev txt s) x y' = cell_at s x y').
Proof. exact merge_prev_cells. Qed.
Print Assumptions C03_merge_cells.

Theorem C03_merge_frame : forall txt s,
  cx (merge_prev txt s) = cx s /\ cy (merge_prev txt s) = cy s /\ sW (merge_prev txt s) = sW s /\
  sH (merge_prev txt s) = sH s /\ svx (merge_prev txt s) = svx s /\ svy (merge_prev txt s) = svy s /\
  top (merge_prev txt s) = top s /\ bot (merge_prev txt s) = bot s /\ awrap (merge_prev txt s) = awrap s /\
  sty (merge_prev txt s) = sty s /\ crash (merge_prev txt s) = crash s /\ trig (merge_prev txt s) = trig s.
Proof. exact merge_prev_frame. Qed.
Print Assumptions C03_merge_frame.

(* the glyph structure survives a merge: no half character *)
Theorem C03_merge_no_half : forall txt, Pres2 (merge_prev txt).
Proof. exact Pres2_merge_prev. Qed.
Print Assumptions C03_merge_no_half.
