(* C04 — Cursor-motion controls move exactly as specified and never alter content.
   Statements only.  [same_but_cursor s s'] says rows, size, saved cursor, margins,
   autowrap, style are all unchanged. *)
From Coq Require Import List ZArith Bool.
From Termemu Require Import Base Style Screen Parser Term ScreenInv TermInv CursorProofs.
Import ListNotations.
Open Scope Z_scope.

(* Which screen operation each control performs on the ACTIVE buffer (omitted
   parameters default to 1 through p0/p1): BS, HT, CR, LF, FF, IND, RI, CUU, CUD,
   CUF, CUB, CHA, VPA, CUP, HVP, save, restore. *)
Theorem C04_dispatch : forall ps t,
  exec_c0 8 t = on_screen (move_cursor (-1) 0 false false) t /\
  exec_c0 9 t = on_screen (fun s => set_cursor_pos ((cx s / 8 + 1) * 8) (cy s) s) t /\
  exec_c0 13 t = on_screen (fun s => move_cursor (- cx s) 0 true true s) t /\
  exec_c0 10 t = on_screen (fun s => move_cursor 0 1 true true (set_cursor_pos 0 (cy s) s)) t /\
  exec_c0 12 t = on_screen (move_cursor 0 1 false true) t /\
  exec_esc 68 t = on_screen (move_cursor 0 1 false true) t /\
  exec_esc 77 t = on_screen (move_cursor 0 (-1) false true) t /\
  exec_csi 0 ps 65 t = on_screen (move_cursor 0 (- p0 ps 1) false false) t /\
  exec_csi 0 ps 66 t = on_screen (move_cursor 0 (p0 ps 1) false false) t /\
  exec_csi 0 ps 67 t = on_screen (move_cursor (p0 ps 1) 0 false false) t /\
  exec_csi 0 ps 68 t = on_screen (move_cursor (- p0 ps 1) 0 false false) t /\
  exec_csi 0 ps 71 t = on_screen (fun s => set_cursor_pos (p0 ps 1 - 1) (cy s) s) t /\
  exec_csi 0 ps 100 t = on_screen (fun s => set_cursor_pos (cx s) (p0 ps 1 - 1) s) t /\
  exec_csi 0 ps 72 t = on_screen (set_cursor_pos (p1 ps 1 - 1) (p0 ps 1 - 1)) t /\
  exec_csi 0 ps 102 t = on_screen (set_cursor_pos (p1 ps 1 - 1) (p0 ps 1 - 1)) t /\
  exec_csi 0 ps 115 t = on_screen save_cursor t /\
  exec_csi 0 ps 117 t = on_screen restore_cursor t.
Proof. exact c04_dispatch. Qed.
Print Assumptions C04_dispatch.

(* an operation on the active buffer leaves the other buffer, the mode registers,
   the keyboard state and the reply channel alone *)
Theorem C04_other_state : forall f t,
  inactive (on_screen f t) = inactive t /\ onalt (on_screen f t) = onalt t /\ vflags (on_screen f t) = vflags t /\
  vints (on_screen f t) = vints t /\ vstrs (on_screen f t) = vstrs t /\ kbm (on_screen f t) = kbm t /\
  kba (on_screen f t) = kba t /\ tout (on_screen f t) = tout t.
Proof. exact on_screen_frame. Qed.
Print Assumptions C04_other_state.

(* CUU/CUD/CUF/CUB/BS: target = current +- n, clamped to the screen; any n (0, huge, ...) *)
Theorem C04_relative : forall dx dy s,
  let s' := move_cursor dx dy false false s in
  cx s' = clamp (cx s + dx) 0 (sW s - 1) /\ cy s' = clamp (cy s + dy) 0 (sH s - 1) /\ same_but_cursor s s'.
Proof. exact move_plain. Qed.
Print Assumptions C04_relative.

(* CHA/VPA/CUP/HVP: absolute target, clamped to the screen *)
Theorem C04_absolute : forall x y s,
  let s' := set_cursor_pos x y s in
  cx s' = clamp x 0 (sW s - 1) /\ cy s' = clamp y 0 (sH s - 1) /\ same_but_cursor s s'.
Proof. exact set_cursor_pos_spec. Qed.
Print Assumptions C04_absolute.

Theorem C04_cr : forall s, Inv s ->
  let s' := move_cursor (- cx s) 0 true true s in
  cx s' = 0 /\ cy s' = cy s /\ same_but_cursor s s'.
Proof. exact cr_spec. Qed.
Print Assumptions C04_cr.

Theorem C04_ht : forall s, Inv s ->
  let s' := set_cursor_pos ((cx s / 8 + 1) * 8) (cy s) s in
  cx s' = Z.min (sW s - 1) (8 * (cx s / 8 + 1)) /\ cy s' = cy s /\ same_but_cursor s s'.
Proof. exact ht_spec. Qed.
Print Assumptions C04_ht.

(* IND / FF: content changes only when the cursor is inside the scroll region on
   its bottom row, and then exactly by scrolling that region up by one; otherwise
   the cursor moves down one row, clamped to the screen, and nothing else changes *)
Theorem C04_index_down : forall s, Inv s ->
  let s' := move_cursor 0 1 false true s in
  cx s' = cx s /\
  (at_bottom_edge s = true ->
     cy s' = cy s /\ rows s' = rows (scroll (top s) (bot s) (-1) s) /\ top s' = top s /\ bot s' = bot s) /\
  (at_bottom_edge s = false ->
     cy s' = Z.min (cy s + 1) (sH s - 1) /\ same_but_cursor s s').
Proof. exact index_down_spec. Qed.
Print Assumptions C04_index_down.

Theorem C04_index_up : forall s, Inv s ->
  let s' := move_cursor 0 (-1) false true s in
  cx s' = cx s /\
  (at_top_edge s = true ->
     cy s' = cy s /\ rows s' = rows (scroll (top s) (bot s) 1 s) /\ top s' = top s /\ bot s' = bot s) /\
  (at_top_edge s = false ->
     cy s' = Z.max (cy s - 1) 0 /\ same_but_cursor s s').
Proof. exact index_up_spec. Qed.
Print Assumptions C04_index_up.

(* LF: as IND, and the cursor returns to column 0 (this emulator's LF is a next-line;
   the pinned tests depend on it) *)
Theorem C04_lf : forall s, Inv s ->
  let s0 := set_cursor_pos 0 (cy s) s in
  let s' := move_cursor 0 1 true true s0 in
  cx s' = 0 /\
  (at_bottom_edge s = true ->
     cy s' = cy s /\ rows s' = rows (scroll (top s) (bot s) (-1) s) /\ top s' = top s /\ bot s' = bot s) /\
  (at_bottom_edge s = false ->
     cy s' = Z.min (cy s + 1) (sH s - 1) /\ same_but_cursor s s').
Proof. exact lf_spec. Qed.
Print Assumptions C04_lf.

Theorem C04_save_restore : forall s,
  svx (save_cursor s) = cx s /\ svy (save_cursor s) = cy s /\ rows (save_cursor s) = rows s /\
  cx (save_cursor s) = cx s /\ cy (save_cursor s) = cy s /\
  cx (restore_cursor s) = svx s /\ cy (restore_cursor s) = svy s /\ same_but_cursor s (restore_cursor s).
Proof. exact save_restore_spec. Qed.
Print Assumptions C04_save_restore.
