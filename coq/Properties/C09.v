(* C09 — Control sequences are consumed whole; unknown ones are ignored
   without residue; OSC 0/2/6/7 deliver exactly their payload.
   Statements only; proofs and the grammar predicates are in Proofs/GrammarProofs.v.

   Grammar (s is what follows the ESC byte 27; byte classes of ECMA-48:
   parameter 0x30-0x3F, intermediate 0x20-0x2F, final 0x40-0x7E):
     wf_esc s : s = I ++ [F], I intermediates, F in 0x30..0x7E;
                if I = [] then F is not '[' ']' 'P';
                if I starts with ( ) * + then I is that one byte            (deviation 2)
     wf_csi b : s = '[' :: b, b = P ++ I ++ [F], P parameters, I intermediates, F final,
                not (P is [<=>?]? (digit|;)* and I starts with '%')         (deviation 1)
     wf_osc s : s = ']' body term,  term = BEL | 0x9C | ESC \, any body that has
                no BEL, no 0x9C, no "ESC \"                                 (deviation 3)
     wf_dcs s : s = 'P' payload term, term = 0x9C | ESC \, payload has no 0x9C, no "ESC \"
   Deviations of the tokenizer from the full grammar, each with a witness below:
     1. '%' directly after plain parameters is taken as the CSI final byte
        ("CSI %" is pinned by a Go test), so "CSI % G" leaves 'G' as text;
     2. "ESC ( I F" with a second intermediate: only three bytes are taken;
     3. 0x9C ends an OSC / DCS string even inside a UTF-8 character of the payload;
     4. a control byte inside CSI parameters is taken as the final byte;
     5. (repaired, D60: every OSC body is now skipped to its terminator)
     6. SOS / PM / APC (ESC X, ESC ^, ESC _) are two-byte escapes, their body is text. *)
From Coq Require Import List ZArith Bool.
From Termemu Require Import Base Style Screen Kbd Parser Term BaseLemmas ParserProofs ParserMono
  HistProofs SegProofs ReplyProofs GrammarProofs.
Import ListNotations.
Open Scope Z_scope.

(* A well-formed sequence is one token k, the same whatever bytes follow, the
   following bytes are handed back untouched, and k is never text: none of the
   sequence's bytes can reach the screen. *)
Theorem C09_consumed : forall wc grid s, wf_seq s ->
  exists k, (forall txt r w, k <> TGlyph txt r w) /\
    forall post, parse_one wc grid (27 :: s ++ post) = PTok k post.
Proof. exact seq_consumed. Qed.
Print Assumptions C09_consumed.

(* Nothing is emitted or executed before the last byte of the sequence is there. *)
Theorem C09_blocks_until_complete : forall wc grid s n, wf_seq s -> (n <= length s)%nat ->
  parse_one wc grid (firstn n (27 :: s)) = PMore.
Proof. exact seq_blocks_until_complete. Qed.
Print Assumptions C09_blocks_until_complete.

(* In a stream: when [pre] ends on a token boundary, pre ++ ESC s ++ post is
   processed as the tokens of pre, then exactly one non-text token, then post. *)
Theorem C09_in_stream : forall wc grid t pre s post, wf_seq s ->
  let r := run_bytes wc grid t pre in
  snd r = [] -> crashed (fst r) = false ->
  exists k, (forall txt ru w, k <> TGlyph txt ru w) /\
    (forall post', parse_one wc grid (27 :: s ++ post') = PTok k post') /\
    run_bytes wc grid t (pre ++ 27 :: s ++ post) = run_bytes wc grid (exec_tok k (fst r)) post.
Proof. exact seq_in_stream. Qed.
Print Assumptions C09_in_stream.

(* The same for the token stream alone ([tokens] = the complete tokens of a
   byte string, [leftover] = the incomplete tail; ReplyProofs.v): the tokens of
   pre, then one non-text token for the sequence, then the tokens of post. *)
Theorem C09_tokens : forall wc grid pre s post, wf_seq s -> leftover wc grid pre = [] ->
  exists k, (forall txt ru w, k <> TGlyph txt ru w) /\
    tokens wc grid (pre ++ 27 :: s ++ post) = tokens wc grid pre ++ k :: tokens wc grid post /\
    leftover wc grid (pre ++ 27 :: s ++ post) = leftover wc grid post.
Proof. exact seq_tokens. Qed.
Print Assumptions C09_tokens.

(* the token of each kind *)
Theorem C09_csi_token : forall body post, wf_csi body ->
  exists k, parse_csi (body ++ post) = PTok k post /\
    (k = TIgnore \/ exists prefix ps f, k = TCsi prefix ps f).
Proof. exact csi_consumed. Qed.
Print Assumptions C09_csi_token.

(* a plain CSI (optional private marker, digits and ';', final byte) is the
   command F with exactly the decimal parameters written: fields split at ';',
   empty field = 0, values saturate at 65535, at most 32 are kept *)
Theorem C09_csi_simple_token : forall pfx D F post,
  pfx = [] \/ (exists b, pfx = [b] /\ is_private b = true) ->
  forallb is_digsemi D = true -> is_final F = true ->
  parse_csi (pfx ++ D ++ F :: post) = PTok (TCsi (hd 0 pfx) (csi_params D) F) post.
Proof. exact csi_simple_token. Qed.
Print Assumptions C09_csi_simple_token.

Theorem C09_esc_token : forall s post, wf_esc s ->
  exists k, parse_esc (s ++ post) = PTok k post /\ (k = TIgnore \/ exists b, k = TEsc b).
Proof. exact esc_consumed. Qed.
Print Assumptions C09_esc_token.

(* OSC: the token carries the number and exactly the bytes between ';' and the terminator *)
Theorem C09_osc_token : forall digits payload term post,
  forallb is_digit digits = true -> osc_clean 0 payload = true -> osc_term term ->
  parse_osc (digits ++ 59 :: payload ++ term ++ post) = PTok (TOsc (osc_num digits 0) payload) post.
Proof. exact osc_consumed. Qed.
Print Assumptions C09_osc_token.

(* ---- unknown sequences ---- *)
(* [recognised k] (GrammarProofs.v) lists what the emulator implements:
     C0: BEL BS HT LF FF CR DEL;  ESC D M = >;
     CSI A B C D G c d f H m s u K J L M S T P X r n;
     CSI ? u;  CSI ? h / CSI ? l with at least one of the modes
       1 7 9 12 25 1000 1002 1003 1004 1005 1006 1015 1049 2004;
     CSI > c, CSI > m, CSI > u, CSI < u, CSI = u;  OSC 0 2 6 7.
   Every other token leaves the whole terminal state (screens, modes, keyboard
   state, reply bytes, callback log) literally unchanged. *)
Theorem C09_unknown_id : forall k t, recognised k = false -> exec_tok k t = t.
Proof. exact unknown_id. Qed.
Print Assumptions C09_unknown_id.

(* recognised commands whose parameter selects nothing: EL / ED with a
   parameter other than 0 1 2, DSR other than 5 6, DA1 with a non-zero
   parameter, CSI > m without a "4" resource *)
Theorem C09_noop_params : forall ps t,
  (p0 ps 0 <> 0 -> p0 ps 0 <> 1 -> p0 ps 0 <> 2 -> exec_tok (TCsi 0 ps 75) t = t /\ exec_tok (TCsi 0 ps 74) t = t) /\
  (p0 ps 0 <> 5 -> p0 ps 0 <> 6 -> exec_tok (TCsi 0 ps 110) t = t) /\
  (p0 ps 0 <> 0 -> exec_tok (TCsi 0 ps 99) t = t) /\
  (mok_scan ps (-1) < 0 -> exec_tok (TCsi 62 ps 109) t = t).
Proof. exact noop_params. Qed.
Print Assumptions C09_noop_params.

(* an unknown sequence in a stream: same result as if it were not there *)
Theorem C09_unknown_skipped : forall wc grid t s post k, crashed t = false ->
  parse_one wc grid (27 :: s ++ post) = PTok k post -> recognised k = false ->
  run_bytes wc grid t (27 :: s ++ post) = run_bytes wc grid t post.
Proof. exact unknown_seq_skipped. Qed.
Print Assumptions C09_unknown_skipped.

(* "without residue": deleting an unknown well-formed sequence that starts on a
   token boundary from the stream changes neither the final state nor the
   pending bytes *)
Theorem C09_unknown_removed : forall wc grid t pre s post, wf_seq s ->
  let r := run_bytes wc grid t pre in
  snd r = [] -> crashed (fst r) = false ->
  (forall k, parse_one wc grid (27 :: s) = PTok k [] -> recognised k = false) ->
  run_bytes wc grid t (pre ++ 27 :: s ++ post) = run_bytes wc grid t (pre ++ post).
Proof. exact unknown_seq_removed. Qed.
Print Assumptions C09_unknown_removed.

(* ---- OSC payload delivery ---- *)
(* OSC 0 and 2 set the window title (string 0), OSC 6 the current directory
   (string 1), OSC 7 the current file (string 2); other numbers do nothing *)
Theorem C09_osc_exec : forall n payload t,
  exec_tok (TOsc n payload) t = match osc_target n with Some i => set_vstr i payload t | None => t end.
Proof. exact osc_exec. Qed.
Print Assumptions C09_osc_exec.

(* setting a string stores exactly the payload, reports it once, changes nothing else *)
Theorem C09_set_vstr : forall i v t,
  vstrs (set_vstr i v t) = zupd i v (vstrs t) /\ tlog (set_vstr i v t) = EStr i v :: tlog t /\
  tmain (set_vstr i v t) = tmain t /\ talt (set_vstr i v t) = talt t /\ onalt (set_vstr i v t) = onalt t /\
  vflags (set_vstr i v t) = vflags t /\ vints (set_vstr i v t) = vints t /\
  kbm (set_vstr i v t) = kbm t /\ kba (set_vstr i v t) = kba t /\ tout (set_vstr i v t) = tout t /\
  (0 <= i < zlen (vstrs t) -> znth i (vstrs (set_vstr i v t)) [] = v).
Proof. exact set_vstr_spec. Qed.
Print Assumptions C09_set_vstr.

(* the three string slots exist in every reachable state *)
Theorem C09_vstrs_len : forall wc grid w h ops,
  zlen (vstrs (fst (run_hist wc grid (init_term w h) ops))) = 3.
Proof. exact vlen_run_hist. Qed.
Print Assumptions C09_vstrs_len.

(* end to end: the bytes between ';' and the terminator, no more, no less *)
Theorem C09_osc_delivered : forall wc grid t digits payload term i,
  crashed t = false -> forallb is_digit digits = true -> osc_clean 0 payload = true -> osc_term term ->
  osc_target (osc_num digits 0) = Some i ->
  run_bytes wc grid t (27 :: 93 :: digits ++ 59 :: payload ++ term) = (set_vstr i payload t, []).
Proof. exact osc_delivered. Qed.
Print Assumptions C09_osc_delivered.

(* ---- the deviations ---- *)
(* 1. FULL STATEMENT (false): C09_consumed for every body = P ++ I ++ [F].
   Refuted by "CSI % G": the token ends at '%' and 'G' is drawn. *)
Theorem C09_csi_pct_refuted :
  exists body, (exists P I F, body = P ++ I ++ [F] /\ forallb is_param P = true /\
                 forallb is_inter I = true /\ is_final F = true) /\
    parse_one (fun _ => 1) false (27 :: 91 :: body) = PTok (TCsi 0 [] 37) [71] /\
    parse_one (fun _ => 1) false [71] = PTok (TGlyph [71] 71 1) [].
Proof. exact csi_pct_refuted. Qed.
Print Assumptions C09_csi_pct_refuted.

(* ... and that is the only shape: with plain parameters, '%' always cuts *)
Theorem C09_csi_pct_cut : forall P I' F post,
  forallb is_param P = true -> forallb is_digsemi (after_prefix P) = true ->
  exists prefix params,
    parse_csi (P ++ (37 :: I') ++ [F] ++ post) = PTok (TCsi prefix params 37) (I' ++ [F] ++ post).
Proof. exact csi_pct_cut. Qed.
Print Assumptions C09_csi_pct_cut.

(* ... so the side condition of wf_csi is exact *)
Theorem C09_csi_consumed_iff : forall P I F,
  forallb is_param P = true -> forallb is_inter I = true -> is_final F = true ->
  ((exists k, forall post, parse_csi ((P ++ I ++ [F]) ++ post) = PTok k post) <-> pct_final P I = false).
Proof. exact csi_consumed_iff. Qed.
Print Assumptions C09_csi_consumed_iff.

(* 2. "ESC ( % 5" *)
Theorem C09_esc_charset_refuted :
  exists s, (exists I F, s = I ++ [F] /\ forallb is_inter I = true /\ (48 <=? F) && (F <=? 126) = true) /\
    parse_one (fun _ => 1) false (27 :: s) = PTok TIgnore [53] /\
    parse_one (fun _ => 1) false [53] = PTok (TGlyph [53] 53 1) [].
Proof. exact esc_charset_refuted. Qed.
Print Assumptions C09_esc_charset_refuted.

(* 3. 0x9C inside a UTF-8 character (C5 9C) of an OSC / DCS payload ends the string *)
Theorem C09_osc_9c_refuted :
  parse_one (fun _ => 1) false [27; 93; 48; 59; 65; 197; 156; 66; 7] = PTok (TOsc 0 [65; 197]) [66; 7] /\
  parse_one (fun _ => 1) false [27; 80; 197; 156; 66; 27; 92] = PTok TIgnore [66; 27; 92].
Proof. exact osc_9c_refuted. Qed.
Print Assumptions C09_osc_9c_refuted.

(* 4. "CSI 1 LF 2 H": LF becomes the final byte of an unknown command, "2H" is text *)
Theorem C09_csi_c0_refuted :
  parse_one (fun _ => 1) false [27; 91; 49; 10; 50; 72] = PTok (TCsi 0 [1] 10) [50; 72] /\
  recognised (TCsi 0 [1] 10) = false.
Proof. exact csi_c0_refuted. Qed.
Print Assumptions C09_csi_c0_refuted.

(* ... in general: the digit / ';' loop is ended by, and the command named after,
   any byte other than a digit, ';', an intermediate other than '%', and : < = > ?
   (csi_ends): besides the finals 0x40-0x7E that is '%', every C0 control, DEL
   and every byte >= 0x80 *)
Theorem C09_csi_ends_token : forall pfx D F post,
  pfx = [] \/ (exists b, pfx = [b] /\ is_private b = true) ->
  forallb is_digsemi D = true -> csi_ends F = true ->
  parse_csi (pfx ++ D ++ F :: post) = PTok (TCsi (hd 0 pfx) (csi_params D) F) post.
Proof. exact csi_ends_token. Qed.
Print Assumptions C09_csi_ends_token.

(* 5. (repaired, D60) "ESC ] l t BEL" and "ESC ] 112 ESC \" used to be abandoned after one byte;
   every OSC string is now one token that ends at its terminator, whatever its body *)
Theorem C09_osc_any_body : forall body term post, osc_clean 0 body = true -> osc_term term ->
  exists k, parse_osc (body ++ term ++ post) = PTok k post /\ (k = TIgnore \/ exists n p, k = TOsc n p).
Proof. exact osc_any_consumed. Qed.
Print Assumptions C09_osc_any_body.

Theorem C09_osc_nonnumeric_skipped :
  parse_one (fun _ => 1) false [27; 93; 108; 116; 7; 120] = PTok TIgnore [120] /\
  parse_one (fun _ => 1) false [27; 93; 49; 49; 50; 27; 92; 120] = PTok TIgnore [120].
Proof. exact osc_nonnumeric_skipped. Qed.
Print Assumptions C09_osc_nonnumeric_skipped.

(* 6. "ESC _ G ESC \" (APC) *)
Theorem C09_apc_refuted :
  parse_one (fun _ => 1) false [27; 95; 71; 27; 92] = PTok (TEsc 95) [71; 27; 92].
Proof. exact apc_refuted. Qed.
Print Assumptions C09_apc_refuted.
