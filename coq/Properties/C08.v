(* C08 — The result does not depend on how the byte stream is split into reads.
   Statements only; proofs are in Proofs/ParserMono.v and Proofs/SegProofs.v.

   The state compared is the whole pair (term, pending bytes): both screens
   (cells, cursor, margins, style, trigger bits), which screen is active, the
   view flags / ints / strings, both keyboard-flag stacks, the reply bytes
   [tout] and the log of frontend callbacks [tlog].

   What the model abstracts (so what this file does not say):
   - text is written one glyph at a time.  The grouping of printable bytes
     into runs by ReadPrintableBytes depends on the read boundaries but is not
     modelled; after the fix "write runs piece by piece" the cells, cursor and
     change regions produced by a run are those of its glyphs in sequence, so
     run boundaries are irrelevant to the state compared here.  The number and
     grouping of the frontend's region callbacks per run is therefore outside
     this statement (the log has one region event per glyph).
   - grapheme-cluster mode is not modelled (rune mode only): in grapheme mode
     a cluster can be cut by a read boundary and is then rendered differently.
   - read errors / EOF in the middle of a sequence are not modelled. *)
From Coq Require Import List ZArith Bool.
From Termemu Require Import Base Style Screen Parser Term ParserProofs ParserMono TermInv HistProofs SegProofs ReplyProofs.
Import ListNotations.
Open Scope Z_scope.

(* A token that is complete stays the same token when more bytes follow; the
   bytes after it are handed back untouched. *)
Theorem C08_parse_mono : forall wc grid inp k rest,
  parse_one wc grid inp = PTok k rest ->
  forall more, parse_one wc grid (inp ++ more) = PTok k (rest ++ more).
Proof. exact parse_one_mono. Qed.
Print Assumptions C08_parse_mono.

(* If the parser still waits after more bytes arrived, it was waiting before:
   nothing is acted on while an escape sequence or UTF-8 character is incomplete. *)
Theorem C08_parse_blocked : forall wc grid inp more,
  parse_one wc grid (inp ++ more) = PMore -> parse_one wc grid inp = PMore.
Proof. exact parse_one_more_inv. Qed.
Print Assumptions C08_parse_blocked.

(* Reading a, then b (the bytes a left pending are re-scanned in front of b)
   equals reading a ++ b at once.  Holds from every state, also a crashed one
   (which is stuck and keeps everything pending in both executions). *)
Theorem C08_run_bytes_app : forall wc grid t a b,
  let r := run_bytes wc grid t a in
  run_bytes wc grid (fst r) (snd r ++ b) = run_bytes wc grid t (a ++ b).
Proof. exact run_bytes_app. Qed.
Print Assumptions C08_run_bytes_app.

(* Any sequence of reads is one read of the concatenation ... *)
Theorem C08_canonical : forall wc grid t chunks,
  fold_left (hstep wc grid) (map HFeed chunks) (t, []) = run_bytes wc grid t (concat chunks).
Proof. exact feeds_run_bytes. Qed.
Print Assumptions C08_canonical.

(* ... hence two segmentations of the same bytes give the same terminal, the
   same replies, the same callbacks and the same pending bytes.  Chunks may be
   empty and may end anywhere: inside a UTF-8 character, between ESC and '[',
   inside CSI parameters, inside an OSC payload or its ESC \ terminator. *)
Theorem C08_seg_indep : forall wc grid t chunks1 chunks2,
  concat chunks1 = concat chunks2 ->
  fold_left (hstep wc grid) (map HFeed chunks1) (t, []) =
  fold_left (hstep wc grid) (map HFeed chunks2) (t, []).
Proof. exact seg_indep. Qed.
Print Assumptions C08_seg_indep.

(* byte by byte = one read *)
Theorem C08_bytewise : forall wc grid t inp,
  fold_left (hstep wc grid) (map HFeed (map (fun b => [b]) inp)) (t, []) = run_bytes wc grid t inp.
Proof. exact bytewise_eq_whole. Qed.
Print Assumptions C08_bytewise.

(* every single cut point *)
Theorem C08_cut_anywhere : forall wc grid t inp n,
  fold_left (hstep wc grid) [HFeed (firstn n inp); HFeed (skipn n inp)] (t, []) = run_bytes wc grid t inp.
Proof. exact cut_anywhere. Qed.
Print Assumptions C08_cut_anywhere.

(* With Resize calls in the history: two consecutive reads can be merged from
   any state, so only the position of the Resize calls in the byte stream
   matters, not the cuts between them. *)
Theorem C08_merge_reads : forall wc grid st a b,
  hstep wc grid (hstep wc grid st (HFeed a)) (HFeed b) = hstep wc grid st (HFeed (a ++ b)).
Proof. exact hstep_feed_merge. Qed.
Print Assumptions C08_merge_reads.

Theorem C08_hist_seg_indep : forall wc grid t ops1 ops2,
  merge_feeds [] ops1 = merge_feeds [] ops2 ->
  run_hist wc grid t ops1 = run_hist wc grid t ops2.
Proof. exact hist_seg_indep. Qed.
Print Assumptions C08_hist_seg_indep.

(* State-free reading: the token stream of a ++ b, when a ends on a token
   boundary, is the tokens of a followed by those of b ([tokens], [leftover]:
   ReplyProofs.v); and in a reachable state the bytes a read leaves pending are
   exactly the incomplete tail the tokenizer leaves unread. *)
Theorem C08_tokens_app : forall wc grid a b, leftover wc grid a = [] ->
  tokens wc grid (a ++ b) = tokens wc grid a ++ tokens wc grid b /\
  leftover wc grid (a ++ b) = leftover wc grid b.
Proof. exact tokens_app. Qed.
Print Assumptions C08_tokens_app.

Theorem C08_pending_is_leftover : forall wc grid f t inp, TInv t ->
  snd (run_pending wc grid f t inp) = rest_after wc grid f inp.
Proof. exact pending_leftover. Qed.
Print Assumptions C08_pending_is_leftover.
