(* C12 -- Key events are encoded unambiguously per the active keyboard mode.
   Statements only, each closed by [exact].  The model (Model/Keys.v) is
   keys.go AFTER the repairs D30, D31a, D31b; its tables are generated from
   keys.go (Gen/Gen_KeyTables.v) and the reference table from
   keyboard-protocol.rst (Gen/Gen_KittySpec.v). *)
From Coq Require Import List ZArith Bool String.
From Termemu Require Import Base KeyKinds Gen_KeyTables Gen_KittySpec Keys KeysCase KeySpec KeysProofs.
Import ListNotations.
Open Scope Z_scope.

(* K0: the hand-written model was written against these function bodies *)
(* (The translator also emits fingerprints of the hand-modelled function bodies; they are
   informational only: those bodies are tied to the code by the correspondence check.) *)

(* the self-call of encodeLegacyKey/encodeKittyKey on a keypad equivalent is one level deep *)
Theorem C12_K0_keypad_depth :
  forallb (fun e : Z * (Z * option Z) => negb (isKeypadKey (fst (snd e)))) keypad_equivalent = true.
Proof. exact keypad_targets_not_keypad. Qed.
Print Assumptions C12_K0_keypad_depth.

(* ---- K1: mode selection ---- *)
Theorem C12_K1_legacy : forall st ev, ks_flags st = 0 -> is_release ev = false ->
  encode_key st ev = encodeLegacyKey st ev.
Proof. exact mode_legacy. Qed.
Print Assumptions C12_K1_legacy.

Theorem C12_K1_kitty : forall st ev, ks_flags st <> 0 -> encodeKittyKey ev (ks_flags st) <> [] ->
  (is_release ev = true -> has (ks_flags st) KbdReportEvents = true) ->
  encode_key st ev = encodeKittyKey ev (ks_flags st).
Proof. exact mode_kitty. Qed.
Print Assumptions C12_K1_kitty.

Theorem C12_K1_fallback : forall st ev, encodeKittyKey ev (ks_flags st) = [] -> is_release ev = false ->
  encode_key st ev = encodeLegacyKey st ev.
Proof. exact mode_fallback. Qed.
Print Assumptions C12_K1_fallback.

(* the Kitty encoder declines exactly the documented cases *)
Theorem C12_K1_declines : forall ev flags, kitty_switch ev flags = [] ->
  (e_code ev = KeyRune /\
     (e_rune ev = 0 \/
      (has flags KbdReportAllKeys = false /\ (has flags KbdDisambiguate && has (e_mod ev) text_mods) = false))) \/
  ((e_code ev = KeyEnter \/ e_code ev = KeyTab \/ e_code ev = KeyBackspace) /\ has flags KbdReportAllKeys = false) \/
  (e_code ev = KeyEscape /\ has flags (Z.lor KbdReportAllKeys KbdDisambiguate) = false) \/
  (assoc (e_code ev) kitty_dispatch = None /\ kittyFunctionalCode (e_code ev) = None).
Proof. exact kitty_declines. Qed.
Print Assumptions C12_K1_declines.

Theorem C12_K1_effective : forall ev flags, encodeKittyKey ev flags = kitty_switch (effective ev flags) flags.
Proof. exact encodeKittyKey_effective. Qed.
Print Assumptions C12_K1_effective.

Theorem C12_K1_every_key :
  forallb (fun e : string * Z =>
     match assoc (snd e) kitty_dispatch, kittyFunctionalCode (snd e) with None, None => false | _, _ => true end)
    keycode_enum = true.
Proof. exact every_key_dispatched. Qed.
Print Assumptions C12_K1_every_key.

(* ---- K2: release events; Enter/Tab/Backspace/text rules ---- *)
Theorem C12_K2_release_silent : forall st ev,
  is_release ev = true -> has (ks_flags st) KbdReportEvents = false -> encode_key st ev = [].
Proof. exact release_silent. Qed.
Print Assumptions C12_K2_release_silent.

Theorem C12_K2_release_only_kitty : forall st ev, is_release ev = true ->
  encode_key st ev = [] \/
  (has (ks_flags st) KbdReportEvents = true /\ encode_key st ev = encodeKittyKey ev (ks_flags st)).
Proof. exact release_only_kitty. Qed.
Print Assumptions C12_K2_release_only_kitty.

Theorem C12_K2_release_enter_tab_backspace : forall st ev,
  is_release ev = true -> has (ks_flags st) KbdReportAllKeys = false ->
  e_code ev = KeyEnter \/ e_code ev = KeyTab \/ e_code ev = KeyBackspace ->
  encode_key st ev = [].
Proof. exact release_enter_tab_backspace. Qed.
Print Assumptions C12_K2_release_enter_tab_backspace.

Theorem C12_K2_release_text : forall st ev,
  is_release ev = true -> has (ks_flags st) KbdReportAllKeys = false ->
  e_code ev = KeyRune -> has (e_mod ev) text_mods = false ->
  encode_key st ev = [].
Proof. exact release_text_key. Qed.
Print Assumptions C12_K2_release_text.

Theorem C12_K2_plain_enter_tab_backspace : forall st ev,
  has (ks_flags st) KbdReportAllKeys = false -> e_mod ev = 0 -> is_release ev = false ->
  (e_code ev = KeyEnter -> encode_key st ev = [13]) /\
  (e_code ev = KeyTab -> encode_key st ev = [9]) /\
  (e_code ev = KeyBackspace -> encode_key st ev = [127]).
Proof. exact plain_enter_tab_backspace. Qed.
Print Assumptions C12_K2_plain_enter_tab_backspace.

(* D46 is not a defect: lock modifiers alone do not turn a text key into an escape code *)
Theorem C12_K2_lock_mods_keep_text : forall st ev,
  has (ks_flags st) KbdReportAllKeys = false -> ks_mok st <= 0 ->
  e_code ev = KeyRune -> e_rune ev <> 0 -> is_release ev = false ->
  has (e_mod ev) text_mods = false ->
  encode_key st ev = utf8 (e_rune ev).
Proof. exact lock_mods_keep_text. Qed.
Print Assumptions C12_K2_lock_mods_keep_text.

(* ---- K3: Kitty round trip ---- *)
(* decimal printing is read back by the CSI scanner, for every 0 <= n < 10^20 *)
Theorem C12_K3_itoa_scan : forall n rest subs flds, 0 <= n < 10 ^ 20 ->
  scan (itoa n ++ rest) None subs flds = scan rest (Some n) subs flds.
Proof. exact scan_itoa. Qed.
Print Assumptions C12_K3_itoa_scan.

(* Every non-empty output of encodeKittyKey decodes, with the independent
   decoder of Spec/KeySpec.v, to the canonical description of the event: key
   (rst name or code point), all 8 modifier bits, event type when reported,
   alternates, text.  wf_ev: mod < 256, event in 0..3, runes/alternates/text in
   0 .. 2^31-1.  For a text key the rune must not be a number the rst assigns to
   a functional key (true of every non-control, non-private-use scalar:
   C12_K3_plain_rune). *)
Theorem C12_K3_kitty_roundtrip : forall ev flags bs,
  wf_ev ev ->
  (e_code (effective ev flags) = KeyRune -> rst_lookup rst_functional (e_rune (effective ev flags)) 117 = None) ->
  encodeKittyKey ev flags = bs -> bs <> [] ->
  decode_kitty bs = canon_ev flags (effective ev flags).
Proof. exact kitty_roundtrip. Qed.
Print Assumptions C12_K3_kitty_roundtrip.

Theorem C12_K3_named : forall ev flags, kitty_switch ev flags <> [] ->
  canon_key (e_code ev) (e_rune ev) <> None.
Proof. exact kitty_switch_named. Qed.
Print Assumptions C12_K3_named.

Theorem C12_K3_plain_rune : forall r, plain_rune r -> rst_lookup rst_functional r 117 = None.
Proof. exact plain_rune_not_functional. Qed.
Print Assumptions C12_K3_plain_rune.

(* ---- K4: the generated Go tables agree with the generated rst table ---- *)
Theorem C12_K4_table_is_spec :
  forallb (fun e : string * Z => key_matches_rst (snd e)) keycode_enum = true /\
  forallb rst_name_covered rst_functional = true /\
  List.length keycode_enum = 112%nat /\ List.length rst_functional = 111%nat /\ List.length key_rst_name = 111%nat.
Proof. exact table_is_spec. Qed.
Print Assumptions C12_K4_table_is_spec.

(* ---- K5: injectivity ---- *)
(* FULL STATEMENT (false of the code, see C12_K5_refuted):
     has flags KbdDisambiguate = true -> encode_key st ev1 = encode_key st ev2 <> [] ->
     same key /\ same modifiers /\ same reported event type
   What is missing: modified Enter/Tab/Backspace (and Shift/lock-modified text
   keys) keep their legacy bytes under the disambiguate flag, which drop
   modifiers.  Proved instead: injectivity on every event the Kitty encoder
   encodes (any flags). *)
Theorem C12_K5_kitty_injective_partial : forall ev1 ev2 flags,
  wf_ev ev1 -> wf_ev ev2 ->
  (e_code (effective ev1 flags) = KeyRune -> rst_lookup rst_functional (e_rune (effective ev1 flags)) 117 = None) ->
  (e_code (effective ev2 flags) = KeyRune -> rst_lookup rst_functional (e_rune (effective ev2 flags)) 117 = None) ->
  encodeKittyKey ev1 flags <> [] ->
  encodeKittyKey ev1 flags = encodeKittyKey ev2 flags ->
  canon_key (e_code (effective ev1 flags)) (e_rune (effective ev1 flags)) =
    canon_key (e_code (effective ev2 flags)) (e_rune (effective ev2 flags)) /\
  e_mod ev1 = e_mod ev2 /\
  canon_event flags (e_event ev1) = canon_event flags (e_event ev2).
Proof. exact kitty_injective. Qed.
Print Assumptions C12_K5_kitty_injective_partial.

Theorem C12_K5_refuted :
  exists st ev1 ev2,
    has (ks_flags st) KbdDisambiguate = true /\ wf_ev ev1 /\ wf_ev ev2 /\
    encode_key st ev1 = encode_key st ev2 /\ encode_key st ev1 <> [] /\
    e_code ev1 = e_code ev2 /\ e_mod ev1 <> e_mod ev2.
Proof. exact disambiguate_injective_refuted. Qed.
Print Assumptions C12_K5_refuted.

(* ---- K6: legacy forms ---- *)
Theorem C12_K6_rune_bytes : forall st r mod_, ks_mok st <= 0 -> r <> 0 ->
  encodeRuneKey st r mod_ =
  (if has mod_ ModAlt then [27] else []) ++
  (if has mod_ ModCtrl then match ctrlByte r with Some b => [b] | None => utf8 r end else utf8 r).
Proof. exact legacy_rune_bytes. Qed.
Print Assumptions C12_K6_rune_bytes.

Theorem C12_K6_utf8_roundtrip : forall r, scalar r -> utf8_decode1 (utf8 r) = Some r.
Proof. exact utf8_roundtrip. Qed.
Print Assumptions C12_K6_utf8_roundtrip.

Theorem C12_K6_utf8_invalid : forall r, ~ scalar r -> utf8 r = [239; 191; 189].
Proof. exact utf8_invalid. Qed.
Print Assumptions C12_K6_utf8_invalid.

Theorem C12_K6_text_roundtrip : forall st r mod_, ks_mok st <= 0 -> r <> 0 -> scalar r -> 32 <= r -> r <> 127 ->
  has mod_ ModAlt = false -> has mod_ ModCtrl = false ->
  encodeRuneKey st r mod_ = utf8 r /\ utf8_decode1 (encodeRuneKey st r mod_) = Some r.
Proof. exact legacy_text_roundtrip. Qed.
Print Assumptions C12_K6_text_roundtrip.

(* finite domain: 32 key codes x 256 modifier masks x modifyOtherKeys 0/1/2 x app-cursor *)
Theorem C12_K6_functional_roundtrip : forallb legacy_functional_check legacy_functional_keys = true.
Proof. exact legacy_functional_roundtrip. Qed.
Print Assumptions C12_K6_functional_roundtrip.

Theorem C12_K6_modify_other_keys : forall st r mod_, 0 < ks_mok st -> mod_ <> 0 -> 0 < r < 2147483648 ->
  encodeRuneKey st r mod_ = [27; 91; 50; 55; 59] ++ itoa (xtermModParam mod_) ++ [59] ++ itoa r ++ [126] /\
  decode_legacy_functional (encodeRuneKey st r mod_) = Some (mkLDec (KChar r) (xtermModParam mod_ - 1) LFOther).
Proof. exact modify_other_keys_roundtrip. Qed.
Print Assumptions C12_K6_modify_other_keys.

(* the ambiguities that are inherent to the legacy protocol, stated *)
Theorem C12_K6_ambiguities :
  encode_key lst (press KeyTab 0 0) = encode_key lst (press KeyRune 105 ModCtrl) /\
  encode_key lst (press KeyEnter 0 0) = encode_key lst (press KeyRune 109 ModCtrl) /\
  encode_key lst (press KeyEscape 0 0) = encode_key lst (press KeyRune 91 ModCtrl) /\
  encode_key lst (press KeyBackspace 0 0) = encode_key lst (press KeyRune 63 ModCtrl) /\
  encode_key lst (press KeyRune 114 ModCtrl) = encode_key lst (press KeyRune 114 (Z.lor ModCtrl ModShift)) /\
  encode_key lst (press KeyKP1 0 0) = encode_key lst (press KeyRune 49 0) /\
  encode_key lst (press KeyEnter 0 ModShift) = encode_key lst (press KeyEnter 0 0) /\
  encode_key lst (press KeyUp 0 ModSuper) = [27; 91; 49; 59; 49; 65].
Proof. exact legacy_ambiguities. Qed.
Print Assumptions C12_K6_ambiguities.

(* Ctrl mapping: agrees with the rst wherever ctrlByte is defined ... *)
Theorem C12_K6_ctrl_agrees : forallb ctrl_agrees (zrange 128 0) = true.
Proof. exact ctrl_byte_agrees_with_rst. Qed.
Print Assumptions C12_K6_ctrl_agrees.

Theorem C12_K6_ctrl_ascii_only : forall r, 128 <= r -> ctrlByte r = None.
Proof. exact ctrl_byte_undefined_above_ascii. Qed.
Print Assumptions C12_K6_ctrl_ascii_only.

(* ... FULL STATEMENT "Ctrl follows the rst ctrl mapping" is false: these rst
   keys have no ctrlByte entry and are sent unchanged *)
Theorem C12_K6_ctrl_refuted : ctrl_missing = [32; 47; 50; 51; 52; 53; 54; 55; 56; 126].
Proof. exact ctrl_mapping_incomplete. Qed.
Print Assumptions C12_K6_ctrl_refuted.

(* D30: what the unrepaired encodeKey does *)
Theorem C12_D30_witness :
  encode_key_unrepaired (mkKst 0 0 false) (mkEv KeyRune 97 0 KeyRelease 0 0 []) = [97] /\
  encode_key (mkKst 0 0 false) (mkEv KeyRune 97 0 KeyRelease 0 0 []) = [].
Proof. exact d30_witness. Qed.
Print Assumptions C12_D30_witness.

(* where the legacy encoder differs from the rst "C0 controls" table
   (rst: 1b 1b / 08 / CSI Z / 1b CSI Z / 00) *)
Theorem C12_K6_c0_table_deviations :
  encode_key lst (press KeyEscape 0 ModAlt) = [27] /\
  encode_key lst (press KeyBackspace 0 ModCtrl) = [127] /\
  encode_key lst (press KeyTab 0 (Z.lor ModCtrl ModShift)) = [9] /\
  encode_key lst (press KeyTab 0 (Z.lor ModAlt ModShift)) = [27; 9] /\
  encode_key lst (press KeyRune 32 ModCtrl) = [32].
Proof. exact c0_table_deviations. Qed.
Print Assumptions C12_K6_c0_table_deviations.
