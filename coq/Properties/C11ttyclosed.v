(* C11, TTY mirror: C11_tty_cursor (Properties/C11tty.v) carries as an explicit premise that the CSI parameter
   scanner reads back the digits strconv.Itoa prints.  That premise is a theorem of the development
   (EscapeProofs.scan_itoa, restated as C11_itoa_scan); here it is discharged, so the statement about the outer
   terminal's cursor has no premise left but the ones about the two terminals.  Statement only. *)
From Coq Require Import List ZArith Bool.
From Termemu Require Import Base Style Screen Parser Term TtyFrontend TtyProofs EscapeProofs.
Import ListNotations.
Open Scope Z_scope.

Theorem C11_tty_cursor_closed : forall wc grid t o x y,
  hasterm t = true -> hasout t = true -> attached t = true ->
  crashed o = false -> zlen (vflags o) = 6 ->
  0 <= x < sW (active o) -> 0 <= y < sH (active o) -> sW (active o) <= maxCSIParam -> sH (active o) <= maxCSIParam ->
  let inside := (rgx t <=? x) && (x <? rgx2 t) && (rgy t <=? y) && (y <? rgy2 t) in
  let o' := fst (run_bytes wc grid o (snd (tty_cursor_moved t x y))) in
  rows (active o') = rows (active o) /\
  if showcur t && focused t && inside
  then cx (active o') = x /\ cy (active o') = y /\ show_flag o' = true
  else show_flag o' = false /\ cx (active o') = cx (active o) /\ cy (active o') = cy (active o).
Proof. intros wc grid. exact (tty_cursor_outer wc grid (fun n rest acc sawsep H => scan_itoa n rest acc sawsep H)). Qed.
Print Assumptions C11_tty_cursor_closed.
