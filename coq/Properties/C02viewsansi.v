(* C02, second clause, the ANSILine part for every reachable row of the span model —
   "... and Line(y), StyledLine(0,W,y) and ANSILine(y) describe the same text."
   Properties/C02views.v proves the clause for any row satisfying the row invariant PLUS
   "the cells are strippable" (C02views_ansi_line, C02views_agree), and proves the row invariant
   for every reachable row (C02views_reachable) - without the ANSILine part, because strippable
   was not derived for reachable rows.  Here it is.  Statements only; proofs in
   Proofs/StripInv.v and Proofs/RenderSpanKind.v.

   Span model (Model/Span.v, Model/SpanScreen.v): [s_run_hist_from wc mw (s_init_term w h) ops]
   is the span terminal after a history; a row is a [spanline] [l]; [abs_line wc l] are the cells
   it means, [render_line_ansi] of them is ANSILine(y) at cell level, [render_runs (span_runs wc l)]
   is what the span buffer itself prints (one escape per stored run); [Span.line_text W l] is
   Line(y).  Hypotheses: exactly those of C02views_reachable - [wc_multibyte wc] (known finding
   D40, needed by the simulation), sizes >= 1, and no known-finding mark on the cell model of the
   history ([tz]; the span model is proved to simulate the cell model only on such histories). *)
From Coq Require Import List ZArith Bool.
From Termemu Require Import Base Style Screen Kbd Parser Term Span SgrSpec Render RenderProofs SpanText SpanRefine
  TermInv HistProofs TrigMono RenderInv SpanScreen SpanExamples SpanViews MarkBit StripInv RenderSpanKind.
Import ListNotations.
Open Scope Z_scope.

(* the rows of the span terminal mean exactly the rows of the cell terminal (span kind) *)
Theorem C02viewsansi_rows : forall wc, wc_multibyte wc -> forall mw w h ops, 1 <= w -> 1 <= h -> hist_ok ops ->
  tz (fst (run_hist wc false (init_term w h) ops)) ->
  let st := fst (fst (s_run_hist_from wc mw (s_init_term w h) ops)) in
  let t := fst (run_hist wc false (init_term w h) ops) in
  rows (tmain t) = map (abs_line wc) (zlines (smain st)) /\ rows (talt t) = map (abs_line wc) (zlines (salt st)) /\
  sW (tmain t) = zW (smain st) /\ sW (talt t) = zW (salt st).
Proof. exact span_rows_are_cell_rows. Qed.
Print Assumptions C02viewsansi_rows.

(* strippable cells give strippable stored runs (the converse of the step in C02views_ansi_line_runs) *)
Theorem C02viewsansi_cells_runs : forall wc spans, Forall (fun sp => wf_span wc sp /\ safe_span wc sp) spans ->
  Forall strippable (abs_spans wc spans) ->
  Forall (fun sp => wf_style (sp_sty sp) /\ ~ In 27 (span_text sp)) spans.
Proof. exact cells_strippable_spans_wf. Qed.
Print Assumptions C02viewsansi_cells_runs.

(* THE CLAUSE: every row of both buffers after every mark-free history - ANSILine(y) with its SGR
   sequences removed is Line(y), at cell level and as the span buffer prints it *)
Theorem C02viewsansi_reachable : forall wc, wc_multibyte wc -> forall mw w h ops, 1 <= w -> 1 <= h -> hist_ok ops ->
  tz (fst (run_hist wc false (init_term w h) ops)) ->
  let st := fst (fst (s_run_hist_from wc mw (s_init_term w h) ops)) in
  forall s, s = smain st \/ s = salt st -> forall l, In l (zlines s) ->
    Forall strippable (abs_line wc l) /\
    Forall (fun sp => wf_style (sp_sty sp) /\ ~ In 27 (span_text sp)) (sl_spans l) /\
    strip_sgr (render_line_ansi (abs_line wc l)) = Span.line_text (zW s) l /\
    strip_sgr (render_runs (span_runs wc l)) = Span.line_text (zW s) l.
Proof. exact span_reachable_ansi_line. Qed.
Print Assumptions C02viewsansi_reachable.

(* in particular from the state [s_run_hist] starts in (maxWidth = width of the active buffer) *)
Theorem C02viewsansi_reachable_run : forall wc, wc_multibyte wc -> forall w h ops, 1 <= w -> 1 <= h -> hist_ok ops ->
  tz (fst (run_hist wc false (init_term w h) ops)) ->
  let st := fst (fst (s_run_hist wc (s_init_term w h) ops)) in
  forall s, s = smain st \/ s = salt st -> forall l, In l (zlines s) ->
    Forall strippable (abs_line wc l) /\
    Forall (fun sp => wf_style (sp_sty sp) /\ ~ In 27 (span_text sp)) (sl_spans l) /\
    strip_sgr (render_line_ansi (abs_line wc l)) = Span.line_text (zW s) l /\
    strip_sgr (render_runs (span_runs wc l)) = Span.line_text (zW s) l.
Proof. exact span_reachable_ansi_line_run. Qed.
Print Assumptions C02viewsansi_reachable_run.

(* C02views_agree for every reachable row: runs of positive width summing to W; Line,
   StyledLine(0,W) and ANSILine agree *)
Theorem C02viewsansi_agree_reachable : forall wc, wc_multibyte wc -> forall mw w h ops, 1 <= w -> 1 <= h -> hist_ok ops ->
  tz (fst (run_hist wc false (init_term w h) ops)) ->
  let st := fst (fst (s_run_hist_from wc mw (s_init_term w h) ops)) in
  forall s, s = smain st \/ s = salt st -> forall l, In l (zlines s) ->
    Forall (fun sp => 0 < sp_width sp) (sl_spans l) /\ spans_width (sl_spans l) = zW s /\
    styled_line wc (zW s) l 0 (zW s) = (sl_spans l, zW s) /\
    flat_map span_text (fst (styled_line wc (zW s) l 0 (zW s))) = Span.line_text (zW s) l /\
    strip_sgr (render_line_ansi (abs_line wc l)) = Span.line_text (zW s) l /\
    Span.line_text (zW s) l = Render.line_text (abs_line wc l).
Proof. exact span_reachable_views_agree. Qed.
Print Assumptions C02viewsansi_agree_reachable.

(* and the cells of every reachable row form a renderable row of the screen's width - the
   hypothesis of the C11 round trip (C11_row_rt, C11_screen_rt) - when a blank is one cell wide for
   the oracle and no screen of the history is narrower than the widest glyph *)
Theorem C02viewsansi_renderable_reachable : forall wc, wc 32 <= 1 -> forall wmax, (forall r, glyph_width (wc r) <= wmax) ->
  wc_multibyte wc -> forall mw w h ops, wmax <= w -> 1 <= w -> 1 <= h -> Forall (hop_wide wmax) ops ->
  tz (fst (run_hist wc false (init_term w h) ops)) ->
  let st := fst (fst (s_run_hist_from wc mw (s_init_term w h) ops)) in
  forall s, s = smain st \/ s = salt st -> forall l, In l (zlines s) ->
    renderable wc (abs_line wc l) /\ zlen (abs_line wc l) = zW s.
Proof. exact span_reachable_renderable. Qed.
Print Assumptions C02viewsansi_renderable_reachable.

(* ---- non-vacuity ---- *)
(* red "a", U+4E2D, "b", bold red-on-blue U+4E2D, "c" in 7x2; Resize 8x3; CR LF, U+1F600, "x":
   the hypotheses hold (oracle wc_ex: C02views_oracle_ok) and the clause, computed *)
Example C02viewsansi_example :
  Forall (hop_wide 2) ex_span_ops /\ hist_ok ex_span_ops /\
  tz (fst (run_hist wc_ex false (init_term 7 2) ex_span_ops)) /\
  let s := smain (fst (fst (s_run_hist wc_ex (s_init_term 7 2) ex_span_ops))) in
  zW s = 8 /\
  map (fun l => strip_sgr (render_line_ansi (abs_line wc_ex l))) (zlines s) =
    [[97; 228;184;173; 98; 228;184;173; 99; 32]; [240;159;152;128; 120; 32; 32; 32; 32; 32]; [32; 32; 32; 32; 32; 32; 32; 32]] /\
  map (Span.line_text (zW s)) (zlines s) =
    [[97; 228;184;173; 98; 228;184;173; 99; 32]; [240;159;152;128; 120; 32; 32; 32; 32; 32]; [32; 32; 32; 32; 32; 32; 32; 32]] /\
  map (fun l => strip_sgr (render_runs (span_runs wc_ex l))) (zlines s) = map (Span.line_text (zW s)) (zlines s) /\
  render_line_ansi (abs_line wc_ex (znth 0 (zlines s) (mkLine [] 0))) =
    [27;91;48;109; 27;91;51;49;109; 97; 228;184;173; 98;
     27;91;48;109; 27;91;48;109; 27;91;49;109; 27;91;51;49;109; 27;91;52;52;109; 228;184;173; 99; 32].
Proof. exact span_model_example. Qed.
Print Assumptions C02viewsansi_example.
Theorem C02viewsansi_oracle_ok : wc_ex 32 <= 1 /\ (forall r, glyph_width (wc_ex r) <= 2) /\ wc_multibyte wc_ex.
Proof. exact (conj wc_ex_space (conj wc_ex_max wc_ex_multibyte)). Qed.
Print Assumptions C02viewsansi_oracle_ok.
