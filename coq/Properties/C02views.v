(* C02, second clause — "each row consists of styled runs of positive width that sum to exactly
   the screen width, and Line(y), StyledLine(0,W,y) and ANSILine(y) describe the same text."
   Statements only; proofs in Proofs/SpanViews.v.

   Span buffer (Model/Span.v): a row is a [spanline]; [Span.line_text W l] is Line(y),
   [styled_line wc W l x w] is StyledLine(x,w,y) (spans and the Width field), [abs_line wc l]
   are the cells the row means and [render_line_ansi] of them is ANSILine(y) at cell level;
   [render_runs (span_runs wc l)] is the span buffer's own ANSILine (one escape per stored run).
   The row invariant [wf_line wc W l] (positive run widths summing to W = the cached width, every
   text run re-segmenting to its Width) and [safe_line wc l] (stored clusters are valid UTF-8) holds
   for every reachable row (C20span: SInv; restated at the end for histories).  [wc] is the width
   oracle; [wc_multibyte wc] (a rune takes at most max(1, bytes-1) cells; known finding D40) is what
   splitSpan's fast path needs, so it is a hypothesis of the sub-range theorems only.

   Cell / grid buffer: Model/Render.v has no StyledLine; Model/TtyFrontend.v models it at cell level
   ([TtyFrontend.styled_line grid x w row], maximal equal-style runs of the cells of the range). *)
From Coq Require Import List ZArith Bool.
From Termemu Require Import Base Style Screen Kbd Parser Term Span SgrSpec Render RenderProofs SpanText SpanRefine
  TermInv HistProofs TrigMono SpanScreen SpanExamples SpanViews.
From Termemu Require TtyFrontend.
Import ListNotations.
Open Scope Z_scope.

(* ---- (1) Line(y) ---- *)

(* one run: the texts of its cells, concatenated, are the run's text; a fill run of rune r and
   Width n gives n copies of the encoding of r (span_text).  No hypothesis on the bytes. *)
Theorem C02views_run_text : forall wc sp, 0 < sp_width sp ->
  flat_map ctext (abs_span wc sp) = span_text sp.
Proof. exact abs_span_text. Qed.
Print Assumptions C02views_run_text.

(* Line(y) is the concatenation of the texts of the row's cells *)
Theorem C02views_line_cells : forall wc W l, wf_line wc W l ->
  Span.line_text W l = Render.line_text (abs_line wc l).
Proof. exact line_text_abs. Qed.
Print Assumptions C02views_line_cells.

(* what that needs of the invariant: positive widths that sum to W *)
Theorem C02views_line_cells_gen : forall wc W l,
  Forall (fun sp => 0 < sp_width sp) (sl_spans l) -> spans_width (sl_spans l) = W ->
  Span.line_text W l = Render.line_text (abs_line wc l).
Proof. exact line_text_cells. Qed.
Print Assumptions C02views_line_cells_gen.

(* and no padding is added: Line(y) is the texts of the runs *)
Theorem C02views_line_runs : forall wc W l, wf_line wc W l ->
  Span.line_text W l = flat_map span_text (sl_spans l).
Proof. exact line_text_runs. Qed.
Print Assumptions C02views_line_runs.

(* ---- (2) StyledLine(0, W, y) ---- *)

(* it returns the stored runs, literally, and Width = W *)
Theorem C02views_styled_full : forall wc W l, wf_line wc W l ->
  styled_line wc W l 0 W = (sl_spans l, W).
Proof. exact styled_line_full. Qed.
Print Assumptions C02views_styled_full.

(* spelled out: positive widths summing to W, the text of Line(y), the cells of the row *)
Theorem C02views_styled_full_views : forall wc W l, wf_line wc W l ->
  exists sps, styled_line wc W l 0 W = (sps, W) /\ sps = sl_spans l /\
    Forall (fun sp => 0 < sp_width sp) sps /\ spans_width sps = W /\
    flat_map span_text sps = Span.line_text W l /\ abs_spans wc sps = abs_line wc l.
Proof. exact styled_line_full_views. Qed.
Print Assumptions C02views_styled_full_views.

(* ---- (3) StyledLine(x, w, y) on a sub-range ---- *)

(* When neither edge of [x, x+w) falls on a continuation cell (no double-width glyph is cut):
   Width = w, the returned runs are well-formed and safe, have positive widths summing to w,
   mean exactly the cells [x, x+w) of the row, and spell the text of those cells. *)
Theorem C02views_styled_range : forall wc, wc_multibyte wc -> forall W l x w,
  wf_line wc W l -> safe_line wc l -> 0 <= x -> 0 <= w -> x + w <= W ->
  is_cont (znth x (abs_line wc l) dcell) = false -> is_cont (znth (x + w) (abs_line wc l) dcell) = false ->
  exists sps, styled_line wc W l x w = (sps, w) /\
    Forall (wf_span wc) sps /\ Forall (safe_span wc) sps /\
    Forall (fun sp => 0 < sp_width sp) sps /\ spans_width sps = w /\
    abs_spans wc sps = zfirstn w (zskipn x (abs_line wc l)) /\
    flat_map span_text sps = Render.line_text (zfirstn w (zskipn x (abs_line wc l))).
Proof. exact styled_line_range. Qed.
Print Assumptions C02views_styled_range.

(* When an edge does cut a glyph (known finding) the clause fails; what still holds for every
   range: each returned span is empty (Width 0) or well-formed and safe, and the widths sum to at
   most w ... *)
Theorem C02views_styled_any : forall wc, wc_multibyte wc -> forall W l x w,
  wf_line wc W l -> safe_line wc l -> 0 <= x -> 0 <= w -> x + w <= W ->
  exists sps, styled_line wc W l x w = (sps, w) /\
    Forall (fun sp => sp_width sp = 0 \/ (wf_span wc sp /\ safe_span wc sp)) sps /\
    0 <= spans_width sps <= w.
Proof. exact styled_line_any. Qed.
Print Assumptions C02views_styled_any.

(* ... the loop keeps one span [piece] per stored span that overlaps the range ... *)
Theorem C02views_styled_step : forall wc sp rest pos x w acc,
  styled_loop wc (sp :: rest) pos x w acc =
  let e := pos + sp_width sp in
  if e <=? x then styled_loop wc rest e x w acc
  else if x + w <=? pos then acc
  else
    let width := zmin e (x + w) - zmax pos x in
    styled_loop wc rest e x w (if 0 <? width then acc ++ [piece wc sp (zmax pos x - pos) width] else acc).
Proof. exact styled_loop_cons. Qed.
Print Assumptions C02views_styled_step.

(* ... and that span is, for cells [a, b) of a stored span with cells C: start after the glyph
   the left edge cuts (nothing stands for the cut glyph), take b - a cells FROM THERE (so cells
   beyond b may be returned, up to the end of the stored span), and drop a glyph cut by that
   right end.  It can be empty. *)
Theorem C02views_piece_any : forall wc, wc_multibyte wc -> forall sp a b,
  wf_span wc sp -> safe_span wc sp -> 0 <= a -> a < b -> b <= sp_width sp ->
  let C := abs_span wc sp in
  let T := zskipn (a + cont_run C a) C in
  let p := piece wc sp a (b - a) in
  (sp_width p = 0 \/ (wf_span wc p /\ safe_span wc p)) /\ sp_width p = zlen (abs_span wc p) /\ sp_width p <= b - a /\
  abs_span wc p = (if b - a <? zlen T then zfirstn (left_edge T (b - a)) T else T).
Proof. exact piece_any_wf. Qed.
Print Assumptions C02views_piece_any.

(* the hypotheses on the edges cannot be dropped: a concrete well-formed row ("a", U+4E2D, "b"
   in one run; a fill run; a blank run; cells 1 and 2 hold the wide glyph).  Left edge on the
   second half: 2 cells for w = 3.  Right edge between the halves: 1 cell for w = 2.  The first
   half alone: one span of Width 0.  The second half alone: the cell AFTER the range. *)
Theorem C02views_cut_refuted :
  wf_line wc_ex 9 ex_line /\ safe_line wc_ex ex_line /\
  (is_cont (znth 2 (abs_line wc_ex ex_line) dcell) = true /\
   styled_line wc_ex 9 ex_line 2 3 = ([mk_span ex_red [98] 0 1; mk_span default_style [] 120 1], 3)) /\
  (styled_line wc_ex 9 ex_line 0 2 = ([mk_span ex_red [97] 0 1], 2)) /\
  (styled_line wc_ex 9 ex_line 1 1 = ([mk_span ex_red [] 0 0], 1)) /\
  (styled_line wc_ex 9 ex_line 2 1 = ([mk_span ex_red [98] 0 1], 1) /\
   abs_spans wc_ex (fst (styled_line wc_ex 9 ex_line 2 1)) = zfirstn 1 (zskipn 3 (abs_line wc_ex ex_line))).
Proof. exact styled_line_cut_refuted. Qed.
Print Assumptions C02views_cut_refuted.

(* ---- (4) ANSILine(y) ---- *)

(* ANSILine(y) without its SGR sequences is Line(y) (no cell text contains ESC, styles well-formed) *)
Theorem C02views_ansi_line : forall wc W l, wf_line wc W l -> Forall strippable (abs_line wc l) ->
  strip_sgr (render_line_ansi (abs_line wc l)) = Span.line_text W l.
Proof. exact ansi_line_text. Qed.
Print Assumptions C02views_ansi_line.

(* the hypothesis on the cells follows from the same on the stored runs *)
Theorem C02views_ansi_line_runs : forall wc W l, wf_line wc W l ->
  Forall (fun sp => wf_style (sp_sty sp) /\ ~ In 27 (span_text sp)) (sl_spans l) ->
  strip_sgr (render_line_ansi (abs_line wc l)) = Span.line_text W l.
Proof. exact ansi_line_text_spans. Qed.
Print Assumptions C02views_ansi_line_runs.

(* the span buffer's own ANSILine (one escape per stored run, equal neighbours not merged) *)
Theorem C02views_span_ansi_line : forall wc W l, wf_line wc W l ->
  Forall (fun sp => wf_style (sp_sty sp) /\ ~ In 27 (span_text sp)) (sl_spans l) ->
  strip_sgr (render_runs (span_runs wc l)) = Span.line_text W l /\
  strip_sgr (render_runs (span_runs wc l)) = strip_sgr (render_line_ansi (abs_line wc l)).
Proof. exact span_ansi_line_text. Qed.
Print Assumptions C02views_span_ansi_line.

(* the clause: runs of positive width summing to W; Line, StyledLine(0,W) and ANSILine agree *)
Theorem C02views_agree : forall wc W l, wf_line wc W l ->
  Forall (fun sp => wf_style (sp_sty sp) /\ ~ In 27 (span_text sp)) (sl_spans l) ->
  Forall (fun sp => 0 < sp_width sp) (sl_spans l) /\ spans_width (sl_spans l) = W /\
  styled_line wc W l 0 W = (sl_spans l, W) /\
  flat_map span_text (fst (styled_line wc W l 0 W)) = Span.line_text W l /\
  strip_sgr (render_line_ansi (abs_line wc l)) = Span.line_text W l /\
  Span.line_text W l = Render.line_text (abs_line wc l).
Proof. exact row_views_agree. Qed.
Print Assumptions C02views_agree.

(* ---- the cell / grid buffer ---- *)

(* gridScreen.StyledLine(x, w, y): the runs, concatenated, are exactly the cells of the range;
   every run is non-empty and of the one style it is labelled with; neighbours differ in style *)
Theorem C02views_grid_styled : forall x w row,
  let sps := TtyFrontend.styled_line true x w row in
  spans_row sps = zfirstn w (zskipn x row) /\ Forall run_ok sps /\ adj_diff sps.
Proof. exact grid_styled_line_cells. Qed.
Print Assumptions C02views_grid_styled.
Theorem C02views_grid_styled_width : forall x w row, 0 <= x -> 0 <= w -> x + w <= zlen row ->
  zlen (spans_row (TtyFrontend.styled_line true x w row)) = w.
Proof. exact grid_styled_line_width. Qed.
Print Assumptions C02views_grid_styled_width.

(* StyledLine(0, W, y) gives back the row; its runs are the runs ANSILine(y) prints; stripped of
   SGR that is the text of the cells, which is the grid's Line(y) on rows without wide glyphs
   (with a wide glyph gridScreen.Line prints a space per continuation cell: C11_row_strip_grid_refuted) *)
Theorem C02views_grid_full : forall row,
  let sps := TtyFrontend.styled_line true 0 (zlen row) row in
  spans_row sps = row /\ sps = runs row /\ render_runs sps = render_line_ansi row /\
  (Forall strippable row -> strip_sgr (render_runs sps) = Render.line_text (spans_row sps)) /\
  (Forall strippable row -> Forall noncont row -> strip_sgr (render_runs sps) = line_text_grid row).
Proof. exact grid_styled_line_full. Qed.
Print Assumptions C02views_grid_full.
Theorem C02views_group_runs : forall row, TtyFrontend.group_runs row = runs row.
Proof. exact group_runs_runs. Qed.
Print Assumptions C02views_group_runs.

(* TtyFrontend's cell-level model of the SPAN buffer's StyledLine ([sub_cells false]) agrees with
   the span model whenever no edge cuts a glyph *)
Theorem C02views_span_tty : forall wc, wc_multibyte wc -> forall W l x w,
  wf_line wc W l -> safe_line wc l -> 0 <= x -> 0 <= w -> x + w <= W ->
  is_cont (znth x (abs_line wc l) dcell) = false -> is_cont (znth (x + w) (abs_line wc l) dcell) = false ->
  abs_spans wc (fst (styled_line wc W l x w)) = TtyFrontend.sub_cells false x w (abs_line wc l) /\
  TtyFrontend.styled_line false x w (abs_line wc l) = TtyFrontend.group_runs (abs_spans wc (fst (styled_line wc W l x w))).
Proof. exact span_styled_line_tty. Qed.
Print Assumptions C02views_span_tty.

(* ---- every reachable row ---- *)
(* for every history of reads and resizes on which no known-finding mark fires ([tz]), every row
   of both buffers of the span terminal, whatever maxWidth the first blocked read holds *)
Theorem C02views_reachable : forall wc, wc_multibyte wc -> forall mw w h ops, 1 <= w -> 1 <= h -> hist_ok ops ->
  tz (fst (run_hist wc false (init_term w h) ops)) ->
  let st := fst (fst (s_run_hist_from wc mw (s_init_term w h) ops)) in
  forall s, s = smain st \/ s = salt st -> forall l, In l (zlines s) ->
    wf_line wc (zW s) l /\ safe_line wc l /\
    Forall (fun sp => 0 < sp_width sp) (sl_spans l) /\ spans_width (sl_spans l) = zW s /\
    Span.line_text (zW s) l = Render.line_text (abs_line wc l) /\
    Span.line_text (zW s) l = flat_map span_text (sl_spans l) /\
    styled_line wc (zW s) l 0 (zW s) = (sl_spans l, zW s).
Proof. exact reachable_row_views. Qed.
Print Assumptions C02views_reachable.

(* ---- non-vacuity ---- *)
(* "a", U+4E2D (two cells), "b" in red in one text run; a fill run of three 'x' in the default
   style; two red blanks: 9 cells, oracle wc_ex (satisfies wc_multibyte: C20span_oracle_ok) *)
Example C02views_example :
  wf_line wc_ex 9 ex_line /\ safe_line wc_ex ex_line /\ Forall (span_strippable) (sl_spans ex_line) /\
  Span.line_text 9 ex_line = [97; 228; 184; 173; 98; 120; 120; 120; 32; 32] /\
  Render.line_text (abs_line wc_ex ex_line) = Span.line_text 9 ex_line /\
  styled_line wc_ex 9 ex_line 0 9 = (sl_spans ex_line, 9) /\
  strip_sgr (render_line_ansi (abs_line wc_ex ex_line)) = Span.line_text 9 ex_line /\
  is_cont (znth 1 (abs_line wc_ex ex_line) dcell) = false /\ is_cont (znth 5 (abs_line wc_ex ex_line) dcell) = false /\
  styled_line wc_ex 9 ex_line 1 4 = ([mk_span ex_red [228; 184; 173; 98] 0 3; mk_span default_style [] 120 1], 4) /\
  abs_spans wc_ex (fst (styled_line wc_ex 9 ex_line 1 4)) = zfirstn 4 (zskipn 1 (abs_line wc_ex ex_line)).
Proof. exact views_example. Qed.
Print Assumptions C02views_example.
Theorem C02views_oracle_ok : wc_multibyte wc_ex.
Proof. exact wc_ex_multibyte. Qed.
Print Assumptions C02views_oracle_ok.
