(* C02 — The screen is always a well-formed W x H grid with an in-range cursor.
   Statements only. *)
From Coq Require Import List ZArith Bool.
From Termemu Require Import Base Style Screen Parser Term ScreenInv TermInv HistProofs GlyphInv.
Import ListNotations.
Open Scope Z_scope.

(* For every width oracle, buffer kind, initial size >= 1x1 and every history of
   backend reads (arbitrary bytes, arbitrary chunking) and Resize calls to sizes
   >= 1x1: after every prefix of the history both buffers have exactly H rows of
   exactly W cells, cursor and saved cursor inside the screen, a non-empty scroll
   region inside the screen, equal sizes, and no panic site was reached. *)
Theorem C02_inv : forall (wc : Z -> Z) (grid : bool) w h ops n,
  1 <= w -> 1 <= h -> hist_ok ops ->
  TInv (fst (run_hist wc grid (init_term w h) (firstn n ops))).
Proof. exact TInv_every_prefix. Qed.
Print Assumptions C02_inv.

(* what TInv says, spelled out for one buffer *)
Theorem C02_inv_meaning : forall s, Inv s ->
  zlen (rows s) = sH s /\ Forall (fun r => zlen r = sW s) (rows s) /\
  0 <= cx s < sW s /\ 0 <= cy s < sH s /\ 0 <= svx s < sW s /\ 0 <= svy s < sH s /\
  0 <= top s <= bot s /\ bot s < sH s /\ crash s = 0.
Proof. exact Inv_meaning. Qed.
Print Assumptions C02_inv_meaning.

(* one-step forms, usable from any well-formed state (not only reachable ones) *)
Theorem C02_token : forall k t, TInv t -> TInv (exec_tok k t).
Proof. exact TInv_exec_tok. Qed.
Print Assumptions C02_token.

Theorem C02_resize : forall w h t, TInv t -> 1 <= w -> 1 <= h -> TInv (resize w h t).
Proof. exact TInv_resize. Qed.
Print Assumptions C02_resize.

(* non-vacuity: a concrete history with wide glyphs, scrolling, margins and resizes *)
Example C02_example :
  let ops := [HFeed [228;184;173;27;91;50;59;51;114;10;10;10;97]; HResize 2 1; HFeed [240;159;144;185;27;91;53;83]; HResize 5 4] in
  hist_ok ops /\ sW (tmain (fst (run_hist (fun _ => 2) false (init_term 4 3) ops))) = 5.
Proof. exact hist_example. Qed.

(* glyph structure: after every prefix of every history every row of both buffers is a sequence of
   whole glyphs — a head cell of width w >= 1 followed by exactly w-1 continuation cells (no half
   character, no orphan continuation cell) *)
Theorem C02_glyphs : forall wc grid w h ops n, 1 <= w -> 1 <= h -> hist_ok ops ->
  let t := fst (run_hist wc grid (init_term w h) (firstn n ops)) in
  Forall row_ok (rows (tmain t)) /\ Forall row_ok (rows (talt t)).
Proof. exact glyphs_every_prefix. Qed.
Print Assumptions C02_glyphs.
