(* C18 — Resize(w,h) to any positive size at any moment leaves every cell of
   the old/new overlap (clipped to whole characters) with its previous text and
   attributes on both buffers, fills new cells with blanks, and reports the new
   size from Size.  Cursor, saved cursor and scroll region are brought inside the
   new screen.
   Statements only.  Vocabulary (Spec/ScreenSpec.v):
     straddles row w x   cell x < w belongs to a wide glyph that also owns cell w (the
                         glyph is cut by a new right edge at column w)
     unglyph c           a blank (space, width 1) keeping the style of c
     resize_cells w h s s'     the cell-level effect of a resize on one buffer (spelled
                               out in C18_set_size_cell)
     resize_margins h s        the scroll region after a resize to height h
     resize_geometry w h s s'  size, cursor, saved cursor, margins of s' (spelled out in
                               C18_set_size_geometry) *)
From Coq Require Import List ZArith Bool.
From Termemu Require Import Base Style Screen Parser Term ScreenInv TermInv HistProofs ScreenSpec RowLemmas EraseProofs ResizeProofs.
Import ListNotations.
Open Scope Z_scope.

(* fit_row st w row at every index i < w: cells of the old row are kept, except
   that a glyph straddling the cut becomes blanks in its own style; cells beyond
   the old row are blanks in style st *)
Theorem C18_fit_row_cells : forall st w row i d, 1 <= w -> 0 <= i < w ->
  znth i (fit_row st w row) d =
    if i <? zlen row then
      if straddles row w i then unglyph (znth i row d) else znth i row d
    else blank st.
Proof. exact fit_row_znth. Qed.
Print Assumptions C18_fit_row_cells.

(* every cell of the new w x h screen *)
Theorem C18_set_size_cell : forall w h s, Inv s -> 1 <= w -> 1 <= h ->
  forall x y, 0 <= x < w -> 0 <= y < h ->
    cell_at (set_size w h s) x y =
      if (y <? sH s) && (x <? sW s) then
        if straddles (row_at s y) w x then unglyph (cell_at s x y) else cell_at s x y
      else blank (sty s).
Proof. exact set_size_cell. Qed.
Print Assumptions C18_set_size_cell.

(* in a row where no glyph crosses the new right edge, the overlap is untouched *)
Theorem C18_set_size_cell_keep : forall w h s x y, Inv s -> 1 <= w -> 1 <= h ->
  0 <= x < w -> x < sW s -> 0 <= y < h -> y < sH s ->
  is_cont (cell_at s w y) = false ->
  cell_at (set_size w h s) x y = cell_at s x y.
Proof. exact set_size_cell_keep. Qed.
Print Assumptions C18_set_size_cell_keep.

(* new size; cursor and saved cursor clamped into the new screen; the bottom margin
   keeps its distance from the bottom edge (clamped), and if that puts it above
   the top margin the region becomes the whole screen; autowrap and current style kept *)
Theorem C18_set_size_geometry : forall w h s, 1 <= w -> 1 <= h ->
  let s' := set_size w h s in
  sW s' = w /\ sH s' = h
  /\ cursor_of s' = (clamp (cx s) 0 (w - 1), clamp (cy s) 0 (h - 1))
  /\ (svx s', svy s') = (clamp (svx s) 0 (w - 1), clamp (svy s) 0 (h - 1))
  /\ (top s', bot s') =
       (let b := clamp (h - (sH s - bot s)) 0 (h - 1) in if b <? top s then (0, h - 1) else (top s, b))
  /\ awrap s' = awrap s /\ sty s' = sty s /\ crash s' = crash s.
Proof. exact set_size_geometry. Qed.
Print Assumptions C18_set_size_geometry.

(* the result is a well-formed w x h screen again (re-export from ScreenInv.v) *)
Theorem C18_set_size_inv : forall w h s, Inv s -> 1 <= w -> 1 <= h ->
  Inv (set_size w h s) /\ sW (set_size w h s) = w /\ sH (set_size w h s) = h.
Proof. exact set_size_ok. Qed.
Print Assumptions C18_set_size_inv.

(* Terminal.Resize applies this to both buffers (whichever is displayed), changes
   no register, no keyboard state and sends nothing to the application; the only
   callbacks are one StyleChanged per buffer (main first; the log is newest first) *)
Theorem C18_resize : forall w h t, TInv t -> 1 <= w -> 1 <= h ->
  let t' := resize w h t in
  resize_cells w h (tmain t) (tmain t') /\ resize_geometry w h (tmain t) (tmain t')
  /\ resize_cells w h (talt t) (talt t') /\ resize_geometry w h (talt t) (talt t')
  /\ onalt t' = onalt t /\ vflags t' = vflags t /\ vints t' = vints t /\ vstrs t' = vstrs t
  /\ kbm t' = kbm t /\ kba t' = kba t /\ tout t' = tout t
  /\ tlog t' = EStyle (sty (active t')) :: ECursor (cx (active t')) (cy (active t'))
               :: EStyle (sty (talt t)) :: EStyle (sty (tmain t)) :: tlog t.
Proof. exact resize_spec. Qed.
Print Assumptions C18_resize.

(* "at any moment": in particular for the terminal reached by any history of
   backend reads (arbitrary bytes and chunking, e.g. stopping inside an escape
   sequence or a multi-byte character) and earlier Resize calls, from any initial size *)
Theorem C18_resize_any_moment : forall (wc : Z -> Z) (grid : bool) w0 h0 ops w h,
  1 <= w0 -> 1 <= h0 -> hist_ok ops -> 1 <= w -> 1 <= h ->
  let t := fst (run_hist wc grid (init_term w0 h0) ops) in
  let t' := resize w h t in
  resize_cells w h (tmain t) (tmain t') /\ resize_geometry w h (tmain t) (tmain t')
  /\ resize_cells w h (talt t) (talt t') /\ resize_geometry w h (talt t) (talt t')
  /\ onalt t' = onalt t /\ vflags t' = vflags t /\ vints t' = vints t /\ vstrs t' = vstrs t
  /\ kbm t' = kbm t /\ kba t' = kba t /\ tout t' = tout t
  /\ tlog t' = EStyle (sty (active t')) :: ECursor (cx (active t')) (cy (active t'))
               :: EStyle (sty (talt t)) :: EStyle (sty (tmain t)) :: tlog t.
Proof. exact resize_any_moment. Qed.
Print Assumptions C18_resize_any_moment.

(* ---------------- examples: the 5x7 screen resized (resized w h = main buffer after Resize) ---------------- *)
Example C18_row_example :
  fit_row stC 3 ([ch 97 stA; ch 98 stA] ++ wide 20013 stB ++ [ch 99 stA]) = [ch 97 stA; ch 98 stA; blank stB]
  /\ fit_row stC 4 ([ch 97 stA; ch 98 stA] ++ wide 20013 stB ++ [ch 99 stA]) = [ch 97 stA; ch 98 stA] ++ wide 20013 stB
  /\ fit_row stC 6 ([ch 97 stA; ch 98 stA] ++ wide 20013 stB ++ [ch 99 stA])
     = [ch 97 stA; ch 98 stA] ++ wide 20013 stB ++ [ch 99 stA; blank stC].
Proof. exact fit_row_example. Qed.

Example C18_shrink_example :
  rows (resized 3 2) = [ [ch 97 stA; ch 98 stA; blank stB]; wide 22269 stA ++ [ch 100 stB] ]
  /\ cursor_of (resized 3 2) = (2, 1) /\ (svx (resized 3 2), svy (resized 3 2)) = (1, 1)
  /\ (top (resized 3 2), bot (resized 3 2)) = (0, 1) /\ (sW (resized 3 2), sH (resized 3 2)) = (3, 2).
Proof. exact resize_example_small. Qed.

Example C18_cut_example : row_at (resized 4 7) 1 = wide 22269 stA ++ [ch 100 stB; blank stC]
  /\ row_at (resized 4 7) 5 = wide 19968 stC ++ wide 20108 stA.
Proof. exact resize_example_cut. Qed.

Example C18_grow_example :
  row_at (resized 7 9) 1 = wide 22269 stA ++ [ch 100 stB] ++ wide 26085 stC ++ [blank stB; blank stB]
  /\ row_at (resized 7 9) 8 = blank_row 7 stB
  /\ cursor_of (resized 7 9) = (4, 1) /\ (top (resized 7 9), bot (resized 7 9)) = (1, 7)
  /\ tlog (resize 7 9 ex_term) = [EStyle stB; ECursor 4 1; EStyle default_style; EStyle stB].
Proof. exact resize_example_grow. Qed.

Example C18_margins_example : resize_margins 2 ex_scr = (0, 1) /\ resize_margins 4 ex_scr = (1, 2)
  /\ resize_margins 3 ex_scr = (1, 1) /\ resize_margins 20 ex_scr = (1, 18).
Proof. exact resize_margins_example. Qed.
