(* C20 (span part, both text modes) - the stepper-parametric span model.

   Model/GSpan.v restates the span buffer and its terminal over the cluster stepper
   stepTextCluster(buf, state, mode) instead of a width oracle; the correspondence check compares
   its grapheme-mode instance (the uniseg model as the stepper, the reader's token rules with merge
   runs, mergeIntoPreviousCell) with the real read loop after every operation in the raw
   representation, as it does for rune mode with Model/SpanScreen.v.  The theorems here say that
   the parametric model is a generalisation of the verified rune-mode model, not a second model
   next to it: instantiated with the rune-mode stepper it IS Model/Span.v / Model/SpanScreen.v,
   for every width oracle.  Statements only. *)
From Coq Require Import List ZArith Bool.
From Termemu Require Import Base Style Screen Kbd Parser Term Uniseg Grapheme Span SpanScreen GSpan GSpanRune.
Import ListNotations.
Open Scope Z_scope.

(* the row primitives *)
Theorem C20gspan_rune_split_span : forall wc sp off,
  g_split_span true (rune_stepper wc) sp off = split_span wc sp off.
Proof. exact g_split_span_rune. Qed.
Print Assumptions C20gspan_rune_split_span.

Theorem C20gspan_rune_replace_range : forall wc l x n ins,
  g_replace_range true (rune_stepper wc) l x n ins = replace_range wc l x n ins.
Proof. exact g_replace_range_rune. Qed.
Print Assumptions C20gspan_rune_replace_range.

Theorem C20gspan_rune_clusters_fitting : forall wc text avail st,
  g_clusters_fitting (rune_stepper wc) text avail st = (clusters_fitting wc text avail, st).
Proof. exact g_clusters_fitting_rune. Qed.
Print Assumptions C20gspan_rune_clusters_fitting.

Theorem C20gspan_rune_styled_line : forall wc W l x w,
  g_styled_line true (rune_stepper wc) W l x w = styled_line wc W l x w.
Proof. exact g_styled_line_rune. Qed.
Print Assumptions C20gspan_rune_styled_line.

(* the cell projection (verifExpandSpans): with a stepper that never returns width 0 it is the
   span-by-span expansion of Span.v *)
Theorem C20gspan_rune_cells : forall wc t, g_abs_sterm (rune_stepper wc) t = abs_sterm wc t.
Proof. exact g_abs_sterm_rune. Qed.
Print Assumptions C20gspan_rune_cells.

(* the screen methods and writeString without the merge flag *)
Theorem C20gspan_rune_raw_write_span : forall wc x y sp reason s,
  g_s_raw_write_span true (rune_stepper wc) x y sp reason s = s_raw_write_span wc x y sp reason s.
Proof. exact g_s_raw_write_span_rune. Qed.
Print Assumptions C20gspan_rune_raw_write_span.

Theorem C20gspan_rune_delete_chars : forall wc x y n s,
  g_s_delete_chars true (rune_stepper wc) x y n s = s_delete_chars wc x y n s.
Proof. exact g_s_delete_chars_rune. Qed.
Print Assumptions C20gspan_rune_delete_chars.

Theorem C20gspan_rune_set_size : forall wc w h s,
  g_s_set_size true (rune_stepper wc) w h s = s_set_size wc w h s.
Proof. exact g_s_set_size_rune. Qed.
Print Assumptions C20gspan_rune_set_size.

Theorem C20gspan_rune_write_string : forall wc text width s,
  g_s_write_string true (rune_stepper wc) text width false s = s_write_string wc text width s.
Proof. exact g_s_write_string_rune. Qed.
Print Assumptions C20gspan_rune_write_string.

(* the reader: runs of single runes, never a merge run, reader state untouched *)
Theorem C20gspan_rune_reader : forall wc maxw buf rs,
  g_read_run (rune_ntok wc) maxw buf rs = (read_run wc maxw buf, false, rs).
Proof. exact g_read_run_rune. Qed.
Print Assumptions C20gspan_rune_reader.

(* one operation and whole histories: terminal, pending bytes and the blocked read's maxWidth are those
   of SpanScreen.v (the reader state, which rune mode never looks at, is dropped) *)
Theorem C20gspan_rune_hstep : forall wc t rs pend mw o,
  drop_rs (rm_hstep wc (t, rs, pend, mw) o) = s_hstep wc (t, pend, mw) o.
Proof. exact g_s_hstep_rune. Qed.
Print Assumptions C20gspan_rune_hstep.

Theorem C20gspan_rune_hist : forall wc t ops, drop_rs (rm_run_hist wc t ops) = s_run_hist wc t ops.
Proof. exact g_s_run_hist_rune. Qed.
Print Assumptions C20gspan_rune_hist.

(* where the modes differ: the byte-indexed fast path of replaceRange exists in rune mode only *)
Theorem C20gspan_fast_path_differs :
  let l := mkLine [mk_span default_style [97; 98] 0 2] 2 in
  let ins := mk_span default_style [99] 0 1 in
  sl_spans (g_replace_range true (rune_stepper (fun _ => 1)) l 1 1 ins) = [mk_span default_style [97; 99] 0 2] /\
  sl_spans (g_replace_range false grapheme_stepper l 1 1 ins)
    = [mk_span default_style [97] 0 1; mk_span default_style [99] 0 1].
Proof. exact gspan_fast_path_differs. Qed.
Print Assumptions C20gspan_fast_path_differs.

(* known finding KF-grapheme-merge on the model itself: "a", a joiner, "b" in three reads leave one span of
   claimed width 1 whose text measures two cells - five cells on a row four wide.  The grapheme-mode
   correspondence compares exactly this, nothing is excused. *)
Theorem C20gspan_forced_merge_row :
  let '(t, rs, _, _) := gm_run_hist (s_init_term 4 1) [HFeed [97]; HFeed [226; 128; 141]; HFeed [98]] in
  map (fun sp => (sp_text sp, sp_width sp)) (sl_spans (line_at (smain t) 0)) = [([97; 226; 128; 141; 98], 1); ([], 3)] /\
  map cwid (g_abs_line gm_step (line_at (smain t) 0)) = [1; 1; 1; 1; 1] /\
  zcx (smain t) = 1 /\ rs_fm rs = false.
Proof. exact gspan_forced_merge_row. Qed.
Print Assumptions C20gspan_forced_merge_row.
