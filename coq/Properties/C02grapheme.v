(* C02 for both text modes over the concrete width and segmentation model, and the facts about the
   width function that the span theorems (C02span.v) take as hypotheses.  Statements only. *)
From Coq Require Import List ZArith Bool.
From Termemu Require Import Base Style Screen Parser Term ScreenInv TermInv HistProofs GlyphInv Span
  Uniseg Grapheme GTerm GTermProofs UnisegProofs.
Import ListNotations.
Open Scope Z_scope.

(* after every prefix of every history, in rune or grapheme mode: both buffers are H rows of W cells
   with cursor, saved cursor and margins in range, equal sizes, every row a sequence of whole glyphs *)
Theorem C02_grapheme_inv : forall grapheme grid w h ops n, 1 <= w -> 1 <= h -> hist_ok ops ->
  let t := gterm (grun_hist grapheme grid (init_term w h) (firstn n ops)) in
  TInv t /\ Forall row_ok (rows (tmain t)) /\ Forall row_ok (rows (talt t)) /\ crashed t = false.
Proof. exact grapheme_hist_inv_prefix. Qed.
Print Assumptions C02_grapheme_inv.

(* one step: any token of the grapheme-mode reader, a merge token included, keeps the invariant *)
Theorem C02_grapheme_token : forall k t, TInv2 t -> TInv2 (gexec k t).
Proof. exact TInv2_gexec. Qed.
Print Assumptions C02_grapheme_token.

(* the width function of the uniseg model: 0..4 cells; ASCII one cell *)
Theorem C02_uwc_range : forall r, 0 <= uwc r <= 4.
Proof. exact uwc_range. Qed.
Print Assumptions C02_uwc_range.
Theorem C02_uwc_ascii : forall r, 32 <= r <= 126 -> uwc r = 1.
Proof. exact uwc_ascii. Qed.
Print Assumptions C02_uwc_ascii.

(* the hypothesis [wc_multibyte] of the span theorems, for the real width function: a character takes at
   most max(1, bytes-1) cells, with exactly two exceptions, U+2E3A and U+2E3B (known finding KF-D40) *)
Theorem C02_uwc_multibyte_except : forall buf r size v, decode_rune buf = Some (r, size, v) ->
  r <> 11834 -> r <> 11835 -> cluster_width uwc r <= Z.max 1 (size - 1).
Proof. exact uwc_multibyte_except. Qed.
Print Assumptions C02_uwc_multibyte_except.
Theorem C02_uwc_multibyte_refuted : ~ wc_multibyte uwc.
Proof. exact uwc_multibyte_refuted. Qed.
Print Assumptions C02_uwc_multibyte_refuted.

(* non-vacuity *)
Example C02_grapheme_example :
  let ops := [HFeed [27;91;63;55;104;101]; HFeed [204;129]; HFeed [240;159;145;169;226;128;141;240;159;145;169;120];
              HResize 6 2; HFeed [240;159;135;186;240;159;135;184]] in
  let t := gterm (grun_hist true false (init_term 8 2) ops) in
  hist_ok ops /\
  ctext (cell_at (tmain t) 0 0) = [101;204;129] /\ cwid (cell_at (tmain t) 0 0) = 1 /\
  ctext (cell_at (tmain t) 1 0) = [240;159;145;169;226;128;141;240;159;145;169] /\ cwid (cell_at (tmain t) 1 0) = 2 /\
  cwid (cell_at (tmain t) 4 0) = 2 /\ cx (tmain t) = 0 /\ cy (tmain t) = 1.
Proof. exact grapheme_example. Qed.
