(* C08, grapheme clause: a cut between reads that does not fall inside an extended grapheme cluster.
   After a cluster that ends with the buffered bytes the reader restarts segmentation (state -1), where an
   uncut read carries the state uniseg.Step returned.  Proved here, over the transition table generated from
   the library's source: that carried state is always the state a fresh start computes for the next
   character, so the next cluster - byte length, width, new state - and the reader's next token are the same
   either way (C08_grapheme_cut_partial, C08_grapheme_cut_token).  C08_token_prefix: a token of a ++ b that ends
   inside a is the token of a alone (prefix stability of the loop of Step under extension of the buffer).
   C08_grapheme_cut_text puts them together for a run of text: if the tokens of a ++ b have a boundary at |a|,
   reading a and then b yields the same tokens, the same final reader state and the same bytes left as reading
   a ++ b whole.  The screens are a fold of the token execution over these tokens; escape sequences between runs
   of text are covered by the monotonicity theorems of C08.v (they do not depend on the text mode), and ReadByte
   resets the segmentation state in both readings.  Statements only. *)
From Coq Require Import List ZArith Bool.
From Termemu Require Import Base Parser Gen_Uniseg Uniseg Grapheme SegCutProofs.
Import ListNotations.
Open Scope Z_scope.

(* wherever the grapheme state machine announces a boundary, its new state is the one a fresh start (state -1)
   computes for a character of the same property: for every state and property, not only reachable ones *)
Theorem C08_boundary_state_is_fresh : forall gs p ns p', trans_prop gs p = (ns, p', true) -> ns = fresh p.
Proof. exact trans_prop_fresh. Qed.
Print Assumptions C08_boundary_state_is_fresh.

(* the state Step returns in front of a further character describes that character and is fresh *)
Theorem C08_step_state : forall buf st c w g p, ustep buf st = (c, w, Some (g, p)) -> c < zlen buf ->
  p = prop_graphemes (fst (go_decode_rune (zskipn c buf))) /\ g = fresh p.
Proof. exact ustep_fresh_state. Qed.
Print Assumptions C08_step_state.

(* the next cluster is the same whether the state was carried over the boundary or reset there *)
Theorem C08_grapheme_cut_partial : forall buf st c w g p, ustep buf st = (c, w, Some (g, p)) -> c < zlen buf ->
  ustep (zskipn c buf) (Some (g, p)) = ustep (zskipn c buf) None.
Proof. exact ustep_after_boundary. Qed.
Print Assumptions C08_grapheme_cut_partial.

(* and so is the reader's next token, whatever the merge flags *)
Theorem C08_grapheme_cut_token : forall buf st c w g p fm ri, ustep buf st = (c, w, Some (g, p)) -> c < zlen buf ->
  next_grapheme_token (zskipn c buf) (mkRs (Some (g, p)) fm ri) = next_grapheme_token (zskipn c buf) (mkRs None fm ri).
Proof. exact next_token_after_boundary. Qed.
Print Assumptions C08_grapheme_cut_token.

(* a token of x ++ b that ends inside x is the token of x alone; [aligned x]: x is made of whole UTF-8 decoding
   steps (no character is cut at its end - a cut inside a character is a cut inside a cluster) *)
Theorem C08_token_prefix : forall x b rs tk, aligned x -> x <> [] ->
  next_grapheme_token (x ++ b) rs = Some tk -> tt_len tk <= zlen x ->
  exists tk', next_grapheme_token x rs = Some tk' /\
    tt_len tk' = tt_len tk /\ tt_width tk' = tt_width tk /\ tt_merge tk' = tt_merge tk /\
    rs_fm (tt_rs tk') = rs_fm (tt_rs tk) /\ rs_ri (tt_rs tk') = rs_ri (tt_rs tk) /\
    (tt_len tk < zlen x -> rs_state (tt_rs tk') = rs_state (tt_rs tk) /\ aligned (zskipn (tt_len tk) x)) /\
    (tt_len tk = zlen x -> rs_state (tt_rs tk') = None).
Proof. exact token_prefix. Qed.
Print Assumptions C08_token_prefix.

(* The grapheme clause for a run of text.  [toks buf rs l rs' rest]: reading buf from reader state rs yields the tokens
   l (bytes, width, merge flag each), ends in state rs' and leaves rest (nothing, or an incomplete character).
   If the tokens of a ++ b have a boundary at |a| - the cut does not fall inside a cluster - then a alone yields the
   tokens before the boundary and leaves nothing, and b, read from the state the reader has after a read boundary
   (segmentation restarted, merge flags kept), yields the remaining tokens, the same final state, the same rest. *)
Theorem C08_grapheme_cut_text : forall l1 a b rs l2 rs' rest, aligned a -> b <> [] -> rs_ok rs (a ++ b) ->
  toks (a ++ b) rs (l1 ++ l2) rs' rest -> toks_len l1 = zlen a ->
  exists rs1, toks a rs l1 rs1 [] /\ toks b (rs_reset_state rs1) l2 rs' rest.
Proof. exact toks_cut. Qed.
Print Assumptions C08_grapheme_cut_text.

(* every state the reader is ever in satisfies rs_ok: the initial one, the one after ReadByte, and by
   C08_token_state the one after every token *)
Theorem C08_token_state : forall buf rs tk, next_grapheme_token buf rs = Some tk -> rs_ok (tt_rs tk) (zskipn (tt_len tk) buf).
Proof. exact token_state_ok. Qed.
Print Assumptions C08_token_state.

(* non-vacuity of C08_grapheme_cut_text: 'e' U+0301 | 'x', cut between the two clusters *)
Example C08_grapheme_cut_text_example :
  let a := [101; 204; 129] in let b := [120] in
  aligned a /\ b <> [] /\ rs_ok rs0 (a ++ b) /\
  toks (a ++ b) rs0 ([(3, 1, false)] ++ [(1, 1, false)]) rs0 [] /\ toks_len [(3, 1, false)] = zlen a.
Proof.
  cbv zeta. repeat split.
  - eapply (al_cons _ 101 1 true); [reflexivity|]. eapply (al_cons _ 769 2 true); [reflexivity|]. apply al_nil.
  - discriminate.
  - apply (toks_step _ _ (mkTtok 3 1 false (mkRs (Some (0, 1)) false false))); [discriminate|vm_compute; reflexivity|].
    apply (toks_step _ _ (mkTtok 1 1 false (mkRs None false false))); [discriminate|vm_compute; reflexivity|].
    apply toks_stop. left. reflexivity.
Qed.

(* non-vacuity: a flag followed by a ZWJ sequence: the state carried over the boundary between them *)
Example C08_grapheme_cut_example :
  let buf := [240;159;135;186;240;159;135;184;240;159;145;169;226;128;141;240;159;145;169] in
  exists w g p, ustep buf None = (8, w, Some (g, p)) /\ 8 < zlen buf.
Proof. cbv zeta. eexists _, _, _. split; [vm_compute; reflexivity|vm_compute; reflexivity]. Qed.
