(* C08, grapheme clause: a cut between reads that does not fall inside an extended grapheme cluster.
   After a cluster that ends with the buffered bytes the reader restarts segmentation (state -1), where an
   uncut read carries the state uniseg.Step returned.  Proved here, over the transition table generated from
   the library's source: that carried state is always the state a fresh start computes for the next
   character, so the next cluster - byte length, width, new state - and the reader's next token are the same
   either way.  C08_grapheme_cut_partial: the full clause ("the screens after reading a ++ b whole and after
   reading a, then b, are equal when a token boundary of the whole read falls at |a|") additionally needs
   that the tokens of a alone are the tokens of a ++ b up to |a| (prefix stability of the loop of Step
   under extension of the buffer); that part is decided by the segmentation engine and by the correspondence
   of cut streams with the model, not by a theorem.  Statements only. *)
From Coq Require Import List ZArith Bool.
From Termemu Require Import Base Parser Gen_Uniseg Uniseg Grapheme SegCutProofs.
Import ListNotations.
Open Scope Z_scope.

(* wherever the grapheme state machine announces a boundary, its new state is the one a fresh start (state -1)
   computes for a character of the same property: for every state and property, not only reachable ones *)
Theorem C08_boundary_state_is_fresh : forall gs p ns p', trans_prop gs p = (ns, p', true) -> ns = fresh p.
Proof. exact trans_prop_fresh. Qed.
Print Assumptions C08_boundary_state_is_fresh.

(* the state Step returns in front of a further character describes that character and is fresh *)
Theorem C08_step_state : forall buf st c w g p, ustep buf st = (c, w, Some (g, p)) -> c < zlen buf ->
  p = prop_graphemes (fst (go_decode_rune (zskipn c buf))) /\ g = fresh p.
Proof. exact ustep_fresh_state. Qed.
Print Assumptions C08_step_state.

(* the next cluster is the same whether the state was carried over the boundary or reset there *)
Theorem C08_grapheme_cut_partial : forall buf st c w g p, ustep buf st = (c, w, Some (g, p)) -> c < zlen buf ->
  ustep (zskipn c buf) (Some (g, p)) = ustep (zskipn c buf) None.
Proof. exact ustep_after_boundary. Qed.
Print Assumptions C08_grapheme_cut_partial.

(* and so is the reader's next token, whatever the merge flags *)
Theorem C08_grapheme_cut_token : forall buf st c w g p fm ri, ustep buf st = (c, w, Some (g, p)) -> c < zlen buf ->
  next_grapheme_token (zskipn c buf) (mkRs (Some (g, p)) fm ri) = next_grapheme_token (zskipn c buf) (mkRs None fm ri).
Proof. exact next_token_after_boundary. Qed.
Print Assumptions C08_grapheme_cut_token.

(* non-vacuity: a flag followed by a ZWJ sequence: the state carried over the boundary between them *)
Example C08_grapheme_cut_example :
  let buf := [240;159;135;186;240;159;135;184;240;159;145;169;226;128;141;240;159;145;169] in
  exists w g p, ustep buf None = (8, w, Some (g, p)) /\ 8 < zlen buf.
Proof. cbv zeta. eexists _, _, _. split; [vm_compute; reflexivity|vm_compute; reflexivity]. Qed.
