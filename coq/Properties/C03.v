(* C03 — Printable text lands at the cursor and wraps or pins at the right edge.
   Statements only.  [gw s w0] is the width used for a glyph whose oracle width is w0
   (at least 1, at most the screen width); [wrote s s' x txt w] says that the only
   change to the rows is the overwrite of cells [x, x+w) of the cursor row by the
   glyph (head cell + continuation cells) in the current style; [frame_nocur] says
   size, saved cursor, margins, autowrap and style are unchanged and nothing crashed. *)
From Coq Require Import List ZArith Bool.
From Termemu Require Import Base Style Screen Parser Term ScreenInv TermInv HistProofs CursorProofs
  ScreenSpec RowLemmas GlyphInv WriteProofs.
Import ListNotations.
Open Scope Z_scope.

(* a printable token is one glyph written on the active buffer (the add_trig mark only records, for the
   correspondence check, that a raw invalid byte was stored; it is invisible: C03_mark_invisible) *)
Theorem C03_dispatch : forall txt r w t,
  exec_tok (TGlyph txt r w) t =
  on_screen (fun s => write_glyph txt (glyph_width w)
                        (if (r =? runeError) && negb (list_eqb Z.eqb txt utf8_replacement)
                         then add_trig trInvalidUtf8 s else s)) t.
Proof. exact glyph_dispatch. Qed.
Print Assumptions C03_dispatch.

Theorem C03_mark_invisible : forall s v, vis (add_trig v s) = vis s.
Proof. exact vis_add_trig. Qed.
Print Assumptions C03_mark_invisible.

(* what a glyph write is: wrap (index, scrolling at the bottom edge of the region) or pin when it
   does not fit, write it at the cursor, advance with immediate wrap *)
Theorem C03_algorithm : forall txt w0 s, Inv s ->
  vis (write_glyph txt w0 s) = vis (write_core txt (gw s w0) s).
Proof. exact write_glyph_core. Qed.
Print Assumptions C03_algorithm.

(* the glyph fits strictly inside the row: stored in the cells starting at the cursor with the
   current attributes, cursor advanced by its width, everything else unchanged *)
Theorem C03_inside : forall txt w0 s, Inv s -> cx s + gw s w0 < sW s ->
  let s' := write_glyph txt w0 s in
  wrote s s' (cx s) txt (gw s w0) /\ cx s' = cx s + gw s w0 /\ cy s' = cy s /\ frame_nocur s s'.
Proof. exact write_glyph_inside. Qed.
Print Assumptions C03_inside.

(* which cells an overwrite changes: the new cells in [x, x+n); blanks in the current style where a
   wide glyph was cut by either boundary (so no half character survives); every other cell unchanged *)
Theorem C03_cells : forall st x new row i d,
  0 <= x -> 0 < zlen new -> x + zlen new <= zlen row ->
  znth i (overwrite st x new row) d =
    if zin x (x + zlen new) i then znth (i - x) new d
    else if zin (left_edge row x) x i || zin (x + zlen new) (x + zlen new + cont_run row (x + zlen new)) i
         then blank st
         else znth i row d.
Proof. exact overwrite_znth. Qed.
Print Assumptions C03_cells.

(* autowrap off at the right edge: the glyph is pinned so that it ends in the last column and the
   cursor stays in the last column (it keeps overwriting the last column) *)
Theorem C03_pins : forall txt w s, Inv s -> 1 <= w <= sW s -> awrap s = false -> sW s <= cx s + w ->
  let s' := write_core txt w s in
  wrote s s' (sW s - w) txt w /\ cx s' = sW s - 1 /\ cy s' = cy s /\ frame_nocur s s'.
Proof. exact write_core_pins. Qed.
Print Assumptions C03_pins.

(* autowrap on, the glyph exactly fills the row: written in place, cursor to column 0 of the next
   row, scrolling the region by one when the cursor was on its bottom row *)
Theorem C03_fills_and_wraps : forall txt w s, Inv s -> 1 <= w <= sW s -> awrap s = true -> cx s + w = sW s ->
  let s' := write_core txt w s in
  let written := set_rows (zupd (cy s) (overwrite (sty s) (cx s) (glyph_cells txt w (sty s)) (row_at s (cy s))) (rows s)) s in
  cx s' = 0 /\
  (at_bottom_edge s = false -> wrote s s' (cx s) txt w /\ cy s' = Z.min (cy s + 1) (sH s - 1) /\ frame_nocur s s') /\
  (at_bottom_edge s = true -> cy s' = cy s /\ rows s' = rows (scroll (top s) (bot s) (-1) written) /\ frame_nocur s s').
Proof. exact write_core_fills_and_wraps. Qed.
Print Assumptions C03_fills_and_wraps.

(* autowrap on, the glyph does not fit on the rest of the row: first an index (next row, scrolling at
   the bottom edge of the region), then the glyph is written from column 0 *)
Theorem C03_wraps_first : forall txt w s, Inv s -> 1 <= w <= sW s -> awrap s = true -> sW s < cx s + w ->
  let s0 := move_cursor (- cx s) 1 false true s in
  cx s0 = 0 /\ write_core txt w s = write_core txt w s0.
Proof. exact write_core_wraps_first. Qed.
Print Assumptions C03_wraps_first.

(* a wide character is never left half-visible: after every prefix of every history every row of
   both buffers is a sequence of whole glyphs (head of width w followed by exactly w-1 continuation cells) *)
Theorem C03_no_half : forall wc grid w h ops n, 1 <= w -> 1 <= h -> hist_ok ops ->
  let t := fst (run_hist wc grid (init_term w h) (firstn n ops)) in
  Forall row_ok (rows (tmain t)) /\ Forall row_ok (rows (talt t)).
Proof. exact glyphs_every_prefix. Qed.
Print Assumptions C03_no_half.
