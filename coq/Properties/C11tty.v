(* C11, second sentence — the TTY mirror (tty_frontend.go).  Statements only,
   each closed by [exact].  The frontend model is Model/TtyFrontend.v AFTER the
   repairs D28 (renderCursorLocked silent when detached), DT2 (grid StyledLine
   keeps merged combining text) and DT3 (Attach does not force showCur); the
   [_refuted] statements are about the code as it is ([rp = false]).
   The outer terminal is the terminal model itself ([run_bytes]).
   Premises [itoa_scan] (digits of itoa are read back by the CSI scanner) is a
   result of another agent, assumed here as an explicit hypothesis. *)
From Coq Require Import List ZArith Bool.
From Termemu Require Import Base Style Screen Parser Term TtyFrontend TtyProofs.
Import ListNotations.
Open Scope Z_scope.

(* (a) Detach writes exactly ESC[?25h; afterwards every callback of the terminal
   and Focus write nothing, whatever the inner screens and arguments are. *)
Theorem C11_tty_detached : forall grid t,
  hasout t = true ->
  snd (tty_detach t) = ansi_cursor_show /\
  forall cs, Forall (fun p => is_terminal_callback (snd p) = true \/ snd p = KFocus) cs ->
    snd (tty_run true grid (fst (tty_detach t)) cs) = [].
Proof. exact tty_detached_silent. Qed.
Print Assumptions C11_tty_detached.

(* (a') with Blur and Detach among the later calls: nothing but show-cursor sequences *)
Theorem C11_tty_detached_only_show : forall grid t cs,
  attached t = false -> exists n, snd (tty_run true grid t cs) = concat (repeat ansi_cursor_show n).
Proof. exact tty_detached_only_show. Qed.
Print Assumptions C11_tty_detached_only_show.

(* (a, code as it is) D28: a cursor move after Detach writes ESC[?25l *)
Theorem C11_tty_detached_refuted :
  exists t x y, hasout t = true /\
    snd (tty_cursor_moved_fx false (fst (tty_detach t)) x y) = ansi_cursor_hide.
Proof. exact tty_detached_refuted. Qed.
Print Assumptions C11_tty_detached_refuted.

Theorem C11_tty_render_cursor_unrepaired : forall t,
  hasterm t = true -> hasout t = true -> attached t = false -> render_cursor_unrepaired t = ansi_cursor_hide.
Proof. exact render_cursor_unrepaired_detached. Qed.
Print Assumptions C11_tty_render_cursor_unrepaired.

(* (b) bytes of CursorMoved(x,y) on an attached frontend: CUP(y+1,x+1) ++ show when
   the terminal shows its cursor, the frontend is focused and (x,y) is in the
   region; hide in every other case *)
Theorem C11_tty_cursor_bytes : forall t x y,
  hasterm t = true -> hasout t = true -> attached t = true ->
  let inside := (rgx t <=? x) && (x <? rgx2 t) && (rgy t <=? y) && (y <? rgy2 t) in
  snd (tty_cursor_moved t x y) =
    if showcur t && focused t && inside then ansi_move_cursor x y ++ ansi_cursor_show else ansi_cursor_hide.
Proof. exact tty_cursor_bytes. Qed.
Print Assumptions C11_tty_cursor_bytes.

(* the same for ViewFlagChanged(VFShowCursor, v) *)
Theorem C11_tty_flag_bytes : forall t v,
  hasterm t = true -> hasout t = true -> attached t = true ->
  snd (tty_view_flag t vfShowCursor v) =
    if v && focused t && cur_in_region t then ansi_move_cursor (curx t) (cury t) ++ ansi_cursor_show
    else ansi_cursor_hide.
Proof. exact tty_flag_bytes. Qed.
Print Assumptions C11_tty_flag_bytes.

(* (b) an outer terminal (any state o that has not crashed, at least as large as
   the coordinates used) that interprets the bytes of CursorMoved(x,y) keeps all
   its cells and ends with its cursor on (x,y) and VFShowCursor set, or with
   VFShowCursor cleared and its cursor where it was *)
Theorem C11_tty_cursor : forall wc grid,
  (forall n rest acc sawsep, 0 <= n <= maxCSIParam ->
     scan_params (itoa n ++ rest) acc 0 false sawsep = scan_params rest acc n true false) ->
  forall t o x y,
  hasterm t = true -> hasout t = true -> attached t = true ->
  crashed o = false -> zlen (vflags o) = 6 ->
  0 <= x < sW (active o) -> 0 <= y < sH (active o) -> sW (active o) <= maxCSIParam -> sH (active o) <= maxCSIParam ->
  let inside := (rgx t <=? x) && (x <? rgx2 t) && (rgy t <=? y) && (y <? rgy2 t) in
  let o' := fst (run_bytes wc grid o (snd (tty_cursor_moved t x y))) in
  rows (active o') = rows (active o) /\
  if showcur t && focused t && inside
  then cx (active o') = x /\ cy (active o') = y /\ show_flag o' = true
  else show_flag o' = false /\ cx (active o') = cx (active o) /\ cy (active o') = cy (active o).
Proof. exact tty_cursor_outer. Qed.
Print Assumptions C11_tty_cursor.

(* (c, PARTIAL) one repaint on the outer terminal: if the outer terminal consumes
   the row part completely (reaching o2) without touching its saved cursor, then
   after ESC[s ESC[?7l rows ESC[0m ESC[?7h ESC[u its cursor is where the outer
   application left it, autowrap is on again, the style is the default style and
   the cells are those of o2.  That the row part makes the cells of the region
   equal to the inner cells and leaves the others alone is NOT proved; it is
   tied by the correspondence check and by computed instances
   (TtyProofs.region_example). *)
Theorem C11_tty_region_frame_partial : forall wc grid o mid o2 tail,
  crashed o = false ->
  (forall rest, run_bytes wc grid (after_prologue o) (mid ++ rest) = run_bytes wc grid o2 rest) ->
  crashed o2 = false ->
  svx (active o2) = cx (active o) -> svy (active o2) = cy (active o) ->
  exists o3,
    run_bytes wc grid o (ansi_save_cursor ++ ansi_wrap_disable ++ mid
                           ++ ansi_reset ++ ansi_wrap_enable ++ ansi_restore_cursor ++ tail)
      = run_bytes wc grid o3 tail /\
    cx (active o3) = cx (active o) /\ cy (active o3) = cy (active o) /\
    awrap (active o3) = true /\ sty (active o3) = default_style /\
    rows (active o3) = rows (active o2) /\ crashed o3 = false.
Proof. exact region_frame. Qed.
Print Assumptions C11_tty_region_frame_partial.

(* shape of the bytes of one repaint *)
Theorem C11_tty_region_shape : forall rp grid t inner r,
  hasout t = true -> attached t = true -> rect_empty (clamp_region r (sW inner) (sH inner)) = false ->
  render_region_fx rp grid t inner r =
    ansi_save_cursor ++ ansi_wrap_disable
      ++ render_rows (screen_line rp grid inner) (clamp_region r (sW inner) (sH inner))
      ++ ansi_reset ++ ansi_wrap_enable ++ ansi_restore_cursor ++ render_cursor_gen rp t.
Proof. exact render_region_shape. Qed.
Print Assumptions C11_tty_region_shape.

(* (d) Bell, ScrollLines, StyleChanged, ViewIntChanged, ViewStringChanged and view
   flags other than VFShowCursor write nothing and leave the frontend unchanged *)
Theorem C11_tty_noop : forall rp grid t inner,
  tty_event_fx rp grid t inner EBell = (t, []) /\
  (forall y, tty_event_fx rp grid t inner (EScrollLines y) = (t, [])) /\
  (forall s, tty_event_fx rp grid t inner (EStyle s) = (t, [])) /\
  (forall i v, tty_event_fx rp grid t inner (EInt i v) = (t, [])) /\
  (forall i b, tty_event_fx rp grid t inner (EStr i b) = (t, [])) /\
  (forall i v, i <> vfShowCursor -> tty_event_fx rp grid t inner (EFlag i v) = (t, [])).
Proof. exact tty_noop_callbacks. Qed.
Print Assumptions C11_tty_noop.

(* (d) RegionChanged(r) repaints the intersection of r with the attach region only *)
Theorem C11_tty_region_intersect : forall rp grid t inner r,
  attached t = true -> hasterm t = true -> hasout t = true ->
  tty_region_changed_fx rp grid t inner r
    = (t, render_region_fx rp grid t inner (intersect r (tty_region t))).
Proof. exact tty_region_changed_intersect. Qed.
Print Assumptions C11_tty_region_intersect.

(* (d) ... and writes nothing when r does not meet the attach region *)
Theorem C11_tty_region_disjoint : forall rp grid t inner r,
  rect_empty (intersect r (tty_region t)) = true ->
  snd (tty_region_changed_fx rp grid t inner r) = [].
Proof. exact tty_region_changed_disjoint. Qed.
Print Assumptions C11_tty_region_disjoint.

(* (d) no callback writes anything when the frontend is not attached (repaired
   code), has no output, or has no terminal *)
Theorem C11_tty_silent_when_off : forall rp grid t inner e,
  (attached t = false /\ rp = true) \/ hasout t = false \/ hasterm t = false ->
  snd (tty_event_fx rp grid t inner e) = [].
Proof. exact tty_silent_when_off. Qed.
Print Assumptions C11_tty_silent_when_off.
