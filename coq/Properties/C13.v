(* C13 — a mouse event yields exactly one well-formed report in the selected
   encoding, or nothing when the tracking mode excludes it; a failed write is
   returned as an error.
   The model (Model/Mouse.v) describes terminal.go SendMouseRaw and Write AFTER the
   proposed repairs D32, D33, D34, D35 and D36.  The decoders (Spec/MouseSpec.v) are
   written from xterm's ctlseqs.  mode: 0 off, 1 press (DEC 9), 2 press/release
   (1000), 3 button-motion (1002), 4 any-motion (1003).  enc: 0 X10, 1 UTF-8 (1005),
   2 SGR (1006).  btn: 0..2 buttons 1..3, 3 none.  mods: 4 shift, 8 meta,
   16 control, 32 motion, 64 wheel.
   This file contains statements only, each closed by [exact]. *)
From Coq Require Import List ZArith Bool.
From Termemu Require Import Base Mouse MouseSpec MouseProofs Term MouseModeProofs.
Import ListNotations.
Open Scope Z_scope.

(* ---------- M0: how the application selects mode and encoding ---------- *)
(* DEC private modes 9/1000/1002/1003 write the tracking-mode register (index 0),
   1005/1006/1015 the encoding register (index 1); resetting any of them writes 0 *)
Theorem C13_M0_select : forall v t,
  vints (dec_mode v 9 t)    = zupd 0 (if v then 1 else 0) (vints t) /\
  vints (dec_mode v 1000 t) = zupd 0 (if v then 2 else 0) (vints t) /\
  vints (dec_mode v 1002 t) = zupd 0 (if v then 3 else 0) (vints t) /\
  vints (dec_mode v 1003 t) = zupd 0 (if v then 4 else 0) (vints t) /\
  vints (dec_mode v 1005 t) = zupd 1 (if v then 1 else 0) (vints t) /\
  vints (dec_mode v 1006 t) = zupd 1 (if v then 2 else 0) (vints t) /\
  vints (dec_mode v 1015 t) = zupd 1 (if v then 1 else 0) (vints t).
Proof. exact dec_mode_table. Qed.
Print Assumptions C13_M0_select.

(* no other DEC private mode touches the registers *)
Theorem C13_M0_other : forall v p t,
  ~ In p [9; 1000; 1002; 1003; 1005; 1006; 1015] -> vints (dec_mode v p t) = vints t.
Proof. exact dec_mode_other. Qed.
Print Assumptions C13_M0_other.

(* so CSI ? ... h / l keeps them within the values SendMouseRaw handles, starting from a new terminal *)
Theorem C13_M0_regs : forall v ps t,
  mouse_regs_ok (vints t) -> mouse_regs_ok (vints (fold_left (fun t p => dec_mode v p t) ps t)).
Proof. exact dec_modes_regs_ok. Qed.
Print Assumptions C13_M0_regs.
Theorem C13_M0_init : forall w h, mouse_regs_ok (vints (init_term w h)).
Proof. exact init_regs_ok. Qed.
Print Assumptions C13_M0_init.

(* ---------- M1: which events are reported ---------- *)
Theorem C13_M1_filter : forall mode btn press mods,
  0 <= mode <= 4 -> button btn -> flagset mods ->
  (mouse_filter mode btn press mods = true <->
     (mode = 1 /\ press = true /\ has_motion mods = false /\ has_wheel mods = false)
  \/ (mode = 2 /\ has_motion mods = false)
  \/ (mode = 3 /\ ~ (has_motion mods = true /\ btn = 3))
  \/ mode = 4).
Proof. exact filter_spec. Qed.
Print Assumptions C13_M1_filter.

(* the same as an equation with the executable table of the specification *)
Theorem C13_M1_table : forall mode btn press mods,
  0 <= mode <= 4 -> button btn -> flagset mods ->
  mouse_filter mode btn press mods = mouse_passes mode btn press mods.
Proof. exact filter_table. Qed.
Print Assumptions C13_M1_table.

(* tracking off: nothing is ever reported, whatever the arguments *)
Theorem C13_M1_off : forall btn press mods, mouse_filter 0 btn press mods = false.
Proof. exact filter_off. Qed.
Print Assumptions C13_M1_off.

(* a register value outside 0..4 (excluded by M0) would report everything *)
Theorem C13_M1_other : forall mode btn press mods,
  mode < 0 \/ 4 < mode -> mouse_filter mode btn press mods = true.
Proof. exact filter_other. Qed.
Print Assumptions C13_M1_other.

(* ---------- M2: the report ---------- *)
(* the bytes are one complete report of the selected encoding and it says what the event was *)
Theorem C13_M2_one_report : forall enc btn press mods x y,
  0 <= enc <= 2 -> button btn -> flagset mods -> 0 <= x < 2 ^ 63 -> 0 <= y < 2 ^ 63 ->
  decode enc (mouse_encode enc btn press mods x y) = Some (expected_report enc btn press mods x y).
Proof. exact one_report. Qed.
Print Assumptions C13_M2_one_report.

(* ... where the expected report carries the event's modifiers, motion and wheel bits, *)
Theorem C13_M2_mods : forall enc btn press mods x y,
  r_mods (expected_report enc btn press mods x y) = key_mods mods /\
  r_motion (expected_report enc btn press mods x y) = has_motion mods /\
  r_wheel (expected_report enc btn press mods x y) = has_wheel mods.
Proof. exact report_mods. Qed.
Print Assumptions C13_M2_mods.

(* its button (SGR: always; CSI M forms: 3 for a release, the protocol has no more), *)
Theorem C13_M2_button : forall enc btn press mods x y,
  r_btn (expected_report enc btn press mods x y)
  = if (enc =? 0) || (enc =? 1) then (if press then btn else 3) else btn.
Proof. exact report_button. Qed.
Print Assumptions C13_M2_button.

(* its kind, as long as a plain press names a real button, *)
Theorem C13_M2_kind : forall enc btn press mods x y,
  (press = true -> has_motion mods = false -> has_wheel mods = false -> btn <> 3) ->
  kind_of (expected_report enc btn press mods x y) = event_kind press mods.
Proof. exact report_kind. Qed.
Print Assumptions C13_M2_kind.

(* and its coordinates: exact in SGR, min v 223 in X10, min v 2015 in UTF-8 *)
Theorem C13_M2_coords : forall enc btn press mods x y, 0 <= enc <= 2 ->
  let r := expected_report enc btn press mods x y in
  let lim := if enc =? 0 then 223 else if enc =? 1 then 2015 else Z.max x y in
  r_x r = Z.min x lim /\ r_y r = Z.min y lim.
Proof. exact report_coords. Qed.
Print Assumptions C13_M2_coords.

(* what is not true, by the definition of the CSI M forms: a release does not name
   its button, and button value 3 with press = true and no motion reads as a release *)
Theorem C13_M2_same_button_refuted : exists enc btn press mods x y,
  0 <= enc <= 2 /\ button btn /\ flagset mods /\
  exists r, decode enc (mouse_encode enc btn press mods x y) = Some r /\ r_btn r <> btn.
Proof. exact same_button_refuted. Qed.
Print Assumptions C13_M2_same_button_refuted.
Theorem C13_M2_same_kind_refuted : exists enc btn press mods x y,
  0 <= enc <= 2 /\ button btn /\ flagset mods /\
  exists r, decode enc (mouse_encode enc btn press mods x y) = Some r /\ kind_of r <> event_kind press mods.
Proof. exact same_kind_refuted. Qed.
Print Assumptions C13_M2_same_kind_refuted.

(* X10: exactly six bytes, each payload byte a single byte *)
Theorem C13_M2_x10_bytes : forall btn press mods x y, button btn -> flagset mods -> 0 <= x -> 0 <= y ->
  exists cb cx cy, mouse_encode 0 btn press mods x y = [27; 91; 77; cb; cx; cy]
    /\ 32 <= cb <= 159 /\ 32 <= cx <= 255 /\ 32 <= cy <= 255.
Proof. exact x10_bytes. Qed.
Print Assumptions C13_M2_x10_bytes.
Theorem C13_M2_x10 : forall btn press mods x y, button btn -> flagset mods -> 0 <= x -> 0 <= y ->
  decode_x10 (mouse_encode 0 btn press mods x y)
  = Some (expected_m btn press mods (Z.min x 223) (Z.min y 223)).
Proof. exact x10_report. Qed.
Print Assumptions C13_M2_x10.

(* UTF-8: exact while 32+v <= 0x7FF, the largest coordinate beyond (D36); 6..9 bytes *)
Theorem C13_M2_utf8_exact : forall btn press mods x y, button btn -> flagset mods ->
  0 <= x -> 32 + x <= 2047 -> 0 <= y -> 32 + y <= 2047 ->
  decode_utf8 (mouse_encode 1 btn press mods x y) = Some (expected_m btn press mods x y).
Proof. exact utf8_report_exact. Qed.
Print Assumptions C13_M2_utf8_exact.
Theorem C13_M2_utf8 : forall btn press mods x y, button btn -> flagset mods -> 0 <= x -> 0 <= y ->
  decode_utf8 (mouse_encode 1 btn press mods x y)
  = Some (expected_m btn press mods (Z.min x 2015) (Z.min y 2015)).
Proof. exact utf8_report. Qed.
Print Assumptions C13_M2_utf8.
Theorem C13_M2_utf8_len : forall btn press mods x y, button btn -> flagset mods -> 0 <= x -> 0 <= y ->
  (6 <= length (mouse_encode 1 btn press mods x y) <= 9)%nat.
Proof. exact utf8_len. Qed.
Print Assumptions C13_M2_utf8_len.

(* SGR: exact for every coordinate a Go int can hold *)
Theorem C13_M2_sgr : forall btn press mods x y, button btn -> flagset mods ->
  0 <= x < 2 ^ 63 -> 0 <= y < 2 ^ 63 ->
  decode_sgr (mouse_encode 2 btn press mods x y) = Some (expected_sgr btn press mods x y).
Proof. exact sgr_report. Qed.
Print Assumptions C13_M2_sgr.

(* printing a number and parsing it back (used by SGR) *)
Theorem C13_itoa_roundtrip : forall n rest, 0 <= n < 10 ^ 20 ->
  parse_dec false 0 (itoa n ++ rest) = parse_dec true n rest.
Proof. exact parse_itoa. Qed.
Print Assumptions C13_itoa_roundtrip.

(* one report: ESC occurs once, at the start; every other byte is 32..255 *)
Theorem C13_M2_printable : forall enc btn press mods x y,
  0 <= enc <= 2 -> button btn -> flagset mods -> 0 <= x -> 0 <= y ->
  exists rest, mouse_encode enc btn press mods x y = 27 :: rest /\ Forall printable rest.
Proof. exact report_printable. Qed.
Print Assumptions C13_M2_printable.

(* Go's string(rune(v)): UTF-8 for scalar values, U+FFFD for everything else; hence
   the clamp of D36 (without it a coordinate is misreported) *)
Theorem C13_utf8_scalar : forall v rest, scalar_value v ->
  utf8_scalar (utf8_encode_rune v ++ rest) = Some (v, rest).
Proof. exact utf8_scalar_encode. Qed.
Print Assumptions C13_utf8_scalar.
Theorem C13_utf8_invalid : forall v, ~ scalar_value v -> utf8_encode_rune v = utf8_replacement.
Proof. exact utf8_encode_invalid. Qed.
Print Assumptions C13_utf8_invalid.
Theorem C13_D36_unclamped_refuted : exists v, 0 <= v /\
  utf8_scalar (utf8_encode_rune (to_int32 (32 + v))) <> Some (32 + v, []).
Proof. exact utf8_unclamped_refuted. Qed.
Print Assumptions C13_D36_unclamped_refuted.

(* ---------- M3: the write path ---------- *)
(* a filtered event: no Write call, nil *)
Theorem C13_M3_filtered : forall mode enc btn press mods x y s,
  mouse_filter mode btn press mods = false ->
  send_mouse mode enc btn press mods x y s = ([], false) /\
  send_mouse_calls mode enc btn press mods x y s = 0 /\
  send_mouse_status mode enc btn press mods x y s = 0.
Proof. exact send_filtered. Qed.
Print Assumptions C13_M3_filtered.

(* a reported event, backend taking everything: exactly the report, in one Write call *)
Theorem C13_M3_whole : forall mode enc btn press mods x y,
  mouse_filter mode btn press mods = true -> 0 <= enc <= 2 ->
  send_mouse mode enc btn press mods x y [] = (mouse_encode enc btn press mods x y, false) /\
  send_mouse_calls mode enc btn press mods x y [] = 1.
Proof. exact send_whole. Qed.
Print Assumptions C13_M3_whole.

(* backend taking it in pieces (never failing, never taking nothing): the same bytes *)
Theorem C13_M3_good : forall mode enc btn press mods x y s,
  mouse_filter mode btn press mods = true -> Forall good s ->
  send_mouse mode enc btn press mods x y s = (mouse_encode enc btn press mods x y, false).
Proof. exact send_good. Qed.
Print Assumptions C13_M3_good.

(* whatever the backend does it receives a prefix of the one report *)
Theorem C13_M3_prefix : forall mode enc btn press mods x y s,
  exists suf, mouse_encode enc btn press mods x y = fst (send_mouse mode enc btn press mods x y s) ++ suf.
Proof. exact send_prefix. Qed.
Print Assumptions C13_M3_prefix.

(* nil returned: all of it was delivered (or the event was filtered) *)
Theorem C13_M3_ok : forall mode enc btn press mods x y s,
  snd (send_mouse mode enc btn press mods x y s) = false ->
  fst (send_mouse mode enc btn press mods x y s) =
    if mouse_filter mode btn press mods then mouse_encode enc btn press mods x y else [].
Proof. exact send_ok. Qed.
Print Assumptions C13_M3_ok.

(* an error is returned iff the event is reported and the backend fails, or takes
   nothing, while bytes remain *)
Theorem C13_M3_err_iff : forall mode enc btn press mods x y s,
  snd (send_mouse mode enc btn press mods x y s) = true <->
  mouse_filter mode btn press mods = true /\
  stops_early (zlen (mouse_encode enc btn press mods x y)) s.
Proof. exact send_err_iff. Qed.
Print Assumptions C13_M3_err_iff.

(* outcomes: nil, error, or the panic on an unknown encoding register, which M0 excludes *)
Theorem C13_M3_status : forall mode enc btn press mods x y s,
  let st := send_mouse_status mode enc btn press mods x y s in
  (st = 0 \/ st = 1 \/ st = 2) /\
  (st = 2 <-> mouse_filter mode btn press mods = true /\ mouse_enc_known enc = false) /\
  (mouse_enc_known enc = true -> (st = 1 <-> snd (send_mouse mode enc btn press mods x y s) = true)).
Proof. exact send_status. Qed.
Print Assumptions C13_M3_status.
Theorem C13_M3_no_panic : forall mode enc btn press mods x y s, 0 <= enc <= 2 ->
  send_mouse_status mode enc btn press mods x y s <> 2.
Proof. exact send_no_panic. Qed.
Print Assumptions C13_M3_no_panic.

(* the loop of terminal.Write on its own *)
Theorem C13_write_prefix : forall s b, exists suf, b = fst (write_loop b s) ++ suf.
Proof. exact write_loop_prefix. Qed.
Print Assumptions C13_write_prefix.
Theorem C13_write_ok : forall s b, snd (write_loop b s) = false -> fst (write_loop b s) = b.
Proof. exact write_loop_ok. Qed.
Print Assumptions C13_write_ok.
Theorem C13_write_err_iff : forall s b, snd (write_loop b s) = true <-> stops_early (zlen b) s.
Proof. exact write_loop_err_iff. Qed.
Print Assumptions C13_write_err_iff.
