(* SpanRefines — the span buffer's row-splicing core (Model/Span.v, tied to
   screen.go by the function-level correspondence check harness-span) keeps rows
   well-formed and refines the cell-level row operations of Model/Screen.v.
   Statements only.  [wc] is the width oracle (uniseg width of one rune);
   [wc_multibyte wc] says a rune occupies at most max(1, bytes-1) cells, which the
   rune-mode fast path [Width == len(Text)] relies on (false for U+2E3A/U+2E3B:
   known finding, kept as a hypothesis).  [safe_line]: every stored cluster is
   valid UTF-8 (SafeText).  Rune mode only. *)
From Coq Require Import List ZArith Bool.
From Termemu Require Import Base Style Screen Parser Span SpanText SpanRows SpanProofs SpanRefine.
Import ListNotations.
Open Scope Z_scope.

(* splitSpan splits the cells of a span at the offset; a wide cluster that is
   cut comes back as the third span and neither side contains it *)
Theorem Span_split : forall wc, wc_multibyte wc -> forall sp off,
  wf_span wc sp -> safe_span wc sp -> 0 < off < sp_width sp ->
  let '(lf, rt, wd) := split_span wc sp off in
  abs_span wc sp = abs_span wc lf ++ abs_span wc wd ++ abs_span wc rt /\
  sp_width lf + sp_width wd + sp_width rt = sp_width sp /\
  zlen (abs_span wc lf) = sp_width lf /\ zlen (abs_span wc wd) = sp_width wd /\
  ((sp_width wd = 0 /\ sp_width lf = off) \/
   (sp_width lf < off < sp_width lf + sp_width wd /\
    abs_span wc wd = glyph_cells (sp_text wd) (sp_width wd) (sp_sty sp))).
Proof. exact split_span_abs. Qed.
Print Assumptions Span_split.

(* replaceRange on a well-formed row: the result is well-formed (positive span
   widths, text widths equal their re-segmentation, widths sum to the cached
   width), safe, and its cells are [splice_cells] of the old cells *)
Theorem Span_replace_range : forall wc, wc_multibyte wc -> forall W l x n ins,
  wf_line wc W l -> safe_line wc l -> 0 <= x -> 0 <= n -> x + n <= W ->
  ~ (n = 0 /\ sp_width ins = 0) -> ins_good wc ins ->
  let r := replace_range wc l x n ins in
  let cells := splice_cells x n (sp_width ins) (sp_sty ins) (abs_span wc ins) (abs_line wc l) in
  wf_line wc (zlen cells) r /\ safe_line wc r /\ abs_line wc r = cells.
Proof. exact replace_range_refines. Qed.
Print Assumptions Span_replace_range.

(* when the window does not start on a continuation cell the new width is W - n + insert *)
Theorem Span_replace_range_wf : forall wc, wc_multibyte wc -> forall W l x n ins,
  wf_line wc W l -> safe_line wc l -> 0 <= x -> 0 <= n -> x + n <= W ->
  ~ (n = 0 /\ sp_width ins = 0) -> ins_good wc ins ->
  is_cont (znth x (abs_line wc l) dcell) = false ->
  wf_line wc (W - n + sp_width ins) (replace_range wc l x n ins).
Proof. exact replace_range_width. Qed.
Print Assumptions Span_replace_range_wf.

(* rawWriteSpan of n = insert.Width cells not starting on a continuation cell is
   the cell-level [overwrite]: the span buffer refines the cell model *)
Theorem Span_write_refines : forall wc, wc_multibyte wc -> forall W l x sp,
  wf_line wc W l -> safe_line wc l -> 0 <= x -> x + sp_width sp <= W -> 0 < sp_width sp -> ins_good wc sp ->
  is_cont (znth x (abs_line wc l) dcell) = false ->
  exists r, raw_write_span wc W l x sp = Some r /\ wf_line wc W r /\ safe_line wc r /\
    abs_line wc r = overwrite (sp_sty sp) x (abs_span wc sp) (abs_line wc l).
Proof. exact raw_write_span_refines. Qed.
Print Assumptions Span_write_refines.

(* a write starting on the second half of a wide glyph (sanctioned span
   behaviour): the glyph is kept, the text goes after it, and a row that grew is
   cut back to W cells as [fit_row] does *)
Theorem Span_write_second_half : forall wc, wc_multibyte wc -> forall st W l x sp,
  wf_line wc W l -> safe_line wc l -> 0 <= x -> x + sp_width sp <= W -> 0 < sp_width sp -> ins_good wc sp ->
  is_cont (znth x (abs_line wc l) dcell) = true ->
  let r1 := replace_range wc l x (sp_width sp) sp in
  let cells := zfirstn (x + cont_run (abs_line wc l) x) (abs_line wc l) ++ abs_span wc sp
                 ++ zrepeat (blank (sp_sty sp)) (cont_run (abs_line wc l) (x + sp_width sp))
                 ++ zskipn (x + sp_width sp + cont_run (abs_line wc l) (x + sp_width sp)) (abs_line wc l) in
  abs_line wc r1 = cells /\
  (W < zlen cells ->
   exists r, raw_write_span wc W l x sp = Some r /\ wf_line wc W r /\ safe_line wc r /\
             abs_line wc r = fit_row st W cells).
Proof. exact raw_write_span_second_half. Qed.
Print Assumptions Span_write_second_half.

(* deleteChars not starting on a continuation cell is the cell-level [delete_cells] *)
Theorem Span_delete_refines : forall wc, wc_multibyte wc -> forall st W l x n,
  wf_line wc W l -> safe_line wc l -> 0 <= x -> 1 <= n -> x + n <= W ->
  is_cont (znth x (abs_line wc l) dcell) = false ->
  wf_line wc W (span_delete_chars wc W st l x n) /\ safe_line wc (span_delete_chars wc W st l x n) /\
  abs_line wc (span_delete_chars wc W st l x n) = delete_cells st x n (abs_line wc l).
Proof. exact span_delete_chars_refines. Qed.
Print Assumptions Span_delete_refines.

(* resizeLine (hence truncateLine) is the cell-level [fit_row], wide glyph on the cut included *)
Theorem Span_resize_refines : forall wc, wc_multibyte wc -> forall st W l w,
  wf_line wc W l -> safe_line wc l -> 1 <= w ->
  wf_line wc w (resize_line wc l w st) /\ safe_line wc (resize_line wc l w st) /\
  abs_line wc (resize_line wc l w st) = fit_row st w (abs_line wc l).
Proof. exact resize_line_refines. Qed.
Print Assumptions Span_resize_refines.

(* the hypothesis wc_multibyte is needed: with a 3-byte rune of 3 cells (U+2E3A
   under uniseg) splitSpan's fast path cuts the rune's bytes apart *)
Theorem Span_multibyte_needed :
  let wc := fun r => if r =? 11834 then 3 else 1 in
  let sp := mk_span default_style [226; 184; 186] 0 3 in
  wf_span wc sp /\ fst (fst (split_span wc sp 1)) = mk_span default_style [226] 0 1.
Proof. exact split_fast_path_refuted. Qed.
Print Assumptions Span_multibyte_needed.
