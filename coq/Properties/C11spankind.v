(* C11 for the span buffer's text rule — ANSILine(y) of every reachable row, stripped of SGR, is the
   text of the row; fed back, it reproduces every cell.  Statements only; proofs in
   Proofs/MarkBit.v, Proofs/StripInv.v, Proofs/RenderSpanKind.v.

   [run_hist wc grid t ops]: [grid = true] is the grid buffer's text rule (an invalid UTF-8 byte
   is stored as U+FFFD), [grid = false] the span buffer's (the raw byte is stored: known finding
   D13; the cell model then sets bit 3 of the mark word [trig], [trInvalidUtf8] = 8).
   C11_reachable_rows / C11_reachable_roundtrip (Properties/C11.v) are for [grid = true].  Here:
   either rule, for every history that ends with that ONE mark unset on both buffers
   ([no_raw_mark]; the other marks - second half, locked read - may have fired; the
   wide-on-narrow mark is excluded by the width conditions as in C11).  Marks only grow, so the
   condition at the end is the condition throughout. *)
From Coq Require Import List ZArith Bool.
From Termemu Require Import Base Style Screen Kbd Parser Term Render ScreenInv TermInv SgrSpec
  RenderProofs ScreenRtProofs HistProofs RenderInv TrigMono MarkBit StripInv RenderSpanKind.
Import ListNotations.
Open Scope Z_scope.

(* ---- (A) renderable and strippable ---- *)

(* what [renderable] says of each cell: a well-formed style, and either a continuation cell or a
   head cell whose text is one valid printable UTF-8 rune of the width the oracle gives it *)
Theorem C11sk_renderable_cells : forall wc row, renderable wc row ->
  Forall (fun c => wf_style (cst c) /\
            ((cwid c = 0 /\ ctext c = []) \/ exists r, glyph_text (ctext c) r /\ cwid c = glyph_width (wc r))) row.
Proof. exact renderable_cells. Qed.
Print Assumptions C11sk_renderable_cells.

(* the text of a glyph holds no ESC byte *)
Theorem C11sk_glyph_text_no_esc : forall txt r, glyph_text txt r -> ~ In 27 txt.
Proof. exact glyph_text_no_esc. Qed.
Print Assumptions C11sk_glyph_text_no_esc.

(* hence: every cell of a renderable row is strippable, and its ANSILine stripped is its text *)
Theorem C11sk_renderable_strippable : forall wc row, renderable wc row -> Forall strippable row.
Proof. exact renderable_strippable. Qed.
Print Assumptions C11sk_renderable_strippable.
Theorem C11sk_renderable_strip : forall wc row, renderable wc row ->
  strip_sgr (render_line_ansi row) = line_text row.
Proof. exact renderable_strip. Qed.
Print Assumptions C11sk_renderable_strip.

(* the converse is false (a lone continuation cell; the byte 07; a raw FF): strippable says nothing
   about the shape of the row nor about the text being UTF-8 *)
Theorem C11sk_strippable_not_renderable :
  let rows3 := [[contc default_style]; [mkCell [7] 1 default_style]; [mkCell [255] 1 default_style]] in
  Forall (Forall strippable) rows3 /\ forall wc, Forall (fun row => ~ renderable wc row) rows3.
Proof. exact strippable_not_renderable. Qed.
Print Assumptions C11sk_strippable_not_renderable.

(* ---- the mark condition ---- *)
Theorem C11sk_mark_spelled : forall t,
  no_raw_mark t <-> Z.testbit (trig (tmain t)) 3 = false /\ Z.testbit (trig (talt t)) 3 = false.
Proof. exact no_raw_mark_spelled. Qed.
Print Assumptions C11sk_mark_spelled.
(* weaker than "no mark at all" *)
Theorem C11sk_mark_weaker : forall t, tz t -> no_raw_mark t.
Proof. exact tz_no_raw_mark. Qed.
Print Assumptions C11sk_mark_weaker.
(* monotone: unset at the end of a history, unset after every prefix of it *)
Theorem C11sk_mark_prefix : forall wc grid t ops1 ops2,
  no_raw_mark (fst (run_hist wc grid t (ops1 ++ ops2))) -> no_raw_mark (fst (run_hist wc grid t ops1)).
Proof. exact no_raw_mark_prefix. Qed.
Print Assumptions C11sk_mark_prefix.
(* the same for any property of the mark word that survives removing marks *)
Theorem C11sk_mark_mono_gen : forall P : Z -> Prop, (forall a v, P (Z.lor a v) -> P a) ->
  forall wc grid t ops, tzP P (fst (run_hist wc grid t ops)) -> tzP P t.
Proof. exact tzP_run_hist. Qed.
Print Assumptions C11sk_mark_mono_gen.
(* a token that leaves the mark unset is valid UTF-8 measured by the oracle, under either rule *)
Theorem C11sk_token_valid : forall wc wmax, (forall r, glyph_width (wc r) <= wmax) ->
  forall grid inp k rest t, parse_one wc grid inp = PTok k rest -> no_raw_mark (exec_tok k t) ->
  match k with TGlyph txt r w => glyph_text txt r /\ w = wc r | _ => True end.
Proof. exact parse_one_tok_ok_marked. Qed.
Print Assumptions C11sk_token_valid.

(* ---- (B) every reachable row is renderable, either text rule ---- *)
Theorem C11sk_reachable_rows : forall wc, wc 32 <= 1 -> forall wmax, (forall r, glyph_width (wc r) <= wmax) ->
  forall grid w h ops, wmax <= w -> 1 <= w -> 1 <= h -> Forall (hop_wide wmax) ops ->
  let t := fst (run_hist wc grid (init_term w h) ops) in
  no_raw_mark t ->
  Forall (renderable wc) (rows (tmain t)) /\ Forall (renderable wc) (rows (talt t)).
Proof. exact reachable_rows_renderable_marked. Qed.
Print Assumptions C11sk_reachable_rows.

(* the span kind, mark-free history *)
Theorem C11sk_reachable_rows_span : forall wc, wc 32 <= 1 -> forall wmax, (forall r, glyph_width (wc r) <= wmax) ->
  forall w h ops, wmax <= w -> 1 <= w -> 1 <= h -> Forall (hop_wide wmax) ops ->
  let t := fst (run_hist wc false (init_term w h) ops) in
  tz t ->
  Forall (renderable wc) (rows (tmain t)) /\ Forall (renderable wc) (rows (talt t)).
Proof. exact reachable_rows_renderable_span. Qed.
Print Assumptions C11sk_reachable_rows_span.

(* ---- (C) ANSILine(y) with SGR removed is the text of row y ---- *)

(* with the shape of the row *)
Theorem C11sk_reachable_strip : forall wc, wc 32 <= 1 -> forall wmax, (forall r, glyph_width (wc r) <= wmax) ->
  forall grid w h ops, wmax <= w -> 1 <= w -> 1 <= h -> Forall (hop_wide wmax) ops ->
  let t := fst (run_hist wc grid (init_term w h) ops) in
  no_raw_mark t ->
  forall s, s = tmain t \/ s = talt t -> forall row, In row (rows s) ->
    renderable wc row /\ Forall strippable row /\ strip_sgr (render_line_ansi row) = line_text row.
Proof. exact reachable_rows_strip_marked. Qed.
Print Assumptions C11sk_reachable_strip.
Theorem C11sk_reachable_strip_grid : forall wc, wc 32 <= 1 -> forall wmax, (forall r, glyph_width (wc r) <= wmax) ->
  forall w h ops, wmax <= w -> 1 <= w -> 1 <= h -> Forall (hop_wide wmax) ops ->
  let t := fst (run_hist wc true (init_term w h) ops) in
  forall s, s = tmain t \/ s = talt t -> forall row, In row (rows s) ->
    renderable wc row /\ Forall strippable row /\ strip_sgr (render_line_ansi row) = line_text row.
Proof. exact reachable_rows_strip_grid. Qed.
Print Assumptions C11sk_reachable_strip_grid.

(* the strip statement alone needs NO side condition: any oracle, any sizes, either rule, any
   marks - no cell of a reachable screen ever holds an ESC byte (a raw invalid byte is >= 0x80)
   and every style is well-formed *)
Theorem C11sk_reachable_strippable_any : forall wc grid w h ops,
  let t := fst (run_hist wc grid (init_term w h) ops) in
  Forall (Forall strippable) (rows (tmain t)) /\ Forall (Forall strippable) (rows (talt t)).
Proof. exact reachable_rows_strippable. Qed.
Print Assumptions C11sk_reachable_strippable_any.
Theorem C11sk_reachable_strip_any : forall wc grid w h ops,
  let t := fst (run_hist wc grid (init_term w h) ops) in
  forall s, s = tmain t \/ s = talt t -> forall row, In row (rows s) ->
    strip_sgr (render_line_ansi row) = line_text row.
Proof. exact reachable_rows_strip. Qed.
Print Assumptions C11sk_reachable_strip_any.

(* ---- (C) the round trip ---- *)
(* ANSILine of every row of either buffer, fed to a fresh terminal of the same size - of either
   kind - reproduces every cell (text, width, style) of that buffer *)
Theorem C11sk_reachable_roundtrip : forall wc, wc 32 <= 1 -> forall wmax, (forall r, glyph_width (wc r) <= wmax) ->
  forall grid grid' w h ops, wmax <= w -> 1 <= w -> 1 <= h -> Forall (hop_wide wmax) ops ->
  let t := fst (run_hist wc grid (init_term w h) ops) in
  no_raw_mark t ->
  forall s, s = tmain t \/ s = talt t -> sH s <= maxCSIParam ->
  let res := run_bytes wc grid' (init_term (sW s) (sH s)) (render_screen_ansi (rows s)) in
  snd res = [] /\ rows (tmain (fst res)) = rows s.
Proof. exact reachable_screen_roundtrip_marked. Qed.
Print Assumptions C11sk_reachable_roundtrip.

(* C11_reachable_roundtrip for the span kind *)
Theorem C11sk_reachable_roundtrip_span : forall wc, wc 32 <= 1 -> forall wmax, (forall r, glyph_width (wc r) <= wmax) ->
  forall w h ops, wmax <= w -> 1 <= w -> 1 <= h -> Forall (hop_wide wmax) ops ->
  let t := fst (run_hist wc false (init_term w h) ops) in
  tz t ->
  forall s, s = tmain t \/ s = talt t -> sH s <= maxCSIParam ->
  let res := run_bytes wc false (init_term (sW s) (sH s)) (render_screen_ansi (rows s)) in
  snd res = [] /\ rows (tmain (fst res)) = rows s.
Proof. exact reachable_screen_roundtrip_span. Qed.
Print Assumptions C11sk_reachable_roundtrip_span.

(* ---- (D) non-vacuity ---- *)
(* the history of C11_reachable_example under the span rule: mark-free, round trip computed *)
Example C11sk_example :
  Forall (hop_wide 2) ex_hist /\
  let t := fst (run_hist ex_wc false (init_term 4 2) ex_hist) in
  tz t /\ no_raw_mark t /\
  rows (tmain (fst (run_bytes ex_wc false (init_term (sW (tmain t)) (sH (tmain t))) (render_screen_ansi (rows (tmain t))))))
  = rows (tmain t) /\ sW (tmain t) = 6 /\ map ctext (znth 0 (rows (tmain t)) []) <> map ctext (blank_row 6 default_style).
Proof. exact span_kind_example. Qed.
Print Assumptions C11sk_example.

(* styled wide text, a history on which ANOTHER mark fires (a write onto the second half of a
   wide glyph), both kinds *)
Example C11sk_marked_example :
  Forall (hop_wide 2) ex_hist_marked /\
  (let t := fst (run_hist ex_wc false (init_term 4 2) ex_hist_marked) in
   trig (tmain t) = trSecondHalf /\ ~ tz t /\ no_raw_mark t /\
   rows (tmain (fst (run_bytes ex_wc false (init_term (sW (tmain t)) (sH (tmain t))) (render_screen_ansi (rows (tmain t))))))
   = rows (tmain t) /\
   map (map ctext) (rows (tmain t)) = [[[32]; [120]; [97]; [228; 184; 173]; []]; [[32]; [32]; [32]; [32]; [32]]] /\
   render_line_ansi (znth 0 (rows (tmain t)) []) =
     [27;91;48;109; 27;91;48;109; 27;91;49;109; 27;91;51;52;109; 32; 120;
      27;91;48;109; 27;91;48;109; 27;91;49;109; 27;91;55;109; 27;91;51;52;109; 97; 228;184;173] /\
   strip_sgr (render_line_ansi (znth 0 (rows (tmain t)) [])) = [32; 120; 97; 228; 184; 173] /\
   line_text (znth 0 (rows (tmain t)) []) = [32; 120; 97; 228; 184; 173]) /\
  (let t := fst (run_hist ex_wc true (init_term 4 2) ex_hist_marked) in
   no_raw_mark t /\
   rows (tmain t) = rows (tmain (fst (run_hist ex_wc false (init_term 4 2) ex_hist_marked))) /\
   rows (tmain (fst (run_bytes ex_wc true (init_term (sW (tmain t)) (sH (tmain t))) (render_screen_ansi (rows (tmain t))))))
   = rows (tmain t)).
Proof. exact span_kind_marked_example. Qed.
Print Assumptions C11sk_marked_example.

(* ---- (D) with the mark: refuted ---- *)
(* "E4 x", CUP 1;2, "B8 AD" under the span rule stores the raw bytes E4, B8, AD in cells 0, 1, 2:
   the mark is set, row 0 is not renderable, ANSILine prints E4 B8 AD, which reads back as ONE
   rune (U+4E2D, two cells): the round trip fails.  (Stripping still gives the cells' text.)
   Under the grid rule: three U+FFFD, no mark, round trip fine. *)
Theorem C11sk_raw_refuted :
  Forall (hop_wide 2) ex_hist_raw /\
  (let t := fst (run_hist ex_wc false (init_term 4 1) ex_hist_raw) in
   trig (tmain t) = trInvalidUtf8 /\ ~ no_raw_mark t /\
   map ctext (znth 0 (rows (tmain t)) []) = [[228]; [184]; [173]; [32]] /\
   ~ renderable ex_wc (znth 0 (rows (tmain t)) []) /\
   map ctext (znth 0 (rows (tmain (fst (run_bytes ex_wc false (init_term 4 1) (render_screen_ansi (rows (tmain t))))))) [])
     = [[228; 184; 173]; []; [32]; [32]] /\
   rows (tmain (fst (run_bytes ex_wc false (init_term 4 1) (render_screen_ansi (rows (tmain t)))))) <> rows (tmain t) /\
   strip_sgr (render_line_ansi (znth 0 (rows (tmain t)) [])) = line_text (znth 0 (rows (tmain t)) [])) /\
  (let t := fst (run_hist ex_wc true (init_term 4 1) ex_hist_raw) in
   tz t /\ map ctext (znth 0 (rows (tmain t)) []) = [[239; 191; 189]; [239; 191; 189]; [239; 191; 189]; [32]] /\
   rows (tmain (fst (run_bytes ex_wc true (init_term 4 1) (render_screen_ansi (rows (tmain t)))))) = rows (tmain t)).
Proof. exact span_kind_raw_refuted. Qed.
Print Assumptions C11sk_raw_refuted.

(* one raw byte alone: not renderable either, yet it round-trips on the span kind (and not when
   fed to a grid-kind terminal) *)
Example C11sk_raw_single :
  let t := fst (run_hist ex_wc false (init_term 4 1) [HFeed [255]]) in
  trig (tmain t) = trInvalidUtf8 /\ ~ renderable ex_wc (znth 0 (rows (tmain t)) []) /\
  rows (tmain (fst (run_bytes ex_wc false (init_term 4 1) (render_screen_ansi (rows (tmain t)))))) = rows (tmain t) /\
  rows (tmain (fst (run_bytes ex_wc true (init_term 4 1) (render_screen_ansi (rows (tmain t)))))) <> rows (tmain t).
Proof. exact span_kind_raw_single. Qed.
Print Assumptions C11sk_raw_single.
