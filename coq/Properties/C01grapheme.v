(* C01 for the read loop over the concrete width and segmentation model (both text modes).
   The theorems of C01.v hold for every width oracle; here the oracle is the model of the uniseg
   library (tables generated from its source) and, in grapheme mode, text is tokenised by the model of
   the reader's merge rules.  Statements only. *)
From Coq Require Import List ZArith Bool.
From Termemu Require Import Base Style Screen Parser Term ScreenInv TermInv HistProofs GlyphInv
  Uniseg Grapheme GTerm GTermProofs.
Import ListNotations.
Open Scope Z_scope.

(* no history of reads (any bytes, any chunking) and resizes, in either text mode, on either buffer
   kind, reaches a modelled panic site: not after any prefix of it *)
Theorem C01_grapheme_no_crash : forall grapheme grid w h ops n, 1 <= w -> 1 <= h -> hist_ok ops ->
  crashed (gterm (grun_hist grapheme grid (init_term w h) (firstn n ops))) = false.
Proof. intros. eapply grapheme_hist_inv_prefix; eassumption. Qed.
Print Assumptions C01_grapheme_no_crash.

(* in rune mode this loop is the oracle-parametric one at the width function of the uniseg model *)
Theorem C01_rune_mode_is_oracle_loop : forall grid w h ops,
  run_hist uwc grid (init_term w h) ops =
  (gterm (grun_hist false grid (init_term w h) ops), snd (grun_hist false grid (init_term w h) ops)).
Proof. exact grun_hist_rune. Qed.
Print Assumptions C01_rune_mode_is_oracle_loop.
