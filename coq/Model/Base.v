(* Base definitions shared by the model: Z-indexed list helpers, Go's clamp,
   decimal printing.  Definitions only; lemmas live in Proofs/. *)
From Coq Require Import List ZArith Bool.
Import ListNotations.
Open Scope Z_scope.

Definition zlen {A} (l : list A) : Z := Z.of_nat (length l).
Definition zfirstn {A} (n : Z) (l : list A) : list A := firstn (Z.to_nat n) l.
Definition zskipn {A} (n : Z) (l : list A) : list A := skipn (Z.to_nat n) l.
Definition zrepeat {A} (a : A) (n : Z) : list A := repeat a (Z.to_nat n).
Definition znth {A} (n : Z) (l : list A) (d : A) : A :=
  if n <? 0 then d else nth (Z.to_nat n) l d.

(* Go: func clamp(v, low, high) { if v < low { v = low }; if v > high { v = high }; return v } *)
Definition clamp (v lo hi : Z) : Z :=
  let v1 := if v <? lo then lo else v in
  if hi <? v1 then hi else v1.

Definition zmin (a b : Z) := if a <? b then a else b.
Definition zmax (a b : Z) := if a <? b then b else a.

(* strconv.Itoa for non-negative numbers: decimal digits, most significant first. *)
Fixpoint itoa_fuel (fuel : nat) (n : Z) (acc : list Z) : list Z :=
  match fuel with
  | O => acc
  | S f =>
      let d := 48 + n mod 10 in
      if n <? 10 then d :: acc else itoa_fuel f (n / 10) (d :: acc)
  end.
(* 20 digits cover every 64-bit value; callers pass values < 2^63. *)
Definition itoa (n : Z) : list Z :=
  if n <? 0 then 45 :: itoa_fuel 20 (- n) [] else itoa_fuel 20 n [].

(* replace element i of l *)
Definition zupd {A} (i : Z) (a : A) (l : list A) : list A :=
  if (i <? 0) || (zlen l <=? i) then l
  else zfirstn i l ++ a :: zskipn (i + 1) l.

Fixpoint list_eqb {A} (eqb : A -> A -> bool) (a b : list A) : bool :=
  match a, b with
  | [], [] => true
  | x :: a', y :: b' => eqb x y && list_eqb eqb a' b'
  | _, _ => false
  end.
