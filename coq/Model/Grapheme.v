(* Tokenisation of printable text by GraphemeReader (grapheme_reader.go) in both
   text modes, on top of the uniseg model: stepRuneCluster, stepGraphemeCluster,
   nextRuneTokenInfo, nextGraphemeTokenInfo with its merge rules (combining
   marks, ZWJ, variation selectors, regional indicators), and the reader state
   (segmentation state, forceMergeNext, lastWasRI).  Definitions only. *)
From Coq Require Import List ZArith Bool.
From Termemu Require Import Base Parser Gen_Uniseg Uniseg.
Import ListNotations.
Open Scope Z_scope.

(* utf8.FullRune *)
Definition full_rune (buf : list Z) : bool :=
  match decode_rune buf with None => false | Some _ => true end.

(* reader state: uniseg state, forceMergeNext, lastWasRI *)
Record rstate := mkRs { rs_state : ustate; rs_fm : bool; rs_ri : bool }.
Definition rs0 : rstate := mkRs None false false.
(* ReadByte: a control byte or a byte of an escape sequence restarts segmentation *)
Definition rs_reset (rs : rstate) : rstate := mkRs None (rs_fm rs) (rs_ri rs).

(* stepRuneCluster: Some (consumed, width) *)
Definition step_rune_cluster (buf : list Z) : option (Z * Z) :=
  match decode_rune buf with
  | None => None
  | Some (r, size, _) => let w := uwc r in Some (size, if w <=? 0 then 1 else w)
  end.

(* stepGraphemeCluster: Some (consumed, width, newState) *)
Definition step_grapheme_cluster (buf : list Z) (state : ustate) : option (Z * Z * ustate) :=
  if negb (full_rune buf) then None else
  let '(consumed, width, ns) := ustep buf state in
  (* at the end of the buffered bytes, and before an incomplete character, the next cluster is measured afresh *)
  Some (consumed, width, if (zlen buf <=? consumed) || negb (full_rune (zskipn consumed buf)) then None else ns).

(* loops over the runes of a cluster with utf8.DecodeRune *)
Fixpoint all_runes (fuel : nat) (p : Z -> Z -> bool) (b : list Z) : bool :=
  match fuel with
  | O => true
  | S f => match b with
           | [] => true
           | _ => let '(r, size) := go_decode_rune b in p r size && all_runes f p (zskipn size b)
           end
  end.
Fixpoint rune_count (fuel : nat) (b : list Z) : Z :=
  match fuel with
  | O => 0
  | S f => match b with
           | [] => 0
           | _ => let '(_, size) := go_decode_rune b in 1 + rune_count f (zskipn size b)
           end
  end.
Definition nonempty_b (b : list Z) : bool := match b with [] => false | _ => true end.

Definition is_combining_only (b : list Z) : bool :=
  nonempty_b b && all_runes (length b) (fun r size =>
    negb ((r =? runeError) && (size =? 1)) && (tbl2 u_unicodeMn r || tbl2 u_unicodeMe r)) b.
Definition is_zwj_only (b : list Z) : bool :=
  nonempty_b b && all_runes (length b) (fun r _ => r =? 8205) b.
Definition is_vs_only (b : list Z) : bool :=
  nonempty_b b && all_runes (length b) (fun r _ =>
    ((65024 <=? r) && (r <=? 65039)) || ((917760 <=? r) && (r <=? 917999))) b.
Definition is_regional_indicator (b : list Z) : bool :=
  nonempty_b b && all_runes (length b) (fun r _ => (127462 <=? r) && (r <=? 127487)) b.

(* a token of printable text: bytes consumed, cell width, merge flag, reader state after it *)
Record ttok := mkTtok { tt_len : Z; tt_width : Z; tt_merge : bool; tt_rs : rstate }.

(* the merge rules of nextGraphemeTokenInfo: (merge, forceMergeNext, lastWasRI) for a cluster, given the two flags before it *)
Definition merge_flags (cluster : list Z) (merge0 ri0 : bool) : bool * bool * bool :=
  let fm0 := false in      (* forceMergeNext is consumed whether or not it was set *)
  if is_combining_only cluster then (true, fm0, ri0)
  else if is_zwj_only cluster then (true, true, ri0)
  else if is_vs_only cluster then (true, fm0, ri0)
  else if is_regional_indicator cluster then
    (if 1 <? rune_count (length cluster) cluster then (merge0, fm0, false)
     else if ri0 then (true, fm0, false)
     else (merge0, fm0, true))
  else (merge0, fm0, false).

(* nextGraphemeTokenInfo *)
Definition next_grapheme_token (buf : list Z) (rs : rstate) : option ttok :=
  match step_grapheme_cluster buf (rs_state rs) with
  | None => None
  | Some (consumed, width, ns) =>
      let '(merge, fm, ri) := merge_flags (zfirstn consumed buf) (rs_fm rs) (rs_ri rs) in
      (* a cluster that takes no cell of its own joins the character before it *)
      let merge := merge || (width <=? 0) in
      Some (mkTtok consumed (if merge then 0 else width) merge (mkRs ns fm ri))
  end.

(* nextRuneTokenInfo: state and flags untouched, never a merge *)
Definition next_rune_token (buf : list Z) (rs : rstate) : option ttok :=
  match step_rune_cluster buf with
  | None => None
  | Some (consumed, width) => Some (mkTtok consumed width false rs)
  end.

Definition next_token (grapheme : bool) (buf : list Z) (rs : rstate) : option ttok :=
  if grapheme then next_grapheme_token buf rs else next_rune_token buf rs.
