(* Byte-stream tokenizer: what ptyReadOne, handleCommand, handleCmdCSI,
   handleCmdOSC and handleDCS consume.  Every scanner is structurally recursive
   on the input and returns the unconsumed suffix; [PMore] means the blocking
   parser waits for more bytes (nothing has been acted on yet). *)
From Coq Require Import List ZArith Bool.
From Termemu Require Import Base.
Import ListNotations.
Open Scope Z_scope.

Definition maxCSIParam : Z := 65535.
Definition nParamStore : Z := 32.

Inductive tok :=
| TGlyph (txt : list Z) (r : Z) (w : Z)   (* printable cluster, its rune, raw oracle width *)
| TC0 (b : Z)                              (* control byte other than ESC *)
| TEsc (b : Z)                             (* ESC b, two bytes (known or unknown) *)
| TIgnore                                  (* ESC ( X, ESC intermediates final, ignored CSI, aborted OSC, DCS *)
| TCsi (prefix : Z) (params : list Z) (final : Z)
| TOsc (num : Z) (payload : list Z).

Inductive pres := PMore | PTok (t : tok) (rest : list Z).

(* ---- UTF-8 (unicode/utf8 FullRune + DecodeRune) ---- *)
Definition utf8_first (b : Z) : Z * Z * Z :=
  if b <? 128 then (1, 0, 0)
  else if b <? 194 then (0, 0, 0)
  else if b <? 224 then (2, 128, 191)
  else if b =? 224 then (3, 160, 191)
  else if b <? 237 then (3, 128, 191)
  else if b =? 237 then (3, 128, 159)
  else if b <? 240 then (3, 128, 191)
  else if b =? 240 then (4, 144, 191)
  else if b <? 244 then (4, 128, 191)
  else if b =? 244 then (4, 128, 143)
  else (0, 0, 0).

Definition runeError : Z := 65533.

(* None: not a full rune yet.  Some (r, size, valid). *)
Definition decode_rune (inp : list Z) : option (Z * Z * bool) :=
  match inp with
  | [] => None
  | b0 :: r0 =>
      let '(sz, lo, hi) := utf8_first b0 in
      if sz =? 1 then Some (b0, 1, true)
      else if sz =? 0 then Some (runeError, 1, false)
      else match r0 with
      | [] => None
      | b1 :: r1 =>
          if (b1 <? lo) || (hi <? b1) then Some (runeError, 1, false)
          else if sz =? 2 then Some ((b0 - 192) * 64 + (b1 - 128), 2, true)
          else match r1 with
          | [] => None
          | b2 :: r2 =>
              if (b2 <? 128) || (191 <? b2) then Some (runeError, 1, false)
              else if sz =? 3 then Some ((b0 - 224) * 4096 + (b1 - 128) * 64 + (b2 - 128), 3, true)
              else match r2 with
              | [] => None
              | b3 :: _ =>
                  if (b3 <? 128) || (191 <? b3) then Some (runeError, 1, false)
                  else Some ((b0 - 240) * 262144 + (b1 - 128) * 4096 + (b2 - 128) * 64 + (b3 - 128), 4, true)
              end
          end
      end
  end.

Definition is_printable (b : Z) : bool := (32 <=? b) && negb (b =? 127).

(* ---- CSI ---- *)
Definition is_digit (b : Z) : bool := (48 <=? b) && (b <=? 57).
Definition store_param (acc : list Z) (v : Z) : list Z :=
  if zlen acc <? nParamStore then acc ++ [v] else acc.

(* the digit / ';' loop; returns (params, first byte after them, rest) *)
Fixpoint scan_params (inp : list Z) (acc : list Z) (param : Z) (pset sawsep : bool)
  : option (list Z * Z * list Z) :=
  match inp with
  | [] => None
  | b :: rest =>
      if b =? 59 then scan_params rest (store_param acc param) 0 false true
      else if is_digit b then
        let p := param * 10 + (b - 48) in
        scan_params rest acc (if maxCSIParam <? p then maxCSIParam else p) true false
      else
        let acc' := if pset || sawsep then store_param acc (if pset then param else 0) else acc in
        Some (acc', b, rest)
  end.

Definition is_final (b : Z) : bool := (64 <=? b) && (b <=? 126).

(* skip to the final byte of an unsupported CSI; returns the rest after it *)
Fixpoint skip_to_final (inp : list Z) : option (list Z) :=
  match inp with
  | [] => None
  | b :: rest => if is_final b then Some rest else skip_to_final rest
  end.

Definition is_private (b : Z) : bool := (b =? 63) || (b =? 62) || (b =? 60) || (b =? 61).

(* after "ESC [" *)
Definition parse_csi (inp : list Z) : pres :=
  match inp with
  | [] => PMore
  | b :: rest =>
      let '(prefix, body) := if is_private b then (b, rest) else (0, inp) in
      match scan_params body [] 0 false false with
      | None => PMore
      | Some (params, fb, rest') =>
          if ((32 <=? fb) && (fb <=? 47) && negb (fb =? 37)) || ((58 <=? fb) && (fb <=? 63)) then
            match skip_to_final rest' with
            | None => PMore
            | Some rest'' => PTok TIgnore rest''
            end
          else PTok (TCsi prefix params fb) rest'
      end
  end.

(* ---- OSC ---- *)
Fixpoint scan_digits (inp : list Z) (acc : Z) : option (Z * Z * list Z) :=
  match inp with
  | [] => None
  | b :: rest =>
      if is_digit b then
        let v := acc * 10 + (b - 48) in
        scan_digits rest (if 1000000 <? v then 1000000 else v)
      else Some (acc, b, rest)
  end.

(* payload up to BEL, 0x9C or ESC \ ; [acc] is the payload so far, reversed *)
Fixpoint scan_osc_payload (inp : list Z) (acc : list Z) : option (list Z * list Z) :=
  match inp with
  | [] => None
  | b :: rest =>
      if (b =? 7) || (b =? 156) then Some (rev acc, rest)
      else match acc with
           | a :: acc' =>
               if (a =? 27) && (b =? 92) then Some (rev acc', rest) else scan_osc_payload rest (b :: acc)
           | [] => scan_osc_payload rest (b :: acc)
           end
  end.

(* a string that is not a known command: skipped up to BEL, 0x9C or ESC \ ; [prev] is the byte before *)
Fixpoint scan_str (inp : list Z) (prev : Z) : option (list Z) :=
  match inp with
  | [] => None
  | b :: rest =>
      if (b =? 7) || (b =? 156) then Some rest
      else if (prev =? 27) && (b =? 92) then Some rest
      else scan_str rest b
  end.

Definition parse_osc (inp : list Z) : pres :=
  match scan_digits inp 0 with
  | None => PMore
  | Some (num, b, rest) =>
      if b =? 59 then
        match scan_osc_payload rest [] with
        | None => PMore
        | Some (payload, rest') => PTok (TOsc num payload) rest'
        end
      else if (b =? 7) || (b =? 156) then PTok (TOsc num []) rest
      else match scan_str rest b with
           | None => PMore
           | Some rest' => PTok TIgnore rest'
           end
  end.

(* ---- DCS: skipped up to 0x9C or ESC \ ---- *)
Fixpoint scan_dcs (inp : list Z) (prev : Z) : option (list Z) :=
  match inp with
  | [] => None
  | b :: rest =>
      if b =? 156 then Some rest
      else if (prev =? 27) && (b =? 92) then Some rest
      else scan_dcs rest b
  end.

(* ---- ESC ---- *)
Fixpoint skip_intermediates (inp : list Z) : option (list Z) :=
  match inp with
  | [] => None
  | b :: rest => if (32 <=? b) && (b <=? 47) then skip_intermediates rest else Some rest
  end.

(* after ESC *)
Definition parse_esc (inp : list Z) : pres :=
  match inp with
  | [] => PMore
  | b :: rest =>
      if b =? 91 then parse_csi rest
      else if b =? 93 then parse_osc rest
      else if b =? 80 then
        match scan_dcs rest 0 with None => PMore | Some r => PTok TIgnore r end
      else if (b =? 40) || (b =? 41) || (b =? 42) || (b =? 43) then
        match rest with [] => PMore | _ :: r => PTok TIgnore r end
      else if (32 <=? b) && (b <=? 47) then
        match skip_intermediates rest with None => PMore | Some r => PTok TIgnore r end
      else PTok (TEsc b) rest
  end.

Section WithOracle.
  (* uniseg.StringWidth(string(r)) for one rune; grid stores string(r) *)
  Variable wc : Z -> Z.
  Variable grid : bool.

  Definition utf8_replacement : list Z := [239; 191; 189].

  Definition parse_one (inp : list Z) : pres :=
    match inp with
    | [] => PMore
    | b :: rest =>
        if is_printable b then
          match decode_rune inp with
          | None => PMore
          | Some (r, size, valid) =>
              let txt := if negb valid && grid then utf8_replacement else zfirstn size inp in
              PTok (TGlyph txt r (wc r)) (zskipn size inp)
          end
        else if b =? 27 then parse_esc rest
        else PTok (TC0 b) rest
    end.
End WithOracle.
