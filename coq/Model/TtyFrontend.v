(* TTYFrontend (tty_frontend.go): the frontend that mirrors a region of an inner
   terminal onto an outer tty.  Every method is a function from the frontend
   state (and, where the Go code reads it, the active screen of the inner
   terminal) to the new state and the bytes written to [out].

   Coordinates.  ansiMoveCursor receives INNER coordinates: the code performs
   no translation, so the mirror is "outer cell (x,y) = inner cell (x,y) for
   (x,y) in the attach region".

   Variants.  [rp = true] is the code after the proposed repairs
     D28   renderCursorLocked returns without writing when not attached;
     DT2   gridScreen.StyledLine: the repeated-rune shortcut is taken only when
           every cell of the run holds exactly that one rune (today a combining
           mark merged into a cell is dropped by the shortcut);
     DT3   attachLocked no longer forces showCur = true (today Attach shows the
           cursor of an application that has hidden it with ESC [ ? 25 l);
   [rp = false] is the code as it is.  Theorems are stated about [rp = true];
   the refutations about [rp = false].

   StyledLine of a sub-range, wide glyph cut by an edge of the range
   (what the code does, not what one would want):
     grid  left edge : the continuation cell contributes no text; the text of the
                       following cells is therefore drawn one column too far left.
                       A run made only of continuation cells is a span with
                       Text = "" and Rune = 0: it is rendered as NUL bytes.
           right edge: the head cell contributes the whole glyph, which is drawn
                       across the right edge of the range.
     span  left edge : splitSpan drops the cut cluster: nothing is drawn for its
                       second half and the following text moves one column left
                       (when the stored span that holds the cluster extends past
                       the right edge of the range, one extra cell beyond the
                       range is included: that depends on the stored span
                       boundaries and is NOT modelled; [cut_glyph] flags it);
           right edge: splitSpan drops the cut cluster: nothing is drawn for its
                       first half (the outer cell keeps its old content).
   The span buffer does not merge adjacent stored spans of equal style, so its
   real output may contain redundant SGR sequences between two runs of one
   style; [styled_line] is the coarsest run decomposition (what the grid buffer
   produces).  [render_spans] renders a given span list byte for byte.
   Definitions only. *)
From Coq Require Import List ZArith Bool.
From Termemu Require Import Base Style Screen Parser Term.
Import ListNotations.
Open Scope Z_scope.

(* ---- constants of tty_frontend.go ---- *)
Definition ansi_save_cursor : list Z := [27; 91; 115].               (* ESC [ s *)
Definition ansi_restore_cursor : list Z := [27; 91; 117].            (* ESC [ u *)
Definition ansi_reset : list Z := [27; 91; 48; 109].                 (* ESC [ 0 m *)
Definition ansi_cursor_show : list Z := [27; 91; 63; 50; 53; 104].   (* ESC [ ? 2 5 h *)
Definition ansi_cursor_hide : list Z := [27; 91; 63; 50; 53; 108].   (* ESC [ ? 2 5 l *)
Definition ansi_wrap_disable : list Z := [27; 91; 63; 55; 108].      (* ESC [ ? 7 l *)
Definition ansi_wrap_enable : list Z := [27; 91; 63; 55; 104].       (* ESC [ ? 7 h *)

(* fmt.Sprintf("\x1b[%d;%dH", y+1, x+1) *)
Definition ansi_move_cursor (x y : Z) : list Z :=
  [27; 91] ++ itoa (y + 1) ++ [59] ++ itoa (x + 1) ++ [72].

(* ---- frontend state ---- *)
Record tty := mkTty {
  hasterm : bool;            (* t.term != nil *)
  hasout : bool;             (* t.out != nil *)
  attached : bool;
  rgx : Z; rgy : Z; rgx2 : Z; rgy2 : Z;   (* t.region *)
  curx : Z; cury : Z;        (* t.cursor *)
  showcur : bool;
  focused : bool
}.

(* NewTTYFrontend(term, out) *)
Definition tty_new (term : bool) : tty := mkTty term true false 0 0 0 0 0 0 true true.

Definition set_attach (a : bool) (x y x2 y2 : Z) (sc : bool) (t : tty) : tty :=
  mkTty (hasterm t) (hasout t) a x y x2 y2 (curx t) (cury t) sc (focused t).
Definition set_attached (a : bool) (t : tty) : tty :=
  mkTty (hasterm t) (hasout t) a (rgx t) (rgy t) (rgx2 t) (rgy2 t) (curx t) (cury t) (showcur t) (focused t).
Definition set_tcur (x y : Z) (t : tty) : tty :=
  mkTty (hasterm t) (hasout t) (attached t) (rgx t) (rgy t) (rgx2 t) (rgy2 t) x y (showcur t) (focused t).
Definition set_showcur (v : bool) (t : tty) : tty :=
  mkTty (hasterm t) (hasout t) (attached t) (rgx t) (rgy t) (rgx2 t) (rgy2 t) (curx t) (cury t) v (focused t).
Definition set_focused (v : bool) (t : tty) : tty :=
  mkTty (hasterm t) (hasout t) (attached t) (rgx t) (rgy t) (rgx2 t) (rgy2 t) (curx t) (cury t) (showcur t) v.
Definition set_hasterm (v : bool) (t : tty) : tty :=
  mkTty v (hasout t) (attached t) (rgx t) (rgy t) (rgx2 t) (rgy2 t) (curx t) (cury t) (showcur t) (focused t).

Definition cur_in_region (t : tty) : bool :=
  (rgx t <=? curx t) && (curx t <? rgx2 t) && (rgy t <=? cury t) && (cury t <? rgy2 t).

(* ---- renderCursorLocked ---- *)
Definition render_cursor_gen (rp : bool) (t : tty) : list Z :=
  if negb (hasterm t) || negb (hasout t) then []
  else if rp && negb (attached t) then []
  else if negb (attached t) || negb (showcur t) || negb (focused t) then ansi_cursor_hide
  else if negb (cur_in_region t) then ansi_cursor_hide
  else ansi_move_cursor (curx t) (cury t) ++ ansi_cursor_show.

Definition render_cursor : tty -> list Z := render_cursor_gen true.
Definition render_cursor_unrepaired : tty -> list Z := render_cursor_gen false.

(* ---- StyledLine at cell level ---- *)

(* maximal runs of cells of one style *)
Fixpoint group_runs (l : list cell) : list (style * list cell) :=
  match l with
  | [] => []
  | c :: r =>
      match group_runs r with
      | (st, cs) :: rest =>
          if style_eqb (cst c) st then (st, c :: cs) :: rest else (cst c, [c]) :: (st, cs) :: rest
      | [] => [(cst c, [c])]
      end
  end.

Definition cells_text (cs : list cell) : list Z := flat_map ctext cs.

(* bytes of the first rune of a cell's text (grid: chars[y][x]) *)
Definition first_rune_bytes (c : cell) : list Z :=
  match ctext c with
  | [] => []
  | b :: _ => let '(sz, _, _) := utf8_first b in zfirstn (if sz =? 0 then 1 else sz) (ctext c)
  end.

(* the isRepeat test of gridScreen.StyledLine as it is today *)
Definition is_repeat_run (cs : list cell) : bool :=
  match cs with
  | [] => false
  | c0 :: _ =>
      forallb (fun c => (cwid c =? 1) && list_eqb Z.eqb (first_rune_bytes c) (first_rune_bytes c0)) cs
  end.

(* text written for one run by renderStyledLineANSI *)
Definition run_text (rp grid : bool) (cs : list cell) : list Z :=
  if grid && negb rp && is_repeat_run cs then
    match cs with c0 :: _ => flat_map (fun _ => first_rune_bytes c0) cs | [] => [] end
  else
    let t := cells_text cs in
    match t with
    | [] => map (fun _ => 0) cs        (* Text == "": Rune (0) written Width times *)
    | _ => t
    end.

Fixpoint drop_conts (l : list cell) : list cell :=
  match l with
  | c :: r => if is_cont c then drop_conts r else l
  | [] => []
  end.

(* remove the trailing (head + continuation cells) group: reversed list *)
Definition drop_last_glyph (l : list cell) : list cell :=
  match drop_conts (rev l) with
  | _ :: r => rev r
  | [] => []
  end.

(* the cells StyledLine(x, w, y) looks at *)
Definition sub_cells (grid : bool) (x w : Z) (row : list cell) : list cell :=
  let l := zfirstn w (zskipn x row) in
  if grid then l
  else
    let l1 := drop_conts l in
    if (0 <? zlen l1) && is_cont (znth (x + w) row dcell) && (x + w <? zlen row) then drop_last_glyph l1 else l1.

(* some glyph is cut by an edge of the range *)
Definition cut_glyph (x w : Z) (row : list cell) : bool :=
  (0 <? w) &&
  (is_cont (znth x row dcell) || ((x + w <? zlen row) && is_cont (znth (x + w) row dcell))).

Definition styled_line (grid : bool) (x w : Z) (row : list cell) : list (style * list cell) :=
  group_runs (sub_cells grid x w row).

Definition render_run (rp grid : bool) (r : style * list cell) : list Z :=
  ansi_escape (fst r) ++ run_text rp grid (snd r).

(* renderStyledLineANSI(StyledLine(x, w, y)) *)
Definition render_styled_line (rp grid : bool) (x w : Z) (row : list cell) : list Z :=
  flat_map (render_run rp grid) (styled_line grid x w row).

(* renderStyledLineANSI on an explicit span list (style, text) *)
Definition render_spans (sps : list (style * list Z)) : list Z :=
  flat_map (fun sp => ansi_escape (fst sp) ++ snd sp) sps.

(* ---- regions ---- *)
Definition rect := (Z * Z * Z * Z)%type.    (* X, Y, X2, Y2 *)

(* Region.Intersect *)
Definition intersect (r o : rect) : rect :=
  let '(x, y, x2, y2) := r in
  let '(ox, oy, ox2, oy2) := o in
  ((if x <? ox then ox else x), (if y <? oy then oy else y),
   (if ox2 <? x2 then ox2 else x2), (if oy2 <? y2 then oy2 else y2)).

(* clampRegion(r, w, h) *)
Definition clamp_region (r : rect) (w h : Z) : rect :=
  let '(x, y, x2, y2) := r in (clamp x 0 w, clamp y 0 h, clamp x2 0 w, clamp y2 0 h).

Definition rect_empty (r : rect) : bool :=
  let '(x, y, x2, y2) := r in (x2 <=? x) || (y2 <=? y).

Definition tty_region (t : tty) : rect := (rgx t, rgy t, rgx2 t, rgy2 t).

(* the per-row part of renderRegionLocked; [line x w y] are the bytes of row y *)
Definition render_rows (line : Z -> Z -> Z -> list Z) (r : rect) : list Z :=
  let '(x, y, x2, y2) := r in
  flat_map (fun yy => ansi_move_cursor x yy ++ line x (x2 - x) yy) (zseq y y2).

(* renderRegionLocked(r); [w h] = term.Size(), [line] = the rendering of StyledLine *)
Definition render_region_gen (rp : bool) (t : tty) (w h : Z) (line : Z -> Z -> Z -> list Z) (r : rect) : list Z :=
  if negb (hasout t) || negb (attached t) then []
  else
    let rc := clamp_region r w h in
    if rect_empty rc then []
    else
      ansi_save_cursor ++ ansi_wrap_disable ++ render_rows line rc
        ++ ansi_reset ++ ansi_wrap_enable ++ ansi_restore_cursor ++ render_cursor_gen rp t.

Definition screen_line (rp grid : bool) (inner : screen) (x w y : Z) : list Z :=
  render_styled_line rp grid x w (row_at inner y).

Definition render_region_fx (rp grid : bool) (t : tty) (inner : screen) (r : rect) : list Z :=
  render_region_gen rp t (sW inner) (sH inner) (screen_line rp grid inner) r.

(* ---- the methods ---- *)
(* RegionChanged(r, _); [w h] = term.Size(), [line] renders StyledLine *)
Definition tty_region_changed_gen (rp : bool) (t : tty) (w h : Z) (line : Z -> Z -> Z -> list Z) (r : rect)
  : tty * list Z :=
  if negb (attached t) || negb (hasterm t) || negb (hasout t) then (t, [])
  else (t, render_region_gen rp t w h line (intersect r (tty_region t))).

(* Attach(r) *)
Definition tty_attach_gen (rp : bool) (t : tty) (w h : Z) (line : Z -> Z -> Z -> list Z) (r : rect)
  : tty * list Z :=
  let '(x, y, x2, y2) := r in
  let t' := set_attach true x y x2 y2 (if rp then showcur t else true) t in
  (t', if hasterm t then render_region_gen rp t' w h line r else []).

(* [inner] is the active screen of the inner terminal *)
Section Methods.
  Variable rp : bool.
  Variable grid : bool.

  Definition tty_region_changed_fx (t : tty) (inner : screen) (r : rect) : tty * list Z :=
    tty_region_changed_gen rp t (sW inner) (sH inner) (screen_line rp grid inner) r.

  (* CursorMoved(x, y) *)
  Definition tty_cursor_moved_fx (t : tty) (x y : Z) : tty * list Z :=
    let t' := set_tcur x y t in (t', render_cursor_gen rp t').

  (* ViewFlagChanged(v, value) *)
  Definition tty_view_flag_fx (t : tty) (i : Z) (v : bool) : tty * list Z :=
    if i =? vfShowCursor then let t' := set_showcur v t in (t', render_cursor_gen rp t') else (t, []).

  Definition tty_attach_fx (t : tty) (inner : screen) (r : rect) : tty * list Z :=
    tty_attach_gen rp t (sW inner) (sH inner) (screen_line rp grid inner) r.

  (* Detach() *)
  Definition tty_detach_fx (t : tty) : tty * list Z :=
    (set_attached false t, if hasout t then ansi_cursor_show else []).

  (* Focus() *)
  Definition tty_focus_fx (t : tty) : tty * list Z :=
    let t' := set_focused true t in (t', render_cursor_gen rp t').

  (* Blur() *)
  Definition tty_blur_fx (t : tty) : tty * list Z :=
    (set_focused false t, if hasout t then ansi_cursor_show else []).

  (* Bell, ScrollLines, StyleChanged, ViewIntChanged, ViewStringChanged *)
  Definition tty_noop (t : tty) : tty * list Z := (t, []).

  (* one frontend callback, as the terminal model logs them *)
  Definition tty_event_fx (t : tty) (inner : screen) (e : event) : tty * list Z :=
    match e with
    | ERegion x y x2 y2 _ => tty_region_changed_fx t inner (x, y, x2, y2)
    | ECursor x y => tty_cursor_moved_fx t x y
    | EFlag i v => tty_view_flag_fx t i v
    | EBell | EScrollLines _ | EStyle _ | EInt _ _ | EStr _ _ => tty_noop t
    end.

  (* callbacks oldest first, all against the same inner screen *)
  Fixpoint tty_events_fx (t : tty) (inner : screen) (es : list event) : tty * list Z :=
    match es with
    | [] => (t, [])
    | e :: r =>
        let '(t1, o1) := tty_event_fx t inner e in
        let '(t2, o2) := tty_events_fx t1 inner r in (t2, o1 ++ o2)
    end.
End Methods.

(* the repaired code, buffer kind as a parameter *)
Definition render_region := render_region_fx true.
Definition tty_region_changed := tty_region_changed_fx true.
Definition tty_cursor_moved := tty_cursor_moved_fx true.
Definition tty_view_flag := tty_view_flag_fx true.
Definition tty_attach := tty_attach_fx true.
Definition tty_detach := tty_detach_fx.
Definition tty_focus := tty_focus_fx true.
Definition tty_blur := tty_blur_fx.
Definition tty_event := tty_event_fx true.
Definition tty_events := tty_events_fx true.
