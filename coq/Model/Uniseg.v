(* Model of the part of github.com/rivo/uniseg that termemu uses: the width of a
   rune (uniseg.StringWidth of a one-rune string, used by stepRuneCluster and
   runeCellWidth) and grapheme-cluster segmentation with cluster width
   (uniseg.Step, used by stepGraphemeCluster).  The code-point tables, the
   property constants and the transition table of grTransitions are generated
   from the library's source by tools/gen_uniseg (Gen/Gen_Uniseg.v); the
   functions below transcribe propertyGraphemes, propertyEastAsianWidth,
   runeWidth, transitionGraphemeState and the grapheme part of Step, and are
   tied to the library by the correspondence engine `uniseg` (every code point;
   random and structured cluster strings with carried states).
   The packed integer state of Step is modelled by [option (Z * Z)]:
   [None] = -1, [Some (g, p)] = grapheme state g with property p of the next
   rune (the word/sentence/line components do not influence cluster, rest or
   width).  EastAsianAmbiguousWidth is the library's default, 1.
   Definitions only. *)
From Coq Require Import List ZArith Bool.
From Termemu Require Import Base Parser Gen_Uniseg.
Import ListNotations.
Open Scope Z_scope.

(* propertySearch on a sorted table of disjoint ranges: the entry containing r, else 0 *)
Fixpoint tbl3 (t : list (Z * Z * Z)) (r : Z) : Z :=
  match t with
  | [] => 0
  | (lo, hi, p) :: rest => if (lo <=? r) && (r <=? hi) then p else tbl3 rest r
  end.
Fixpoint tbl2 (t : list (Z * Z)) (r : Z) : bool :=
  match t with
  | [] => false
  | (lo, hi) :: rest => if (lo <=? r) && (r <=? hi) then true else tbl2 rest r
  end.

Definition prop_graphemes (r : Z) : Z :=
  if (32 <=? r) && (r <=? 126) then u_prAny
  else if r =? 10 then u_prLF
  else if r =? 13 then u_prCR
  else if ((0 <=? r) && (r <=? 31)) || (r =? 127) then u_prControl
  else tbl3 u_graphemeCodePoints r.

Definition prop_eaw (r : Z) : Z :=
  if (32 <=? r) && (r <=? 126) then u_prNa
  else if ((0 <=? r) && (r <=? 31)) || (r =? 127) then u_prN
  else tbl3 u_eastAsianWidth r.

(* runeWidth(r, graphemeProperty) *)
Definition rune_width (r gp : Z) : Z :=
  if (gp =? u_prControl) || (gp =? u_prCR) || (gp =? u_prLF) || (gp =? u_prExtend) || (gp =? u_prZWJ) then 0
  else if gp =? u_prRegionalIndicator then 2
  else if gp =? u_prExtendedPictographic then
    (if tbl3 u_emojiPresentation r =? u_prEmojiPresentation then 2 else 1)
  else if r =? 11834 then 3
  else if r =? 11835 then 4
  else
    let e := prop_eaw r in
    if (e =? u_prW) || (e =? u_prF) then 2 else 1.

(* uniseg.StringWidth(string(r)) for one rune: the first branch of the segmentation (whole input is one rune) *)
Definition uwc (r : Z) : Z := rune_width r (prop_graphemes r).

(* grTransitions *)
Fixpoint gr_lookup (t : list (Z * Z * (Z * Z * Z))) (state prop : Z) : option (Z * Z * Z) :=
  match t with
  | [] => None
  | (s, p, res) :: rest => if (s =? state) && (p =? prop) then Some res else gr_lookup rest state prop
  end.
Definition gr_trans (state prop : Z) : option (Z * Z * Z) := gr_lookup u_grTransitions state prop.

(* transitionGraphemeState(state, r) = (newState, prop, boundary); state -1 matches no case.
   It looks at r through its property only. *)
Definition trans_prop (state prop : Z) : Z * Z * bool :=
  match gr_trans state prop with
  | Some (ns, b, _) => (ns, prop, b =? u_grBoundary)
  | None =>
      match gr_trans state u_prAny, gr_trans u_grAny prop with
      | Some (_, apb, apr), Some (ass, asb, asr) =>
          (ass, prop, if apr <? asr then apb =? u_grBoundary else asb =? u_grBoundary)
      | Some (aps, apb, _), None => (aps, prop, apb =? u_grBoundary)
      | None, Some (ass, asb, _) => (ass, prop, asb =? u_grBoundary)
      | None, None => (u_grAny, prop, true)
      end
  end.
Definition trans_grapheme (state r : Z) : Z * Z * bool := trans_prop state (prop_graphemes r).

(* utf8.DecodeRune: (rune, size); invalid or incomplete input is (U+FFFD, 1), empty input (U+FFFD, 0) *)
Definition go_decode_rune (inp : list Z) : Z * Z :=
  match inp with
  | [] => (runeError, 0)
  | _ => match decode_rune inp with
         | None => (runeError, 1)
         | Some (r, size, _) => (r, size)
         end
  end.

Definition ustate := option (Z * Z).

(* the loop of Step after the first rune; [len] bytes belong to the cluster so far.
   Result: (bytes of the cluster, width, new state). *)
Fixpoint ustep_loop (fuel : nat) (buf : list Z) (gs firstProp width len : Z) : Z * Z * ustate :=
  match fuel with
  | O => (len, width, None)   (* not reached: every iteration takes at least one of the [length buf] bytes *)
  | S f =>
      let '(r, l) := go_decode_rune (zskipn len buf) in
      let '(gs', prop, boundary) := trans_grapheme gs r in
      if boundary then (len, width, Some (gs', prop))
      else
        let width' :=
          if firstProp =? u_prExtendedPictographic then
            (if r =? u_vs15 then 1 else if r =? u_vs16 then 2 else width)
          else if negb (firstProp =? u_prRegionalIndicator) && negb (firstProp =? u_prL) then width + rune_width r prop
          else width in
        let len' := len + l in
        if zlen buf <=? len' then (zlen buf, width', Some (u_grAny, prop))
        else ustep_loop f buf gs' firstProp width' len'
  end.

(* uniseg.Step(b, state) for non-empty b: (len(cluster), width, newState); rest = b[len(cluster):] *)
Definition ustep (buf : list Z) (state : ustate) : Z * Z * ustate :=
  let '(r, len) := go_decode_rune buf in
  if zlen buf <=? len then
    let prop := match state with None => prop_graphemes r | Some (_, p) => p end in
    (zlen buf, rune_width r prop, Some (u_grAny, prop))
  else
    let '(gs, firstProp) :=
      match state with
      | None => let '(g, p, _) := trans_grapheme (-1) r in (g, p)
      | Some (g, p) => (g, p)
      end in
    ustep_loop (length buf) buf gs firstProp (rune_width r firstProp) len.
