(* The span buffer (type spanScreen of screen.go) and the terminal that drives
   it, for BOTH text modes: the row primitives of Model/Span.v and the screen and
   terminal of Model/SpanScreen.v, parametrised by the cluster stepper

       stepTextCluster(buf, state, mode)      (grapheme_reader.go)

   instead of a width oracle.  A stepper takes the bytes and the segmentation
   state carried from the cluster before and returns the cluster, the bytes
   consumed, the cell width and the next state; [rune_stepper wc] is
   stepRuneCluster over a width oracle (the state passes through unchanged),
   [grapheme_stepper] is stepGraphemeCluster over the model of uniseg.Step
   (Model/Uniseg.v, Model/Grapheme.v).  The flag [fast] is the test
   [mode == TextReadModeRune] that guards the two byte-indexed fast paths of
   splitSpan and replaceRange.

   Every function of screen.go that looks at s.textMode is transcribed with the
   state it carries: splitSpan, byteIndexForCell, replaceRange (through
   splitSpan), truncateLine, resizeLine, clustersFitting (state in, state out),
   wideTailAt, rawWriteSpan, deleteChars, StyledLine, setSize, writeString with
   its merge flag, mergeIntoPreviousCell; and the cell projection is the one of
   verif_hooks.go verifExpandSpans (a cluster of width 0 joins the head cell
   before it, also across span boundaries).  The reader is
   GraphemeReader.ReadPrintableBytes over the token rules of Model/Grapheme.v:
   a run of tokens under maxWidth, or a merge run (tokens that join the
   character left of the cursor) when the text starts with merge tokens; the
   reader state (segmentation state, forceMergeNext, lastWasRI) is part of the
   terminal state and is reset by ReadByte.

   The model is a transcription of the code.  It sets no known-finding mark:
   text that reached a row in pieces and re-segments into other cells than it
   was written as (known finding KF-grapheme-merge) is reproduced, not excused.
   Go panics reachable by input are [zcrash] values as in SpanScreen.v.
   Definitions that do not depend on the stepper (scroll, moveCursor, the
   dispatch of C0 controls, two-byte escapes, modes, OSC, the [sterm] record)
   are those of Span.v / SpanScreen.v.  Definitions only. *)
From Coq Require Import List ZArith Bool.
From Termemu Require Import Base Style Screen Kbd Parser Term Uniseg Grapheme Span SpanScreen.
Import ListNotations.
Open Scope Z_scope.

(* stepTextCluster: None = !ok; Some (cluster, consumed, width, newState) *)
Definition stepper := list Z -> ustate -> option (list Z * Z * Z * ustate).

(* stepRuneCluster *)
Definition rune_stepper (wc : Z -> Z) : stepper := fun buf st =>
  match step_cluster wc buf with
  | None => None
  | Some (c, k, w) => Some (c, k, w, st)
  end.

(* stepGraphemeCluster *)
Definition grapheme_stepper : stepper := fun buf st =>
  match step_grapheme_cluster buf st with
  | None => None
  | Some (k, w, ns) => Some (zfirstn k buf, k, w, ns)
  end.

Section WithStepper.
  Variable fast : bool.        (* mode == TextReadModeRune *)
  Variable step : stepper.

  (* ---- splitSpan ---- *)
  Fixpoint g_split_scan (fuel : nat) (buf : list Z) (st : ustate) (idx cellPos off : Z) : option (Z * Z * list Z * Z) :=
    match fuel with
    | O => None
    | S f =>
        match buf with
        | [] => None
        | _ =>
            match step buf st with
            | None => None
            | Some (c, k, w0, ns) =>
                if k <=? 0 then None else
                let w := if w0 <? 1 then 0 else w0 in
                let ce := cellPos + w in
                if (cellPos <? off) && (off <? ce) then
                  (if 1 <? w then Some (idx, cellPos, c, w) else None)
                else g_split_scan f (zskipn k buf) ns (idx + k) ce off
            end
        end
    end.

  Fixpoint g_bifc (fuel : nat) (buf : list Z) (st : ustate) (idx width off : Z) : Z * Z :=
    match fuel with
    | O => (idx, width)
    | S f =>
        match buf with
        | [] => (idx, width)
        | _ =>
            if width <? off then
              match step buf st with
              | None => (idx, width)
              | Some (_, k, w, ns) =>
                  if k <=? 0 then (idx, width) else
                  g_bifc f (zskipn k buf) ns (idx + k) (if 0 <? w then width + w else width) off
              end
            else (idx, width)
        end
    end.
  Definition g_byte_index_for_cell (text : list Z) (off : Z) : Z * Z :=
    if (off <=? 0) || negb (nonempty text) then (0, 0) else g_bifc (length text) text None 0 0 off.

  (* (left, right, splitWide) *)
  Definition g_split_span (sp : span) (off : Z) : span * span * span :=
    if off <=? 0 then (empty_span, sp, empty_span)
    else if sp_width sp <=? off then (sp, empty_span, empty_span)
    else if negb (is_text sp) then
      (set_width sp off, set_width sp (sp_width sp - off), empty_span)
    else
      let text := sp_text sp in
      if fast && (sp_width sp =? zlen text) then
        (set_text sp (zfirstn off text) off, set_text sp (zskipn off text) (sp_width sp - off), empty_span)
      else
        match g_split_scan (length text) text None 0 0 off with
        | Some (idx, cellPos, c, w) =>
            (set_text sp (zfirstn idx text) cellPos,
             set_text sp (zskipn (idx + zlen c) text) (sp_width sp - (cellPos + w)),
             set_text sp c w)
        | None =>
            let '(bi, lw) := g_byte_index_for_cell text off in
            (set_text sp (zfirstn bi text) lw, set_text sp (zskipn bi text) (sp_width sp - lw), empty_span)
        end.

  (* ---- replaceRange ---- *)
  Definition g_start_cut (sp : span) (startOffset : Z) (ins0 : span) (cutall : bool) : span * span * bool :=
    let '(left0, wideS) :=
      if 0 <? startOffset then (let '(lf, _, wd) := g_split_span sp startOffset in (lf, wd))
      else (empty_span, empty_span) in
    let hasLeft0 := 0 <? sp_width left0 in
    if (0 <? sp_width wideS) && (sp_width ins0 =? 0) && cutall then
      (blank_span (sp_sty wideS) (startOffset - sp_width left0), left0, hasLeft0)
    else if 0 <? sp_width wideS then
      (if hasLeft0 then
         (ins0, set_text left0 (sp_text left0 ++ sp_text wideS) (sp_width left0 + sp_width wideS), true)
       else (ins0, wideS, true))
    else (ins0, left0, hasLeft0).

  Definition g_end_cut (esp : span) (endOffset : Z) (ins1 : span) : span * span * bool :=
    let '(rgt, wideE) :=
      if endOffset <? sp_width esp then (let '(_, rt, wd) := g_split_span esp endOffset in (rt, wd))
      else (empty_span, empty_span) in
    let ins :=
      if 0 <? sp_width wideE then fill_gap ins1 (sp_sty wideE) (sp_width esp - endOffset - sp_width rgt)
      else ins1 in
    (ins, rgt, 0 <? sp_width rgt).

  Definition g_rr_splice (l : spanline) (startIdx startOffset endIdx endOffset totalWidth x n : Z) (ins0 : span)
    : spanline :=
    let spans := sl_spans l in
    let sp := znth startIdx spans empty_span in
    let same := startIdx =? endIdx in
    if same && (startOffset =? 0) && (endOffset =? sp_width sp) && (0 <? sp_width ins0) then
      mkLine (zfirstn startIdx spans ++ ins0 :: zskipn (startIdx + 1) spans) (totalWidth - n + sp_width ins0)
    else if same && (sp_width ins0 =? n) && style_eqb (sp_sty sp) (sp_sty ins0)
            && negb (is_text sp) && negb (is_text ins0) && (sp_rune sp =? sp_rune ins0) then l
    else if same && (sp_width ins0 =? n) && style_eqb (sp_sty sp) (sp_sty ins0)
            && is_text sp && is_text ins0 && fast && (sp_width sp =? zlen (sp_text sp))
            && (sp_width ins0 =? zlen (sp_text ins0)) then
      let sp' := set_text sp (zfirstn startOffset (sp_text sp) ++ sp_text ins0 ++ zskipn (startOffset + n) (sp_text sp))
                   (sp_width sp) in
      mkLine (zfirstn startIdx spans ++ sp' :: zskipn (startIdx + 1) spans) totalWidth
    else
    let '(ins1, lft, hasLeft) := g_start_cut sp startOffset ins0 (totalWidth <=? x + n) in
    let '(ins, rgt, hasRight) := g_end_cut (znth endIdx spans empty_span) endOffset ins1 in
    let res := zfirstn startIdx spans ++ opt_span hasLeft lft ++ opt_span (0 <? sp_width ins) ins
                 ++ opt_span hasRight rgt ++ zskipn (endIdx + 1) spans in
    mkLine res (spans_width res).

  Definition g_replace_range (l : spanline) (x0 n0 : Z) (ins0 : span) : spanline :=
    if (n0 =? 0) && (sp_width ins0 =? 0) then l else
    let spans := sl_spans l in
    if negb (nonempty spans) then mkLine [ins0] (sp_width ins0) else
    let len := zlen spans in
    let x1 := if x0 <? 0 then 0 else x0 in
    let n1 := if n0 <? 0 then 0 else n0 in
    let '(startIdx, startOffset, pos1, rem) := scan_start spans 0 0 x1 in
    let '(eo, pos2, after) := scan_end rem startIdx pos1 (x1 + n1) in
    let totalWidth := pos2 + spans_width after in
    let '(endIdx0, endOffset0) := match eo with Some p => p | None => (len - 1, 0) end in
    let x := if totalWidth <? x1 then totalWidth else x1 in
    let clampn := totalWidth <? x + n1 in
    let n := if clampn then totalWidth - x else n1 in
    let endIdx := if clampn then len - 1 else endIdx0 in
    let endOffset := if clampn then sp_width (znth (len - 1) spans empty_span) else endOffset0 in
    if (x =? 0) && (totalWidth <=? n) then
      mkLine (opt_span (0 <? sp_width ins0) ins0) (sp_width ins0)
    else if startIdx =? len then
      (if 0 <? sp_width ins0 then mkLine (spans ++ [ins0]) (totalWidth + sp_width ins0) else l)
    else g_rr_splice l startIdx startOffset endIdx endOffset totalWidth x n ins0.

  Definition g_insert_span (l : spanline) (x : Z) (ins : span) : spanline := g_replace_range l x 0 ins.

  Definition g_truncate_line (l : spanline) (width : Z) : spanline :=
    if width <=? 0 then mkLine [] 0
    else g_replace_range l width (line_cell_width l - width) empty_span.

  Definition g_resize_line (l : spanline) (width : Z) (st : style) : spanline :=
    let cur := line_cell_width l in
    if width <? cur then g_truncate_line l width
    else mkLine (if cur <? width then sl_spans l ++ [blank_span st (width - cur)] else sl_spans l) width.

  (* ---- row-level users; W is s.size.X ---- *)
  Definition g_raw_write_span (W : Z) (l : spanline) (x : Z) (sp : span) : option spanline :=
    if sp_width sp <=? 0 then Some l
    else if W <? x + sp_width sp then None
    else
      let l1 := g_replace_range l x (sp_width sp) sp in
      if W <? line_cell_width l1 then Some (g_truncate_line l1 W) else Some l1.

  Definition g_span_delete_chars (W : Z) (st : style) (l : spanline) (x n : Z) : spanline :=
    if n <=? 0 then l else
    let n := if x <? 0 then n + x else n in
    let x := if x <? 0 then 0 else x in
    if (W <=? x) || (n <=? 0) then l else
    let n := if W <? x + n then W - x else n in
    let l1 := g_replace_range l x n empty_span in
    let cur := line_cell_width l1 in
    if cur <? W then mkLine (sl_spans l1 ++ [blank_span st (W - cur)]) W else l1.

  (* clustersFitting(text, avail, state, mode): (bytes, cells, state) *)
  Fixpoint g_cf_loop (fuel : nat) (buf : list Z) (st : ustate) (idx width avail : Z) : Z * Z * ustate :=
    match fuel with
    | O => (idx, width, st)
    | S f =>
        match buf with
        | [] => (idx, width, st)
        | _ =>
            match step buf st with
            | None => (idx, width, st)
            | Some (_, k, w0, ns) =>
                if k <=? 0 then (idx, width, st) else
                let w := if w0 <? 0 then 0 else w0 in
                if (0 <? idx) && (avail <? width + w) then (idx, width, st)
                else g_cf_loop f (zskipn k buf) ns (idx + k) (width + w) avail
            end
        end
    end.
  Definition g_clusters_fitting (text : list Z) (avail : Z) (st : ustate) : Z * Z * ustate :=
    g_cf_loop (length text) text st 0 0 avail.

  (* StyledLine(x, w, y) *)
  Fixpoint g_styled_loop (spans : list span) (pos x w : Z) (acc : list span) : list span :=
    match spans with
    | [] => acc
    | sp :: rest =>
        let e := pos + sp_width sp in
        if e <=? x then g_styled_loop rest e x w acc
        else if x + w <=? pos then acc
        else
          let startO := zmax pos x in
          let endO := zmin e (x + w) in
          let width := endO - startO in
          let acc' :=
            if 0 <? width then
              let offset := startO - pos in
              if (offset =? 0) && (width =? sp_width sp) then acc ++ [sp]
              else
                let '(_, sub, _) := g_split_span sp offset in
                if width <? sp_width sub then (let '(keep, _, _) := g_split_span sub width in acc ++ [keep])
                else acc ++ [sub]
            else acc in
          g_styled_loop rest e x w acc'
    end.
  Definition g_styled_line (W : Z) (l : spanline) (x w : Z) : list span * Z :=
    let w := if (w <? 0) || (W <? x + w) then W - x else w in
    let w := if w <? 0 then 0 else w in
    (g_styled_loop (sl_spans l) 0 x w [], w).

  (* ---- the cell projection: verifExpandSpans.  The cells are accumulated newest first
     over the whole row, because a cluster of width 0 joins the nearest head cell before
     it even when that cell comes from the span before. ---- *)
  Fixpoint attach_prev (rcells : list cell) (c : list Z) : list cell :=
    match rcells with
    | [] => []
    | x :: rest =>
        if (cwid x =? 0) && nonempty rest then x :: attach_prev rest c
        else mkCell (ctext x ++ c) (cwid x) (cst x) :: rest
    end.
  Fixpoint g_seg_cells (fuel : nat) (sty : style) (buf : list Z) (st : ustate) (racc : list cell) : list cell :=
    match fuel with
    | O => racc
    | S f =>
        match buf with
        | [] => racc
        | _ =>
            match step buf st with
            | None => rev (map (fun b => mkCell [b] 1 sty) buf) ++ racc
            | Some (c, k, w, ns) =>
                if k <=? 0 then rev (map (fun b => mkCell [b] 1 sty) buf) ++ racc
                else if w <? 1 then g_seg_cells f sty (zskipn k buf) ns (attach_prev racc c)
                else g_seg_cells f sty (zskipn k buf) ns (rev (glyph_cells c w sty) ++ racc)
            end
        end
    end.
  Definition g_abs_span (racc : list cell) (sp : span) : list cell :=
    if sp_width sp <=? 0 then racc
    else if is_text sp then g_seg_cells (length (sp_text sp)) (sp_sty sp) (sp_text sp) None racc
    else zrepeat (mkCell (encode_rune (sp_rune sp)) 1 (sp_sty sp)) (sp_width sp) ++ racc.
  Definition g_abs_line (l : spanline) : list cell := rev (fold_left g_abs_span (sl_spans l) []).

  Definition g_abs_sscreen (s : sscreen) : screen :=
    mkScreen (map g_abs_line (zlines s)) (zW s) (zH s) (zcx s) (zcy s) (zsvx s) (zsvy s)
      (ztop s) (zbot s) (zawrap s) (zsty s) (zcrash s) (ztrig s) (zevs s).

  (* ================= the screen ================= *)
  (* ---- wideTailAt ---- *)
  Fixpoint g_wta_loop (fuel : nat) (text : list Z) (st : ustate) (cellPos offset : Z) : Z :=
    match fuel with
    | O => 0
    | S f =>
        match text with
        | [] => 0
        | _ =>
            if cellPos <? offset then
              match step text st with
              | None => 0
              | Some (_, k, w0, ns) =>
                  if k <=? 0 then 0 else
                  let w := if w0 <? 0 then 0 else w0 in
                  if (cellPos <? offset) && (offset <? cellPos + w) then cellPos + w - offset
                  else g_wta_loop f (zskipn k text) ns (cellPos + w) offset
              end
            else 0
        end
    end.
  Definition g_wide_tail_at (l : spanline) (x : Z) : Z :=
    let '(idx, offset) := find_span_at_x l x in
    if (offset =? 0) || (zlen (sl_spans l) <=? idx) then 0 else
    let sp := znth idx (sl_spans l) empty_span in
    if negb (is_text sp) then 0
    else g_wta_loop (length (sp_text sp)) (sp_text sp) None 0 offset.

  (* ---- rawWriteSpan(x, y, sp, cr) ---- *)
  Definition g_s_raw_write_span (x y : Z) (sp : span) (reason : Z) (s : sscreen) : sscreen :=
    if sp_width sp <=? 0 then s else
    if (y <? 0) || (zH s <=? y) || (zlen (zlines s) <=? y) then z_set_crash 1 s else
    let line := line_at s y in
    match g_raw_write_span (zW s) line x sp with
    | None => z_set_crash 1 s                      (* x+sp.Width > s.size.X *)
    | Some l' =>
        let tail := g_wide_tail_at line (x + sp_width sp) in
        let grew := zW s <? line_cell_width (g_replace_range line x (sp_width sp) sp) in
        let x2 := if grew then zW s else x + sp_width sp + tail in
        z_emit (ERegion x y x2 (y + 1) reason) (z_set_lines (zupd y l' (zlines s)) s)
    end.

  (* ---- eraseRegion(r, CRClear) ---- *)
  Fixpoint g_s_erase_rows (reason : Z) (x : Z) (sp : span) (ys : list Z) (s : sscreen) : sscreen :=
    match ys with
    | [] => s
    | y :: r => g_s_erase_rows reason x sp r (g_s_raw_write_span x y sp reason s)
    end.
  Definition g_s_erase_region (x y x2 y2 : Z) (s : sscreen) : sscreen :=
    let x := clamp x 0 (zW s) in
    let y := clamp y 0 (zH s) in
    let x2 := clamp x2 x (zW s) in
    let y2 := clamp y2 y (zH s) in
    g_s_erase_rows crClear x (blank_span (zsty s) (x2 - x)) (zseq y y2) s.

  (* ---- deleteChars(x, y, n, CRClear) ---- *)
  (* for from > 0 && wideTailAt(line, from) > 0 { from-- } *)
  Fixpoint g_from_loop (fuel : nat) (l : spanline) (from : Z) : Z :=
    match fuel with
    | O => from
    | S f => if (0 <? from) && (0 <? g_wide_tail_at l from) then g_from_loop f l (from - 1) else from
    end.
  Definition g_s_delete_chars (x y n : Z) (s : sscreen) : sscreen :=
    if (y <? 0) || (zH s <=? y) || (n <=? 0) then s else
    let n1 := if x <? 0 then n + x else n in
    let x1 := if x <? 0 then 0 else x in
    if (zW s <=? x1) || (n1 <=? 0) then s else
    let n2 := if zW s <? x1 + n1 then zW s - x1 else n1 in
    let line := line_at s y in
    let from := if zW s <=? x1 + n2 then g_from_loop (Z.to_nat x1) line x1 else x1 in
    z_emit (ERegion from y (zW s) (y + 1) crClear)
      (z_set_lines (zupd y (g_span_delete_chars (zW s) (zsty s) line x n) (zlines s)) s).

  (* ---- setSize(w, h) ---- *)
  Definition g_s_set_size (w h : Z) (s : sscreen) : sscreen :=
    if (w <=? 0) || (h <=? 0) then z_set_crash 2 s else
    let R' := map (fun y => if (y <? zH s) && nonempty (zlines s)
                            then g_resize_line (line_at s y) w (zsty s)
                            else blank_span_line w (zsty s)) (zseq 0 h) in
    let bot0 := h - (zH s - zbot s) in
    let s1 := z_set_dims R' w h s in
    let s2 := z_set_cur (clamp (zcx s) 0 (w - 1)) (clamp (zcy s) 0 (h - 1)) s1 in
    let s3 := z_set_saved (clamp (zsvx s) 0 (w - 1)) (clamp (zsvy s) 0 (h - 1)) s2 in
    let bot1 := clamp bot0 0 (h - 1) in
    let '(t', b') := if bot1 <? ztop s then (0, h - 1) else (ztop s, bot1) in
    s_set_style (zsty s) (z_set_margins t' b' s3).

  (* ---- writeRun(text, width) ---- *)
  Definition g_s_write_run (text : list Z) (width : Z) (s : sscreen) : sscreen :=
    if negb (zcrash s =? 0) then s else
    let width := if zW s <? width then zW s else width in
    let s1 :=
      if zW s <? zcx s + width then
        if zawrap s then s_move_cursor (- zcx s) 1 false true s
        else z_set_cur (zW s - width) (zcy s) s
      else s in
    let s2 := g_s_raw_write_span (zcx s1) (zcy s1) (mk_span (zsty s1) text 0 width) crText s1 in
    if negb (zcrash s2 =? 0) then s2 else s_move_cursor width 0 true true s2.

  (* ---- mergeIntoPreviousCell(text) ---- *)
  Definition g_merge_prev (text : list Z) (s : sscreen) : sscreen :=
    if negb (zcrash s =? 0) then s else
    if zcx s <=? 0 then s else
    let y := zcy s in
    if (y <? 0) || (zlen (zlines s) <=? y) then z_set_crash 1 s else     (* s.lines[y] *)
    let line := line_at s y in
    (* the character left of the cursor; a wide one starts further left *)
    let cell := g_from_loop (Z.to_nat (zcx s)) line (zcx s - 1) in
    let width := 1 + g_wide_tail_at line (cell + 1) in
    let '(idx, offset) := find_span_at_x line cell in
    if zlen (sl_spans line) <=? idx then s else
    let '(_, rest, _) := g_split_span (znth idx (sl_spans line) empty_span) offset in
    let '(ch, _, _) := g_split_span rest width in
    if negb (sp_width ch =? width) then s else
    let base := if is_text ch then sp_text ch
                else concat_rep (encode_rune (sp_rune ch)) (Z.to_nat (sp_width ch)) in
    let ch' := set_text ch (base ++ text) (sp_width ch) in
    z_emit (ERegion cell y (cell + width) (y + 1) crText)
      (z_set_lines (zupd y (g_replace_range line cell width ch') (zlines s)) s).

  (* ---- writeString(text, width, merge, mode) ---- *)
  Fixpoint g_ws_loop (fuel : nat) (text : list Z) (width : Z) (st : ustate) (s : sscreen) : sscreen :=
    match fuel with
    | O => g_s_write_run text width s
    | S f =>
        if negb (zcrash s =? 0) then s else
        if zW s <? zcx s + width then
          let '(n, w, ns) := g_clusters_fitting text (zW s - zcx s) st in
          if (n <=? 0) || (zlen text <=? n) then g_s_write_run text width s
          else
            let s1 := g_s_write_run (zfirstn n text) w s in
            let width' := if width - w <? 1 then 1 else width - w in
            g_ws_loop f (zskipn n text) width' ns s1
        else g_s_write_run text width s
    end.
  Definition g_s_write_string (text : list Z) (width : Z) (merge : bool) (s : sscreen) : sscreen :=
    if negb (nonempty text) then s else
    if merge then g_merge_prev text s else
    g_ws_loop (length text) text (if width <? 1 then 1 else width) None s.

  (* ================= the terminal ================= *)
  (* Terminal.Resize *)
  Definition g_s_resize (w h : Z) (t : sterm) : sterm :=
    let m := g_s_set_size w h (z_set_evs [] (smain t)) in
    let a := g_s_set_size w h (z_set_evs [] (salt t)) in
    let t1 := mkSTerm (z_set_evs [] m) (z_set_evs [] a) (sonalt t) (svflags t) (svints t) (svstrs t) (skbm t) (skba t) (sout t)
      (zevs a ++ zevs m ++ slog t) in
    let s := s_active t1 in
    s_log_ev (EStyle (zsty s)) (s_log_ev (ECursor (zcx s) (zcy s)) t1).

  Definition g_s_exec_csi_plain (ps : list Z) (f : Z) (t : sterm) : sterm :=
    let s := s_active t in
    let n1 := p0 ps 1 in
    if f =? 65 then s_on_screen (s_move_cursor 0 (- n1) false false) t
    else if f =? 66 then s_on_screen (s_move_cursor 0 n1 false false) t
    else if f =? 67 then s_on_screen (s_move_cursor n1 0 false false) t
    else if f =? 68 then s_on_screen (s_move_cursor (- n1) 0 false false) t
    else if f =? 71 then s_on_screen (fun s => s_set_cursor_pos (n1 - 1) (zcy s) s) t
    else if f =? 99 then (if p0 ps 0 =? 0 then s_reply da1_reply t else t)
    else if f =? 100 then s_on_screen (fun s => s_set_cursor_pos (zcx s) (n1 - 1) s) t
    else if (f =? 102) || (f =? 72) then
      s_on_screen (s_set_cursor_pos (p1 ps 1 - 1) (p0 ps 1 - 1)) t
    else if f =? 109 then s_on_screen (fun s => s_set_style (sgr_apply ps (zsty s)) s) t
    else if f =? 115 then s_on_screen s_save_cursor t
    else if f =? 117 then s_on_screen s_restore_cursor t
    else if f =? 75 then
      let p := p0 ps 0 in
      if p =? 0 then s_on_screen (fun s => g_s_erase_region (zcx s) (zcy s) (zW s) (zcy s + 1) s) t
      else if p =? 1 then s_on_screen (fun s => g_s_erase_region 0 (zcy s) (zcx s + 1) (zcy s + 1) s) t
      else if p =? 2 then s_on_screen (fun s => g_s_erase_region 0 (zcy s) (zW s) (zcy s + 1) s) t
      else t
    else if f =? 74 then
      let p := p0 ps 0 in
      if p =? 0 then
        s_on_screen (fun s =>
          let s1 := g_s_erase_region (zcx s) (zcy s) (zW s) (zcy s + 1) s in
          if zcy s + 1 <? zH s then g_s_erase_region 0 (zcy s + 1) (zW s) (zH s) s1 else s1) t
      else if p =? 1 then
        s_on_screen (fun s =>
          let s1 := if 0 <? zcy s then g_s_erase_region 0 0 (zW s) (zcy s) s else s in
          g_s_erase_region 0 (zcy s) (zcx s + 1) (zcy s + 1) s1) t
      else if p =? 2 then
        s_on_screen (fun s => s_set_cursor_pos 0 0 (g_s_erase_region 0 0 (zW s) (zH s) s)) t
      else t
    else if f =? 76 then
      s_on_screen (fun s => if (ztop s <=? zcy s) && (zcy s <=? zbot s) then s_scroll (zcy s) (zbot s) n1 s else s) t
    else if f =? 77 then
      s_on_screen (fun s => if (ztop s <=? zcy s) && (zcy s <=? zbot s) then s_scroll (zcy s) (zbot s) (- n1) s else s) t
    else if f =? 83 then s_on_screen (fun s => s_scroll (ztop s) (zbot s) (- n1) s) t
    else if f =? 84 then s_on_screen (fun s => s_scroll (ztop s) (zbot s) n1 s) t
    else if f =? 80 then s_on_screen (fun s => g_s_delete_chars (zcx s) (zcy s) n1 s) t
    else if f =? 88 then
      s_on_screen (fun s => g_s_erase_region (zcx s) (zcy s) (zcx s + n1) (zcy s + 1) s) t
    else if f =? 114 then
      s_on_screen (fun s => s_set_scroll_margins (p0 ps 1 - 1) (p1 ps (zH s) - 1) s) t
    else if f =? 110 then
      let p := p0 ps 0 in
      if p =? 5 then s_reply dsr_ok_reply t
      else if p =? 6 then s_reply (cpr_reply (zcy s + 1) (zcx s + 1)) t
      else t
    else t.

  Definition g_s_exec_csi (prefix : Z) (ps : list Z) (f : Z) (t : sterm) : sterm :=
    if prefix =? 0 then g_s_exec_csi_plain ps f t
    else if prefix =? 63 then
      if f =? 117 then s_reply (kbd_query_reply (kflags (s_active_kbd t))) t
      else if f =? 104 then fold_left (fun t p => s_dec_mode true p t) ps t
      else if f =? 108 then fold_left (fun t p => s_dec_mode false p t) ps t
      else t
    else if prefix =? 62 then
      if f =? 99 then s_reply da2_reply t
      else if f =? 109 then
        let mode := mok_scan ps (-1) in
        if 0 <=? mode then s_set_vint viModifyOtherKeys mode t else t
      else if f =? 117 then s_on_kbd (kbd_push (p0 ps 0)) t
      else t
    else if prefix =? 60 then
      if f =? 117 then s_on_kbd (kbd_pop (p0 ps 1)) t else t
    else if prefix =? 61 then
      if f =? 117 then s_on_kbd (kbd_update (p0 ps 0) (p1 ps 1)) t else t
    else t.

  (* a run of printable text: bw.writeString(data, width, merge, mode) on the active buffer *)
  Definition g_s_exec_run (text : list Z) (width : Z) (merge : bool) (t : sterm) : sterm :=
    s_on_screen (g_s_write_string text width merge) t.

  Definition g_s_exec_tok (k : tok) (t : sterm) : sterm :=
    match k with
    | TGlyph txt r w => g_s_exec_run txt (glyph_width w) false t
    | TC0 b => s_exec_c0 b t
    | TEsc b => s_exec_esc b t
    | TIgnore => t
    | TCsi prefix ps f => g_s_exec_csi prefix ps f t
    | TOsc num payload => s_exec_osc num payload t
    end.

  (* ---- the reader: ReadPrintableBytes(maxWidth) over the buffered bytes ---- *)
  Variable ntok : list Z -> rstate -> option ttok.     (* GraphemeReader.nextTokenInfo in the reader's mode *)

  (* (bytes taken, cells, merge run, reader state).  The run stops at the end of the
     buffer, before a control byte, at an incomplete character, when the next token
     would exceed maxWidth (never before the first), and - in a merge run - before the
     first token that is no merge *)
  Fixpoint g_rr_loop (fuel : nat) (buf : list Z) (idx used maxw : Z) (mrun : bool) (rs : rstate) : Z * Z * bool * rstate :=
    match fuel with
    | O => (idx, used, mrun, rs)
    | S f =>
        match buf with
        | [] => (idx, used, mrun, rs)
        | b :: _ =>
            if negb (is_printable b) then (idx, used, mrun, rs) else
            match ntok buf rs with
            | None => (idx, used, mrun, rs)
            | Some tk =>
                if mrun && negb (tt_merge tk) then (idx, used, mrun, rs) else
                let tw := if tt_merge tk then 0 else tt_width tk in
                if (0 <? maxw) && (maxw <? used + tw) && (0 <? used) then (idx, used, mrun, rs)
                else if tt_len tk <=? 0 then (idx, used, mrun, rs)     (* not reached: a token takes at least one byte *)
                else
                  let used' := used + tw in
                  g_rr_loop f (zskipn (tt_len tk) buf) (idx + tt_len tk) used' maxw
                    (mrun || (tt_merge tk && (used' =? 0))) (tt_rs tk)
            end
        end
    end.
  Definition g_read_run (maxw : Z) (buf : list Z) (rs : rstate) : Z * Z * bool * rstate :=
    g_rr_loop (length buf) buf 0 0 maxw false rs.

  (* One iteration is one ptyReadOne; see SpanScreen.s_run_pending for [mw].  The reader
     state is carried; ReadByte (a control byte, every byte of an escape sequence) resets
     its segmentation state, also when the sequence is still incomplete: its first bytes
     have been taken when the parser blocks. *)
  Fixpoint g_s_run_pending (fuel : nat) (mw : option Z) (t : sterm) (rs : rstate) (inp : list Z)
    : sterm * rstate * list Z * option Z :=
    match fuel with
    | O => (t, rs, inp, mw)
    | S f =>
        if s_crashed t then (t, rs, inp, mw) else
        let m := match mw with Some m => m | None => max_width (s_active t) end in
        match inp with
        | [] => (t, rs, inp, Some m)                                  (* blocks in ReadPrintableBytes *)
        | b :: rest =>
            if is_printable b then
              let '(n, w, mg, rs') := g_read_run m inp rs in
              if n <=? 0 then (t, rs, inp, Some m)                     (* incomplete first character: blocks *)
              else g_s_run_pending f None (g_s_exec_run (zfirstn n inp) w mg t) rs' (zskipn n inp)
            else if b =? 27 then
              match parse_esc rest with
              | PMore => (t, rs_reset rs, inp, Some m)                 (* blocks inside the escape sequence *)
              | PTok k r => g_s_run_pending f None (g_s_exec_tok k t) (rs_reset rs) r
              end
            else g_s_run_pending f None (g_s_exec_tok (TC0 b) t) (rs_reset rs) rest
        end
    end.

  Definition g_s_run_bytes (mw : option Z) (t : sterm) (rs : rstate) (inp : list Z) : sterm * rstate * list Z * option Z :=
    g_s_run_pending (S (length inp)) mw t rs inp.

  Definition g_s_hstep (st : sterm * rstate * list Z * option Z) (o : hop) : sterm * rstate * list Z * option Z :=
    let '(t, rs, pend, mw) := st in
    match o with
    | HFeed bs => g_s_run_bytes mw t rs (pend ++ bs)
    | HResize w h => if s_crashed t then st else (g_s_resize w h t, rs, pend, mw)
    end.

  Definition g_s_run_hist_from (mw : option Z) (t : sterm) (ops : list hop) : sterm * rstate * list Z * option Z :=
    fold_left g_s_hstep ops (t, rs0, [], mw).
  Definition g_s_run_hist (t : sterm) (ops : list hop) : sterm * rstate * list Z * option Z :=
    g_s_run_hist_from (Some (max_width (s_active t))) t ops.

  Definition g_abs_sterm (t : sterm) : term :=
    mkTerm (g_abs_sscreen (smain t)) (g_abs_sscreen (salt t)) (sonalt t)
      (svflags t) (svints t) (svstrs t) (skbm t) (skba t) (sout t) (slog t).
End WithStepper.

(* ---- the two instances ---- *)
(* TextReadModeGrapheme: stepGraphemeCluster and nextGraphemeTokenInfo over the uniseg model *)
Definition gm_step : stepper := grapheme_stepper.
Definition gm_ntok : list Z -> rstate -> option ttok := next_token true.
Definition gm_hstep := g_s_hstep false gm_step gm_ntok.
Definition gm_resize := g_s_resize false gm_step.
Definition gm_abs_sterm := g_abs_sterm gm_step.
Definition gm_run_hist := g_s_run_hist false gm_step gm_ntok.

(* TextReadModeRune over a width oracle: the reader's tokens are single runes, never a merge *)
Definition rune_ntok (wc : Z -> Z) : list Z -> rstate -> option ttok := fun buf rs =>
  match step_cluster wc buf with
  | None => None
  | Some (_, k, w) => Some (mkTtok k w false rs)
  end.
Definition rm_hstep (wc : Z -> Z) := g_s_hstep true (rune_stepper wc) (rune_ntok wc).
Definition rm_run_hist (wc : Z -> Z) := g_s_run_hist true (rune_stepper wc) (rune_ntok wc).
