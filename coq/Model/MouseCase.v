(* Executable entry point for the C13 correspondence check.  One case per line:
     [mode; enc; btn; press; mods; x; y; n1; e1; n2; e2; ...]
   (press and e_i are 0/1; (n_i, e_i) is the result of the i-th backend.Write).
   The answer is the case line followed by
     [-1; status; calls] ++ bytes
   status 0 = nil, 1 = error returned, 2 = panic; calls = number of
   backend.Write calls; bytes = what the backend received. *)
From Coq Require Import List ZArith Bool.
From Termemu Require Import Base Mouse.
Import ListNotations.
Open Scope Z_scope.

Fixpoint dec_script (l : list Z) : list (Z * bool) :=
  match l with
  | n :: e :: rest => (n, negb (e =? 0)) :: dec_script rest
  | _ => []
  end.

Definition run_mouse_line (line : list Z) : list Z :=
  match line with
  | mode :: enc :: btn :: press :: mods :: x :: y :: ws =>
      let p := negb (press =? 0) in
      let s := dec_script ws in
      let st := send_mouse_status mode enc btn p mods x y s in
      if st =? 2 then line ++ [-1; 2; 0]
      else line ++ [-1; st; send_mouse_calls mode enc btn p mods x y s]
             ++ fst (send_mouse mode enc btn p mods x y s)
  | _ => [-2]
  end.

Definition run_mouse (lines : list (list Z)) : list (list Z) := map run_mouse_line lines.
