(* The read loop with the width and segmentation model of Uniseg.v / Grapheme.v
   in place of a width oracle: printable text is tokenised by the reader model in
   either text mode (rune or grapheme), a merge token is appended to the
   character left of the cursor (mergeIntoPreviousCell), everything else is the
   dispatch of Term.v.  In rune mode this is [run_pending uwc] (GTermProofs).
   Definitions only. *)
From Coq Require Import List ZArith Bool.
From Termemu Require Import Base Style Screen Kbd Parser Term Gen_Uniseg Uniseg Grapheme.
Import ListNotations.
Open Scope Z_scope.

(* Known finding KF-grapheme-merge, model side.  The span buffer stores the text of a run and derives the cells by
   segmenting it again; text that reached a row in pieces (a mark merged late, a letter merged after a joiner, two
   regional indicators, conjoining jamo or a prepend character next to text written earlier) can segment into other
   cells than the ones it was written as.  [row_reseg_ok] says that every maximal run of equally styled cells of a row,
   read as one text, segments into exactly those cells; where it fails the span buffer cannot represent the row. *)
Definition trReseg := 16.

(* clusters of a text as (byte length, width), first to last; a cluster of width 0 joins the one before it;
   an incomplete tail gives the impossible entry (-1, -1) *)
Fixpoint reseg (fuel : nat) (buf : list Z) (state : ustate) (acc : list (Z * Z)) : list (Z * Z) :=
  match fuel with
  | O => rev acc
  | S f =>
      match buf with
      | [] => rev acc
      | _ =>
          if negb (full_rune buf) then rev ((-1, -1) :: acc) else
          let '(c, w, ns) := ustep buf state in
          let acc' := if w <? 1 then match acc with (l0, w0) :: r => (l0 + c, w0) :: r | [] => [(-1, -1)] end
                      else (c, w) :: acc in
          reseg f (zskipn c buf) ns acc'
      end
  end.

Definition style_eqb (a b : style) : bool :=
  (pack_fg a =? pack_fg b) && (pack_bg a =? pack_bg b) && (pack_ul a =? pack_ul b).

Fixpoint pairs_eqb (a b : list (Z * Z)) : bool :=
  match a, b with
  | [], [] => true
  | (x, y) :: a', (u, v) :: b' => (x =? u) && (y =? v) && pairs_eqb a' b'
  | _, _ => false
  end.

Definition run_ok (txt : list Z) (cells : list (Z * Z)) : bool :=
  pairs_eqb (reseg (length txt) txt None []) cells.

(* walk the row; [txt] and [cells] (reversed) describe the current run of style [st] *)
Fixpoint row_reseg_go (row : list cell) (st : style) (txt : list Z) (cells : list (Z * Z)) : bool :=
  match row with
  | [] => run_ok txt (rev cells)
  | c :: rest =>
      if style_eqb (cst c) st then
        row_reseg_go rest st (txt ++ ctext c) (if 0 <? cwid c then (zlen (ctext c), cwid c) :: cells else cells)
      else
        run_ok txt (rev cells) &&
        row_reseg_go rest (cst c) (ctext c) (if 0 <? cwid c then [(zlen (ctext c), cwid c)] else [])
  end.
Definition row_reseg_ok (row : list cell) : bool :=
  match row with
  | [] => true
  | c :: _ => row_reseg_go row (cst c) [] []
  end.
Definition screen_reseg_ok (s : screen) : bool := forallb row_reseg_ok (rows s).

(* mergeIntoPreviousCell: the text joins the character whose cells end left of the cursor *)
Definition merge_prev (txt : list Z) (s : screen) : screen :=
  if negb (crash s =? 0) then s else
  if cx s <=? 0 then s else
  let y := cy s in
  let row := row_at s y in
  let b := glyph_start row (cx s - 1) in
  let c := znth b row dcell in
  let w := 1 + cont_run row (b + 1) in
  emit (ERegion b y (b + w) (y + 1) crText)
    (set_rows (zupd y (zupd b (mkCell (ctext c ++ txt) (cwid c) (cst c)) row) (rows s)) s).

Inductive gtok := GT (k : tok) | GMerge (txt : list Z).

Definition gexec (k : gtok) (t : term) : term :=
  match k with
  | GT k => exec_tok k t
  | GMerge txt => on_screen (merge_prev txt) t
  end.

Section GRun.
  Variable grapheme : bool.   (* TextReadModeGrapheme *)
  Variable grid : bool.

  (* one token from the buffered bytes; None: the blocking reader waits *)
  Definition gparse_one (rs : rstate) (inp : list Z) : option (gtok * rstate * list Z) :=
    match inp with
    | [] => None
    | b :: rest =>
        if is_printable b then
          match next_token grapheme inp rs with
          | None => None
          | Some tk =>
              let len := tt_len tk in
              let rest' := zskipn len inp in
              if tt_merge tk then Some (GMerge (zfirstn len inp), tt_rs tk, rest')
              else
                match decode_rune inp with
                | None => None
                | Some (r, _, valid) =>
                    let txt := if negb valid && grid then utf8_replacement else zfirstn len inp in
                    Some (GT (TGlyph txt r (tt_width tk)), tt_rs tk, rest')
                end
          end
        else if b =? 27 then
          match parse_esc rest with
          | PMore => None
          | PTok k r => Some (GT k, rs_reset rs, r)
          end
        else Some (GT (TC0 b), rs_reset rs, rest)
    end.

  Fixpoint grun_pending (fuel : nat) (t : term) (rs : rstate) (inp : list Z) : term * rstate * list Z :=
    match fuel with
    | O => (t, rs, inp)
    | S f =>
        if crashed t then (t, rs, inp) else
        match gparse_one rs inp with
        | None =>
            (* waiting inside an escape sequence: its first bytes were taken with ReadByte, which restarts segmentation *)
            (t, match inp with b :: _ => if is_printable b then rs else rs_reset rs | [] => rs end, inp)
        | Some (k, rs', rest) => grun_pending f (gexec k t) rs' rest
        end
    end.

  Definition grun_bytes (t : term) (rs : rstate) (inp : list Z) : term * rstate * list Z :=
    grun_pending (S (length inp)) t rs inp.

  Definition ghstep (st : term * rstate * list Z) (o : hop) : term * rstate * list Z :=
    let '(t, rs, pend) := st in
    match o with
    | HFeed bs => grun_bytes t rs (pend ++ bs)
    | HResize w h => if crashed t then st else (resize w h t, rs, pend)
    end.

  Definition grun_hist (t : term) (ops : list hop) : term * rstate * list Z :=
    fold_left ghstep ops (t, rs0, []).
End GRun.
