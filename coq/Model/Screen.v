(* Cell-level model of one screen buffer (screen.go / screen_grid.go).
   A row is a list of cells; a glyph of width w is a head cell followed by
   w-1 continuation cells.  Every Go panic site that input can reach is an
   explicit [crash] value, so crash freedom is a statement, not a by-product
   of total list functions.  Definitions only. *)
From Coq Require Import List ZArith Bool.
From Termemu Require Import Base Style.
Import ListNotations.
Open Scope Z_scope.

Record cell := mkCell { ctext : list Z; cwid : Z; cst : style }.

Definition blank (st : style) : cell := mkCell [32] 1 st.
Definition contc (st : style) : cell := mkCell [] 0 st.
Definition dcell : cell := blank default_style.
Definition is_cont (c : cell) : bool := cwid c =? 0.
Definition glyph_cells (txt : list Z) (w : Z) (st : style) : list cell :=
  mkCell txt w st :: zrepeat (contc st) (w - 1).
Definition blank_row (w : Z) (st : style) : list cell := zrepeat (blank st) w.

Inductive event :=
| EBell
| ERegion (x y x2 y2 reason : Z)
| EScrollLines (y : Z)
| ECursor (x y : Z)
| EStyle (s : style)
| EFlag (i : Z) (v : bool)
| EInt (i v : Z)
| EStr (i : Z) (bytes : list Z).

(* ChangeReason *)
Definition crText := 0. Definition crClear := 1. Definition crScroll := 2.
Definition crScreenSwitch := 3.

(* Known-finding triggers (bit set).  The model follows the grid semantics;
   these mark operations on which the span buffer is known to differ. *)
Definition trSecondHalf := 1.   (* operation starts on a continuation cell *)
Definition trWideOnNarrow := 2. (* glyph wider than the screen *)
Definition trInvalidUtf8 := 8.  (* invalid UTF-8 byte stored as text (span buffer keeps raw bytes) *)
Definition trLockedRead := 4.   (* API call while the loop waits inside an escape sequence, lock held *)

Record screen := mkScreen {
  rows : list (list cell);
  sW : Z; sH : Z;
  cx : Z; cy : Z;
  svx : Z; svy : Z;
  top : Z; bot : Z;
  awrap : bool;
  sty : style;
  crash : Z;          (* 0 = running; otherwise the panic site *)
  trig : Z;           (* known-finding triggers fired so far *)
  evs : list event    (* newest first *)
}.

Definition set_rows r s := mkScreen r (sW s) (sH s) (cx s) (cy s) (svx s) (svy s) (top s) (bot s) (awrap s) (sty s) (crash s) (trig s) (evs s).
Definition set_cur x y s := mkScreen (rows s) (sW s) (sH s) x y (svx s) (svy s) (top s) (bot s) (awrap s) (sty s) (crash s) (trig s) (evs s).
Definition set_saved x y s := mkScreen (rows s) (sW s) (sH s) (cx s) (cy s) x y (top s) (bot s) (awrap s) (sty s) (crash s) (trig s) (evs s).
Definition set_margins t b s := mkScreen (rows s) (sW s) (sH s) (cx s) (cy s) (svx s) (svy s) t b (awrap s) (sty s) (crash s) (trig s) (evs s).
Definition set_awrap v s := mkScreen (rows s) (sW s) (sH s) (cx s) (cy s) (svx s) (svy s) (top s) (bot s) v (sty s) (crash s) (trig s) (evs s).
Definition set_sty v s := mkScreen (rows s) (sW s) (sH s) (cx s) (cy s) (svx s) (svy s) (top s) (bot s) (awrap s) v (crash s) (trig s) (evs s).
Definition set_crash v s := mkScreen (rows s) (sW s) (sH s) (cx s) (cy s) (svx s) (svy s) (top s) (bot s) (awrap s) (sty s) v (trig s) (evs s).
Definition add_trig v s := mkScreen (rows s) (sW s) (sH s) (cx s) (cy s) (svx s) (svy s) (top s) (bot s) (awrap s) (sty s) (crash s) (Z.lor (trig s) v) (evs s).
Definition set_evs v s := mkScreen (rows s) (sW s) (sH s) (cx s) (cy s) (svx s) (svy s) (top s) (bot s) (awrap s) (sty s) (crash s) (trig s) v.
Definition emit e s := set_evs (e :: evs s) s.
Definition set_dims r w h s := mkScreen r w h (cx s) (cy s) (svx s) (svy s) (top s) (bot s) (awrap s) (sty s) (crash s) (trig s) (evs s).

Definition row_at (s : screen) (y : Z) : list cell := znth y (rows s) [].
Definition cell_at (s : screen) (x y : Z) : cell := znth x (row_at s y) dcell.

(* ---------- rows ---------- *)

(* index of the head cell of the glyph that covers cell x *)
Fixpoint glyph_start_nat (row : list cell) (x : nat) : nat :=
  match x with
  | O => O
  | S x' => if is_cont (nth (S x') row dcell) then glyph_start_nat row x' else S x'
  end.
Definition glyph_start (row : list cell) (x : Z) : Z := Z.of_nat (glyph_start_nat row (Z.to_nat x)).

(* number of leading continuation cells *)
Fixpoint cont_prefix (l : list cell) : nat :=
  match l with
  | [] => O
  | c :: r => if is_cont c then S (cont_prefix r) else O
  end.
Definition cont_run (row : list cell) (x : Z) : Z := Z.of_nat (cont_prefix (zskipn x row)).

(* left edge of what an operation starting at x has to touch: a glyph whose
   tail reaches into x is blanked from its head *)
Definition left_edge (row : list cell) (x : Z) : Z :=
  if is_cont (znth x row dcell) then glyph_start row x else x.

(* Replace cells [x, x+|new|) by [new]; glyphs cut by either boundary are
   blanked (in style st) over the cells that stay. *)
Definition overwrite (st : style) (x : Z) (new : list cell) (row : list cell) : list cell :=
  let n := zlen new in
  if n =? 0 then row else
  let b := left_edge row x in
  let r := cont_run row (x + n) in
  zfirstn b row ++ zrepeat (blank st) (x - b) ++ new ++ zrepeat (blank st) r ++ zskipn (x + n + r) row.

Definition unglyph (c : cell) : cell := mkCell [32] 1 (cst c).

(* Delete cells [x, x+n), shift the rest left, fill the tail with blanks; the
   remaining halves of glyphs cut by the deletion become blanks in their own style. *)
Definition delete_cells (st : style) (x n : Z) (row : list cell) : list cell :=
  let b := left_edge row x in
  let r := cont_run row (x + n) in
  zfirstn b row ++ map unglyph (zfirstn (x - b) (zskipn b row))
    ++ map unglyph (zfirstn r (zskipn (x + n) row)) ++ zskipn (x + n + r) row
    ++ zrepeat (blank st) n.

(* Fit a row to width w: cut (blanking a glyph that straddles the cut, keeping
   its style) or pad with blanks in style st. *)
Definition fit_row (st : style) (w : Z) (row : list cell) : list cell :=
  let cur := zlen row in
  if w <? cur then
    if is_cont (znth w row dcell) then
      let b := glyph_start row w in
      zfirstn b row ++ map unglyph (zfirstn (w - b) (zskipn b row))
    else zfirstn w row
  else row ++ zrepeat (blank st) (w - cur).

(* ---------- screen primitives ---------- *)

Definition init_screen (w h : Z) : screen :=
  mkScreen (zrepeat (blank_row w default_style) h) w h 0 0 0 0 0 (h - 1) false default_style 0 0 [].

Definition set_style (st : style) (s : screen) : screen := emit (EStyle st) (set_sty st s).

Definition set_cursor_pos (x y : Z) (s : screen) : screen :=
  let x' := clamp x 0 (sW s - 1) in
  let y' := clamp y 0 (sH s - 1) in
  emit (ECursor x' y') (set_cur x' y' s).

Definition save_cursor (s : screen) : screen := set_saved (cx s) (cy s) s.
Definition restore_cursor (s : screen) : screen :=
  emit (ECursor (svx s) (svy s)) (set_cur (svx s) (svy s) s).

(* setScrollMarginTopBottom: an inverted request is ignored *)
Definition set_scroll_margins (t b : Z) (s : screen) : screen :=
  if b <? t then s
  else set_margins (clamp t 0 (sH s - 1)) (clamp b 0 (sH s - 1)) s.

(* scroll(y1, y2, dy): rows y1..y2 move by dy (positive = down) *)
Definition scroll (y1 y2 dy : Z) (s : screen) : screen :=
  let y1 := clamp y1 0 (sH s - 1) in
  let y2 := clamp y2 0 (sH s - 1) in
  if y2 <? y1 then s else
  let h := y2 - y1 + 1 in
  let dy := if h <? dy then h else if dy <? - h then - h else dy in
  let R := rows s in
  let br := blank_row (sW s) (sty s) in
  if 0 <? dy then
    let R' := zfirstn y1 R ++ zrepeat br dy ++ zfirstn (h - dy) (zskipn y1 R) ++ zskipn (y2 + 1) R in
    emit (ERegion 0 y1 (sW s) (y1 + dy) crScroll)
      (emit (ERegion 0 (y1 + dy) (sW s) (y2 + 1) crScroll) (set_rows R' s))
  else
    let d := - dy in
    let R' := zfirstn y1 R ++ zfirstn (h - d) (zskipn (y1 + d) R) ++ zrepeat br d ++ zskipn (y2 + 1) R in
    emit (ERegion 0 (y2 - d + 1) (sW s) (y2 + 1) crScroll)
      (emit (ERegion 0 y1 (sW s) (y2 - d + 1) crScroll) (set_rows R' s)).

(* moveCursor(dx, dy, wrap, scroll) *)
Definition move_cursor (dx dy : Z) (wrap scr : bool) (s : screen) : screen :=
  let startY := cy s in
  let W := sW s in
  let '(x1, y1) :=
    if wrap && awrap s then ((cx s + dx) mod W, cy s + (cx s + dx) / W)
    else (clamp (cx s + dx) 0 (W - 1), cy s) in
  let y2 := y1 + dy in
  let inreg := (top s <=? startY) && (startY <=? bot s) in
  let '(s1, y3) :=
    if scr && inreg then
      if y2 <? top s then (scroll (top s) (bot s) (top s - y2) s, top s)
      else if bot s <? y2 then (scroll (top s) (bot s) (bot s - y2) s, bot s)
      else (s, y2)
    else (s, y2) in
  let y4 := clamp y3 0 (sH s - 1) in
  emit (ECursor x1 y4) (set_cur x1 y4 s1).

(* rawWriteRunes / rawWriteSpan of blanks: overwrite cells [x, x2) of row y *)
Definition write_row_cells (reason : Z) (x y : Z) (new : list cell) (s : screen) : screen :=
  let n := zlen new in
  if n <=? 0 then s else
  if (y <? 0) || (sH s <=? y) || (x <? 0) || (sW s <? x + n) then set_crash 1 s else
  let row := row_at s y in
  let s := if is_cont (znth x row dcell) then add_trig trSecondHalf s else s in
  let b := left_edge row x in
  let r := cont_run row (x + n) in
  emit (ERegion b y (x + n + r) (y + 1) reason)
    (set_rows (zupd y (overwrite (sty s) x new row) (rows s)) s).

Fixpoint erase_rows (reason : Z) (x x2 : Z) (ys : list Z) (s : screen) : screen :=
  match ys with
  | [] => s
  | y :: r => erase_rows reason x x2 r (write_row_cells reason x y (zrepeat (blank (sty s)) (x2 - x)) s)
  end.

Fixpoint zseq_nat (a : Z) (n : nat) : list Z :=
  match n with O => [] | S k => a :: zseq_nat (a + 1) k end.
Definition zseq (a b : Z) : list Z := zseq_nat a (Z.to_nat (b - a)).

(* eraseRegion: the region is clamped to the screen first *)
Definition erase_region (x y x2 y2 : Z) (s : screen) : screen :=
  let x := clamp x 0 (sW s) in
  let y := clamp y 0 (sH s) in
  let x2 := clamp x2 x (sW s) in
  let y2 := clamp y2 y (sH s) in
  erase_rows crClear x x2 (zseq y y2) s.

(* one glyph of printable text (writeString / writeTokens, per glyph) *)
Definition write_glyph (txt : list Z) (w0 : Z) (s : screen) : screen :=
  if negb (crash s =? 0) then s else
  let w1 := if w0 <? 1 then 1 else w0 in
  let s := if sW s <? w1 then add_trig trWideOnNarrow s else s in
  let w := if sW s <? w1 then sW s else w1 in
  let s1 :=
    if sW s <? cx s + w then
      if awrap s then move_cursor (- cx s) 1 false true s
      else set_cur (sW s - w) (cy s) s
    else s in
  let s2 := write_row_cells crText (cx s1) (cy s1) (glyph_cells txt w (sty s1)) s1 in
  if negb (crash s2 =? 0) then s2 else move_cursor w 0 true true s2.

(* deleteChars(x, y, n) *)
Definition delete_chars (x y n : Z) (s : screen) : screen :=
  if (y <? 0) || (sH s <=? y) || (n <=? 0) then s else
  let n := if x <? 0 then n + x else n in
  let x := if x <? 0 then 0 else x in
  if (sW s <=? x) || (n <=? 0) then s else
  let n := if sW s <? x + n then sW s - x else n in
  let row := row_at s y in
  let s := if is_cont (znth x row dcell) then add_trig trSecondHalf s else s in
  let b := left_edge row x in
  emit (ERegion b y (sW s) (y + 1) crClear)
    (set_rows (zupd y (delete_cells (sty s) x n row) (rows s)) s).

(* setSize(w, h) *)
Definition set_size (w h : Z) (s : screen) : screen :=
  if (w <=? 0) || (h <=? 0) then set_crash 2 s else
  let keep := zfirstn h (rows s) in
  let R' := map (fit_row (sty s) w) keep ++ zrepeat (blank_row w (sty s)) (h - zlen keep) in
  let bot1 := clamp (h - (sH s - bot s)) 0 (h - 1) in
  let '(t', b') := if bot1 <? top s then (0, h - 1) else (top s, bot1) in
  let s1 := set_dims R' w h s in
  let s2 := set_cur (clamp (cx s) 0 (w - 1)) (clamp (cy s) 0 (h - 1)) s1 in
  let s3 := set_saved (clamp (svx s) 0 (w - 1)) (clamp (svy s) 0 (h - 1)) s2 in
  let s4 := set_margins t' b' s3 in
  set_style (sty s) s4.
