(* The terminal: two screen buffers, mode registers, keyboard state, reply
   channel; execution of parsed tokens (ptyReadOne + handleCommand + handleCmdCSI
   + handleCmdOSC), Resize, and the driver that consumes buffered bytes. *)
From Coq Require Import List ZArith Bool.
From Termemu Require Import Base Style Screen Kbd Parser.
Import ListNotations.
Open Scope Z_scope.

(* ViewFlag *)
Definition vfBlinkCursor := 0. Definition vfShowCursor := 1. Definition vfReportFocus := 2.
Definition vfBracketedPaste := 3. Definition vfAppCursorKeys := 4. Definition vfAppKeypad := 5.
(* ViewInt *)
Definition viMouseMode := 0. Definition viMouseEncoding := 1. Definition viModifyOtherKeys := 2.
(* ViewString *)
Definition vsWindowTitle := 0. Definition vsCurrentDirectory := 1. Definition vsCurrentFile := 2.
(* mouse modes / encodings *)
Definition mmNone := 0. Definition mmPress := 1. Definition mmPressRelease := 2.
Definition mmPressReleaseMove := 3. Definition mmPressReleaseMoveAll := 4.
Definition meX10 := 0. Definition meUTF8 := 1. Definition meSGR := 2.

Record term := mkTerm {
  tmain : screen; talt : screen; onalt : bool;
  vflags : list bool; vints : list Z; vstrs : list (list Z);
  kbm : kbd; kba : kbd;
  tout : list Z;        (* bytes written to the application, in order *)
  tlog : list event     (* frontend callbacks other than the screens' own, newest first *)
}.

Definition init_term (w h : Z) : term :=
  mkTerm (init_screen w h) (init_screen w h) false
    [false; false; false; false; false; false] [0; 0; 0] [[]; []; []]
    kbd0 kbd0 [] [].

Definition active (t : term) : screen := if onalt t then talt t else tmain t.
Definition set_active (s : screen) (t : term) : term :=
  if onalt t
  then mkTerm (tmain t) s (onalt t) (vflags t) (vints t) (vstrs t) (kbm t) (kba t) (tout t) (tlog t)
  else mkTerm s (talt t) (onalt t) (vflags t) (vints t) (vstrs t) (kbm t) (kba t) (tout t) (tlog t).
(* run a screen operation on the active buffer; its callbacks go to the log in order *)
Definition on_screen (f : screen -> screen) (t : term) : term :=
  let s := f (set_evs [] (active t)) in
  let t' := set_active (set_evs [] s) t in
  mkTerm (tmain t') (talt t') (onalt t') (vflags t') (vints t') (vstrs t') (kbm t') (kba t') (tout t')
    (evs s ++ tlog t').
Definition log_ev (e : event) (t : term) : term :=
  mkTerm (tmain t) (talt t) (onalt t) (vflags t) (vints t) (vstrs t) (kbm t) (kba t) (tout t) (e :: tlog t).
Definition reply (bs : list Z) (t : term) : term :=
  mkTerm (tmain t) (talt t) (onalt t) (vflags t) (vints t) (vstrs t) (kbm t) (kba t) (tout t ++ bs) (tlog t).
Definition set_vflag (i : Z) (v : bool) (t : term) : term :=
  log_ev (EFlag i v)
    (mkTerm (tmain t) (talt t) (onalt t) (zupd i v (vflags t)) (vints t) (vstrs t) (kbm t) (kba t) (tout t) (tlog t)).
Definition set_vint (i v : Z) (t : term) : term :=
  log_ev (EInt i v)
    (mkTerm (tmain t) (talt t) (onalt t) (vflags t) (zupd i v (vints t)) (vstrs t) (kbm t) (kba t) (tout t) (tlog t)).
Definition set_vstr (i : Z) (v : list Z) (t : term) : term :=
  log_ev (EStr i v)
    (mkTerm (tmain t) (talt t) (onalt t) (vflags t) (vints t) (zupd i v (vstrs t)) (kbm t) (kba t) (tout t) (tlog t)).
Definition active_kbd (t : term) : kbd := if onalt t then kba t else kbm t.
Definition on_kbd (f : kbd -> kbd) (t : term) : term :=
  if onalt t
  then mkTerm (tmain t) (talt t) (onalt t) (vflags t) (vints t) (vstrs t) (kbm t) (f (kba t)) (tout t) (tlog t)
  else mkTerm (tmain t) (talt t) (onalt t) (vflags t) (vints t) (vstrs t) (f (kbm t)) (kba t) (tout t) (tlog t).

Definition crashed (t : term) : bool := negb (crash (tmain t) =? 0) || negb (crash (talt t) =? 0).

(* switchScreen *)
Definition switch_screen (t : term) : term :=
  let t1 := mkTerm (tmain t) (talt t) (negb (onalt t)) (vflags t) (vints t) (vstrs t) (kbm t) (kba t) (tout t) (tlog t) in
  let s := active t1 in
  log_ev (EStyle (sty s)) (log_ev (ECursor (cx s) (cy s))
    (log_ev (ERegion 0 0 (sW s) (sH s) crScreenSwitch) t1)).

(* Terminal.Resize: both buffers, main first *)
Definition resize (w h : Z) (t : term) : term :=
  let m := set_size w h (set_evs [] (tmain t)) in
  let a := set_size w h (set_evs [] (talt t)) in
  let t1 := mkTerm (set_evs [] m) (set_evs [] a) (onalt t) (vflags t) (vints t) (vstrs t) (kbm t) (kba t) (tout t)
    (evs a ++ evs m ++ tlog t) in
  (* then the values of the screen that is shown: cursor, rendition *)
  let s := active t1 in
  log_ev (EStyle (sty s)) (log_ev (ECursor (cx s) (cy s)) t1).

(* ---- C0 controls (ptyReadOne) ---- *)
Definition exec_c0 (b : Z) (t : term) : term :=
  if b =? 7 then log_ev EBell t
  else if (b =? 8) || (b =? 127) then on_screen (move_cursor (-1) 0 false false) t
  else if b =? 9 then
    on_screen (fun s => set_cursor_pos ((cx s / 8 + 1) * 8) (cy s) s) t
  else if b =? 10 then
    on_screen (fun s => move_cursor 0 1 true true (set_cursor_pos 0 (cy s) s)) t
  else if b =? 12 then on_screen (move_cursor 0 1 false true) t
  else if b =? 13 then on_screen (fun s => move_cursor (- cx s) 0 true true s) t
  else t.

(* ---- two-byte escapes (handleCommand) ---- *)
Definition exec_esc (b : Z) (t : term) : term :=
  if b =? 68 then on_screen (move_cursor 0 1 false true) t           (* D  IND *)
  else if b =? 77 then on_screen (move_cursor 0 (-1) false true) t   (* M  RI  *)
  else if b =? 61 then set_vflag vfAppKeypad true t                   (* =       *)
  else if b =? 62 then set_vflag vfAppKeypad false t                  (* >       *)
  else t.

Definition p0 (ps : list Z) (d : Z) : Z := match ps with [] => d | p :: _ => p end.
Definition p1 (ps : list Z) (d : Z) : Z := match ps with _ :: p :: _ => p | _ => d end.

(* DEC private mode set/reset, one parameter *)
Definition dec_mode (v : bool) (p : Z) (t : term) : term :=
  if p =? 1 then set_vflag vfAppCursorKeys v t
  else if p =? 7 then on_screen (set_awrap v) t
  else if p =? 9 then set_vint viMouseMode (if v then mmPress else mmNone) t
  else if p =? 12 then set_vflag vfBlinkCursor v t
  else if p =? 25 then set_vflag vfShowCursor v t
  else if p =? 1000 then set_vint viMouseMode (if v then mmPressRelease else mmNone) t
  else if p =? 1002 then set_vint viMouseMode (if v then mmPressReleaseMove else mmNone) t
  else if p =? 1003 then set_vint viMouseMode (if v then mmPressReleaseMoveAll else mmNone) t
  else if p =? 1004 then set_vflag vfReportFocus v t
  else if p =? 1005 then set_vint viMouseEncoding (if v then meUTF8 else meX10) t
  else if p =? 1006 then set_vint viMouseEncoding (if v then meSGR else meX10) t
  else if p =? 1015 then set_vint viMouseEncoding (if v then meUTF8 else meX10) t
  else if p =? 1049 then (if Bool.eqb (onalt t) v then t else switch_screen t)
  else if p =? 2004 then set_vflag vfBracketedPaste v t
  else t.

(* CSI > ... m : modifyOtherKeys *)
Fixpoint mok_scan (ps : list Z) (mode : Z) : Z :=
  match ps with
  | [] => mode
  | p :: rest =>
      if p =? 4 then mok_scan rest (match rest with q :: _ => q | [] => 0 end)
      else mok_scan rest mode
  end.

Definition da1_reply : list Z := [27; 91; 63; 49; 59; 50; 99].                       (* ESC [ ? 1 ; 2 c *)
Definition da2_reply : list Z := [27; 91; 62; 49; 59; 52; 52; 48; 50; 59; 48; 99].    (* ESC [ > 1 ; 4402 ; 0 c *)
Definition dsr_ok_reply : list Z := [27; 91; 48; 110].                                (* ESC [ 0 n *)
Definition cpr_reply (row col : Z) : list Z := [27; 91] ++ itoa row ++ [59] ++ itoa col ++ [82].
Definition kbd_query_reply (flags : Z) : list Z := [27; 91; 63] ++ itoa flags ++ [117].

Definition exec_csi_plain (ps : list Z) (f : Z) (t : term) : term :=
  let s := active t in
  let n1 := p0 ps 1 in
  if f =? 65 then on_screen (move_cursor 0 (- n1) false false) t            (* A CUU *)
  else if f =? 66 then on_screen (move_cursor 0 n1 false false) t           (* B CUD *)
  else if f =? 67 then on_screen (move_cursor n1 0 false false) t           (* C CUF *)
  else if f =? 68 then on_screen (move_cursor (- n1) 0 false false) t       (* D CUB *)
  else if f =? 71 then on_screen (fun s => set_cursor_pos (n1 - 1) (cy s) s) t   (* G CHA *)
  else if f =? 99 then (if p0 ps 0 =? 0 then reply da1_reply t else t)      (* c DA1 *)
  else if f =? 100 then on_screen (fun s => set_cursor_pos (cx s) (n1 - 1) s) t  (* d VPA *)
  else if (f =? 102) || (f =? 72) then
    on_screen (set_cursor_pos (p1 ps 1 - 1) (p0 ps 1 - 1)) t                (* f H CUP *)
  else if f =? 109 then on_screen (fun s => set_style (sgr_apply ps (sty s)) s) t    (* m SGR *)
  else if f =? 115 then on_screen save_cursor t                              (* s *)
  else if f =? 117 then on_screen restore_cursor t                           (* u *)
  else if f =? 75 then                                                       (* K EL *)
    let p := p0 ps 0 in
    if p =? 0 then on_screen (fun s => erase_region (cx s) (cy s) (sW s) (cy s + 1) s) t
    else if p =? 1 then on_screen (fun s => erase_region 0 (cy s) (cx s + 1) (cy s + 1) s) t
    else if p =? 2 then on_screen (fun s => erase_region 0 (cy s) (sW s) (cy s + 1) s) t
    else t
  else if f =? 74 then                                                       (* J ED *)
    let p := p0 ps 0 in
    if p =? 0 then
      on_screen (fun s =>
        let s1 := erase_region (cx s) (cy s) (sW s) (cy s + 1) s in
        if cy s + 1 <? sH s then erase_region 0 (cy s + 1) (sW s) (sH s) s1 else s1) t
    else if p =? 1 then
      on_screen (fun s =>
        let s1 := if 0 <? cy s then erase_region 0 0 (sW s) (cy s) s else s in
        erase_region 0 (cy s) (cx s + 1) (cy s + 1) s1) t
    else if p =? 2 then
      on_screen (fun s => set_cursor_pos 0 0 (erase_region 0 0 (sW s) (sH s) s)) t
    else t
  else if f =? 76 then                                                       (* L IL *)
    on_screen (fun s => if (top s <=? cy s) && (cy s <=? bot s) then scroll (cy s) (bot s) n1 s else s) t
  else if f =? 77 then                                                       (* M DL *)
    on_screen (fun s => if (top s <=? cy s) && (cy s <=? bot s) then scroll (cy s) (bot s) (- n1) s else s) t
  else if f =? 83 then on_screen (fun s => scroll (top s) (bot s) (- n1) s) t   (* S SU *)
  else if f =? 84 then on_screen (fun s => scroll (top s) (bot s) n1 s) t       (* T SD *)
  else if f =? 80 then on_screen (fun s => delete_chars (cx s) (cy s) n1 s) t   (* P DCH *)
  else if f =? 88 then                                                       (* X ECH *)
    on_screen (fun s => erase_region (cx s) (cy s) (cx s + n1) (cy s + 1) s) t
  else if f =? 114 then                                                      (* r DECSTBM *)
    on_screen (fun s => set_scroll_margins (p0 ps 1 - 1) (p1 ps (sH s) - 1) s) t
  else if f =? 110 then                                                      (* n DSR *)
    let p := p0 ps 0 in
    if p =? 5 then reply dsr_ok_reply t
    else if p =? 6 then reply (cpr_reply (cy s + 1) (cx s + 1)) t
    else t
  else t.

Definition exec_csi (prefix : Z) (ps : list Z) (f : Z) (t : term) : term :=
  if prefix =? 0 then exec_csi_plain ps f t
  else if prefix =? 63 then                                                  (* ? *)
    if f =? 117 then reply (kbd_query_reply (kflags (active_kbd t))) t
    else if f =? 104 then fold_left (fun t p => dec_mode true p t) ps t
    else if f =? 108 then fold_left (fun t p => dec_mode false p t) ps t
    else t
  else if prefix =? 62 then                                                  (* > *)
    if f =? 99 then reply da2_reply t
    else if f =? 109 then
      let mode := mok_scan ps (-1) in
      if 0 <=? mode then set_vint viModifyOtherKeys mode t else t
    else if f =? 117 then on_kbd (kbd_push (p0 ps 0)) t
    else t
  else if prefix =? 60 then                                                  (* < *)
    if f =? 117 then on_kbd (kbd_pop (p0 ps 1)) t else t
  else if prefix =? 61 then                                                  (* = *)
    if f =? 117 then on_kbd (kbd_update (p0 ps 0) (p1 ps 1)) t else t
  else t.

Definition exec_osc (num : Z) (payload : list Z) (t : term) : term :=
  if (num =? 0) || (num =? 2) then set_vstr vsWindowTitle payload t
  else if num =? 6 then set_vstr vsCurrentDirectory payload t
  else if num =? 7 then set_vstr vsCurrentFile payload t
  else t.

Definition glyph_width (w : Z) : Z := if w <=? 0 then 1 else w.

Definition exec_tok (k : tok) (t : term) : term :=
  match k with
  | TGlyph txt r w =>
      (* an invalid byte is its own cluster (rune U+FFFD) but keeps its raw text on the span buffer *)
      let raw_invalid := (r =? runeError) && negb (list_eqb Z.eqb txt utf8_replacement) in
      on_screen (fun s => write_glyph txt (glyph_width w) (if raw_invalid then add_trig trInvalidUtf8 s else s)) t
  | TC0 b => exec_c0 b t
  | TEsc b => exec_esc b t
  | TIgnore => t
  | TCsi prefix ps f => exec_csi prefix ps f t
  | TOsc num payload => exec_osc num payload t
  end.

Section Run.
  Variable wc : Z -> Z.
  Variable grid : bool.

  (* consume buffered bytes token by token until the parser would block;
     returns the terminal and the bytes still pending *)
  Fixpoint run_pending (fuel : nat) (t : term) (inp : list Z) : term * list Z :=
    match fuel with
    | O => (t, inp)
    | S f =>
        if crashed t then (t, inp) else
        match parse_one wc grid inp with
        | PMore => (t, inp)
        | PTok k rest => run_pending f (exec_tok k t) rest
        end
    end.

  (* every token consumes at least one byte, so |inp| steps suffice *)
  Definition run_bytes (t : term) (inp : list Z) : term * list Z :=
    run_pending (S (length inp)) t inp.

  (* operation histories: backend reads interleaved with Resize calls; the
     state is the terminal plus the bytes the blocking parser is waiting on *)
  Inductive hop := HFeed (bs : list Z) | HResize (w h : Z).

  Definition hstep (st : term * list Z) (o : hop) : term * list Z :=
    match o with
    | HFeed bs => run_bytes (fst st) (snd st ++ bs)
    | HResize w h => if crashed (fst st) then st else (resize w h (fst st), snd st)
    end.

  Definition run_hist (t : term) (ops : list hop) : term * list Z := fold_left hstep ops (t, []).
End Run.

