(* Executable entry point for the span-level correspondence check.  One case per
   line of integers:
     id op ntbl (rune width)*ntbl nsp span*nsp cache args...
   span = fg bg istext rune width ntext byte*ntext   (fg, bg: packed style words)
   The answer line is  id :: -1 :: result.  Operations (args -> result):
     1 replaceRange     x n span          -> line
     2 splitSpan        off (on span 0)   -> left right wide
     3 truncateLine     width             -> line
     4 resizeLine       width fg bg       -> line
     5 deleteChars      W fg bg x n       -> line
     6 rawWriteSpan     W x span          -> status line      (status 2 = panic, nothing follows)
     7 clustersFitting  avail ntext bytes -> idx width
     8 StyledLine       W x w             -> nsp spans width
     9 Line             W                 -> bytes
    10 byteIndexForCell off ntext bytes   -> idx width
    11 insertSpan       x span            -> line
    12 rawWriteRune     W fg bg x r width -> status line
    13 lineCellWidth                      -> width
    14 cell projection                    -> (width fg bg ntext bytes)*
   line = nsp span*nsp cache.  All decoding and encoding happens here. *)
From Coq Require Import List ZArith Bool.
From Termemu Require Import Base Style Screen Parser Case Span.
Import ListNotations.
Open Scope Z_scope.

Definition dec_span (l : list Z) : span * list Z :=
  match l with
  | fgw :: bgw :: it :: r :: w :: nt :: rest =>
      (mk_span (unpack fgw bgw) (if it =? 0 then [] else zfirstn nt rest) r w, zskipn nt rest)
  | _ => (empty_span, [])
  end.
Fixpoint dec_spans (k : nat) (l : list Z) : list span * list Z :=
  match k with
  | O => ([], l)
  | S k' => let '(sp, r) := dec_span l in let '(sps, r') := dec_spans k' r in (sp :: sps, r')
  end.
Definition enc_span (sp : span) : list Z :=
  [pack_fg (sp_sty sp); pack_bg (sp_sty sp); enc_bool (sp_istext sp); sp_rune sp; sp_width sp; zlen (sp_text sp)]
    ++ sp_text sp.
Definition enc_line (l : spanline) : list Z :=
  zlen (sl_spans l) :: flat_map enc_span (sl_spans l) ++ [sl_cache l].
Definition enc_optline (o : option spanline) : list Z :=
  match o with None => [2] | Some l => 0 :: enc_line l end.

Definition run_span_op (wc : Z -> Z) (op : Z) (l : spanline) (args : list Z) : list Z :=
  if op =? 1 then
    match args with x :: n :: r => enc_line (replace_range wc l x n (fst (dec_span r))) | _ => [-2] end
  else if op =? 2 then
    match args with
    | off :: _ =>
        let '(a, b, c) := split_span wc (znth 0 (sl_spans l) empty_span) off in enc_span a ++ enc_span b ++ enc_span c
    | _ => [-2] end
  else if op =? 3 then
    match args with w :: _ => enc_line (truncate_line wc l w) | _ => [-2] end
  else if op =? 4 then
    match args with w :: fgw :: bgw :: _ => enc_line (resize_line wc l w (unpack fgw bgw)) | _ => [-2] end
  else if op =? 5 then
    match args with W :: fgw :: bgw :: x :: n :: _ => enc_line (span_delete_chars wc W (unpack fgw bgw) l x n) | _ => [-2] end
  else if op =? 6 then
    match args with W :: x :: r => enc_optline (raw_write_span wc W l x (fst (dec_span r))) | _ => [-2] end
  else if op =? 7 then
    match args with avail :: nt :: r => let '(i, w) := clusters_fitting wc (zfirstn nt r) avail in [i; w] | _ => [-2] end
  else if op =? 8 then
    match args with
    | W :: x :: w :: _ => let '(sps, w') := styled_line wc W l x w in zlen sps :: flat_map enc_span sps ++ [w']
    | _ => [-2] end
  else if op =? 9 then
    match args with W :: _ => line_text W l | _ => [-2] end
  else if op =? 10 then
    match args with off :: nt :: r => let '(i, w) := byte_index_for_cell wc (zfirstn nt r) off in [i; w] | _ => [-2] end
  else if op =? 11 then
    match args with x :: r => enc_line (insert_span wc l x (fst (dec_span r))) | _ => [-2] end
  else if op =? 12 then
    match args with
    | W :: fgw :: bgw :: x :: r :: w :: _ => enc_optline (raw_write_rune wc W (unpack fgw bgw) l x r w)
    | _ => [-2] end
  else if op =? 13 then [line_cell_width l]
  else if op =? 14 then
    flat_map (fun c => [cwid c; pack_fg (Screen.cst c); pack_bg (Screen.cst c); zlen (ctext c)] ++ ctext c) (abs_line wc l)
  else [-2].

Definition run_span_line (line : list Z) : list Z :=
  match line with
  | id :: op :: ntbl :: rest =>
      let tbl := zfirstn (2 * ntbl) rest in
      let rest1 := zskipn (2 * ntbl) rest in
      match rest1 with
      | nsp :: rest2 =>
          let '(sps, rest3) := dec_spans (Z.to_nat nsp) rest2 in
          match rest3 with
          | cache :: args => id :: -1 :: run_span_op (wc_of tbl) op (mkLine sps cache) args
          | _ => [id; -2]
          end
      | _ => [id; -2]
      end
  | _ => [-2]
  end.

Definition run_span (lines : list (list Z)) : list (list Z) := map run_span_line lines.
