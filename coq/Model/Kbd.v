(* Kitty keyboard-flag register and stack (keyboard_mode.go). *)
From Coq Require Import List ZArith Bool.
From Termemu Require Import Base.
Import ListNotations.
Open Scope Z_scope.

Definition keyboardStackMax : Z := 32.

(* kstack is oldest first, exactly like the Go slice *)
Record kbd := mkKbd { kflags : Z; kstack : list Z }.
Definition kbd0 := mkKbd 0 [].

Definition kbd_update (flags mode : Z) (k : kbd) : kbd :=
  let flags := if flags <? 0 then 0 else flags in
  let mode := if mode <=? 0 then 1 else mode in
  if mode =? 1 then mkKbd flags (kstack k)
  else if mode =? 2 then mkKbd (Z.lor (kflags k) flags) (kstack k)
  else if mode =? 3 then mkKbd (Z.ldiff (kflags k) flags) (kstack k)
  else k.

Definition kbd_push (flags : Z) (k : kbd) : kbd :=
  let st := if keyboardStackMax <=? zlen (kstack k) then tl (kstack k) else kstack k in
  mkKbd flags (st ++ [kflags k]).

Fixpoint kbd_pop_n (n : nat) (k : kbd) : kbd :=
  match n with
  | O => k
  | S n' =>
      match rev (kstack k) with
      | [] => mkKbd 0 []
      | f :: r => kbd_pop_n n' (mkKbd f (rev r))
      end
  end.
(* the count is a CSI parameter (at most 65535), so Z.to_nat is harmless *)
Definition kbd_pop (n : Z) (k : kbd) : kbd :=
  kbd_pop_n (Z.to_nat (if n <=? 0 then 1 else n)) k.
