(* Executable entry point for the C16 correspondence check.  One case per line,
   first integer = kind, second = case id.  All decoding happens here.

   kind 1  read loop:   1 id zero_eof buffered nres len_1 err_1 .. len_n err_n  byte ...
           (result i carries the next len_i bytes of the stream)
     answer: 1 id outcome consumed delivered inflight start end cap ncaps cap_1 .. nasked asked_1 ..
             outcome 1 = stopped on an error without data, 2 = stopped on a zero-length
             read (io.EOF made up by the ReadPrintable functions), 3 = out of fuel;
             caps = distinct consecutive values of len(r.data); asked = len(p) of every backend.Read
   kind 2  one fill:    2 id cap0 start end ncap d_1 .. d_ncap err nbytes byte ...
           (a hand-built reader with len(data) = ncap; ncap = 0 is the nil slice)
     answer: 2 id err start end cap left d_1 .. d_cap      (left = bytes the source kept)
   kind 3  Write:       3 id nb b_1 .. b_nb  n_1 e_1 n_2 e_2 ..
     answer: 3 id status count received ...                 (status 0 nil, 1 backend error, 2 ErrShortWrite)
   kind 4  TeeBackend:  4 id nres len_1 err_1 .. byte ...
     answer: 4 id nwrites ntee tee ... n_1 e_1 .. n_n e_n   (what the tee got; what Read returned)
   kind 5  Resize:      5 id w0 h0 w h
     answer: 5 id w h mainW mainH altW altH                 (SetSize arguments; sizes at that moment)
   kind 6  PTY winsize: 6 id w h
     answer: 6 id rows cols x y *)
From Coq Require Import List ZArith Bool.
From Termemu Require Import Base Screen Parser Term Mouse MouseCase Io.
Import ListNotations.
Open Scope Z_scope.

Definition io_cap0 : Z := 4096.
Definition io_bsz : Z := 4096.

(* the parser as a byte consumer: the state counts the bytes interpreted *)
Fixpoint tok_pending (fuel : nat) (inp : list Z) : list Z :=
  match fuel with
  | O => inp
  | S f =>
      match parse_one (fun _ => 1) false inp with
      | PMore => inp
      | PTok _ rest => tok_pending f rest
      end
  end.
Definition tok_consume (n : Z) (inp : list Z) : Z * list Z :=
  let rest := tok_pending (S (length inp)) inp in (n + (zlen inp - zlen rest), rest).

(* nres pairs (len, err) followed by the stream *)
Fixpoint dec_results (n : nat) (l : list Z) (acc : list (Z * bool)) : list (Z * bool) * list Z :=
  match n with
  | O => (rev acc, l)
  | S n' =>
      match l with
      | len :: e :: rest => dec_results n' rest ((len, negb (e =? 0)) :: acc)
      | _ => (rev acc, [])
      end
  end.
Fixpoint cut_stream (lens : list (Z * bool)) (stream : list Z) : script :=
  match lens with
  | [] => []
  | (len, e) :: rest => (zfirstn len stream, e) :: cut_stream rest (zskipn len stream)
  end.

Fixpoint dedup_consecutive (l : list Z) : list Z :=
  match l with
  | a :: (b :: _) as rest => if a =? b then dedup_consecutive rest else a :: dedup_consecutive rest
  | _ => l
  end.

Definition outcome_code (o : outcome) : Z :=
  match o with Running => 0 | StopErr => 1 | StopZeroRead => 2 | OutOfFuel => 3 end.

Definition run_loop_case (id zero_eof buffered nres : Z) (rest : list Z) : list Z :=
  let '(lens, stream) := dec_results (Z.to_nat nres) rest [] in
  let sc := cut_stream lens stream in
  let src := if buffered =? 0 then Direct sc else Bufio (mkBufio sc [] false) in
  let s0 := mkL Z 0 [] reader0 src in
  let '(o, s', tr) := read_loop io_cap0 io_bsz Z tok_consume go_hold (negb (zero_eof =? 0)) (loop_fuel src) s0 in
  let caps := dedup_consecutive (map ev_cap tr) in
  let asked := asked_of tr in
  [1; id; outcome_code o; lt Z s'; zlen (delivered_of tr); zlen (infl Z s');
   rstart (lr Z s'); rend (lr Z s'); rcap (lr Z s'); zlen caps] ++ caps ++ [zlen asked] ++ asked.

Definition run_fill_case (id cap0 start end_ ncap : Z) (rest : list Z) : list Z :=
  let d := zfirstn ncap rest in
  match zskipn ncap rest with
  | e :: nb :: bytes =>
      let r := mkReader d start end_ in
      let '(r1, src1, res1, _) := fill cap0 io_bsz r (Direct [(zfirstn nb bytes, negb (e =? 0))]) in
      (* the Go fill reads again after a zero-length read without error; the
         script is exhausted then and reports EOF *)
      let '(r', src', res, _) :=
        if negb (snd res1) && (zlen (fst res1) =? 0) then fill cap0 io_bsz r1 src1 else (r1, src1, res1, []) in
      [2; id; if snd res then 1 else 0; rstart r'; rend r'; rcap r'; zlen (src_rest src')] ++ data r'
  | _ => [-2; id]
  end.

Definition run_write_case (id nb : Z) (rest : list Z) : list Z :=
  let b := zfirstn nb rest in
  let s := dec_script (zskipn nb rest) in
  [3; id; write_status b s; write_count b s] ++ fst (write_loop b s).

Fixpoint enc_results (rs : list result) : list Z :=
  match rs with
  | [] => []
  | (bs, e) :: rest => zlen bs :: (if e then 1 else 0) :: enc_results rest
  end.

Definition run_tee_case (id nres : Z) (rest : list Z) : list Z :=
  let '(lens, stream) := dec_results (Z.to_nat nres) rest [] in
  let rs := cut_stream lens stream in
  let '(out, tee) := tee_run rs [] in
  [4; id; tee_writes rs; zlen tee] ++ tee ++ enc_results out.

(* 7 id nres (len err sw)*nres stream: TeeBackend with SetTee called during the reads; tee A installed at the start *)
Fixpoint dec_results_sw (n : nat) (l : list Z) (acc : list (Z * bool * Z)) : list (Z * bool * Z) * list Z :=
  match n with
  | O => (rev acc, l)
  | S n' =>
      match l with
      | len :: e :: sw :: rest => dec_results_sw n' rest ((len, negb (e =? 0), sw) :: acc)
      | _ => (rev acc, [])
      end
  end.
Fixpoint cut_stream_sw (lens : list (Z * bool * Z)) (stream : list Z) : list (result * Z) :=
  match lens with
  | [] => []
  | (len, e, sw) :: rest => ((zfirstn len stream, e), sw) :: cut_stream_sw rest (zskipn len stream)
  end.
Definition run_tee_sw_case (id nres : Z) (rest : list Z) : list Z :=
  let '(lens, stream) := dec_results_sw (Z.to_nat nres) rest [] in
  let rs := cut_stream_sw lens stream in
  let '(a, b) := tee_sw_run rs 1 [] [] in
  [7; id; zlen a] ++ a ++ [-1; zlen b] ++ b ++ [-1] ++ enc_results (map fst rs).

Definition run_resize_case (id w0 h0 w h : Z) : list Z :=
  let t0 := resize w0 h0 (init_term 80 24) in
  let '(t, calls) := resize_forward w h t0 [] in
  match calls with
  | [(cw, ch)] => [5; id; cw; ch; sW (tmain t); sH (tmain t); sW (talt t); sH (talt t)]
  | _ => [-2; id]
  end.

Definition run_winsize_case (id w h : Z) : list Z :=
  let '(rows, cols, x, y) := pty_winsize w h in [6; id; rows; cols; x; y].

Definition run_io_line (line : list Z) : list Z :=
  match line with
  | 1 :: id :: ze :: bf :: nres :: rest => run_loop_case id ze bf nres rest
  | 2 :: id :: c0 :: st :: en :: ncap :: rest => run_fill_case id c0 st en ncap rest
  | 3 :: id :: nb :: rest => run_write_case id nb rest
  | 4 :: id :: nres :: rest => run_tee_case id nres rest
  | 7 :: id :: nres :: rest => run_tee_sw_case id nres rest
  | [5; id; w0; h0; w; h] => run_resize_case id w0 h0 w h
  | [6; id; w; h] => run_winsize_case id w h
  | _ => [-2]
  end.

Definition run_io (lines : list (list Z)) : list (list Z) := map run_io_line lines.
