(* Model/ConcRefute.v -- an executable search for an UNSAFE execution in the
   semantics of Model/Conc.v (definitions only; soundness in
   Proofs/ConcRefuteProofs.v).  It turns "the checker says false" into "there
   is a derivation of the semantics whose trace contains an unsafe
   observation".  [dflt_*] builds one terminating execution (loops exit at
   once, interface calls go to the opaque external implementer, a branch
   alternative that completes normally is preferred); [search_*] looks depth-first
   for a prefix that ends in an unsafe observation, stepping over the events
   before it with [dflt_*]. *)

From Coq Require Import List Bool Arith String.
From Termemu Require Import Conc.
Import ListNotations.

Section Refute.
Variable cg : callgraph.
Variable exc : list (fid * fid).
Variable entries : list (fid * held).

Definition unsafe (o : obs) : bool := negb (safe_obsb exc entries o).

Definition on_stack (f : fid) (stk : list fid) : bool := existsb (Nat.eqb f) stk.

(* One execution that is not cut: trace and outcome (ONorm or OExit). *)
Fixpoint dflt_ev (fuel : nat) (stk : list fid) (h : held) (d : list mutex) (e : ev)
  : option (list obs * outcome) :=
  match fuel with
  | 0 => None
  | S fuel' =>
      let one (a : action) := Some ([mkObs stk h a], ONorm (h, d)) in
      match e with
      | Lock m => Some ([mkObs stk h (ALock m)], ONorm (acq h m, d))
      | Unlock m => Some ([mkObs stk h (AUnlock m)], ONorm (rel h m, d))
      | DeferUnlock m => Some ([], ONorm (h, m :: d))
      | WithLock m body =>
          match dflt_frame fuel' stk (acq h m) body with
          | Some (tr, h1) =>
              Some (mkObs stk h (ALock m) :: tr ++ [mkObs stk h1 (AUnlock m)], ONorm (rel h1 m, d))
          | None => None
          end
      | Call f =>
          match nth_error cg f with
          | Some body =>
              match dflt_frame fuel' (f :: stk) h body with
              | Some (tr, h') => Some (tr, ONorm (h', d))
              | None => None
              end
          | None => None
          end
      | CallIface _ _ => Some ([], ONorm (h, d))
      | CallParam n => one (AClient n)
      | Cb n => one (ACb n)
      | Block w => one (ABlock w)
      | Access g fld w => one (AAccess g fld w)
      | Spawn f => one (ASpawn f)
      | Branch a b =>
          (* prefer an alternative that completes normally *)
          match dflt_list fuel' stk h d a with
          | Some (tr, ONorm st) => Some (tr, ONorm st)
          | ra =>
              match dflt_list fuel' stk h d b with
              | Some (tr, ONorm st) => Some (tr, ONorm st)
              | rb => match ra with Some r => Some r | None => rb end
              end
          end
      | Loop _ => Some ([], ONorm (h, d))
      | Scope body =>
          match dflt_list fuel' stk h d body with
          | Some (tr, o) => Some (tr, scope_outcome o)
          | None => None
          end
      | Return => Some ([], OExit KRet (h, d))
      | Break => Some ([], OExit KBrk (h, d))
      | Continue => Some ([], OExit KCont (h, d))
      | Panic => None
      | Unsupported _ => None
      end
  end

with dflt_list (fuel : nat) (stk : list fid) (h : held) (d : list mutex) (es : list ev)
  : option (list obs * outcome) :=
  match fuel with
  | 0 => None
  | S fuel' =>
      match es with
      | [] => Some ([], ONorm (h, d))
      | e :: es' =>
          match dflt_ev fuel' stk h d e with
          | Some (tr1, ONorm (h1, d1)) =>
              match dflt_list fuel' stk h1 d1 es' with
              | Some (tr2, o) => Some (tr1 ++ tr2, o)
              | None => None
              end
          | Some (tr1, OExit k st) => Some (tr1, OExit k st)
          | _ => None
          end
      end
  end

with dflt_frame (fuel : nat) (stk : list fid) (h : held) (body : list ev)
  : option (list obs * held) :=
  match fuel with
  | 0 => None
  | S fuel' =>
      match dflt_list fuel' stk h [] body with
      | Some (tr, ONorm (h1, d1)) | Some (tr, OExit KRet (h1, d1)) =>
          let (tr2, h2) := run_defers stk h1 d1 in Some (tr ++ tr2, h2)
      | _ => None
      end
  end.

(* A prefix whose last observation is unsafe. *)
Fixpoint search_ev (fuel : nat) (stk : list fid) (h : held) (d : list mutex) (e : ev)
  : option (list obs) :=
  match fuel with
  | 0 => None
  | S fuel' =>
      let one (a : action) :=
        let o := mkObs stk h a in if unsafe o then Some [o] else None in
      match e with
      | Lock m => one (ALock m)
      | Unlock m => one (AUnlock m)
      | DeferUnlock _ => None
      | WithLock m body =>
          let o := mkObs stk h (ALock m) in
          if unsafe o then Some [o]
          else option_map (cons o) (search_list fuel' stk (acq h m) [] body)
      | Call f =>
          if on_stack f stk then None (* do not search through recursion *)
          else
          match nth_error cg f with
          | Some body => search_list fuel' (f :: stk) h [] body
          | None => None
          end
      | CallIface _ impls =>
          (fix first (l : list fid) : option (list obs) :=
             match l with
             | [] => None
             | f :: l' =>
                 if on_stack f stk then first l' else
                 match nth_error cg f with
                 | Some body =>
                     match search_list fuel' (f :: stk) h [] body with
                     | Some tr => Some tr
                     | None => first l'
                     end
                 | None => first l'
                 end
             end) impls
      | CallParam _ => None
      | Cb n => one (ACb n)
      | Block w => one (ABlock w)
      | Access g fld w => one (AAccess g fld w)
      | Spawn f => one (ASpawn f)
      | Branch a b =>
          match search_list fuel' stk h d a with
          | Some tr => Some tr
          | None => search_list fuel' stk h d b
          end
      | Loop body => search_list fuel' stk h d body
      | Scope body => search_list fuel' stk h d body
      | Return | Break | Continue | Panic => None
      | Unsupported msg => one (ABad msg)
      end
  end

with search_list (fuel : nat) (stk : list fid) (h : held) (d : list mutex) (es : list ev)
  : option (list obs) :=
  match fuel with
  | 0 => None
  | S fuel' =>
      match es with
      | [] => None
      | e :: es' =>
          match search_ev fuel' stk h d e with
          | Some tr => Some tr
          | None =>
              match dflt_ev fuel' stk h d e with
              | Some (tr1, ONorm (h1, d1)) =>
                  option_map (app tr1) (search_list fuel' stk h1 d1 es')
              | _ => None
              end
          end
      end
  end.

Definition refute_ids (fuel : nat) (f : fid) (h : held) : option (list obs) :=
  match nth_error cg f with
  | Some body => search_list fuel [f] h [] body
  | None => None
  end.

End Refute.

(* On names: the unsafe trace found for entry [name] started with [h] held,
   judged against the exceptions and entries of the specification. *)
Definition refute (fuel : nat) (p : program) (exc_spec : list (string * string))
           (entry_spec : list (string * held)) (name : string) (h : held) : option (list obs) :=
  match resolve_pairs (p_names p) exc_spec, resolve_entries (p_names p) entry_spec, resolve (p_names p) name with
  | Some exc, Some entries, Some f => refute_ids (p_cg p) exc entries fuel f h
  | _, _, _ => None
  end.

(* There is an execution of entry [name] from [h] with an unsafe observation. *)
Definition refuted (p : program) (exc_spec : list (string * string))
           (entry_spec : list (string * held)) (name : string) (h : held) : Prop :=
  exists exc entries f tr,
    resolve_pairs (p_names p) exc_spec = Some exc /\
    resolve_entries (p_names p) entry_spec = Some entries /\
    resolve (p_names p) name = Some f /\
    thread_trace (p_cg p) f h tr /\
    ~ Forall (safe_obs exc entries) tr.

(* Readable rendering of the last observation of a trace. *)
Definition last_obs (tr : list obs) : option obs :=
  match rev tr with o :: _ => Some o | [] => None end.

Definition describe (names : list string) (o : obs) : list string * held * action :=
  (map (fname names) (rev (o_stk o)), o_held o, o_act o).

(* The offending (last) observation of the trace found by [refute]: call
   stack outermost first, held set, action. *)
Definition witness (fuel : nat) (p : program) (exc_spec : list (string * string))
           (entry_spec : list (string * held)) (name : string) (h : held)
  : option (list string * held * action) :=
  match refute fuel p exc_spec entry_spec name h with
  | Some tr => option_map (describe (p_names p)) (last_obs tr)
  | None => None
  end.
