(* Executable entry point for the span-terminal correspondence check: the
   whole-screen span model (Model/SpanScreen.v) run over an operation history,
   observed after every operation in the RAW representation - for every row of
   both buffers the list of spans (style words, text bytes, is-text flag, fill
   rune, width) and the cached row width - next to everything the cell-level
   check observes (headers, cells through the abstraction [abs_sterm], replies,
   registers, view strings, callback digest and the announced regions in order).

   This is the tie of the span-level terminal to the code: the cell-level
   correspondence compares what the rows mean, this one compares how
   spanScreen stores them, operation by operation, on the real read loop.  The
   span model is a transcription of the code and sets no known-finding mark, so
   nothing is excused: the comparison also runs on the operations on which the
   cell model and the span buffer are known to differ.

   A case with a seventh header field of 1 is run here ([run_any] dispatches);
   the harness then prints one record [11; which; y; nsp; span*; cache] per row
   after the records of [Case.enc_obs].  Span buffer.  Header mode 0 (TextReadModeRune)
   runs the model of SpanScreen.v at the width oracle [uwc] of Model/Uniseg.v (the model of uniseg.StringWidth over
   the tables generated from the library source, tied code point by code point by the uniseg engine; not the per-case
   table of the cell-level check: raw invalid bytes written in separate operations can recombine into a character that
   occurs nowhere in the input - known finding D13 - and the table, computed from the input, does not list it); header mode 1
   (TextReadModeGrapheme) runs the stepper-parametric model of GSpan.v at the grapheme
   stepper (the uniseg model), with the reader state as record 10. *)
From Coq Require Import List ZArith Bool.
From Termemu Require Import Base Style Screen Kbd Parser Term Span SpanScreen Case SpanCase Uniseg Grapheme GSpan.
Import ListNotations.
Open Scope Z_scope.

Fixpoint enc_srows (which y : Z) (ls : list spanline) : list (list Z) :=
  match ls with
  | [] => []
  | l :: rest => (11 :: which :: y :: enc_line l) :: enc_srows which (y + 1) rest
  end.

Definition enc_sobs (wc : Z -> Z) (opidx : Z) (t : sterm) (pending : Z) : list (list Z) :=
  enc_obs opidx (abs_sterm wc t) pending ++ [enc_rs rs0]
    ++ enc_srows 0 0 (zlines (smain t)) ++ enc_srows 1 0 (zlines (salt t)).

Definition s_clear_io (t : sterm) : sterm :=
  mkSTerm (smain t) (salt t) (sonalt t) (svflags t) (svints t) (svstrs t) (skbm t) (skba t) [] [].

Record scst := mkScst { sc_t : sterm; sc_pend : list Z; sc_mw : option Z; sc_tbl : list Z; sc_idx : Z }.

Definition s_run_op (st : scst) (line : list Z) : scst * list (list Z) :=
  let wc := uwc in
  match line with
  | 110 :: bs =>
      if s_crashed (sc_t st) then (st, enc_sobs wc (sc_idx st) (sc_t st) (zlen (sc_pend st))) else
      let '(t', pend', mw') := s_hstep wc (s_clear_io (sc_t st), sc_pend st, sc_mw st) (HFeed bs) in
      (mkScst t' pend' mw' (sc_tbl st) (sc_idx st + 1), enc_sobs wc (sc_idx st) t' (zlen pend'))
  | 111 :: w :: h :: _ =>
      if s_crashed (sc_t st) then (st, enc_sobs wc (sc_idx st) (sc_t st) (zlen (sc_pend st))) else
      let '(t', pend', mw') := s_hstep wc (s_clear_io (sc_t st), sc_pend st, sc_mw st) (HResize w h) in
      (mkScst t' pend' mw' (sc_tbl st) (sc_idx st + 1), enc_sobs wc (sc_idx st) t' (zlen pend'))
  | _ => (st, [])
  end.

Fixpoint s_run_ops (st : scst) (lines : list (list Z)) : list (list Z) :=
  match lines with
  | [] => []
  | l :: rest => let '(st', o) := s_run_op st l in o ++ s_run_ops st' rest
  end.

(* newSpanScreen builds 80x14 buffers; the harness then calls Resize(w, h) before the loop starts,
   and the loop computes the maxWidth of its first read from the resized buffer *)
Definition s_start (wc : Z -> Z) (w h : Z) : sterm := s_clear_io (s_resize wc w h (s_init_term 80 14)).

(* ---- grapheme mode: the same, over Model/GSpan.v at the grapheme stepper ---- *)
Definition g_enc_sobs (opidx : Z) (t : sterm) (rs : rstate) (pending : Z) : list (list Z) :=
  enc_obs opidx (gm_abs_sterm t) pending ++ [enc_rs rs]
    ++ enc_srows 0 0 (zlines (smain t)) ++ enc_srows 1 0 (zlines (salt t)).

Record gscst := mkGscst { gc_t : sterm; gc_rs : rstate; gc_pend : list Z; gc_mw : option Z; gc_idx : Z }.

Definition g_run_op (st : gscst) (line : list Z) : gscst * list (list Z) :=
  let same := (st, g_enc_sobs (gc_idx st) (gc_t st) (gc_rs st) (zlen (gc_pend st))) in
  let go (o : hop) :=
    let '(t', rs', pend', mw') := gm_hstep (s_clear_io (gc_t st), gc_rs st, gc_pend st, gc_mw st) o in
    (mkGscst t' rs' pend' mw' (gc_idx st + 1), g_enc_sobs (gc_idx st) t' rs' (zlen pend')) in
  match line with
  | 110 :: bs => if s_crashed (gc_t st) then same else go (HFeed bs)
  | 111 :: w :: h :: _ => if s_crashed (gc_t st) then same else go (HResize w h)
  | _ => (st, [])
  end.

Fixpoint g_run_ops (st : gscst) (lines : list (list Z)) : list (list Z) :=
  match lines with
  | [] => []
  | l :: rest => let '(st', o) := g_run_op st l in o ++ g_run_ops st' rest
  end.

Definition g_start (w h : Z) : sterm := s_clear_io (gm_resize w h (s_init_term 80 14)).

Definition run_scase (lines : list (list Z)) : list (list Z) :=
  match lines with
  | (100 :: mode :: _ :: w :: h :: _) :: (101 :: tbl) :: rest =>
      if mode =? 1 then
        let t0 := g_start w h in
        g_run_ops (mkGscst t0 rs0 [] (Some (max_width (s_active t0))) 0) rest
      else
      let t0 := s_start uwc w h in
      s_run_ops (mkScst t0 [] (Some (max_width (s_active t0))) tbl 0) rest
  | _ => [[0]]
  end.

Definition run_any (lines : list (list Z)) : list (list Z) :=
  match lines with
  | (100 :: _ :: _ :: _ :: _ :: _ :: 1 :: _) :: _ => run_scase lines
  | _ => run_case lines
  end.
