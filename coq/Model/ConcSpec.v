(* Model/ConcSpec.v -- the instance of the lock-discipline check for termemu:
   entry points with their documented lock preconditions, the excepted call
   edges, and a "most general client" thread.  Definitions only. *)

From Coq Require Import List String.
From Termemu Require Import Conc.
Import ListNotations.
Open Scope string_scope.
Open Scope list_scope.

Definition N : held := no_locks.      (* entered holding nothing *)
Definition L : held := only MTerm.    (* documented precondition: caller holds the terminal lock *)

(* API that takes the locks it needs itself. *)
Definition api_unlocked : list string := [
  "terminal.SetFrontend"; "terminal.Write"; "terminal.SendKey"; "terminal.SendMouseRaw"; "terminal.Resize";
  "TTYFrontend.Attach"; "TTYFrontend.Detach"; "TTYFrontend.Focus"; "TTYFrontend.Blur";
  "TTYFrontend.SetFocus"; "TTYFrontend.SetTerminal";
  "TeeBackend.SetTee"; "TeeBackend.Write"; "TeeBackend.SetSize"
].

(* Read accessors: "the caller must lock the terminal before calling this method". *)
Definition api_locked : list string := [
  "terminal.Size"; "terminal.Line"; "terminal.ANSILine"; "terminal.StyledLine"; "terminal.StyledLines";
  "terminal.PrintTerminal"
].

(* Frontend methods of TTYFrontend: entered by the terminal with its lock held. *)
Definition tty_callbacks : list string := [
  "TTYFrontend.Bell"; "TTYFrontend.RegionChanged"; "TTYFrontend.ScrollLines"; "TTYFrontend.CursorMoved";
  "TTYFrontend.StyleChanged"; "TTYFrontend.ViewFlagChanged"; "TTYFrontend.ViewIntChanged";
  "TTYFrontend.ViewStringChanged"
].

(* Threads started by the library, and TeeBackend.Read (called by the read loop). *)
Definition loops : list string := [
  "terminal.ptyReadLoop"; "terminal.startReadLoop$go1"; "TeeBackend.Read"; "terminal.WithLock"
].

Definition client_name : string := "<client>".

Definition c15_entries : list (string * held) :=
  map (fun s => (s, N)) api_unlocked ++ map (fun s => (s, L)) api_locked
  ++ map (fun s => (s, L)) tty_callbacks ++ map (fun s => (s, N)) loops
  ++ [(client_name, N)].

(* Call edges below which a blocking read under MTerm is a recorded finding. *)
Definition exc_D38 : list (string * string) := [("terminal.ptyReadOne", "terminal.handleCommand")].
(* The interactive debugging aid debugPause reads os.Stdin when -debugWait is
   set; it is reached from debugPrintln / debugPrintf, also under the lock. *)
Definition exc_debug : list (string * string) := [("debugPrintln", "debugPause"); ("debugPrintf", "debugPause")].
Definition c15_exceptions : list (string * string) := exc_D38 ++ exc_debug.

(* The most general client thread: forever, either call one of the unlocked
   API methods, or take the terminal lock (WithLock, or Lock ... Unlock) and
   call read accessors any number of times. *)
Fixpoint any_of (alts : list (list ev)) : list ev :=
  match alts with
  | [] => []
  | [a] => a
  | a :: rest => [Branch a (any_of rest)]
  end.

Fixpoint resolve_all (names : list string) (l : list string) : option (list fid) :=
  match l with
  | [] => Some []
  | s :: l' =>
      match resolve names s, resolve_all names l' with
      | Some f, Some r => Some (f :: r)
      | _, _ => None
      end
  end.

Definition client_body (names : list string) : option (list ev) :=
  match resolve_all names api_unlocked, resolve_all names api_locked with
  | Some us, Some ls =>
      let readers := [Loop (any_of (map (fun f => [Call f]) ls))] in
      Some [Loop [Branch (any_of (map (fun f => [Call f]) us))
                         [Branch [WithLock MTerm readers]
                                 ([Lock MTerm] ++ readers ++ [Unlock MTerm])]]]
  | _, _ => None
  end.

(* The generated program extended with the client as one more function. *)
Definition with_client (p : program) : program :=
  match client_body (p_names p) with
  | Some body => mkProgram (p_cg p ++ [body]) (p_names p ++ [client_name])
  | None => mkProgram [] []
  end.

(* Findings of the instrumented walk on /repo HEAD (2aa04f2), as reported by
   [check_explain]. *)
Definition order_msg (what : string) : string :=
  String.append what ": self-deadlock or lock-order violation (order MTerm < MTty < MTee)".

Definition finding_D29 : finding :=
  (["TTYFrontend.Attach{}"], [order_msg "WithLock MTerm while holding {MTty }"]).

Definition unlocked_read (path : list string) (fields : list string) : finding :=
  (path, map (fun f => String.concat "" ["read of "; f; " while holding {}: MTerm not held"]) fields).

Definition readone (callee : string) : list string :=
  ["terminal.ptyReadLoop{}"; "terminal.ptyReadOne{}"; callee].

Definition findings_D43 : list finding := [
  unlocked_read (readone "terminal.screen{}") ["terminal.onAltScreen"; "terminal.altScreen"; "terminal.mainScreen"];
  unlocked_read (readone "gridScreen.AutoWrap{}") ["gridScreen.autoWrap"];
  unlocked_read (readone "spanScreen.AutoWrap{}") ["spanScreen.autoWrap"];
  unlocked_read (readone "gridScreen.Size{}") ["gridScreen.size"];
  unlocked_read (readone "spanScreen.Size{}") ["spanScreen.size"];
  unlocked_read (readone "gridScreen.CursorPos{}") ["gridScreen.cursorPos"];
  unlocked_read (readone "spanScreen.CursorPos{}") ["spanScreen.cursorPos"]
].

(* Helpers to state facts about the findings returned by [check_explain]. *)
Fixpoint has_edge (a b : string) (path : list string) : bool :=
  match path with
  | x :: ((y :: _) as rest) => (String.eqb x a && String.eqb y b) || has_edge a b rest
  | _ => false
  end.

Definition all_through (a b : string) (fs : option (list finding)) : bool :=
  match fs with
  | Some l => negb (Nat.eqb (List.length l) 0) && forallb (fun f : finding => has_edge a b (fst f)) l
  | None => false
  end.

Definition paths (fs : option (list finding)) : option (list (list string)) :=
  option_map (map (@fst (list string) (list string))) fs.

(* The shortest D38 witness path: the read loop blocks in the backend read
   below handleCommand, with MTerm held. *)
Definition path_D38 : list string :=
  ["terminal.ptyReadLoop{}"; "terminal.ptyReadOne{}"; "terminal.handleCommand{MTerm }";
   "GraphemeReader.ReadByte{MTerm }"; "GraphemeReader.fill{MTerm }"].

Definition has_path (p : list string) (fs : option (list finding)) : bool :=
  match paths fs with
  | Some l => existsb (fun q => if list_eq_dec string_dec p q then true else false) l
  | None => false
  end.

Definition finding_debugPause : finding :=
  (["terminal.ptyReadLoop{}"; "terminal.ptyReadOne{}"; "debugPrintf{MTerm }"; "debugPause{MTerm }"],
   ["blocking read (*os.File).Read while holding {MTerm }"]).
