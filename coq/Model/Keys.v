(* Model of keys.go (key event encoding), function by function, AFTER the
   repairs D30 (release events), D31a (F3) and D31b (KP_BEGIN).  The dispatch
   tables, key numbers, keypad mapping and ctrl mapping are not written here:
   they come from Gen/Gen_KeyTables.v, which tools/gen_keys regenerates from
   keys.go.  Definitions only.

   Conventions: bytes, runes, modifier masks, flags are Z; []byte / string are
   list Z; a nil []byte and "" are [] (no encoder of keys.go returns a non-nil
   empty slice, so [seq != nil] is [seq <> []]). *)
From Coq Require Import List ZArith Bool.
From Termemu Require Import Base KeyKinds Gen_KeyTables.
Import ListNotations.
Open Scope Z_scope.

(* what encodeKey reads from the terminal *)
Record kstate := mkKst {
  ks_flags : Z;      (* t.keyboardFlags(): Kitty flags of the active screen *)
  ks_mok : Z;        (* t.viewInts[VIModifyOtherKeys] *)
  ks_appc : bool     (* t.viewFlags[VFAppCursorKeys] *)
}.

(* KeyEvent *)
Record keyev := mkEv {
  e_code : Z; e_rune : Z; e_mod : Z; e_event : Z;
  e_shifted : Z; e_base : Z; e_text : list Z
}.

Definition has (x bit : Z) : bool := negb (Z.land x bit =? 0).   (* x&bit != 0 *)

Fixpoint assoc {A} (k : Z) (l : list (Z * A)) : option A :=
  match l with
  | [] => None
  | (k', v) :: r => if k =? k' then Some v else assoc k r
  end.
Fixpoint zmem (k : Z) (l : list Z) : bool :=
  match l with [] => false | x :: r => (k =? x) || zmem k r end.

(* string(r) for a rune: UTF-8, invalid runes become U+FFFD *)
Definition utf8 (r : Z) : list Z :=
  if (r <? 0) || (1114111 <? r) || ((55296 <=? r) && (r <=? 57343)) then [239; 191; 189]
  else if r <? 128 then [r]
  else if r <? 2048 then [192 + r / 64; 128 + r mod 64]
  else if r <? 65536 then [224 + r / 4096; 128 + (r / 64) mod 64; 128 + r mod 64]
  else [240 + r / 262144; 128 + (r / 4096) mod 64; 128 + (r / 64) mod 64; 128 + r mod 64].

Definition CSI : list Z := [27; 91].

(* ---- small helpers of keys.go ---- *)

Definition isKeypadKey (code : Z) : bool := zmem code is_keypad_key.

Definition keypadEquivalent (ev : keyev) : option keyev :=
  match assoc (e_code ev) keypad_equivalent with
  | Some (c, Some r) => Some (mkEv c r (e_mod ev) (e_event ev) (e_shifted ev) (e_base ev) (e_text ev))
  | Some (c, None) => Some (mkEv c (e_rune ev) (e_mod ev) (e_event ev) (e_shifted ev) (e_base ev) (e_text ev))
  | None => None
  end.

Definition kittyFunctionalCode (code : Z) : option Z := assoc code kitty_functional_code.

Fixpoint ctrl_ranges (l : list (Z * Z * Z * Z)) (r : Z) : option Z :=
  match l with
  | [] => None
  | (lo, hi, sub, add) :: rest => if (lo <=? r) && (r <=? hi) then Some (r - sub + add) else ctrl_ranges rest r
  end.
Definition ctrlByte (r : Z) : option Z :=
  match ctrl_ranges ctrl_byte_ranges r with
  | Some b => Some b
  | None => assoc r ctrl_byte_exact
  end.

Definition xtermModParam (mod_ : Z) : Z :=
  1 + (if has mod_ ModShift then 1 else 0) + (if has mod_ ModAlt then 2 else 0) + (if has mod_ ModCtrl then 4 else 0).

Definition normalizeEventType (event : Z) : Z := if event =? 0 then KeyPress else event.

Definition kittyModParam (mod_ : Z) : Z := 1 + mod_.

(* ---- legacy encoders ---- *)

Definition encodeModifyOtherKeys (code mod_ : Z) : list Z :=
  CSI ++ [50; 55; 59] ++ itoa (xtermModParam mod_) ++ [59] ++ itoa code ++ [126].

Definition encodeRuneKey (st : kstate) (r mod_ : Z) : list Z :=
  if r =? 0 then []
  else if (0 <? ks_mok st) && negb (mod_ =? 0) then encodeModifyOtherKeys r mod_
  else
    let plain := let out := utf8 r in if has mod_ ModAlt then 27 :: out else out in
    if has mod_ ModCtrl then
      match ctrlByte r with
      | Some b => if has mod_ ModAlt then [27; b] else [b]
      | None => plain
      end
    else plain.

Definition csi1_mod (mod_ final : Z) : list Z :=      (* Sprintf("\033[1;%d%c", xtermModParam(mod), final) *)
  CSI ++ [49; 59] ++ itoa (xtermModParam mod_) ++ [final].

Definition encodeCursorKey (st : kstate) (final mod_ : Z) : list Z :=
  if (mod_ =? 0) && ks_appc st then [27; 79; final]
  else if mod_ =? 0 then [27; 91; final]
  else csi1_mod mod_ final.

Definition encodeHomeEndKey (st : kstate) (final mod_ : Z) : list Z :=
  if (mod_ =? 0) && ks_appc st then [27; 79; final]
  else if mod_ =? 0 then [27; 91; final]
  else csi1_mod mod_ final.

Definition encodeBackspaceKey (st : kstate) (mod_ : Z) : list Z :=
  if mod_ =? 0 then [127]
  else if 0 <? ks_mok st then encodeModifyOtherKeys 127 mod_
  else if has mod_ ModAlt then [27; 127] else [127].

Definition encodeTabKey (st : kstate) (mod_ : Z) : list Z :=
  if mod_ =? 0 then [9]
  else if mod_ =? ModShift then [27; 91; 90]
  else if 0 <? ks_mok st then encodeModifyOtherKeys 9 mod_
  else if has mod_ ModAlt then [27; 9] else [9].

Definition encodeEnterKey (st : kstate) (mod_ : Z) : list Z :=
  if mod_ =? 0 then [13]
  else if 0 <? ks_mok st then encodeModifyOtherKeys 13 mod_
  else if has mod_ ModAlt then [27; 13] else [13].

Definition encodeEscapeKey (st : kstate) (mod_ : Z) : list Z :=
  if mod_ =? 0 then [27]
  else if 0 <? ks_mok st then encodeModifyOtherKeys 27 mod_
  else [27].

Definition encodeTildeKey (code mod_ : Z) : list Z :=
  if mod_ =? 0 then CSI ++ itoa code ++ [126]
  else CSI ++ itoa code ++ [59] ++ itoa (xtermModParam mod_) ++ [126].

Definition encodeFunctionKey (final mod_ : Z) : list Z :=
  if mod_ =? 0 then [27; 79; final] else csi1_mod mod_ final.

(* ---- Kitty field builders ---- *)

Definition kittyModField (mod_ event flags : Z) : list Z :=
  let event := normalizeEventType event in
  let modParam := kittyModParam mod_ in
  if has flags KbdReportEvents && negb (event =? KeyPress) then itoa modParam ++ [58] ++ itoa event
  else if mod_ =? 0 then []
  else itoa modParam.

Definition kittyKeyField (code : Z) (ev : keyev) (flags : Z) : list Z :=
  let keyField := itoa code in
  if negb (has flags KbdReportAlternates) then keyField
  else
    let shifted := if negb (e_shifted ev =? 0) && has (e_mod ev) ModShift then e_shifted ev else 0 in
    let base := e_base ev in
    if negb (shifted =? 0) && negb (base =? 0) then itoa code ++ [58] ++ itoa shifted ++ [58] ++ itoa base
    else if negb (shifted =? 0) then itoa code ++ [58] ++ itoa shifted
    else if negb (base =? 0) then itoa code ++ [58; 58] ++ itoa base
    else keyField.

Fixpoint join_itoa (l : list Z) : list Z :=      (* strings.Join(map Itoa l, ":") *)
  match l with
  | [] => []
  | [x] => itoa x
  | x :: r => itoa x ++ 58 :: join_itoa r
  end.

Definition kittyTextField (ev : keyev) (flags : Z) : list Z :=
  if negb (has flags KbdReportAllKeys) || negb (has flags KbdReportText) then []
  else
    let text := match e_text ev with
                | [] => if (e_code ev =? KeyRune) && negb (e_rune ev =? 0) then [e_rune ev] else []
                | t => t
                end in
    join_itoa text.

Definition kittyCSI1 (final : Z) (modField : list Z) : list Z :=
  match modField with
  | [] => [27; 91; final]
  | _ => CSI ++ [49; 59] ++ modField ++ [final]
  end.

Definition kittyCSITilde (code : Z) (modField : list Z) : list Z :=
  match modField with
  | [] => CSI ++ itoa code ++ [126]
  | _ => CSI ++ itoa code ++ [59] ++ modField ++ [126]
  end.

Definition kittyCSIu (keyField modField textField : list Z) : list Z :=
  match modField, textField with
  | [], [] => CSI ++ keyField ++ [117]
  | _, _ =>
      let modField := match modField with [] => [49] | _ => modField end in
      match textField with
      | [] => CSI ++ keyField ++ [59] ++ modField ++ [117]
      | _ => CSI ++ keyField ++ [59] ++ modField ++ [59] ++ textField ++ [117]
      end
  end.

(* ---- encodeLegacyKey ---- *)

Definition legacy_switch (st : kstate) (ev : keyev) : list Z :=
  match assoc (e_code ev) legacy_dispatch with
  | Some LRune => encodeRuneKey st (e_rune ev) (e_mod ev)
  | Some (LCursor f) => encodeCursorKey st f (e_mod ev)
  | Some (LHomeEnd f) => encodeHomeEndKey st f (e_mod ev)
  | Some (LTilde c) => encodeTildeKey c (e_mod ev)
  | Some (LFunction f) => encodeFunctionKey f (e_mod ev)
  | Some LBackspace => encodeBackspaceKey st (e_mod ev)
  | Some LTab => encodeTabKey st (e_mod ev)
  | Some LEnter => encodeEnterKey st (e_mod ev)
  | Some LEscape => encodeEscapeKey st (e_mod ev)
  | None =>
      match kittyFunctionalCode (e_code ev) with
      | Some code => kittyCSIu (kittyKeyField code ev 0) (kittyModField (e_mod ev) (e_event ev) 0) []
      | None => []
      end
  end.

(* the Go function calls itself on the keypad equivalent; fuel bounds that
   recursion (Proofs/KeysProofs.v: no keypad equivalent is a keypad key, so one
   level is all that is ever used) *)
Fixpoint encodeLegacyKey_fuel (fuel : nat) (st : kstate) (ev : keyev) : list Z :=
  match fuel with
  | O => legacy_switch st ev
  | S f =>
      if isKeypadKey (e_code ev) then
        match keypadEquivalent ev with
        | Some mapped => encodeLegacyKey_fuel f st mapped
        | None => legacy_switch st ev
        end
      else legacy_switch st ev
  end.
Definition encodeLegacyKey := encodeLegacyKey_fuel 2.

(* ---- encodeKittyKey ---- *)

Definition encodeKittyRune (ev : keyev) (flags : Z) : list Z :=
  if e_rune ev =? 0 then []
  else if has flags KbdReportAllKeys then
    kittyCSIu (kittyKeyField (e_rune ev) ev flags) (kittyModField (e_mod ev) (e_event ev) flags) (kittyTextField ev flags)
  else if has flags KbdDisambiguate
          && has (e_mod ev) (Z.lor ModAlt (Z.lor ModCtrl (Z.lor ModSuper (Z.lor ModHyper ModMeta)))) then
    kittyCSIu (kittyKeyField (e_rune ev) ev flags) (kittyModField (e_mod ev) (e_event ev) flags) []
  else [].

Definition kitty_switch (ev : keyev) (flags : Z) : list Z :=
  let modField := kittyModField (e_mod ev) (e_event ev) flags in
  match assoc (e_code ev) kitty_dispatch with
  | Some KRune => encodeKittyRune ev flags
  | Some (KCSI1 f) => kittyCSI1 f modField
  | Some (KCSITilde c) => kittyCSITilde c modField
  | Some (KCSIu c guard) =>
      if has flags guard then kittyCSIu (kittyKeyField c ev flags) modField (kittyTextField ev flags) else []
  | None =>
      match kittyFunctionalCode (e_code ev) with
      | Some code => kittyCSIu (kittyKeyField code ev flags) modField (kittyTextField ev flags)
      | None => []
      end
  end.

Fixpoint encodeKittyKey_fuel (fuel : nat) (ev : keyev) (flags : Z) : list Z :=
  match fuel with
  | O => kitty_switch ev flags
  | S f =>
      if isKeypadKey (e_code ev) && negb (has flags KbdDisambiguate) then
        match keypadEquivalent ev with
        | Some mapped => encodeKittyKey_fuel f mapped flags
        | None => kitty_switch ev flags
        end
      else kitty_switch ev flags
  end.
Definition encodeKittyKey := encodeKittyKey_fuel 2.

(* ---- encodeKey (with the D30 repair) ---- *)

Definition encode_key (st : kstate) (ev : keyev) : list Z :=
  let flags := ks_flags st in
  let release := normalizeEventType (e_event ev) =? KeyRelease in
  if release && negb (has flags KbdReportEvents) then []
  else
    match (if flags =? 0 then [] else encodeKittyKey ev flags) with
    | [] => if release then [] else encodeLegacyKey st ev
    | seq => seq
    end.

(* the code as it is today (before D30), kept for the correspondence check
   against an unpatched checkout and for the D30 witness *)
Definition encode_key_unrepaired (st : kstate) (ev : keyev) : list Z :=
  match (if ks_flags st =? 0 then [] else encodeKittyKey ev (ks_flags st)) with
  | [] => encodeLegacyKey st ev
  | seq => seq
  end.
