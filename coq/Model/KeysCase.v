(* Executable entry point of the C12 correspondence check.  The Go harness
   (harness-keys) and this function read the same lines of integers and must
   print the same lines.  All decoding, enumeration and hashing is here; the
   OCaml driver only converts integers.

   line formats (inputs):
     1 flags mok appc code rune mod event shifted base ntext text...   one case
     2 flags mok appc code rune shifted base ntext text...             bucket: all 256 modifier masks x events 0..3
     3 (fields of 1)                                                    the same event through SendKey, short-writing backend
   outputs: the input line followed by -1 and
     tag 1: the bytes of encodeKey
     tag 3: the bytes that reached the backend, then -3, the count returned, the error flag
     tag 2: the FNV-1a/32 hash of (len, bytes...) of the 1024 encodings, mods outer loop, events inner loop *)
From Coq Require Import List ZArith Bool.
From Termemu Require Import Base KeyKinds Gen_KeyTables Keys.
Import ListNotations.
Open Scope Z_scope.

Definition fnv_step (h b : Z) : Z := Z.land (Z.lxor h (Z.land b 255) * 16777619) 4294967295.
Definition fnv_bytes (h : Z) (l : list Z) : Z := fold_left fnv_step l h.

Fixpoint zrange (n : nat) (start : Z) : list Z :=
  match n with O => [] | S k => start :: zrange k (start + 1) end.

Definition bucket_hash (st : kstate) (code rune shifted base : Z) (text : list Z) : Z :=
  fold_left (fun h m =>
    fold_left (fun h e =>
      let out := encode_key st (mkEv code rune m e shifted base text) in
      fnv_bytes (fnv_step h (zlen out)) out) [0; 1; 2; 3] h)
    (zrange 256 0) 2166136261.

Definition run_line (line : list Z) : list Z :=
  match line with
  | 1 :: flags :: mok :: appc :: code :: rune :: mod_ :: event :: shifted :: base :: n :: text =>
      line ++ -1 :: encode_key (mkKst flags mok (negb (appc =? 0)))
                               (mkEv code rune mod_ event shifted base (zfirstn n text))
  | 3 :: flags :: mok :: appc :: code :: rune :: mod_ :: event :: shifted :: base :: n :: text =>
      (* SendKey through Terminal.Write (Model/Mouse.v [term_write]) on a backend that takes 1..4 bytes per call and
         never fails: every byte arrives, the count returned is the length, no error *)
      let out := encode_key (mkKst flags mok (negb (appc =? 0))) (mkEv code rune mod_ event shifted base (zfirstn n text)) in
      line ++ -1 :: out ++ [-3; zlen out; 0]
  | 2 :: flags :: mok :: appc :: code :: rune :: shifted :: base :: n :: text =>
      line ++ [-1; bucket_hash (mkKst flags mok (negb (appc =? 0))) code rune shifted base (zfirstn n text)]
  | _ => line ++ [-2]
  end.

Definition run_keys (lines : list (list Z)) : list (list Z) := map run_line lines.
