(* Executable entry point for the segmentation correspondence check (engine `uniseg`).  One case per line:
     [1; base]            the widths uwc (base + i), i = 0..255        (uniseg.StringWidth of a one-rune string)
     [2; b1; b2; ...]     uniseg.Step iterated over the bytes with the state carried: per cluster
                          consumed, width, grapheme state, property of the new state
     [3; mode; b1; ...]   nextTokenInfo iterated with the reader state carried: per token
                          consumed, width, merge, grapheme state, property (-1 -1 for state -1), forceMergeNext, lastWasRI
   The answer is the case line, -1, then the numbers. *)
From Coq Require Import List ZArith Bool.
From Termemu Require Import Base Parser Gen_Uniseg Uniseg Grapheme.
Import ListNotations.
Open Scope Z_scope.

Fixpoint widths_from (base : Z) (n : nat) : list Z :=
  match n with O => [] | S k => uwc base :: widths_from (base + 1) k end.

Fixpoint steps (fuel : nat) (buf : list Z) (state : ustate) : list Z :=
  match fuel with
  | O => []
  | S f =>
      match buf with
      | [] => []
      | _ =>
          let '(c, w, ns) := ustep buf state in
          let '(g, p) := match ns with Some (g, p) => (g, p) | None => (-1, -1) end in
          [c; w; g; p] ++ steps f (zskipn c buf) ns
      end
  end.

Definition eb (b : bool) : Z := if b then 1 else 0.

Fixpoint tokens (fuel : nat) (grapheme : bool) (buf : list Z) (rs : rstate) : list Z :=
  match fuel with
  | O => []
  | S f =>
      match buf with
      | [] => []
      | _ =>
          match next_token grapheme buf rs with
          | None => [-2]
          | Some tk =>
              let rs' := tt_rs tk in
              let '(g, p) := match rs_state rs' with Some (g, p) => (g, p) | None => (-1, -1) end in
              [tt_len tk; tt_width tk; eb (tt_merge tk); g; p; eb (rs_fm rs'); eb (rs_ri rs')]
                ++ tokens f grapheme (zskipn (tt_len tk) buf) rs'
          end
      end
  end.

Definition run_uniseg_line (line : list Z) : list Z :=
  match line with
  | 1 :: base :: _ => line ++ (-1) :: widths_from base 256
  | 2 :: bs => line ++ (-1) :: steps (length bs) bs None
  | 3 :: mode :: bs => line ++ (-1) :: tokens (length bs) (negb (mode =? 0)) bs rs0
  | _ => [-3]
  end.

Definition run_uniseg (lines : list (list Z)) : list (list Z) := map run_uniseg_line lines.
