(* Text style: colours and the thirteen modes, as style.go keeps them, plus the
   SGR parameter interpreter of escapes.go (case 'm').  The model keeps the
   style structured; [pack] gives the three uint32 words the Go struct holds. *)
From Coq Require Import List ZArith Bool.
From Termemu Require Import Base.
Import ListNotations.
Open Scope Z_scope.

Inductive color := CDef | CIdx (n : Z) | CBright (n : Z) | CRgb (v : Z).

(* smodes is a bit set over Mode's iota order:
   0 bold 1 dim 2 italic 3 underline 4 blink 5 reverse 6 invisible 7 strike
   8 overline 9 double-underline 10 framed 11 encircled 12 rapid-blink *)
Record style := mkStyle { sfg : color; sbg : color; smodes : Z }.

Definition default_style := mkStyle CDef CDef 0.

Definition color_eqb (a b : color) : bool :=
  match a, b with
  | CDef, CDef => true
  | CIdx x, CIdx y => x =? y
  | CBright x, CBright y => x =? y
  | CRgb x, CRgb y => x =? y
  | _, _ => false
  end.
Definition style_eqb (a b : style) : bool :=
  color_eqb (sfg a) (sfg b) && color_eqb (sbg a) (sbg b) && (smodes a =? smodes b).

Definition pack_color (c : color) : Z :=
  match c with
  | CDef => 256
  | CIdx n => n
  | CBright n => 512 + n
  | CRgb v => 2147483648 + v
  end.
Definition pack_fg (s : style) : Z := pack_color (sfg s) + (smodes s mod 128) * 16777216.
Definition pack_bg (s : style) : Z := pack_color (sbg s) + (smodes s / 128) * 16777216.
Definition pack_ul (s : style) : Z := 256.

(* inverse of pack_color / pack_fg / pack_bg on well-formed words *)
Definition unpack_color (w : Z) : color :=
  let c := w mod 16777216 in
  if 2147483648 <=? w then CRgb c
  else if c =? 256 then CDef
  else if 512 <=? c then CBright (c - 512)
  else CIdx c.
Definition unpack (fgw bgw : Z) : style :=
  mkStyle (unpack_color fgw) (unpack_color bgw)
    ((fgw / 16777216) mod 128 + ((bgw / 16777216) mod 128) * 128).

Definition set_mode (i : Z) (s : style) : style :=
  mkStyle (sfg s) (sbg s) (Z.lor (smodes s) (Z.shiftl 1 i)).
Definition reset_mode (i : Z) (s : style) : style :=
  mkStyle (sfg s) (sbg s) (Z.ldiff (smodes s) (Z.shiftl 1 i)).
Definition test_mode (i : Z) (s : style) : bool := Z.testbit (smodes s) i.
Definition set_fg (c : color) (s : style) := mkStyle c (sbg s) (smodes s).
Definition set_bg (c : color) (s : style) := mkStyle (sfg s) c (smodes s).
Definition set_comp (bgp : bool) (c : color) (s : style) := if bgp then set_bg c s else set_fg c s.

Definition mBold := 0. Definition mDim := 1. Definition mItalic := 2. Definition mUnderline := 3.
Definition mBlink := 4. Definition mReverse := 5. Definition mInvisible := 6. Definition mStrike := 7.
Definition mOverline := 8. Definition mDUnderline := 9. Definition mFramed := 10.
Definition mEncircled := 11. Definition mRapid := 12.

(* One SGR parameter that needs no look-ahead.  None = not such a code. *)
Definition sgr_simple (p : Z) (s : style) : option style :=
  if p =? 0 then Some default_style
  else if p =? 1 then Some (set_mode mBold s)
  else if p =? 2 then Some (set_mode mDim s)
  else if p =? 3 then Some (set_mode mItalic s)
  else if p =? 4 then Some (set_mode mUnderline s)
  else if p =? 5 then Some (set_mode mBlink s)
  else if p =? 6 then Some (set_mode mRapid s)
  else if p =? 7 then Some (set_mode mReverse s)
  else if p =? 8 then Some (set_mode mInvisible s)
  else if p =? 9 then Some (set_mode mStrike s)
  else if p =? 21 then Some (set_mode mDUnderline s)
  else if p =? 22 then Some (reset_mode mDim (reset_mode mBold s))
  else if p =? 23 then Some (reset_mode mItalic s)
  else if p =? 24 then Some (reset_mode mDUnderline (reset_mode mUnderline s))
  else if p =? 25 then Some (reset_mode mRapid (reset_mode mBlink s))
  else if p =? 27 then Some (reset_mode mReverse s)
  else if p =? 28 then Some (reset_mode mInvisible s)
  else if p =? 29 then Some (reset_mode mStrike s)
  else if p =? 51 then Some (set_mode mFramed s)
  else if p =? 52 then Some (set_mode mEncircled s)
  else if p =? 53 then Some (set_mode mOverline s)
  else if p =? 54 then Some (reset_mode mEncircled (reset_mode mFramed s))
  else if p =? 55 then Some (reset_mode mOverline s)
  else if (30 <=? p) && (p <=? 37) then Some (set_fg (CIdx (p - 30)) s)
  else if p =? 39 then Some (set_fg CDef s)
  else if (40 <=? p) && (p <=? 47) then Some (set_bg (CIdx (p - 40)) s)
  else if p =? 49 then Some (set_bg CDef s)
  else if (90 <=? p) && (p <=? 97) then Some (set_fg (CBright (p - 90)) s)
  else if (100 <=? p) && (p <=? 107) then Some (set_bg (CBright (p - 100)) s)
  else None.

Definition rgb_of (r g b : Z) : Z := (r mod 256) * 65536 + (g mod 256) * 256 + b mod 256.

(* The loop of case 'm', including its look-ahead for 38/48 (i+2 < len, i+4 < len). *)
Fixpoint sgr_fold (ps : list Z) (s : style) : style :=
  match ps with
  | [] => s
  | p :: rest =>
      if (p =? 38) || (p =? 48) then
        match rest with
        | m :: a :: rest2 =>
            if m =? 5 then sgr_fold rest2 (set_comp (p =? 48) (CIdx (a mod 256)) s)
            else if m =? 2 then
              match rest2 with
              | g :: b :: rest3 => sgr_fold rest3 (set_comp (p =? 48) (CRgb (rgb_of a g b)) s)
              | _ => sgr_fold rest s
              end
            else sgr_fold rest s
        | _ => sgr_fold rest s
        end
      else
        match sgr_simple p s with
        | Some s' => sgr_fold rest s'
        | None => sgr_fold rest s
        end
  end.

(* CSI m with no parameter is CSI 0 m. *)
Definition sgr_apply (ps : list Z) (s : style) : style :=
  match ps with [] => sgr_fold [0] s | _ => sgr_fold ps s end.

(* ---- rendering a style back to SGR bytes (style.go ANSIEscape) ---- *)

Definition esc_seq (body : list Z) : list Z := 27 :: 91 :: body ++ [109].

Definition ansi_color (c : color) (param : Z) : list Z :=
  match c with
  | CRgb v =>
      27 :: 91 :: param :: 56 :: 59 :: 50 :: 59 ::
        itoa ((v / 65536) mod 256) ++ [59] ++ itoa ((v / 256) mod 256) ++ [59] ++ itoa (v mod 256) ++ [109]
  | CBright n => esc_seq (itoa ((if param =? 52 then 100 else 90) + n mod 8))
  | CDef => []
  | CIdx n =>
      if n <? 8 then [27; 91; param; 48 + n; 109]
      else 27 :: 91 :: param :: 56 :: 59 :: 53 :: 59 :: itoa n ++ [109]
  end.

(* modeToSGRCode, indexed by mode bit *)
Definition mode_code (i : Z) : Z :=
  if i =? 0 then 1 else if i =? 1 then 2 else if i =? 2 then 3 else if i =? 3 then 4
  else if i =? 4 then 5 else if i =? 5 then 7 else if i =? 6 then 8 else if i =? 7 then 9
  else if i =? 8 then 53 else if i =? 9 then 21 else if i =? 10 then 51 else if i =? 11 then 52
  else 6.

Definition mode_indices : list Z := [0;1;2;3;4;5;6;7;8;9;10;11;12].

Definition ansi_modes (m : Z) : list Z :=
  flat_map (fun i => if Z.testbit m i then esc_seq (itoa (mode_code i)) else []) mode_indices.

(* ANSIEscapeFrom(prev) *)
Definition ansi_escape_from (s prev : style) : list Z :=
  let modesChanged := negb (smodes s =? smodes prev) in
  let fgChanged := negb (color_eqb (sfg s) (sfg prev)) in
  let bgChanged := negb (color_eqb (sbg s) (sbg prev)) in
  if negb modesChanged && negb fgChanged && negb bgChanged then []
  else if modesChanged then
    esc_seq [48] ++ ansi_modes (smodes s) ++ ansi_color (sfg s) 51 ++ ansi_color (sbg s) 52
  else
    (if fgChanged then ansi_color (sfg s) 51 else []) ++ (if bgChanged then ansi_color (sbg s) 52 else []).

Definition ansi_escape (s : style) : list Z := esc_seq [48] ++ ansi_escape_from s default_style.
