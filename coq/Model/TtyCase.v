(* Executable entry point for the C11 TTY-mirror correspondence check.
   Input lines (integers), written by harness-tty:
     99  robust rp        driver options (first line): robust = 1 feeds the REAL
                          callback sequence to the model frontend, 0 replays the
                          history on the inner-terminal model and feeds the
                          model's own callback log; rp = 1 is the repaired code
     100 mode grid W H    new case (inner terminal W x H)
     101 tbl...           width oracle table
     110 bytes...         feed the inner terminal             (model-only mode)
     130 x y x2 y2        Attach      131 Detach   132 Focus   133 Blur
     147 W H              robust: size of the inner active screen
     145 y cells...       robust: row y of the inner active screen, as read at
                          the time of the next callback (cell encoding of Case.v)
     146 y spans...       robust: spans StyledLine returned for row y of the region
                          that the next callback renders: fg bg ul n bytes(n) each
     141 x y x2 y2        robust: RegionChanged   142 x y  CursorMoved
     143 i v              robust: ViewFlagChanged 144      any other callback
     150                  end of step: print what the frontend wrote
   Output per step:  200 bytes...   and, in robust mode,
                     201 rows_ok rows_bad cut   (cell-level StyledLine against the
                     recorded spans merged by style; cut = a rendered range cut a glyph) *)
From Coq Require Import List ZArith Bool.
From Termemu Require Import Base Style Screen Kbd Parser Term Case TtyFrontend.
Import ListNotations.
Open Scope Z_scope.

Record tcs := mkTcs {
  k_t : term; k_pend : list Z; k_tbl : list Z; k_grid : bool;
  k_robust : bool; k_rp : bool;
  k_tty : tty;
  k_shadow : screen;
  k_spans : list (Z * list (style * list Z));
  k_acc : list Z;
  k_ok : Z; k_bad : Z; k_cut : Z
}.

Definition upd_t t p (c : tcs) := mkTcs t p (k_tbl c) (k_grid c) (k_robust c) (k_rp c) (k_tty c) (k_shadow c) (k_spans c) (k_acc c) (k_ok c) (k_bad c) (k_cut c).
Definition upd_tty y o (c : tcs) := mkTcs (k_t c) (k_pend c) (k_tbl c) (k_grid c) (k_robust c) (k_rp c) y (k_shadow c) (k_spans c) (k_acc c ++ o) (k_ok c) (k_bad c) (k_cut c).
Definition upd_shadow s (c : tcs) := mkTcs (k_t c) (k_pend c) (k_tbl c) (k_grid c) (k_robust c) (k_rp c) (k_tty c) s (k_spans c) (k_acc c) (k_ok c) (k_bad c) (k_cut c).
Definition upd_spans s (c : tcs) := mkTcs (k_t c) (k_pend c) (k_tbl c) (k_grid c) (k_robust c) (k_rp c) (k_tty c) (k_shadow c) s (k_acc c) (k_ok c) (k_bad c) (k_cut c).
Definition upd_cnt a b d (c : tcs) := mkTcs (k_t c) (k_pend c) (k_tbl c) (k_grid c) (k_robust c) (k_rp c) (k_tty c) (k_shadow c) (k_spans c) (k_acc c) (k_ok c + a) (k_bad c + b) (Z.lor (k_cut c) d).
Definition flush (c : tcs) := mkTcs (k_t c) (k_pend c) (k_tbl c) (k_grid c) (k_robust c) (k_rp c) (k_tty c) (k_shadow c) [] [] 0 0 0.

(* ---- model-only mode: token by token, callbacks of one token rendered against
   the screen after that token ---- *)
Fixpoint run_toks (fuel : nat) (wc : Z -> Z) (grid rp : bool) (t : term) (y : tty) (inp : list Z)
  : term * tty * list Z * list Z :=
  match fuel with
  | O => (t, y, [], inp)
  | S f =>
      if crashed t then (t, y, [], inp) else
      match parse_one wc grid inp with
      | PMore => (t, y, [], inp)
      | PTok k rest =>
          let t1 := exec_tok k (clear_io t) in
          let '(y1, o1) := tty_events_fx rp grid y (active t1) (rev (tlog t1)) in
          let '(t2, y2, o2, pend) := run_toks f wc grid rp t1 y1 rest in
          (t2, y2, o1 ++ o2, pend)
      end
  end.

(* ---- robust mode helpers ---- *)
Fixpoint dec_spans (fuel : nat) (l : list Z) : list (style * list Z) :=
  match fuel with
  | O => []
  | S f =>
      match l with
      | fgw :: bgw :: _ :: n :: rest => (unpack fgw bgw, zfirstn n rest) :: dec_spans f (zskipn n rest)
      | _ => []
      end
  end.

Fixpoint lookup_spans (y : Z) (l : list (Z * list (style * list Z))) : list (style * list Z) :=
  match l with
  | [] => []
  | (k, v) :: r => if k =? y then v else lookup_spans y r
  end.

(* adjacent spans of one style merged *)
Fixpoint merge_spans (l : list (style * list Z)) : list (style * list Z) :=
  match l with
  | [] => []
  | (st, tx) :: r =>
      match merge_spans r with
      | (st2, tx2) :: rest => if style_eqb st st2 then (st, tx ++ tx2) :: rest else (st, tx) :: (st2, tx2) :: rest
      | [] => [(st, tx)]
      end
  end.

Definition span_eqb (a b : style * list Z) : bool :=
  style_eqb (fst a) (fst b) && list_eqb Z.eqb (snd a) (snd b).

Definition shadow_of (w h : Z) : screen :=
  mkScreen (zrepeat (blank_row w default_style) h) w h 0 0 0 0 0 (h - 1) false default_style 0 0 [].

(* rows of the rectangle the frontend will render for r *)
Definition render_rect (y : tty) (attach : bool) (sh : screen) (r : rect) : rect :=
  clamp_region (if attach then r else intersect r (tty_region y)) (sW sh) (sH sh).

Definition check_rows (c : tcs) (rc : rect) : Z * Z * Z :=
  let '(x, y0, x2, y2) := rc in
  if rect_empty rc then (0, 0, 0) else
  fold_left (fun acc yy =>
    let '(a, b, d) := acc in
    let row := row_at (k_shadow c) yy in
    let cutf := if cut_glyph x (x2 - x) row then 1 else 0 in
    if k_grid c then (a, b, Z.lor d cutf) else
    let want := map (fun r => (fst r, run_text (k_rp c) false (snd r))) (styled_line false x (x2 - x) row) in
    let got := merge_spans (lookup_spans yy (k_spans c)) in
    if list_eqb span_eqb want got then (a + 1, b, Z.lor d cutf) else (a, b + 1, Z.lor d cutf))
    (zseq y0 y2) (0, 0, 0).

Definition robust_line (c : tcs) (x w yy : Z) : list Z :=
  if k_grid c then screen_line (k_rp c) true (k_shadow c) x w yy
  else render_spans (lookup_spans yy (k_spans c)).

Definition run_line (c : tcs) (line : list Z) : tcs * list (list Z) :=
  let sh := k_shadow c in
  match line with
  | 110 :: bs =>
      if k_robust c then (c, []) else
      let inp := k_pend c ++ bs in
      let '(t', y', o, pend) := run_toks (S (length inp)) (wc_of (k_tbl c)) (k_grid c) (k_rp c) (k_t c) (k_tty c) inp in
      (upd_tty y' o (upd_t t' pend c), [])
  | 130 :: x :: y :: x2 :: y2 :: _ =>
      if k_robust c then
        let '(a, b, d) := check_rows c (render_rect (k_tty c) true sh (x, y, x2, y2)) in
        let '(y', o) := tty_attach_gen (k_rp c) (k_tty c) (sW sh) (sH sh) (robust_line c) (x, y, x2, y2) in
        (upd_spans [] (upd_cnt a b d (upd_tty y' o c)), [])
      else
        let '(y', o) := tty_attach_fx (k_rp c) (k_grid c) (k_tty c) (active (k_t c)) (x, y, x2, y2) in
        (upd_tty y' o c, [])
  | 131 :: _ => let '(y', o) := tty_detach_fx (k_tty c) in (upd_tty y' o c, [])
  | 132 :: _ => let '(y', o) := tty_focus_fx (k_rp c) (k_tty c) in (upd_tty y' o c, [])
  | 133 :: _ => let '(y', o) := tty_blur_fx (k_tty c) in (upd_tty y' o c, [])
  | 147 :: w :: h :: _ =>
      if k_robust c && negb ((sW sh =? w) && (sH sh =? h)) then (upd_shadow (shadow_of w h) c, []) else (c, [])
  | 145 :: y :: cells =>
      if k_robust c then (upd_shadow (set_rows (zupd y (dec_cells (length cells) cells) (rows sh)) sh) c, []) else (c, [])
  | 146 :: y :: sp =>
      if k_robust c then (upd_spans ((y, dec_spans (length sp) sp) :: k_spans c) c, []) else (c, [])
  | 141 :: x :: y :: x2 :: y2 :: _ =>
      if k_robust c then
        let live := attached (k_tty c) && hasterm (k_tty c) && hasout (k_tty c) in
        let '(a, b, d) := if live then check_rows c (render_rect (k_tty c) false sh (x, y, x2, y2)) else (0, 0, 0) in
        let '(y', o) := tty_region_changed_gen (k_rp c) (k_tty c) (sW sh) (sH sh) (robust_line c) (x, y, x2, y2) in
        (upd_spans [] (upd_cnt a b d (upd_tty y' o c)), [])
      else (c, [])
  | 142 :: x :: y :: _ =>
      if k_robust c then let '(y', o) := tty_cursor_moved_fx (k_rp c) (k_tty c) x y in (upd_tty y' o c, []) else (c, [])
  | 143 :: i :: v :: _ =>
      if k_robust c then let '(y', o) := tty_view_flag_fx (k_rp c) (k_tty c) i (negb (v =? 0)) in (upd_tty y' o c, []) else (c, [])
  | 150 :: _ =>
      (flush c, (200 :: k_acc c) :: (if k_robust c then [[201; k_ok c; k_bad c; k_cut c]] else []))
  | _ => (c, [])
  end.

Fixpoint run_lines (c : tcs) (lines : list (list Z)) : list (list Z) :=
  match lines with
  | [] => []
  | (100 :: mode :: grid :: w :: h :: _) :: (101 :: tbl) :: rest =>
      run_lines (mkTcs (init_term w h) [] tbl (negb (grid =? 0)) (k_robust c) (k_rp c)
                   (tty_new true) (shadow_of w h) [] [] 0 0 0) rest
  | l :: rest => let '(c', o) := run_line c l in o ++ run_lines c' rest
  end.

Definition run_tty (lines : list (list Z)) : list (list Z) :=
  match lines with
  | (99 :: robust :: rp :: _) :: rest =>
      run_lines (mkTcs (init_term 1 1) [] [] false (negb (robust =? 0)) (negb (rp =? 0))
                   (tty_new true) (shadow_of 1 1) [] [] 0 0 0) rest
  | _ => [[0]]
  end.
