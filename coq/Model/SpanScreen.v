(* Whole-screen model of the span buffer (type spanScreen of screen.go) and of
   the terminal that drives it, rune mode (TextReadModeRune).

   A screen is a list of span rows (Model/Span.v) plus the same header fields
   as the cell-level [screen] of Model/Screen.v.  Every method of spanScreen
   that input can reach is transcribed from screen.go with the row-level
   functions of Span.v: writeString (the piece-by-piece loop with
   clustersFitting), writeRun, rawWriteSpan (with the wideTailAt announcement),
   eraseRegion, scroll, moveCursor, setCursorPos, deleteChars, setSize,
   setScrollMarginTopBottom, save/restore cursor, setStyle, SetAutoWrap.  Go
   panics are [zcrash] values as in Screen.v; callbacks are logged in [zevs],
   newest first, in the order the Go code issues them.

   Unlike the cell model, text reaches the screen in RUNS: the reader
   (GraphemeReader.ReadPrintableBytes, rune mode) forms a run of whole runes
   limited by the maxWidth that ptyReadOne computed, and writeString writes the
   run.  [read_run] is the reader, [sterm]/[s_exec_tok]/[s_run_pending]/
   [s_hstep]/[s_run_hist] the terminal over span screens.

   Conventions shared with Screen.v/Term.v: Go int = Z; moveCursor's two wrap
   loops are written with mod and div; scroll's row-copy loops are written as
   list shifts (rows are values: Span.v explains why aliasing is not modelled).
   The finding marks [ztrig] are a device of the cell model (they mark the
   operations on which the span buffer is known to differ from it); the span
   model is the code itself and never sets them.  Definitions only. *)
From Coq Require Import List ZArith Bool.
From Termemu Require Import Base Style Screen Kbd Parser Term Span.
Import ListNotations.
Open Scope Z_scope.

Record sscreen := mkSS {
  zlines : list spanline;
  zW : Z; zH : Z;
  zcx : Z; zcy : Z;
  zsvx : Z; zsvy : Z;
  ztop : Z; zbot : Z;
  zawrap : bool;
  zsty : style;
  zcrash : Z;
  ztrig : Z;
  zevs : list event      (* newest first *)
}.

Definition z_set_lines r s := mkSS r (zW s) (zH s) (zcx s) (zcy s) (zsvx s) (zsvy s) (ztop s) (zbot s) (zawrap s) (zsty s) (zcrash s) (ztrig s) (zevs s).
Definition z_set_cur x y s := mkSS (zlines s) (zW s) (zH s) x y (zsvx s) (zsvy s) (ztop s) (zbot s) (zawrap s) (zsty s) (zcrash s) (ztrig s) (zevs s).
Definition z_set_saved x y s := mkSS (zlines s) (zW s) (zH s) (zcx s) (zcy s) x y (ztop s) (zbot s) (zawrap s) (zsty s) (zcrash s) (ztrig s) (zevs s).
Definition z_set_margins t b s := mkSS (zlines s) (zW s) (zH s) (zcx s) (zcy s) (zsvx s) (zsvy s) t b (zawrap s) (zsty s) (zcrash s) (ztrig s) (zevs s).
Definition z_set_awrap v s := mkSS (zlines s) (zW s) (zH s) (zcx s) (zcy s) (zsvx s) (zsvy s) (ztop s) (zbot s) v (zsty s) (zcrash s) (ztrig s) (zevs s).
Definition z_set_sty v s := mkSS (zlines s) (zW s) (zH s) (zcx s) (zcy s) (zsvx s) (zsvy s) (ztop s) (zbot s) (zawrap s) v (zcrash s) (ztrig s) (zevs s).
Definition z_set_crash v s := mkSS (zlines s) (zW s) (zH s) (zcx s) (zcy s) (zsvx s) (zsvy s) (ztop s) (zbot s) (zawrap s) (zsty s) v (ztrig s) (zevs s).
Definition z_set_evs v s := mkSS (zlines s) (zW s) (zH s) (zcx s) (zcy s) (zsvx s) (zsvy s) (ztop s) (zbot s) (zawrap s) (zsty s) (zcrash s) (ztrig s) v.
Definition z_emit e s := z_set_evs (e :: zevs s) s.
Definition z_set_dims r w h s := mkSS r w h (zcx s) (zcy s) (zsvx s) (zsvy s) (ztop s) (zbot s) (zawrap s) (zsty s) (zcrash s) (ztrig s) (zevs s).

Definition empty_line : spanline := mkLine [] 0.
Definition line_at (s : sscreen) (y : Z) : spanline := znth y (zlines s) empty_line.

(* a fresh buffer of the given size: every row one run of blanks *)
Definition s_init_screen (w h : Z) : sscreen :=
  mkSS (zrepeat (blank_span_line w default_style) h) w h 0 0 0 0 0 (h - 1) false default_style 0 0 [].

(* ---- findSpanAtX ---- *)
Fixpoint fsax (spans : list span) (i pos x : Z) : Z * Z :=
  match spans with
  | [] => (i, 0)                                   (* len(line.spans), 0 *)
  | sp :: rest =>
      let next := pos + sp_width sp in
      if x =? next then (i + 1, 0)
      else if x <? next then (i, x - pos)
      else fsax rest (i + 1) next x
  end.
Definition find_span_at_x (l : spanline) (x : Z) : Z * Z :=
  if x <=? 0 then (0, 0) else fsax (sl_spans l) 0 0 x.

Section WithOracle.
  Variable wc : Z -> Z.

  (* the cells of a span screen: what the harness's cell projection computes *)
  Definition abs_sscreen (s : sscreen) : screen :=
    mkScreen (map (abs_line wc) (zlines s)) (zW s) (zH s) (zcx s) (zcy s) (zsvx s) (zsvy s)
      (ztop s) (zbot s) (zawrap s) (zsty s) (zcrash s) (ztrig s) (zevs s).

  (* ---- wideTailAt: how many cells starting at x belong to a wide character
     that begins before x ---- *)
  Fixpoint wta_loop (fuel : nat) (text : list Z) (cellPos offset : Z) : Z :=
    match fuel with
    | O => 0
    | S f =>
        match text with
        | [] => 0
        | _ =>
            if cellPos <? offset then
              match step_cluster wc text with
              | None => 0
              | Some (_, k, w0) =>
                  let w := if w0 <? 0 then 0 else w0 in
                  if (cellPos <? offset) && (offset <? cellPos + w) then cellPos + w - offset
                  else wta_loop f (zskipn k text) (cellPos + w) offset
              end
            else 0
        end
    end.
  Definition wide_tail_at (l : spanline) (x : Z) : Z :=
    let '(idx, offset) := find_span_at_x l x in
    if (offset =? 0) || (zlen (sl_spans l) <=? idx) then 0 else
    let sp := znth idx (sl_spans l) empty_span in
    if negb (is_text sp) then 0
    else wta_loop (length (sp_text sp)) (sp_text sp) 0 offset.

  (* ---- setStyle, setCursorPos, save/restore, margins, SetAutoWrap ---- *)
  Definition s_set_style (st : style) (s : sscreen) : sscreen := z_emit (EStyle st) (z_set_sty st s).

  Definition s_set_cursor_pos (x y : Z) (s : sscreen) : sscreen :=
    let x' := clamp x 0 (zW s - 1) in
    let y' := clamp y 0 (zH s - 1) in
    z_emit (ECursor x' y') (z_set_cur x' y' s).

  Definition s_save_cursor (s : sscreen) : sscreen := z_set_saved (zcx s) (zcy s) s.
  Definition s_restore_cursor (s : sscreen) : sscreen :=
    z_emit (ECursor (zsvx s) (zsvy s)) (z_set_cur (zsvx s) (zsvy s) s).

  Definition s_set_scroll_margins (t b : Z) (s : sscreen) : sscreen :=
    if b <? t then s
    else z_set_margins (clamp t 0 (zH s - 1)) (clamp b 0 (zH s - 1)) s.

  (* ---- scroll(y1, y2, dy) ---- *)
  Definition s_scroll (y1 y2 dy : Z) (s : sscreen) : sscreen :=
    let y1 := clamp y1 0 (zH s - 1) in
    let y2 := clamp y2 0 (zH s - 1) in
    if y2 <? y1 then s else
    let h := y2 - y1 + 1 in
    let dy := if h <? dy then h else if dy <? - h then - h else dy in
    let R := zlines s in
    let br := blank_span_line (zW s) (zsty s) in
    if 0 <? dy then
      let R' := zfirstn y1 R ++ zrepeat br dy ++ zfirstn (h - dy) (zskipn y1 R) ++ zskipn (y2 + 1) R in
      z_emit (ERegion 0 y1 (zW s) (y1 + dy) crScroll)
        (z_emit (ERegion 0 (y1 + dy) (zW s) (y2 + 1) crScroll) (z_set_lines R' s))
    else
      let d := - dy in
      let R' := zfirstn y1 R ++ zfirstn (h - d) (zskipn (y1 + d) R) ++ zrepeat br d ++ zskipn (y2 + 1) R in
      z_emit (ERegion 0 (y2 - d + 1) (zW s) (y2 + 1) crScroll)
        (z_emit (ERegion 0 y1 (zW s) (y2 - d + 1) crScroll) (z_set_lines R' s)).

  (* ---- moveCursor(dx, dy, wrap, scroll): the two scroll tests are sequential ifs in the code ---- *)
  Definition s_move_cursor (dx dy : Z) (wrap scr : bool) (s : sscreen) : sscreen :=
    let startY := zcy s in
    let W := zW s in
    let '(x1, y1) :=
      if wrap && zawrap s then ((zcx s + dx) mod W, zcy s + (zcx s + dx) / W)
      else (clamp (zcx s + dx) 0 (W - 1), zcy s) in
    let y2 := y1 + dy in
    let inreg := (ztop s <=? startY) && (startY <=? zbot s) in
    let '(s1, y3) :=
      if scr && inreg then
        let '(sa, ya) := if y2 <? ztop s then (s_scroll (ztop s) (zbot s) (ztop s - y2) s, ztop s) else (s, y2) in
        if zbot sa <? ya then (s_scroll (ztop sa) (zbot sa) (zbot sa - ya) sa, zbot sa) else (sa, ya)
      else (s, y2) in
    let y4 := clamp y3 0 (zH s - 1) in
    z_emit (ECursor x1 y4) (z_set_cur x1 y4 s1).

  (* ---- rawWriteSpan(x, y, sp, cr) ---- *)
  Definition s_raw_write_span (x y : Z) (sp : span) (reason : Z) (s : sscreen) : sscreen :=
    if sp_width sp <=? 0 then s else
    if (y <? 0) || (zH s <=? y) || (zlen (zlines s) <=? y) then z_set_crash 1 s else
    let line := line_at s y in
    match raw_write_span wc (zW s) line x sp with
    | None => z_set_crash 1 s                      (* x+sp.Width > s.size.X *)
    | Some l' =>
        let tail := wide_tail_at line (x + sp_width sp) in
        let grew := zW s <? line_cell_width (replace_range wc line x (sp_width sp) sp) in
        let x2 := if grew then zW s else x + sp_width sp + tail in
        z_emit (ERegion x y x2 (y + 1) reason) (z_set_lines (zupd y l' (zlines s)) s)
    end.

  (* ---- eraseRegion(r, CRClear): Region.Clamp, then a run of blanks per row ---- *)
  Fixpoint s_erase_rows (reason : Z) (x : Z) (sp : span) (ys : list Z) (s : sscreen) : sscreen :=
    match ys with
    | [] => s
    | y :: r => s_erase_rows reason x sp r (s_raw_write_span x y sp reason s)
    end.
  Definition s_erase_region (x y x2 y2 : Z) (s : sscreen) : sscreen :=
    let x := clamp x 0 (zW s) in
    let y := clamp y 0 (zH s) in
    let x2 := clamp x2 x (zW s) in
    let y2 := clamp y2 y (zH s) in
    s_erase_rows crClear x (blank_span (zsty s) (x2 - x)) (zseq y y2) s.

  (* ---- deleteChars(x, y, n, CRClear) ---- *)
  Fixpoint from_loop (fuel : nat) (l : spanline) (from : Z) : Z :=
    match fuel with
    | O => from
    | S f => if (0 <? from) && (0 <? wide_tail_at l from) then from_loop f l (from - 1) else from
    end.
  Definition s_delete_chars (x y n : Z) (s : sscreen) : sscreen :=
    if (y <? 0) || (zH s <=? y) || (n <=? 0) then s else
    let n1 := if x <? 0 then n + x else n in
    let x1 := if x <? 0 then 0 else x in
    if (zW s <=? x1) || (n1 <=? 0) then s else
    let n2 := if zW s <? x1 + n1 then zW s - x1 else n1 in
    let line := line_at s y in
    let from := if zW s <=? x1 + n2 then from_loop (Z.to_nat x1) line x1 else x1 in
    z_emit (ERegion from y (zW s) (y + 1) crClear)
      (z_set_lines (zupd y (span_delete_chars wc (zW s) (zsty s) line x n) (zlines s)) s).

  (* ---- setSize(w, h) ---- *)
  Definition s_set_size (w h : Z) (s : sscreen) : sscreen :=
    if (w <=? 0) || (h <=? 0) then z_set_crash 2 s else
    let R' := map (fun y => if (y <? zH s) && nonempty (zlines s)
                            then resize_line wc (line_at s y) w (zsty s)
                            else blank_span_line w (zsty s)) (zseq 0 h) in
    let bot0 := h - (zH s - zbot s) in
    let s1 := z_set_dims R' w h s in
    let s2 := z_set_cur (clamp (zcx s) 0 (w - 1)) (clamp (zcy s) 0 (h - 1)) s1 in
    let s3 := z_set_saved (clamp (zsvx s) 0 (w - 1)) (clamp (zsvy s) 0 (h - 1)) s2 in
    let bot1 := clamp bot0 0 (h - 1) in
    let '(t', b') := if bot1 <? ztop s then (0, h - 1) else (ztop s, bot1) in
    s_set_style (zsty s) (z_set_margins t' b' s3).

  (* ---- writeRun(text, width) ---- *)
  Definition s_write_run (text : list Z) (width : Z) (s : sscreen) : sscreen :=
    if negb (zcrash s =? 0) then s else
    let width := if zW s <? width then zW s else width in
    let s1 :=
      if zW s <? zcx s + width then
        if zawrap s then s_move_cursor (- zcx s) 1 false true s
        else z_set_cur (zW s - width) (zcy s) s
      else s in
    let s2 := s_raw_write_span (zcx s1) (zcy s1) (mk_span (zsty s1) text 0 width) crText s1 in
    if negb (zcrash s2 =? 0) then s2 else s_move_cursor width 0 true true s2.

  (* ---- writeString(text, width, false, TextReadModeRune): write what fits, piece by piece ---- *)
  Fixpoint ws_loop (fuel : nat) (text : list Z) (width : Z) (s : sscreen) : sscreen :=
    match fuel with
    | O => s_write_run text width s
    | S f =>
        if negb (zcrash s =? 0) then s else
        if zW s <? zcx s + width then
          let '(n, w) := clusters_fitting wc text (zW s - zcx s) in
          if (n <=? 0) || (zlen text <=? n) then s_write_run text width s
          else
            let s1 := s_write_run (zfirstn n text) w s in
            let width' := if width - w <? 1 then 1 else width - w in
            ws_loop f (zskipn n text) width' s1
        else s_write_run text width s
    end.
  Definition s_write_string (text : list Z) (width : Z) (s : sscreen) : sscreen :=
    if negb (nonempty text) then s else
    ws_loop (length text) text (if width <? 1 then 1 else width) s.

  (* ---- the reader: ptyReadOne's maxWidth and ReadPrintableBytes(maxWidth), rune mode ---- *)
  Definition max_width (s : sscreen) : Z :=
    if zawrap s then (let m := zW s - zcx s in if m <? 1 then 1 else m) else 0.

  (* the run loop over the buffered bytes: (bytes taken, cells).  It stops at the
     end of the buffer, before a control byte, at an incomplete rune and when the
     next rune would exceed maxWidth (never before the first rune) *)
  Fixpoint rr_loop (fuel : nat) (buf : list Z) (idx used maxw : Z) : Z * Z :=
    match fuel with
    | O => (idx, used)
    | S f =>
        match buf with
        | [] => (idx, used)
        | b :: _ =>
            if negb (is_printable b) then (idx, used) else
            match step_cluster wc buf with
            | None => (idx, used)
            | Some (_, k, w) =>
                if (0 <? maxw) && (maxw <? used + w) && (0 <? used) then (idx, used)
                else rr_loop f (zskipn k buf) (idx + k) (used + w) maxw
            end
        end
    end.
  Definition read_run (maxw : Z) (buf : list Z) : Z * Z := rr_loop (length buf) buf 0 0 maxw.
End WithOracle.

(* ================= the terminal over span screens ================= *)
Record sterm := mkSTerm {
  smain : sscreen; salt : sscreen; sonalt : bool;
  svflags : list bool; svints : list Z; svstrs : list (list Z);
  skbm : kbd; skba : kbd;
  sout : list Z;         (* bytes written to the application, in order *)
  slog : list event      (* frontend callbacks, newest first *)
}.

Definition s_init_term (w h : Z) : sterm :=
  mkSTerm (s_init_screen w h) (s_init_screen w h) false
    [false; false; false; false; false; false] [0; 0; 0] [[]; []; []]
    kbd0 kbd0 [] [].

Definition s_active (t : sterm) : sscreen := if sonalt t then salt t else smain t.
Definition s_set_active (s : sscreen) (t : sterm) : sterm :=
  if sonalt t
  then mkSTerm (smain t) s (sonalt t) (svflags t) (svints t) (svstrs t) (skbm t) (skba t) (sout t) (slog t)
  else mkSTerm s (salt t) (sonalt t) (svflags t) (svints t) (svstrs t) (skbm t) (skba t) (sout t) (slog t).
Definition s_on_screen (f : sscreen -> sscreen) (t : sterm) : sterm :=
  let s := f (z_set_evs [] (s_active t)) in
  let t' := s_set_active (z_set_evs [] s) t in
  mkSTerm (smain t') (salt t') (sonalt t') (svflags t') (svints t') (svstrs t') (skbm t') (skba t') (sout t')
    (zevs s ++ slog t').
Definition s_log_ev (e : event) (t : sterm) : sterm :=
  mkSTerm (smain t) (salt t) (sonalt t) (svflags t) (svints t) (svstrs t) (skbm t) (skba t) (sout t) (e :: slog t).
Definition s_reply (bs : list Z) (t : sterm) : sterm :=
  mkSTerm (smain t) (salt t) (sonalt t) (svflags t) (svints t) (svstrs t) (skbm t) (skba t) (sout t ++ bs) (slog t).
Definition s_set_vflag (i : Z) (v : bool) (t : sterm) : sterm :=
  s_log_ev (EFlag i v)
    (mkSTerm (smain t) (salt t) (sonalt t) (zupd i v (svflags t)) (svints t) (svstrs t) (skbm t) (skba t) (sout t) (slog t)).
Definition s_set_vint (i v : Z) (t : sterm) : sterm :=
  s_log_ev (EInt i v)
    (mkSTerm (smain t) (salt t) (sonalt t) (svflags t) (zupd i v (svints t)) (svstrs t) (skbm t) (skba t) (sout t) (slog t)).
Definition s_set_vstr (i : Z) (v : list Z) (t : sterm) : sterm :=
  s_log_ev (EStr i v)
    (mkSTerm (smain t) (salt t) (sonalt t) (svflags t) (svints t) (zupd i v (svstrs t)) (skbm t) (skba t) (sout t) (slog t)).
Definition s_active_kbd (t : sterm) : kbd := if sonalt t then skba t else skbm t.
Definition s_on_kbd (f : kbd -> kbd) (t : sterm) : sterm :=
  if sonalt t
  then mkSTerm (smain t) (salt t) (sonalt t) (svflags t) (svints t) (svstrs t) (skbm t) (f (skba t)) (sout t) (slog t)
  else mkSTerm (smain t) (salt t) (sonalt t) (svflags t) (svints t) (svstrs t) (f (skbm t)) (skba t) (sout t) (slog t).

Definition s_crashed (t : sterm) : bool := negb (zcrash (smain t) =? 0) || negb (zcrash (salt t) =? 0).

(* switchScreen *)
Definition s_switch_screen (t : sterm) : sterm :=
  let t1 := mkSTerm (smain t) (salt t) (negb (sonalt t)) (svflags t) (svints t) (svstrs t) (skbm t) (skba t) (sout t) (slog t) in
  let s := s_active t1 in
  s_log_ev (EStyle (zsty s)) (s_log_ev (ECursor (zcx s) (zcy s))
    (s_log_ev (ERegion 0 0 (zW s) (zH s) crScreenSwitch) t1)).

Section Term.
  Variable wc : Z -> Z.

  (* Terminal.Resize: both buffers, main first, then cursor and rendition of the shown one *)
  Definition s_resize (w h : Z) (t : sterm) : sterm :=
    let m := s_set_size wc w h (z_set_evs [] (smain t)) in
    let a := s_set_size wc w h (z_set_evs [] (salt t)) in
    let t1 := mkSTerm (z_set_evs [] m) (z_set_evs [] a) (sonalt t) (svflags t) (svints t) (svstrs t) (skbm t) (skba t) (sout t)
      (zevs a ++ zevs m ++ slog t) in
    let s := s_active t1 in
    s_log_ev (EStyle (zsty s)) (s_log_ev (ECursor (zcx s) (zcy s)) t1).

  (* ---- C0 controls (ptyReadOne) ---- *)
  Definition s_exec_c0 (b : Z) (t : sterm) : sterm :=
    if b =? 7 then s_log_ev EBell t
    else if (b =? 8) || (b =? 127) then s_on_screen (s_move_cursor (-1) 0 false false) t
    else if b =? 9 then
      s_on_screen (fun s => s_set_cursor_pos ((zcx s / 8 + 1) * 8) (zcy s) s) t
    else if b =? 10 then
      s_on_screen (fun s => s_move_cursor 0 1 true true (s_set_cursor_pos 0 (zcy s) s)) t
    else if b =? 12 then s_on_screen (s_move_cursor 0 1 false true) t
    else if b =? 13 then s_on_screen (fun s => s_move_cursor (- zcx s) 0 true true s) t
    else t.

  (* ---- two-byte escapes (handleCommand) ---- *)
  Definition s_exec_esc (b : Z) (t : sterm) : sterm :=
    if b =? 68 then s_on_screen (s_move_cursor 0 1 false true) t
    else if b =? 77 then s_on_screen (s_move_cursor 0 (-1) false true) t
    else if b =? 61 then s_set_vflag vfAppKeypad true t
    else if b =? 62 then s_set_vflag vfAppKeypad false t
    else t.

  Definition s_dec_mode (v : bool) (p : Z) (t : sterm) : sterm :=
    if p =? 1 then s_set_vflag vfAppCursorKeys v t
    else if p =? 7 then s_on_screen (z_set_awrap v) t
    else if p =? 9 then s_set_vint viMouseMode (if v then mmPress else mmNone) t
    else if p =? 12 then s_set_vflag vfBlinkCursor v t
    else if p =? 25 then s_set_vflag vfShowCursor v t
    else if p =? 1000 then s_set_vint viMouseMode (if v then mmPressRelease else mmNone) t
    else if p =? 1002 then s_set_vint viMouseMode (if v then mmPressReleaseMove else mmNone) t
    else if p =? 1003 then s_set_vint viMouseMode (if v then mmPressReleaseMoveAll else mmNone) t
    else if p =? 1004 then s_set_vflag vfReportFocus v t
    else if p =? 1005 then s_set_vint viMouseEncoding (if v then meUTF8 else meX10) t
    else if p =? 1006 then s_set_vint viMouseEncoding (if v then meSGR else meX10) t
    else if p =? 1015 then s_set_vint viMouseEncoding (if v then meUTF8 else meX10) t
    else if p =? 1049 then (if Bool.eqb (sonalt t) v then t else s_switch_screen t)
    else if p =? 2004 then s_set_vflag vfBracketedPaste v t
    else t.

  Definition s_exec_csi_plain (ps : list Z) (f : Z) (t : sterm) : sterm :=
    let s := s_active t in
    let n1 := p0 ps 1 in
    if f =? 65 then s_on_screen (s_move_cursor 0 (- n1) false false) t
    else if f =? 66 then s_on_screen (s_move_cursor 0 n1 false false) t
    else if f =? 67 then s_on_screen (s_move_cursor n1 0 false false) t
    else if f =? 68 then s_on_screen (s_move_cursor (- n1) 0 false false) t
    else if f =? 71 then s_on_screen (fun s => s_set_cursor_pos (n1 - 1) (zcy s) s) t
    else if f =? 99 then (if p0 ps 0 =? 0 then s_reply da1_reply t else t)
    else if f =? 100 then s_on_screen (fun s => s_set_cursor_pos (zcx s) (n1 - 1) s) t
    else if (f =? 102) || (f =? 72) then
      s_on_screen (s_set_cursor_pos (p1 ps 1 - 1) (p0 ps 1 - 1)) t
    else if f =? 109 then s_on_screen (fun s => s_set_style (sgr_apply ps (zsty s)) s) t
    else if f =? 115 then s_on_screen s_save_cursor t
    else if f =? 117 then s_on_screen s_restore_cursor t
    else if f =? 75 then
      let p := p0 ps 0 in
      if p =? 0 then s_on_screen (fun s => s_erase_region wc (zcx s) (zcy s) (zW s) (zcy s + 1) s) t
      else if p =? 1 then s_on_screen (fun s => s_erase_region wc 0 (zcy s) (zcx s + 1) (zcy s + 1) s) t
      else if p =? 2 then s_on_screen (fun s => s_erase_region wc 0 (zcy s) (zW s) (zcy s + 1) s) t
      else t
    else if f =? 74 then
      let p := p0 ps 0 in
      if p =? 0 then
        s_on_screen (fun s =>
          let s1 := s_erase_region wc (zcx s) (zcy s) (zW s) (zcy s + 1) s in
          if zcy s + 1 <? zH s then s_erase_region wc 0 (zcy s + 1) (zW s) (zH s) s1 else s1) t
      else if p =? 1 then
        s_on_screen (fun s =>
          let s1 := if 0 <? zcy s then s_erase_region wc 0 0 (zW s) (zcy s) s else s in
          s_erase_region wc 0 (zcy s) (zcx s + 1) (zcy s + 1) s1) t
      else if p =? 2 then
        s_on_screen (fun s => s_set_cursor_pos 0 0 (s_erase_region wc 0 0 (zW s) (zH s) s)) t
      else t
    else if f =? 76 then
      s_on_screen (fun s => if (ztop s <=? zcy s) && (zcy s <=? zbot s) then s_scroll (zcy s) (zbot s) n1 s else s) t
    else if f =? 77 then
      s_on_screen (fun s => if (ztop s <=? zcy s) && (zcy s <=? zbot s) then s_scroll (zcy s) (zbot s) (- n1) s else s) t
    else if f =? 83 then s_on_screen (fun s => s_scroll (ztop s) (zbot s) (- n1) s) t
    else if f =? 84 then s_on_screen (fun s => s_scroll (ztop s) (zbot s) n1 s) t
    else if f =? 80 then s_on_screen (fun s => s_delete_chars wc (zcx s) (zcy s) n1 s) t
    else if f =? 88 then
      s_on_screen (fun s => s_erase_region wc (zcx s) (zcy s) (zcx s + n1) (zcy s + 1) s) t
    else if f =? 114 then
      s_on_screen (fun s => s_set_scroll_margins (p0 ps 1 - 1) (p1 ps (zH s) - 1) s) t
    else if f =? 110 then
      let p := p0 ps 0 in
      if p =? 5 then s_reply dsr_ok_reply t
      else if p =? 6 then s_reply (cpr_reply (zcy s + 1) (zcx s + 1)) t
      else t
    else t.

  Definition s_exec_csi (prefix : Z) (ps : list Z) (f : Z) (t : sterm) : sterm :=
    if prefix =? 0 then s_exec_csi_plain ps f t
    else if prefix =? 63 then
      if f =? 117 then s_reply (kbd_query_reply (kflags (s_active_kbd t))) t
      else if f =? 104 then fold_left (fun t p => s_dec_mode true p t) ps t
      else if f =? 108 then fold_left (fun t p => s_dec_mode false p t) ps t
      else t
    else if prefix =? 62 then
      if f =? 99 then s_reply da2_reply t
      else if f =? 109 then
        let mode := mok_scan ps (-1) in
        if 0 <=? mode then s_set_vint viModifyOtherKeys mode t else t
      else if f =? 117 then s_on_kbd (kbd_push (p0 ps 0)) t
      else t
    else if prefix =? 60 then
      if f =? 117 then s_on_kbd (kbd_pop (p0 ps 1)) t else t
    else if prefix =? 61 then
      if f =? 117 then s_on_kbd (kbd_update (p0 ps 0) (p1 ps 1)) t else t
    else t.

  Definition s_exec_osc (num : Z) (payload : list Z) (t : sterm) : sterm :=
    if (num =? 0) || (num =? 2) then s_set_vstr vsWindowTitle payload t
    else if num =? 6 then s_set_vstr vsCurrentDirectory payload t
    else if num =? 7 then s_set_vstr vsCurrentFile payload t
    else t.

  (* a run of printable text: bw.writeString(data, width, false, mode) on the active buffer *)
  Definition s_exec_run (text : list Z) (width : Z) (t : sterm) : sterm :=
    s_on_screen (s_write_string wc text width) t.

  (* every token but printable text; the span terminal never sees [TGlyph] (text
     arrives in runs), the case is there for totality: a run of one glyph *)
  Definition s_exec_tok (k : tok) (t : sterm) : sterm :=
    match k with
    | TGlyph txt r w => s_exec_run txt (glyph_width w) t
    | TC0 b => s_exec_c0 b t
    | TEsc b => s_exec_esc b t
    | TIgnore => t
    | TCsi prefix ps f => s_exec_csi prefix ps f t
    | TOsc num payload => s_exec_osc num payload t
    end.

  (* One iteration is one ptyReadOne.  [mw] is the maxWidth of the iteration when
     it continues a call that was blocked for input (computed before the loop
     blocked, possibly before a Resize); otherwise it is computed from the active
     buffer now.  Returns the terminal, the bytes still pending and the
     maxWidth the blocked call holds. *)
  Fixpoint s_run_pending (fuel : nat) (mw : option Z) (t : sterm) (inp : list Z) : sterm * list Z * option Z :=
    match fuel with
    | O => (t, inp, mw)
    | S f =>
        if s_crashed t then (t, inp, mw) else
        let m := match mw with Some m => m | None => max_width (s_active t) end in
        match inp with
        | [] => (t, inp, Some m)                                  (* blocks in ReadPrintableBytes *)
        | b :: _ =>
            if is_printable b then
              let '(n, w) := read_run wc m inp in
              if n <=? 0 then (t, inp, Some m)                     (* incomplete first rune: blocks *)
              else s_run_pending f None (s_exec_run (zfirstn n inp) w t) (zskipn n inp)
            else
              match parse_one wc false inp with
              | PMore => (t, inp, Some m)                          (* blocks inside the escape sequence *)
              | PTok k rest => s_run_pending f None (s_exec_tok k t) rest
              end
        end
    end.

  Definition s_run_bytes (mw : option Z) (t : sterm) (inp : list Z) : sterm * list Z * option Z :=
    s_run_pending (S (length inp)) mw t inp.

  (* histories: the state is the terminal, the pending bytes, and the maxWidth of the blocked read *)
  Definition s_hstep (st : sterm * list Z * option Z) (o : hop) : sterm * list Z * option Z :=
    let '(t, pend, mw) := st in
    match o with
    | HFeed bs => s_run_bytes mw t (pend ++ bs)
    | HResize w h => if s_crashed t then st else (s_resize w h t, pend, mw)
    end.

  (* the loop starts before the first operation: it has computed maxWidth from the fresh terminal *)
  Definition s_run_hist_from (mw : option Z) (t : sterm) (ops : list hop) : sterm * list Z * option Z :=
    fold_left s_hstep ops (t, [], mw).
  Definition s_run_hist (t : sterm) (ops : list hop) : sterm * list Z * option Z :=
    s_run_hist_from (Some (max_width (s_active t))) t ops.

  Definition abs_sterm (t : sterm) : term :=
    mkTerm (abs_sscreen wc (smain t)) (abs_sscreen wc (salt t)) (sonalt t)
      (svflags t) (svints t) (svstrs t) (skbm t) (skba t) (sout t) (slog t).
End Term.
