(* ANSILine(y) / Line(y) at cell level (gridScreen.renderLineANSI,
   spanScreen.renderLineANSI, getLine).  Definitions only. *)
From Coq Require Import List ZArith Bool.
From Termemu Require Import Base Style Screen.
Import ListNotations.
Open Scope Z_scope.

(* For each maximal run of cells of equal style: the full escape for that style
   (ESC[0m first, so runs are independent of each other), then the text of the
   cells.  A continuation cell has empty text and contributes nothing; it
   belongs to the run its style puts it in.  [prev] is the style of the run we
   are in, None at the start of the line. *)
Fixpoint render_from (prev : option style) (row : list cell) : list Z :=
  match row with
  | [] => []
  | c :: r =>
      let same := match prev with Some p => style_eqb p (cst c) | None => false end in
      (if same then [] else ansi_escape (cst c)) ++ ctext c ++ render_from (Some (cst c)) r
  end.

Definition render_line_ansi (row : list cell) : list Z := render_from None row.

(* spanScreen.Line(y): the text of the cells, nothing else *)
Definition line_text (row : list cell) : list Z := flat_map ctext row.

(* gridScreen.Line(y): a continuation cell (rune 0) is printed as a space *)
Definition line_text_grid (row : list cell) : list Z :=
  flat_map (fun c => if is_cont c then [32] else ctext c) row.

(* drop every ESC ... m sequence (bytes from ESC up to and including the next 'm') *)
Fixpoint strip_aux (inesc : bool) (l : list Z) : list Z :=
  match l with
  | [] => []
  | b :: r =>
      if inesc then (if b =? 109 then strip_aux false r else strip_aux true r)
      else if b =? 27 then strip_aux true r
      else b :: strip_aux false r
  end.
Definition strip_sgr (l : list Z) : list Z := strip_aux false l.

(* the same line as the list of its runs: (style, cells) *)
Fixpoint runs_from (cur : option (style * list cell)) (row : list cell) : list (style * list cell) :=
  match row with
  | [] => match cur with Some run => [run] | None => [] end
  | c :: r =>
      match cur with
      | Some (st, cs) =>
          if style_eqb st (cst c) then runs_from (Some (st, cs ++ [c])) r
          else (st, cs) :: runs_from (Some (cst c, [c])) r
      | None => runs_from (Some (cst c, [c])) r
      end
  end.
Definition runs (row : list cell) : list (style * list cell) := runs_from None row.
Definition render_runs (rs : list (style * list cell)) : list Z :=
  flat_map (fun run => ansi_escape (fst run) ++ flat_map ctext (snd run)) rs.
