(* Span-level model of the default screen buffer's row-splicing core
   (screen.go: splitSpan, byteIndexForCell, replaceRange, insertSpan,
   truncateLine, resizeLine, lineCellWidth, blankSpanLine, spansWidth,
   clustersFitting and the row-level users rawWriteSpan, deleteChars,
   StyledLine, Line).  A row is a list of styled runs; a run either repeats one
   rune (Text == "") or holds flat UTF-8 bytes whose re-segmentation gives
   Width cells.  Rune mode only (TextReadModeRune): a cluster is one
   UTF-8-decoded rune.  Go slices alias and reuse capacity; the model returns
   new values (every holder of a row's backing array is assumed to be the row
   itself, which holds for spanScreen: scroll moves rows, setSize drops the old
   rows, StyledLine copies span values).  Definitions only. *)
From Coq Require Import List ZArith Bool.
From Termemu Require Import Base Style Screen Parser.
Import ListNotations.
Open Scope Z_scope.

Record span := mkSpan {
  sp_sty : style;
  sp_text : list Z;      (* Text, as bytes *)
  sp_istext : bool;      (* Text != ""; kept in step with sp_text by every constructor below *)
  sp_rune : Z;
  sp_width : Z
}.
Record spanline := mkLine { sl_spans : list span; sl_cache : Z }.

Definition nonempty {A} (l : list A) : bool := match l with [] => false | _ => true end.
Definition mk_span (st : style) (text : list Z) (r w : Z) : span := mkSpan st text (nonempty text) r w.
(* Go's zero Style has three zero words *)
Definition zero_style : style := mkStyle (CIdx 0) (CIdx 0) 0.
Definition empty_span : span := mkSpan zero_style [] false 0 0.   (* Span{} *)
Definition is_text (sp : span) : bool := nonempty (sp_text sp).   (* sp.Text != "" *)
Definition set_width (sp : span) (w : Z) : span :=
  mkSpan (sp_sty sp) (sp_text sp) (sp_istext sp) (sp_rune sp) w.
Definition set_text (sp : span) (t : list Z) (w : Z) : span := mk_span (sp_sty sp) t (sp_rune sp) w.
Definition blank_span (st : style) (w : Z) : span := mk_span st [] 32 w.   (* Span{Style: st, Rune: ' ', Width: w} *)

Fixpoint spans_width (l : list span) : Z :=
  match l with [] => 0 | sp :: r => sp_width sp + spans_width r end.

(* string(rune): utf8.AppendRune; invalid code points become U+FFFD *)
Definition encode_rune (r : Z) : list Z :=
  if (r <? 0) || (1114111 <? r) || ((55296 <=? r) && (r <=? 57343)) then [239; 191; 189]
  else if r <? 128 then [r]
  else if r <? 2048 then [192 + r / 64; 128 + r mod 64]
  else if r <? 65536 then [224 + r / 4096; 128 + (r / 64) mod 64; 128 + r mod 64]
  else [240 + r / 262144; 128 + (r / 4096) mod 64; 128 + (r / 64) mod 64; 128 + r mod 64].

Fixpoint concat_rep (s : list Z) (n : nat) : list Z :=   (* strings.Repeat(s, n) *)
  match n with O => [] | S k => s ++ concat_rep s k end.

Definition line_cell_width (l : spanline) : Z :=
  if negb (sl_cache l =? 0) || negb (nonempty (sl_spans l)) then sl_cache l
  else spans_width (sl_spans l).

Definition blank_span_line (w : Z) (st : style) : spanline := mkLine [blank_span st w] w.

Section WithOracle.
  (* uniseg.StringWidth(string(r)) *)
  Variable wc : Z -> Z.

  (* stepRuneCluster: None = not a full rune; Some (cluster, consumed, width) *)
  Definition cluster_width (r : Z) : Z := let w := wc r in if w <=? 0 then 1 else w.
  Definition step_cluster (buf : list Z) : option (list Z * Z * Z) :=
    match decode_rune buf with
    | None => None
    | Some (r, size, _) => Some (zfirstn size buf, size, cluster_width r)
    end.

  (* ---- splitSpan ---- *)
  (* the loop that looks for a wide cluster cut by the cell offset:
     Some (idx, cellPos, cluster, width) when one is found *)
  Fixpoint split_scan (fuel : nat) (buf : list Z) (idx cellPos off : Z) : option (Z * Z * list Z * Z) :=
    match fuel with
    | O => None
    | S f =>
        match buf with
        | [] => None
        | _ =>
            match step_cluster buf with
            | None => None
            | Some (c, k, w0) =>
                let w := if w0 <? 1 then 0 else w0 in
                let ce := cellPos + w in
                if (cellPos <? off) && (off <? ce) then
                  (if 1 <? w then Some (idx, cellPos, c, w) else None)
                else split_scan f (zskipn k buf) (idx + k) ce off
            end
        end
    end.

  Fixpoint bifc (fuel : nat) (buf : list Z) (idx width off : Z) : Z * Z :=
    match fuel with
    | O => (idx, width)
    | S f =>
        match buf with
        | [] => (idx, width)
        | _ =>
            if width <? off then
              match step_cluster buf with
              | None => (idx, width)
              | Some (_, k, w) => bifc f (zskipn k buf) (idx + k) (if 0 <? w then width + w else width) off
              end
            else (idx, width)
        end
    end.
  Definition byte_index_for_cell (text : list Z) (off : Z) : Z * Z :=
    if (off <=? 0) || negb (nonempty text) then (0, 0) else bifc (length text) text 0 0 off.

  (* (left, right, splitWide) *)
  Definition split_span (sp : span) (off : Z) : span * span * span :=
    if off <=? 0 then (empty_span, sp, empty_span)
    else if sp_width sp <=? off then (sp, empty_span, empty_span)
    else if negb (is_text sp) then
      (set_width sp off, set_width sp (sp_width sp - off), empty_span)
    else
      let text := sp_text sp in
      if sp_width sp =? zlen text then
        (set_text sp (zfirstn off text) off, set_text sp (zskipn off text) (sp_width sp - off), empty_span)
      else
        match split_scan (length text) text 0 0 off with
        | Some (idx, cellPos, c, w) =>
            (set_text sp (zfirstn idx text) cellPos,
             set_text sp (zskipn (idx + zlen c) text) (sp_width sp - (cellPos + w)),
             set_text sp c w)
        | None =>
            let '(bi, lw) := byte_index_for_cell text off in
            (set_text sp (zfirstn bi text) lw, set_text sp (zskipn bi text) (sp_width sp - lw), empty_span)
        end.

  (* ---- replaceRange ---- *)
  (* first loop: (startIdx, startOffset, pos, spans from index i on) *)
  Fixpoint scan_start (spans : list span) (i pos x : Z) : Z * Z * Z * list span :=
    match spans with
    | [] => (i, 0, pos, [])
    | sp :: rest =>
        let e := pos + sp_width sp in
        if x <? e then (i, x - pos, pos, spans) else scan_start rest (i + 1) e x
    end.
  (* second loop, continuing at the same index: (Some (endIdx, endOffset), pos, spans after i) *)
  Fixpoint scan_end (rem : list span) (i pos xn : Z) : option (Z * Z) * Z * list span :=
    match rem with
    | [] => (None, pos, [])
    | sp :: rest =>
        let e := pos + sp_width sp in
        if xn <=? e then (Some (i, xn - pos), e, rest) else scan_end rest (i + 1) e xn
    end.

  Definition opt_span (b : bool) (sp : span) : list span := if b then [sp] else [].

  (* the blanks appended to the insert when the end of the window cuts a wide cluster *)
  Definition fill_gap (ins : span) (wide_sty : style) (gap : Z) : span :=
    if sp_width ins =? 0 then blank_span wide_sty gap
    else if negb (is_text ins) && (sp_rune ins =? 32) then set_width ins (sp_width ins + gap)
    else if negb (is_text ins) then
      set_text ins (concat_rep (encode_rune (sp_rune ins)) (Z.to_nat (sp_width ins)) ++ zrepeat 32 gap)
        (sp_width ins + gap)
    else set_text ins (sp_text ins ++ zrepeat 32 gap) (sp_width ins + gap).

  (* the start of the window: split spans[startIdx] at startOffset.  Returns
     (insert, left, hasLeft).  [cutall] is  x+n >= totalWidth. *)
  Definition start_cut (sp : span) (startOffset : Z) (ins0 : span) (cutall : bool) : span * span * bool :=
    let '(left0, wideS) :=
      if 0 <? startOffset then (let '(lf, _, wd) := split_span sp startOffset in (lf, wd))
      else (empty_span, empty_span) in
    let hasLeft0 := 0 <? sp_width left0 in
    if (0 <? sp_width wideS) && (sp_width ins0 =? 0) && cutall then
      (* cutting the rest of the row away through a wide cluster: blank its cells before the cut *)
      (blank_span (sp_sty wideS) (startOffset - sp_width left0), left0, hasLeft0)
    else if 0 <? sp_width wideS then
      (* the window starts on the second half of a wide cluster: keep it, insert after it *)
      (if hasLeft0 then
         (ins0, set_text left0 (sp_text left0 ++ sp_text wideS) (sp_width left0 + sp_width wideS), true)
       else (ins0, wideS, true))
    else (ins0, left0, hasLeft0).

  (* the end of the window: split spans[endIdx] at endOffset.  Returns (insert, right, hasRight). *)
  Definition end_cut (esp : span) (endOffset : Z) (ins1 : span) : span * span * bool :=
    let '(rgt, wideE) :=
      if endOffset <? sp_width esp then (let '(_, rt, wd) := split_span esp endOffset in (rt, wd))
      else (empty_span, empty_span) in
    let ins :=
      if 0 <? sp_width wideE then fill_gap ins1 (sp_sty wideE) (sp_width esp - endOffset - sp_width rgt)
      else ins1 in
    (ins, rgt, 0 <? sp_width rgt).

  (* replaceRange after the boundaries have been located and clamped *)
  Definition rr_splice (l : spanline) (startIdx startOffset endIdx endOffset totalWidth x n : Z) (ins0 : span)
    : spanline :=
    let spans := sl_spans l in
    let sp := znth startIdx spans empty_span in
    let same := startIdx =? endIdx in
    if same && (startOffset =? 0) && (endOffset =? sp_width sp) && (0 <? sp_width ins0) then
      mkLine (zfirstn startIdx spans ++ ins0 :: zskipn (startIdx + 1) spans) (totalWidth - n + sp_width ins0)
    else if same && (sp_width ins0 =? n) && style_eqb (sp_sty sp) (sp_sty ins0)
            && negb (is_text sp) && negb (is_text ins0) && (sp_rune sp =? sp_rune ins0) then l
    else if same && (sp_width ins0 =? n) && style_eqb (sp_sty sp) (sp_sty ins0)
            && is_text sp && is_text ins0 && (sp_width sp =? zlen (sp_text sp))
            && (sp_width ins0 =? zlen (sp_text ins0)) then
      let sp' := set_text sp (zfirstn startOffset (sp_text sp) ++ sp_text ins0 ++ zskipn (startOffset + n) (sp_text sp))
                   (sp_width sp) in
      mkLine (zfirstn startIdx spans ++ sp' :: zskipn (startIdx + 1) spans) totalWidth
    else
    let '(ins1, lft, hasLeft) := start_cut sp startOffset ins0 (totalWidth <=? x + n) in
    let '(ins, rgt, hasRight) := end_cut (znth endIdx spans empty_span) endOffset ins1 in
    let res := zfirstn startIdx spans ++ opt_span hasLeft lft ++ opt_span (0 <? sp_width ins) ins
                 ++ opt_span hasRight rgt ++ zskipn (endIdx + 1) spans in
    mkLine res (spans_width res).

  Definition replace_range (l : spanline) (x0 n0 : Z) (ins0 : span) : spanline :=
    if (n0 =? 0) && (sp_width ins0 =? 0) then l else
    let spans := sl_spans l in
    if negb (nonempty spans) then mkLine [ins0] (sp_width ins0) else
    let len := zlen spans in
    let x1 := if x0 <? 0 then 0 else x0 in
    let n1 := if n0 <? 0 then 0 else n0 in
    let '(startIdx, startOffset, pos1, rem) := scan_start spans 0 0 x1 in
    let '(eo, pos2, after) := scan_end rem startIdx pos1 (x1 + n1) in
    let totalWidth := pos2 + spans_width after in
    let '(endIdx0, endOffset0) := match eo with Some p => p | None => (len - 1, 0) end in
    let x := if totalWidth <? x1 then totalWidth else x1 in
    let clampn := totalWidth <? x + n1 in
    let n := if clampn then totalWidth - x else n1 in
    let endIdx := if clampn then len - 1 else endIdx0 in
    let endOffset := if clampn then sp_width (znth (len - 1) spans empty_span) else endOffset0 in
    if (x =? 0) && (totalWidth <=? n) then
      mkLine (opt_span (0 <? sp_width ins0) ins0) (sp_width ins0)
    else if startIdx =? len then
      (if 0 <? sp_width ins0 then mkLine (spans ++ [ins0]) (totalWidth + sp_width ins0) else l)
    else rr_splice l startIdx startOffset endIdx endOffset totalWidth x n ins0.

  Definition insert_span (l : spanline) (x : Z) (ins : span) : spanline := replace_range l x 0 ins.

  Definition truncate_line (l : spanline) (width : Z) : spanline :=
    if width <=? 0 then mkLine [] 0
    else replace_range l width (line_cell_width l - width) empty_span.

  Definition resize_line (l : spanline) (width : Z) (st : style) : spanline :=
    let cur := line_cell_width l in
    if width <? cur then truncate_line l width
    else mkLine (if cur <? width then sl_spans l ++ [blank_span st (width - cur)] else sl_spans l) width.

  (* ---- row-level users; W is s.size.X ---- *)
  (* rawWriteSpan on row y < H: None = the range panic *)
  Definition raw_write_span (W : Z) (l : spanline) (x : Z) (sp : span) : option spanline :=
    if sp_width sp <=? 0 then Some l
    else if W <? x + sp_width sp then None
    else
      let l1 := replace_range l x (sp_width sp) sp in
      if W <? line_cell_width l1 then Some (truncate_line l1 W) else Some l1.
  (* right end of the region announced by rawWriteSpan *)
  Definition raw_write_x2 (W : Z) (l : spanline) (x : Z) (sp : span) : Z :=
    if W <? line_cell_width (replace_range l x (sp_width sp) sp) then W else x + sp_width sp.

  (* rawWriteRune(x, y, r, width) with style st *)
  Definition raw_write_rune (W : Z) (st : style) (l : spanline) (x r width : Z) : option spanline :=
    let width := if width <? 1 then 1 else width in
    if W <? x + width then None
    else
      let sp := if (width =? 1) && (r =? 32) then blank_span st 1 else mk_span st (encode_rune r) 0 width in
      Some (replace_range l x width sp).

  (* deleteChars(x, y, n) on a row 0 <= y < H, current style st *)
  Definition span_delete_chars (W : Z) (st : style) (l : spanline) (x n : Z) : spanline :=
    if n <=? 0 then l else
    let n := if x <? 0 then n + x else n in
    let x := if x <? 0 then 0 else x in
    if (W <=? x) || (n <=? 0) then l else
    let n := if W <? x + n then W - x else n in
    let l1 := replace_range l x n empty_span in
    let cur := line_cell_width l1 in
    if cur <? W then mkLine (sl_spans l1 ++ [blank_span st (W - cur)]) W else l1.

  (* clustersFitting(text, avail): (bytes, cells) of the longest prefix of whole
     clusters that fits, at least one cluster *)
  Fixpoint cf_loop (fuel : nat) (buf : list Z) (idx width avail : Z) : Z * Z :=
    match fuel with
    | O => (idx, width)
    | S f =>
        match buf with
        | [] => (idx, width)
        | _ =>
            match step_cluster buf with
            | None => (idx, width)
            | Some (_, k, w0) =>
                let w := if w0 <? 0 then 0 else w0 in
                if (0 <? idx) && (avail <? width + w) then (idx, width)
                else cf_loop f (zskipn k buf) (idx + k) (width + w) avail
            end
        end
    end.
  Definition clusters_fitting (text : list Z) (avail : Z) : Z * Z := cf_loop (length text) text 0 0 avail.

  (* StyledLine(x, w, y): the spans of cells [x, x+w), and the Width field *)
  Fixpoint styled_loop (spans : list span) (pos x w : Z) (acc : list span) : list span :=
    match spans with
    | [] => acc
    | sp :: rest =>
        let e := pos + sp_width sp in
        if e <=? x then styled_loop rest e x w acc
        else if x + w <=? pos then acc
        else
          let startO := zmax pos x in
          let endO := zmin e (x + w) in
          let width := endO - startO in
          let acc' :=
            if 0 <? width then
              let offset := startO - pos in
              if (offset =? 0) && (width =? sp_width sp) then acc ++ [sp]
              else
                let '(_, sub, _) := split_span sp offset in
                if width <? sp_width sub then (let '(keep, _, _) := split_span sub width in acc ++ [keep])
                else acc ++ [sub]
            else acc in
          styled_loop rest e x w acc'
    end.
  Definition styled_line (W : Z) (l : spanline) (x w : Z) : list span * Z :=
    let w := if (w <? 0) || (W <? x + w) then W - x else w in
    let w := if w <? 0 then 0 else w in
    (styled_loop (sl_spans l) 0 x w [], w).

  (* ---- abstraction to cells: what the harness's cell projection computes ---- *)
  Fixpoint seg_cells (fuel : nat) (st : style) (buf : list Z) : list cell :=
    match fuel with
    | O => []
    | S f =>
        match buf with
        | [] => []
        | _ =>
            match step_cluster buf with
            | None => map (fun b => mkCell [b] 1 st) buf     (* incomplete trailing bytes: one cell per byte *)
            | Some (c, k, w) => glyph_cells c w st ++ seg_cells f st (zskipn k buf)
            end
        end
    end.
  Definition abs_span (sp : span) : list cell :=
    if sp_width sp <=? 0 then []
    else if is_text sp then seg_cells (length (sp_text sp)) (sp_sty sp) (sp_text sp)
    else zrepeat (mkCell (encode_rune (sp_rune sp)) 1 (sp_sty sp)) (sp_width sp).
  Definition abs_spans (l : list span) : list cell := flat_map abs_span l.
  Definition abs_line (l : spanline) : list cell := abs_spans (sl_spans l).

  (* ---- well-formedness ---- *)
  (* the clusters of a text: None when it ends in an incomplete rune *)
  Fixpoint segs (fuel : nat) (buf : list Z) : option (list (list Z * Z)) :=
    match fuel with
    | O => match buf with [] => Some [] | _ => None end
    | S f =>
        match buf with
        | [] => Some []
        | _ =>
            match step_cluster buf with
            | None => None
            | Some (c, k, w) =>
                match segs f (zskipn k buf) with
                | None => None
                | Some r => Some ((c, w) :: r)
                end
            end
        end
    end.
  Definition clusters (text : list Z) : option (list (list Z * Z)) := segs (length text) text.
  Fixpoint cls_width (cls : list (list Z * Z)) : Z :=
    match cls with [] => 0 | (_, w) :: r => w + cls_width r end.

  (* a cluster that is the encoding of a Unicode scalar value *)
  Definition valid_cluster (c : list Z) : Prop :=
    exists r, decode_rune c = Some (r, zlen c, true).
  (* SafeText: every stored cluster is valid UTF-8, so splicing bytes next to it
     cannot re-combine into a different cluster *)
  Definition SafeText (text : list Z) : Prop :=
    exists cls, clusters text = Some cls /\ Forall (fun p => valid_cluster (fst p)) cls.

  Definition wf_span (sp : span) : Prop :=
    0 < sp_width sp /\ sp_istext sp = nonempty (sp_text sp) /\
    (is_text sp = true ->
       exists cls, clusters (sp_text sp) = Some cls /\ cls_width cls = sp_width sp).
  Definition wf_line (W : Z) (l : spanline) : Prop :=
    Forall wf_span (sl_spans l) /\ spans_width (sl_spans l) = W /\ sl_cache l = W.
  Definition safe_span (sp : span) : Prop := is_text sp = true -> SafeText (sp_text sp).
  Definition safe_line (l : spanline) : Prop := Forall safe_span (sl_spans l).
  (* a repeat-rune span whose rune occupies one cell (all the library creates: ' ') *)
  Definition narrow_rune (r : Z) : Prop :=
    step_cluster (encode_rune r) = Some (encode_rune r, zlen (encode_rune r), 1) /\ valid_cluster (encode_rune r).
  (* an insert: empty, or a well-formed span *)
  Definition wf_ins (ins : span) : Prop := sp_width ins = 0 \/ wf_span ins.

  (* width-oracle hypotheses the rune-mode fast path [Width == len(Text)] relies on *)
  Definition wc_multibyte : Prop :=
    forall buf r size v, decode_rune buf = Some (r, size, v) -> cluster_width r <= Z.max 1 (size - 1).
End WithOracle.

(* Line(y): the row as text, padded with spaces to W *)
Definition span_text (sp : span) : list Z :=
  if is_text sp then sp_text sp else concat_rep (encode_rune (sp_rune sp)) (Z.to_nat (sp_width sp)).
Definition line_text (W : Z) (l : spanline) : list Z :=
  flat_map span_text (sl_spans l) ++ zrepeat 32 (W - spans_width (sl_spans l)).
