(* The I/O layer (property C16): grapheme_reader.go (data/start/end, fill,
   ReadByte), the read loop of escapes.go as seen from the reader, the
   bufio.Reader that ptyReadLoop puts in front of the backend, TeeBackend,
   Terminal.Resize -> backend.SetSize and PTYBackend.SetSize.
   Terminal.Write is [Mouse.write_loop]; only its error kind is added here.
   Definitions only; proofs live in Proofs/IoProofs.v.

   Bytes are Z, byte strings list Z.  A Go slice expression data[a:b] is
   zfirstn (b - a) (zskipn a data); copy(dst, src) is [copy_into]. *)
From Coq Require Import List ZArith Bool.
From Termemu Require Import Base Screen Term Mouse.
Import ListNotations.
Open Scope Z_scope.

(* ================= the scripted backend ================= *)

(* One result of backend.Read: the bytes and whether an error came with them.
   ([], false) is a zero-length read, (bs, true) data together with an error,
   ([], true) an error/EOF without data. *)
Definition result := (list Z * bool)%type.
Definition script := list result.

(* Read(p) with len p = space.  A result larger than the space offered is
   delivered in pieces, its error with the last piece; an exhausted script
   reports EOF forever. *)
Definition script_read (space : Z) (s : script) : result * script :=
  match s with
  | [] => (([], true), [])
  | (bs, e) :: rest =>
      if zlen bs <=? space then ((bs, e), rest)
      else ((zfirstn space bs, false), (zskipn space bs, e) :: rest)
  end.

Definition script_bytes (s : script) : list Z := concat (map fst s).

(* ================= bufio.Reader.Read, literally =================
   b.buf[b.r:b.w] is [bbuf], b.err is [berr]; len(b.buf) is the parameter bsz
   (4096 in the Go code).
     if b.r == b.w {
       if b.err != nil { return 0, b.readErr() }
       if len(p) >= len(b.buf) { n, b.err = b.rd.Read(p); return n, b.readErr() }
       n, b.err = b.rd.Read(b.buf); if n == 0 { return 0, b.readErr() }; b.w += n }
     n = copy(p, b.buf[b.r:b.w]); b.r += n; return n, nil
   readErr returns b.err and clears it. *)
Record bufio := mkBufio { under : script; bbuf : list Z; berr : bool }.

(* the third component is the list of len(p) values the backend saw (0 or 1 call) *)
Definition bufio_read (bsz space : Z) (b : bufio) : result * bufio * list Z :=
  match bbuf b with
  | [] =>
      if berr b then (([], true), mkBufio (under b) [] false, [])
      else if bsz <=? space then
        let '(res, u) := script_read space (under b) in (res, mkBufio u [] false, [space])
      else
        let '(res, u) := script_read bsz (under b) in
        match fst res with
        | [] => (res, mkBufio u [] false, [bsz])
        | _ => ((zfirstn space (fst res), false), mkBufio u (zskipn space (fst res)) (snd res), [bsz])
        end
  | _ => ((zfirstn space (bbuf b), false), mkBufio (under b) (zskipn space (bbuf b)) (berr b), [])
  end.

(* what the GraphemeReader reads from: the backend itself (VerifNew with
   buffered = false) or a bufio.Reader around it (ptyReadLoop) *)
Inductive source := Direct (s : script) | Bufio (b : bufio).

Definition src_read (bsz space : Z) (src : source) : result * source * list Z :=
  match src with
  | Direct s => let '(res, s') := script_read space s in (res, Direct s', [space])
  | Bufio b => let '(res, b', asked) := bufio_read bsz space b in (res, Bufio b', asked)
  end.

(* every byte the source has not handed out yet, in order *)
Definition src_rest (src : source) : list Z :=
  match src with
  | Direct s => script_bytes s
  | Bufio b => bbuf b ++ script_bytes (under b)
  end.

(* ================= GraphemeReader ================= *)

(* data = [] stands for the nil slice of a fresh reader *)
Record reader := mkReader { data : list Z; rstart : Z; rend : Z }.
Definition reader0 : reader := mkReader [] 0 0.

Definition rcap (r : reader) : Z := zlen (data r).
Definition buffered (r : reader) : Z := rend r - rstart r.                     (* Buffered() *)
Definition pending (r : reader) : list Z :=                                    (* data[start:end] *)
  zfirstn (rend r - rstart r) (zskipn (rstart r) (data r)).

(* copy(dst, src): min(len dst, len src) elements *)
Definition copy_into (dst src : list Z) : list Z := zfirstn (zlen dst) src ++ zskipn (zlen src) dst.

Section Reader.
  Variable cap0 : Z.   (* graphemeReadBufferSize = 4096 *)
  Variable bsz : Z.    (* bufio's buffer size = 4096 *)

  (* if r.data == nil { r.data = make([]byte, graphemeReadBufferSize) } *)
  Definition alloc (r : reader) : reader :=
    match data r with
    | [] => mkReader (zrepeat 0 cap0) (rstart r) (rend r)
    | _ => r
    end.

  (* if r.start > 0 { if r.start == r.end { start, end = 0, 0 }
                      else { copy(r.data, r.data[r.start:r.end]); r.end -= r.start; r.start = 0 } } *)
  Definition compact (r : reader) : reader :=
    if 0 <? rstart r then
      if rstart r =? rend r then mkReader (data r) 0 0
      else mkReader (copy_into (data r) (pending r)) 0 (rend r - rstart r)
    else r.

  (* if r.end == len(r.data) { newBuf := make([]byte, len(r.data)*2); copy(newBuf, r.data[:r.end]); r.data = newBuf } *)
  Definition grow (r : reader) : reader :=
    if rend r =? zlen (data r) then
      mkReader (copy_into (zrepeat 0 (2 * zlen (data r))) (zfirstn (rend r) (data r))) (rstart r) (rend r)
    else r.

  Definition prep (r : reader) : reader := grow (compact (alloc r)).
  Definition space (r : reader) : Z := zlen (data r) - rend r.                  (* len(r.data[r.end:]) *)

  (* n, err := r.src.Read(r.data[r.end:]); if n > 0 { r.end += n } *)
  Definition store (r : reader) (bs : list Z) : reader :=
    mkReader (zfirstn (rend r) (data r) ++ copy_into (zskipn (rend r) (data r)) bs)
             (rstart r) (rend r + zlen bs).

  (* fill against a given read result (the function the queue theorem is about) *)
  Definition fill_with (r : reader) (res : result) : reader := store (prep r) (fst res).

  (* fill: returns the reader, the source, the read result (its second
     component is the error fill returns) and the len(p) values the backend saw *)
  Definition fill (r : reader) (src : source) : reader * source * result * list Z :=
    let r1 := prep r in
    let '(res, src', asked) := src_read bsz (space r1) src in
    (store r1 (fst res), src', res, asked).

  Definition advance (r : reader) (k : Z) : reader := mkReader (data r) (rstart r + k) (rend r).

  (* ReadByte: for Buffered() == 0 { err := fill(); if err != nil { if Buffered() == 0 { return 0, err }; break } }
     then b := data[start]; start++.  A zero-length read without error loops. *)
  Inductive rb_out := RbByte (b : Z) | RbErr | RbFuel.

  Fixpoint read_byte (fuel : nat) (r : reader) (src : source) : rb_out * reader * source :=
    if 0 <? buffered r then (RbByte (znth (rstart r) (data r) 0), advance r 1, src)
    else match fuel with
    | O => (RbFuel, r, src)
    | S f =>
        let '(r', src', res, _) := fill r src in
        if snd res then
          if buffered r' =? 0 then (RbErr, r', src')
          else (RbByte (znth (rstart r') (data r') 0), advance r' 1, src')
        else read_byte f r' src'
    end.
End Reader.

(* ================= the read loop =================
   The terminal is a parameter: [consume t inp] interprets as much of inp as
   the parser can without blocking and returns the unconsumed suffix
   (Term.run_bytes).  Between two fills the Go loop (ptyReadOne called until it
   has to read) does exactly that.  When the parser blocks, part of the
   unconsumed bytes has already been taken out of the reader with ReadByte (an
   unfinished escape sequence lives in handleCommand's locals: [infl]) and part
   is still in the buffer (an unfinished UTF-8 sequence stays in data[start:end]);
   [hold rest] says how many trailing bytes of rest stay in the buffer.
   The logical pending bytes of Term.hstep are infl ++ pending reader. *)

(* what the Go code does: a printable first byte means ReadPrintableBytes /
   ReadPrintableTokens blocked on an incomplete rune and took nothing *)
Definition go_hold (rest : list Z) : Z :=
  match rest with
  | b :: _ => if (32 <=? b) && negb (b =? 127) then zlen rest else 0
  | [] => 0
  end.

Inductive outcome :=
| Running
| StopErr       (* a read returned an error and no data: the error is returned, ptyReadLoop ends *)
| StopZeroRead  (* a read returned no data and no error while an incomplete rune was held:
                   ReadPrintable* return io.EOF (the defect; only with zero_eof = true) *)
| OutOfFuel.

Record event := mkEv {
  ev_used : list Z;    (* bytes interpreted in this iteration *)
  ev_res : result;     (* what the reader's Read returned *)
  ev_asked : list Z;   (* len(p) of the backend.Read calls made *)
  ev_cap : Z           (* len(r.data) after the fill *)
}.

Section Loop.
  Variable cap0 bsz : Z.
  Variable St : Type.
  Variable consume : St -> list Z -> St * list Z.
  Variable hold : list Z -> Z.
  Variable zero_eof : bool.   (* true: grapheme_reader.go as found; false: with patch D50 *)

  Record lstate := mkL { lt : St; infl : list Z; lr : reader; lsrc : source }.

  Definition logical_pending (s : lstate) : list Z := infl s ++ pending (lr s).

  Definition lstep (s : lstate) : outcome * lstate * event :=
    let inp := logical_pending s in
    let '(t', rest) := consume (lt s) inp in
    let used := zfirstn (zlen inp - zlen rest) inp in
    let k := clamp (hold rest) 0 (zmin (zlen rest) (buffered (lr s))) in
    let r1 := advance (lr s) (buffered (lr s) - k) in
    let '(r2, src', res, asked) := fill cap0 bsz r1 (lsrc s) in
    let s' := mkL t' (zfirstn (zlen rest - k) rest) r2 src' in
    let ev := mkEv used res asked (rcap r2) in
    let o := if snd res && (zlen (fst res) =? 0) then StopErr
             else if zero_eof && (zlen (fst res) =? 0) && (0 <? k) then StopZeroRead
             else Running in
    (o, s', ev).

  Fixpoint read_loop (fuel : nat) (s : lstate) : outcome * lstate * list event :=
    match fuel with
    | O => (OutOfFuel, s, [])
    | S f =>
        let '(o, s', ev) := lstep s in
        match o with
        | Running => let '(o', s'', evs) := read_loop f s' in (o', s'', ev :: evs)
        | _ => (o, s', [ev])
        end
    end.

  Definition consumed_of (tr : list event) : list Z := concat (map ev_used tr).
  Definition delivered_of (tr : list event) : list Z := concat (map (fun e => fst (ev_res e)) tr).
  Definition asked_of (tr : list event) : list Z := concat (map ev_asked tr).
End Loop.

(* fuel that always suffices: one iteration per script entry and per byte, plus one *)
Definition script_measure (s : script) : Z := fold_right (fun e acc => 1 + zlen (fst e) + acc) 0 s.
Definition src_measure (src : source) : Z :=
  match src with
  | Direct s => script_measure s
  | Bufio b => script_measure (under b) + zlen (bbuf b) + (if berr b then 1 else 0)
  end.
Definition loop_fuel (src : source) : nat := S (Z.to_nat (src_measure src)).

(* an entry at which the loop stops: an error without data *)
Definition is_stop (e : result) : bool := snd e && (zlen (fst e) =? 0).

(* ================= TeeBackend.Read =================
   n, err := backend.Read(p); if n > 0 && tee != nil { tee.Write(p[:n]) }; return n, err *)
Definition tee_read (res : result) (tee : list Z) : result * list Z :=
  (res, if 0 <? zlen (fst res) then tee ++ fst res else tee).
Fixpoint tee_run (rs : list result) (tee : list Z) : list result * list Z :=
  match rs with
  | [] => ([], tee)
  | res :: rest =>
      let '(res', tee1) := tee_read res tee in
      let '(out, tee2) := tee_run rest tee1 in (res' :: out, tee2)
  end.
(* SetTee while a read is in progress: the read loop spends its idle time blocked inside backend.Read, so a tee
   installed, replaced or removed from another goroutine takes effect for the bytes that read returns.  A history is a
   list of (read result, switch) where switch 0 = no SetTee during this read, 1 = SetTee(A), 2 = SetTee(B),
   3 = SetTee(nil); [cur] is the tee installed (1 A, 2 B, 3 none).  Returns the bytes A and B received. *)
Fixpoint tee_sw_run (rs : list (result * Z)) (cur : Z) (a b : list Z) : list Z * list Z :=
  match rs with
  | [] => (a, b)
  | (res, sw) :: rest =>
      let cur' := if sw =? 0 then cur else sw in
      let d := fst res in
      if 0 <? zlen d then
        if cur' =? 1 then tee_sw_run rest cur' (a ++ d) b
        else if cur' =? 2 then tee_sw_run rest cur' a (b ++ d)
        else tee_sw_run rest cur' a b
      else tee_sw_run rest cur' a b
  end.
(* specification: the tee in force at each read, then each tee gets the data of the reads it was in force at *)
Fixpoint tee_in_force (rs : list (result * Z)) (cur : Z) : list (list Z * Z) :=
  match rs with
  | [] => []
  | (res, sw) :: rest => let cur' := if sw =? 0 then cur else sw in (fst res, cur') :: tee_in_force rest cur'
  end.
Definition tee_gets (which : Z) (l : list (list Z * Z)) : list Z :=
  flat_map (fun p => if snd p =? which then fst p else []) l.

(* the number of tee.Write calls *)
Definition tee_writes (rs : list result) : Z := zlen (filter (fun r => 0 <? zlen (fst r)) rs).

(* ================= Terminal.Resize =================
   setSize on both buffers under the lock, then backend.SetSize(w, h); the
   second component is the list of SetSize calls the backend has received *)
Definition resize_forward (w h : Z) (t : term) (calls : list (Z * Z)) : term * list (Z * Z) :=
  (resize w h t, calls ++ [(w, h)]).

(* PTYBackend.SetSize: Winsize{Rows: uint16(h), Cols: uint16(w), X: uint16(w*8), Y: uint16(h*16)} *)
Definition u16 (v : Z) : Z := v mod 65536.
Definition pty_winsize (w h : Z) : Z * Z * Z * Z := (u16 h, u16 w, u16 (w * 8), u16 (h * 16)).
Definition ws_rows (x : Z * Z * Z * Z) : Z := fst (fst (fst x)).
Definition ws_cols (x : Z * Z * Z * Z) : Z := snd (fst (fst x)).

(* ================= Terminal.Write: the error kind =================
   0 = nil, 1 = the backend's error, 2 = io.ErrShortWrite (same recursion as Mouse.write_loop) *)
Fixpoint write_status (b : list Z) (script : list (Z * bool)) : Z :=
  match b with
  | [] => 0
  | _ =>
      match script with
      | [] => 0
      | (n, e) :: rest =>
          let n := clamp n 0 (zlen b) in
          if e then 1 else if n =? 0 then 2 else write_status (zskipn n b) rest
      end
  end.
(* the count Write returns *)
Definition write_count (b : list Z) (script : list (Z * bool)) : Z := zlen (fst (write_loop b script)).
