(* Model/Conc.v -- lock discipline model for property C15.

   Definitions only (proofs are in Proofs/ConcProofs.v).

   1. the event language produced by tools/gen_callgraph (one ordered event
      tree per Go function);
   2. a per-thread prefix semantics of event trees (relational, big-step, every
      finite prefix of every execution has a derivation) that records, for every
      observable action, the call stack and the set of mutexes held;
   3. the safety predicate on observations (the logical content of C15);
   4. an executable checker: a lean, proven part ([chk_*], [validate],
      [check_ids], [check]) and an unproven, instrumented part used to compute
      the context table and to explain failures ([walk_*], [compute_table],
      [check_explain]);
   5. an interleaving semantics of threads over their local traces, used to
      state mutual exclusion and absence of lock-wait cycles. *)

From Coq Require Import List Bool Arith String.
Import ListNotations.

(* ------------------------------------------------------------------------- *)
(** * Mutexes and held sets *)

Inductive mutex := MTerm | MTty | MTee.

Definition mutex_eqb (a b : mutex) : bool :=
  match a, b with
  | MTerm, MTerm | MTty, MTty | MTee, MTee => true
  | _, _ => false
  end.

(* The fixed total acquisition order: MTerm before MTty before MTee. *)
Definition mrank (m : mutex) : nat :=
  match m with MTerm => 0 | MTty => 1 | MTee => 2 end.

Definition all_mutexes : list mutex := [MTerm; MTty; MTee].

Record held := mkHeld { h_term : bool; h_tty : bool; h_tee : bool }.

Definition no_locks : held := mkHeld false false false.
Definition only (m : mutex) : held :=
  match m with
  | MTerm => mkHeld true false false
  | MTty => mkHeld false true false
  | MTee => mkHeld false false true
  end.

Definition holds (h : held) (m : mutex) : bool :=
  match m with MTerm => h_term h | MTty => h_tty h | MTee => h_tee h end.

Definition acq (h : held) (m : mutex) : held :=
  match m with
  | MTerm => mkHeld true (h_tty h) (h_tee h)
  | MTty => mkHeld (h_term h) true (h_tee h)
  | MTee => mkHeld (h_term h) (h_tty h) true
  end.

Definition rel (h : held) (m : mutex) : held :=
  match m with
  | MTerm => mkHeld false (h_tty h) (h_tee h)
  | MTty => mkHeld (h_term h) false (h_tee h)
  | MTee => mkHeld (h_term h) (h_tty h) false
  end.

Definition held_eqb (a b : held) : bool :=
  Bool.eqb (h_term a) (h_term b) && Bool.eqb (h_tty a) (h_tty b) && Bool.eqb (h_tee a) (h_tee b).

(* Acquiring [m] while holding [h] is allowed iff every held mutex is strictly
   before [m] in the order (in particular [m] itself is not held). *)
Definition lock_ok (h : held) (m : mutex) : bool :=
  forallb (fun m' => negb (holds h m') || (mrank m' <? mrank m)) all_mutexes.

(* ------------------------------------------------------------------------- *)
(** * Event language *)

Definition fid := nat.

Inductive ev :=
| Lock (m : mutex)
| Unlock (m : mutex)
| DeferUnlock (m : mutex)                 (* defer m.Unlock() *)
| WithLock (m : mutex) (body : list ev)   (* t.WithLock(func() { body }) *)
| Call (f : fid)                          (* static call of an in-package function *)
| CallIface (meth : string) (impls : list fid) (* interface call: any in-package implementer, or an opaque external one *)
| CallParam (name : string)               (* call of a func-typed parameter: client code *)
| Cb (name : string)                      (* Frontend callback invoked *)
| Block (what : string)                   (* potentially blocking read *)
| Access (g : mutex) (field : string) (w : bool) (* access to a field guarded by g *)
| Spawn (f : fid)                         (* go f() *)
| Branch (a b : list ev)
| Loop (body : list ev)                   (* catches Break and Continue *)
| Scope (body : list ev)                  (* switch: catches Break *)
| Return
| Break
| Continue
| Panic                                   (* panic(): the process terminates (no recover in the package) *)
| Unsupported (msg : string).             (* shape the translator does not understand *)

Definition callgraph := list (list ev).

(* ------------------------------------------------------------------------- *)
(** * Observations *)

Inductive action :=
| ALock (m : mutex)
| AUnlock (m : mutex)
| ACb (name : string)
| ABlock (what : string)
| AAccess (g : mutex) (field : string) (w : bool)
| ASpawn (f : fid)
| AClient (name : string)
| ABad (msg : string).

(* [o_stk] is the call stack, innermost function first. *)
Record obs := mkObs { o_stk : list fid; o_held : held; o_act : action }.

(* ------------------------------------------------------------------------- *)
(** * Per-thread prefix semantics *)

Definition state := (held * list mutex)%type.  (* held set, pending deferred unlocks (LIFO) *)

Inductive exitk := KRet | KBrk | KCont.

Inductive outcome :=
| ONorm (st : state)
| OExit (k : exitk) (st : state)
| OCut.                                   (* execution observed up to here only *)

(* Run the deferred unlocks of a frame. *)
Fixpoint run_defers (stk : list fid) (h : held) (d : list mutex) : list obs * held :=
  match d with
  | [] => ([], h)
  | m :: d' =>
      let (tr, h') := run_defers stk (rel h m) d' in
      (mkObs stk h (AUnlock m) :: tr, h')
  end.

Definition scope_outcome (o : outcome) : outcome :=
  match o with OExit KBrk st => ONorm st | _ => o end.

Definition frame_outcome (r : option held) (d : list mutex) : outcome :=
  match r with Some h => ONorm (h, d) | None => OCut end.

Section Semantics.
Variable cg : callgraph.

Inductive exec_ev : list fid -> held -> list mutex -> ev -> list obs -> outcome -> Prop :=
| X_Lock : forall stk h d m,
    exec_ev stk h d (Lock m) [mkObs stk h (ALock m)] (ONorm (acq h m, d))
| X_Unlock : forall stk h d m,
    exec_ev stk h d (Unlock m) [mkObs stk h (AUnlock m)] (ONorm (rel h m, d))
| X_Defer : forall stk h d m,
    exec_ev stk h d (DeferUnlock m) [] (ONorm (h, m :: d))
| X_WithLock : forall stk h d m body tr h1,
    exec_frame stk (acq h m) body tr (Some h1) ->
    exec_ev stk h d (WithLock m body)
      (mkObs stk h (ALock m) :: tr ++ [mkObs stk h1 (AUnlock m)])
      (ONorm (rel h1 m, d))
| X_WithLock_cut : forall stk h d m body tr,
    exec_frame stk (acq h m) body tr None ->
    exec_ev stk h d (WithLock m body) (mkObs stk h (ALock m) :: tr) OCut
| X_Call : forall stk h d f body tr r,
    nth_error cg f = Some body ->
    exec_frame (f :: stk) h body tr r ->
    exec_ev stk h d (Call f) tr (frame_outcome r d)
| X_Call_unknown : forall stk h d f,
    nth_error cg f = None ->
    exec_ev stk h d (Call f) [mkObs stk h (ABad "call of an unknown function")] OCut
| X_Iface_ext : forall stk h d meth impls,   (* implementer outside the package: opaque *)
    exec_ev stk h d (CallIface meth impls) [] (ONorm (h, d))
| X_Iface : forall stk h d meth impls f tr o,
    In f impls ->
    exec_ev stk h d (Call f) tr o ->
    exec_ev stk h d (CallIface meth impls) tr o
| X_CallParam : forall stk h d n,
    exec_ev stk h d (CallParam n) [mkObs stk h (AClient n)] (ONorm (h, d))
| X_Cb : forall stk h d n,
    exec_ev stk h d (Cb n) [mkObs stk h (ACb n)] (ONorm (h, d))
| X_Block : forall stk h d w,
    exec_ev stk h d (Block w) [mkObs stk h (ABlock w)] (ONorm (h, d))
| X_Access : forall stk h d g fld w,
    exec_ev stk h d (Access g fld w) [mkObs stk h (AAccess g fld w)] (ONorm (h, d))
| X_Spawn : forall stk h d f,
    exec_ev stk h d (Spawn f) [mkObs stk h (ASpawn f)] (ONorm (h, d))
| X_Branch_l : forall stk h d a b tr o,
    exec_list stk h d a tr o -> exec_ev stk h d (Branch a b) tr o
| X_Branch_r : forall stk h d a b tr o,
    exec_list stk h d b tr o -> exec_ev stk h d (Branch a b) tr o
| X_Loop_exit : forall stk h d body,
    exec_ev stk h d (Loop body) [] (ONorm (h, d))
| X_Loop_iter : forall stk h d body tr1 o1 h1 d1 tr2 o2,
    exec_list stk h d body tr1 o1 ->
    (o1 = ONorm (h1, d1) \/ o1 = OExit KCont (h1, d1)) ->
    exec_ev stk h1 d1 (Loop body) tr2 o2 ->
    exec_ev stk h d (Loop body) (tr1 ++ tr2) o2
| X_Loop_brk : forall stk h d body tr st,
    exec_list stk h d body tr (OExit KBrk st) ->
    exec_ev stk h d (Loop body) tr (ONorm st)
| X_Loop_ret : forall stk h d body tr st,
    exec_list stk h d body tr (OExit KRet st) ->
    exec_ev stk h d (Loop body) tr (OExit KRet st)
| X_Loop_cut : forall stk h d body tr,
    exec_list stk h d body tr OCut ->
    exec_ev stk h d (Loop body) tr OCut
| X_Scope : forall stk h d body tr o,
    exec_list stk h d body tr o ->
    exec_ev stk h d (Scope body) tr (scope_outcome o)
| X_Return : forall stk h d, exec_ev stk h d Return [] (OExit KRet (h, d))
| X_Break : forall stk h d, exec_ev stk h d Break [] (OExit KBrk (h, d))
| X_Continue : forall stk h d, exec_ev stk h d Continue [] (OExit KCont (h, d))
| X_Panic : forall stk h d, exec_ev stk h d Panic [] OCut
| X_Unsupported : forall stk h d msg,
    exec_ev stk h d (Unsupported msg) [mkObs stk h (ABad msg)] OCut

with exec_list : list fid -> held -> list mutex -> list ev -> list obs -> outcome -> Prop :=
| XL_nil : forall stk h d, exec_list stk h d [] [] (ONorm (h, d))
| XL_cut : forall stk h d es, exec_list stk h d es [] OCut
| XL_cons : forall stk h d e es tr1 h1 d1 tr2 o,
    exec_ev stk h d e tr1 (ONorm (h1, d1)) ->
    exec_list stk h1 d1 es tr2 o ->
    exec_list stk h d (e :: es) (tr1 ++ tr2) o
| XL_stop_exit : forall stk h d e es tr k st,
    exec_ev stk h d e tr (OExit k st) ->
    exec_list stk h d (e :: es) tr (OExit k st)
| XL_stop_cut : forall stk h d e es tr,
    exec_ev stk h d e tr OCut ->
    exec_list stk h d (e :: es) tr OCut

(* A frame: a function body (or the closure passed to WithLock) run with no
   pending defers; when it finishes, normally or by Return, its deferred
   unlocks run.  Break / Continue cannot leave a frame (no rule). *)
with exec_frame : list fid -> held -> list ev -> list obs -> option held -> Prop :=
| XF_done : forall stk h body tr o h1 d1 tr2 h2,
    exec_list stk h [] body tr o ->
    (o = ONorm (h1, d1) \/ o = OExit KRet (h1, d1)) ->
    run_defers stk h1 d1 = (tr2, h2) ->
    exec_frame stk h body (tr ++ tr2) (Some h2)
| XF_cut : forall stk h body tr,
    exec_list stk h [] body tr OCut ->
    exec_frame stk h body tr None.

Scheme exec_ev_ind3 := Minimality for exec_ev Sort Prop
  with exec_list_ind3 := Minimality for exec_list Sort Prop
  with exec_frame_ind3 := Minimality for exec_frame Sort Prop.
Combined Scheme exec_mutind from exec_ev_ind3, exec_list_ind3, exec_frame_ind3.

(* The local traces of a thread that runs function [f] starting with [h] held. *)
Definition thread_trace (f : fid) (h : held) (tr : list obs) : Prop :=
  exists body r, nth_error cg f = Some body /\ exec_frame [f] h body tr r.

End Semantics.

(* ------------------------------------------------------------------------- *)
(** * Safety of observations *)

Definition pair_mem (p : fid * fid) (l : list (fid * fid)) : bool :=
  existsb (fun q => Nat.eqb (fst p) (fst q) && Nat.eqb (snd p) (snd q)) l.

(* A stack (innermost first) is excepted when it contains a call edge
   caller -> callee listed in [exc]. *)
Fixpoint stk_excepted (exc : list (fid * fid)) (stk : list fid) : bool :=
  match stk with
  | callee :: ((caller :: _) as rest) => pair_mem (caller, callee) exc || stk_excepted exc rest
  | _ => false
  end.

Definition entry_mem (e : fid * held) (l : list (fid * held)) : bool :=
  existsb (fun q => Nat.eqb (fst e) (fst q) && held_eqb (snd e) (snd q)) l.

Section Safety.
Variable exc : list (fid * fid).          (* excepted call edges for Block under MTerm *)
Variable entries : list (fid * held).     (* checked thread entry points *)

Definition safe_obsb (o : obs) : bool :=
  let h := o_held o in
  match o_act o with
  | ALock m => lock_ok h m
  | AUnlock m => holds h m
  | ACb _ => holds h MTerm
  | ABlock _ => negb (holds h MTerm) || stk_excepted exc (o_stk o)
  | AAccess g _ _ => holds h g
  | ASpawn f => entry_mem (f, no_locks) entries
  | AClient _ => true
  | ABad _ => false
  end.

Definition safe_obs (o : obs) : Prop := safe_obsb o = true.
End Safety.

(* ------------------------------------------------------------------------- *)
(** * The checker (proven part) *)

Section FoldOpt.
Context {A S : Type} (f : S -> A -> option S).
Fixpoint fold_opt (st : S) (l : list A) {struct l} : option S :=
  match l with
  | [] => Some st
  | a :: l' => match f st a with Some st' => fold_opt st' l' | None => None end
  end.
End FoldOpt.

Fixpoint mutexes_eqb (a b : list mutex) : bool :=
  match a, b with
  | [], [] => true
  | x :: a', y :: b' => mutex_eqb x y && mutexes_eqb a' b'
  | _, _ => false
  end.

Definition state_eqb (a b : state) : bool :=
  held_eqb (fst a) (fst b) && mutexes_eqb (snd a) (snd b).

Definition ostate_is (o : option state) (st : state) : bool :=
  match o with Some s => state_eqb s st | None => false end.

(* A checking context: function, held set at its entry, "stack is excepted". *)
Definition key := (fid * held * bool)%type.

Definition key_eqb (a b : key) : bool :=
  let '(f, h, x) := a in let '(g, k, y) := b in
  Nat.eqb f g && held_eqb h k && Bool.eqb x y.

Definition key_mem (k : key) (T : list key) : bool := existsb (key_eqb k) T.

(* All deferred unlocks release held mutexes and leave exactly [entry]. *)
Fixpoint defers_ok (h : held) (d : list mutex) (entry : held) : bool :=
  match d with
  | [] => held_eqb h entry
  | m :: d' => holds h m && defers_ok (rel h m) d' entry
  end.

Record cctx := mkCtx {
  c_entry : held;                (* held set at frame entry = required after the frame's defers *)
  c_brk : option state;          (* state required at a Break *)
  c_cont : option state          (* state required at a Continue *)
}.

Section Checker.
Variable T : list key.                    (* contexts assumed (and separately validated) to be fine *)
Variable exc : list (fid * fid).
Variable entries : list (fid * held).

Definition call_ok (cur : fid) (ex : bool) (h : held) (f : fid) : bool :=
  key_mem (f, h, pair_mem (cur, f) exc || ex) T.

(* [chk_ev cur ex cx st e]: the state after [e] if every path through [e] is
   fine.  Discipline: every nested block (branch alternative, loop body, scope,
   closure) must be state-neutral; Return / Break / Continue do not change the
   state seen by the (dead) code after them. *)
Fixpoint chk_ev (cur : fid) (ex : bool) (cx : cctx) (st : state) (e : ev) {struct e} : option state :=
  let '(h, d) := st in
  let neutral (cx' : cctx) (st' : state) (body : list ev) : bool :=
    ostate_is (fold_opt (fun s e' => chk_ev cur ex cx' s e') st' body) st' in
  match e with
  | Lock m => if lock_ok h m then Some (acq h m, d) else None
  | Unlock m => if holds h m then Some (rel h m, d) else None
  | DeferUnlock m => Some (h, m :: d)
  | WithLock m body =>
      if lock_ok h m
         && match fold_opt (fun s e' => chk_ev cur ex (mkCtx (acq h m) None None) s e') (acq h m, []) body with
            | Some (h1, d1) => defers_ok h1 d1 (acq h m)
            | None => false
            end
      then Some st else None
  | Call f => if call_ok cur ex h f then Some st else None
  | CallIface _ impls => if forallb (call_ok cur ex h) impls then Some st else None
  | CallParam _ => Some st
  | Cb _ => if holds h MTerm then Some st else None
  | Block _ => if negb (holds h MTerm) || ex then Some st else None
  | Access g _ _ => if holds h g then Some st else None
  | Spawn f => if entry_mem (f, no_locks) entries then Some st else None
  | Branch a b => if neutral cx st a && neutral cx st b then Some st else None
  | Loop body => if neutral (mkCtx (c_entry cx) (Some st) (Some st)) st body then Some st else None
  | Scope body => if neutral (mkCtx (c_entry cx) (Some st) (c_cont cx)) st body then Some st else None
  | Return => if defers_ok h d (c_entry cx) then Some st else None
  | Break => if ostate_is (c_brk cx) st then Some st else None
  | Continue => if ostate_is (c_cont cx) st then Some st else None
  | Panic => Some st
  | Unsupported _ => None
  end.

Definition chk_list (cur : fid) (ex : bool) (cx : cctx) (st : state) (es : list ev) : option state :=
  fold_opt (chk_ev cur ex cx) st es.

Definition chk_frame (cur : fid) (ex : bool) (h : held) (body : list ev) : bool :=
  match chk_list cur ex (mkCtx h None None) (h, []) body with
  | Some (h1, d1) => defers_ok h1 d1 h
  | None => false
  end.

Definition validate (cg : callgraph) : bool :=
  forallb (fun k : key =>
             let '(f, h, ex) := k in
             match nth_error cg f with
             | Some body => chk_frame f ex h body
             | None => false
             end) T.

Definition entries_in_table : bool :=
  forallb (fun e : fid * held => key_mem (fst e, snd e, false) T) entries.

End Checker.

(* ------------------------------------------------------------------------- *)
(** * The checker (unproven, instrumented part): table computation and
      explanations.  Nothing here is trusted: [check_ids] re-validates the
      computed table with the proven functions above. *)

Record walkres := mkW {
  w_st : state;                    (* state to continue with (best effort after an error) *)
  w_calls : list key;              (* contexts required by calls *)
  w_errs : list string             (* what is wrong here *)
}.

Local Open Scope string_scope.
Local Open Scope list_scope.

Definition scat (l : list string) : string := String.concat "" l.

Definition mutex_name (m : mutex) : string :=
  match m with MTerm => "MTerm" | MTty => "MTty" | MTee => "MTee" end.

Definition held_name (h : held) : string :=
  scat ["{"; if h_term h then "MTerm " else ""; if h_tty h then "MTty " else "";
        if h_tee h then "MTee " else ""; "}"].

Section Walk.
Variable exc : list (fid * fid).
Variable entries : list (fid * held).

Definition wok (st : state) : walkres := mkW st [] [].
Definition werr (st : state) (msg : string) : walkres := mkW st [] [msg].
Definition wcond (c : bool) (st' st : state) (msg : string) : walkres :=
  if c then wok st' else werr st msg.

Section WalkFold.
Context {A : Type} (f : state -> A -> walkres).
Fixpoint walk_fold (st : state) (l : list A) {struct l} : walkres :=
  match l with
  | [] => wok st
  | a :: l' =>
      let r1 := f st a in
      let r2 := walk_fold (w_st r1) l' in
      mkW (w_st r2) (w_calls r1 ++ w_calls r2) (w_errs r1 ++ w_errs r2)
  end.
End WalkFold.

Fixpoint walk_ev (cur : fid) (ex : bool) (cx : cctx) (st : state) (e : ev) {struct e} : walkres :=
  let '(h, d) := st in
  let at_h := scat [" while holding "; held_name h] in
  let block (what : string) (cx' : cctx) (st' : state) (body : list ev) : walkres :=
    let r := walk_fold (fun s e' => walk_ev cur ex cx' s e') st' body in
    mkW st' (w_calls r)
        (w_errs r ++ (if state_eqb (w_st r) st' then []
                      else [scat [what; " does not restore the held set / defers (enters with ";
                                   held_name (fst st'); ", leaves with "; held_name (fst (w_st r)); ")"]])) in
  match e with
  | Lock m => wcond (lock_ok h m) (acq h m, d) (acq h m, d)
                    (scat ["Lock "; mutex_name m; at_h; ": self-deadlock or lock-order violation (order MTerm < MTty < MTee)"])
  | Unlock m => wcond (holds h m) (rel h m, d) (rel h m, d) (scat ["Unlock "; mutex_name m; at_h; ": not held"])
  | DeferUnlock m => wok (h, m :: d)
  | WithLock m body =>
      let r := walk_fold (fun s e' => walk_ev cur ex (mkCtx (acq h m) None None) s e') (acq h m, []) body in
      mkW st (w_calls r)
          ((if lock_ok h m then [] else
              [scat ["WithLock "; mutex_name m; at_h; ": self-deadlock or lock-order violation (order MTerm < MTty < MTee)"]])
           ++ w_errs r
           ++ (if defers_ok (fst (w_st r)) (snd (w_st r)) (acq h m) then [] else
                 ["closure passed to WithLock does not restore the held set"]))
  | Call f => mkW st [(f, h, pair_mem (cur, f) exc || ex)] []
  | CallIface _ impls => mkW st (map (fun f => (f, h, pair_mem (cur, f) exc || ex)) impls) []
  | CallParam _ => wok st
  | Cb n => wcond (holds h MTerm) st st (scat ["callback "; n; at_h; ": MTerm not held"])
  | Block w => wcond (negb (holds h MTerm) || ex) st st (scat ["blocking read "; w; at_h])
  | Access g fld w => wcond (holds h g) st st
                            (scat [if w then "write of " else "read of "; fld; at_h; ": "; mutex_name g; " not held"])
  | Spawn f => wcond (entry_mem (f, no_locks) entries) st st "spawn of a function that is not a checked entry"
  | Branch a b =>
      let ra := block "branch alternative" cx st a in
      let rb := block "branch alternative" cx st b in
      mkW st (w_calls ra ++ w_calls rb) (w_errs ra ++ w_errs rb)
  | Loop body => block "loop body" (mkCtx (c_entry cx) (Some st) (Some st)) st body
  | Scope body => block "switch body" (mkCtx (c_entry cx) (Some st) (c_cont cx)) st body
  | Return => wcond (defers_ok h d (c_entry cx)) st st
                    (scat ["return"; at_h; ": held set after deferred unlocks differs from the one at function entry "; held_name (c_entry cx)])
  | Break => wcond (ostate_is (c_brk cx) st) st st (scat ["break"; at_h; ": held set differs from the one at loop / switch entry"])
  | Continue => wcond (ostate_is (c_cont cx) st) st st (scat ["continue"; at_h; ": held set differs from the one at loop entry"])
  | Panic => wok st
  | Unsupported msg => werr st (scat ["unsupported shape: "; msg])
  end.

Definition walk_frame (cur : fid) (ex : bool) (h : held) (body : list ev) : walkres :=
  let r := walk_fold (walk_ev cur ex (mkCtx h None None)) (h, []) body in
  mkW (w_st r) (w_calls r)
      (w_errs r ++ (if defers_ok (fst (w_st r)) (snd (w_st r)) h then []
                    else [scat ["function end while holding "; held_name (fst (w_st r));
                                 ": held set after deferred unlocks differs from the one at function entry "; held_name h]])).

(* Worklist closure.  [seen] maps a context to its parent context (for paths). *)
Definition seen_mem (k : key) (seen : list (key * option key)) : bool :=
  existsb (fun p => key_eqb k (fst p)) seen.

Fixpoint add_new (parent : key) (ks : list key) (seen : list (key * option key)) (todo : list key)
  : list (key * option key) * list key :=
  match ks with
  | [] => (seen, todo)
  | k :: ks' =>
      if seen_mem k seen then add_new parent ks' seen todo
      else add_new parent ks' ((k, Some parent) :: seen) (k :: todo)
  end.

Fixpoint closure (fuel : nat) (cg : callgraph) (seen : list (key * option key)) (todo : list key)
  : option (list (key * option key)) :=
  match todo with
  | [] => Some seen
  | k :: todo' =>
      match fuel with
      | 0 => None
      | S fuel' =>
          let '(f, h, ex) := k in
          match nth_error cg f with
          | None => closure fuel' cg seen todo'
          | Some body =>
              let r := walk_frame f ex h body in
              let '(seen', todo'') := add_new k (w_calls r) seen todo' in
              closure fuel' cg seen' todo''
          end
      end
  end.

Definition entry_keys : list key := map (fun e : fid * held => (fst e, snd e, false)) entries.

Definition compute_seen (cg : callgraph) : option (list (key * option key)) :=
  (* at most 16 contexts per function *)
  closure (16 * List.length cg + 16) cg (map (fun k => (k, None)) entry_keys) entry_keys.

End Walk.

Definition compute_table (cg : callgraph) (exc : list (fid * fid)) (entries : list (fid * held)) : option (list key) :=
  option_map (map fst) (compute_seen exc entries cg).

(* The checker on function identifiers. *)
Definition check_ids (cg : callgraph) (exc : list (fid * fid)) (entries : list (fid * held)) : bool :=
  match compute_table cg exc entries with
  | Some T => validate T exc entries cg && entries_in_table T entries
  | None => false   (* out of fuel *)
  end.

(* ------------------------------------------------------------------------- *)
(** * Names *)

Fixpoint index_of (s : string) (l : list string) (n : nat) : option nat :=
  match l with
  | [] => None
  | x :: l' => if String.eqb s x then Some n else index_of s l' (S n)
  end.

Definition resolve (names : list string) (s : string) : option fid := index_of s names 0.

Fixpoint resolve_entries (names : list string) (spec : list (string * held)) : option (list (fid * held)) :=
  match spec with
  | [] => Some []
  | (s, h) :: spec' =>
      match resolve names s, resolve_entries names spec' with
      | Some f, Some l => Some ((f, h) :: l)
      | _, _ => None
      end
  end.

Fixpoint resolve_pairs (names : list string) (spec : list (string * string)) : option (list (fid * fid)) :=
  match spec with
  | [] => Some []
  | (a, b) :: spec' =>
      match resolve names a, resolve names b, resolve_pairs names spec' with
      | Some f, Some g, Some l => Some ((f, g) :: l)
      | _, _, _ => None
      end
  end.

(* A generated call graph together with its name table. *)
Record program := mkProgram { p_cg : callgraph; p_names : list string }.

(* [check p exc_spec entry_spec]: the checker on names.  Fails if a name does
   not resolve. *)
Definition check (p : program) (exc_spec : list (string * string)) (entry_spec : list (string * held)) : bool :=
  match resolve_pairs (p_names p) exc_spec, resolve_entries (p_names p) entry_spec with
  | Some exc, Some entries => check_ids (p_cg p) exc entries
  | _, _ => false
  end.

(* ------------------------------------------------------------------------- *)
(** * Explanations (unproven; for reports and for the *_refuted lemmas) *)

Definition fname (names : list string) (f : fid) : string := nth f names "?".

Fixpoint path_to (fuel : nat) (seen : list (key * option key)) (k : key) : list key :=
  match fuel with
  | 0 => [k]
  | S fuel' =>
      match find (fun p => key_eqb k (fst p)) seen with
      | Some (_, Some parent) => (path_to fuel' seen parent ++ [k])
      | _ => [k]
      end
  end.

Definition key_name (names : list string) (k : key) : string :=
  let '(f, h, ex) := k in scat [fname names f; held_name h; if ex then "[excepted]" else ""].

(* One finding: the call path (entry first) to the offending function, and the
   messages for that function in that context. *)
Definition finding := (list string * list string)%type.

Definition explain_ids (names : list string) (cg : callgraph) (exc : list (fid * fid)) (entries : list (fid * held))
  : option (list finding) :=
  match compute_seen exc entries cg with
  | None => None
  | Some seen =>
      Some (flat_map
              (fun p : key * option key =>
                 let '(f, h, ex) := fst p in
                 match nth_error cg f with
                 | None => [(map (key_name names) (path_to 64 seen (fst p)), ["unknown function"])]
                 | Some body =>
                     match w_errs (walk_frame exc entries f ex h body) with
                     | [] => []
                     | errs => [(map (key_name names) (path_to 64 seen (fst p)), errs)]
                     end
                 end) (rev seen))
  end.

(* [check_explain]: [None] if names do not resolve or fuel ran out, otherwise
   the list of findings ([Some []] iff nothing was found by the instrumented
   walk). *)
Definition check_explain (p : program) (exc_spec : list (string * string)) (entry_spec : list (string * held))
  : option (list finding) :=
  match resolve_pairs (p_names p) exc_spec, resolve_entries (p_names p) entry_spec with
  | Some exc, Some entries => explain_ids (p_names p) (p_cg p) exc entries
  | _, _ => None
  end.

(* ------------------------------------------------------------------------- *)
(** * Interleaving semantics over local traces *)

Definition step_held (h : held) (a : action) : held :=
  match a with ALock m => acq h m | AUnlock m => rel h m | _ => h end.

Definition after (h : held) (tr : list obs) : held :=
  fold_left (fun h o => step_held h (o_act o)) tr h.

(* The held sets recorded in a local trace are the ones obtained by replaying
   its lock / unlock actions from [h]. *)
Fixpoint consistent (h : held) (tr : list obs) : Prop :=
  match tr with
  | [] => True
  | o :: tr' => o_held o = h /\ consistent (step_held h (o_act o)) tr'
  end.

(* A thread is a local trace split into the executed and the remaining part. *)
Record thread := mkThread { t_init : held; t_done : list obs; t_todo : list obs }.

Definition cur_held (th : thread) : held := after (t_init th) (t_done th).

(* Global states: thread identifiers are natural numbers; unused identifiers
   carry the empty thread. *)
Definition gstate := nat -> thread.

(* Thread [i] executes its next observation.  The only inter-thread constraint
   is the mutex: a Lock step needs the mutex to be free in all other threads. *)
Definition gstep (s s' : gstate) : Prop :=
  exists i o rest,
    t_todo (s i) = o :: rest /\
    (forall m, o_act o = ALock m -> forall j, j <> i -> holds (cur_held (s j)) m = false) /\
    s' i = mkThread (t_init (s i)) (t_done (s i) ++ [o]) rest /\
    (forall j, j <> i -> s' j = s j).

Inductive greach (s0 : gstate) : gstate -> Prop :=
| GR_refl : greach s0 s0
| GR_step : forall s s', greach s0 s -> gstep s s' -> greach s0 s'.

(* Initial states: nothing executed yet, initial held sets pairwise disjoint. *)
Definition ginit (s : gstate) : Prop :=
  (forall i, t_done (s i) = []) /\
  (forall i j m, i <> j -> holds (t_init (s i)) m = true -> holds (t_init (s j)) m = true -> False).

(* Every thread's local trace is consistent and safe. *)
Definition threads_ok (exc : list (fid * fid)) (entries : list (fid * held)) (s : gstate) : Prop :=
  forall i, consistent (t_init (s i)) (t_done (s i) ++ t_todo (s i)) /\
            Forall (safe_obs exc entries) (t_done (s i) ++ t_todo (s i)).

(* Thread [i] waits for a mutex currently held by thread [j]. *)
Definition waits_for (s : gstate) (i j : nat) : Prop :=
  exists o rest m, t_todo (s i) = o :: rest /\ o_act o = ALock m /\ holds (cur_held (s j)) m = true.

Inductive wait_chain (s : gstate) : nat -> nat -> Prop :=
| WC_one : forall i j, waits_for s i j -> wait_chain s i j
| WC_cons : forall i j k, waits_for s i j -> wait_chain s j k -> wait_chain s i k.
