(* Encoder kinds named by the generated dispatch tables (Gen/Gen_KeyTables.v).
   One constructor per call shape that occurs in the two [switch ev.Code]
   statements of keys.go. *)
From Coq Require Import ZArith.
Open Scope Z_scope.

(* encodeLegacyKey *)
Inductive legacy_enc :=
| LRune                   (* t.encodeRuneKey(ev.Rune, ev.Mod) *)
| LCursor (final : Z)     (* t.encodeCursorKey(final, ev.Mod) *)
| LHomeEnd (final : Z)    (* t.encodeHomeEndKey(final, ev.Mod) *)
| LTilde (code : Z)       (* encodeTildeKey(code, ev.Mod) *)
| LFunction (final : Z)   (* encodeFunctionKey(final, ev.Mod) *)
| LBackspace              (* t.encodeBackspaceKey(ev.Mod) *)
| LTab                    (* t.encodeTabKey(ev.Mod) *)
| LEnter                  (* t.encodeEnterKey(ev.Mod) *)
| LEscape.                (* t.encodeEscapeKey(ev.Mod) *)

(* encodeKittyKey *)
Inductive kitty_enc :=
| KRune                       (* t.encodeKittyRune(ev, flags) *)
| KCSI1 (final : Z)           (* kittyCSI1(final, modField) *)
| KCSITilde (code : Z)        (* kittyCSITilde(code, modField) *)
| KCSIu (code guard : Z).     (* if flags&guard != 0 { kittyCSIu(kittyKeyField(code, ev, flags), modField, kittyTextField(ev, flags)) }; return nil *)
