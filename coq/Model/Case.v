(* Executable entry point for the correspondence check: decodes a case (lists of
   integers written by the harness), runs the model, and encodes the
   observations as lists of integers in the same canonical form the Go harness
   prints.  All logic is here so the hand-written OCaml driver only converts
   integers and prints lines. *)
From Coq Require Import List ZArith Bool.
From Termemu Require Import Base Style Screen Kbd Parser Term Uniseg Grapheme GTerm.
Import ListNotations.
Open Scope Z_scope.

(* width oracle from the per-case table [r1; w1; r2; w2; ...] *)
Fixpoint wc_lookup (tbl : list Z) (r : Z) : Z :=
  match tbl with
  | k :: w :: rest => if k =? r then w else wc_lookup rest r
  | _ => 1
  end.
Definition wc_of (tbl : list Z) (r : Z) : Z := if r <? 128 then 1 else wc_lookup tbl r.

(* ---- observation encoding ---- *)
Definition enc_style (s : style) : list Z := [pack_fg s; pack_bg s; pack_ul s].
Definition enc_cell (c : cell) : list Z :=
  cwid c :: enc_style (cst c) ++ zlen (ctext c) :: ctext c.
Definition enc_bool (b : bool) : Z := if b then 1 else 0.

Definition enc_screen_hdr (which : Z) (s : screen) : list Z :=
  [2; which; sW s; sH s; cx s; cy s; svx s; svy s; top s; bot s; enc_bool (awrap s)] ++ enc_style (sty s).

Fixpoint enc_rows (which : Z) (y : Z) (rs : list (list cell)) : list (list Z) :=
  match rs with
  | [] => []
  | r :: rest => (3 :: which :: y :: flat_map enc_cell r) :: enc_rows which (y + 1) rest
  end.

Definition enc_kbd (k : kbd) : list Z := kflags k :: zlen (kstack k) :: kstack k.

Definition enc_regs (t : term) : list Z :=
  5 :: enc_bool (onalt t) :: map enc_bool (vflags t) ++ vints t ++ enc_kbd (kbm t) ++ enc_kbd (kba t).

Fixpoint enc_strs (i : Z) (l : list (list Z)) : list (list Z) :=
  match l with
  | [] => []
  | s :: rest => (6 :: i :: s) :: enc_strs (i + 1) rest
  end.

(* digest of the callbacks of one operation, oldest first *)
Fixpoint count_bells (l : list event) : Z :=
  match l with [] => 0 | EBell :: r => 1 + count_bells r | _ :: r => count_bells r end.
(* l is newest first: the first match is the most recent *)
Fixpoint last_cursor (l : list event) : list Z :=
  match l with [] => [-1; -1] | ECursor x y :: _ => [x; y] | _ :: r => last_cursor r end.
Fixpoint last_style (l : list event) : list Z :=
  match l with [] => [-1; -1; -1] | EStyle s :: _ => enc_style s | _ :: r => last_style r end.
Fixpoint view_events (l : list event) : list Z :=
  match l with
  | [] => []
  | EFlag i v :: r => view_events r ++ [4; i; enc_bool v]
  | EInt i v :: r => view_events r ++ [5; i; v]
  | EStr i b :: r => view_events r ++ (6 :: i :: zlen b :: b)
  | EScrollLines y :: r => view_events r ++ [7; y]
  | _ :: r => view_events r
  end.
Definition enc_digest (l : list event) : list Z :=
  7 :: count_bells l :: last_cursor l ++ last_style l ++ view_events l.

(* announced regions of one operation, oldest first: x y x2 y2 each *)
Fixpoint regions (l : list event) : list Z :=
  match l with
  | [] => []
  | ERegion x y x2 y2 _ :: r => regions r ++ [x; y; x2; y2]
  | _ :: r => regions r
  end.

Definition enc_obs_x (opidx : Z) (t : term) (pending : Z) (xtrig : Z) : list (list Z) :=
  [1; opidx; enc_bool (crashed t); Z.lor xtrig (Z.lor (trig (tmain t)) (trig (talt t))); pending]
    :: enc_screen_hdr 0 (tmain t) :: enc_rows 0 0 (rows (tmain t))
    ++ enc_screen_hdr 1 (talt t) :: enc_rows 1 0 (rows (talt t))
    ++ [4 :: tout t; enc_regs t] ++ enc_strs 0 (vstrs t)
    ++ [enc_digest (tlog t); 8 :: regions (tlog t)].

Definition enc_obs opidx t pending := enc_obs_x opidx t pending 0.

Definition clear_io (t : term) : term :=
  mkTerm (tmain t) (talt t) (onalt t) (vflags t) (vints t) (vstrs t) (kbm t) (kba t) [] [].

(* ---- decoding an observed state (step mode: the model continues from the
   state the implementation was seen in) ---- *)
Definition dec_style (l : list Z) : style :=
  match l with fgw :: bgw :: _ => unpack fgw bgw | _ => default_style end.

(* cells of a row record, after the [3; which; y] prefix *)
Fixpoint dec_cells (fuel : nat) (l : list Z) : list cell :=
  match fuel with
  | O => []
  | S f =>
      match l with
      | w :: fgw :: bgw :: _ :: n :: rest =>
          mkCell (zfirstn n rest) w (unpack fgw bgw) :: dec_cells f (zskipn n rest)
      | _ => []
      end
  end.

Definition dec_screen (hdr : list Z) (rws : list (list cell)) : screen :=
  match hdr with
  | _ :: _ :: w :: h :: x :: y :: sx :: sy :: t :: b :: aw :: st =>
      mkScreen rws w h x y sx sy t b (negb (aw =? 0)) (dec_style st) 0 0 []
  | _ => init_screen 1 1
  end.

Fixpoint rows_of (which : Z) (recs : list (list Z)) : list (list cell) :=
  match recs with
  | [] => []
  | (3 :: wh :: _ :: cells) :: rest =>
      if wh =? which then dec_cells (length cells) cells :: rows_of which rest else rows_of which rest
  | _ :: rest => rows_of which rest
  end.
Fixpoint hdr_of (which : Z) (recs : list (list Z)) : list Z :=
  match recs with
  | [] => []
  | (2 :: wh :: r) :: rest => if wh =? which then 2 :: wh :: r else hdr_of which rest
  | _ :: rest => hdr_of which rest
  end.
Fixpoint rec_of (tag : Z) (recs : list (list Z)) : list Z :=
  match recs with
  | [] => []
  | (t :: r) :: rest => if t =? tag then r else rec_of tag rest
  | [] :: rest => rec_of tag rest
  end.
Fixpoint strs_of (recs : list (list Z)) : list (list Z) :=
  match recs with
  | [] => []
  | (6 :: _ :: s) :: rest => s :: strs_of rest
  | _ :: rest => strs_of rest
  end.
Definition dec_kbd (l : list Z) : kbd * list Z :=
  match l with
  | f :: n :: rest => (mkKbd f (zfirstn n rest), zskipn n rest)
  | _ => (kbd0, [])
  end.
Definition dec_term (recs : list (list Z)) : term :=
  let regs := rec_of 5 recs in
  let alt := match regs with a :: _ => negb (a =? 0) | _ => false end in
  let flags := map (fun v => negb (v =? 0)) (zfirstn 6 (zskipn 1 regs)) in
  let ints := zfirstn 3 (zskipn 7 regs) in
  let '(km, r1) := dec_kbd (zskipn 10 regs) in
  let '(ka, _) := dec_kbd r1 in
  mkTerm (dec_screen (hdr_of 0 recs) (rows_of 0 recs)) (dec_screen (hdr_of 1 recs) (rows_of 1 recs))
    alt flags ints (strs_of recs) km ka [] [].

(* ---- case execution ---- *)
(* line tags: 100 header [mode; grid; W; H], 101 width table, 110 feed bytes,
   111 resize w h, 199 end *)
Record cst := mkCst { c_t : term; c_pend : list Z; c_tbl : list Z; c_grid : bool; c_idx : Z;
                      c_load : list (list Z); c_gmode : bool; c_rs : rstate; c_xt : Z }.

(* reader state record: [10; grapheme state; property; forceMergeNext; lastWasRI], -1 -1 for state -1 *)
Definition enc_rs (rs : rstate) : list Z :=
  match rs_state rs with
  | None => [10; -1; -1; enc_bool (rs_fm rs); enc_bool (rs_ri rs)]
  | Some (g, p) => [10; g; p; enc_bool (rs_fm rs); enc_bool (rs_ri rs)]
  end.
Definition dec_rs (l : list Z) : rstate :=
  match l with
  | g :: p :: fm :: ri :: _ => mkRs (if g <? 0 then None else Some (g, p)) (negb (fm =? 0)) (negb (ri =? 0))
  | _ => rs0
  end.

(* observation mask: bit i set = print records with tag i; 0 = everything *)
Definition masked (mask : Z) (recs : list (list Z)) : list (list Z) :=
  if mask =? 0 then recs
  else filter (fun r => match r with t :: _ => Z.testbit mask t | [] => false end) recs.

Definition run_op (st : cst) (line : list Z) : cst * list (list Z) :=
  match line with
  | 110 :: bs =>
      if crashed (c_t st) then (st, enc_obs (c_idx st) (c_t st) (zlen (c_pend st)) ++ [enc_rs (c_rs st)]) else
      if c_gmode st then
        (* grapheme mode: the width and segmentation model; the per-case width table is not used *)
        let '(t', rs', pend') := ghstep true (c_grid st) (clear_io (c_t st), c_rs st, c_pend st) (HFeed bs) in
        (* rows whose text would segment into other cells than it was written as: the span buffer cannot hold them
           (KF-grapheme-merge) and no rendering of either buffer can be read back cell by cell; the mark stays *)
        let xt := if negb (c_xt st =? 0) then c_xt st
                  else if screen_reseg_ok (tmain t') && screen_reseg_ok (talt t') then 0 else trReseg in
        (mkCst t' pend' (c_tbl st) (c_grid st) (c_idx st + 1) [] true rs' xt,
         enc_obs_x (c_idx st) t' (zlen pend') xt ++ [enc_rs rs'])
      else
      let '(t', pend') := hstep (wc_of (c_tbl st)) (c_grid st) (clear_io (c_t st), c_pend st) (HFeed bs) in
      (mkCst t' pend' (c_tbl st) (c_grid st) (c_idx st + 1) [] false (c_rs st) (c_xt st),
       enc_obs (c_idx st) t' (zlen pend') ++ [enc_rs (c_rs st)])
  | 111 :: w :: h :: _ =>
      if crashed (c_t st) then (st, enc_obs (c_idx st) (c_t st) (zlen (c_pend st)) ++ [enc_rs (c_rs st)]) else
      let t' := fst (hstep (wc_of (c_tbl st)) (c_grid st) (clear_io (c_t st), c_pend st) (HResize w h)) in
      let xt := match c_pend st with 27 :: _ => trLockedRead | _ => 0 end in
      (mkCst t' (c_pend st) (c_tbl st) (c_grid st) (c_idx st + 1) [] (c_gmode st) (c_rs st) (c_xt st),
       enc_obs_x (c_idx st) t' (zlen (c_pend st)) (Z.lor xt (c_xt st)) ++ [enc_rs (c_rs st)])
  | 120 :: r =>     (* one record of an observed state to continue from *)
      (mkCst (c_t st) (c_pend st) (c_tbl st) (c_grid st) (c_idx st) (c_load st ++ [r]) (c_gmode st) (c_rs st) (c_xt st), [])
  | 121 :: _ =>     (* load the accumulated records *)
      (mkCst (dec_term (c_load st)) [] (c_tbl st) (c_grid st) (c_idx st) [] (c_gmode st) (dec_rs (rec_of 10 (c_load st))) 0, [])
  | _ => (st, [])
  end.

Fixpoint run_ops (st : cst) (lines : list (list Z)) : list (list Z) :=
  match lines with
  | [] => []
  | l :: rest => let '(st', o) := run_op st l in o ++ run_ops st' rest
  end.

Definition run_case (lines : list (list Z)) : list (list Z) :=
  match lines with
  | (100 :: mode :: grid :: w :: h :: more) :: (101 :: tbl) :: rest =>
      masked (match more with m :: _ => m | [] => 0 end)
        (run_ops (mkCst (init_term w h) [] tbl (negb (grid =? 0)) 0 [] (mode =? 1) rs0 0) rest)
  | _ => [[0]]
  end.
