(* Mouse reports: terminal.go SendMouseRaw and Write (the short-write loop),
   AFTER the proposed repairs D32 (X10 write error returned, no panic), D33 (X10
   payload bytes are raw single bytes), D34 (button-motion filter tests the
   button), D35 (press-only mode drops motion and wheel) and D36 (UTF-8
   coordinates clamped at 0x7FF-32 = 2015 like xterm).  Definitions only.

   Conventions.  btn and mods are Go bytes (MouseBtn, MouseFlag): callers pass
   0 <= btn < 256 and 0 <= mods < 256.  x and y are Go ints; the model computes
   on Z and agrees with Go as long as 32+x and 32+y do not overflow int64.
   Byte arithmetic (32+btnByte on a byte, byte(32+x)) is modelled by mod 256,
   the int -> rune conversion by truncation to 32 bits. *)
From Coq Require Import List ZArith Bool.
From Termemu Require Import Base.
Import ListNotations.
Open Scope Z_scope.

(* tracking modes (frontend.go MMNone ..) and encodings (MEX10 ..) *)
Definition mmNone := 0. Definition mmPress := 1. Definition mmPressRelease := 2.
Definition mmPressReleaseMove := 3. Definition mmPressReleaseMoveAll := 4.
Definition meX10 := 0. Definition meUTF8 := 1. Definition meSGR := 2.

(* terminal.go constants *)
Definition mRelease := 3. Definition mWhichBtn := 3.
Definition mShift := 4. Definition mMeta := 8. Definition mControl := 16.
Definition mMotion := 32. Definition mWheel := 64.

(* ---- the filter: first switch of SendMouseRaw; true = the event is reported ---- *)
Definition mouse_filter (mode btn : Z) (press : bool) (mods : Z) : bool :=
  if mode =? mmNone then false
  else if mode =? mmPress then
    (* if !press || mods&(MMotion|MWheel) != 0 { return nil } *)
    negb (negb press || negb (Z.land mods (Z.lor mMotion mWheel) =? 0))
  else if mode =? mmPressRelease then
    (* if mods&MMotion != 0 { return nil } *)
    negb (negb (Z.land mods mMotion =? 0))
  else if mode =? mmPressReleaseMove then
    (* if mods&MMotion != 0 && byte(btn)&mWhichBtn == byte(MRelease) { return nil } *)
    negb (negb (Z.land mods mMotion =? 0) && (Z.land btn mWhichBtn =? mRelease))
  else true.   (* MMPressReleaseMoveAll; the switch has no default, any other value passes too *)

(* ---- Go's string(rune(v)) / utf8.AppendRune ---- *)
Definition to_int32 (v : Z) : Z := (v + 2147483648) mod 4294967296 - 2147483648.

Definition utf8_replacement : list Z := [239; 191; 189].   (* U+FFFD *)

Definition utf8_encode_rune (r : Z) : list Z :=
  if r <? 0 then utf8_replacement
  else if r <=? 127 then [r]
  else if r <=? 2047 then [192 + r / 64; 128 + r mod 64]
  else if (55296 <=? r) && (r <=? 57343) then utf8_replacement
  else if r <=? 65535 then [224 + r / 4096; 128 + (r / 64) mod 64; 128 + r mod 64]
  else if r <=? 1114111 then [240 + r / 262144; 128 + (r / 4096) mod 64; 128 + (r / 64) mod 64; 128 + r mod 64]
  else utf8_replacement.

(* ---- the report, second switch of SendMouseRaw ---- *)
(* btnByte := (byte(btn) & mWhichBtn) | byte(mods); if !press { btnByte |= byte(MRelease) } *)
Definition btn_byte_rel (btn : Z) (press : bool) (mods : Z) : Z :=
  let b := Z.lor (Z.land btn mWhichBtn) mods in
  if press then b else Z.lor b mRelease.
(* SGR keeps the button and signals release with the final byte *)
Definition btn_byte_sgr (btn mods : Z) : Z := Z.lor (Z.land btn mWhichBtn) mods.

(* if 32+x > 255 { x = 255 - 32 }; byte(32+x) *)
Definition x10_coord (v : Z) : Z :=
  let v := if 255 <? 32 + v then 255 - 32 else v in (32 + v) mod 256.
(* if 32+x > 0x7ff { x = 0x7ff - 32 }; string(rune(32+x)) *)
Definition utf8_coord (v : Z) : list Z :=
  let v := if 2047 <? 32 + v then 2047 - 32 else v in utf8_encode_rune (to_int32 (32 + v)).

Definition mouse_enc_known (enc : Z) : bool := (enc =? meX10) || (enc =? meUTF8) || (enc =? meSGR).

Definition mouse_encode (enc btn : Z) (press : bool) (mods x y : Z) : list Z :=
  if enc =? meX10 then
    (* []byte{0x1b, '[', 'M', 32 + btnByte, byte(32 + x), byte(32 + y)} *)
    [27; 91; 77; (32 + btn_byte_rel btn press mods) mod 256; x10_coord x; x10_coord y]
  else if enc =? meUTF8 then
    (* "\033[M" + string(32+btnByte) + string(rune(32+x)) + string(rune(32+y)); 32+btnByte is a byte *)
    [27; 91; 77] ++ utf8_encode_rune ((32 + btn_byte_rel btn press mods) mod 256)
      ++ utf8_coord x ++ utf8_coord y
  else if enc =? meSGR then
    (* fmt.Fprintf(t, "\033[<%v;%v;%v%c", btnByte, x, y, pressByte): formatted first, one t.Write *)
    [27; 91; 60] ++ itoa (btn_byte_sgr btn mods) ++ [59] ++ itoa x ++ [59] ++ itoa y
      ++ [if press then 77 else 109]
  else [].   (* unreachable in Go: panic("Unhandled ViMouseEncoding"), see send_mouse_status *)

(* ---- terminal.Write against a scripted backend ----
   Each backend.Write call consumes one script entry (n, err): the backend takes
   the first n of the bytes offered (io.Writer contract 0 <= n <= len(b); an
   entry outside that range is cut to it) and reports err.  An exhausted script
   is a backend that takes everything.
     for len(b) > 0 { n, err := backend.Write(b); total += n
                      if err != nil { return total, err }
                      if n == 0 { return total, io.ErrShortWrite }; b = b[n:] }
   Result: the bytes the backend received, and whether Write returned an error. *)
Fixpoint write_loop (b : list Z) (script : list (Z * bool)) : list Z * bool :=
  match b with
  | [] => ([], false)
  | _ =>
      match script with
      | [] => (b, false)
      | (n, e) :: rest =>
          let n := clamp n 0 (zlen b) in
          if e then (zfirstn n b, true)
          else if n =? 0 then ([], true)
          else let '(d, e') := write_loop (zskipn n b) rest in (zfirstn n b ++ d, e')
      end
  end.

(* number of backend.Write calls made by the same loop *)
Fixpoint write_calls (b : list Z) (script : list (Z * bool)) : Z :=
  match b with
  | [] => 0
  | _ =>
      match script with
      | [] => 1
      | (n, e) :: rest =>
          let n := clamp n 0 (zlen b) in
          if e then 1 else if n =? 0 then 1 else 1 + write_calls (zskipn n b) rest
      end
  end.

(* ---- SendMouseRaw: (bytes received by the backend, error returned) ---- *)
Definition send_mouse (mode enc btn : Z) (press : bool) (mods x y : Z)
    (wscript : list (Z * bool)) : list Z * bool :=
  if mouse_filter mode btn press mods
  then write_loop (mouse_encode enc btn press mods x y) wscript
  else ([], false).

Definition send_mouse_calls (mode enc btn : Z) (press : bool) (mods x y : Z)
    (wscript : list (Z * bool)) : Z :=
  if mouse_filter mode btn press mods
  then write_calls (mouse_encode enc btn press mods x y) wscript
  else 0.

(* Outcome including the one panic left in SendMouseRaw after D32: an event that
   passes the filter while the encoding register holds a value other than
   MEX10/MEUTF8/MESGR.  0 = nil, 1 = error returned, 2 = panic. *)
Definition send_mouse_status (mode enc btn : Z) (press : bool) (mods x y : Z)
    (wscript : list (Z * bool)) : Z :=
  if mouse_filter mode btn press mods && negb (mouse_enc_known enc) then 2
  else if snd (send_mouse mode enc btn press mods x y wscript) then 1 else 0.
