(* Abstract specification of the graphic rendition (C07), independent of the
   bit packing of Model/Style.v: a style is two colours and a predicate over
   mode indices; an SGR parameter list is first cut into items (a plain code or
   an extended-colour group), then folded left to right.  Definitions only. *)
From Coq Require Import List ZArith Bool.
From Termemu Require Import Base Style.
Import ListNotations.
Open Scope Z_scope.

(* ---- abstract styles ---- *)
Record astyle := mkA { afg : color; abg : color; amode : Z -> bool }.

Definition a_default : astyle := mkA CDef CDef (fun _ => false).
Definition a_set (i : Z) (a : astyle) : astyle := mkA (afg a) (abg a) (fun j => (i =? j) || amode a j).
Definition a_reset (i : Z) (a : astyle) : astyle := mkA (afg a) (abg a) (fun j => negb (i =? j) && amode a j).
Definition a_fg (c : color) (a : astyle) : astyle := mkA c (abg a) (amode a).
Definition a_bg (c : color) (a : astyle) : astyle := mkA (afg a) c (amode a).
Definition a_comp (bgp : bool) (c : color) (a : astyle) : astyle := if bgp then a_bg c a else a_fg c a.

(* extensional equality of abstract styles *)
Definition aeq (a b : astyle) : Prop :=
  afg a = afg b /\ abg a = abg b /\ forall i, amode a i = amode b i.

(* the abstract view of a model style *)
Definition abs (s : style) : astyle := mkA (sfg s) (sbg s) (fun i => test_mode i s).

(* ---- well-formed model styles: exactly what fits the packed Go struct ---- *)
Definition wf_color (c : color) : Prop :=
  match c with
  | CDef => True
  | CIdx n => 0 <= n <= 255
  | CBright n => 0 <= n <= 7
  | CRgb v => 0 <= v < 16777216
  end.
Definition wf_style (s : style) : Prop :=
  wf_color (sfg s) /\ wf_color (sbg s) /\ 0 <= smodes s < 8192.

(* ---- items ---- *)
Inductive item :=
| IPlain (p : Z)                      (* one parameter read on its own *)
| IIdx (bgp : bool) (n : Z)           (* 38;5;n  (bgp = false)  or  48;5;n *)
| IRgb (bgp : bool) (r g b : Z).      (* 38;2;r;g;b  or  48;2;r;g;b *)

(* The look-ahead of case 'm'.  38 / 48 opens a group only if the complete
   group is present: selector 5 with one value, or selector 2 with three.
   Truncated or unknown forms (38 | 38;5 | 38;2;r | 38;2;r;g | 38;9;...):
   nothing is consumed, 38 / 48 itself does nothing and the values after it are
   read as ordinary codes.  ECMA-48 / ITU T.416 leave this open; it is what the
   implementation does. *)
Fixpoint group (ps : list Z) : list item :=
  match ps with
  | [] => []
  | p :: rest =>
      if (p =? 38) || (p =? 48) then
        match rest with
        | sel :: a :: rest2 =>
            if sel =? 5 then IIdx (p =? 48) a :: group rest2
            else if sel =? 2 then
              match rest2 with
              | g :: b :: rest3 => IRgb (p =? 48) a g b :: group rest3
              | _ => IPlain p :: group rest
              end
            else IPlain p :: group rest
        | _ => IPlain p :: group rest
        end
      else IPlain p :: group rest
  end.

(* the same as a relation, one rule per case *)
Definition is_ext (p : Z) : Prop := p = 38 \/ p = 48.
Inductive complete_group : list Z -> Prop :=
| CG5 n rest : complete_group (5 :: n :: rest)
| CG2 r g b rest : complete_group (2 :: r :: g :: b :: rest).
Inductive grouped : list Z -> list item -> Prop :=
| G_nil : grouped [] []
| G_plain p rest its : ~ is_ext p -> grouped rest its -> grouped (p :: rest) (IPlain p :: its)
| G_idx p n rest its : is_ext p -> grouped rest its -> grouped (p :: 5 :: n :: rest) (IIdx (p =? 48) n :: its)
| G_rgb p r g b rest its : is_ext p -> grouped rest its ->
    grouped (p :: 2 :: r :: g :: b :: rest) (IRgb (p =? 48) r g b :: its)
| G_trunc p rest its : is_ext p -> ~ complete_group rest -> grouped rest its ->
    grouped (p :: rest) (IPlain p :: its).

(* ---- plain codes, as tables ---- *)
Fixpoint assoc {A} (k : Z) (l : list (Z * A)) : option A :=
  match l with
  | [] => None
  | (k', v) :: r => if k =? k' then Some v else assoc k r
  end.

(* code -> the mode it switches on *)
Definition set_codes : list (Z * Z) :=
  [ (1, mBold); (2, mDim); (3, mItalic); (4, mUnderline); (5, mBlink); (6, mRapid);
    (7, mReverse); (8, mInvisible); (9, mStrike); (21, mDUnderline);
    (51, mFramed); (52, mEncircled); (53, mOverline) ].
(* code -> the modes it switches off *)
Definition reset_codes : list (Z * list Z) :=
  [ (22, [mBold; mDim]); (23, [mItalic]); (24, [mUnderline; mDUnderline]);
    (25, [mBlink; mRapid]); (27, [mReverse]); (28, [mInvisible]); (29, [mStrike]);
    (54, [mFramed; mEncircled]); (55, [mOverline]) ].

Definition between (lo hi p : Z) : bool := (lo <=? p) && (p <=? hi).

Definition sgr_plain_spec (p : Z) (a : astyle) : astyle :=
  if p =? 0 then a_default else
  match assoc p set_codes with
  | Some i => a_set i a
  | None =>
  match assoc p reset_codes with
  | Some l => fold_right a_reset a l
  | None =>
      if between 30 37 p then a_fg (CIdx (p - 30)) a
      else if p =? 39 then a_fg CDef a
      else if between 40 47 p then a_bg (CIdx (p - 40)) a
      else if p =? 49 then a_bg CDef a
      else if between 90 97 p then a_fg (CBright (p - 90)) a
      else if between 100 107 p then a_bg (CBright (p - 100)) a
      else a   (* every other value, including a lone 38 / 48: no effect *)
  end end.

Definition sgr1_spec (a : astyle) (it : item) : astyle :=
  match it with
  | IPlain p => sgr_plain_spec p a
  | IIdx bgp n => a_comp bgp (CIdx (n mod 256)) a
  | IRgb bgp r g b => a_comp bgp (CRgb ((r mod 256) * 65536 + (g mod 256) * 256 + b mod 256)) a
  end.

Definition sgr_spec (ps : list Z) (a : astyle) : astyle := fold_left sgr1_spec (group ps) a.

(* the codes that have an effect when read on their own *)
Definition effective_codes : list Z :=
  [0;1;2;3;4;5;6;7;8;9;21;22;23;24;25;27;28;29;30;31;32;33;34;35;36;37;39;
   40;41;42;43;44;45;46;47;49;51;52;53;54;55;90;91;92;93;94;95;96;97;
   100;101;102;103;104;105;106;107].
