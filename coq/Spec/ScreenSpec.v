(* Vocabulary for the cell-level properties C05 (erase/delete), C06 (scrolling)
   and C18 (resize).  Definitions only. *)
From Coq Require Import List ZArith Bool.
From Termemu Require Import Base Style Screen Kbd Parser Term.
Import ListNotations.
Open Scope Z_scope.

(* a <= i < b, as a boolean *)
Definition zin (a b i : Z) : bool := (a <=? i) && (i <? b).

(* (x, y) lies in the half-open rectangle [x1, x2) x [y1, y2) *)
Definition in_rect (x y x1 y1 x2 y2 : Z) : Prop := x1 <= x < x2 /\ y1 <= y < y2.
Definition in_rectb (x y x1 y1 x2 y2 : Z) : bool := zin x1 x2 x && zin y1 y2 y.

(* The cells an overwrite of [x, x+n) (n > 0) of [row] changes, as a half-open
   interval: a wide glyph cut by either boundary is blanked whole. *)
Definition touched (row : list cell) (x n : Z) : Z * Z :=
  (left_edge row x, x + n + cont_run row (x + n)).
Definition in_touched (row : list cell) (x n i : Z) : bool :=
  zin (fst (touched row x n)) (snd (touched row x n)) i.

(* neither boundary of [x, x+n) falls inside a wide glyph; then touched = [x, x+n) *)
Definition no_wide_cut (row : list cell) (x n : Z) : Prop :=
  is_cont (znth x row dcell) = false /\ is_cont (znth (x + n) row dcell) = false.

(* the glyph covering cell x of [row] has cells on both sides of column w
   (its head is left of w, and cell w is one of its continuation cells) *)
Definition straddles (row : list cell) (w x : Z) : bool :=
  is_cont (znth w row dcell) && (glyph_start row w <=? x) && (x <? w).

(* everything of a screen except the cell contents, the trigger bits and the
   callback log *)
Record scr_frame (s s' : screen) : Prop := mkScrFrame {
  sf_w : sW s' = sW s; sf_h : sH s' = sH s;
  sf_cx : cx s' = cx s; sf_cy : cy s' = cy s;
  sf_svx : svx s' = svx s; sf_svy : svy s' = svy s;
  sf_top : top s' = top s; sf_bot : bot s' = bot s;
  sf_awrap : awrap s' = awrap s; sf_sty : sty s' = sty s;
  sf_crash : crash s' = crash s
}.

(* the same with the cursor left free (for operations that move it) *)
Record scr_frame_nocur (s s' : screen) : Prop := mkScrFrameNC {
  sn_w : sW s' = sW s; sn_h : sH s' = sH s;
  sn_svx : svx s' = svx s; sn_svy : svy s' = svy s;
  sn_top : top s' = top s; sn_bot : bot s' = bot s;
  sn_awrap : awrap s' = awrap s; sn_sty : sty s' = sty s;
  sn_crash : crash s' = crash s
}.

(* the buffer that is not being displayed *)
Definition inactive_buf (t : term) : screen := if onalt t then tmain t else talt t.

(* a command touched nothing of the terminal but the active buffer (and the
   callback log): same active side, inactive buffer, mode registers, keyboard
   state and reply channel *)
Record term_frame (t t' : term) : Prop := mkTermFrame {
  tf_onalt : onalt t' = onalt t;
  tf_inactive : inactive_buf t' = inactive_buf t;
  tf_vflags : vflags t' = vflags t; tf_vints : vints t' = vints t; tf_vstrs : vstrs t' = vstrs t;
  tf_kbm : kbm t' = kbm t; tf_kba : kba t' = kba t;
  tf_tout : tout t' = tout t
}.

(* everything of a screen except cells, scroll margins, triggers, log *)
Record scr_frame_nomargins (s s' : screen) : Prop := mkScrFrameNM {
  sm_w : sW s' = sW s; sm_h : sH s' = sH s;
  sm_cx : cx s' = cx s; sm_cy : cy s' = cy s;
  sm_svx : svx s' = svx s; sm_svy : svy s' = svy s;
  sm_awrap : awrap s' = awrap s; sm_sty : sty s' = sty s;
  sm_crash : crash s' = crash s
}.

(* The shape shared by the command-level statements: the new active buffer is
   described cell by cell (resp. row by row) for every in-range position by [f];
   the rest of the active buffer (size, cursor, saved cursor, margins, autowrap,
   current style) and of the terminal (inactive buffer, registers, keyboard
   state, reply channel) is unchanged. *)
Definition cmd_cells (t t' : term) (f : Z -> Z -> cell) : Prop :=
  (forall x' y', 0 <= x' < sW (active t) -> 0 <= y' < sH (active t) -> cell_at (active t') x' y' = f x' y')
  /\ scr_frame (active t) (active t') /\ term_frame t t'.
Definition cmd_rows (t t' : term) (f : Z -> list cell) : Prop :=
  (forall y', 0 <= y' < sH (active t) -> row_at (active t') y' = f y')
  /\ scr_frame (active t) (active t') /\ term_frame t t'.
(* the same with the cursor left free *)
Definition cmd_rows_nocur (t t' : term) (f : Z -> list cell) : Prop :=
  (forall y', 0 <= y' < sH (active t) -> row_at (active t') y' = f y')
  /\ scr_frame_nocur (active t) (active t') /\ term_frame t t'.
(* nothing on the active buffer changes (only the callback log may) *)
Definition cmd_noop (t t' : term) : Prop := cmd_rows t t' (fun y => row_at (active t) y).

(* scroll distance limited to the region height h (scroll's clamp of dy) *)
Definition clamp_dy (h dy : Z) : Z := if h <? dy then h else if dy <? - h then - h else dy.

(* what a one-line scroll up / down of the region does to row y *)
Definition region_up1 (s : screen) (y : Z) : list cell :=
  if zin (top s) (bot s + 1) y then
    if y + 1 <=? bot s then row_at s (y + 1) else blank_row (sW s) (sty s)
  else row_at s y.
Definition region_down1 (s : screen) (y : Z) : list cell :=
  if zin (top s) (bot s + 1) y then
    if top s <=? y - 1 then row_at s (y - 1) else blank_row (sW s) (sty s)
  else row_at s y.

Definition cursor_of (s : screen) : Z * Z := (cx s, cy s).

(* which range a scrolling command works on: SU/SD the scroll region, IL/DL from the cursor row *)
Definition scroll_cmd_start (f : Z) (s : screen) : Z := if (f =? 83) || (f =? 84) then top s else cy s.

(* what Resize(w, h) does to one buffer: cells of the overlap keep text and
   style, except that a glyph cut by the new right edge is replaced by blanks in
   its own style; cells outside the old screen are blanks in the current style *)
Definition resize_cells (w h : Z) (s s' : screen) : Prop :=
  forall x y, 0 <= x < w -> 0 <= y < h ->
    cell_at s' x y =
      if (y <? sH s) && (x <? sW s) then
        if straddles (row_at s y) w x then unglyph (cell_at s x y) else cell_at s x y
      else blank (sty s).
(* the scroll region after a resize to height h: the bottom margin keeps its
   distance from the bottom edge; if that lifts it above the top margin the
   region becomes the whole screen *)
Definition resize_margins (h : Z) (s : screen) : Z * Z :=
  let b := clamp (h - (sH s - bot s)) 0 (h - 1) in
  if b <? top s then (0, h - 1) else (top s, b).
Definition resize_geometry (w h : Z) (s s' : screen) : Prop :=
  sW s' = w /\ sH s' = h
  /\ cursor_of s' = (clamp (cx s) 0 (w - 1), clamp (cy s) 0 (h - 1))
  /\ (svx s', svy s') = (clamp (svx s) 0 (w - 1), clamp (svy s) 0 (h - 1))
  /\ (top s', bot s') = resize_margins h s
  /\ awrap s' = awrap s /\ sty s' = sty s /\ crash s' = crash s.

(* ingredients of the concrete screens used by the examples: three styles,
   narrow cells, a wide glyph (head of width 2 + continuation cell of width 0) *)
Definition stA : style := mkStyle (CIdx 1) CDef 1.
Definition stB : style := mkStyle CDef (CRgb 255) 8.
Definition stC : style := mkStyle (CBright 3) (CIdx 4) 0.
Definition ch (c : Z) (st : style) : cell := mkCell [c] 1 st.
Definition wide (c : Z) (st : style) : list cell := glyph_cells [c] 2 st.

(* 5 columns x 7 rows (taller than wide).  Row 0: a b [中 ] c; row 1: [国 ] d [日 ];
   row 5 holds two wide glyphs.  Cursor on the continuation cell (4,1), current
   style stB, scroll region rows 1..5, saved cursor (1,2), autowrap on. *)
Definition ex_rows : list (list cell) :=
  [ [ch 97 stA; ch 98 stA] ++ wide 20013 stB ++ [ch 99 stC];
    wide 22269 stA ++ [ch 100 stB] ++ wide 26085 stC;
    [ch 101 stC; ch 102 stC; ch 103 stA; ch 104 stB; ch 105 stB];
    blank_row 5 stB;
    [ch 106 stA; ch 107 stA; ch 108 stA; ch 109 stA; ch 110 stA];
    wide 19968 stC ++ wide 20108 stA ++ [ch 111 stB];
    [ch 112 stC; ch 113 stC; ch 114 stC; ch 115 stC; ch 116 stC] ].
Definition ex_scr : screen := mkScreen ex_rows 5 7 4 1 1 2 1 5 true stB 0 0 [].
(* the same with the cursor at (x, y) *)
Definition ex_scr_at (x y : Z) : screen := set_cur x y ex_scr.
Definition term_of (s : screen) : term :=
  mkTerm s (init_screen (sW s) (sH s)) false
    [false; true; false; false; false; false] [0; 0; 0] [[]; []; []] kbd0 kbd0 [7] [].
Definition ex_term : term := term_of ex_scr.
(* the same terminal showing s on the alternate buffer *)
Definition term_of_alt (s : screen) : term :=
  mkTerm (init_screen (sW s) (sH s)) s true
    [false; true; false; false; false; false] [0; 0; 0] [[]; []; []] kbd0 kbd0 [7] [].

(* helpers for stating examples *)
(* rows of the active buffer after CSI ps f on a terminal showing s *)
Definition rows_after (ps : list Z) (f : Z) (s : screen) : list (list cell) :=
  rows (active (exec_csi_plain ps f (term_of s))).
Definition upd_rows (l : list (Z * list cell)) : list (list cell) :=
  fold_left (fun R p => zupd (fst p) (snd p) R) l ex_rows.
(* scroll margins after DECSTBM with parameters ps *)
Definition margins_after (ps : list Z) (s : screen) : Z * Z :=
  let s' := active (exec_csi_plain ps 114 (term_of s)) in (top s', bot s').
(* main buffer of ex_term after Resize(w, h) *)
Definition resized (w h : Z) : screen := tmain (resize w h ex_term).
