(* Reference decoders for C12, written from keyboard-protocol.rst and
   independent of the encoder in Model/Keys.v.  The only generated data used
   here is the rst functional-key table (Gen_KittySpec.v) and, for naming keys,
   the KeyCode constants of Gen_KeyTables.v.  Definitions only. *)
From Coq Require Import List ZArith Bool String.
From Termemu Require Import Base KeyKinds Gen_KeyTables Gen_KittySpec.
Import ListNotations.
Open Scope Z_scope.

(* ---------------------------------------------------------------------- *)
(* CSI parameter scanner: after "ESC [", digits, ':' (sub-field), ';' (field),
   then exactly one final byte which must be the last byte.  An empty sub-field
   is None.  "ESC [ A" scans to ([[None]], 65). *)

Definition is_digit (b : Z) : bool := (48 <=? b) && (b <=? 57).

Definition push_digit (cur : option Z) (b : Z) : option Z :=
  Some (10 * (match cur with Some c => c | None => 0 end) + (b - 48)).

Fixpoint scan (l : list Z) (cur : option Z) (subs : list (option Z)) (flds : list (list (option Z)))
  : option (list (list (option Z)) * Z) :=
  match l with
  | [] => None
  | b :: r =>
      if is_digit b then scan r (push_digit cur b) subs flds
      else if b =? 58 then scan r None (cur :: subs) flds
      else if b =? 59 then scan r None [] (rev (cur :: subs) :: flds)
      else match r with
           | [] => Some (rev (rev (cur :: subs) :: flds), b)
           | _ => None
           end
  end.

Definition scan_csi (bs : list Z) : option (list (list (option Z)) * Z) :=
  match bs with
  | 27 :: 91 :: r => scan r None [] []
  | _ => None
  end.

(* ---------------------------------------------------------------------- *)
(* Key identity *)

Inductive keyid :=
| KFunc (name : string)     (* a key of the rst "Functional key codes" table *)
| KChar (cp : Z).           (* a Unicode key: its code point *)

Definition keyid_eqb (a b : keyid) : bool :=
  match a, b with
  | KFunc x, KFunc y => String.eqb x y
  | KChar x, KChar y => x =? y
  | _, _ => false
  end.

Fixpoint form_mem (num final : Z) (alts : list (Z * Z)) : bool :=
  match alts with
  | [] => false
  | (n, f) :: r => ((n =? num) && (f =? final)) || form_mem num final r
  end.

(* the functional key the rst table assigns to "CSI num ... final" *)
Fixpoint rst_lookup (tbl : list (string * list (Z * Z))) (num final : Z) : option string :=
  match tbl with
  | [] => None
  | (name, alts) :: r => if form_mem num final alts then Some name else rst_lookup r num final
  end.

Fixpoint rst_forms (tbl : list (string * list (Z * Z))) (name : string) : list (Z * Z) :=
  match tbl with
  | [] => []
  | (n, alts) :: r => if String.eqb n name then alts else rst_forms r name
  end.

(* ---------------------------------------------------------------------- *)
(* Kitty forms:
     CSI number[:shifted[:base]] [; mods[:event] [; text]] u
     CSI [1 ; mods[:event]] LETTER
     CSI number [; mods[:event]] ~                                         *)

Record kdecoded := mkDec {
  d_key : keyid;
  d_mods : Z;                (* the 8-bit modifier mask (field value - 1) *)
  d_event : Z;               (* 1 press, 2 repeat, 3 release *)
  d_shifted : option Z;
  d_base : option Z;
  d_text : list Z
}.

(* modifier field: absent or empty = 1; "m" ; "m:e" *)
Definition dec_modfield (f : list (option Z)) : option (Z * Z) :=
  match f with
  | [None] => Some (0, 1)
  | [Some m] => if (1 <=? m) && (m <=? 256) then Some (m - 1, 1) else None
  | [Some m; Some e] =>
      if (1 <=? m) && (m <=? 256) && (1 <=? e) && (e <=? 3) then Some (m - 1, e) else None
  | _ => None
  end.

Fixpoint dec_text (f : list (option Z)) : option (list Z) :=
  match f with
  | [] => Some []
  | Some c :: r => match dec_text r with Some t => Some (c :: t) | None => None end
  | None :: _ => None
  end.

(* key field of the u form: number, optional shifted, optional base *)
Definition dec_keyfield (f : list (option Z)) : option (Z * option Z * option Z) :=
  match f with
  | [Some k] => Some (k, None, None)
  | [Some k; Some s] => Some (k, Some s, None)
  | [Some k; None; Some b] => Some (k, None, Some b)
  | [Some k; Some s; Some b] => Some (k, Some s, Some b)
  | _ => None
  end.

Definition key_of_u (k : Z) : keyid :=
  match rst_lookup rst_functional k 117 with
  | Some name => KFunc name
  | None => KChar k
  end.

Definition is_upper (b : Z) : bool := (65 <=? b) && (b <=? 90).

Definition interp_kitty (flds : list (list (option Z))) (final : Z) : option kdecoded :=
  if final =? 117 then
    match flds with
    | kf :: rest =>
        match dec_keyfield kf with
        | None => None
        | Some (k, sh, ba) =>
            let mk m e t := Some (mkDec (key_of_u k) m e sh ba t) in
            match rest with
            | [] => mk 0 1 []
            | [mf] => match dec_modfield mf with Some (m, e) => mk m e [] | None => None end
            | [mf; tf] =>
                match dec_modfield mf, dec_text tf with
                | Some (m, e), Some t => mk m e t
                | _, _ => None
                end
            | _ => None
            end
        end
    | [] => None
    end
  else if final =? 126 then
    match flds with
    | [[Some n]] =>
        match rst_lookup rst_functional n 126 with
        | Some name => Some (mkDec (KFunc name) 0 1 None None [])
        | None => None
        end
    | [[Some n]; mf] =>
        match rst_lookup rst_functional n 126, dec_modfield mf with
        | Some name, Some (m, e) => Some (mkDec (KFunc name) m e None None [])
        | _, _ => None
        end
    | _ => None
    end
  else if is_upper final then
    match flds with
    | [[None]] =>
        match rst_lookup rst_functional 1 final with
        | Some name => Some (mkDec (KFunc name) 0 1 None None [])
        | None => None
        end
    | [[Some 1]; mf] =>
        match rst_lookup rst_functional 1 final, dec_modfield mf with
        | Some name, Some (m, e) => Some (mkDec (KFunc name) m e None None [])
        | _, _ => None
        end
    | _ => None
    end
  else None.

Definition decode_kitty (bs : list Z) : option kdecoded :=
  match scan_csi bs with
  | None => None
  | Some (flds, final) => interp_kitty flds final
  end.

(* ---------------------------------------------------------------------- *)
(* Naming the KeyCode constants of keys.go by the rst table (hand-written:
   this is the specification of which Go constant means which protocol key) *)

Open Scope string_scope.
Definition key_rst_name : list (Z * string) :=
  [(KeyUp, "UP"); (KeyDown, "DOWN"); (KeyRight, "RIGHT"); (KeyLeft, "LEFT");
   (KeyHome, "HOME"); (KeyEnd, "END"); (KeyInsert, "INSERT"); (KeyDelete, "DELETE");
   (KeyPageUp, "PAGE_UP"); (KeyPageDown, "PAGE_DOWN"); (KeyBackspace, "BACKSPACE");
   (KeyTab, "TAB"); (KeyEnter, "ENTER"); (KeyEscape, "ESCAPE");
   (KeyF1, "F1"); (KeyF2, "F2"); (KeyF3, "F3"); (KeyF4, "F4"); (KeyF5, "F5"); (KeyF6, "F6");
   (KeyF7, "F7"); (KeyF8, "F8"); (KeyF9, "F9"); (KeyF10, "F10"); (KeyF11, "F11"); (KeyF12, "F12");
   (KeyF13, "F13"); (KeyF14, "F14"); (KeyF15, "F15"); (KeyF16, "F16"); (KeyF17, "F17");
   (KeyF18, "F18"); (KeyF19, "F19"); (KeyF20, "F20"); (KeyF21, "F21"); (KeyF22, "F22");
   (KeyF23, "F23"); (KeyF24, "F24"); (KeyF25, "F25"); (KeyF26, "F26"); (KeyF27, "F27");
   (KeyF28, "F28"); (KeyF29, "F29"); (KeyF30, "F30"); (KeyF31, "F31"); (KeyF32, "F32");
   (KeyF33, "F33"); (KeyF34, "F34"); (KeyF35, "F35");
   (KeyCapsLock, "CAPS_LOCK"); (KeyScrollLock, "SCROLL_LOCK"); (KeyNumLock, "NUM_LOCK");
   (KeyPrintScreen, "PRINT_SCREEN"); (KeyPause, "PAUSE"); (KeyMenu, "MENU");
   (KeyKP0, "KP_0"); (KeyKP1, "KP_1"); (KeyKP2, "KP_2"); (KeyKP3, "KP_3"); (KeyKP4, "KP_4");
   (KeyKP5, "KP_5"); (KeyKP6, "KP_6"); (KeyKP7, "KP_7"); (KeyKP8, "KP_8"); (KeyKP9, "KP_9");
   (KeyKPDecimal, "KP_DECIMAL"); (KeyKPDivide, "KP_DIVIDE"); (KeyKPMultiply, "KP_MULTIPLY");
   (KeyKPSubtract, "KP_SUBTRACT"); (KeyKPAdd, "KP_ADD"); (KeyKPEnter, "KP_ENTER");
   (KeyKPEqual, "KP_EQUAL"); (KeyKPSeparator, "KP_SEPARATOR"); (KeyKPLeft, "KP_LEFT");
   (KeyKPRight, "KP_RIGHT"); (KeyKPUp, "KP_UP"); (KeyKPDown, "KP_DOWN");
   (KeyKPPageUp, "KP_PAGE_UP"); (KeyKPPageDown, "KP_PAGE_DOWN"); (KeyKPHome, "KP_HOME");
   (KeyKPEnd, "KP_END"); (KeyKPInsert, "KP_INSERT"); (KeyKPDelete, "KP_DELETE");
   (KeyKPBegin, "KP_BEGIN");
   (KeyMediaPlay, "MEDIA_PLAY"); (KeyMediaPause, "MEDIA_PAUSE"); (KeyMediaPlayPause, "MEDIA_PLAY_PAUSE");
   (KeyMediaReverse, "MEDIA_REVERSE"); (KeyMediaStop, "MEDIA_STOP");
   (KeyMediaFastForward, "MEDIA_FAST_FORWARD"); (KeyMediaRewind, "MEDIA_REWIND");
   (KeyMediaTrackNext, "MEDIA_TRACK_NEXT"); (KeyMediaTrackPrev, "MEDIA_TRACK_PREVIOUS");
   (KeyMediaRecord, "MEDIA_RECORD"); (KeyVolumeDown, "LOWER_VOLUME"); (KeyVolumeUp, "RAISE_VOLUME");
   (KeyVolumeMute, "MUTE_VOLUME");
   (KeyLeftShift, "LEFT_SHIFT"); (KeyLeftControl, "LEFT_CONTROL"); (KeyLeftAlt, "LEFT_ALT");
   (KeyLeftSuper, "LEFT_SUPER"); (KeyLeftHyper, "LEFT_HYPER"); (KeyLeftMeta, "LEFT_META");
   (KeyRightShift, "RIGHT_SHIFT"); (KeyRightControl, "RIGHT_CONTROL"); (KeyRightAlt, "RIGHT_ALT");
   (KeyRightSuper, "RIGHT_SUPER"); (KeyRightHyper, "RIGHT_HYPER"); (KeyRightMeta, "RIGHT_META");
   (KeyISOLevel3Shift, "ISO_LEVEL3_SHIFT"); (KeyISOLevel5Shift, "ISO_LEVEL5_SHIFT")].
Close Scope string_scope.

Fixpoint name_of (code : Z) (l : list (Z * string)) : option string :=
  match l with
  | [] => None
  | (c, n) :: r => if c =? code then Some n else name_of code r
  end.

(* ---------------------------------------------------------------------- *)
(* What a Kitty-form sequence must decode to (written from the rst, using
   only the event and the flags):
   - the key: the functional key named by the code, or the rune's code point
   - all 8 modifier bits
   - the event type when report-events is on (0 means press), else press
   - alternates when report-alternates is on: shifted only with Shift held
   - text when report-all-keys and report-text are on: the given text, or the
     rune itself for a text key without explicit text                       *)

Definition sp_has (x bit : Z) : bool := negb (Z.land x bit =? 0).

Definition canon_key (code rune : Z) : option keyid :=
  if code =? KeyRune then Some (KChar rune)
  else match name_of code key_rst_name with Some n => Some (KFunc n) | None => None end.

Definition canon_event (flags event : Z) : Z :=
  if sp_has flags KbdReportEvents then (if event =? 0 then 1 else event) else 1.

Definition canon_shifted (flags mods shifted : Z) : option Z :=
  if sp_has flags KbdReportAlternates && sp_has mods ModShift && negb (shifted =? 0) then Some shifted else None.
Definition canon_base (flags base : Z) : option Z :=
  if sp_has flags KbdReportAlternates && negb (base =? 0) then Some base else None.

Definition canon_text (flags code rune : Z) (text : list Z) : list Z :=
  if sp_has flags KbdReportAllKeys && sp_has flags KbdReportText then
    match text with
    | [] => if (code =? KeyRune) && negb (rune =? 0) then [rune] else []
    | _ => text
    end
  else [].

(* alternates and text exist only in the "u" form: a functional key whose rst
   form is "1 LETTER" or "n ~" has neither *)
Definition has_u_form (k : keyid) : bool :=
  match k with
  | KChar _ => true
  | KFunc n => existsb (fun nf : Z * Z => snd nf =? 117) (rst_forms rst_functional n)
  end.

Definition canon (flags : Z) (code rune mods event shifted base : Z) (text : list Z) : option kdecoded :=
  match canon_key code rune with
  | None => None
  | Some k =>
      if has_u_form k then
        Some (mkDec k mods (canon_event flags event) (canon_shifted flags mods shifted)
                    (canon_base flags base) (canon_text flags code rune text))
      else Some (mkDec k mods (canon_event flags event) None None [])
  end.

(* ---------------------------------------------------------------------- *)
(* Legacy forms *)

(* UTF-8 decoding of exactly one scalar value (shortest form, no surrogates) *)
Definition cont (b : Z) : bool := (128 <=? b) && (b <=? 191).
Definition utf8_decode1 (bs : list Z) : option Z :=
  match bs with
  | [a] => if (0 <=? a) && (a <? 128) then Some a else None
  | [a; b] =>
      if (194 <=? a) && (a <=? 223) && cont b then Some ((a - 192) * 64 + (b - 128)) else None
  | [a; b; c] =>
      if (224 <=? a) && (a <=? 239) && cont b && cont c then
        let r := (a - 224) * 4096 + (b - 128) * 64 + (c - 128) in
        if (2048 <=? r) && negb ((55296 <=? r) && (r <=? 57343)) then Some r else None
      else None
  | [a; b; c; d] =>
      if (240 <=? a) && (a <=? 244) && cont b && cont c && cont d then
        let r := (a - 240) * 262144 + (b - 128) * 4096 + (c - 128) * 64 + (d - 128) in
        if (65536 <=? r) && (r <=? 1114111) then Some r else None
      else None
  | _ => None
  end.

(* the xterm "Legacy functional encoding" table of the rst, by final byte /
   tilde number (hand-copied from the csv-table "Legacy functional encoding") *)
Open Scope string_scope.
Definition legacy_letter : list (Z * string) :=
  [(65, "UP"); (66, "DOWN"); (67, "RIGHT"); (68, "LEFT"); (72, "HOME"); (70, "END");
   (80, "F1"); (81, "F2"); (82, "F3"); (83, "F4")].
Definition legacy_tilde : list (Z * string) :=
  [(2, "INSERT"); (3, "DELETE"); (5, "PAGE_UP"); (6, "PAGE_DOWN");
   (15, "F5"); (17, "F6"); (18, "F7"); (19, "F8"); (20, "F9"); (21, "F10"); (23, "F11"); (24, "F12")].
Close Scope string_scope.

Inductive lform :=
| LFSS3        (* ESC O letter *)
| LFCSI        (* ESC [ letter *)
| LFCSI1       (* ESC [ 1 ; m letter *)
| LFTilde      (* ESC [ n ~ *)
| LFTildeMod   (* ESC [ n ; m ~ *)
| LFOther.     (* ESC [ 27 ; m ; code ~  (modifyOtherKeys) *)

Record ldecoded := mkLDec {
  l_key : keyid;
  l_mods : Z;         (* Shift/Alt/Ctrl only: xterm parameter - 1 *)
  l_form : lform
}.

Definition xterm_mods (m : Z) : option Z := if (1 <=? m) && (m <=? 8) then Some (m - 1) else None.

Definition decode_legacy_functional (bs : list Z) : option ldecoded :=
  match bs with
  | [27; 79; f] =>
      match name_of f legacy_letter with Some n => Some (mkLDec (KFunc n) 0 LFSS3) | None => None end
  | _ =>
      match scan_csi bs with
      | Some ([[None]], f) =>
          if is_upper f then
            match name_of f legacy_letter with Some n => Some (mkLDec (KFunc n) 0 LFCSI) | None => None end
          else None
      | Some ([[Some 1]; [Some m]], f) =>
          if is_upper f then
            match name_of f legacy_letter, xterm_mods m with
            | Some n, Some md => Some (mkLDec (KFunc n) md LFCSI1)
            | _, _ => None
            end
          else None
      | Some ([[Some n]], 126) =>
          match name_of n legacy_tilde with Some nm => Some (mkLDec (KFunc nm) 0 LFTilde) | None => None end
      | Some ([[Some n]; [Some m]], 126) =>
          match name_of n legacy_tilde, xterm_mods m with
          | Some nm, Some md => Some (mkLDec (KFunc nm) md LFTildeMod)
          | _, _ => None
          end
      | Some ([[Some 27]; [Some m]; [Some c]], 126) =>
          match xterm_mods m with Some md => Some (mkLDec (KChar c) md LFOther) | None => None end
      | _ => None
      end
  end.

(* Shift/Alt/Ctrl projection of a modifier mask *)
Definition sac (mods : Z) : Z := Z.land mods 7.

(* legacy text: optional ESC (Alt), then either one C0/DEL control byte or the
   UTF-8 of one scalar *)
Inductive ltext :=
| LTChar (alt : bool) (cp : Z)
| LTCtl (alt : bool) (b : Z).

Definition decode_legacy_text (bs : list Z) : option ltext :=
  let body alt l :=
    match l with
    | [b] => if (b <? 32) || (b =? 127) then (if 0 <=? b then Some (LTCtl alt b) else None)
             else match utf8_decode1 l with Some r => Some (LTChar alt r) | None => None end
    | _ => match utf8_decode1 l with Some r => Some (LTChar alt r) | None => None end
    end in
  match bs with
  | [27] => Some (LTCtl false 27)
  | 27 :: r => body true r
  | _ => body false bs
  end.
