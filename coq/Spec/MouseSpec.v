(* Reference decoders for xterm mouse reports, written from ctlseqs ("Mouse
   Tracking", "Extended coordinates"), independently of the encoder in
   Model/Mouse.v.

   Normal / X10-compatible:  CSI M Cb Cx Cy   three single bytes, each value + 32;
                             coordinates are 1-based and limited to 223.
   UTF-8 (DEC 1005):         CSI M Cb Cx Cy   each of the three is a UTF-8 character
                             of one or two bytes (values up to 2047 after adding 32).
   SGR (DEC 1006):           CSI < Pb ; Px ; Py M|m   decimal parameters, no offset;
                             final M = press, m = release.
   Button code (Cb - 32, or Pb): low two bits 0,1,2 = button 1,2,3 and 3 = release
   (in the CSI M forms) / no button; +4 shift, +8 meta, +16 control; +32 motion;
   +64 wheel (low two bits then select wheel button 4..7).  Codes from 128 up
   (xterm's buttons 8..11) are not decoded. *)
From Coq Require Import List ZArith Bool.
From Termemu Require Import Base.
Import ListNotations.
Open Scope Z_scope.

Record report := mkReport {
  r_btn : Z;          (* low two bits of the code: 0..2 button 1..3 (wheel: 0..3 = wheel button 4..7), 3 = none *)
  r_mods : Z;         (* 4 shift + 8 meta + 16 control *)
  r_motion : bool;    (* +32 *)
  r_wheel : bool;     (* +64 *)
  r_release : bool;   (* CSI M: code 3 without motion/wheel; SGR: final byte m *)
  r_x : Z; r_y : Z    (* 1-based cell *)
}.

Inductive kind := KPress | KRelease | KMotion | KWheel.

Definition kind_of (r : report) : kind :=
  if r_wheel r then KWheel
  else if r_motion r then KMotion
  else if r_release r then KRelease else KPress.

(* the same classification of the event handed to SendMouseRaw *)
Definition has_motion (mods : Z) : bool := Z.testbit mods 5.
Definition has_wheel (mods : Z) : bool := Z.testbit mods 6.
Definition key_mods (mods : Z) : Z := Z.land mods 28.
Definition event_kind (press : bool) (mods : Z) : kind :=
  if has_wheel mods then KWheel
  else if has_motion mods then KMotion
  else if press then KPress else KRelease.

(* ---- which events are reported in each tracking mode (ctlseqs: X10 compatibility
   mode 9 sends button presses only; 1000 adds releases (and wheel); 1002 adds
   motion while a button is down; 1003 reports all motion).  btn = 3 is "no button". ---- *)
Definition mouse_passes (mode btn : Z) (press : bool) (mods : Z) : bool :=
  if mode =? 0 then false
  else if mode =? 1 then press && negb (has_motion mods) && negb (has_wheel mods)
  else if mode =? 2 then negb (has_motion mods)
  else if mode =? 3 then negb (has_motion mods && (btn =? 3))
  else true.

(* ---- what the report of an event must say ---- *)
(* CSI M forms (X10, UTF-8): a release does not say which button went up *)
Definition expected_m (btn : Z) (press : bool) (mods x y : Z) : report :=
  let b := if press then btn else 3 in
  mkReport b (key_mods mods) (has_motion mods) (has_wheel mods)
           ((b =? 3) && negb (has_motion mods) && negb (has_wheel mods)) x y.
(* SGR keeps the button and marks the release in the final byte *)
Definition expected_sgr (btn : Z) (press : bool) (mods x y : Z) : report :=
  mkReport btn (key_mods mods) (has_motion mods) (has_wheel mods) (negb press) x y.

(* X10 has one byte per coordinate (at most 255 - 32), the UTF-8 form two bytes
   (at most 2047 - 32); larger coordinates are reported as the largest one, as
   xterm does.  SGR has no limit. *)
Definition expected_report (enc btn : Z) (press : bool) (mods x y : Z) : report :=
  if enc =? 0 then expected_m btn press mods (Z.min x 223) (Z.min y 223)
  else if enc =? 1 then expected_m btn press mods (Z.min x 2015) (Z.min y 2015)
  else expected_sgr btn press mods x y.

Definition report_of_code (c : Z) (release : bool) (x y : Z) : report :=
  mkReport (Z.land c 3) (Z.land c 28) (Z.testbit c 5) (Z.testbit c 6) release x y.

(* CSI M forms: a code whose low bits are 3 is a release unless it is a motion or wheel code *)
Definition report_of_code_m (c x y : Z) : option report :=
  if (0 <=? c) && (c <? 128) then
    Some (report_of_code c ((Z.land c 3 =? 3) && negb (Z.testbit c 5) && negb (Z.testbit c 6)) x y)
  else None.

(* ---- X10 ---- *)
Definition is_byte_ge32 (b : Z) : bool := (32 <=? b) && (b <=? 255).

Definition decode_x10 (l : list Z) : option report :=
  match l with
  | [27; 91; 77; cb; cx; cy] =>
      if is_byte_ge32 cb && is_byte_ge32 cx && is_byte_ge32 cy
      then report_of_code_m (cb - 32) (cx - 32) (cy - 32)
      else None
  | _ => None
  end.

(* ---- UTF-8 (one- and two-byte forms only; overlong forms rejected) ---- *)
Definition utf8_char (l : list Z) : option (Z * list Z) :=
  match l with
  | [] => None
  | b0 :: r =>
      if (0 <=? b0) && (b0 <=? 127) then Some (b0, r)
      else if (194 <=? b0) && (b0 <=? 223) then
        match r with
        | b1 :: r' =>
            if (128 <=? b1) && (b1 <=? 191) then Some ((b0 - 192) * 64 + (b1 - 128), r') else None
        | [] => None
        end
      else None
  end.

Definition decode_utf8 (l : list Z) : option report :=
  match l with
  | 27 :: 91 :: 77 :: l1 =>
      match utf8_char l1 with
      | Some (cb, l2) =>
          match utf8_char l2 with
          | Some (cx, l3) =>
              match utf8_char l3 with
              | Some (cy, []) =>
                  if (32 <=? cb) && (32 <=? cx) && (32 <=? cy)
                  then report_of_code_m (cb - 32) (cx - 32) (cy - 32)
                  else None
              | _ => None
              end
          | None => None
          end
      | None => None
      end
  | _ => None
  end.

(* ---- SGR ---- *)
Definition is_digit (d : Z) : bool := (48 <=? d) && (d <=? 57).

(* a non-empty run of decimal digits; [seen] records that at least one was read *)
Fixpoint parse_dec (seen : bool) (acc : Z) (l : list Z) : option (Z * list Z) :=
  match l with
  | d :: r => if is_digit d then parse_dec true (10 * acc + (d - 48)) r
              else if seen then Some (acc, l) else None
  | [] => if seen then Some (acc, l) else None
  end.

Definition decode_sgr (l : list Z) : option report :=
  match l with
  | 27 :: 91 :: 60 :: l1 =>
      match parse_dec false 0 l1 with
      | Some (pb, 59 :: l2) =>
          match parse_dec false 0 l2 with
          | Some (px, 59 :: l3) =>
              match parse_dec false 0 l3 with
              | Some (py, [fin]) =>
                  if ((fin =? 77) || (fin =? 109)) && (pb <? 128)
                  then Some (report_of_code pb (fin =? 109) px py)
                  else None
              | _ => None
              end
          | _ => None
          end
      | _ => None
      end
  | _ => None
  end.

Definition decode (enc : Z) (l : list Z) : option report :=
  if enc =? 0 then decode_x10 l else if enc =? 1 then decode_utf8 l
  else if enc =? 2 then decode_sgr l else None.

(* ---- general UTF-8 decoding of one scalar value (RFC 3629), used to state what
   Go's string(rune(v)) produces outside the two-byte range ---- *)
Definition is_cont (b : Z) : bool := (128 <=? b) && (b <=? 191).
Definition utf8_scalar (l : list Z) : option (Z * list Z) :=
  match l with
  | [] => None
  | b0 :: r =>
      if (0 <=? b0) && (b0 <=? 127) then Some (b0, r)
      else if (194 <=? b0) && (b0 <=? 223) then
        match r with
        | b1 :: r' => if is_cont b1 then Some ((b0 - 192) * 64 + (b1 - 128), r') else None
        | _ => None
        end
      else if (224 <=? b0) && (b0 <=? 239) then
        match r with
        | b1 :: b2 :: r' =>
            let v := (b0 - 224) * 4096 + (b1 - 128) * 64 + (b2 - 128) in
            if is_cont b1 && is_cont b2 && (2048 <=? v) && negb ((55296 <=? v) && (v <=? 57343))
            then Some (v, r') else None
        | _ => None
        end
      else if (240 <=? b0) && (b0 <=? 244) then
        match r with
        | b1 :: b2 :: b3 :: r' =>
            let v := (b0 - 240) * 262144 + (b1 - 128) * 4096 + (b2 - 128) * 64 + (b3 - 128) in
            if is_cont b1 && is_cont b2 && is_cont b3 && (65536 <=? v) && (v <=? 1114111)
            then Some (v, r') else None
        | _ => None
        end
      else None
  end.

(* ---- vocabulary of the C13 statements ---- *)
(* the domain of events: MBtn1, MBtn2, MBtn3, MRelease; the 32 flag sets, i.e. any
   combination of shift 4, meta 8, control 16, motion 32, wheel 64 *)
Definition button (b : Z) : Prop := 0 <= b <= 3.
Definition flagset (m : Z) : Prop := 0 <= m < 128 /\ m mod 4 = 0.

(* a byte that is not a control character *)
Definition printable (b : Z) : Prop := 32 <= b <= 255.

(* scripted backend: the i-th Write call returns (n, err).  A call is good when it
   takes at least one byte and does not fail.  The script stops a write of len bytes
   early when its first call that is not good comes while bytes remain. *)
Definition sum_n (l : list (Z * bool)) : Z := fold_right (fun p a => fst p + a) 0 l.
Definition good (p : Z * bool) : Prop := snd p = false /\ 0 < fst p.
Definition stops_early (len : Z) (s : list (Z * bool)) : Prop :=
  exists k n e, nth_error s k = Some (n, e) /\ (e = true \/ n <= 0) /\
                Forall good (firstn k s) /\ sum_n (firstn k s) < len.

Definition scalar_value (v : Z) : Prop := 0 <= v <= 1114111 /\ ~ (55296 <= v <= 57343).

(* the two registers SendMouseRaw reads (viewInts[VIMouseMode], viewInts[VIMouseEncoding])
   hold a tracking mode 0..4 and an encoding 0..2 *)
Definition mouse_regs_ok (l : list Z) : Prop :=
  0 <= znth 0 l 0 <= 4 /\ 0 <= znth 1 l 0 <= 2.
