(* Abstract specification of the Kitty keyboard-flag stack (keyboard-protocol.rst,
   "Progressive enhancement"): the current flags and the history of saved flags,
   newest first; only the 32 newest saved entries are remembered. *)
From Coq Require Import List ZArith Bool.
Import ListNotations.
Open Scope Z_scope.

Record aks := mkAks { aflags : Z; ahist : list Z }.
Definition aks0 := mkAks 0 [].

Inductive kop := KSet (flags mode : Z) | KPush (flags : Z) | KPop (n : Z).

Definition spec_set (flags mode : Z) (a : aks) : aks :=
  let flags := Z.max 0 flags in
  let mode := if mode <=? 0 then 1 else mode in
  if mode =? 1 then mkAks flags (ahist a)
  else if mode =? 2 then mkAks (Z.lor (aflags a) flags) (ahist a)
  else if mode =? 3 then mkAks (Z.ldiff (aflags a) flags) (ahist a)
  else a.

Definition spec_push (flags : Z) (a : aks) : aks :=
  mkAks flags (firstn 32 (aflags a :: ahist a)).

(* pop n: restore the n-th newest saved flags; emptying the stack resets the flags to 0 *)
Definition spec_pop (n : Z) (a : aks) : aks :=
  let k := Z.to_nat (if n <=? 0 then 1 else n) in
  if (length (ahist a) <? k)%nat then mkAks 0 []
  else mkAks (nth (k - 1) (ahist a) 0) (skipn k (ahist a)).

Definition spec_step (a : aks) (o : kop) : aks :=
  match o with
  | KSet f m => spec_set f m a
  | KPush f => spec_push f a
  | KPop n => spec_pop n a
  end.
