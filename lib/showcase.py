#!/usr/bin/env python3
import sys
cid=sys.argv[1]
txt=open('/verif/build/cases.txt').read()
on=False
for line in txt.splitlines():
    if line.startswith('#'):
        on = line[1:].strip()==cid
        if on: print(line)
        continue
    if on:
        f=line.split()
        if f[0]=='110':
            print('110', repr(bytes(int(x) for x in f[1:])))
        else:
            print(line)
